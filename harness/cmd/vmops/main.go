// Command vmops: correspondence + oracle stream for C13 (NeoVM instruction semantics).
//
// Every case is a script (+ pre-pushed primitive arguments, gas limit). It is run on the real VM
// (vm.New, LoadScript, Run) twice (determinism incl. gas), the observation
// "HALT gas=… [stack]" / "FAULT gas=…" is printed in canonical form, and the Lean driver
// (drv_vmops, the executable specification) prints its own. Oracles on the real VM:
//   - algebraic characterisation of every integer instruction (oracle.go),
//   - every integer on a result stack is within 256 bits,
//   - determinism, no escaping panic,
//   - spec-diff: the harness itself pipes the cases through the driver (if built) and reports
//     every case where the real VM differs from the specification, keyed by instruction family.
package main

import (
	"bufio"
	"bytes"
	"fmt"
	"hash/fnv"
	"math/big"
	"os"
	"os/exec"
	"path/filepath"
	"runtime"
	"runtime/debug"
	"runtime/pprof"
	"strings"

	"github.com/nspcc-dev/neo-go/pkg/vm/opcode"

	"verif/harness/internal/hx"
	"verif/harness/internal/prng"
)

type lineRec struct {
	k      int
	family string
	op     string
	obs    string
	refs   int // VerifRefs() of the real VM after Run
	halt   bool
	fault  bool
	marker bool // a "case k" line: no driver round trip
}

var (
	o    *hx.Out
	pipe *specPipe
)

// emit runs one script line of case k on the real VM (twice) and records it.
func emit(k int, c *vcase) vres {
	// the op line (what the specification gets) and a private copy of every script are taken BEFORE the real VM
	// sees the script bytes: both runs execute the very same byte slices (as a node executes a cached contract
	// script again and again), and nothing may have written into them afterwards
	op := c.opLine()
	before := [][]byte{append([]byte{}, c.script...)}
	for _, p := range c.pre {
		before = append(before, append([]byte{}, p.script...))
	}
	var m0 runtime.MemStats
	if os.Getenv("VMOPS_ALLOC") != "" {
		runtime.ReadMemStats(&m0)
	}
	trace = true
	r1 := execReal(c)
	trace = false
	if os.Getenv("VMOPS_ALLOC") != "" {
		var m1 runtime.MemStats
		runtime.ReadMemStats(&m1)
		if d := m1.TotalAlloc - m0.TotalAlloc; d > 100<<20 {
			fmt.Fprintf(os.Stderr, "ALLOC %dMB case %d %s -> %s\n", d>>20, k, trunc(op), trunc(r1.obs))
		}
	}
	r2 := execReal(c)
	if r1.obs != r2.obs || r1.gas != r2.gas {
		o.Fail("nondeterministic", k, "two runs of the same script bytes differ: %q vs %q (%s)", r1.obs, r2.obs, op)
	}
	if !bytes.Equal(before[0], c.script) {
		o.Fail("script-self-modified", k, "the VM wrote into the script: %s -> %s (%s)", hexs(before[0]), hexs(c.script), op)
		copy(c.script, before[0])
	}
	for i, p := range c.pre {
		if !bytes.Equal(before[i+1], p.script) {
			o.Fail("script-self-modified", k, "the VM wrote into a loaded script: %s -> %s (%s)", hexs(before[i+1]), hexs(p.script), op)
			copy(p.script, before[i+1])
		}
	}
	if r1.panicd {
		o.Fail("panic-escapes-run", k, "%s", op)
	}
	if r1.halt {
		if bad := allInRange(r1.stack); bad != "" {
			o.Fail("integer-out-of-range", k, "integer %s on the result stack (%s)", bad, c.opLine())
		}
		if n, cyc := walkRefs(r1.stack); !cyc && n != r1.refs {
			o.Count("refs!=reach(acyclic)")
			if os.Getenv("VMOPS_DEBUG") != "" {
				fmt.Fprintf(os.Stderr, "REFS refs=%d walk=%d %s => %s\n", r1.refs, n, c.opLine(), r1.obs)
			}
		} else if cyc {
			o.Count("result:cyclic")
		}
	}
	pipe.send(lineRec{k: k, family: c.family, op: op, obs: r1.obs, refs: r1.refs, halt: r1.halt, fault: r1.fault})
	switch {
	case r1.halt:
		o.Count("outcome:HALT")
	case r1.fault:
		o.Count("outcome:FAULT")
	default:
		o.Count("outcome:other")
	}
	o.Count("family:" + c.family)
	return r1
}

func seenKey(c *vcase) string {
	h := fnv.New64a()
	for _, p := range c.pre {
		fmt.Fprintf(h, "%d:", p.rv)
		h.Write(p.script)
		h.Write([]byte{'|'})
	}
	h.Write(c.script)
	for _, a := range c.args {
		h.Write([]byte(a.String()))
	}
	fmt.Fprintf(h, "|%d", c.gas)
	return fmt.Sprintf("%x", h.Sum64())
}

func main() {
	runtime.GOMAXPROCS(3) // the machine is shared; the GC workers of 16 Ps only burn system time
	debug.SetGCPercent(400)
	debug.SetMemoryLimit(3 << 30) // a case that makes the real VM allocate gigabytes must not raise the GC goal for the rest of the run
	if os.Getenv("VMOPS_GC") != "" {
		var n int
		fmt.Sscan(os.Getenv("VMOPS_GC"), &n)
		debug.SetGCPercent(n)
	}
	f := hx.ParseFlags()
	o = hx.NewOut(f.Out)
	defer o.Close()
	pipe = startSpecPipe()

	corpus := append(append(append(buildCorpus(), multiCorpus()...), budgetCorpus()...), aliasCorpus()...)
	// the coverage matrix follows the hand-written corpus (cases nCorpus .. nCorpus+len(matrix)-1)
	nCorpus := len(corpus)
	heavyMatrix = f.Tier == "thorough"
	matrix := buildMatrix()
	for _, mc := range matrix {
		matrixRegister(mc)
		corpus = append(corpus, mc.c)
	}
	// … followed by the operand-validation-on-the-unused-path class
	nMatrixEnd := len(corpus)
	unused := buildUnusedPath()
	for _, u := range unused {
		corpus = append(corpus, u.c)
	}
	nGen := f.N(30000, 3000000)
	if f.Tier == "thorough" {
		bigDiv = 12
	}
	total := len(corpus) + nGen
	exh := 0
	if f.Tier == "thorough" {
		exh = len(seqOps) * len(seqOps) * len(seqOps)
		total += 2 * exh
	}
	for k := 0; k < total; k++ {
		if !f.Want(k) {
			continue
		}
		r := prng.ForCase(f.Seed, k)
		g := &gen{r: r}
		pipe.send(lineRec{k: k, marker: true})
		var c *vcase
		var ints []*big.Int
		var iop opcode.Opcode
		switch {
		case k >= nCorpus && k < nMatrixEnd:
			// one matrix case: plain run, and wrapped in TRY if it faults (catchable or not)
			mc := matrix[k-nCorpus]
			res := emit(k, mc.c)
			outcome := byte('H')
			if !res.halt {
				outcome = 'F'
				if w := emit(k, wrapTry(mc.c)); w.halt {
					outcome = 'C'
				}
			}
			matrixRecord(mc, outcome, res.ran[mc.op])
			o.Count("gen:matrix")
			o.Seen(seenKey(mc.c))
			continue
		case k >= nMatrixEnd && k < len(corpus):
			u := unused[k-nMatrixEnd]
			res := emit(k, u.c)
			if u.wrap && !res.halt {
				emit(k, wrapTry(u.c))
			}
			o.Count("gen:unused-path")
			o.Seen(seenKey(u.c))
			continue
		case k < len(corpus):
			c = corpus[k]
			o.Count("gen:corpus")
		case k >= len(corpus)+nGen: // thorough: all 3-instruction sequences on two start stacks
			j := k - len(corpus) - nGen
			start := []arg{{kind: 'i', i: bi(2)}, {kind: 'i', i: bi(-1)}, {kind: 'i', i: bi(3)}}
			if j >= exh {
				j -= exh
				start = []arg{{kind: 's', bs: []byte{1, 2}}, {kind: 'i', i: bi(1)}, {kind: 'i', i: bi(0)}}
			}
			c = exhaustiveSeq(j, start)
			o.Count("gen:seq3-exhaustive")
		default:
			switch w := r.Intn(100); {
			case w < 2:
				g.convLines(k)
				o.Count("gen:conversion.go")
				continue
			case w < 30:
				sp := opSpecs[(k-len(corpus))%len(opSpecs)]
				c = g.singleOp(sp)
				o.Count("gen:single")
				o.Count("op:" + sp.op.String())
			case w < 52:
				c = g.correlated()
				ints, iop = c.ints, c.iop
				o.Count("gen:correlated")
				if c.hasInts {
					o.Count("op:" + iop.String())
				}
			case w < 58:
				c = g.spliceCase()
				o.Count("gen:splice")
			case w < 63:
				c = g.equalCase()
				o.Count("gen:equal")
			case w < 68:
				c = g.heapCase()
				o.Count("gen:heap")
			case w < 70:
				c = g.mapCase()
				o.Count("gen:map")
			case w < 73:
				c = g.slotCase()
				o.Count("gen:slots")
			case w < 75:
				c = g.seqCase(r.Range(1, 3))
				o.Count("gen:seq<=3")
			case w < 80:
				c = g.seqCase(r.Range(4, 14))
				o.Count("gen:seq-long")
			case w < 89:
				c = g.ctlCase()
				o.Count("gen:control")
			case w < 91:
				c = g.multiCase()
				o.Count("gen:multi-script")
			case w < 93:
				c = g.aliasCase()
				o.Count("gen:alias")
			case w < 97:
				c = g.mutate(g.ctlCase())
				o.Count("gen:control-mutated")
			default:
				c = g.randomBytes()
				o.Count("gen:random-bytes")
			}
		}
		res := emit(k, c)
		if c.hasInts {
			if msg := checkInts(c.iop, c.ints, res); msg != "" {
				o.Fail("math:"+c.family, k, "%s", msg)
			}
		}
		_ = ints
		_ = iop
		// variants of the same case
		// (the systematic aliasing family is large: its members run plainly, twice, only)
		if (k < len(corpus) && c.family != "alias") || r.Intn(3) == 0 {
			w := emit(k, wrapTry(c))
			if res.fault && w.halt {
				o.Count("throw:catchable")
			} else if res.fault && w.fault {
				o.Count("fault:uncatchable")
			}
		}
		if res.halt && c.priced && res.gas > 0 && ((k < len(corpus) && c.family != "alias") || r.Intn(8) == 0) {
			// gas boundary: exactly enough, one unit short
			for _, lim := range []int64{res.gas, res.gas - 1} {
				c2 := *c
				c2.gas = lim
				g2 := emit(k, &c2)
				if lim == res.gas && !g2.halt {
					o.Fail("gas-limit-exact", k, "limit = consumption %d does not HALT: %s", lim, c2.opLine())
				}
				if lim == res.gas-1 && !g2.fault {
					o.Fail("gas-limit-exact", k, "limit %d below consumption %d does not FAULT: %s", lim, res.gas, c2.opLine())
				}
			}
			o.Count("variant:gas-boundary")
		}
		o.Seen(seenKey(c))
		if k >= len(corpus) && k < len(corpus)+3 {
			o.Sample(c.opLine() + " -> " + res.obs)
		}
	}
	if hp := os.Getenv("VMOPS_HEAP"); hp != "" {
		var ms runtime.MemStats
		runtime.ReadMemStats(&ms)
		fmt.Fprintf(os.Stderr, "Sys=%dMB HeapSys=%dMB HeapInuse=%dMB StackSys=%dMB NumGC=%d TotalAlloc=%dMB\n", ms.Sys>>20, ms.HeapSys>>20, ms.HeapInuse>>20, ms.StackSys>>20, ms.NumGC, ms.TotalAlloc>>20)
		fh, _ := os.Create(hp)
		pprof.WriteHeapProfile(fh)
		fh.Close()
	}
	pipe.finish()
	// the coverage obligations are enforced on complete runs only (not on a single-case replay)
	matrixFinish(f.Out, f.Only < 0)
	never, neverFault := 0, 0
	for i := 0; i < 256; i++ {
		op := opcode.Opcode(i)
		if !opcode.IsValid(op) {
			continue
		}
		o.Add("exec-ok:"+op.String(), execOK[i])
		o.Add("exec-fault:"+op.String(), execFault[i])
		if execOK[i] == 0 {
			never++
		}
		if execFault[i] == 0 {
			neverFault++
		}
	}
	o.Add("coverage:opcodes-never-completed", never)
	o.Add("coverage:opcodes-never-faulting", neverFault)
}

// specPipe streams the generated op lines through the Lean driver while the cases are produced and
// reports every case in which the real VM differs from the specification (the spec is the oracle
// of C13).
type specPipe struct {
	cmd     *exec.Cmd
	in      *bufio.Writer
	inRaw   interface{ Close() error }
	pending chan lineRec
	done    chan struct{}
	mism     []string
	mismK    []int
	mismFam  []string
	n        int
	excluded int
	short    bool
}

func startSpecPipe() *specPipe {
	p := &specPipe{pending: make(chan lineRec, 1<<14), done: make(chan struct{})}
	drv := os.Getenv("VERIF_DRIVER")
	if drv == "" {
		wd, _ := os.Getwd()
		drv = filepath.Join(wd, "..", "lean", ".lake", "build", "bin", "drv_vmops")
	}
	var sc *bufio.Scanner
	if _, err := os.Stat(drv); err != nil {
		o.Count("specdiff:driver-missing")
	} else {
		cmd := exec.Command(drv)
		stdin, err1 := cmd.StdinPipe()
		stdout, err2 := cmd.StdoutPipe()
		if err1 != nil || err2 != nil || cmd.Start() != nil {
			o.Count("specdiff:driver-error")
		} else {
			p.cmd, p.in, p.inRaw = cmd, bufio.NewWriterSize(stdin, 1<<16), stdin
			sc = bufio.NewScanner(stdout)
			sc.Buffer(make([]byte, 1<<20), 1<<28)
		}
	}
	// the reader goroutine owns o.Line / o.Case: it writes every line of the correspondence
	// stream in order, after the specification's answer for it has arrived.
	go func() {
		defer close(p.done)
		reported := map[int]bool{}
		for l := range p.pending {
			if l.marker {
				o.Case(l.k)
				continue
			}
			if sc == nil || !sc.Scan() {
				if sc != nil {
					p.short = true
					sc = nil
				}
				o.Line(l.op, l.obs)
				continue
			}
			p.n++
			m := strings.TrimRight(sc.Text(), "\r\n")
			// extended answer: "<observation> | refs=<n> cyc=<0|1>"
			specRefs, cyc := -1, false
			if i := strings.LastIndex(m, " | refs="); i >= 0 {
				var c int
				fmt.Sscanf(m[i:], " | refs=%d cyc=%d", &specRefs, &c)
				cyc = c == 1
				m = m[:i]
			}
			key := ""
			switch {
			case m != l.obs && l.fault && cyc && l.refs > 2048:
				// the real VM counts unreachable cyclic garbage and faults with "stack is too big"
				key = "refcount-cyclic-garbage"
			case m != l.obs:
				key = "specdiff:" + l.family
			case l.halt && !cyc && specRefs >= 0 && specRefs != l.refs:
				// same outcome, but the VM's item counter differs from the number of reachable
				// references although no cycle was ever built
				key = "refcount-acyclic"
			}
			if key == "refcount-cyclic-garbage" {
				// known divergence of the implementation from the specification (see known-findings):
				// reported by the oracle, kept out of the model/implementation correspondence
				o.Line(fmt.Sprintf("skip %d", l.k), fmt.Sprintf("skip %d", l.k))
				p.excluded++
			} else {
				o.Line(l.op, l.obs)
			}
			if key != "" && !reported[l.k] {
				reported[l.k] = true
				p.mismK = append(p.mismK, l.k)
				p.mismFam = append(p.mismFam, key)
				p.mism = append(p.mism, fmt.Sprintf("real VM: %s (refs %d) | specification: %s (refs %d, cycle built: %v) | %s", trunc(l.obs), l.refs, trunc(m), specRefs, cyc, trunc(l.op)))
			}
		}
	}()
	return p
}

func (p *specPipe) send(l lineRec) {
	if p.in != nil && !l.marker {
		if strings.HasPrefix(l.op, "run ") {
			p.in.WriteString("runx") // extended answer (reference count, cycles) for the oracles
			p.in.WriteString(strings.TrimPrefix(l.op, "run"))
		} else if strings.HasPrefix(l.op, "runm ") {
			p.in.WriteString("runmx")
			p.in.WriteString(strings.TrimPrefix(l.op, "runm"))
		} else {
			p.in.WriteString(l.op)
		}
		p.in.WriteByte('\n')
	}
	p.pending <- l
}

func (p *specPipe) finish() {
	if p.in != nil {
		p.in.Flush()
		p.inRaw.Close()
	}
	close(p.pending)
	<-p.done
	if p.cmd != nil {
		p.cmd.Wait()
	}
	for i := range p.mism {
		o.Fail(p.mismFam[i], p.mismK[i], "%s", p.mism[i])
	}
	o.Add("specdiff:lines", p.n)
	o.Add("tie-excluded:refcount-cyclic-garbage", p.excluded)
	if p.short {
		o.Count("specdiff:driver-short-output")
	}
}

func trunc(s string) string {
	if len(s) > 300 {
		return s[:300] + "…"
	}
	return s
}
