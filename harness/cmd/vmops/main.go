// Command vmops: correspondence + oracle stream for C13 (NeoVM instruction semantics).
//
// Every case is a script (+ pre-pushed primitive arguments, gas limit). It is run on the real VM
// (vm.New, LoadScript, Run) twice (determinism incl. gas), the observation
// "HALT gas=… [stack]" / "FAULT gas=…" is printed in canonical form, and the Lean driver
// (drv_vmops, the executable specification) prints its own. Oracles on the real VM:
//   - algebraic characterisation of every integer instruction (oracle.go),
//   - every integer on a result stack is within 256 bits,
//   - determinism, no escaping panic,
//   - spec-diff: the harness itself pipes the cases through the driver (if built) and reports
//     every case where the real VM differs from the specification, keyed by instruction family.
package main

import (
	"bufio"
	"fmt"
	"hash/fnv"
	"math/big"
	"os"
	"os/exec"
	"path/filepath"
	"runtime"
	"runtime/debug"
	"strings"
	"sync"

	"github.com/nspcc-dev/neo-go/pkg/vm/opcode"

	"verif/harness/internal/hx"
	"verif/harness/internal/prng"
)

type lineRec struct {
	k      int
	family string
	op     string
	obs    string
}

var (
	o    *hx.Out
	pipe *specPipe
)

// emit runs one script line of case k on the real VM (twice) and records it.
func emit(k int, c *vcase) vres {
	r1 := execReal(c)
	r2 := execReal(c)
	if r1.obs != r2.obs || r1.gas != r2.gas {
		o.Fail("nondeterministic", k, "two runs differ: %q vs %q (%s)", r1.obs, r2.obs, c.opLine())
	}
	if r1.panicd {
		o.Fail("panic-escapes-run", k, "%s", c.opLine())
	}
	if r1.halt {
		if bad := allInRange(r1.stack); bad != "" {
			o.Fail("integer-out-of-range", k, "integer %s on the result stack (%s)", bad, c.opLine())
		}
		if n, cyc := walkRefs(r1.stack); !cyc && n != r1.refs {
			o.Count("refs!=reach(acyclic)")
		} else if cyc {
			o.Count("result:cyclic")
		}
	}
	op := c.opLine()
	o.Line(op, r1.obs)
	pipe.send(lineRec{k: k, family: c.family, op: op, obs: r1.obs})
	switch {
	case r1.halt:
		o.Count("outcome:HALT")
	case r1.fault:
		o.Count("outcome:FAULT")
	default:
		o.Count("outcome:other")
	}
	o.Count("family:" + c.family)
	return r1
}

func seenKey(c *vcase) string {
	h := fnv.New64a()
	h.Write(c.script)
	for _, a := range c.args {
		h.Write([]byte(a.String()))
	}
	fmt.Fprintf(h, "|%d", c.gas)
	return fmt.Sprintf("%x", h.Sum64())
}

func main() {
	runtime.GOMAXPROCS(3) // the machine is shared; the GC workers of 16 Ps only burn system time
	debug.SetGCPercent(400)
	f := hx.ParseFlags()
	o = hx.NewOut(f.Out)
	defer o.Close()
	pipe = startSpecPipe()

	corpus := buildCorpus()
	nGen := f.N(60000, 3000000)
	total := len(corpus) + nGen
	exh := 0
	if f.Tier == "thorough" {
		exh = len(seqOps) * len(seqOps) * len(seqOps)
		total += 2 * exh
	}
	for k := 0; k < total; k++ {
		if !f.Want(k) {
			continue
		}
		r := prng.ForCase(f.Seed, k)
		g := &gen{r: r}
		o.Case(k)
		var c *vcase
		var ints []*big.Int
		var iop opcode.Opcode
		switch {
		case k < len(corpus):
			c = corpus[k]
			o.Count("gen:corpus")
		case k >= len(corpus)+nGen: // thorough: all 3-instruction sequences on two start stacks
			j := k - len(corpus) - nGen
			start := []arg{{kind: 'i', i: bi(2)}, {kind: 'i', i: bi(-1)}, {kind: 'i', i: bi(3)}}
			if j >= exh {
				j -= exh
				start = []arg{{kind: 's', bs: []byte{1, 2}}, {kind: 'i', i: bi(1)}, {kind: 'i', i: bi(0)}}
			}
			c = exhaustiveSeq(j, start)
			o.Count("gen:seq3-exhaustive")
		default:
			switch w := r.Intn(100); {
			case w < 30:
				sp := opSpecs[(k-len(corpus))%len(opSpecs)]
				c = g.singleOp(sp)
				o.Count("gen:single")
				o.Count("op:" + sp.op.String())
			case w < 52:
				c = g.correlated()
				ints, iop = c.ints, c.iop
				o.Count("gen:correlated")
				if c.hasInts {
					o.Count("op:" + iop.String())
				}
			case w < 58:
				c = g.spliceCase()
				o.Count("gen:splice")
			case w < 63:
				c = g.equalCase()
				o.Count("gen:equal")
			case w < 70:
				c = g.heapCase()
				o.Count("gen:heap")
			case w < 75:
				c = g.seqCase(r.Range(1, 3))
				o.Count("gen:seq<=3")
			case w < 80:
				c = g.seqCase(r.Range(4, 14))
				o.Count("gen:seq-long")
			case w < 93:
				c = g.ctlCase()
				o.Count("gen:control")
			case w < 97:
				c = g.mutate(g.ctlCase())
				o.Count("gen:control-mutated")
			default:
				c = g.randomBytes()
				o.Count("gen:random-bytes")
			}
		}
		res := emit(k, c)
		if c.hasInts {
			if msg := checkInts(c.iop, c.ints, res); msg != "" {
				o.Fail("math:"+c.family, k, "%s", msg)
			}
		}
		_ = ints
		_ = iop
		// variants of the same case
		if k < len(corpus) || r.Intn(3) == 0 {
			w := emit(k, wrapTry(c))
			if res.fault && w.halt {
				o.Count("throw:catchable")
			} else if res.fault && w.fault {
				o.Count("fault:uncatchable")
			}
		}
		if res.halt && c.priced && res.gas > 0 && (k < len(corpus) || r.Intn(8) == 0) {
			// gas boundary: exactly enough, one unit short
			for _, lim := range []int64{res.gas, res.gas - 1} {
				c2 := *c
				c2.gas = lim
				g2 := emit(k, &c2)
				if lim == res.gas && !g2.halt {
					o.Fail("gas-limit-exact", k, "limit = consumption %d does not HALT: %s", lim, c2.opLine())
				}
				if lim == res.gas-1 && !g2.fault {
					o.Fail("gas-limit-exact", k, "limit %d below consumption %d does not FAULT: %s", lim, res.gas, c2.opLine())
				}
			}
			o.Count("variant:gas-boundary")
		}
		o.Seen(seenKey(c))
		if k >= len(corpus) && k < len(corpus)+3 {
			o.Sample(c.opLine() + " -> " + res.obs)
		}
	}
	pipe.finish()
}

// specPipe streams the generated op lines through the Lean driver while the cases are produced and
// reports every case in which the real VM differs from the specification (the spec is the oracle
// of C13).
type specPipe struct {
	cmd     *exec.Cmd
	in      *bufio.Writer
	inRaw   interface{ Close() error }
	pending chan lineRec
	done    chan struct{}
	mu      sync.Mutex
	mism    []string
	mismK   []int
	mismFam []string
	n       int
}

func startSpecPipe() *specPipe {
	drv := os.Getenv("VERIF_DRIVER")
	if drv == "" {
		wd, _ := os.Getwd()
		drv = filepath.Join(wd, "..", "lean", ".lake", "build", "bin", "drv_vmops")
	}
	if _, err := os.Stat(drv); err != nil {
		o.Count("specdiff:driver-missing")
		return nil
	}
	cmd := exec.Command(drv)
	stdin, err1 := cmd.StdinPipe()
	stdout, err2 := cmd.StdoutPipe()
	if err1 != nil || err2 != nil || cmd.Start() != nil {
		o.Count("specdiff:driver-error")
		return nil
	}
	p := &specPipe{cmd: cmd, in: bufio.NewWriterSize(stdin, 1<<16), inRaw: stdin,
		pending: make(chan lineRec, 1<<14), done: make(chan struct{})}
	go func() {
		defer close(p.done)
		sc := bufio.NewScanner(stdout)
		sc.Buffer(make([]byte, 1<<20), 1<<28)
		reported := map[int]bool{}
		for sc.Scan() {
			l, ok := <-p.pending
			if !ok {
				return
			}
			p.n++
			m := strings.TrimRight(sc.Text(), "\r\n")
			if m != l.obs && !reported[l.k] {
				reported[l.k] = true
				p.mu.Lock()
				p.mismK = append(p.mismK, l.k)
				p.mismFam = append(p.mismFam, l.family)
				p.mism = append(p.mism, fmt.Sprintf("real VM: %s | specification: %s | %s", trunc(l.obs), trunc(m), trunc(l.op)))
				p.mu.Unlock()
			}
		}
	}()
	return p
}

func (p *specPipe) send(l lineRec) {
	if p == nil {
		return
	}
	p.in.WriteString(l.op)
	p.in.WriteByte('\n')
	p.pending <- l
}

func (p *specPipe) finish() {
	if p == nil {
		return
	}
	p.in.Flush()
	p.inRaw.Close()
	<-p.done
	p.cmd.Wait()
	for i := range p.mism {
		o.Fail("specdiff:"+p.mismFam[i], p.mismK[i], "%s", p.mism[i])
	}
	o.Add("specdiff:lines", p.n)
	if len(p.pending) != 0 {
		o.Count("specdiff:driver-short-output")
	}
}

func trunc(s string) string {
	if len(s) > 300 {
		return s[:300] + "…"
	}
	return s
}
