package main

import (
	"math/big"

	"github.com/nspcc-dev/neo-go/pkg/vm/opcode"
)

// buildCorpus: hand-written nasty cases, run first (cases 0..n-1).
func buildCorpus() []*vcase {
	var cs []*vcase
	add := func(fam string, build func(a *asm), args ...arg) {
		a := newAsm()
		build(a)
		s, ok := a.bytes()
		if !ok {
			panic("corpus: bad labels")
		}
		cs = append(cs, &vcase{script: s, args: args, gas: 1 << 20, priced: true, family: fam})
	}
	ints := func(fam string, op opcode.Opcode, ns ...*big.Int) {
		a := newAsm()
		a.op(op)
		s, _ := a.bytes()
		var as []arg
		for _, n := range ns {
			as = append(as, iarg(n))
		}
		cs = append(cs, &vcase{script: s, args: as, gas: -1, priced: true, family: fam, hasInts: true, iop: op, ints: ns})
	}
	two255 := pow2(255)
	// ---- arithmetic boundaries
	ints("arith", opcode.ADD, maxI, bi(1))
	ints("arith", opcode.ADD, maxI, bi(0))
	ints("arith", opcode.SUB, minI, bi(1))
	ints("arith", opcode.SUB, minI, bi(0))
	ints("arith", opcode.NEGATE, minI)
	ints("arith", opcode.ABS, minI)
	ints("arith", opcode.ABS, new(big.Int).Add(minI, bi(1)))
	ints("arith", opcode.INC, maxI)
	ints("arith", opcode.DEC, minI)
	ints("arith", opcode.MUL, pow2(128), pow2(127))
	ints("arith", opcode.MUL, pow2(128), new(big.Int).Neg(pow2(127)))
	ints("arith", opcode.MUL, new(big.Int).Neg(pow2(128)), new(big.Int).Neg(pow2(127)))
	ints("divmod", opcode.DIV, minI, bi(-1))
	ints("divmod", opcode.MOD, minI, bi(-1))
	ints("divmod", opcode.DIV, bi(-7), bi(2))
	ints("divmod", opcode.DIV, bi(7), bi(-2))
	ints("divmod", opcode.MOD, bi(-7), bi(2))
	ints("divmod", opcode.MOD, bi(7), bi(-2))
	ints("divmod", opcode.MOD, bi(-7), bi(-2))
	ints("divmod", opcode.DIV, bi(1), bi(0))
	ints("divmod", opcode.MOD, bi(1), bi(0))
	for _, n := range []int64{-1, 0, 1, 255, 256, 257} {
		ints("shift", opcode.SHL, bi(1), bi(n))
		ints("shift", opcode.SHR, bi(-1), bi(n))
		ints("shift", opcode.SHR, minI, bi(n))
		ints("shift", opcode.SHR, maxI, bi(n))
	}
	ints("shift", opcode.SHL, bi(1), bi(254))
	ints("shift", opcode.SHL, bi(-1), bi(255))
	ints("shift", opcode.SHL, bi(-1), bi(256))
	ints("shift", opcode.SHR, bi(-7), bi(1))
	ints("shift", opcode.SHR, bi(-8), bi(3))
	ints("shift", opcode.SHR, bi(-9), bi(3))
	ints("pow", opcode.POW, bi(2), bi(254))
	ints("pow", opcode.POW, bi(2), bi(255))
	ints("pow", opcode.POW, bi(-2), bi(255))
	ints("pow", opcode.POW, bi(-2), bi(256))
	ints("pow", opcode.POW, bi(0), bi(0))
	ints("pow", opcode.POW, bi(1), bi(256))
	ints("pow", opcode.POW, bi(-1), bi(257))
	ints("pow", opcode.POW, bi(3), bi(-1))
	ints("sqrt", opcode.SQRT, bi(0))
	ints("sqrt", opcode.SQRT, bi(-1))
	ints("sqrt", opcode.SQRT, maxI)
	ints("sqrt", opcode.SQRT, bi(15))
	ints("sqrt", opcode.SQRT, bi(16))
	ints("sqrt", opcode.SQRT, bi(17))
	ints("modmul", opcode.MODMUL, bi(-3), bi(4), bi(5))
	ints("modmul", opcode.MODMUL, bi(3), bi(4), bi(-5))
	ints("modmul", opcode.MODMUL, maxI, maxI, minI)
	ints("modmul", opcode.MODMUL, bi(3), bi(4), bi(0))
	ints("modpow", opcode.MODPOW, bi(19), bi(-1), bi(141))
	ints("modpow", opcode.MODPOW, bi(4), bi(-1), bi(8))
	ints("modpow", opcode.MODPOW, bi(0), bi(-1), bi(7))
	ints("modpow", opcode.MODPOW, bi(-3), bi(-1), bi(7))
	ints("modpow", opcode.MODPOW, bi(3), bi(-1), bi(1))
	ints("modpow", opcode.MODPOW, bi(3), bi(-1), bi(2))
	ints("modpow", opcode.MODPOW, bi(3), bi(-1), bi(-7))
	ints("modpow", opcode.MODPOW, bi(10), bi(-1), bi(7))
	ints("modpow", opcode.MODPOW, bi(3), bi(-2), bi(7))
	ints("modpow", opcode.MODPOW, bi(-3), bi(3), bi(5))
	ints("modpow", opcode.MODPOW, bi(-3), bi(3), bi(-5))
	ints("modpow", opcode.MODPOW, bi(-3), bi(2), bi(5))
	ints("modpow", opcode.MODPOW, bi(-5), bi(3), bi(5))
	ints("modpow", opcode.MODPOW, bi(3), bi(0), bi(1))
	ints("modpow", opcode.MODPOW, bi(3), bi(0), bi(-1))
	ints("modpow", opcode.MODPOW, bi(0), bi(0), bi(5))
	ints("modpow", opcode.MODPOW, bi(3), bi(5), bi(0))
	ints("modpow", opcode.MODPOW, bi(2), maxI, new(big.Int).Sub(two255, bi(19)))
	ints("modpow", opcode.MODPOW, minI, maxI, maxI)
	ints("bitwise", opcode.AND, minI, bi(-1))
	ints("bitwise", opcode.OR, minI, maxI)
	ints("bitwise", opcode.XOR, minI, maxI)
	ints("bitwise", opcode.INVERT, minI)
	ints("bitwise", opcode.INVERT, maxI)
	ints("compare", opcode.WITHIN, bi(5), bi(5), bi(6))
	ints("compare", opcode.WITHIN, bi(6), bi(5), bi(6))
	// ---- conversions of 32 / 33 byte strings
	neg32 := make([]byte, 32)
	neg32[31] = 0x80
	ff33 := bytes33(0xff)
	add("convert", func(a *asm) { a.pushData(neg32).convert(tInt) })
	add("convert", func(a *asm) { a.pushData(neg32).op(opcode.DEC) })
	add("convert", func(a *asm) { a.pushData(neg32).op(opcode.NEGATE) })
	add("convert", func(a *asm) { a.pushData(ff33).convert(tInt) })
	add("convert", func(a *asm) { a.pushData(ff33).convert(tBool) })
	add("convert", func(a *asm) { a.pushData(ff33).op(opcode.NOT) })
	add("convert", func(a *asm) { a.pushData(ff33).convert(tBuffer).convert(tBool) })
	add("convert", func(a *asm) { a.pushData(ff33).convert(tBuffer).convert(tInt) })
	add("convert", func(a *asm) { a.pushData(ff33[:32]).convert(tBuffer).convert(tInt) })
	// truthiness of reference types does not depend on their content
	add("convert", func(a *asm) { a.pushData([]byte{}).convert(tBuffer).convert(tBool) })
	add("convert", func(a *asm) { a.pushData([]byte{}).convert(tBuffer).op(opcode.NOT) })
	add("convert", func(a *asm) { a.pushData([]byte{0}).convert(tBuffer).raw(byte(opcode.JMPIF), 3).op(opcode.PUSH1, opcode.PUSH2) })
	add("convert", func(a *asm) { a.op(opcode.NEWARRAY0, opcode.NOT) })
	add("convert", func(a *asm) { a.op(opcode.NEWMAP, opcode.NOT) })
	add("convert", func(a *asm) { a.op(opcode.NEWSTRUCT0).convert(tBool) })
	add("convert", func(a *asm) { a.op(opcode.NEWSTRUCT0, opcode.NEWMAP, opcode.BOOLAND) })
	add("convert", func(a *asm) { a.raw(byte(opcode.PUSHA), 0, 0, 0, 0).op(opcode.NOT) })
	add("convert", func(a *asm) { a.op(opcode.PUSHNULL, opcode.NOT) })
	add("convert", func(a *asm) { a.op(opcode.PUSHNULL, opcode.NZ) })
	add("convert", func(a *asm) { a.pushData([]byte{1}).convert(tBuffer).op(opcode.INC) })
	zero32 := make([]byte, 32)
	add("convert", func(a *asm) { a.pushData(zero32).convert(tBool) })
	add("convert", func(a *asm) { a.pushData(zero32).op(opcode.NOT) })
	add("convert", func(a *asm) { a.pushData(neg32).op(opcode.NOT) })
	add("convert", func(a *asm) { a.pushData(neg32).convert(tBool) })
	add("convert", func(a *asm) { a.pushData(make([]byte, 33)).convert(tBool) })
	add("convert", func(a *asm) { a.pushData(make([]byte, 33)).op(opcode.NZ) })
	add("convert", func(a *asm) { a.pushData(zero32).op(opcode.NZ) })
	add("convert", func(a *asm) { a.pushData(neg32).raw(byte(opcode.JMPIF), 3).op(opcode.PUSH1, opcode.PUSH2) })
	add("convert", func(a *asm) { a.pushData(make([]byte, 33)).raw(byte(opcode.JMPIF), 3).op(opcode.PUSH1, opcode.PUSH2) })
	add("convert", func(a *asm) { a.pushInt(bi(-5)).op(opcode.DUP).convert(tBytes).op(opcode.DROP, opcode.DUP, opcode.SIZE) })
	add("convert", func(a *asm) { a.pushInt(new(big.Int).Neg(pow2(64))).op(opcode.DUP).convert(tBuffer).op(opcode.SWAP, opcode.INC) })
	add("convert", func(a *asm) { a.pushData([]byte{}).convert(tInt) })
	add("convert", func(a *asm) { a.op(opcode.PUSH0).convert(tBytes).op(opcode.SIZE) })
	add("convert", func(a *asm) { a.pushInt(bi(128)).convert(tBytes) })
	add("convert", func(a *asm) { a.pushInt(bi(-129)).convert(tBytes) })
	add("convert", func(a *asm) { a.pushData([]byte{0, 0, 0}).convert(tBool) })
	add("convert", func(a *asm) { a.pushData([]byte{0, 0, 0x80}).convert(tBool) })
	add("convert", func(a *asm) { a.op(opcode.PUSHNULL).convert(tAny) })
	add("convert", func(a *asm) { a.op(opcode.PUSHNULL).convert(tMap) })
	add("convert", func(a *asm) { a.op(opcode.PUSHNULL).convert(0x22) })
	add("convert", func(a *asm) { a.op(opcode.PUSH1, opcode.NEWARRAY, opcode.DUP).convert(tStruct).op(opcode.DUP, opcode.PUSH0, opcode.PUSH5, opcode.SETITEM) })
	add("types", func(a *asm) { a.op(opcode.PUSHNULL).raw(byte(opcode.ISTYPE), tAny) })
	add("types", func(a *asm) { a.op(opcode.PUSH1).raw(byte(opcode.ISTYPE), 0x22) })
	// ---- equality
	add("equal", func(a *asm) { a.op(opcode.NEWARRAY0, opcode.NEWARRAY0, opcode.EQUAL) })
	add("equal", func(a *asm) { a.op(opcode.NEWARRAY0, opcode.DUP, opcode.EQUAL) })
	add("equal", func(a *asm) { a.op(opcode.NEWSTRUCT0, opcode.NEWSTRUCT0, opcode.EQUAL) })
	add("equal", func(a *asm) { a.op(opcode.PUSH1, opcode.PUSHT, opcode.EQUAL) })
	add("equal", func(a *asm) { a.op(opcode.PUSH1).pushData([]byte{1}).op(opcode.EQUAL) })
	add("equal", func(a *asm) { a.pushData([]byte{1}).convert(tBuffer).op(opcode.DUP, opcode.EQUAL) })
	add("equal", func(a *asm) {
		a.pushData([]byte{1}).convert(tBuffer).pushData([]byte{1}).convert(tBuffer).op(opcode.EQUAL)
	})
	add("equal", func(a *asm) { a.raw(byte(opcode.PUSHA), 0, 0, 0, 0).raw(byte(opcode.PUSHA), 0xfb, 0xff, 0xff, 0xff).op(opcode.EQUAL) })
	add("equal", func(a *asm) { a.pushData(make([]byte, 65536)).pushData(make([]byte, 65536)).op(opcode.EQUAL) })
	add("equal", func(a *asm) { a.pushData(make([]byte, 65537)).op(opcode.PUSH1, opcode.EQUAL) })
	add("equal", func(a *asm) { a.op(opcode.PUSH1).pushData(make([]byte, 65537)).op(opcode.EQUAL) })
	add("equal", func(a *asm) { a.pushData(make([]byte, 1)).pushData(make([]byte, 65537)).op(opcode.EQUAL) })
	// struct with one 65535-byte string and two empty strings (size budget accounting)
	add("equal", func(a *asm) {
		for rep := 0; rep < 2; rep++ {
			a.pushData([]byte{}).pushData([]byte{}).pushData(make([]byte, 65535)).op(opcode.PUSH3, opcode.PACKSTRUCT)
		}
		a.op(opcode.EQUAL)
	})
	add("equal", func(a *asm) {
		for rep := 0; rep < 2; rep++ {
			a.pushData([]byte{}).pushData([]byte{1}).pushData(make([]byte, 65535)).op(opcode.PUSH3, opcode.PACKSTRUCT)
		}
		a.op(opcode.EQUAL)
	})
	for _, n := range []int64{680, 681, 682} {
		add("equal", func(a *asm) {
			for rep := 0; rep < 2; rep++ {
				a.pushInt(bi(n)).op(opcode.NEWSTRUCT, opcode.DUP, opcode.DUP, opcode.PUSH3, opcode.PACKSTRUCT)
			}
			a.op(opcode.EQUAL)
		})
	}
	// ---- stack size limit
	for _, n := range []int64{2046, 2047, 2048, 2049} {
		add("limits", func(a *asm) { a.pushInt(bi(n)).op(opcode.NEWARRAY) })
		add("limits", func(a *asm) { a.pushInt(bi(n)).op(opcode.NEWARRAY, opcode.DUP) })
		add("limits", func(a *asm) { a.pushInt(bi(n)).op(opcode.NEWARRAY, opcode.UNPACK) })
		add("limits", func(a *asm) { a.pushInt(bi(n)).op(opcode.NEWARRAY, opcode.DUP, opcode.DUP, opcode.APPEND) })
	}
	add("limits", func(a *asm) { a.pushInt(bi(1023)).op(opcode.NEWARRAY, opcode.VALUES, opcode.DROP) })
	add("limits", func(a *asm) { a.pushInt(bi(1024)).op(opcode.NEWARRAY, opcode.DUP, opcode.VALUES) })
	add("limits", func(a *asm) { a.pushInt(bi(1023)).op(opcode.NEWARRAY, opcode.DUP, opcode.VALUES) })
	// unreachable cyclic garbage: three self-containing arrays of 1000 elements, all dropped
	add("limits", func(a *asm) {
		for i := 0; i < 3; i++ {
			a.pushInt(bi(1000)).op(opcode.NEWARRAY, opcode.DUP, opcode.DUP, opcode.APPEND, opcode.DROP)
		}
		a.op(opcode.PUSH1)
	})
	// ---- splice
	add("splice", func(a *asm) { a.pushData([]byte{1, 2, 3}).op(opcode.PUSH1, opcode.PUSH2, opcode.SUBSTR) })
	add("splice", func(a *asm) { a.pushData([]byte{1, 2, 3}).op(opcode.PUSH2, opcode.PUSH2, opcode.SUBSTR) })
	add("splice", func(a *asm) { a.pushData([]byte{1, 2, 3}).op(opcode.PUSH3, opcode.PUSH0, opcode.SUBSTR) })
	add("splice", func(a *asm) { a.pushData([]byte{1, 2, 3}).op(opcode.PUSH4, opcode.RIGHT) })
	add("splice", func(a *asm) { a.pushData([]byte{1, 2, 3}).op(opcode.PUSH3, opcode.RIGHT) })
	add("splice", func(a *asm) { a.pushData([]byte{1, 2, 3}).op(opcode.PUSHM1, opcode.LEFT) })
	add("splice", func(a *asm) { a.pushInt(bi(131070)).op(opcode.NEWBUFFER, opcode.SIZE) })
	add("splice", func(a *asm) { a.pushInt(bi(131071)).op(opcode.NEWBUFFER) })
	add("splice", func(a *asm) { a.pushData(make([]byte, 65535)).op(opcode.DUP, opcode.CAT, opcode.SIZE) })
	add("splice", func(a *asm) { a.pushData(make([]byte, 65535)).pushData(make([]byte, 65536)).op(opcode.CAT) })
	add("splice", func(a *asm) { a.op(opcode.PUSH1, opcode.PUSH2, opcode.CAT) })
	add("splice", func(a *asm) { a.op(opcode.PUSHT, opcode.PUSHNULL, opcode.CAT) })
	// ---- compound
	add("compound", func(a *asm) { a.op(opcode.NEWARRAY0, opcode.DUP, opcode.DUP, opcode.APPEND) })
	add("compound", func(a *asm) { a.op(opcode.NEWSTRUCT0, opcode.DUP, opcode.DUP, opcode.APPEND, opcode.DUP, opcode.PUSH0, opcode.PICKITEM, opcode.PUSH7, opcode.APPEND) })
	add("compound", func(a *asm) { a.op(opcode.PUSH1, opcode.NEWARRAY, opcode.PUSH1, opcode.PICKITEM) })
	add("compound", func(a *asm) { a.op(opcode.PUSH1, opcode.NEWARRAY, opcode.PUSHM1, opcode.PICKITEM) })
	add("compound", func(a *asm) { a.op(opcode.PUSH1, opcode.NEWARRAY, opcode.PUSH1, opcode.PUSH2, opcode.SETITEM) })
	add("compound", func(a *asm) { a.op(opcode.PUSH1, opcode.NEWARRAY, opcode.PUSH1, opcode.REMOVE) })
	add("compound", func(a *asm) { a.op(opcode.NEWMAP, opcode.PUSH1, opcode.PICKITEM) })
	add("compound", func(a *asm) { a.op(opcode.NEWMAP, opcode.DUP, opcode.PUSH1, opcode.PUSH2, opcode.SETITEM, opcode.DUP, opcode.PUSHT, opcode.PUSH3, opcode.SETITEM, opcode.DUP).pushData([]byte{1}).op(opcode.PUSH4, opcode.SETITEM) })
	add("compound", func(a *asm) { a.op(opcode.NEWMAP, opcode.DUP).pushData(make([]byte, 65)).op(opcode.PUSH1, opcode.SETITEM) })
	add("compound", func(a *asm) { a.op(opcode.NEWMAP, opcode.DUP).pushData(make([]byte, 64)).op(opcode.PUSH1, opcode.SETITEM) })
	add("compound", func(a *asm) { a.op(opcode.NEWMAP, opcode.DUP, opcode.NEWARRAY0, opcode.PUSH1, opcode.SETITEM) })
	add("compound", func(a *asm) { a.op(opcode.PUSH5, opcode.PUSH1, opcode.PUSH6, opcode.PUSH1, opcode.PUSH2, opcode.PACKMAP) })
	add("compound", func(a *asm) { a.op(opcode.PUSH5, opcode.PUSH1, opcode.PUSH6, opcode.PUSH2, opcode.PUSH2, opcode.PACKMAP, opcode.UNPACK) })
	add("compound", func(a *asm) { a.op(opcode.PUSH3, opcode.NEWBUFFER, opcode.DUP, opcode.PUSH0).pushInt(bi(255)).op(opcode.SETITEM) })
	add("compound", func(a *asm) { a.op(opcode.PUSH3, opcode.NEWBUFFER, opcode.DUP, opcode.PUSH0).pushInt(bi(256)).op(opcode.SETITEM) })
	add("compound", func(a *asm) { a.op(opcode.PUSH3, opcode.NEWBUFFER, opcode.DUP, opcode.PUSH0).pushInt(bi(-128)).op(opcode.SETITEM) })
	add("compound", func(a *asm) { a.op(opcode.PUSH3, opcode.NEWBUFFER, opcode.DUP, opcode.PUSH0).pushInt(bi(-129)).op(opcode.SETITEM) })
	add("compound", func(a *asm) { a.op(opcode.PUSH3, opcode.NEWBUFFER, opcode.DUP, opcode.PUSH3).pushInt(bi(999)).op(opcode.SETITEM) })
	add("compound", func(a *asm) { a.op(opcode.PUSH2, opcode.NEWARRAY, opcode.PUSH2, opcode.HASKEY) })
	add("compound", func(a *asm) { a.op(opcode.PUSH2, opcode.NEWARRAY).pushInt(bi(131070)).op(opcode.HASKEY) })
	add("compound", func(a *asm) { a.op(opcode.PUSH2, opcode.NEWARRAY).pushInt(bi(131069)).op(opcode.HASKEY) })
	add("compound", func(a *asm) { a.op(opcode.NEWARRAY0, opcode.POPITEM) })
	add("compound", func(a *asm) { a.op(opcode.NEWSTRUCT0, opcode.PUSH1, opcode.PACKSTRUCT, opcode.VALUES) })
	add("compound", func(a *asm) { a.op(opcode.PUSH1, opcode.PUSH2, opcode.PUSH2, opcode.PACKSTRUCT, opcode.DUP, opcode.PUSH1, opcode.PACK, opcode.DUP, opcode.VALUES, opcode.PUSH0, opcode.PICKITEM, opcode.PUSH0, opcode.PUSH9, opcode.SETITEM) })
	add("compound", func(a *asm) { a.op(opcode.PUSH0, opcode.PUSH5, opcode.PICKITEM) })
	add("compound", func(a *asm) { a.pushInt(bi(258)).op(opcode.PUSH1, opcode.PICKITEM) })
	add("compound", func(a *asm) { a.op(opcode.PUSHT, opcode.PUSH0, opcode.PICKITEM) })
	add("compound", func(a *asm) { a.op(opcode.PUSH0, opcode.SIZE) })
	add("compound", func(a *asm) { a.op(opcode.PUSHNULL, opcode.SIZE) })
	// CLEARITEMS then the old keys again (a map must forget its keys, not only its elements)
	mapClear := func(after func(a *asm)) {
		add("map", func(a *asm) {
			a.raw(byte(opcode.INITSSLOT), 1).op(opcode.NEWMAP, opcode.STSFLD0)
			a.op(opcode.LDSFLD0, opcode.PUSH5, opcode.PUSH1, opcode.SETITEM)
			a.op(opcode.LDSFLD0, opcode.PUSH6, opcode.PUSH2, opcode.SETITEM)
			a.op(opcode.LDSFLD0, opcode.CLEARITEMS)
			after(a)
			a.op(opcode.LDSFLD0, opcode.DUP, opcode.KEYS, opcode.SWAP, opcode.VALUES)
		})
	}
	mapClear(func(a *asm) { a.op(opcode.LDSFLD0, opcode.PUSH5, opcode.HASKEY) })
	mapClear(func(a *asm) { a.op(opcode.LDSFLD0, opcode.PUSH5, opcode.PUSH8, opcode.SETITEM) })
	mapClear(func(a *asm) { a.op(opcode.LDSFLD0, opcode.PUSH3, opcode.PUSH7, opcode.SETITEM, opcode.LDSFLD0, opcode.PUSH5, opcode.PUSH8, opcode.SETITEM) })
	mapClear(func(a *asm) { a.op(opcode.LDSFLD0, opcode.PUSH6, opcode.REMOVE, opcode.LDSFLD0, opcode.SIZE) })
	mapClear(func(a *asm) { a.op(opcode.LDSFLD0, opcode.PUSH3, opcode.PUSH7, opcode.SETITEM, opcode.LDSFLD0, opcode.PUSH6, opcode.REMOVE) })
	mapClear(func(a *asm) {
		a.try("c", "").op(opcode.LDSFLD0, opcode.PUSH5, opcode.PICKITEM).jmp(opcode.ENDTRY, "e").label("c").jmp(opcode.ENDTRY, "e").label("e")
	})
	// remove then re-add; clear an array/struct then append / pick
	add("map", func(a *asm) {
		a.op(opcode.NEWMAP, opcode.DUP, opcode.PUSH1, opcode.PUSH1, opcode.SETITEM, opcode.DUP, opcode.PUSH2, opcode.PUSH2, opcode.SETITEM, opcode.DUP, opcode.PUSH3, opcode.PUSH3, opcode.SETITEM)
		a.op(opcode.DUP, opcode.PUSH1, opcode.REMOVE, opcode.DUP, opcode.PUSH1, opcode.PUSH9, opcode.SETITEM, opcode.DUP, opcode.PUSH3, opcode.PICKITEM, opcode.OVER, opcode.PUSH2, opcode.HASKEY)
	})
	add("compound", func(a *asm) {
		a.op(opcode.PUSH1, opcode.PUSH2, opcode.PUSH2, opcode.PACK, opcode.DUP, opcode.CLEARITEMS, opcode.DUP, opcode.PUSH7, opcode.APPEND, opcode.DUP, opcode.PUSH0, opcode.PICKITEM, opcode.OVER, opcode.SIZE)
	})
	add("compound", func(a *asm) {
		a.op(opcode.PUSH1, opcode.PUSH2, opcode.PUSH2, opcode.PACKSTRUCT, opcode.DUP, opcode.CLEARITEMS, opcode.DUP, opcode.PUSH7, opcode.APPEND, opcode.DUP, opcode.PUSH1, opcode.HASKEY)
	})
	// ---- slots
	add("slots", func(a *asm) { a.raw(byte(opcode.INITSLOT), 0, 0) })
	add("slots", func(a *asm) { a.raw(byte(opcode.INITSSLOT), 0) })
	add("slots", func(a *asm) { a.raw(byte(opcode.INITSSLOT), 1).raw(byte(opcode.INITSSLOT), 1) })
	add("slots", func(a *asm) { a.raw(byte(opcode.INITSLOT), 1, 0).raw(byte(opcode.INITSLOT), 0, 1) })
	add("slots", func(a *asm) { a.op(opcode.PUSH1, opcode.PUSH2).raw(byte(opcode.INITSLOT), 1, 2).op(opcode.LDARG0, opcode.LDARG1, opcode.LDLOC0) })
	add("slots", func(a *asm) { a.op(opcode.PUSH1).raw(byte(opcode.INITSLOT), 0, 2) })
	add("slots", func(a *asm) { a.op(opcode.LDLOC0) })
	add("slots", func(a *asm) { a.op(opcode.PUSH1, opcode.STSFLD0) })
	add("slots", func(a *asm) { a.raw(byte(opcode.INITSSLOT), 2).op(opcode.PUSH1, opcode.STSFLD1, opcode.LDSFLD1, opcode.LDSFLD0).raw(byte(opcode.LDSFLD), 2) })
	add("slots", func(a *asm) { a.raw(byte(opcode.INITSSLOT), 255).op(opcode.PUSH1).raw(byte(opcode.STSFLD), 254).raw(byte(opcode.LDSFLD), 254) })
	add("slots", func(a *asm) { a.raw(byte(opcode.INITSLOT), 1, 0).op(opcode.STLOC0) })
	// ---- control flow
	add("control", func(a *asm) { a.jmp(opcode.JMP, "e").op(opcode.PUSH1).label("e") })                                    // jump to len(prog)
	add("control", func(a *asm) { a.op(opcode.PUSHF).jmp(opcode.JMPIF, "e").op(opcode.PUSH1).label("e") })                 // not taken, target = len
	add("control", func(a *asm) { a.op(opcode.PUSHF).raw(byte(opcode.JMPIF), 100).op(opcode.PUSH1) })                     // not taken, target out of range
	add("control", func(a *asm) { a.raw(byte(opcode.JMP), 0) })                                                            // loop until out of gas
	add("control", func(a *asm) { a.raw(byte(opcode.JMP), 0xff) })                                                         // negative target
	add("control", func(a *asm) { a.raw(byte(opcode.CALL), 0) })                                                           // unbounded recursion
	add("control", func(a *asm) { a.raw(byte(opcode.PUSHA), 5, 0, 0, 0) })                                                 // pointer to len
	add("control", func(a *asm) { a.raw(byte(opcode.PUSHA), 6, 0, 0, 0) })                                                 // beyond
	add("control", func(a *asm) { a.raw(byte(opcode.PUSHA), 5, 0, 0, 0).op(opcode.CALLA) })                                // CALLA to len
	add("control", func(a *asm) { a.jmpL(opcode.PUSHA, "f").op(opcode.CALLA, opcode.PUSH2, opcode.RET).label("f").op(opcode.PUSH1, opcode.RET) })
	add("control", func(a *asm) { a.op(opcode.PUSH1, opcode.CALLA) })
	add("control", func(a *asm) { a.raw(byte(opcode.TRY), 0, 0) })
	add("control", func(a *asm) { a.raw(byte(opcode.TRY), 100, 0).op(opcode.PUSH1) })                                     // catch offset out of range, never used
	add("control", func(a *asm) { a.raw(byte(opcode.TRY), 3, 0).op(opcode.PUSH1) })                                       // catch offset = len
	add("control", func(a *asm) { a.raw(byte(opcode.TRY), 4, 0).op(opcode.PUSH1, opcode.THROW) })                          // catch at len: jump faults
	add("control", func(a *asm) { a.op(opcode.ENDFINALLY) })
	add("control", func(a *asm) { a.raw(byte(opcode.ENDTRY), 2) })
	add("control", func(a *asm) {
		a.try("c", "f").op(opcode.PUSH1, opcode.THROW).label("c").op(opcode.PUSH2).jmp(opcode.ENDTRY, "e").label("f").op(opcode.PUSH3, opcode.ENDFINALLY).label("e").op(opcode.PUSH4)
	})
	add("control", func(a *asm) { // throw in finally replaces nothing (no pending) -> unhandled
		a.try("", "f").op(opcode.PUSH1).jmp(opcode.ENDTRY, "e").label("f").op(opcode.PUSH9, opcode.THROW).label("e").op(opcode.PUSH4)
	})
	add("control", func(a *asm) { // rethrow after finally, caught by the outer try
		a.try("oc", "").try("", "f").op(opcode.PUSH1, opcode.THROW).label("f").op(opcode.PUSH3, opcode.ENDFINALLY).jmp(opcode.ENDTRY, "e").label("oc").op(opcode.PUSH7).jmp(opcode.ENDTRY, "e").label("e").op(opcode.PUSH4)
	})
	add("control", func(a *asm) { // throw inside catch with finally
		a.try("c", "f").op(opcode.PUSH1, opcode.THROW).label("c").op(opcode.PUSH2, opcode.THROW).label("f").op(opcode.PUSH3, opcode.ENDFINALLY)
	})
	add("control", func(a *asm) { // ENDTRY inside finally
		a.try("", "f").jmp(opcode.ENDTRY, "e").label("f").jmp(opcode.ENDTRY, "e").label("e").op(opcode.PUSH4)
	})
	add("control", func(a *asm) { // exception from a callee with items left on the shared stack
		a.try("c", "").jmp(opcode.CALL, "fn").jmp(opcode.ENDTRY, "e").label("c").op(opcode.DEPTH).jmp(opcode.ENDTRY, "e").label("e").op(opcode.RET)
		a.label("fn").raw(byte(opcode.INITSLOT), 1, 0).op(opcode.PUSH1, opcode.PUSH2, opcode.PUSH3, opcode.THROW)
	})
	add("control", func(a *asm) { // finally of the callee runs before the caller's catch
		a.try("c", "").jmp(opcode.CALL, "fn").jmp(opcode.ENDTRY, "e").label("c").op(opcode.PUSH8).jmp(opcode.ENDTRY, "e").label("e").op(opcode.RET)
		a.label("fn").try("", "f").op(opcode.PUSH1, opcode.THROW).label("f").op(opcode.PUSH5, opcode.ENDFINALLY).op(opcode.RET)
	})
	add("control", func(a *asm) { // 17 nested TRY
		for i := 0; i < 17; i++ {
			a.raw(byte(opcode.TRY), 2, 0)
		}
	})
	add("control", func(a *asm) { // 16 nested TRY
		for i := 0; i < 16; i++ {
			a.raw(byte(opcode.TRY), 2, 0)
		}
	})
	// catch / finally block at absolute offset 0 (HasCatch / HasFinally are ">= 0")
	add("control", func(a *asm) {
		a.op(opcode.DEPTH, opcode.PUSH0).jmp(opcode.JMPGT, "e").raw(byte(opcode.TRY), 0xfc, 0).op(opcode.PUSH1, opcode.THROW).label("e").op(opcode.RET)
	})
	add("control", func(a *asm) {
		a.op(opcode.DEPTH, opcode.PUSH0).jmp(opcode.JMPGT, "e").raw(byte(opcode.TRY), 0, 0xfc).op(opcode.PUSH1).jmp(opcode.ENDTRY, "x").label("x").op(opcode.PUSH5).label("e").op(opcode.RET)
	})
	add("control", func(a *asm) { a.op(opcode.PUSH1, opcode.PUSH1).raw(byte(opcode.JMPEQ), 3).op(opcode.PUSH5, opcode.PUSH6) })
	add("control", func(a *asm) { a.pushData([]byte("x")).pushData([]byte("y")).raw(byte(opcode.JMPEQ), 3).op(opcode.PUSH5, opcode.PUSH6) })
	add("control", func(a *asm) { a.op(opcode.PUSHT).pushData([]byte{0xff}).op(opcode.ASSERTMSG) })
	add("control", func(a *asm) { a.op(opcode.PUSHT).pushData([]byte("ok")).op(opcode.ASSERTMSG) })
	add("control", func(a *asm) { a.op(opcode.PUSHF).pushData([]byte("ok")).op(opcode.ASSERTMSG) })
	add("control", func(a *asm) { a.op(opcode.PUSHT).pushData([]byte{0xed, 0xa0, 0x80}).op(opcode.ASSERTMSG) })
	add("control", func(a *asm) { a.op(opcode.PUSHT).pushData([]byte{0xf4, 0x90, 0x80, 0x80}).op(opcode.ASSERTMSG) })
	add("control", func(a *asm) { a.op(opcode.PUSHT).pushData([]byte{0xc0, 0x80}).op(opcode.ASSERTMSG) })
	add("control", func(a *asm) { a.op(opcode.PUSHT).pushData([]byte{0xe2, 0x82, 0xac}).op(opcode.ASSERTMSG) })
	add("control", func(a *asm) { a.raw(byte(opcode.SYSCALL), 1, 2, 3, 4) })
	add("control", func(a *asm) { a.raw(byte(opcode.CALLT), 0, 0) })
	// ---- CONVERT / ISTYPE table: every kind of item (with content variants) x every type byte
	b32 := make([]byte, 32)
	b32[0] = 1
	vals := []func(a *asm){
		func(a *asm) { a.op(opcode.PUSHNULL) },
		func(a *asm) { a.op(opcode.PUSHT) },
		func(a *asm) { a.op(opcode.PUSHF) },
		func(a *asm) { a.op(opcode.PUSH0) },
		func(a *asm) { a.op(opcode.PUSH1) },
		func(a *asm) { a.op(opcode.PUSHM1) },
		func(a *asm) { a.pushInt(minI) },
		func(a *asm) { a.pushInt(maxI) },
		func(a *asm) { a.pushData([]byte{}) },
		func(a *asm) { a.pushData([]byte{0}) },
		func(a *asm) { a.pushData([]byte{1}) },
		func(a *asm) { a.pushData([]byte{0x80}) },
		func(a *asm) { a.pushData(b32) },
		func(a *asm) { a.pushData(zero32) },
		func(a *asm) { a.pushData(make([]byte, 33)) },
		func(a *asm) { a.pushData([]byte{}).convert(tBuffer) },
		func(a *asm) { a.pushData([]byte{0}).convert(tBuffer) },
		func(a *asm) { a.pushData([]byte{0xff}).convert(tBuffer) },
		func(a *asm) { a.pushData(b32).convert(tBuffer) },
		func(a *asm) { a.pushData(make([]byte, 33)).convert(tBuffer) },
		func(a *asm) { a.op(opcode.NEWARRAY0) },
		func(a *asm) { a.op(opcode.PUSH1, opcode.PUSH2, opcode.PUSH2, opcode.PACK) },
		func(a *asm) { a.op(opcode.NEWSTRUCT0) },
		func(a *asm) { a.op(opcode.PUSH1, opcode.PUSH2, opcode.PUSH2, opcode.PACKSTRUCT) },
		func(a *asm) { a.op(opcode.NEWMAP) },
		func(a *asm) { a.op(opcode.PUSH1, opcode.PUSH2, opcode.PUSH1, opcode.PACKMAP) },
		func(a *asm) { a.raw(byte(opcode.PUSHA), 0, 0, 0, 0) },
	}
	for _, mk := range vals {
		for _, t := range allTypes {
			mk, t := mk, t
			// DUP first: the original stays visible next to the converted item (identity vs copy)
			add("convert", func(a *asm) { mk(a); a.op(opcode.DUP).convert(t) })
			add("types", func(a *asm) { mk(a); a.raw(byte(opcode.ISTYPE), t) })
		}
		mk := mk
		add("convert", func(a *asm) { mk(a); a.op(opcode.NOT) })
		add("convert", func(a *asm) { mk(a); a.op(opcode.SIZE) })
		add("convert", func(a *asm) { mk(a); a.op(opcode.NZ) })
		add("convert", func(a *asm) { mk(a); a.op(opcode.ISNULL) })
		add("convert", func(a *asm) { mk(a); a.op(opcode.DUP, opcode.EQUAL) })
		add("convert", func(a *asm) { mk(a); a.raw(byte(opcode.JMPIFNOT), 3).op(opcode.PUSH1, opcode.PUSH2) })
	}
	// ---- decoding
	add("decode", func(a *asm) { a.raw(0x06) })
	add("decode", func(a *asm) { a.raw(byte(opcode.PUSHINT16), 1) })
	add("decode", func(a *asm) { a.raw(byte(opcode.PUSHDATA1)) })
	add("decode", func(a *asm) { a.raw(byte(opcode.PUSHDATA1), 2, 1) })
	add("decode", func(a *asm) { a.raw(byte(opcode.PUSHDATA1), 0) })
	add("decode", func(a *asm) { a.raw(byte(opcode.PUSHDATA2), 0) })
	add("decode", func(a *asm) { a.raw(byte(opcode.PUSHDATA4), 0xff, 0xff, 0x01, 0x00) })
	add("decode", func(a *asm) { a.raw(byte(opcode.PUSHDATA4), 0xfe, 0xff, 0x01, 0x00) })
	add("decode", func(a *asm) { a.raw(byte(opcode.PUSHINT256)).raw(bytes33(0xff)[:32]...) })
	add("decode", func(a *asm) { a.raw(byte(opcode.PUSHINT256)).raw(neg32...) })
	add("decode", func(a *asm) {})
	return cs
}

func bytes33(b byte) []byte {
	out := make([]byte, 33)
	for i := range out {
		out[i] = b
	}
	return out
}
