package main

// Hand-written cases that run first (cases 0..n-1). Names use the § / ¶ placeholders of the generator.
// Cases with a Key are inputs on which /repo is known to violate the property (known-findings.txt).

func ints(xs ...int64) [][]int64 {
	var r [][]int64
	for _, x := range xs {
		r = append(r, []int64{x})
	}
	return r
}

func corpusProgs() []*Prog {
	return []*Prog{
		{
			Kind: "corpus", Key: "global-init-order",
			Note:    "package-level variables are initialised in dependency order by Go, in source order by the compiler",
			Plain:   "var g¶_a = g¶_b + 1\nvar g¶_b = 2\nfunc §_F0() int {\nreturn g¶_a\n}\n",
			Entries: []*Entry{{Name: "§_F0", Ret: KInt, Tuples: [][]int64{{}}}},
			NParams: map[string]int{"§_F0": 0},
		},
		{
			Kind: "corpus", Key: "switch-early-default",
			Note: "a default clause that is not last is swapped with the last clause: fallthrough targets change",
			Plain: `func §_F0(x int) int {
r := 0
switch x {
case 1:
r += 1
fallthrough
default:
r += 10
case 2:
r += 100
}
return r
}
`,
			Entries: []*Entry{{Name: "§_F0", Params: []Kind{KInt}, Ret: KInt, Tuples: ints(0, 1, 2, 3)}},
			NParams: map[string]int{"§_F0": 1},
		},
		{
			Kind: "corpus", Key: "switch-early-default",
			Note: "a default clause that is not last is swapped with the last clause: case evaluation order changes",
			Plain: `func §_F0(x int) int {
a, b, c := 1, x, x
switch x {
case a:
return 1
default:
return 2
case b:
return 3
case c:
return 4
}
}
`,
			Entries: []*Entry{{Name: "§_F0", Params: []Kind{KInt}, Ret: KInt, Tuples: ints(0, 1, 2, 3)}},
			NParams: map[string]int{"§_F0": 1},
		},
		{
			Kind: "corpus", Key: "var-decl-shadow-self",
			Note: "`var x T = f(x)` in an inner scope: Go evaluates the initialiser with the outer x, the compiler allocates the new x first",
			Plain: `func §_F0(x int) int {
r := 0
{
var x int = x + 1
r = x
}
return r + x
}
`,
			Entries: []*Entry{{Name: "§_F0", Params: []Kind{KInt}, Ret: KInt, Tuples: ints(0, 1, 5)}},
			NParams: map[string]int{"§_F0": 1},
		},
		{
			Kind: "corpus", Key: "debug-unused-func-range",
			Note: "an unused (not compiled) function is listed in the debug info with range 0-65535 when the script's first instruction is removed by writeJumps",
			Plain: `var g¶_u = max(3, 4)
func ¶_unused(a int) int {
return a + 1
}
func §_F0() int {
return 1
}
`,
			Entries: []*Entry{{Name: "§_F0", Ret: KInt, Tuples: [][]int64{{}}}},
			NParams: map[string]int{"§_F0": 0, "¶_unused": 1},
		},
		{
			Kind: "corpus", Key: "recover-stale-stack",
			Note: "a panic recovered by a deferred call while operands are on the evaluation stack leaves them there",
			Plain: `func ¶_rec() {
if r := recover(); r != nil {
}
}
func ¶_thrower(x int) int {
if x > 0 {
panic("boom")
}
return x
}
func ¶_h(x int) int {
defer ¶_rec()
y := 5 + ¶_thrower(x)
return y
}
func §_F0(x int) int {
z := ¶_h(x) * 2
return z
}
`,
			Entries: []*Entry{{Name: "§_F0", Params: []Kind{KInt}, Ret: KInt, Tuples: ints(0, 1, 2)}},
			NParams: map[string]int{"§_F0": 1, "¶_h": 1, "¶_thrower": 1, "¶_rec": 0},
		},
		{
			Kind: "corpus", Key: "recover-runtime-error",
			Note: "a Go run-time error (division by zero) is recoverable in Go and an uncatchable FAULT in NeoVM",
			Plain: `var g¶_r = 0
func ¶_rec() {
if r := recover(); r != nil {
g¶_r = 7
}
}
func ¶_div(a int, b int) int {
defer ¶_rec()
c := a / b
return c
}
func §_F0(x int) int {
y := ¶_div(10, x)
return y + g¶_r
}
`,
			ResetP:  "g¶_r = 0\n",
			Entries: []*Entry{{Name: "§_F0", Params: []Kind{KInt}, Ret: KInt, Tuples: ints(0, 1, 2, 5)}},
			NParams: map[string]int{"§_F0": 1, "¶_div": 2, "¶_rec": 0},
		},
	}
}
