package main

// Hand-written cases that run first (cases 0..n-1). Names use the § / ¶ placeholders of the generator.
// Cases with a Key are inputs on which /repo is known to violate the property (known-findings.txt).

func ints(xs ...int64) [][]int64 {
	var r [][]int64
	for _, x := range xs {
		r = append(r, []int64{x})
	}
	return r
}

func corpusProgs() []*Prog {
	return []*Prog{
		{
			Kind: "corpus", Key: "global-init-order",
			Note:    "package-level variables are initialised in dependency order by Go, in source order by the compiler",
			Plain:   "var g¶_a = g¶_b + 1\nvar g¶_b = 2\nfunc §_F0() int {\nreturn g¶_a\n}\n",
			Entries: []*Entry{{Name: "§_F0", Ret: KInt, Tuples: [][]int64{{}}}},
			NParams: map[string]int{"§_F0": 0},
		},
		{
			Kind: "corpus", Key: "switch-early-default",
			Note: "a default clause that is not last is swapped with the last clause: fallthrough targets change",
			Plain: `func §_F0(x int) int {
r := 0
switch x {
case 1:
r += 1
fallthrough
default:
r += 10
case 2:
r += 100
}
return r
}
`,
			Entries: []*Entry{{Name: "§_F0", Params: []Kind{KInt}, Ret: KInt, Tuples: ints(0, 1, 2, 3)}},
			NParams: map[string]int{"§_F0": 1},
		},
		{
			Kind: "corpus", Key: "switch-early-default",
			Note: "a default clause that is not last is swapped with the last clause: case evaluation order changes",
			Plain: `func §_F0(x int) int {
a, b, c := 1, x, x
switch x {
case a:
return 1
default:
return 2
case b:
return 3
case c:
return 4
}
}
`,
			Entries: []*Entry{{Name: "§_F0", Params: []Kind{KInt}, Ret: KInt, Tuples: ints(0, 1, 2, 3)}},
			NParams: map[string]int{"§_F0": 1},
		},
		{
			Kind: "corpus", Key: "var-decl-shadow-self",
			Note: "`var x T = f(x)` in an inner scope: Go evaluates the initialiser with the outer x, the compiler allocates the new x first",
			Plain: `func §_F0(x int) int {
r := 0
{
var x int = x + 1
r = x
}
return r + x
}
`,
			Entries: []*Entry{{Name: "§_F0", Params: []Kind{KInt}, Ret: KInt, Tuples: ints(0, 1, 5)}},
			NParams: map[string]int{"§_F0": 1},
		},
		{
			Kind: "corpus", Key: "debug-unused-func-range",
			Note: "an unused (not compiled) function is listed in the debug info with range 0-65535 when the script's first instruction is removed by writeJumps",
			Plain: `var g¶_u = max(3, 4)
func ¶_unused(a int) int {
return a + 1
}
func §_F0() int {
return 1
}
`,
			Entries: []*Entry{{Name: "§_F0", Ret: KInt, Tuples: [][]int64{{}}}},
			NParams: map[string]int{"§_F0": 0, "¶_unused": 1},
		},
		{
			Kind: "corpus", Key: "debug-single-instr-method",
			Note: "a compiled function that consists of a single RET has Range.Start == Range.End and is dropped from debug info and manifest",
			Plain: `func §_Nop() {
}
func §_F0() int {
§_Nop()
return 1
}
`,
			Entries: []*Entry{{Name: "§_F0", Ret: KInt, Tuples: [][]int64{{}}}},
			NParams: map[string]int{"§_F0": 0, "§_Nop": 0},
		},
		{
			Kind:    "corpus",
			Note:    "package-level initialisers with inlined calls whose arguments call functions: _initialize needs the maximum number of temporaries",
			Imports: inlineImport,
			Plain: `func ¶_two() int {
return 2
}
func ¶_three() int {
return 3
}
var g¶_a = inline.Sum(¶_two(), ¶_three())
var g¶_b = inline.SumSquared(¶_two(), 1)
var g¶_c = inline.NoArgsReturn1()
func §_F0(x int) int {
return g¶_a*100 + g¶_b*10 + g¶_c + x
}
`,
			Entries: []*Entry{{Name: "§_F0", Params: []Kind{KInt}, Ret: KInt, Tuples: ints(0, 7)}},
			NParams: map[string]int{"§_F0": 1, "¶_two": 0, "¶_three": 0},
		},
		{
			Kind: "corpus", HasDeploy: true,
			Note: "multi-file package: _deploy in the first file, defer/recover in the second",
			Files: []string{`var g¶_v = 40
func _deploy(data any, isUpdate bool) {
g¶_v = g¶_v + 1
}
`, `func ¶_rec() {
if r := recover(); r != nil {
g¶_v += 4
}
}
func ¶_f(x int) int {
defer ¶_rec()
if x > 0 {
panic("boom")
}
return 1
}
func §_F0(x int) int {
y := ¶_f(x)
return y + g¶_v
}
`},
			ResetP:  "g¶_v = 40\n",
			Entries: []*Entry{{Name: "§_F0", Params: []Kind{KInt}, Ret: KInt, Tuples: ints(0, 1)}},
			NParams: map[string]int{"§_F0": 1, "¶_f": 1, "¶_rec": 0, "_deploy": 2},
		},
		{
			Kind: "corpus", HasDeploy: true,
			Note: "multi-file package: defer/recover in the first file, _deploy in the second",
			Files: []string{`var g¶_v = 40
func ¶_rec() {
if r := recover(); r != nil {
g¶_v += 4
}
}
func ¶_f(x int) int {
defer ¶_rec()
if x > 0 {
panic("boom")
}
return 1
}
`, `func _deploy(data any, isUpdate bool) {
g¶_v = g¶_v + 1
}
func §_F0(x int) int {
y := ¶_f(x)
return y + g¶_v
}
`},
			ResetP:  "g¶_v = 40\n",
			Entries: []*Entry{{Name: "§_F0", Params: []Kind{KInt}, Ret: KInt, Tuples: ints(0, 1)}},
			NParams: map[string]int{"§_F0": 1, "¶_f": 1, "¶_rec": 0, "_deploy": 2},
		},
		{
			Kind: "corpus", Key: "inline-steals-label", Imports: inlineImport,
			Note: "the label of a labeled switch is taken after init/tag are walked: an inlined helper with a loop in the tag consumes it",
			Plain: `func §_F0(x int) int {
r := 0
for i := 0; i < 2; i++ {
L:
switch inline.VarSum(x, 1, 2) {
case 3:
if i == 0 {
break L
}
r += 10
default:
r += 100
}
r++
}
return r
}
`,
			Entries: []*Entry{{Name: "§_F0", Params: []Kind{KInt}, Ret: KInt, Tuples: ints(0, 1)}},
			NParams: map[string]int{"§_F0": 1},
		},
		{
			Kind: "corpus", Key: "recover-stale-stack",
			Note: "a panic recovered by a deferred call while operands are on the evaluation stack leaves them there",
			Plain: `func ¶_rec() {
if r := recover(); r != nil {
}
}
func ¶_thrower(x int) int {
if x > 0 {
panic("boom")
}
return x
}
func ¶_h(x int) int {
defer ¶_rec()
y := 5 + ¶_thrower(x)
return y
}
func §_F0(x int) int {
z := ¶_h(x) * 2
return z
}
`,
			Entries: []*Entry{{Name: "§_F0", Params: []Kind{KInt}, Ret: KInt, Tuples: ints(0, 1, 2)}},
			NParams: map[string]int{"§_F0": 1, "¶_h": 1, "¶_thrower": 1, "¶_rec": 0},
		},
		{
			Kind: "corpus", Key: "string-concat-compare",
			Note: "string concatenation yields a VM Buffer; ==, != and switch compare it with a ByteString by reference",
			Plain: `func §_F0(x int) int {
a := "ab"
b := a + "c"
r := 0
if b == "abc" {
r += 1
}
switch b {
case "abc":
r += 10
}
if x > 0 && b != "abc" {
r += 100
}
return r
}
`,
			Entries: []*Entry{{Name: "§_F0", Params: []Kind{KInt}, Ret: KInt, Tuples: ints(0, 1)}},
			NParams: map[string]int{"§_F0": 1},
		},
		{
			Kind: "corpus", Key: "string-concat-mapkey",
			Note: "a concatenated string used as a map key FAULTs (Buffer is not a valid map key)",
			Plain: `func §_F0(x int) int {
a := "ab"
m := map[string]int{"abc": 5}
v, ok := m[a+"c"]
if ok {
return v + x
}
return -1
}
`,
			Entries: []*Entry{{Name: "§_F0", Params: []Kind{KInt}, Ret: KInt, Tuples: ints(0, 1)}},
			NParams: map[string]int{"§_F0": 1},
		},
		{
			Kind: "corpus", Key: "string-order-compare",
			Note: "< on strings compares the little-endian integers of the bytes, not lexicographically",
			Plain: `func §_F0(x int) bool {
a := "aa"
b := "b"
if x > 0 {
return b < a
}
return a < b
}
`,
			Entries: []*Entry{{Name: "§_F0", Params: []Kind{KInt}, Ret: KBool, Tuples: ints(0, 1)}},
			NParams: map[string]int{"§_F0": 1},
		},
		{
			Kind: "corpus", Key: "map-missing-key",
			Note: "m[k] of an absent key is the zero value in Go and a FAULT (uncaught 'Key not found in Map') in the VM",
			Plain: `func §_F0(x int) int {
m := map[int]int{1: 5}
return m[x]
}
`,
			Entries: []*Entry{{Name: "§_F0", Params: []Kind{KInt}, Ret: KInt, Tuples: ints(1, 2)}},
			NParams: map[string]int{"§_F0": 1},
		},
		{
			Kind: "corpus", Key: "nil-map",
			Note: "reading / deleting from a nil map is fine in Go; the VM FAULTs on Null (HASKEY / REMOVE)",
			Plain: `func §_F0(x int) int {
var m map[int]int
if x > 0 {
delete(m, 1)
return 3
}
v, ok := m[2]
if ok {
return v
}
return 7
}
`,
			Entries: []*Entry{{Name: "§_F0", Params: []Kind{KInt}, Ret: KInt, Tuples: ints(0, 1)}},
			NParams: map[string]int{"§_F0": 1},
		},
		{
			Kind: "corpus", Key: "append-aliasing",
			Note: "b := append(a, x) leaves a unchanged in Go; the VM APPENDs in place, so a grows too",
			Plain: `func §_F0(x int) int {
a := []int{1, 2}
b := append(a, x)
return len(a)*10 + len(b)
}
`,
			Entries: []*Entry{{Name: "§_F0", Params: []Kind{KInt}, Ret: KInt, Tuples: ints(3)}},
			NParams: map[string]int{"§_F0": 1},
		},
		{
			Kind: "corpus", Key: "append-multi-arg-eval",
			Note: "append(a, x, f(a)) appends x in place before f(a) is evaluated",
			Plain: `func §_F0(x int) int {
a := []int{x}
a = append(a, 7, len(a))
return a[2]
}
`,
			Entries: []*Entry{{Name: "§_F0", Params: []Kind{KInt}, Ret: KInt, Tuples: ints(0, 5)}},
			NParams: map[string]int{"§_F0": 1},
		},
		{
			Kind: "corpus", Key: "minint64-literal",
			Note: "the literal -9223372036854775808 is compiled as NEGATE of the wrapped constant 9223372036854775808",
			Plain: `func §_F0(x int) int {
y := -9223372036854775808
return y + x
}
`,
			Entries: []*Entry{{Name: "§_F0", Params: []Kind{KInt}, Ret: KInt, Tuples: ints(0, 1)}},
			NParams: map[string]int{"§_F0": 1},
		},
		{
			Kind: "corpus", Key: "defer-swallows-panic",
			Note: "a deferred call that does not call recover() still ends the panic: the function returns zero values",
			Plain: `var g¶_n = 0
func ¶_bump() {
g¶_n += 1
}
func ¶_f(x int) int {
defer ¶_bump()
if x > 0 {
panic("boom")
}
return 5
}
func §_F0(x int) int {
y := ¶_f(x)
return y + g¶_n
}
`,
			ResetP:  "g¶_n = 0\n",
			Entries: []*Entry{{Name: "§_F0", Params: []Kind{KInt}, Ret: KInt, Tuples: ints(0, 1)}},
			NParams: map[string]int{"§_F0": 1, "¶_f": 1, "¶_bump": 0},
		},
		{
			Kind: "corpus", Key: "recover-runtime-error",
			Note: "a Go run-time error (division by zero) is recoverable in Go and an uncatchable FAULT in NeoVM",
			Plain: `var g¶_r = 0
func ¶_rec() {
if r := recover(); r != nil {
g¶_r = 7
}
}
func ¶_div(a int, b int) int {
defer ¶_rec()
c := a / b
return c
}
func §_F0(x int) int {
y := ¶_div(10, x)
return y + g¶_r
}
`,
			ResetP:  "g¶_r = 0\n",
			Entries: []*Entry{{Name: "§_F0", Params: []Kind{KInt}, Ret: KInt, Tuples: ints(0, 1, 2, 5)}},
			NParams: map[string]int{"§_F0": 1, "¶_div": 2, "¶_rec": 0},
		},
		{
			Kind: "corpus", Key: "return-operands-reversed",
			Note: "the operands of `return a(), b()` are evaluated right to left (codegen.go:913-916 walks n.Results backwards); Go evaluates the calls left to right",
			Plain: `var g¶_n = 1
func ¶_a() int {
g¶_n = g¶_n * 2
return g¶_n
}
func ¶_b() int {
g¶_n = g¶_n + 3
return g¶_n
}
func ¶_two() (int, int) {
return ¶_a(), ¶_b()
}
func §_F0(x int) int {
p, q := ¶_two()
return p*100 + q + x
}
`,
			ResetP:  "g¶_n = 1\n",
			Entries: []*Entry{{Name: "§_F0", Params: []Kind{KInt}, Ret: KInt, Tuples: ints(0, 1)}},
			NParams: map[string]int{"§_F0": 1, "¶_a": 0, "¶_b": 0, "¶_two": 0},
		},
		{
			Kind: "corpus",
			Note: "context restore: an unlabeled break that FOLLOWS a nested loop inside a switch clause refers to the switch (currentSwitch must be restored when the loop ends); no enclosing loop",
			Plain: `func §_F0(x int) int {
r := 0
switch x {
case 1:
for i := 0; i < 2; i++ {
r += 1
}
if r > 0 {
break
}
r += 100
case 2:
for r < 5 {
r += 2
}
break
default:
r += 7
}
return r + 1000
}
`,
			Entries: []*Entry{{Name: "§_F0", Params: []Kind{KInt}, Ret: KInt, Tuples: ints(0, 1, 2, 3)}},
			NParams: map[string]int{"§_F0": 1},
		},
		{
			Kind: "corpus",
			Note: "context restore: break / continue / fallthrough / return placed after a nested for, range and switch inside a switch clause inside a loop, depth 3",
			Plain: `func §_F0(x int) int {
r := 0
xs := []int{1, 2, 3}
for j := 0; j < 4; j++ {
switch j {
case 0:
for i := 0; i < x; i++ {
r += 1
}
if r >= 0 {
break
}
r += 100
case 1:
for _, w := range xs {
switch w {
case 2:
for k := 0; k < 2; k++ {
r += 3
}
break
}
r += w
}
switch r {
case 100:
r = 0
}
if x > 1 {
continue
}
r += 1000
case 2:
for i := 0; i < 2; i++ {
r += 5
}
fallthrough
case 3:
{
r += 7
}
if x == 3 && j == 3 {
return r
}
}
r += 10
}
return r
}
`,
			Entries: []*Entry{{Name: "§_F0", Params: []Kind{KInt}, Ret: KInt, Tuples: ints(0, 1, 2, 3)}},
			NParams: map[string]int{"§_F0": 1},
		},
		{
			Kind:    "corpus",
			Note:    "context restore: break L / continue L / break after a labeled nested loop and after an inlined call with a loop (testdata/inline.VarSum) inside a switch clause",
			Imports: inlineImport,
			Plain: `func §_F0(x int) int {
r := 0
Outer:
for j := 0; j < 3; j++ {
switch {
case j == 0:
Inner:
for i := 0; i < 3; i++ {
if i == x {
continue Inner
}
if i == 2 {
break Inner
}
r += 1
}
if x == 0 {
continue Outer
}
r += inline.VarSum(x, 1, 2)
if r > 3 {
break
}
r += 50
case j == 1:
r += inline.VarSum(1, x)
if x == 2 {
break Outer
}
}
r += 10
}
return r
}
`,
			Entries: []*Entry{{Name: "§_F0", Params: []Kind{KInt}, Ret: KInt, Tuples: ints(0, 1, 2, 3)}},
			NParams: map[string]int{"§_F0": 1},
		},
		{
			Kind:    "corpus",
			Note:    "a labelled range whose range expression is an inlined call with a loop (testdata/inline.VarSum): continue L from a nested for, break L from a nested switch (the statement's label must be bound before the range expression is walked)",
			Imports: inlineImport,
			Plain: `func §_F0(n int) int {
res := 0
outer:
for i := range inline.VarSum(n, 1, 2) {
for j := 0; j < 4; j++ {
if j == i%3 {
continue outer
}
res += 10
}
res += 1000
}
return res
}
func §_F1(n int) int {
res := 0
outer:
for i := range inline.VarSum(n, 1, 2) {
switch {
case i == n:
break outer
default:
res += i + 1
}
}
return res
}
`,
			Entries: []*Entry{{Name: "§_F0", Params: []Kind{KInt}, Ret: KInt, Tuples: ints(0, 1, 2, 3, 4, 5)},
				{Name: "§_F1", Params: []Kind{KInt}, Ret: KInt, Tuples: ints(0, 1, 2, 3, 4, 5)}},
			NParams: map[string]int{"§_F0": 1, "§_F1": 1},
		},
		{
			Kind:    "corpus",
			Note:    "every labelled statement kind with an inlined loop helper in its header (for init / cond / post, switch init, nested labelled range in labelled for), each with an executed labelled break and continue",
			Imports: inlineImport,
			Plain: `func §_F0(x int) int {
r := 0
A:
for i := inline.VarSum(x, 1, 2); i > 0; i-- {
for j := 0; j < 3; j++ {
if j == i%3 {
continue A
}
if i == 2 {
break A
}
r += 10
}
r += 1000
}
B:
for i := 0; i < inline.VarSum(x, 1, 1); i++ {
switch {
case i == 1:
continue B
case i == 3:
break B
}
r += 7
}
C:
for i := 0; i < 9; i += inline.VarSum(x, 0, 1) {
for k := 0; k < 2; k++ {
if k == 1 && i > 0 {
continue C
}
if i > 6 {
break C
}
r += 3
}
r += 100
}
return r
}
func §_F1(x int) int {
r := 0
O:
for t := 0; t < inline.SumVar(x, 2); t++ {
S:
switch q := inline.VarSum(t, x, 1); q {
case 1, 2:
if t == 0 {
break S
}
r += 10
case 3:
r += 5
continue O
default:
if t > 3 {
break O
}
r += 100
}
I:
for i := range inline.VarSum(t, 0, 1) {
if i == 1 {
continue O
}
if i == 2 {
break I
}
for j := 0; j < 2; j++ {
if j == 1 {
continue I
}
r += 1
}
}
r += 1000
}
return r
}
`,
			Entries: []*Entry{{Name: "§_F0", Params: []Kind{KInt}, Ret: KInt, Tuples: ints(0, 1, 2, 3)},
				{Name: "§_F1", Params: []Kind{KInt}, Ret: KInt, Tuples: ints(0, 1, 2, 3)}},
			NParams: map[string]int{"§_F0": 1, "§_F1": 1},
		},
	}
}
