package main

// Hand-written cases that run first (cases 0..n-1). Names use the § / ¶ placeholders of the generator.

func corpusProgs() []*Prog {
	return []*Prog{
		{
			Kind: "corpus", Key: "global-init-order",
			Note:    "package-level variables are initialised in dependency order by Go, in source order by the compiler",
			Plain:   "var g¶_a = g¶_b + 1\nvar g¶_b = 2\nfunc §_F0() int {\nreturn g¶_a\n}\n",
			Entries: []*Entry{{Name: "§_F0", Ret: KInt, Tuples: [][]int64{{}}}},
			NParams: map[string]int{"§_F0": 0},
		},
	}
}
