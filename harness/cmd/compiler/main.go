// Command compiler: three-way differential run for C14 (compiled contracts behave like the Go source).
//
//	real neo-go compiler (in-process) -> real NeoVM      |
//	standard Go toolchain (`go run`, one batch per run)  |  compared per (program, function, argument tuple)
//	Lean reference compiler + MiniVm + big-step eval     |  (core programs only; via ops.txt/impl.txt)
//
// plus the structural oracle on manifest / debug info.
package main

import (
	"flag"
	"fmt"
	"math/big"
	"os"
	"path/filepath"
	"sort"
	"strings"
	"sync"
	"time"

	"github.com/nspcc-dev/neo-go/pkg/compiler"
	"github.com/nspcc-dev/neo-go/pkg/smartcontract/callflag"
	"github.com/nspcc-dev/neo-go/pkg/smartcontract/nef"
	"github.com/nspcc-dev/neo-go/pkg/smartcontract/scparser"
	"github.com/nspcc-dev/neo-go/pkg/vm"
	"github.com/nspcc-dev/neo-go/pkg/vm/opcode"
	"github.com/nspcc-dev/neo-go/pkg/vm/stackitem"

	"verif/harness/internal/hx"
	"verif/harness/internal/prng"
)

var dumpDir = flag.String("dump", "", "write the source of every program into this directory")

type methodInfo struct {
	id       string
	name     string
	start    int
	end      int
	nparams  int
	exported bool
	isFunc   bool
}

type compRes struct {
	err      string // compile error ("" = ok)
	panicked bool
	script   []byte
	methods  []methodInfo
	abi      []string            // structural oracle failures
	vmres    map[string]string   // "<fi> <ti>" -> "ok <canon>" | "fault"
	vmerr    map[string]string   // fault messages
	mnames   map[string]struct{} // manifest method names
}

const gasLimit = 20_000_000 // instructions; the Go side bounds a call to 4000 loop iterations + function entries

const inlineImport = "import \"github.com/nspcc-dev/neo-go/pkg/compiler/testdata/inline\"\n"

func fileSource(p *Prog, body string, last bool) string {
	var b strings.Builder
	b.WriteString("package foo\n\n")
	if p.Imports != "" && strings.Contains(body, "inline.") {
		b.WriteString(p.Imports)
	}
	b.WriteString(body)
	if last && p.Init != "" {
		b.WriteString("func init() {\n" + p.Init + "}\n")
	}
	return b.String()
}

func neoSource(p *Prog) string {
	if len(p.Files) > 1 {
		var b strings.Builder
		for i, f := range p.Files {
			fmt.Fprintf(&b, "// ---- file %c.go\n", 'a'+i)
			b.WriteString(fileSource(p, f, i == len(p.Files)-1))
		}
		return b.String()
	}
	return fileSource(p, p.Plain, true)
}

var workDir string // multi-file packages are written below it

// modDir is the harness module (go.mod with `replace github.com/nspcc-dev/neo-go => /repo`).
var modDir = func() string {
	if wd, err := os.Getwd(); err == nil {
		if _, err := os.Stat(filepath.Join(wd, "go.mod")); err == nil {
			return wd
		}
	}
	return "/verif/harness"
}()

// compileNeo runs the real compiler: a single source through the io.Reader interface, a multi-file package from
// a directory with its own go.mod.
func compileNeo(p *Prog) (*nef.File, *compiler.DebugInfo, error) {
	if len(p.Files) <= 1 {
		// the file name fixes the directory in which the imports are resolved: the harness module
		return compiler.CompileWithOptions(filepath.Join(modDir, "foo.go"), strings.NewReader(neoSource(p)), nil)
	}
	dir := filepath.Join(workDir, fmt.Sprintf("mf%d", p.K))
	if err := os.MkdirAll(dir, 0o755); err != nil {
		return nil, nil, err
	}
	defer os.RemoveAll(dir)
	gomod := "module foo\n\ngo 1.23\n"
	if p.Imports != "" {
		gomod = "module foo\n\ngo 1.25.0\n\nrequire github.com/nspcc-dev/neo-go v0.0.0\n\nreplace github.com/nspcc-dev/neo-go => /repo\n"
		if sum, err := os.ReadFile("/repo/go.sum"); err == nil {
			os.WriteFile(filepath.Join(dir, "go.sum"), sum, 0o644)
		}
	}
	if err := os.WriteFile(filepath.Join(dir, "go.mod"), []byte(gomod), 0o644); err != nil {
		return nil, nil, err
	}
	for i, f := range p.Files {
		name := filepath.Join(dir, fmt.Sprintf("%c.go", 'a'+i))
		if err := os.WriteFile(name, []byte(fileSource(p, f, i == len(p.Files)-1)), 0o644); err != nil {
			return nil, nil, err
		}
	}
	return compiler.CompileWithOptions(dir, nil, nil)
}

func canonItem(it stackitem.Item, k Kind) string {
	switch k {
	case KBool:
		b, err := it.TryBool()
		if err != nil {
			return "badtype:" + it.Type().String()
		}
		if _, isInt := it.(*stackitem.BigInteger); isInt {
			// a Go bool must be a VM Boolean or behave like one; 0/1 integers are accepted
			if bi, _ := it.TryInteger(); bi.Cmp(big.NewInt(1)) > 0 || bi.Sign() < 0 {
				return "badbool:" + bi.String()
			}
		}
		return fmt.Sprint(b)
	case KStr:
		bs, err := it.TryBytes()
		if err != nil {
			return "badtype:" + it.Type().String()
		}
		return hx.Hex(bs)
	default:
		bi, err := it.TryInteger()
		if err != nil {
			return "badtype:" + it.Type().String()
		}
		return bi.String()
	}
}

func runVM(script []byte, off, initOff int, e *Entry, args []int64) (res string, msg string) {
	defer func() {
		if r := recover(); r != nil {
			res, msg = "vmpanic", fmt.Sprint(r)
		}
	}()
	v := vm.New()
	v.SetPriceGetter(func(opcode.Opcode, []byte) int64 { return vm.ExecFeeFactorMultiplier })
	v.SetGasLimit(gasLimit)
	v.LoadScriptWithFlags(script, callflag.All)
	v.Context().Jump(off)
	if initOff >= 0 {
		v.Call(initOff)
	}
	for i := len(args) - 1; i >= 0; i-- {
		if e.Params[i] == KBool {
			v.Estack().PushItem(stackitem.NewBool(args[i] != 0))
		} else {
			v.Estack().PushItem(stackitem.Make(args[i]))
		}
	}
	if err := v.Run(); err != nil {
		m := err.Error()
		if strings.Contains(m, "gas limit") {
			return "fault", "gas: " + m
		}
		return "fault", m
	}
	if e.Ret == KVoid {
		if v.Estack().Len() != 0 {
			return fmt.Sprintf("stack:%d", v.Estack().Len()), ""
		}
		return "ok -", ""
	}
	if v.Estack().Len() != 1 {
		return fmt.Sprintf("stack:%d", v.Estack().Len()), ""
	}
	return "ok " + canonItem(v.Estack().Pop().Item(), e.Ret), ""
}

func compileAndRun(p *Prog, gores map[string]goRes) (cr *compRes) {
	cr = &compRes{vmres: map[string]string{}, vmerr: map[string]string{}, mnames: map[string]struct{}{}}
	defer func() {
		if r := recover(); r != nil {
			cr.err = fmt.Sprint("compiler panic: ", r)
			cr.panicked = true
		}
	}()
	nf, di, err := compileNeo(p)
	if err != nil {
		cr.err = err.Error()
		return
	}
	cr.script = nf.Script
	for _, m := range di.Methods {
		cr.methods = append(cr.methods, methodInfo{id: m.ID, name: m.Name.Name, start: int(m.Range.Start), end: int(m.Range.End),
			nparams: len(m.Parameters), exported: m.IsExported, isFunc: m.IsFunction})
	}
	mf, err := di.ConvertToManifest(&compiler.Options{Name: "c"})
	if err != nil {
		cr.err = "manifest: " + err.Error()
		return
	}
	cr.abi = checkABI(p, cr, nf.Script, di, mf)
	initOff := -1
	if im := mf.ABI.GetMethod("_initialize", 0); im != nil {
		initOff = im.Offset
	}
	for fi, e := range p.Entries {
		mname := strings.ToLower(e.Name[:1]) + e.Name[1:]
		mm := mf.ABI.GetMethod(mname, len(e.Params))
		if mm == nil {
			cr.abi = append(cr.abi, fmt.Sprintf("abi-missing-method exported function %s/%d is not in the manifest", e.Name, len(e.Params)))
			continue
		}
		for ti, t := range e.Tuples {
			key := fmt.Sprintf("%d %d", fi, ti)
			if g, have := gores[fmt.Sprintf("%d %s", p.K, key)]; have && (g.long || g.ovf) && p.Core == nil {
				continue // outside the side condition (or over the step budget): not compared
			}
			r, msg := runVM(nf.Script, mm.Offset, initOff, e, t)
			cr.vmres[key] = r
			if msg != "" {
				cr.vmerr[key] = msg
			}
		}
	}
	return
}

// checkABI is the structural oracle: manifest and debug info must describe what the bytecode implements.
func checkABI(p *Prog, cr *compRes, script []byte, di *compiler.DebugInfo, mf interface{}) []string {
	var fails []string
	// instruction boundaries, call targets
	starts := map[int]opcode.Opcode{}
	params := map[int][]byte{}
	var order []int
	calls := map[int]bool{}
	ctx := scparser.NewContext(script, 0)
	for ctx.NextIP() < len(script) {
		op, par, err := ctx.Next()
		if err != nil {
			fails = append(fails, fmt.Sprintf("abi-script-undecodable at %d: %v", ctx.IP(), err))
			return fails
		}
		ip := ctx.IP()
		starts[ip] = op
		params[ip] = par
		order = append(order, ip)
		switch op {
		case opcode.CALL:
			calls[ip+int(int8(par[0]))] = true
		case opcode.CALLL:
			calls[ip+int(int32(uint32(par[0])|uint32(par[1])<<8|uint32(par[2])<<16|uint32(par[3])<<24))] = true
		}
	}
	type rng struct {
		s, e int
		id   string
	}
	var rs []rng
	startSet := map[int]string{}
	for _, m := range cr.methods {
		if m.start == 0 && m.end == 65535 {
			// correctRange (codegen.go:2953-2968) underflows the zero range of a function that was never compiled
			fails = append(fails, fmt.Sprintf("debug-unused-func-range method %s is listed with range 0-65535 (it is not in the bytecode)", m.id))
			continue
		}
		if _, ok := starts[m.start]; !ok {
			fails = append(fails, fmt.Sprintf("debug-range-start method %s starts at %d which is not an instruction boundary", m.id, m.start))
			continue
		}
		if _, ok := starts[m.end]; !ok {
			fails = append(fails, fmt.Sprintf("debug-range-end method %s ends at %d which is not an instruction boundary", m.id, m.end))
		}
		if m.end < m.start {
			fails = append(fails, fmt.Sprintf("debug-range-order method %s has range %d-%d", m.id, m.start, m.end))
		}
		rs = append(rs, rng{m.start, m.end, m.id})
		startSet[m.start] = m.id
		// parameter count vs INITSLOT
		want, known := p.NParams[m.id]
		op := starts[m.start]
		if m.id == "_initialize" {
			continue
		}
		if op == opcode.INITSLOT {
			nargs := int(params[m.start][1])
			if known && nargs != want {
				fails = append(fails, fmt.Sprintf("debug-initslot-args method %s: INITSLOT takes %d arguments, the source has %d", m.id, nargs, want))
			}
			recv := 0
			if !m.isFunc {
				recv = 1
			}
			if nargs != m.nparams+recv {
				fails = append(fails, fmt.Sprintf("debug-param-count method %s: debug info lists %d parameters(+%d receiver), INITSLOT takes %d", m.id, m.nparams, recv, nargs))
			}
		} else if known && want > 0 {
			fails = append(fails, fmt.Sprintf("debug-entry method %s with %d parameters starts at %d with %s, not INITSLOT", m.id, want, m.start, op))
		}
		if known && m.isFunc && m.nparams != want {
			fails = append(fails, fmt.Sprintf("debug-param-count method %s: debug info lists %d parameters, the source has %d", m.id, m.nparams, want))
		}
	}
	// a `_deploy(data, isUpdate)` of the source must be in the debug info (and from there in the manifest)
	if p.HasDeploy {
		found := false
		for _, m := range cr.methods {
			if m.id == "_deploy" {
				found = true
				if m.nparams != 2 {
					fails = append(fails, fmt.Sprintf("abi-deploy-params _deploy is listed with %d parameters", m.nparams))
				}
			}
		}
		if !found {
			fails = append(fails, "abi-deploy-missing the source declares _deploy(data, isUpdate) but debug info / manifest do not list it")
		}
	}
	// every slot index used is inside what INITSSLOT / INITSLOT reserve
	{
		nstatic := 0
		if len(order) > 0 && starts[order[0]] == opcode.INITSSLOT {
			nstatic = int(params[order[0]][0])
		}
		mstart := map[int]bool{}
		for _, m := range cr.methods {
			mstart[m.start] = true
		}
		for t := range calls {
			mstart[t] = true
		}
		nloc, narg := 0, 0
		reported := false
		for _, ip := range order {
			op := starts[ip]
			if mstart[ip] {
				nloc, narg = 0, 0
			}
			if op == opcode.INITSLOT {
				nloc, narg = int(params[ip][0]), int(params[ip][1])
			}
			idx, lim, kind := -1, 0, ""
			switch {
			case op >= opcode.LDSFLD0 && op <= opcode.LDSFLD6:
				idx, lim, kind = int(op-opcode.LDSFLD0), nstatic, "static"
			case op == opcode.LDSFLD || op == opcode.STSFLD:
				idx, lim, kind = int(params[ip][0]), nstatic, "static"
			case op >= opcode.STSFLD0 && op <= opcode.STSFLD6:
				idx, lim, kind = int(op-opcode.STSFLD0), nstatic, "static"
			case op >= opcode.LDLOC0 && op <= opcode.LDLOC6:
				idx, lim, kind = int(op-opcode.LDLOC0), nloc, "local"
			case op == opcode.LDLOC || op == opcode.STLOC:
				idx, lim, kind = int(params[ip][0]), nloc, "local"
			case op >= opcode.STLOC0 && op <= opcode.STLOC6:
				idx, lim, kind = int(op-opcode.STLOC0), nloc, "local"
			case op >= opcode.LDARG0 && op <= opcode.LDARG6:
				idx, lim, kind = int(op-opcode.LDARG0), narg, "argument"
			case op == opcode.LDARG || op == opcode.STARG:
				idx, lim, kind = int(params[ip][0]), narg, "argument"
			case op >= opcode.STARG0 && op <= opcode.STARG6:
				idx, lim, kind = int(op-opcode.STARG0), narg, "argument"
			}
			if idx >= lim && idx >= 0 && !reported {
				reported = true
				fails = append(fails, fmt.Sprintf("slot-out-of-range %s at %d uses %s slot %d, only %d are reserved", op, ip, kind, idx, lim))
			}
		}
	}
	// every call target is the start of a method
	var cts []int
	for t := range calls {
		cts = append(cts, t)
	}
	sort.Ints(cts)
	single := map[int]bool{}
	for _, t := range cts {
		if _, ok := startSet[t]; !ok {
			if starts[t] == opcode.RET {
				// a compiled function that is a lone RET has Start == End and is skipped by addMethodsToDebugInfo
				single[t] = true
				fails = append(fails, fmt.Sprintf("debug-single-instr-method the function at %d (a single RET, target of a CALL) is missing from the debug info", t))
				continue
			}
			fails = append(fails, fmt.Sprintf("debug-call-target CALL to %d which is not the start of any method in the debug info", t))
		}
	}
	// ranges are disjoint and cover every instruction
	sort.Slice(rs, func(i, j int) bool { return rs[i].s < rs[j].s })
	for i := 1; i < len(rs); i++ {
		if rs[i].s <= rs[i-1].e {
			fails = append(fails, fmt.Sprintf("debug-range-overlap %s %d-%d and %s %d-%d", rs[i-1].id, rs[i-1].s, rs[i-1].e, rs[i].id, rs[i].s, rs[i].e))
		}
	}
	for _, ip := range order {
		in := false
		for _, r := range rs {
			if r.s <= ip && ip <= r.e {
				in = true
				break
			}
		}
		if !in && !single[ip] {
			fails = append(fails, fmt.Sprintf("debug-range-gap instruction at %d (%s) belongs to no method range", ip, starts[ip]))
			break
		}
	}
	// the last instruction of every range is RET (or the range ends in a jump back / throw): the next instruction starts another method
	for _, r := range rs {
		next := -1
		for i, ip := range order {
			if ip == r.e && i+1 < len(order) {
				next = order[i+1]
			}
		}
		if next >= 0 && !single[next] {
			if _, ok := startSet[next]; !ok {
				fails = append(fails, fmt.Sprintf("debug-range-end method %s ends at %d but %d does not start a method", r.id, r.e, next))
			}
		}
	}
	return fails
}

func main() {
	f := hx.ParseFlags()
	o := hx.NewOut(f.Out)
	defer o.Close()
	workDir, _ = filepath.Abs(f.Out)
	n := f.N(720, 6000)
	ntuples := 12
	corpus := corpusProgs()
	var progs []*Prog
	for k := 0; k < n; k++ {
		if !f.Want(k) {
			continue
		}
		r := prng.ForCase(f.Seed, k)
		var p *Prog
		switch {
		case k < len(corpus):
			p = corpus[k]
			p.K = k
			p.Plain = rename(p.Plain, k, false)
			p.Init = rename(p.Init, k, false)
			p.ResetP = rename(p.ResetP, k, false)
			for i := range p.Files {
				p.Files[i] = rename(p.Files[i], k, false)
			}
			if len(p.Files) > 0 {
				p.Plain = strings.Join(p.Files, "")
			}
			for _, e := range p.Entries {
				e.Name = rename(e.Name, k, false)
			}
			np := map[string]int{}
			for id, c := range p.NParams {
				np[rename(id, k, false)] = c
			}
			p.NParams = np
		case k%3 == 0:
			p = genCoreProgram(r, k, ntuples)
		default:
			p = genDialectProgram(r, k, ntuples)
		}
		progs = append(progs, p)
		if *dumpDir != "" {
			os.MkdirAll(*dumpDir, 0o755)
			os.WriteFile(filepath.Join(*dumpDir, fmt.Sprintf("p%d.go", p.K)), []byte(neoSource(p)), 0o644)
		}
	}

	t0 := time.Now()
	// standard toolchain first, one batch: it tells which tuples are inside the property's side condition
	// (programs are linked in chunks of 300 per `go run` to bound the Go compiler's memory)
	gores, dropped := map[string]goRes{}, map[int]string{}
	const chunk = 300
	for lo := 0; lo < len(progs); lo += chunk {
		hi := min(lo+chunk, len(progs))
		dir := filepath.Join(f.Out, fmt.Sprintf("gobatch%d", lo/chunk))
		gr, dr, err := runBatch(dir, progs[lo:hi])
		for try := 0; err != nil && strings.Contains(err.Error(), "killed") && try < 3; try++ {
			// the Go compiler was killed (memory pressure on a shared machine): wait and retry
			time.Sleep(20 * time.Second)
			gr, dr, err = runBatch(dir, progs[lo:hi])
		}
		if err != nil {
			fmt.Fprintln(os.Stderr, "go batch failed:", err)
			os.Exit(3)
		}
		for k, v := range gr {
			gores[k] = v
		}
		for k, v := range dr {
			dropped[k] = v
		}
		if lo > 0 {
			os.RemoveAll(dir) // keep only the first batch for inspection
		}
	}
	fmt.Fprintf(os.Stderr, "go batch: %v\n", time.Since(t0))
	t0 = time.Now()
	// real compiler + real VM (4 workers)
	res := make([]*compRes, len(progs))
	var wg sync.WaitGroup
	sem := make(chan struct{}, 4)
	for i := range progs {
		wg.Add(1)
		sem <- struct{}{}
		go func(i int) {
			defer wg.Done()
			defer func() { <-sem }()
			res[i] = compileAndRun(progs[i], gores)
		}(i)
	}
	wg.Wait()

	fmt.Fprintf(os.Stderr, "compile+vm: %v\n", time.Since(t0))

	rej, _ := os.Create(filepath.Join(f.Out, "rejects.txt"))
	defer rej.Close()
	for i, p := range progs {
		k := p.K
		cr := res[i]
		if cr.err != "" {
			fmt.Fprintf(rej, "case %d neo: %s\n", k, cr.err)
		}
		if why, bad := dropped[k]; bad {
			fmt.Fprintf(rej, "case %d go: %s\n", k, why)
		}
		o.Case(k)
		o.Count("prog:" + p.Kind)
		for ft, c := range p.Feat {
			o.Add("feat:"+ft, c)
		}
		if cr.err != "" {
			if cr.panicked {
				o.Count("reject:compiler-panic")
			} else {
				o.Count("reject:neo-compile-error")
			}
			o.Sample(fmt.Sprintf("case %d rejected by the neo-go compiler: %s", k, cr.err))
			if p.Kind != "dialect" {
				// corpus and core programs are inside the supported core: rejection is a correspondence break
				o.Line("compile-rejected "+oneWord(cr.err), "rejected")
			}
			continue
		}
		if why, bad := dropped[k]; bad {
			o.Count("reject:go-compile-error")
			o.Sample(fmt.Sprintf("case %d rejected by the Go toolchain: %s", k, why))
			continue
		}
		key := func(s string) string {
			if p.Key != "" {
				return p.Key
			}
			return s
		}
		for _, a := range cr.abi {
			w := strings.SplitN(a, " ", 2)
			o.Fail(key(w[0]), k, "%s", w[1])
		}
		emitCore(o, p, cr, gores)
		distinct := false
		for fi, e := range p.Entries {
			for ti, t := range e.Tuples {
				tk := fmt.Sprintf("%d %d", fi, ti)
				g, have := gores[fmt.Sprintf("%d %s", k, tk)]
				v := cr.vmres[tk]
				if !have {
					o.Count("tuple:no-go-result")
					continue
				}
				if g.long {
					o.Count("tuple:excluded-step-budget")
					continue
				}
				if g.ovf {
					o.Count("tuple:excluded-overflow")
					// measured necessity of the side condition (Lean: C14.overflow_side_condition_necessary): with a
					// wrapped intermediate the 64-bit Go result and the 256-bit VM result usually differ
					if p.Core != nil && v != "" {
						if v != g.plain {
							o.Count("tuple:overflow-go-vm-differ")
						} else {
							o.Count("tuple:overflow-go-vm-same")
						}
					}
					continue
				}
				if p.Checked != "" && g.plain != g.checked {
					// the two renderings of the generator disagree without overflow: generator defect, not a finding
					o.Count("tuple:generator-selfcheck-mismatch")
					fmt.Fprintf(os.Stderr, "selfcheck mismatch case %d %s%v: plain %s checked %s\n", k, e.Name, t, g.plain, g.checked)
					continue
				}
				o.Count("tuple:compared")
				distinct = true
				switch {
				case g.plain == "panic" && v == "fault":
					o.Count("tuple:both-fail")
				case p.Kind == "corpus" && p.Key == "" && v != g.plain:
					o.Count("tuple:MISMATCH")
					o.Fail("corpus-regression", k, "%s%v: go %s, VM %s %s", e.Name, t, g.plain, v, cr.vmerr[tk])
				case g.swallow && v != g.plain:
					// the compiled catch block of a deferred call without recover() ends the panic: from there on the
					// VM execution has nothing to do with Go's any more (returns zero values / misses return values)
					o.Count("tuple:MISMATCH")
					o.Fail(key("defer-swallows-panic"), k, "%s%v: a deferred call without recover ran while panicking; go %s, VM %s %s", e.Name, t, g.plain, v, cr.vmerr[tk])
				case g.plain == "panic":
					o.Count("tuple:MISMATCH")
					o.Fail(key("go-panics-vm-returns"), k, "%s%v: go panics, VM %s", e.Name, t, v)
				case v == "fault" && g.rtrec && !strings.Contains(cr.vmerr[tk], "index out of range [-1]"):
					// Go recovered a run-time error; NeoVM FAULTs are not catchable
					o.Count("tuple:MISMATCH")
					o.Fail(key("recover-runtime-error"), k, "%s%v: go recovers a run-time error and returns %s, VM FAULT (%s)", e.Name, t, g.plain, cr.vmerr[tk])
				case g.rec && v != g.plain:
					// a panic was recovered while operands were on the evaluation stack: they stay there, and a catch
					// block that is not the outermost one pushes no return values (the stale items or nothing are returned)
					o.Count("tuple:MISMATCH")
					o.Fail(key("recover-stale-stack"), k, "%s%v: go recovers a panic and returns %s, VM %s %s", e.Name, t, g.plain, v, cr.vmerr[tk])
				case v == "fault":
					o.Count("tuple:MISMATCH")
					o.Fail(key("vm-faults-go-returns"), k, "%s%v: go %s, VM FAULT (%s)", e.Name, t, g.plain, cr.vmerr[tk])
				case v != g.plain:
					o.Count("tuple:MISMATCH")
					o.Fail(key("result-differs"), k, "%s%v: go %s, VM %s", e.Name, t, g.plain, v)
				default:
					o.Count("tuple:both-return-equal")
				}
			}
		}
		if distinct {
			o.Seen(fmt.Sprintf("%x", prng.ForCase(f.Seed, k).U64()) + p.Kind)
		}
		if k < len(corpus)+3 {
			o.Sample(fmt.Sprintf("case %d (%s): %d entry functions, script %d bytes", k, p.Kind, len(p.Entries), len(cr.script)))
		}
	}
}

func oneWord(s string) string {
	s = strings.Map(func(r rune) rune {
		if r == ' ' || r == '\n' || r == '\t' {
			return '_'
		}
		return r
	}, s)
	if len(s) > 120 {
		s = s[:120]
	}
	return s
}
