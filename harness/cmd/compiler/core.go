package main

import (
	"verif/harness/internal/hx"
	"verif/harness/internal/prng"
)

type CoreProg struct{}

func genCoreProgram(r *prng.R, k int, ntuples int) *Prog { return genDialectProgram(r, k, ntuples) }

func emitCore(o *hx.Out, p *Prog, cr *compRes, gores map[string]goRes) {}
