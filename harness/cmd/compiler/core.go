package main

// Core programs: the MiniGo fragment that is modelled in Lean (lean/NeoModel/Model/MiniGo.lean).
// The AST below is the Lean AST; it is printed as Go source (plain + checked), and serialised in prefix
// form for the Lean driver, which answers with the bytes of ITS compiler for the same program.

import (
	"fmt"
	"strings"

	"verif/harness/internal/hx"
	"verif/harness/internal/prng"
)

type cExpr struct {
	k    string // L T F V P N ! B C
	n    uint64
	x    string
	op   string
	kids []*cExpr
	cst  bool
	ty   Kind
}

type cStmt struct {
	k     string // skip ; := = op= ++ -- var call if for ret brk cont blk discard panic lbl brkL contL switch case default :=2
	y     string // :=2: the second left side
	x     string
	op    string
	ty    Kind
	e     *cExpr // may be nil (var without init, ret without value, for without cond, switch without tag)
	e2    *cExpr // case: second expression (may be nil); ret: second operand of `return e, e2`
	ft    bool   // case: the body ends with fallthrough
	kids  []*cStmt
	elseK string // none else elif
}

type cFunc struct {
	name   string
	params []string
	ptypes []Kind
	ret    Kind // KInt, KBool, KVoid
	two    bool // two results: (ret, ret2)
	ret2   Kind
	body   *cStmt
}

type CoreProg struct {
	funcs []*cFunc
}

var binPrec = map[string]int{"mul": 5, "div": 5, "mod": 5, "add": 4, "sub": 4, "lt": 3, "le": 3, "gt": 3, "ge": 3, "eq": 3, "ne": 3, "eqb": 3, "neb": 3, "land": 2, "lor": 1}
var binSym = map[string]string{"mul": "*", "div": "/", "mod": "%", "add": "+", "sub": "-", "lt": "<", "le": "<=", "gt": ">", "ge": ">=", "eq": "==", "ne": "!=", "eqb": "==", "neb": "!=", "land": "&&", "lor": "||"}
var binCk = map[string]string{"mul": "ck_mul", "div": "ck_div", "mod": "ck_mod", "add": "ck_add", "sub": "ck_sub"}

// ---- printing

func (e *cExpr) src(checked bool) string {
	switch e.k {
	case "L":
		return fmt.Sprint(e.n)
	case "T":
		return "true"
	case "F":
		return "false"
	case "V":
		return e.x
	case "P":
		return "(" + e.kids[0].src(checked) + ")"
	case "N":
		if checked {
			return "ck_neg(" + e.kids[0].src(checked) + ")"
		}
		return "-" + e.kids[0].src(checked)
	case "!":
		return "!" + e.kids[0].src(checked)
	case "B":
		if ck, ok := binCk[e.op]; ok && checked {
			return ck + "(" + e.kids[0].src(checked) + ", " + e.kids[1].src(checked) + ")"
		}
		return e.kids[0].src(checked) + " " + binSym[e.op] + " " + e.kids[1].src(checked)
	case "C":
		var as []string
		for _, a := range e.kids {
			as = append(as, a.src(checked))
		}
		return e.x + "(" + strings.Join(as, ", ") + ")"
	}
	panic("bad expr " + e.k)
}

func (e *cExpr) tokens(b *[]string) {
	switch e.k {
	case "L":
		*b = append(*b, "L", fmt.Sprint(e.n))
	case "T", "F":
		*b = append(*b, e.k)
	case "V":
		*b = append(*b, "V", e.x)
	case "P", "N", "!":
		*b = append(*b, e.k)
		e.kids[0].tokens(b)
	case "B":
		*b = append(*b, "B", e.op)
		e.kids[0].tokens(b)
		e.kids[1].tokens(b)
	case "C":
		*b = append(*b, fmt.Sprintf("C%d", len(e.kids)), e.x)
		for _, a := range e.kids {
			a.tokens(b)
		}
	}
}

// mentions: the identifier x occurs in e as a variable (Lean: CompileProofs.mentions).
func (e *cExpr) mentions(x string) bool {
	if e.k == "V" && e.x == x {
		return true
	}
	for _, k := range e.kids {
		if k.mentions(x) {
			return true
		}
	}
	return false
}

func tyName(k Kind) string {
	if k == KBool {
		return "bool"
	}
	return "int"
}

func (s *cStmt) src(b *strings.Builder, checked bool) {
	switch s.k {
	case "skip":
	case ";":
		s.kids[0].src(b, checked)
		s.kids[1].src(b, checked)
	case ":=":
		fmt.Fprintf(b, "%s := %s\n", s.x, s.e.src(checked))
	case ":=2":
		fmt.Fprintf(b, "%s, %s := %s\n", s.x, s.y, s.e.src(checked))
	case "=":
		fmt.Fprintf(b, "%s = %s\n", s.x, s.e.src(checked))
	case "op=":
		if checked {
			fmt.Fprintf(b, "%s = %s(%s, %s)\n", s.x, binCk[s.op], s.x, s.e.src(checked))
		} else {
			fmt.Fprintf(b, "%s %s= %s\n", s.x, binSym[s.op], s.e.src(checked))
		}
	case "++":
		if checked {
			fmt.Fprintf(b, "%s = ck_add(%s, 1)\n", s.x, s.x)
		} else {
			fmt.Fprintf(b, "%s++\n", s.x)
		}
	case "--":
		if checked {
			fmt.Fprintf(b, "%s = ck_sub(%s, 1)\n", s.x, s.x)
		} else {
			fmt.Fprintf(b, "%s--\n", s.x)
		}
	case "var":
		if s.e == nil {
			fmt.Fprintf(b, "var %s %s\n", s.x, tyName(s.ty))
		} else {
			fmt.Fprintf(b, "var %s %s = %s\n", s.x, tyName(s.ty), s.e.src(checked))
		}
	case "call":
		fmt.Fprintf(b, "%s\n", s.e.src(checked))
	case "discard":
		fmt.Fprintf(b, "_ = %s\n", s.e.src(checked))
	case "panic":
		fmt.Fprintf(b, "panic(%s)\n", s.e.src(checked))
	case "if":
		fmt.Fprintf(b, "if %s {\n", s.e.src(checked))
		s.kids[0].src(b, checked)
		switch s.elseK {
		case "none":
			b.WriteString("}\n")
		case "else":
			b.WriteString("} else {\n")
			s.kids[1].src(b, checked)
			b.WriteString("}\n")
		case "elif":
			b.WriteString("} else ")
			s.kids[1].src(b, checked)
		}
	case "for":
		init, post, body := s.kids[0], s.kids[1], s.kids[2]
		hdr := func(st *cStmt) string {
			var sb strings.Builder
			st.src(&sb, checked)
			return strings.TrimSuffix(sb.String(), "\n")
		}
		switch {
		case init.k == "skip" && post.k == "skip" && s.e == nil:
			b.WriteString("for {\n")
		case init.k == "skip" && post.k == "skip":
			fmt.Fprintf(b, "for %s {\n", s.e.src(checked))
		default:
			c := ""
			if s.e != nil {
				c = s.e.src(checked)
			}
			fmt.Fprintf(b, "for %s; %s; %s {\n", hdr(init), c, hdr(post))
		}
		if checked {
			b.WriteString("ck_step()\n")
		}
		body.src(b, checked)
		b.WriteString("}\n")
	case "ret":
		if s.e == nil {
			b.WriteString("return\n")
		} else if s.e2 != nil {
			fmt.Fprintf(b, "return %s, %s\n", s.e.src(checked), s.e2.src(checked))
		} else {
			fmt.Fprintf(b, "return %s\n", s.e.src(checked))
		}
	case "brk":
		b.WriteString("break\n")
	case "cont":
		b.WriteString("continue\n")
	case "blk":
		b.WriteString("{\n")
		s.kids[0].src(b, checked)
		b.WriteString("}\n")
	case "lbl":
		fmt.Fprintf(b, "%s:\n", s.x)
		s.kids[0].src(b, checked)
	case "brkL":
		fmt.Fprintf(b, "break %s\n", s.x)
	case "contL":
		fmt.Fprintf(b, "continue %s\n", s.x)
	case "switch":
		if s.e != nil {
			fmt.Fprintf(b, "switch %s {\n", s.e.src(checked))
		} else {
			b.WriteString("switch {\n")
		}
		s.kids[0].src(b, checked)
		b.WriteString("}\n")
	case "case": // kids: body, rest
		if s.e2 != nil {
			fmt.Fprintf(b, "case %s, %s:\n", s.e.src(checked), s.e2.src(checked))
		} else {
			fmt.Fprintf(b, "case %s:\n", s.e.src(checked))
		}
		s.kids[0].src(b, checked)
		if s.ft {
			b.WriteString("fallthrough\n")
		}
		s.kids[1].src(b, checked)
	case "default":
		b.WriteString("default:\n")
		s.kids[0].src(b, checked)
	default:
		panic("bad stmt " + s.k)
	}
}

func optExprTokens(e *cExpr, b *[]string) {
	if e == nil {
		*b = append(*b, "none")
		return
	}
	*b = append(*b, "some")
	e.tokens(b)
}

func (s *cStmt) tokens(b *[]string) {
	switch s.k {
	case "skip", "brk", "cont":
		*b = append(*b, s.k)
	case ";":
		*b = append(*b, ";")
		s.kids[0].tokens(b)
		s.kids[1].tokens(b)
	case ":=", "=":
		*b = append(*b, s.k, s.x)
		s.e.tokens(b)
	case ":=2":
		*b = append(*b, ":=2", s.x, s.y)
		s.e.tokens(b)
	case "op=":
		*b = append(*b, "op=", s.x, s.op)
		s.e.tokens(b)
	case "++", "--":
		*b = append(*b, s.k, s.x)
	case "var":
		*b = append(*b, "var", s.x, tyName(s.ty))
		optExprTokens(s.e, b)
	case "call":
		*b = append(*b, "call")
		s.e.tokens(b)
	case "discard":
		*b = append(*b, "discard")
		s.e.tokens(b)
	case "panic":
		*b = append(*b, "panic")
		s.e.tokens(b)
	case "if":
		*b = append(*b, "if")
		s.e.tokens(b)
		s.kids[0].tokens(b)
		*b = append(*b, s.elseK)
		if s.elseK != "none" {
			s.kids[1].tokens(b)
		}
	case "for":
		*b = append(*b, "for")
		s.kids[0].tokens(b)
		optExprTokens(s.e, b)
		s.kids[1].tokens(b)
		s.kids[2].tokens(b)
	case "ret":
		if s.e2 != nil {
			*b = append(*b, "ret2")
			s.e.tokens(b)
			s.e2.tokens(b)
			break
		}
		*b = append(*b, "ret")
		optExprTokens(s.e, b)
	case "blk":
		*b = append(*b, "blk")
		s.kids[0].tokens(b)
	case "lbl":
		*b = append(*b, "lbl", s.x)
		s.kids[0].tokens(b)
	case "brkL", "contL":
		*b = append(*b, s.k, s.x)
	case "switch":
		*b = append(*b, "switch")
		optExprTokens(s.e, b)
		if s.e != nil && s.e.ty == KInt {
			*b = append(*b, "int")
		} else {
			*b = append(*b, "bool")
		}
		s.kids[0].tokens(b)
	case "case":
		*b = append(*b, "case")
		s.e.tokens(b)
		optExprTokens(s.e2, b)
		s.kids[0].tokens(b)
		if s.ft {
			*b = append(*b, "ft")
		} else {
			*b = append(*b, "noft")
		}
		s.kids[1].tokens(b)
	case "default":
		*b = append(*b, "default")
		s.kids[0].tokens(b)
	}
}

func (f *cFunc) src(checked bool, rn func(string) string) string {
	var b strings.Builder
	var ps []string
	for i, p := range f.params {
		ps = append(ps, p+" "+tyName(f.ptypes[i]))
	}
	ret := ""
	if f.two {
		ret = " (" + tyName(f.ret) + ", " + tyName(f.ret2) + ")"
	} else if f.ret != KVoid {
		ret = " " + tyName(f.ret)
	}
	fmt.Fprintf(&b, "func %s(%s)%s {\n", f.name, strings.Join(ps, ", "), ret)
	if checked {
		b.WriteString("ck_step()\n")
	}
	f.body.src(&b, checked)
	b.WriteString("}\n")
	return rn(b.String())
}

func (p *CoreProg) tokens(rn func(string) string) string {
	b := []string{"prog", fmt.Sprint(len(p.funcs))}
	for _, f := range p.funcs {
		b = append(b, "func", f.name, fmt.Sprint(len(f.params)))
		b = append(b, f.params...)
		if f.ret == KVoid {
			b = append(b, "void")
		} else if f.two {
			b = append(b, "res2")
		} else {
			b = append(b, "res")
		}
		f.body.tokens(&b)
	}
	return rn(strings.Join(b, " "))
}

// ---- generation

type cVar struct {
	name string
	ty   Kind
	ro   bool
	used bool
}

type cGen struct {
	r        *prng.R
	feat     map[string]int
	scopes   [][]*cVar
	funcs    []*cFunc // callable
	cur      *cFunc
	nvar     int
	inLoop   int
	budget   int
	depth    int
	selfOK   bool
	inSwitch int       // nesting of switch statements (the tag stays on the VM stack: at most 3, see dropItems)
	brkInner string    // what an unlabeled break leaves: "" / "for" / "switch"
	lbls     []*cLabel // enclosing for / switch statements that may carry a Go label, innermost last
	nlbl     int
	nctx     int // if / for / switch / block statements generated so far
	called   map[string]bool
	calls    map[string]map[string]bool // caller -> callees
}

type cLabel struct {
	name  string
	isFor bool
	used  bool
}

func (g *cGen) f(s string) { g.feat["core:"+s]++ }

func (g *cGen) vars(ty Kind, writable bool) []*cVar {
	var res []*cVar
	seen := map[string]bool{}
	for i := len(g.scopes) - 1; i >= 0; i-- {
		for j := len(g.scopes[i]) - 1; j >= 0; j-- {
			v := g.scopes[i][j]
			if seen[v.name] {
				continue
			}
			seen[v.name] = true
			if v.ty == ty && (!writable || !v.ro) {
				res = append(res, v)
			}
		}
	}
	return res
}

func (g *cGen) visible(name string) bool {
	for _, sc := range g.scopes {
		for _, v := range sc {
			if v.name == name {
				return true
			}
		}
	}
	return false
}

func (g *cGen) pick(ty Kind, writable bool) *cVar {
	vs := g.vars(ty, writable)
	if len(vs) == 0 {
		return nil
	}
	return vs[g.r.Intn(len(vs))]
}

func lit(n uint64) *cExpr { return &cExpr{k: "L", n: n, cst: true, ty: KInt} }
func (g *cGen) useVar(v *cVar) *cExpr {
	v.used = true
	return &cExpr{k: "V", x: v.name, ty: v.ty}
}
func paren(e *cExpr) *cExpr { return &cExpr{k: "P", kids: []*cExpr{e}, cst: e.cst, ty: e.ty} }

func prec(e *cExpr) int {
	if e.k == "B" {
		return binPrec[e.op]
	}
	return 6
}

func mkBin(op string, a, b *cExpr, ty Kind) *cExpr {
	p := binPrec[op]
	if prec(a) < p {
		a = paren(a)
	}
	if prec(b) <= p {
		b = paren(b)
	}
	return &cExpr{k: "B", op: op, kids: []*cExpr{a, b}, cst: a.cst && b.cst, ty: ty}
}

func mkUn(k string, a *cExpr) *cExpr {
	if a.k == "B" || a.k == "N" {
		a = paren(a)
	}
	return &cExpr{k: k, kids: []*cExpr{a}, cst: a.cst, ty: a.ty}
}

var coreLits = []uint64{0, 1, 2, 3, 4, 5, 7, 8, 10, 15, 16, 17, 100, 127, 128, 129, 255, 256, 1000, 32767, 32768, 65535, 65536, 1 << 31, 1<<31 - 1, 1 << 32, 1<<63 - 1, 1<<62 + 5}

func (g *cGen) intLit() *cExpr {
	var e *cExpr
	if g.r.Chance(1, 4) {
		e = lit(uint64(g.r.Intn(300)))
	} else {
		e = lit(coreLits[g.r.Intn(len(coreLits))])
	}
	if g.r.Chance(1, 5) {
		e = mkUn("N", e)
	}
	return e
}

// avoidConst makes sure a binary node has a non-constant operand (the Go type checker folds constant
// expressions, the Lean compiler does not model that).
func (g *cGen) avoidConst(a, b *cExpr, ty Kind) (*cExpr, *cExpr, bool) {
	if !(a.cst && b.cst) {
		return a, b, true
	}
	if v := g.pick(ty, false); v != nil {
		return g.useVar(v), b, true
	}
	return a, b, false
}

func (g *cGen) genInt(d int) *cExpr {
	if d <= 0 || g.r.Chance(1, 4) {
		if v := g.pick(KInt, false); v != nil && g.r.Chance(3, 4) {
			return g.useVar(v)
		}
		return g.intLit()
	}
	switch g.r.Weighted([]int{12, 2, 2, 1}) {
	case 0:
		ops := []string{"add", "sub", "mul", "div", "mod", "add", "sub", "mul"}
		op := ops[g.r.Intn(len(ops))]
		a, b, ok := g.avoidConst(g.genInt(d-1), g.genInt(d-1), KInt)
		if !ok {
			return a
		}
		if (op == "div" || op == "mod") && b.cst {
			b = lit(uint64(g.r.Range(1, 9))) // Go rejects division by a constant zero
		}
		g.f("expr:" + op)
		e := mkBin(op, a, b, KInt)
		if g.r.Chance(1, 8) {
			g.f("expr:extra-paren")
			return paren(e)
		}
		return e
	case 1:
		g.f("expr:neg")
		return mkUn("N", g.genInt(d-1))
	case 2:
		if e := g.genCall(KInt, d); e != nil {
			return e
		}
		return g.genInt(d - 1)
	default:
		g.f("expr:extra-paren")
		return paren(g.genInt(d - 1))
	}
}

func (g *cGen) genBool(d int) *cExpr {
	if d <= 0 || g.r.Chance(1, 6) {
		if v := g.pick(KBool, false); v != nil && g.r.Chance(3, 4) {
			return g.useVar(v)
		}
		if g.r.Bool() {
			return &cExpr{k: "T", cst: true, ty: KBool}
		}
		return &cExpr{k: "F", cst: true, ty: KBool}
	}
	switch g.r.Weighted([]int{10, 5, 5, 3, 2, 1, 1}) {
	case 0:
		ops := []string{"lt", "le", "gt", "ge", "eq", "ne"}
		op := ops[g.r.Intn(len(ops))]
		a, b, ok := g.avoidConst(g.genInt(d-1), g.genInt(d-1), KInt)
		if !ok {
			return &cExpr{k: "T", cst: true, ty: KBool}
		}
		g.f("expr:" + op)
		return mkBin(op, a, b, KBool)
	case 1:
		a, b, ok := g.avoidConst(g.genBool(d-1), g.genBool(d-1), KBool)
		if !ok {
			return a
		}
		g.f("expr:land")
		return mkBin("land", a, b, KBool)
	case 2:
		a, b, ok := g.avoidConst(g.genBool(d-1), g.genBool(d-1), KBool)
		if !ok {
			return a
		}
		g.f("expr:lor")
		return mkBin("lor", a, b, KBool)
	case 3:
		g.f("expr:not")
		return mkUn("!", g.genBool(d-1))
	case 4:
		op := "eqb"
		if g.r.Bool() {
			op = "neb"
		}
		a, b, ok := g.avoidConst(g.genBool(d-1), g.genBool(d-1), KBool)
		if !ok {
			return a
		}
		g.f("expr:" + op)
		return mkBin(op, a, b, KBool)
	case 5:
		if e := g.genCall(KBool, d); e != nil {
			return e
		}
		return g.genBool(d - 1)
	default:
		g.f("expr:extra-paren")
		return paren(g.genBool(d - 1))
	}
}

func (g *cGen) genExpr(ty Kind, d int) *cExpr {
	if ty == KBool {
		return g.genBool(d)
	}
	return g.genInt(d)
}

func (g *cGen) callTo(f *cFunc, d int) *cExpr {
	e := &cExpr{k: "C", x: f.name, ty: f.ret}
	for i := range f.params {
		if f == g.cur && f.params[i] == "d" {
			e.kids = append(e.kids, mkBin("sub", &cExpr{k: "V", x: "d", ty: KInt}, lit(1), KInt))
			continue
		}
		if f.params[i] == "d" {
			e.kids = append(e.kids, lit(uint64(g.r.Intn(4))))
			continue
		}
		e.kids = append(e.kids, g.genExpr(f.ptypes[i], min(d-1, 2)))
	}
	if g.cur != nil {
		if g.calls[g.cur.name] == nil {
			g.calls[g.cur.name] = map[string]bool{}
		}
		g.calls[g.cur.name][f.name] = true
	}
	g.f(fmt.Sprintf("expr:call%d", len(f.params)))
	if f == g.cur {
		g.f("expr:recursive-call")
	}
	return e
}

func (g *cGen) genCall(ty Kind, d int) *cExpr {
	if g.inLoop > 0 && !g.r.Chance(1, 4) {
		return nil
	}
	var cs []*cFunc
	for _, f := range g.funcs {
		if f.ret == ty && !f.two {
			cs = append(cs, f)
		}
	}
	if g.cur != nil && g.selfOK && g.cur.ret == ty && !g.cur.two && g.inLoop == 0 {
		cs = append(cs, g.cur)
		g.selfOK = g.r.Bool()
	}
	if len(cs) == 0 {
		return nil
	}
	return g.callTo(cs[g.r.Intn(len(cs))], d)
}

func seq(ss []*cStmt) *cStmt {
	r := &cStmt{k: "skip"}
	for i := len(ss) - 1; i >= 0; i-- {
		r = &cStmt{k: ";", kids: []*cStmt{ss[i], r}}
	}
	return r
}

func (g *cGen) push()        { g.scopes = append(g.scopes, nil) }
func (g *cGen) decl(v *cVar) { g.scopes[len(g.scopes)-1] = append(g.scopes[len(g.scopes)-1], v) }
func (g *cGen) pop() []*cStmt {
	s := g.scopes[len(g.scopes)-1]
	g.scopes = g.scopes[:len(g.scopes)-1]
	var res []*cStmt
	for _, v := range s {
		if !v.used {
			res = append(res, &cStmt{k: "discard", e: &cExpr{k: "V", x: v.name, ty: v.ty}})
		}
	}
	return res
}

// scopedName: the name of a variable declared in a scope of its own (for init, the counter block of a
// condition-only loop): fresh, or the name of a visible variable, which it shadows until the scope ends.
// The shadowed variable is returned so that the caller can read it again after the scope.
func (g *cGen) scopedName() (string, *cVar) {
	if g.r.Chance(1, 2) {
		var vs []*cVar
		for _, ty := range []Kind{KInt, KBool} {
			for _, v := range g.vars(ty, false) {
				if v.name != "d" {
					vs = append(vs, v)
				}
			}
		}
		if len(vs) > 0 {
			v := vs[g.r.Intn(len(vs))]
			g.f("shadow:for-var")
			return v.name, v
		}
	}
	return g.fresh(), nil
}

func (g *cGen) fresh() string { g.nvar++; return fmt.Sprintf("v%d", g.nvar) }

// block generates a statement list in a fresh scope.
func (g *cGen) block(n int) *cStmt {
	g.push()
	g.depth++
	var ss []*cStmt
	for i := 0; i < n && g.budget > 0; i++ {
		before := g.nctx
		ss = append(ss, g.stmt())
		// "enter an inner construct, leave it, then use the outer context": right behind a nested if / for / switch /
		// block, a branch that refers to an ENCLOSING statement (the compiler saves and restores currentFor /
		// currentSwitch / labelList / scopes around the inner construct; the Lean compiler's LoopCtx is lexical)
		if g.nctx > before && (g.inLoop > 0 || g.inSwitch > 0) && g.r.Chance(1, 2) {
			ss = append(ss, g.afterCtx())
		}
	}
	g.depth--
	ss = append(ss, g.pop()...)
	return seq(ss)
}

// afterCtx: break / continue / break L / continue L / return referring to an enclosing statement, a third of them
// unconditional (so that the branch is certainly executed when the place is reached).
func (g *cGen) afterCtx() *cStmt {
	var b *cStmt
	switch g.r.Intn(6) {
	case 0, 1:
		b = &cStmt{k: "brk"}
	case 2:
		if g.inLoop > 0 {
			b = &cStmt{k: "cont"}
		} else {
			b = &cStmt{k: "brk"}
		}
	case 3, 4:
		if len(g.lbls) == 0 {
			b = &cStmt{k: "brk"}
			break
		}
		l := g.lbls[g.r.Intn(len(g.lbls))]
		l.used = true
		b = &cStmt{k: "brkL", x: l.name}
		if l.isFor && g.r.Bool() {
			b.k = "contL"
		}
	default:
		if g.cur == nil {
			b = &cStmt{k: "brk"}
		} else {
			b = g.retStmt()
		}
	}
	kind := b.k
	if kind == "brk" && g.brkInner == "switch" {
		kind = "brk-switch"
	}
	if kind == "cont" && g.brkInner == "switch" {
		kind = "cont-through-switch"
	}
	g.f("after-ctx:" + kind)
	if g.r.Chance(1, 3) {
		g.f("after-ctx-unconditional")
		return b
	}
	return &cStmt{k: "if", e: g.genBool(1), kids: []*cStmt{seq([]*cStmt{b})}, elseK: "none"}
}

func (g *cGen) newName(ty Kind) string {
	// shadow a name of an outer scope sometimes
	if g.depth > 1 && g.r.Chance(1, 3) {
		vs := g.vars(ty, true)
		cur := map[string]bool{}
		for _, v := range g.scopes[len(g.scopes)-1] {
			cur[v.name] = true
		}
		for _, v := range vs {
			if !cur[v.name] && v.name != "d" {
				g.f("stmt:shadow")
				return v.name
			}
		}
	}
	return g.fresh()
}

func (g *cGen) stmt() *cStmt {
	g.budget--
	w := []int{12, 10, 6, 4, 4, 8, 6, 3, 3, 3, 3, 2, 4, 3, 0}
	var twos []*cFunc
	for _, f := range g.funcs {
		if f.two {
			twos = append(twos, f)
		}
	}
	if len(twos) > 0 && (g.inLoop == 0 || g.r.Chance(1, 4)) {
		w[14] = 8
	}
	if g.depth >= 3 {
		w[5], w[6], w[9], w[12] = 2, 1, 0, 1
	}
	if g.inLoop == 0 && g.inSwitch == 0 {
		w[7] = 0
	}
	// nesting of for / switch statements is where break / continue / return have to drop switch tags:
	// favour a switch inside a loop, a loop inside a switch, and labeled branches once two statements enclose
	if g.inLoop > 0 && g.depth < 6 {
		w[12] = 12
	}
	if g.inSwitch > 0 && g.depth < 6 {
		w[6] = 6
	}
	if len(g.lbls) >= 2 {
		w[13] = 8
	}
	if g.inSwitch >= 3 {
		w[12] = 0
	}
	if len(g.lbls) == 0 {
		w[13] = 0
	}
	switch g.r.Weighted(w) {
	case 0: // define
		ty := KInt
		if g.r.Chance(1, 4) {
			ty = KBool
		}
		e := g.genExpr(ty, 3)
		name := g.newName(ty)
		g.f("stmt:define")
		s := &cStmt{k: ":=", x: name, e: e}
		g.decl(&cVar{name: name, ty: ty})
		return s
	case 1: // assign
		ty := KInt
		if g.r.Chance(1, 5) {
			ty = KBool
		}
		v := g.pick(ty, true)
		if v == nil {
			return g.stmtDefault()
		}
		g.f("stmt:assign")
		return &cStmt{k: "=", x: v.name, e: g.genExpr(ty, 3)}
	case 2: // op-assign
		v := g.pick(KInt, true)
		if v == nil {
			return g.stmtDefault()
		}
		v.used = true
		ops := []string{"add", "sub", "mul", "div", "mod"}
		op := ops[g.r.Intn(len(ops))]
		g.f("stmt:op=" + op)
		e := g.genInt(2)
		if (op == "div" || op == "mod") && e.cst {
			e = lit(uint64(g.r.Range(1, 9)))
		}
		return &cStmt{k: "op=", x: v.name, op: op, e: e}
	case 3: // inc/dec
		v := g.pick(KInt, true)
		if v == nil {
			return g.stmtDefault()
		}
		v.used = true
		if g.r.Bool() {
			g.f("stmt:inc")
			return &cStmt{k: "++", x: v.name}
		}
		g.f("stmt:dec")
		return &cStmt{k: "--", x: v.name}
	case 4: // var
		ty := KInt
		if g.r.Chance(1, 3) {
			ty = KBool
		}
		// `var x T = e` may shadow an outer x, also one that occurs in e: the initialiser reads the OUTER x (the scope
		// of the new x begins after the ValueSpec; formerly the known finding var-decl-shadow-self)
		if g.depth > 1 && g.r.Chance(1, 4) {
			cur := map[string]bool{}
			for _, v := range g.scopes[len(g.scopes)-1] {
				cur[v.name] = true
			}
			var cs []*cVar
			for _, v := range g.vars(KInt, false) {
				if !cur[v.name] && v.name != "d" {
					cs = append(cs, v)
				}
			}
			if len(cs) > 0 {
				v := cs[g.r.Intn(len(cs))]
				g.f("stmt:var-init-self")
				s := &cStmt{k: "var", ty: KInt, x: v.name, e: mkBin("add", g.useVar(v), g.genInt(1), KInt)}
				g.decl(&cVar{name: v.name, ty: KInt})
				return s
			}
		}
		s := &cStmt{k: "var", ty: ty}
		if g.r.Bool() {
			s.e = g.genExpr(ty, 2)
			g.f("stmt:var-init")
		} else {
			g.f("stmt:var-zero")
		}
		name := g.newName(ty)
		if s.e != nil && s.e.mentions(name) {
			g.f("stmt:var-init-self")
		}
		if s.e != nil && !g.visible(name) && g.r.Chance(1, 2) {
			// shadow a variable of an enclosing scope (of any type), read by the initialiser or not
			cur := map[string]bool{}
			for _, v := range g.scopes[len(g.scopes)-1] {
				cur[v.name] = true
			}
			if len(g.scopes) == 2 { // the body block is the parameters' scope
				for _, v := range g.scopes[0] {
					cur[v.name] = true
				}
			}
			var cs []string
			for _, sc := range g.scopes[:len(g.scopes)-1] {
				for _, v := range sc {
					if !cur[v.name] && v.name != "d" {
						cs = append(cs, v.name)
					}
				}
			}
			if len(cs) > 0 {
				name = cs[g.r.Intn(len(cs))]
			}
		}
		if s.e != nil && g.visible(name) {
			g.f("stmt:var-init-shadow")
		}
		s.x = name
		g.decl(&cVar{name: name, ty: ty})
		return s
	case 5: // if
		g.nctx++
		g.f("stmt:if")
		return g.ifStmt()
	case 6: // for
		g.nctx++
		return g.forStmt()
	case 7: // break / continue under a condition
		c := g.genBool(2)
		k := "brk"
		if g.inLoop > 0 && g.r.Bool() {
			k = "cont"
		}
		g.f("stmt:" + k)
		if g.inSwitch > 0 {
			g.f("stmt:" + k + "-in-switch")
		}
		return &cStmt{k: "if", e: c, kids: []*cStmt{seq([]*cStmt{{k: k}})}, elseK: "none"}
	case 12:
		g.nctx++
		return g.switchStmt()
	case 13: // labeled break / continue under a condition
		l := g.lbls[g.r.Intn(len(g.lbls))]
		if len(g.lbls) > 1 && g.r.Bool() {
			l = g.lbls[g.r.Intn(len(g.lbls)-1)] // an outer statement
		}
		k := "brkL"
		if l.isFor && g.r.Bool() {
			k = "contL"
		}
		l.used = true
		g.f("stmt:" + k)
		if l != g.lbls[len(g.lbls)-1] {
			g.f("stmt:" + k + "-outer")
		}
		if len(g.lbls) >= 3 {
			g.f("stmt:" + k + "-nest3")
		}
		return &cStmt{k: "if", e: g.genBool(2), kids: []*cStmt{seq([]*cStmt{{k: k, x: l.name}})}, elseK: "none"}
	case 8: // call statement
		if len(g.funcs) == 0 || (g.inLoop > 0 && !g.r.Chance(1, 4)) {
			return g.stmtDefault()
		}
		f := g.funcs[g.r.Intn(len(g.funcs))]
		g.f("stmt:call")
		if f.ret != KVoid {
			g.f("stmt:call-drop")
		}
		return &cStmt{k: "call", e: g.callTo(f, 2)}
	case 14: // x, y := f(…)
		f := twos[g.r.Intn(len(twos))]
		call := g.callTo(f, 2)
		x, y := g.fresh(), g.fresh()
		g.decl(&cVar{name: x, ty: f.ret})
		g.decl(&cVar{name: y, ty: f.ret2})
		g.f(fmt.Sprintf("stmt:define2-call%d", len(f.params)))
		return &cStmt{k: ":=2", x: x, y: y, e: call}
	case 9: // nested block
		g.nctx++
		g.f("stmt:block")
		return &cStmt{k: "blk", kids: []*cStmt{g.block(g.r.Range(1, 3))}}
	case 11: // explicit panic under a condition: panic(e) evaluates e, then THROW
		g.f("stmt:panic")
		return &cStmt{k: "if", e: g.genBool(2), kids: []*cStmt{seq([]*cStmt{{k: "panic", e: g.genInt(2)}})}, elseK: "none"}
	default: // conditional return
		if g.cur == nil {
			return g.stmtDefault()
		}
		g.f("stmt:cond-return")
		return &cStmt{k: "if", e: g.genBool(2), kids: []*cStmt{seq([]*cStmt{g.retStmt()})}, elseK: "none"}
	}
}

func (g *cGen) stmtDefault() *cStmt {
	e := g.genInt(2)
	name := g.fresh()
	g.decl(&cVar{name: name, ty: KInt})
	g.f("stmt:define")
	return &cStmt{k: ":=", x: name, e: e}
}

func (g *cGen) retStmt() *cStmt {
	if g.cur.ret == KVoid {
		return &cStmt{k: "ret"}
	}
	if g.cur.two {
		// `return e1, e2`: the compiler walks e2 first (known finding return-operands-reversed); the Lean theorems cover
		// the forms where e1 cannot panic or e2 is a boolean literal, the byte tie covers all of them
		s := &cStmt{k: "ret", e: g.genExpr(g.cur.ret, 3)}
		if g.cur.ret2 == KBool && g.r.Chance(1, 2) {
			k := "F"
			if g.r.Bool() {
				k = "T"
			}
			s.e2 = &cExpr{k: k, cst: true, ty: KBool}
			g.f("stmt:ret2-ok-idiom")
		} else {
			s.e2 = g.genExpr(g.cur.ret2, 2)
		}
		g.f("stmt:ret2")
		return s
	}
	return &cStmt{k: "ret", e: g.genExpr(g.cur.ret, 3)}
}

func (g *cGen) ifStmt() *cStmt {
	s := &cStmt{k: "if", e: g.genBool(3), elseK: "none"}
	s.kids = append(s.kids, g.block(g.r.Range(1, 3)))
	switch g.r.Intn(4) {
	case 0:
		g.f("stmt:else")
		s.elseK = "else"
		s.kids = append(s.kids, g.block(g.r.Range(1, 3)))
	case 1:
		g.f("stmt:else-if")
		s.elseK = "elif"
		s.kids = append(s.kids, g.ifStmt())
	}
	return s
}

// withLabel runs gen with a candidate Go label for the for / switch statement it builds; the label is attached
// only if a `break L` / `continue L` inside used it (Go rejects unused labels).
func (g *cGen) withLabel(isFor bool, gen func() *cStmt, wrap func(inner *cStmt, l *cLabel) *cStmt) *cStmt {
	g.nlbl++
	l := &cLabel{name: fmt.Sprintf("L%d", g.nlbl), isFor: isFor}
	g.lbls = append(g.lbls, l)
	res := gen()
	g.lbls = g.lbls[:len(g.lbls)-1]
	return wrap(res, l)
}

// switchStmt: tagged (int or bool tag) or tagless, 1-3 clauses with 1-2 expressions each, optional default (last),
// fallthrough at the end of a clause that is not the last one.
func (g *cGen) switchStmt() *cStmt {
	s := &cStmt{k: "switch"}
	// Go rejects duplicate constant cases: boolean case expressions are never constant
	if g.pick(KInt, false) == nil && g.pick(KBool, false) == nil {
		return g.stmtDefault()
	}
	caseExpr := func() *cExpr {
		for {
			if e := g.genBool(2); !e.cst {
				return e
			}
		}
	}
	switch g.r.Intn(3) {
	case 0:
		g.f("stmt:switch-tagless")
	case 1:
		g.f("stmt:switch-bool")
		s.e = g.genBool(2)
		if s.e.cst {
			if v := g.pick(KBool, false); v != nil {
				s.e = g.useVar(v)
			} else {
				s.e = nil
			}
		}
	default:
		g.f("stmt:switch-int")
		s.e = g.genInt(2)
		if s.e.cst {
			if v := g.pick(KInt, false); v != nil {
				s.e = g.useVar(v)
			}
		}
		seen := map[uint64]bool{}
		caseExpr = func() *cExpr {
			if g.r.Chance(1, 3) {
				if e := g.genInt(1); !e.cst {
					return e
				}
			}
			// Go rejects duplicate constant cases
			for {
				n := uint64(g.r.Intn(12))
				if !seen[n] {
					seen[n] = true
					return lit(n)
				}
			}
		}
	}
	if s.e != nil && s.e.cst { // a constant int tag: Go folds nothing here, but keep the tag a variable read
		s.e = paren(s.e)
	}
	return g.withLabel(false, func() *cStmt {
		n := g.r.Range(1, 3)
		hasDef := g.r.Chance(1, 2)
		var cls []*cStmt
		g.inSwitch++
		oldInner := g.brkInner
		g.brkInner = "switch"
		g.push() // the switch statement's own scope
		for i := 0; i < n; i++ {
			c := &cStmt{k: "case", e: caseExpr()}
			if g.r.Chance(1, 3) {
				c.e2 = caseExpr()
				g.f("stmt:case-2")
			}
			body := g.block(g.r.Range(1, 3))
			c.kids = []*cStmt{body, nil}
			if (i < n-1 || hasDef) && g.r.Chance(1, 4) {
				c.ft = true
				g.f("stmt:fallthrough")
			} else if g.inLoop > 0 && g.r.Chance(1, 3) {
				// leave the switch AND the rest of the loop body: the tag must be dropped on the way
				// (BranchStmt, codegen.go:1435-1439)
				tail := &cStmt{k: "cont"}
				if len(g.lbls) > 1 && g.r.Bool() {
					var fors []*cLabel
					for _, l := range g.lbls[:len(g.lbls)-1] {
						if l.isFor {
							fors = append(fors, l)
						}
					}
					if len(fors) > 0 {
						l := fors[g.r.Intn(len(fors))]
						l.used = true
						tail = &cStmt{k: "contL", x: l.name}
						if g.r.Chance(1, 3) {
							tail.k = "brkL"
						}
						g.f("stmt:" + tail.k + "-clause-end")
					}
				}
				if tail.k == "cont" {
					g.f("stmt:cont-clause-end")
				}
				c.kids[0] = seq(append(unseq(body), tail))
			}
			cls = append(cls, c)
		}
		var tail *cStmt = &cStmt{k: "skip"}
		if hasDef {
			g.f("stmt:switch-default")
			tail = &cStmt{k: "default", kids: []*cStmt{g.block(g.r.Range(1, 2))}}
		}
		unused := g.pop()
		g.brkInner = oldInner
		g.inSwitch--
		_ = unused
		for i := len(cls) - 1; i >= 0; i-- {
			cls[i].kids[1] = tail
			tail = cls[i]
		}
		s.kids = []*cStmt{tail}
		return s
	}, func(inner *cStmt, l *cLabel) *cStmt {
		if l.used {
			g.f("stmt:labeled-switch")
			return &cStmt{k: "lbl", x: l.name, kids: []*cStmt{inner}}
		}
		return inner
	})
}

func (g *cGen) forStmt() *cStmt {
	n := uint64(g.r.Range(0, 4))
	loopName, outer := g.scopedName()
	g.push() // the for statement's own scope
	var pre []*cStmt
	s := &cStmt{k: "for"}
	var bodyPrefix []*cStmt
	switch g.r.Intn(3) {
	case 0: // three-clause
		i := loopName
		g.decl(&cVar{name: i, ty: KInt, ro: true, used: true})
		g.f("stmt:for-3")
		post := &cStmt{k: "++", x: i}
		if g.r.Chance(1, 3) {
			post = &cStmt{k: "op=", x: i, op: "add", e: lit(uint64(g.r.Range(1, 2)))}
		}
		s.kids = []*cStmt{{k: ":=", x: i, e: lit(0)}, post}
		s.e = mkBin("lt", &cExpr{k: "V", x: i, ty: KInt}, lit(n), KBool)
	case 1: // condition only, with a fuel counter declared just before the loop
		k := loopName
		g.f("stmt:for-cond")
		pre = append(pre, &cStmt{k: ":=", x: k, e: lit(0)})
		g.decl(&cVar{name: k, ty: KInt, ro: true, used: true})
		c := mkBin("lt", &cExpr{k: "V", x: k, ty: KInt}, lit(n), KBool)
		if g.r.Bool() {
			c = mkBin("land", c, g.genBool(1), KBool)
		}
		s.kids = []*cStmt{{k: "skip"}, {k: "skip"}}
		s.e = c
		bodyPrefix = append(bodyPrefix, &cStmt{k: "++", x: k})
	default: // for { … break }
		k := loopName
		g.f("stmt:for-ever")
		pre = append(pre, &cStmt{k: ":=", x: k, e: lit(0)})
		g.decl(&cVar{name: k, ty: KInt, ro: true, used: true})
		s.kids = []*cStmt{{k: "skip"}, {k: "skip"}}
		bodyPrefix = append(bodyPrefix, &cStmt{k: "++", x: k},
			&cStmt{k: "if", e: mkBin("gt", &cExpr{k: "V", x: k, ty: KInt}, lit(n), KBool), kids: []*cStmt{seq([]*cStmt{{k: "brk"}})}, elseK: "none"})
	}
	g.inLoop++
	g.nlbl++
	lab := &cLabel{name: fmt.Sprintf("L%d", g.nlbl), isFor: true}
	g.lbls = append(g.lbls, lab)
	oldInner := g.brkInner
	g.brkInner = "for"
	body := g.block(g.r.Range(1, 4))
	g.brkInner = oldInner
	g.lbls = g.lbls[:len(g.lbls)-1]
	g.inLoop--
	if len(bodyPrefix) > 0 {
		body = seq(append(bodyPrefix, unseq(body)...))
	}
	s.kids = append(s.kids, body)
	tail := g.pop()
	res := s
	if lab.used {
		g.f("stmt:labeled-for")
		res = &cStmt{k: "lbl", x: lab.name, kids: []*cStmt{s}}
	}
	if len(pre) != 0 || len(tail) != 0 {
		// the fuel counter lives in an enclosing block
		all := append(pre, res)
		all = append(all, tail...)
		res = &cStmt{k: "blk", kids: []*cStmt{seq(all)}}
	}
	if outer != nil {
		// read the shadowed outer variable again once the loop's scope has ended
		t := g.fresh()
		g.decl(&cVar{name: t, ty: outer.ty})
		outer.used = true
		rd := &cStmt{k: ":=", x: t, e: &cExpr{k: "V", x: outer.name, ty: outer.ty}}
		return &cStmt{k: ";", kids: []*cStmt{res, {k: ";", kids: []*cStmt{rd, {k: "skip"}}}}}
	}
	return res
}

func unseq(s *cStmt) []*cStmt {
	var r []*cStmt
	for s.k == ";" {
		r = append(r, s.kids[0])
		s = s.kids[1]
	}
	return r
}

func (g *cGen) function(f *cFunc, budget int) {
	g.cur = f
	g.nvar = 0
	g.scopes = nil
	g.push()
	for i, p := range f.params {
		g.decl(&cVar{name: p, ty: f.ptypes[i], used: true, ro: p == "d"})
	}
	g.budget = budget
	g.depth = 0
	g.inLoop = 0
	g.inSwitch = 0
	g.lbls = nil
	g.nlbl = 0
	g.brkInner = ""
	var ss []*cStmt
	hasD := len(f.params) > 0 && f.params[len(f.params)-1] == "d"
	if hasD {
		g.selfOK = false
		old := g.funcs
		g.funcs = nil
		base := g.retStmt()
		g.funcs = old
		ss = append(ss, &cStmt{k: "if", e: mkBin("le", &cExpr{k: "V", x: "d", ty: KInt}, lit(0), KBool), kids: []*cStmt{seq([]*cStmt{base})}, elseK: "none"})
		g.selfOK = true
	}
	g.push()
	g.depth++
	for i := 0; i < budget && g.budget > 0; i++ {
		ss = append(ss, g.stmt())
	}
	for _, ty := range []Kind{KInt, KBool} {
		for _, v := range g.vars(ty, false) {
			if g.r.Chance(1, 2) {
				v.used = true
				ss = append(ss, &cStmt{k: "discard", e: &cExpr{k: "V", x: v.name, ty: v.ty}})
			}
		}
	}
	if f.ret != KVoid || g.r.Chance(1, 3) {
		ss = append(ss, g.retStmt())
	}
	g.depth--
	// unused locals of the body scope: the discards must come before the final return
	tail := g.pop()
	if len(tail) > 0 {
		last := ss[len(ss)-1]
		if last.k == "ret" {
			ss = append(append(ss[:len(ss)-1:len(ss)-1], tail...), last)
		} else {
			ss = append(ss, tail...)
		}
	}
	g.pop()
	f.body = seq(ss)
	g.cur = nil
	g.selfOK = false
}

// filler emits statements on the int variable x whose compiled size is exactly `bytes`
// (x++ : 3 bytes, x = x + 1 : 4 bytes, x += 300 : 6 bytes for slots < 7).
func filler(r *prng.R, x string, bytes int) []*cStmt {
	var ss []*cStmt
	xv := func() *cExpr { return &cExpr{k: "V", x: x, ty: KInt} }
	for bytes > 0 {
		switch {
		case bytes == 3 || bytes == 6 && r.Bool() || bytes == 7 || bytes == 9 || (bytes > 11 && r.Chance(1, 4)):
			ss = append(ss, &cStmt{k: "++", x: x})
			bytes -= 3
		case bytes == 6 || (bytes > 11 && r.Chance(1, 5)):
			ss = append(ss, &cStmt{k: "op=", x: x, op: "add", e: lit(uint64(r.Range(200, 30000)))})
			bytes -= 6
		case bytes >= 4 && bytes != 5:
			ss = append(ss, &cStmt{k: "=", x: x, e: mkBin("add", xv(), lit(uint64(r.Range(1, 9))), KInt)})
			bytes -= 4
		default: // 1, 2, 5: not representable, round up
			ss = append(ss, &cStmt{k: "++", x: x})
			bytes -= 3
		}
	}
	return ss
}

// ladder: bodies of if / else / for whose size sweeps the boundary between short and long jumps (codegen.go
// writeJumps shortens a jump iff its long-layout offset fits a signed byte).
func (g *cGen) ladder(f *cFunc) {
	r := g.r
	g.f("prog:ladder")
	x := "x"
	tgt := func() int { return 128 - 5 + r.Range(-8, 8) }
	var ss []*cStmt
	a := &cExpr{k: "V", x: f.params[0], ty: KInt}
	ss = append(ss, &cStmt{k: ":=", x: x, e: a})
	n := r.Range(1, 3)
	for i := 0; i < n; i++ {
		switch r.Intn(3) {
		case 0: // if without else: the conditional jump spans the body
			ss = append(ss, &cStmt{k: "if", e: mkBin("gt", a, lit(uint64(r.Intn(5))), KBool), kids: []*cStmt{seq(filler(r, x, tgt()))}, elseK: "none"})
		case 1: // if / else: the cond jump spans body + JMPL, the JMPL spans the else body
			ss = append(ss, &cStmt{k: "if", e: mkBin("lt", a, lit(uint64(r.Intn(5))), KBool),
				kids: []*cStmt{seq(filler(r, x, tgt()-5)), seq(filler(r, x, tgt()))}, elseK: "else"})
		default: // loop: the backward jump spans cond + body + post
			i := fmt.Sprintf("i%d", len(ss))
			body := filler(r, x, 128-r.Range(8, 22))
			ss = append(ss, &cStmt{k: "for", e: mkBin("lt", &cExpr{k: "V", x: i, ty: KInt}, lit(2), KBool),
				kids: []*cStmt{{k: ":=", x: i, e: lit(0)}, {k: "++", x: i}, seq(body)}})
		}
	}
	ss = append(ss, &cStmt{k: "ret", e: &cExpr{k: "V", x: x, ty: KInt}})
	f.body = seq(ss)
}

func genCoreProgram(r *prng.R, k int, ntuples int) *Prog {
	g := &cGen{r: r, feat: map[string]int{}, calls: map[string]map[string]bool{}}
	cp := &CoreProg{}
	nh := r.Intn(4)
	kinds := []Kind{KInt, KInt, KInt, KBool}
	for i := 0; i < nh; i++ {
		f := &cFunc{name: fmt.Sprintf("¶_h%d", i)}
		if r.Chance(1, 8) {
			// an empty function without arguments: its code is a lone RET (INITSLOT 0,0 is removed); it is called
			// (forced call below) and listed in the debug info (formerly the known finding debug-single-instr-method)
			f.ret = KVoid
			f.body = seq(nil)
			g.f("prog:empty-func")
			g.funcs = append(g.funcs, f)
			cp.funcs = append(cp.funcs, f)
			continue
		}
		np := r.Intn(4)
		for j := 0; j < np; j++ {
			f.params = append(f.params, fmt.Sprintf("a%d", j))
			f.ptypes = append(f.ptypes, kinds[r.Intn(len(kinds))])
		}
		switch r.Intn(5) {
		case 0:
			f.ret = KVoid
		case 1:
			f.ret = KBool
		default:
			f.ret = KInt
		}
		if f.ret != KVoid && np <= 2 && r.Chance(1, 3) {
			// two results; `x, y := f(…)` is modelled for at most two arguments
			f.two = true
			f.ret2 = KBool
			if r.Chance(1, 3) {
				f.ret2 = KInt
			}
			g.f("prog:two-result")
		}
		if f.ret != KVoid && !f.two && np < 3 && r.Chance(1, 3) {
			f.params = append(f.params, "d")
			f.ptypes = append(f.ptypes, KInt)
			g.f("prog:recursive")
		}
		g.function(f, r.Range(2, 6))
		g.funcs = append(g.funcs, f)
		cp.funcs = append(cp.funcs, f)
	}
	p := &Prog{K: k, Kind: "core", Feat: g.feat, Core: cp, NParams: map[string]int{}}
	ne := r.Range(1, 2)
	var entries []*cFunc
	for i := 0; i < ne; i++ {
		f := &cFunc{name: fmt.Sprintf("§_F%d", i), ret: KInt}
		if r.Chance(1, 4) {
			f.ret = KBool
		}
		np := r.Intn(4)
		for j := 0; j < np; j++ {
			f.params = append(f.params, fmt.Sprintf("a%d", j))
			f.ptypes = append(f.ptypes, kinds[r.Intn(len(kinds))])
		}
		if r.Chance(1, 4) {
			f.ret = KInt
			f.params = []string{"a0"}
			f.ptypes = []Kind{KInt}
			g.ladder(f)
		} else {
			g.function(f, r.Range(3, 9))
		}
		cp.funcs = append(cp.funcs, f)
		entries = append(entries, f)
	}
	// every helper must be reachable from an exported function (the compiler drops unused functions)
	reach := map[string]bool{}
	var visit func(n string)
	visit = func(n string) {
		if reach[n] {
			return
		}
		reach[n] = true
		for c := range g.calls[n] {
			visit(c)
		}
	}
	for _, e := range entries {
		visit(e.name)
	}
	for i := len(cp.funcs) - 1; i >= 0; i-- {
		h := cp.funcs[i]
		if reach[h.name] || strings.HasPrefix(h.name, "§") {
			continue
		}
		// call it first thing in the first entry, arguments are literals
		e := &cExpr{k: "C", x: h.name, ty: h.ret}
		for j := range h.params {
			if h.ptypes[j] == KBool {
				e.kids = append(e.kids, &cExpr{k: "T", cst: true, ty: KBool})
			} else {
				e.kids = append(e.kids, lit(uint64(r.Intn(4))))
			}
		}
		entries[0].body = &cStmt{k: ";", kids: []*cStmt{{k: "call", e: e}, entries[0].body}}
		if g.calls[entries[0].name] == nil {
			g.calls[entries[0].name] = map[string]bool{}
		}
		g.calls[entries[0].name][h.name] = true
		visit(h.name)
		g.f("prog:forced-call")
	}
	rnP := func(s string) string { return rename(s, k, false) }
	rnC := func(s string) string { return rename(s, k, true) }
	var pl, ch strings.Builder
	for _, f := range cp.funcs {
		pl.WriteString(f.src(false, rnP))
		ch.WriteString(f.src(true, rnC))
		p.NParams[rnP(f.name)] = len(f.params)
	}
	p.Plain, p.Checked = pl.String(), ch.String()
	p.CoreTokens = cp.tokens(rnP)
	for _, f := range cp.funcs {
		p.CoreFuncs = append(p.CoreFuncs, rnP(f.name))
	}
	for _, f := range entries {
		var ks []Kind
		ks = append(ks, f.ptypes...)
		p.Entries = append(p.Entries, &Entry{Name: rnP(f.name), Params: ks, Ret: f.ret, Tuples: genTuples(r, ks, ntuples)})
	}
	return p
}

func argWords(e *Entry, t []int64) string {
	var ws []string
	for i, x := range t {
		if e.Params[i] == KBool {
			if x != 0 {
				ws = append(ws, "bt")
			} else {
				ws = append(ws, "bf")
			}
		} else {
			ws = append(ws, fmt.Sprintf("i%d", x))
		}
	}
	return strings.Join(ws, " ")
}

// emitCore writes the correspondence lines of a core program: the model compiler must produce the same
// bytes and method offsets, the model VM and the big-step semantics the same results as the real VM.
func emitCore(o *hx.Out, p *Prog, cr *compRes, gores map[string]goRes) {
	if p.Core == nil {
		return
	}
	o.Line(p.CoreTokens, hx.Hex(cr.script))
	o.Line("layout", "ok")
	// the real compiler compiled the program: the model's own size checks (Lean: Compile.accepted, the hypothesis of
	// C14.layoutOK_accepted) must accept it too
	o.Line("accepted", "yes")
	offs := map[string]int{}
	npar := map[string]int{}
	for _, m := range cr.methods {
		offs[m.id] = m.start
		npar[m.id] = m.nparams
	}
	for _, f := range p.CoreFuncs {
		if off, ok := offs[f]; ok {
			o.Line("offset "+f, fmt.Sprint(off))
			// the parameter count the real debug info lists vs the INITSLOT operand of the model's script
			// (Lean: C14.debug_params_correct)
			o.Count("core:params-lines")
			o.Line("params "+f, fmt.Sprint(npar[f]))
		} else {
			o.Line("offset "+f, "none")
		}
	}
	for fi, e := range p.Entries {
		ret := "int"
		if e.Ret == KBool {
			ret = "bool"
		}
		for ti, t := range e.Tuples {
			tk := fmt.Sprintf("%d %d", fi, ti)
			g, have := gores[fmt.Sprintf("%d %s", p.K, tk)]
			if !have || g.long {
				continue
			}
			args := argWords(e, t)
			if g.ovf {
				o.Count("core:ovf-lines")
				o.Line(strings.TrimSpace("ovf "+e.Name+" "+args), "overflow")
				continue
			}
			v, ok := cr.vmres[tk]
			if !ok {
				continue
			}
			obs := v
			if strings.HasPrefix(v, "ok ") {
				obs = "halt " + v[3:]
			}
			o.Count("core:run-lines")
			o.Line(strings.TrimSpace("run "+e.Name+" "+ret+" "+args), obs)
			o.Line(strings.TrimSpace("eval "+e.Name+" "+args), obs)
		}
	}
}
