package main

// The standard-toolchain side of the three-way run: all programs of a check run are linked into ONE
// generated `main` package (stdlib only) and executed with a single `go run`.

import (
	"bufio"
	"bytes"
	"fmt"
	"os"
	"os/exec"
	"path/filepath"
	"regexp"
	"strconv"
	"strings"
)

const batchPrelude = `package main

import (
	"bufio"
	"encoding/hex"
	"fmt"
	"math/bits"
	"os"
	"runtime"
	"strconv"
)

var ckOvf bool

// ckRt: a Go run-time error (division by zero, index out of range, nil map write, …) was recovered.
// NeoVM turns such errors into an uncatchable FAULT; the harness reports that shape under its own key.
var ckRt bool

// ckRec: some panic was recovered by the program.
var ckRec bool

// ckSwallow: a deferred call that does NOT recover ran while the function was panicking (Go re-panics after it).
var ckSwallow bool

func ck_swallow(r any) {
	if _, ok := r.(tooLong); ok {
		panic(r)
	}
	ckSwallow = true
}

func ck_rt(r any) {
	if _, ok := r.(tooLong); ok {
		panic(r)
	}
	ckRec = true
	if _, ok := r.(runtime.Error); ok {
		ckRt = true
	}
}

// ck_step bounds the work of one call (loop iterations + function entries) so that the batch terminates
// and the VM's instruction limit is never the reason of a difference.
type tooLong struct{}

var ckSteps int
var ckLong bool

// ck_str bounds the length of strings (far below the VM's 1 MiB item limit and the batch's memory).
func ck_str(n int) {
	if n > 1<<14 {
		ckLong = true
		panic(tooLong{})
	}
}

func ck_step() {
	ckSteps++
	if ckSteps > 4000 {
		ckLong = true
		panic(tooLong{})
	}
}

func ck_add(a, b int) int {
	c := a + b
	if (a >= 0 && b >= 0 && c < 0) || (a < 0 && b < 0 && c >= 0) {
		ckOvf = true
	}
	return c
}
func ck_sub(a, b int) int {
	c := a - b
	if (a >= 0 && b < 0 && c < 0) || (a < 0 && b >= 0 && c >= 0) {
		ckOvf = true
	}
	return c
}
func ck_abs(a int) (uint64, bool) {
	if a < 0 {
		return uint64(-(a + 1)) + 1, true
	}
	return uint64(a), false
}
func ck_mul(a, b int) int {
	ua, na := ck_abs(a)
	ub, nb := ck_abs(b)
	hi, lo := bits.Mul64(ua, ub)
	if hi != 0 {
		ckOvf = true
	} else if na != nb {
		if lo > 1<<63 {
			ckOvf = true
		}
	} else if lo > 1<<63-1 {
		ckOvf = true
	}
	return a * b
}
func ck_div(a, b int) int {
	if a == -1<<63 && b == -1 {
		ckOvf = true
	}
	return a / b
}
func ck_mod(a, b int) int { return a % b }
func ck_neg(a int) int {
	if a == -1<<63 {
		ckOvf = true
	}
	return -a
}
func ck_shl(a int, k int) int {
	c := a << uint(k)
	if c>>uint(k) != a {
		ckOvf = true
	}
	return c
}

var out = bufio.NewWriterSize(os.Stdout, 1<<16)

func fI(v int) string    { return strconv.Itoa(v) }
func fB(v bool) string   { return strconv.FormatBool(v) }
func fS(v string) string { if v == "" { return "-" }; return hex.EncodeToString([]byte(v)) }

type entry struct {
	tag    string
	resetP func()
	fP     func(a []int) string
	resetC func()
	fC     func(a []int) string
	tuples [][]int
}

func call(reset func(), f func(a []int) string, a []int) (res string) {
	defer func() {
		if r := recover(); r != nil {
			res = "panic"
		}
	}()
	reset()
	return "ok " + f(a)
}

func main() {
	defer out.Flush()
	for _, e := range table {
		for ti, t := range e.tuples {
			ckOvf, ckRt, ckRec, ckSwallow, ckLong, ckSteps = false, false, false, false, false, 0
			rc := ""
			if e.fC != nil {
				rc = call(e.resetC, e.fC, t)
			}
			if ckLong {
				fmt.Fprintf(out, "%s %d 4 long | long\n", e.tag, ti)
				continue
			}
			rp := call(e.resetP, e.fP, t)
			if e.fC == nil {
				rc = rp
			}
			ov := 0
			if ckOvf {
				ov = 1
			}
			if ckRt {
				ov += 2
			}
			if ckRec {
				ov += 8
			}
			if ckSwallow {
				ov += 16
			}
			fmt.Fprintf(out, "%s %d %d %s | %s\n", e.tag, ti, ov, rp, rc)
		}
	}
}
`

type goRes struct {
	long    bool // the step budget was exceeded: tuple not compared
	ovf     bool
	rtrec   bool   // a run-time error was recovered on the Go side
	rec     bool   // some panic was recovered on the Go side
	swallow bool   // a non-recovering deferred call ran during a panic
	plain   string // "ok <canon>" or "panic"
	checked string
}

func fmtFn(k Kind) string {
	switch k {
	case KBool:
		return "fB"
	case KStr:
		return "fS"
	}
	return "fI"
}

func callExpr(name string, params []Kind) string {
	var as []string
	for i, k := range params {
		if k == KBool {
			as = append(as, fmt.Sprintf("a[%d] != 0", i))
		} else {
			as = append(as, fmt.Sprintf("a[%d]", i))
		}
	}
	return name + "(" + strings.Join(as, ", ") + ")"
}

// buildBatch renders the batch source; lineOwner maps line numbers (1-based) to program indices.
func buildBatch(progs []*Prog) (string, []int) {
	var b strings.Builder
	prelude := batchPrelude
	for _, p := range progs {
		if p.Imports != "" {
			// the batch is linked against the compiler's own testdata package (helpers that the compiler inlines)
			prelude = strings.Replace(prelude, "import (\n", "import (\n\t\"github.com/nspcc-dev/neo-go/pkg/compiler/testdata/inline\"\n", 1)
			break
		}
	}
	b.WriteString(prelude)
	owner := make([]int, strings.Count(prelude, "\n")+1)
	for i := range owner {
		owner[i] = -1
	}
	add := func(k int, s string) {
		b.WriteString(s)
		for i := 0; i < strings.Count(s, "\n"); i++ {
			owner = append(owner, k)
		}
	}
	for _, p := range progs {
		k := p.K
		add(k, fmt.Sprintf("// ---- program %d (%s)\n", k, p.Kind))
		// (_deploy is a reserved name for the compiler; in the batch every program has its own)
		add(k, strings.ReplaceAll(p.Plain, "func _deploy(", fmt.Sprintf("func p%d_deploy(", k)))
		if !strings.HasSuffix(p.Plain, "\n") {
			add(k, "\n")
		}
		add(k, fmt.Sprintf("func p%d_init() {\n%s}\n", k, p.Init))
		add(k, fmt.Sprintf("func p%d_reset() {\n%sp%d_init()\n}\n", k, p.ResetP, k))
		if p.Checked != "" {
			add(k, strings.ReplaceAll(p.Checked, "func _deploy(", fmt.Sprintf("func c%d_deploy(", k)))
			add(k, fmt.Sprintf("func c%d_init() {\n%s}\n", k, p.InitC))
			add(k, fmt.Sprintf("func c%d_reset() {\n%sc%d_init()\n}\n", k, p.ResetC, k))
		}
	}
	add(-1, "var table = []entry{\n")
	for _, p := range progs {
		k := p.K
		for fi, e := range p.Entries {
			var ts []string
			for _, t := range e.Tuples {
				var xs []string
				for _, x := range t {
					xs = append(xs, strconv.FormatInt(x, 10))
				}
				ts = append(ts, "{"+strings.Join(xs, ", ")+"}")
			}
			fc := "nil"
			rc := "nil"
			if p.Checked != "" {
				cname := "C" + strings.TrimPrefix(e.Name, "P")
				fc = fmt.Sprintf("func(a []int) string { return %s(%s) }", fmtFn(e.Ret), callExpr(cname, e.Params))
				rc = fmt.Sprintf("c%d_reset", k)
			}
			add(k, fmt.Sprintf("{%q, p%d_reset, func(a []int) string { return %s(%s) }, %s, %s, [][]int{%s}},\n",
				fmt.Sprintf("%d %d", k, fi), k, fmtFn(e.Ret), callExpr(e.Name, e.Params), rc, fc, strings.Join(ts, ", ")))
		}
	}
	add(-1, "}\n")
	return b.String(), owner
}

var errLine = regexp.MustCompile(`main\.go:(\d+):(\d+)?:? (.*)`)

// runBatch runs the programs with the standard toolchain. Programs that the Go compiler rejects are dropped
// (reported in `dropped`) and the batch is retried.
func runBatch(dir string, progs []*Prog) (map[string]goRes, map[int]string, error) {
	dropped := map[int]string{}
	if err := os.MkdirAll(dir, 0o755); err != nil {
		return nil, nil, err
	}
	linked := false
	for _, p := range progs {
		if p.Imports != "" {
			linked = true
		}
	}
	gomod := "module batch\n\ngo 1.23\n"
	if linked {
		gomod = "module batch\n\ngo 1.25.0\n\nrequire github.com/nspcc-dev/neo-go v0.0.0\n\nreplace github.com/nspcc-dev/neo-go => /repo\n"
		if sum, err := os.ReadFile("/repo/go.sum"); err == nil {
			os.WriteFile(filepath.Join(dir, "go.sum"), sum, 0o644)
		}
	}
	if err := os.WriteFile(filepath.Join(dir, "go.mod"), []byte(gomod), 0o644); err != nil {
		return nil, nil, err
	}
	for attempt := 0; attempt < 6; attempt++ {
		var cur []*Prog
		for _, p := range progs {
			if _, bad := dropped[p.K]; !bad {
				cur = append(cur, p)
			}
		}
		src, owner := buildBatch(cur)
		if err := os.WriteFile(filepath.Join(dir, "main.go"), []byte(src), 0o644); err != nil {
			return nil, nil, err
		}
		cmd := exec.Command("go", "run", "-gcflags=-e", ".")
		cmd.Dir = dir
		env := []string{"GOFLAGS=-mod=mod", "GOPROXY=off", "GO111MODULE=on"}
		if !linked {
			env = append(env, "GOTOOLCHAIN=local")
		}
		for _, e := range os.Environ() {
			if strings.HasPrefix(e, "GOFLAGS=") || strings.HasPrefix(e, "GOPROXY=") || strings.HasPrefix(e, "GOTOOLCHAIN=") || strings.HasPrefix(e, "GOMEMLIMIT=") {
				continue
			}
			env = append(env, e)
		}
		cmd.Env = env
		var stdout, stderr bytes.Buffer
		cmd.Stdout, cmd.Stderr = &stdout, &stderr
		err := cmd.Run()
		if err != nil {
			// compile errors: map lines to programs and retry without them
			n := 0
			for _, l := range strings.Split(stderr.String(), "\n") {
				m := errLine.FindStringSubmatch(l)
				if m == nil {
					continue
				}
				ln, _ := strconv.Atoi(m[1])
				if ln >= 1 && ln <= len(owner) && owner[ln-1] >= 0 {
					if _, ok := dropped[owner[ln-1]]; !ok {
						dropped[owner[ln-1]] = m[3]
						n++
					}
				}
			}
			if n == 0 {
				return nil, dropped, fmt.Errorf("go run failed: %v\n%s", err, tail(stderr.String(), 3000))
			}
			continue
		}
		res := map[string]goRes{}
		sc := bufio.NewScanner(&stdout)
		sc.Buffer(make([]byte, 1<<20), 1<<26)
		for sc.Scan() {
			// "<k> <fi> <ti> <ov> <plain> | <checked>"
			l := sc.Text()
			parts := strings.SplitN(l, " | ", 2)
			if len(parts) != 2 {
				continue
			}
			fs := strings.SplitN(parts[0], " ", 5)
			if len(fs) != 5 {
				continue
			}
			fl, _ := strconv.Atoi(fs[3])
			res[fs[0]+" "+fs[1]+" "+fs[2]] = goRes{long: fl&4 != 0, ovf: fl&1 != 0, rtrec: fl&2 != 0, rec: fl&8 != 0, swallow: fl&16 != 0, plain: fs[4], checked: parts[1]}
		}
		return res, dropped, nil
	}
	return nil, dropped, fmt.Errorf("go run: too many rejected programs")
}

func tail(s string, n int) string {
	if len(s) > n {
		return s[len(s)-n:]
	}
	return s
}
