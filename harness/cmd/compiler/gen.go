package main

// Dialect generator: random Go programs inside the documented neo-go compiler dialect.
//
// Every program is rendered twice from the same derivation:
//   p  – plain Go (this text is compiled by the real neo-go compiler AND by the standard Go toolchain);
//   c  – "checked" Go: identical control flow, every int arithmetic step goes through ck_* helpers that
//        raise a flag when the mathematical result leaves the int64 range (the property's side condition).
// Names carry a per-program prefix (P<k>_/p<k>_ in the plain text, C<k>_/c<k>_ in the checked text) so
// that many programs can be linked into one `go run` batch.

import (
	"fmt"
	"strings"

	"verif/harness/internal/prng"
)

type Kind int

const (
	KInt Kind = iota
	KBool
	KStr
	KBytes
	KInts
	KMapII
	KMapSI
	KPtr // pointer to struct
	KVoid
)

type Ty struct {
	K Kind
	S *StructDef
}

var (
	tInt   = Ty{K: KInt}
	tBool  = Ty{K: KBool}
	tStr   = Ty{K: KStr}
	tBytes = Ty{K: KBytes}
	tInts  = Ty{K: KInts}
	tMapII = Ty{K: KMapII}
	tMapSI = Ty{K: KMapSI}
	tVoid  = Ty{K: KVoid}
)

type StructDef struct {
	Name   string // with § placeholder
	Fields []Field
	// methods
	Methods []*Func
}

type Field struct {
	Name string
	Ty   Ty
}

func (t Ty) src() string {
	switch t.K {
	case KInt:
		return "int"
	case KBool:
		return "bool"
	case KStr:
		return "string"
	case KBytes:
		return "[]byte"
	case KInts:
		return "[]int"
	case KMapII:
		return "map[int]int"
	case KMapSI:
		return "map[string]int"
	case KPtr:
		return "*" + t.S.Name
	}
	return ""
}

// E is an expression rendered in both variants.
type E struct {
	p, c string
	prec int  // Go precedence of the outermost operator; 6 = primary/unary
	cst  bool // a Go constant expression (the type checker folds it; overflow / zero division / negative index are compile errors)
}

func atom(s string) E     { return E{s, s, 6, false} }
func atom2(p, c string) E { return E{p, c, 6, false} }
func (e E) paren() E      { return E{"(" + e.p + ")", "(" + e.c + ")", 6, e.cst} }
func (e E) atLeast(p int) E { // parenthesise if the outer operator binds weaker than p
	if e.prec < p {
		return e.paren()
	}
	return e
}

type Var struct {
	Name     string
	Ty       Ty
	ReadOnly bool // loop counters, range vars, fuel
	Used     bool
	Global   bool
	// static knowledge used to keep most programs panic-free
	MinLen int // for slices/strings: a lower bound of the length (never shrinks in the generated code)
	// Fresh: a container created in this function by a literal/make and never aliased (append / mutation stays local)
	Fresh bool
	// Clean (strings): only ever holds ByteString values (literals, substrings, conversions), never a concatenation.
	// A concatenation result is a VM Buffer: `==`, switch and map keys misbehave on it (known finding string-concat-compare).
	Clean bool
}

type Func struct {
	Name    string // with placeholders
	Params  []*Var
	Rets    []Ty
	Recv    *Var // method receiver (pointer)
	Rec     bool // takes a trailing fuel parameter "d" and may call itself
	Body    E
	Pure    bool
	Defined bool
	group   bool // print consecutive parameters of one type as a group
}

type scope struct {
	vars []*Var
}

type loopCtx struct {
	label    string
	usedLbl  *bool
	isSwitch bool // a switch (break only)
	mapRange bool
}

type G struct {
	nctx         int // constructs generated so far that save and restore compiler context (if/for/range/switch/block/inlined call)
	r            *prng.R
	feat         map[string]int
	structs      []*StructDef
	globals      []*Var
	funcs        []*Func // callable helpers (already generated)
	scopes       []*scope
	loops        []loopCtx
	cur          *Func
	nvar         int
	nlbl         int
	budget       int // statements left for the current function
	depth        int // nesting depth of blocks
	inDefer      bool
	hasDefer     bool
	hasBump      bool
	noLoopInline bool // no inlined helper that contains a loop (VarSum, SumVar)
	useInline    bool // the program imports the compiler's testdata/inline package
	noCalls      bool
	safe         bool // no operation that can panic (global initialisers run in the batch's package init)
	loopNest     int
	selfCalls    int
	topCall      bool     // the call being generated is the whole right-hand side of a statement
	cleanStr     bool     // string expressions must be ByteStrings
	hidden       *Var     // a variable that must not be mentioned (the target of a multi-argument append)
	pure         bool     // the function being generated must not have side effects visible outside
	impure       bool     // … and this one turned out to have some
	initFns      []string // bodies of init functions (plain/checked pairs rendered later)
	inits        []E
	decls        []E
}

func (g *G) f(name string) { g.feat[name]++ }

func (g *G) push() { g.scopes = append(g.scopes, &scope{}) }

// pop closes the scope and returns `_ = x` statements for variables never read (Go rejects unused locals).
func (g *G) pop() E {
	s := g.scopes[len(g.scopes)-1]
	g.scopes = g.scopes[:len(g.scopes)-1]
	var b strings.Builder
	for _, v := range s.vars {
		if !v.Used {
			fmt.Fprintf(&b, "_ = %s\n", v.Name)
		}
	}
	return E{b.String(), b.String(), 0, false}
}

func (g *G) declare(v *Var) { s := g.scopes[len(g.scopes)-1]; s.vars = append(s.vars, v) }

// scopedName names a variable that is declared in a scope of its own (for / if / switch init statement, range
// key and value, the counter block of a condition-only loop): a fresh name, or the name of a visible variable
// (local, parameter or global of any type), which it then shadows until that scope ends.
func (g *G) scopedName(pfx string, avoid ...string) string {
	if g.r.Chance(2, 5) {
		vs := g.visible(func(v *Var) bool {
			if v.Name == "d" || v.Name == "s" || strings.HasPrefix(v.Name, "acc") {
				return false
			}
			for _, a := range avoid {
				if a == v.Name {
					return false
				}
			}
			return true
		})
		if len(vs) > 0 {
			v := vs[g.r.Intn(len(vs))]
			g.f("shadow:" + pfx)
			if v.Global {
				g.f("shadow:global")
			}
			return v.Name
		}
	}
	return g.fresh(pfx)
}

func (g *G) fresh(pfx string) string { g.nvar++; return fmt.Sprintf("%s%d", pfx, g.nvar) }

// visible variables of a kind (innermost first; shadowed names are skipped).
func (g *G) visible(pred func(*Var) bool) []*Var {
	var res []*Var
	seen := map[string]bool{}
	for i := len(g.scopes) - 1; i >= 0; i-- {
		vs := g.scopes[i].vars
		for j := len(vs) - 1; j >= 0; j-- {
			v := vs[j]
			if seen[v.Name] {
				continue
			}
			seen[v.Name] = true
			if pred(v) && v != g.hidden {
				res = append(res, v)
			}
		}
	}
	if !g.noGlobals() {
		for _, v := range g.globals {
			if !seen[v.Name] && pred(v) {
				res = append(res, v)
			}
		}
	}
	return res
}

func (g *G) noGlobals() bool { return false }

func (g *G) pickVar(k Kind, writable bool) *Var {
	vs := g.visible(func(v *Var) bool {
		return v.Ty.K == k && (!writable || (!v.ReadOnly && !(g.pure && v.Global)))
	})
	if len(vs) == 0 {
		return nil
	}
	// bias towards the innermost ones
	i := g.r.Intn(len(vs))
	if g.r.Bool() {
		i = g.r.Intn(i + 1)
	}
	if writable && vs[i].Global {
		g.impure = true
	}
	return vs[i]
}

// pickMut: a container that may be mutated in place. In a pure function only fresh locals qualify.
func (g *G) pickMut(k Kind, needFresh bool) *Var {
	vs := g.visible(func(v *Var) bool {
		if v.Ty.K != k || v.ReadOnly {
			return false
		}
		if needFresh || g.pure {
			return v.Fresh && !v.Global
		}
		return true
	})
	if len(vs) == 0 {
		return nil
	}
	v := vs[g.r.Intn(len(vs))]
	if !v.Fresh {
		g.impure = true
	}
	return v
}

var smallInts = []int64{0, 1, 2, 3, 4, 5, 7, 8, 10, 15, 16, 17, 31, 32, 33, 100, 127, 128, 255, 256, 1000}
var bigInts = []int64{65535, 65536, 1 << 31, 1<<31 - 1, 1 << 32, 1<<53 + 1, 1<<62 + 3, 1<<63 - 1, 1<<63 - 2}

func (g *G) intLit() E {
	var v int64
	switch g.r.Intn(10) {
	case 0:
		v = bigInts[g.r.Intn(len(bigInts))]
	case 1, 2:
		v = int64(g.r.Intn(2000))
	default:
		v = smallInts[g.r.Intn(len(smallInts))]
	}
	if g.r.Chance(1, 40) {
		// the most negative int: its operand 9223372036854775808 does not fit int64 (formerly the known finding
		// minint64-literal)
		g.f("expr:minint64-literal")
		s := "-9223372036854775808"
		return E{s, s, 6, true}
	}
	if g.r.Chance(1, 5) {
		s := fmt.Sprintf("-%d", v)
		return E{s, s, 6, true}
	}
	s := fmt.Sprintf("%d", v)
	return E{s, s, 6, true}
}

func (g *G) smallLit(lo, hi int) E {
	s := fmt.Sprintf("%d", g.r.Range(lo, hi))
	return E{s, s, 6, true}
}

func (g *G) use(v *Var) E { v.Used = true; return atom(v.Name) }

func bin(op string, prec int, a, b E, ck string) E {
	a = a.atLeast(prec)
	b = b.atLeast(prec + 1)
	p := a.p + " " + op + " " + b.p
	c := a.c + " " + op + " " + b.c
	if ck != "" {
		c = ck + "(" + a.c + ", " + b.c + ")"
	}
	return E{p, c, prec, a.cst && b.cst}
}

func isLit(e E) bool { return e.cst }

// genExpr generates an expression of type t; d bounds the depth.
func (g *G) genExpr(t Ty, d int) E {
	switch t.K {
	case KInt:
		return g.genInt(d)
	case KBool:
		return g.genBool(d)
	case KStr:
		return g.genStr(d)
	case KBytes:
		return g.genBytes(d)
	case KInts:
		return g.genInts(d)
	case KMapII, KMapSI:
		return g.genMap(t)
	case KPtr:
		return g.genPtr(t, d)
	}
	panic("bad type")
}

// genInline: a call of a helper that the compiler inlines; the checked rendering spells the helper out.
func (g *G) genInline(d int) E {
	g.nctx++
	a, b := g.genInt(d-1), g.genInt(d-1)
	which := g.r.Intn(5)
	if g.noLoopInline && (which == 2 || which == 4) {
		which = 0
	}
	switch which {
	case 0:
		g.f("expr:inline-Sum")
		return E{"inline.Sum(" + a.p + ", " + b.p + ")", "ck_add(" + a.c + ", " + b.c + ")", 6, false}
	case 1:
		g.f("expr:inline-SumSquared")
		return E{"inline.SumSquared(" + a.p + ", " + b.p + ")", "ck_mul(ck_add(" + a.c + ", " + b.c + "), ck_add(" + a.c + ", " + b.c + "))", 6, false}
	case 2:
		c3 := g.genInt(d - 1)
		g.f("expr:inline-VarSum")
		return E{"inline.VarSum(" + a.p + ", " + b.p + ", " + c3.p + ")", "ck_add(ck_add(" + a.c + ", " + b.c + "), " + c3.c + ")", 6, false}
	case 3:
		g.f("expr:inline-Concat")
		return E{"inline.Concat(" + a.p + ")", "ck_add(ck_mul(" + a.c + ", 100), 121)", 6, false}
	default:
		g.f("expr:inline-SumVar")
		return E{"inline.SumVar(" + a.p + ", " + b.p + ")", "ck_add(" + a.c + ", " + b.c + ")", 6, false}
	}
}

func (g *G) genInt(d int) E {
	if g.useInline && d > 0 && !g.safe && !g.noCalls && g.r.Chance(1, 8) {
		return g.genInline(d)
	}
	if d <= 0 || g.r.Chance(1, 4) {
		if v := g.pickVar(KInt, false); v != nil && g.r.Chance(3, 4) {
			return g.use(v)
		}
		return g.intLit()
	}
	switch g.r.Weighted([]int{30, 6, 5, 5, 4, 4, 5, 4, 3, 4, 3}) {
	case 0: // arithmetic
		ops := []struct {
			op   string
			prec int
			ck   string
		}{{"+", 4, "ck_add"}, {"-", 4, "ck_sub"}, {"*", 5, "ck_mul"}, {"/", 5, "ck_div"}, {"%", 5, "ck_mod"},
			{"+", 4, "ck_add"}, {"-", 4, "ck_sub"}, {"*", 5, "ck_mul"}, {"&", 5, ""}, {"|", 4, ""}, {"^", 4, ""}}
		o := ops[g.r.Intn(len(ops))]
		if g.safe && (o.op == "/" || o.op == "%") {
			o = ops[0]
		}
		a := g.genInt(d - 1)
		b := g.genInt(d - 1)
		if isLit(a) && isLit(b) {
			// constant folding path: keep the constants small so that Go accepts the constant expression
			a, b = g.smallLit(0, 20), g.smallLit(1, 9)
			g.f("expr:const-fold")
		}
		if (o.op == "/" || o.op == "%") && isLit(b) {
			// Go rejects division by the constant zero; a non-zero constant is fine
			b = g.smallLit(1, 9)
		}
		g.f("expr:arith" + o.op)
		e := bin(o.op, o.prec, a, b, o.ck)
		if g.r.Chance(1, 6) {
			return e.paren()
		}
		return e
	case 1: // unary minus / complement
		a := g.genInt(d - 1)
		if a.cst {
			a = g.smallLit(0, 200) // keep constant expressions inside int
		}
		if g.r.Chance(1, 4) {
			g.f("expr:invert")
			a = a.atLeast(6)
			if strings.HasPrefix(a.p, "^") || strings.HasPrefix(a.p, "-") {
				a = a.paren()
			}
			return E{"^" + a.p, "^" + a.c, 6, a.cst}
		}
		g.f("expr:neg")
		a = a.atLeast(6)
		if strings.HasPrefix(a.p, "-") {
			a = a.paren()
		}
		return E{"-" + a.p, "ck_neg(" + a.c + ")", 6, a.cst}
	case 2: // shifts by a small constant
		a := g.genInt(d - 1)
		if a.cst {
			a = g.smallLit(0, 200)
		}
		a = a.atLeast(5)
		k := g.r.Intn(5)
		if g.r.Bool() {
			g.f("expr:shl")
			return E{fmt.Sprintf("%s << %d", a.p, k), fmt.Sprintf("ck_shl(%s, %d)", a.c, k), 5, a.cst}
		}
		g.f("expr:shr")
		return E{fmt.Sprintf("%s >> %d", a.p, k), fmt.Sprintf("%s >> %d", a.c, k), 5, a.cst}
	case 3: // len
		ks := []Kind{KStr, KBytes, KInts, KMapII, KMapSI}
		k := ks[g.r.Intn(len(ks))]
		if v := g.pickVar(k, false); v != nil {
			g.f("expr:len")
			return atom("len(" + g.use(v).p + ")")
		}
		return g.genInt(d - 1)
	case 4: // index
		if g.safe {
			return g.genInt(d - 1)
		}
		return g.genIndex(d)
	case 5: // call
		if e, ok := g.genCall(tInt, d); ok {
			return e
		}
		return g.genInt(d - 1)
	case 6: // field
		if v := g.pickVar(KPtr, false); v != nil {
			for _, f := range v.Ty.S.Fields {
				if f.Ty.K == KInt && g.r.Bool() {
					g.f("expr:field")
					return atom(g.use(v).p + "." + f.Name)
				}
			}
		}
		return g.genInt(d - 1)
	case 7: // min/max
		a, b := g.genInt(d-1), g.genInt(d-1)
		fn := "min"
		if g.r.Bool() {
			fn = "max"
		}
		g.f("expr:minmax")
		if g.r.Chance(1, 3) {
			c3 := g.genInt(d - 1)
			return E{fn + "(" + a.p + ", " + b.p + ", " + c3.p + ")", fn + "(" + a.c + ", " + b.c + ", " + c3.c + ")", 6, a.cst && b.cst && c3.cst}
		}
		return E{fn + "(" + a.p + ", " + b.p + ")", fn + "(" + a.c + ", " + b.c + ")", 6, a.cst && b.cst}
	case 8: // map lookup of a key that is known to be present is rare; use the comma-ok helper instead
		return g.genInt(d - 1)
	case 9: // int(byte) conversions
		if v := g.pickVar(KStr, false); v != nil && v.MinLen > 0 && !g.safe {
			g.f("expr:str-index")
			i := g.r.Intn(v.MinLen)
			return atom(fmt.Sprintf("int(%s[%d])", g.use(v).p, i))
		}
		return g.genInt(d - 1)
	default:
		return g.genInt(d - 1).paren()
	}
}

// genIndex: element of a []int / []byte with an index that is in range in most cases.
func (g *G) genIndex(d int) E {
	k := KInts
	if g.r.Chance(1, 3) {
		k = KBytes
	}
	v := g.pickVar(k, false)
	if v == nil {
		return g.genInt(d - 1)
	}
	var idx E
	switch {
	case v.MinLen > 0 && g.r.Chance(4, 5):
		idx = atom(fmt.Sprintf("%d", g.r.Intn(v.MinLen)))
	case g.r.Chance(1, 2):
		// possibly out of range: both sides must fail
		g.f("expr:index-maybe-oob")
		idx = g.genInt(d - 1)
		if idx.cst {
			idx = g.smallLit(0, 6)
		}
	default:
		idx = g.smallLit(0, 3)
	}
	g.f("expr:index")
	if k == KBytes {
		return atom2(fmt.Sprintf("int(%s[%s])", g.use(v).p, idx.p), fmt.Sprintf("int(%s[%s])", v.Name, idx.c))
	}
	return atom2(fmt.Sprintf("%s[%s]", g.use(v).p, idx.p), fmt.Sprintf("%s[%s]", v.Name, idx.c))
}

func (g *G) genBool(d int) E {
	if d <= 0 || g.r.Chance(1, 6) {
		if v := g.pickVar(KBool, false); v != nil && g.r.Chance(3, 4) {
			return g.use(v)
		}
		if g.r.Bool() {
			return atom("true")
		}
		return atom("false")
	}
	switch g.r.Weighted([]int{30, 12, 12, 8, 4, 4, 3, 3}) {
	case 0:
		ops := []string{"<", "<=", ">", ">=", "==", "!="}
		op := ops[g.r.Intn(len(ops))]
		a, b := g.genInt(d-1), g.genInt(d-1)
		if isLit(a) && isLit(b) {
			if v := g.pickVar(KInt, false); v != nil {
				a = g.use(v)
			}
		}
		g.f("expr:cmp" + op)
		return bin(op, 3, a, b, "")
	case 1:
		g.f("expr:&&")
		return bin("&&", 2, g.genBool(d-1), g.genBool(d-1), "")
	case 2:
		g.f("expr:||")
		return bin("||", 1, g.genBool(d-1), g.genBool(d-1), "")
	case 3:
		g.f("expr:!")
		a := g.genBool(d - 1).atLeast(6)
		return E{"!" + a.p, "!" + a.c, 6, false}
	case 4:
		op := "=="
		if g.r.Bool() {
			op = "!="
		}
		a, b := g.genBool(d-1), g.genBool(d-1)
		if (a.p == "true" || a.p == "false") && (b.p == "true" || b.p == "false") {
			if v := g.pickVar(KBool, false); v != nil {
				a = g.use(v)
			}
		}
		g.f("expr:booleq")
		return bin(op, 3, a, b, "")
	case 5:
		op := "=="
		if g.r.Bool() {
			op = "!="
		}
		g.f("expr:streq")
		a, b := g.genStrClean(d-1), g.genStrClean(d-1)
		if strings.HasPrefix(a.p, "\"") && strings.HasPrefix(b.p, "\"") {
			// two literals would be folded; compare a variable if there is one
			if vs := g.visible(func(v *Var) bool { return v.Ty.K == KStr && v.Clean }); len(vs) > 0 {
				a = g.use(vs[g.r.Intn(len(vs))])
			}
		}
		return bin(op, 3, a, b, "")
	case 6:
		if e, ok := g.genCall(tBool, d); ok {
			return e
		}
		return g.genBool(d - 1)
	default:
		if v := g.pickVar(KPtr, false); v != nil {
			for _, f := range v.Ty.S.Fields {
				if f.Ty.K == KBool {
					g.f("expr:field")
					return atom(g.use(v).p + "." + f.Name)
				}
			}
		}
		return g.genBool(d - 1).paren()
	}
}

var strLits = []string{"", "a", "ab", "abc", "hello", "neo", "xyz", "0", "key", "Zz"}

func (g *G) strLit() (E, int) {
	s := strLits[g.r.Intn(len(strLits))]
	return atom(fmt.Sprintf("%q", s)), len(s)
}

// genStrClean: a string expression whose VM value is a ByteString (never a Buffer).
func (g *G) genStrClean(d int) E {
	vs := g.visible(func(v *Var) bool { return v.Ty.K == KStr && v.Clean })
	switch g.r.Intn(4) {
	case 0, 1:
		if len(vs) > 0 {
			return g.use(vs[g.r.Intn(len(vs))])
		}
	case 2:
		if v := g.pickVar(KStr, false); v != nil && v.MinLen > 0 && !g.safe {
			lo := g.r.Intn(v.MinLen + 1)
			hi := lo + g.r.Intn(v.MinLen-lo+1)
			g.f("expr:substr")
			return atom(fmt.Sprintf("%s[%d:%d]", g.use(v).p, lo, hi))
		}
	}
	e, _ := g.strLit()
	return e
}

func (g *G) genStr(d int) E {
	if g.cleanStr {
		return g.genStrClean(d)
	}
	if d <= 0 || g.r.Chance(1, 3) {
		if v := g.pickVar(KStr, false); v != nil && g.r.Chance(2, 3) {
			return g.use(v)
		}
		e, _ := g.strLit()
		return e
	}
	switch g.r.Weighted([]int{10, 4, 3, 3}) {
	case 0:
		g.f("expr:concat")
		a, b := g.genStr(d-1), g.genStr(d-1)
		if strings.HasPrefix(a.p, "\"") && strings.HasPrefix(b.p, "\"") {
			g.f("expr:const-concat")
		}
		return bin("+", 4, a, b, "")
	case 1:
		if v := g.pickVar(KStr, false); v != nil && v.MinLen > 0 && !g.safe {
			lo := g.r.Intn(v.MinLen + 1)
			hi := lo + g.r.Intn(v.MinLen-lo+1)
			g.f("expr:substr")
			switch g.r.Intn(3) {
			case 0:
				return atom(fmt.Sprintf("%s[%d:%d]", g.use(v).p, lo, hi))
			case 1:
				return atom(fmt.Sprintf("%s[:%d]", g.use(v).p, hi))
			default:
				return atom(fmt.Sprintf("%s[%d:]", g.use(v).p, lo))
			}
		}
		return g.genStr(d - 1)
	case 2:
		if v := g.pickVar(KBytes, false); v != nil {
			g.f("expr:string(bytes)")
			return atom("string(" + g.use(v).p + ")")
		}
		return g.genStr(d - 1)
	default:
		if e, ok := g.genCall(tStr, d); ok {
			return e
		}
		return g.genStr(d - 1)
	}
}

func (g *G) genBytes(d int) E {
	if v := g.pickVar(KBytes, false); v != nil && g.r.Chance(1, 2) {
		return g.use(v)
	}
	if g.r.Chance(1, 3) {
		g.f("expr:[]byte(str)")
		s := g.genStr(d - 1)
		return E{"[]byte(" + s.p + ")", "[]byte(" + s.c + ")", 6, false}
	}
	return g.bytesLit(d)
}

func (g *G) bytesLit(d int) E {
	n := g.r.Intn(5)
	var ps, cs []string
	for i := 0; i < n; i++ {
		if g.r.Chance(1, 4) {
			if v := g.pickVar(KInt, false); v != nil {
				// byte(x) truncates in Go but not in NeoVM: keep the value inside 0..255 explicitly
				g.f("expr:bytes-lit-var")
				ps = append(ps, "byte("+g.use(v).p+" & 127)")
				cs = append(cs, "byte("+v.Name+" & 127)")
				continue
			}
		}
		s := fmt.Sprintf("%d", g.r.Intn(256))
		ps, cs = append(ps, s), append(cs, s)
	}
	g.f("expr:bytes-lit")
	return atom2("[]byte{"+strings.Join(ps, ", ")+"}", "[]byte{"+strings.Join(cs, ", ")+"}")
}

func (g *G) genInts(d int) E {
	if v := g.pickVar(KInts, false); v != nil && g.r.Chance(1, 2) {
		return g.use(v)
	}
	e, _ := g.intsLit(d)
	return e
}

func (g *G) intsLit(d int) (E, int) {
	n := g.r.Intn(5)
	var ps, cs []string
	for i := 0; i < n; i++ {
		e := g.genInt(min(d-1, 1))
		ps, cs = append(ps, e.p), append(cs, e.c)
	}
	g.f("expr:ints-lit")
	return atom2("[]int{"+strings.Join(ps, ", ")+"}", "[]int{"+strings.Join(cs, ", ")+"}"), n
}

func (g *G) genMap(t Ty) E {
	n := g.r.Intn(4)
	var ps, cs []string
	used := map[string]bool{}
	for i := 0; i < n; i++ {
		var k string
		if t.K == KMapII {
			k = fmt.Sprintf("%d", g.r.Intn(8))
		} else {
			k = fmt.Sprintf("%q", strLits[1+g.r.Intn(len(strLits)-1)])
		}
		if used[k] {
			continue
		}
		used[k] = true
		v := g.genInt(1)
		ps, cs = append(ps, k+": "+v.p), append(cs, k+": "+v.c)
	}
	g.f("expr:map-lit")
	return atom2(t.src()+"{"+strings.Join(ps, ", ")+"}", t.src()+"{"+strings.Join(cs, ", ")+"}")
}

func (g *G) genPtr(t Ty, d int) E {
	if v := g.visible(func(v *Var) bool { return v.Ty.K == KPtr && v.Ty.S == t.S }); len(v) > 0 && g.r.Chance(1, 2) {
		return g.use(v[g.r.Intn(len(v))])
	}
	var ps, cs []string
	keyed := g.r.Bool()
	for _, f := range t.S.Fields {
		if keyed && g.r.Chance(1, 3) {
			g.f("expr:struct-lit-omitted-field")
			continue // left at the zero value
		}
		var e E
		if f.Ty.K == KStr {
			e = g.genStrClean(1) // struct string fields are compared by the observers
		} else {
			e = g.genExpr(f.Ty, min(d-1, 1))
		}
		if keyed {
			ps, cs = append(ps, f.Name+": "+e.p), append(cs, f.Name+": "+e.c)
		} else {
			ps, cs = append(ps, e.p), append(cs, e.c)
		}
	}
	g.f("expr:struct-lit")
	return atom2("&"+t.S.Name+"{"+strings.Join(ps, ", ")+"}", "&"+t.S.Name+"{"+strings.Join(cs, ", ")+"}")
}

// genCall: call of an already generated helper (or the current function, if it is recursive) with result type t.
func (g *G) genCall(t Ty, d int) (E, bool) {
	if g.noCalls || g.safe || (g.loopNest > 0 && !g.r.Chance(1, 4)) {
		return E{}, false
	}
	// Inside an expression only side-effect-free functions are called: Go leaves the order between a call and
	// the reads of variables in the same expression unspecified.
	var cands []*Func
	for _, f := range g.funcs {
		if len(f.Rets) == 1 && f.Rets[0].K == t.K && (f.Rets[0].K != KPtr) && (f.Pure || (g.topCall && !g.pure)) {
			cands = append(cands, f)
		}
	}
	if g.cur != nil && g.cur.Rec && len(g.cur.Rets) == 1 && g.cur.Rets[0].K == t.K && g.loopNest == 0 && g.selfCalls < 2 && (g.pure || g.topCall) {
		cands = append(cands, g.cur)
	}
	if len(cands) == 0 {
		return E{}, false
	}
	f := cands[g.r.Intn(len(cands))]
	top := g.topCall
	g.topCall = false // the arguments are ordinary expressions
	e, ok := g.callOf(f, d)
	g.topCall = top
	if ok && !f.Pure {
		g.impure = true
	}
	return e, ok
}

// genTopCall: `f(args)` as the whole right-hand side of a statement; any function may be called there.
func (g *G) genTopCall(t Ty) (E, bool) {
	old := g.topCall
	g.topCall = true
	e, ok := g.genCall(t, 3)
	g.topCall = old
	return e, ok
}

func (g *G) callOf(f *Func, d int) (E, bool) {
	var ps, cs []string
	recv := ""
	if f.Recv != nil {
		vs := g.visible(func(v *Var) bool { return v.Ty.K == KPtr && v.Ty.S == f.Recv.Ty.S })
		if len(vs) == 0 {
			return E{}, false
		}
		recv = g.use(vs[g.r.Intn(len(vs))]).p + "."
		g.f("expr:method-call")
	}
	for _, p := range f.Params {
		if f.Rec && p.Name == "d" {
			if f == g.cur {
				g.selfCalls++
				ps, cs = append(ps, "d-1"), append(cs, "d-1")
				g.f("expr:recursive-call")
			} else {
				n := fmt.Sprintf("%d", g.r.Range(0, 4))
				ps, cs = append(ps, n), append(cs, n)
			}
			continue
		}
		var e E
		if p.Ty.K == KPtr {
			vs := g.visible(func(v *Var) bool { return v.Ty.K == KPtr && v.Ty.S == p.Ty.S })
			if len(vs) == 0 {
				e = g.genPtr(p.Ty, 1)
			} else {
				e = g.use(vs[g.r.Intn(len(vs))])
			}
		} else {
			e = g.genExpr(p.Ty, min(d-1, 2))
		}
		ps, cs = append(ps, e.p), append(cs, e.c)
	}
	g.f("expr:call")
	name := f.Name
	if f.Recv != nil {
		return atom2(recv+name+"("+strings.Join(ps, ", ")+")", recv+name+"("+strings.Join(cs, ", ")+")"), true
	}
	return atom2(name+"("+strings.Join(ps, ", ")+")", name+"("+strings.Join(cs, ", ")+")"), true
}

// ---------------------------------------------------------------- statements

type sb struct{ p, c strings.Builder }

func (s *sb) add(e E) { s.p.WriteString(e.p); s.c.WriteString(e.c) }
func (s *sb) both(f string, a ...any) {
	t := fmt.Sprintf(f, a...)
	s.p.WriteString(t)
	s.c.WriteString(t)
}
func (s *sb) pc(p, c string) { s.p.WriteString(p); s.c.WriteString(c) }
func (s *sb) E() E           { return E{s.p.String(), s.c.String(), 0, false} }

func topE(e E) E { // an expression in statement position does not need its outer parentheses
	return e
}

func (g *G) genBlock(n int) E {
	g.push()
	g.depth++
	var s sb
	for i := 0; i < n && g.budget > 0; i++ {
		before := g.nctx
		s.add(g.genStmt())
		// "enter an inner construct, leave it, then use the outer context": right behind a nested if / for / range /
		// switch / block / inlined call, a branch that refers to an ENCLOSING statement (the compiler saves and restores
		// currentFor / currentSwitch / labelList / scopes around the inner construct)
		if g.nctx > before && len(g.loops) > 0 && !g.inMapRange() && g.r.Chance(1, 2) {
			s.add(g.genAfterCtx())
		}
	}
	g.depth--
	s.add(g.pop())
	return s.E()
}

// genAfterCtx: break / continue / break L / continue L / return referring to an enclosing statement, a third of them
// unconditional (so that the branch is certainly executed when the place is reached).
func (g *G) genAfterCtx() E {
	var s sb
	inner := g.loops[len(g.loops)-1]
	uncond := g.r.Chance(1, 3)
	open, clos := "", ""
	if !uncond {
		c := g.genBool(1)
		s.pc("if "+c.p+" {\n", "if "+c.c+" {\n")
		clos = "}\n"
	}
	_ = open
	kind := ""
	switch g.r.Intn(6) {
	case 0, 1:
		kind = "break"
		if inner.isSwitch {
			kind = "break-switch"
		}
		s.both("break\n")
	case 2:
		if g.inLoop() {
			kind = "continue"
			if inner.isSwitch {
				kind = "continue-through-switch"
			}
			s.both("continue\n")
		} else {
			kind = "break-switch"
			s.both("break\n")
		}
	case 3:
		l := g.loops[g.r.Intn(len(g.loops))]
		*l.usedLbl = true
		kind = "break-label"
		s.both("break %s\n", l.label)
	case 4:
		var ls []loopCtx
		for _, l := range g.loops {
			if !l.isSwitch {
				ls = append(ls, l)
			}
		}
		if len(ls) == 0 {
			kind = "break-switch"
			s.both("break\n")
		} else {
			l := ls[g.r.Intn(len(ls))]
			*l.usedLbl = true
			kind = "continue-label"
			s.both("continue %s\n", l.label)
		}
	default:
		if g.cur == nil || g.inDefer {
			kind = "break"
			s.both("break\n")
		} else {
			kind = "return"
			s.add(g.genReturn())
		}
	}
	s.both(clos)
	g.f("stmt:after-ctx:" + kind)
	if uncond {
		g.f("stmt:after-ctx-unconditional")
	}
	return s.E()
}

func (g *G) inLoop() bool {
	for _, l := range g.loops {
		if !l.isSwitch {
			return true
		}
	}
	return false
}

// genLabelHeader: a labelled statement whose HEADER contains an inlined helper with a loop of its own
// (inline.VarSum / SumVar) and whose body executes a labelled break and a labelled continue: the compiler must bind
// the statement's label before it walks the header (generateLabel before ast.Walk in ForStmt / RangeStmt / SwitchStmt),
// or the helper's loop takes the label. One template per statement kind and header position, plus a nested one.
func (g *G) genLabelHeader() (E, bool) {
	v := g.pickVar(KInt, true)
	if v == nil {
		return E{}, false
	}
	v.Used = true
	g.nctx++
	g.nlbl++
	id := g.nlbl
	L := fmt.Sprintf("LH%d", id)
	i, j := fmt.Sprintf("lh%di", id), fmt.Sprintf("lh%dj", id)
	// at least three iterations, so that both the labelled continue (iterations with i%3 < 2) and the labelled break
	// (the iteration i == m, m%3 == 2) are executed
	a, b, c := 1+g.r.Intn(3), 1+g.r.Intn(3), 1+g.r.Intn(3)
	m := 2
	if a+b+c >= 6 && g.r.Bool() {
		m = 5
	}
	helper := func(x string, ys ...int) (string, string) { // plain, checked
		ps, cs := x, x
		if len(ys) == 1 && g.r.Bool() {
			return fmt.Sprintf("inline.SumVar(%s, %d)", x, ys[0]), fmt.Sprintf("ck_add(%s, %d)", x, ys[0])
		}
		ps = "inline.VarSum(" + x
		for _, y := range ys {
			ps += fmt.Sprintf(", %d", y)
			cs = fmt.Sprintf("ck_add(%s, %d)", cs, y)
		}
		return ps + ")", cs
	}
	acc := func(s *sb, n int) {
		s.pc(fmt.Sprintf("%s += %d\n", v.Name, n), fmt.Sprintf("%s = ck_add(%s, %d)\n", v.Name, v.Name, n))
	}
	// the body shared by the loop templates: continue L from a nested for, break L from a nested switch
	body := func(s *sb) {
		s.pc("", "ck_step()\n")
		s.both("for %s := 0; %s < 2; %s++ {\n", j, j, j)
		s.pc("", "ck_step()\n")
		s.both("if %s == %s%%3 {\ncontinue %s\n}\n", j, i, L)
		acc(s, 10)
		s.both("}\n")
		s.both("switch {\ncase %s == %d:\nbreak %s\ndefault:\n", i, m, L)
		acc(s, 1)
		s.both("}\n")
		acc(s, 1000)
		s.both("}\n")
	}
	var s sb
	kind := g.r.Intn(7)
	names := []string{"range", "for-init", "for-cond", "for-post", "switch-tag", "switch-init", "nested"}
	g.f("stmt:label-header-" + names[kind])
	hp, hc := helper(fmt.Sprint(a), b, c)
	switch kind {
	case 0:
		s.pc(fmt.Sprintf("%s:\nfor %s := range %s {\n", L, i, hp), fmt.Sprintf("%s:\nfor %s := range %s {\n", L, i, hc))
		body(&s)
	case 1:
		s.pc(fmt.Sprintf("%s:\nfor %s := %s; %s > 0; %s-- {\n", L, i, hp, i, i), fmt.Sprintf("%s:\nfor %s := %s; %s > 0; %s-- {\n", L, i, hc, i, i))
		body(&s)
	case 2:
		s.pc(fmt.Sprintf("%s:\nfor %s := 0; %s < %s; %s++ {\n", L, i, i, hp, i), fmt.Sprintf("%s:\nfor %s := 0; %s < %s; %s++ {\n", L, i, i, hc, i))
		body(&s)
	case 3:
		sp, sc := helper("1", 0, 1) // a step of 2: i = 0 (continue), 2 (break or not), 4, 6, 8 …
		m = 2 + 6*g.r.Intn(2)
		s.pc(fmt.Sprintf("%s:\nfor %s := 0; %s < 11; %s += %s {\n", L, i, i, i, sp), fmt.Sprintf("%s:\nfor %s := 0; %s < 11; %s = ck_add(%s, %s) {\n", L, i, i, i, i, sc))
		body(&s)
	case 4, 5:
		// a labelled switch inside a labelled loop: break L leaves the switch, continue LO the loop
		LO := L + "o"
		tp, tc := helper(i, b, c)
		s.both("%s:\nfor %s := 0; %s < 4; %s++ {\n", LO, i, i, i)
		s.pc("", "ck_step()\n")
		if kind == 4 {
			s.pc(fmt.Sprintf("%s:\nswitch %s {\n", L, tp), fmt.Sprintf("%s:\nswitch %s {\n", L, tc))
		} else {
			s.pc(fmt.Sprintf("%s:\nswitch %s := %s; %s {\n", L, j, tp, j), fmt.Sprintf("%s:\nswitch %s := %s; %s {\n", L, j, tc, j))
		}
		s.both("case %d:\nif %s == %d {\nbreak %s\n}\n", b+c+1, i, 1, L)
		acc(&s, 10)
		s.both("case %d:\n", b+c+2)
		acc(&s, 5)
		s.both("continue %s\ndefault:\nif %s == 3 {\nbreak %s\n}\n", LO, i, LO)
		acc(&s, 100)
		s.both("}\n")
		acc(&s, 1000)
		s.both("}\n")
	default:
		// a labelled range (helper in the range expression) inside a labelled for (helper in the condition)
		LO := L + "o"
		k := fmt.Sprintf("lh%dk", id)
		op, oc := helper(fmt.Sprint(a), 1, 1)
		ip, ic := helper(k, 0, 1)
		s.pc(fmt.Sprintf("%s:\nfor %s := 0; %s < %s; %s++ {\n", LO, k, k, op, k), fmt.Sprintf("%s:\nfor %s := 0; %s < %s; %s++ {\n", LO, k, k, oc, k))
		s.pc("", "ck_step()\n")
		s.pc(fmt.Sprintf("%s:\nfor %s := range %s {\n", L, i, ip), fmt.Sprintf("%s:\nfor %s := range %s {\n", L, i, ic))
		s.pc("", "ck_step()\n")
		s.both("if %s == 1 && %s%%2 == 1 {\ncontinue %s\n}\nif %s == 2 {\nbreak %s\n}\n", i, k, LO, i, L)
		s.both("for %s := 0; %s < 2; %s++ {\n", j, j, j)
		s.pc("", "ck_step()\n")
		s.both("if %s == 1 {\ncontinue %s\n}\n", j, L)
		acc(&s, 1)
		s.both("}\n}\n")
		s.both("if %s == %d {\nbreak %s\n}\n", k, 3+g.r.Intn(2), LO)
		acc(&s, 1000)
		s.both("}\n")
	}
	return s.E(), true
}

func (g *G) genStmt() E {
	g.budget--
	if g.useInline && !g.safe && !g.noCalls && !g.inMapRange() && g.depth < 4 && g.r.Chance(1, 10) {
		if e, ok := g.genLabelHeader(); ok {
			return e
		}
	}
	var s sb
	w := []int{14, 9, 7, 9, 8, 5, 4, 5, 9, 3, 3, 3, 4, 3, 3, 3, 3}
	if g.depth >= 3 {
		w[3], w[4], w[5], w[6], w[9] = 2, 1, 1, 1, 0
	}
	if g.inMapRange() {
		// the body of a range over a map must not depend on the iteration order: accumulate only
		v := g.pickVar(KInt, true)
		if v == nil {
			return E{}
		}
		e := g.genMapAcc()
		g.f("stmt:map-range-acc")
		s.pc(fmt.Sprintf("%s += %s\n", v.Name, e.p), fmt.Sprintf("%s = ck_add(%s, %s)\n", v.Name, v.Name, e.c))
		v.Used = true
		return s.E()
	}
	switch g.r.Weighted(w) {
	case 0: // define
		ks := []Ty{tInt, tInt, tInt, tBool, tStr, tInts, tBytes, tMapII, tMapSI}
		t := ks[g.r.Intn(len(ks))]
		if len(g.structs) > 0 && g.r.Chance(1, 5) {
			t = Ty{K: KPtr, S: g.structs[g.r.Intn(len(g.structs))]}
		}
		return g.genDefine(t)
	case 1: // assign int
		v := g.pickVar(KInt, true)
		if v == nil {
			return g.genDefine(tInt)
		}
		var e E
		called := false
		if g.r.Chance(1, 4) {
			if ce, ok := g.genTopCall(tInt); ok {
				e, called = ce, true
				g.f("stmt:assign-call")
			}
		}
		if !called {
			e = g.genInt(3)
		}
		g.f("stmt:assign")
		s.pc(fmt.Sprintf("%s = %s\n", v.Name, e.p), fmt.Sprintf("%s = %s\n", v.Name, e.c))
	case 2: // op-assign / incdec
		v := g.pickVar(KInt, true)
		if v == nil {
			return g.genDefine(tInt)
		}
		v.Used = true
		switch g.r.Intn(8) {
		case 0:
			g.f("stmt:inc")
			s.pc(v.Name+"++\n", fmt.Sprintf("%s = ck_add(%s, 1)\n", v.Name, v.Name))
		case 1:
			g.f("stmt:dec")
			s.pc(v.Name+"--\n", fmt.Sprintf("%s = ck_sub(%s, 1)\n", v.Name, v.Name))
		default:
			ops := []struct{ op, ck string }{{"+=", "ck_add"}, {"-=", "ck_sub"}, {"*=", "ck_mul"}, {"+=", "ck_add"}, {"/=", "ck_div"}, {"%=", "ck_mod"}, {"|=", ""}, {"&=", ""}}
			o := ops[g.r.Intn(len(ops))]
			e := g.genInt(2)
			if (o.op == "/=" || o.op == "%=") && e.cst {
				e = g.smallLit(1, 5)
			}
			g.f("stmt:opassign" + o.op)
			if o.ck != "" {
				s.pc(fmt.Sprintf("%s %s %s\n", v.Name, o.op, e.p), fmt.Sprintf("%s = %s(%s, %s)\n", v.Name, o.ck, v.Name, e.c))
			} else {
				s.pc(fmt.Sprintf("%s %s %s\n", v.Name, o.op, e.p), fmt.Sprintf("%s %s %s\n", v.Name, o.op, e.c))
			}
		}
	case 3:
		return g.genIf()
	case 4:
		return g.genFor()
	case 5:
		return g.genRange()
	case 6:
		return g.genSwitch()
	case 7: // break / continue
		if len(g.loops) == 0 {
			return g.genStmtSimple()
		}
		return g.genBranch()
	case 8: // container updates
		return g.genContainerStmt()
	case 9: // nested block with shadowing
		g.nctx++
		g.f("stmt:block")
		s.both("{\n")
		s.add(g.genBlock(g.r.Range(1, 3)))
		s.both("}\n")
	case 10: // conditional return
		if g.cur == nil || g.inDefer {
			return g.genStmtSimple()
		}
		c := g.genBool(2)
		g.f("stmt:cond-return")
		s.pc("if "+c.p+" {\n", "if "+c.c+" {\n")
		s.add(g.genReturn())
		s.both("}\n")
	case 11: // call statement
		return g.genCallStmt()
	case 12: // assignment to bool/string
		if g.r.Bool() {
			if v := g.pickVar(KBool, true); v != nil {
				e := g.genBool(2)
				g.f("stmt:assign-bool")
				s.pc(fmt.Sprintf("%s = %s\n", v.Name, e.p), fmt.Sprintf("%s = %s\n", v.Name, e.c))
				return s.E()
			}
		}
		if v := g.pickVar(KStr, true); v != nil {
			var e E
			if v.Clean {
				e = g.genStrClean(2)
			} else {
				e = g.genStr(2)
			}
			g.f("stmt:assign-str")
			if g.r.Bool() && !v.Clean {
				v.Used = true
				// (ck_str bounds the length: a string doubled in a loop exhausts memory on one side and the VM's item size on the other)
				s.pc(fmt.Sprintf("%s += %s\n", v.Name, e.p), fmt.Sprintf("%s += %s\nck_str(len(%s))\n", v.Name, e.c, v.Name))
			} else {
				v.MinLen = 0
				s.pc(fmt.Sprintf("%s = %s\n", v.Name, e.p), fmt.Sprintf("%s = %s\nck_str(len(%s))\n", v.Name, e.c, v.Name))
			}
			return s.E()
		}
		return g.genStmtSimple()
	case 13: // multi-value call
		return g.genMultiAssign()
	case 14: // conditional panic
		if g.inDefer {
			return g.genStmtSimple()
		}
		c := g.genBool(2)
		g.f("stmt:cond-panic")
		s.pc("if "+c.p+" {\npanic(\"boom\")\n}\n", "if "+c.c+" {\npanic(\"boom\")\n}\n")
	case 15: // struct field update
		if v := g.pickMut(KPtr, false); v != nil {
			f := v.Ty.S.Fields[g.r.Intn(len(v.Ty.S.Fields))]
			if f.Ty.K == KInt || f.Ty.K == KBool {
				v.Used = true
			}
			switch f.Ty.K {
			case KInt:
				e := g.genInt(2)
				g.f("stmt:field-set")
				if g.r.Bool() {
					s.pc(fmt.Sprintf("%s.%s = %s\n", v.Name, f.Name, e.p), fmt.Sprintf("%s.%s = %s\n", v.Name, f.Name, e.c))
				} else {
					g.f("stmt:field-opassign")
					s.pc(fmt.Sprintf("%s.%s += %s\n", v.Name, f.Name, e.p), fmt.Sprintf("%s.%s = ck_add(%s.%s, %s)\n", v.Name, f.Name, v.Name, f.Name, e.c))
				}
			case KBool:
				e := g.genBool(2)
				g.f("stmt:field-set")
				s.pc(fmt.Sprintf("%s.%s = %s\n", v.Name, f.Name, e.p), fmt.Sprintf("%s.%s = %s\n", v.Name, f.Name, e.c))
			default:
				return g.genStmtSimple()
			}
			return s.E()
		}
		return g.genStmtSimple()
	default: // var declaration with zero value
		ks := []Ty{tInt, tBool, tStr, tInts}
		t := ks[g.r.Intn(len(ks))]
		n := g.fresh("z")
		g.f("stmt:var-zero")
		s.both("var %s %s\n", n, t.src())
		g.declare(&Var{Name: n, Ty: t, Fresh: true, Clean: t.K == KStr && g.r.Bool()})
	}
	return s.E()
}

func (g *G) inMapRange() bool {
	for _, l := range g.loops {
		if l.mapRange {
			return true
		}
	}
	return false
}

// genMapAcc: a panic-free, call-free summand built from the range variables and literals.
func (g *G) genMapAcc() E {
	vs := g.visible(func(v *Var) bool { return v.Ty.K == KInt && v.ReadOnly && !v.Global })
	term := func() E {
		if len(vs) > 0 && g.r.Chance(3, 4) {
			return g.use(vs[g.r.Intn(len(vs))])
		}
		return g.smallLit(0, 9)
	}
	a := term()
	switch g.r.Intn(3) {
	case 0:
		return a
	case 1:
		return bin("+", 4, a, term(), "ck_add")
	default:
		return bin("*", 5, a, term(), "ck_mul")
	}
}

func (g *G) genStmtSimple() E {
	v := g.pickVar(KInt, true)
	if v == nil {
		return g.genDefine(tInt)
	}
	e := g.genInt(2)
	var s sb
	g.f("stmt:assign")
	s.pc(fmt.Sprintf("%s = %s\n", v.Name, e.p), fmt.Sprintf("%s = %s\n", v.Name, e.c))
	return s.E()
}

func (g *G) genDefine(t Ty) E {
	var s sb
	minLen := 0
	clean := false
	shadow := false
	var e E
	switch t.K {
	case KInts:
		if g.r.Chance(1, 6) {
			g.f("stmt:make-ints")
			n := g.r.Intn(4)
			e = atom(fmt.Sprintf("make([]int, %d)", n))
			minLen = n
		} else {
			e, minLen = g.intsLit(2)
		}
	case KBytes:
		if g.r.Chance(1, 6) {
			g.f("stmt:make-bytes")
			n := g.r.Intn(4)
			e = atom(fmt.Sprintf("make([]byte, %d)", n))
			minLen = n
		} else {
			e = g.bytesLit(2)
			minLen = strings.Count(e.p, ",")
			if e.p != "[]byte{}" {
				minLen++
			}
		}
	case KStr:
		switch g.r.Intn(3) {
		case 0:
			e, minLen = g.strLit()
			clean = true
		case 1:
			e = g.genStrClean(2)
			clean = true
		default:
			e = g.genStr(2)
		}
	case KMapII, KMapSI:
		if g.r.Chance(1, 4) {
			g.f("stmt:make-map")
			e = atom("make(" + t.src() + ")")
		} else {
			e = g.genMap(t)
		}
	default:
		called := false
		if (t.K == KInt || t.K == KBool) && g.r.Chance(1, 5) {
			if ce, ok := g.genTopCall(t); ok {
				e, called = ce, true
				g.f("stmt:define-call")
			}
		}
		if !called {
			e = g.genExpr(t, 3)
		}
	}
	fresh := t.K == KInts || t.K == KBytes || t.K == KMapII || t.K == KMapSI || (t.K == KPtr && strings.HasPrefix(e.p, "&"))
	// shadow an existing name sometimes (exercises the scope handling of the compiler)
	name := g.fresh("v")
	if g.r.Chance(1, 3) {
		if old := g.pickVar(t.K, false); old != nil && (old.Global || g.depth > 1) && old.Name != "d" && old.Name != "s" && (t.K != KPtr || old.Ty.S == t.S) {
			inCur := false
			for _, v := range g.scopes[len(g.scopes)-1].vars {
				if v.Name == old.Name {
					inCur = true
				}
			}
			if !inCur {
				name = old.Name
				shadow = true
				g.f("stmt:shadow")
			}
		}
	}
	g.f("stmt:define")
	// `var x T = … x …` that shadows an outer x is the known finding var-decl-shadow-self: shadows use `:=`
	if g.r.Chance(1, 8) && t.K != KPtr && !shadow {
		s.pc(fmt.Sprintf("var %s %s = %s\n", name, t.src(), e.p), fmt.Sprintf("var %s %s = %s\n", name, t.src(), e.c))
	} else {
		s.pc(fmt.Sprintf("%s := %s\n", name, e.p), fmt.Sprintf("%s := %s\n", name, e.c))
	}
	if t.K == KStr {
		s.pc("", fmt.Sprintf("ck_str(len(%s))\n", name))
	}
	g.declare(&Var{Name: name, Ty: t, MinLen: minLen, Fresh: fresh, Clean: clean})
	return s.E()
}

func (g *G) genIf() E {
	g.nctx++
	var s sb
	g.f("stmt:if")
	g.push() // scope of the init statement
	if g.r.Chance(1, 6) {
		n := g.scopedName("t")
		e := g.genInt(2)
		g.f("stmt:if-init")
		s.pc(fmt.Sprintf("if %s := %s; ", n, e.p), fmt.Sprintf("if %s := %s; ", n, e.c))
		g.declare(&Var{Name: n, Ty: tInt, Used: true})
		c := bin([]string{"<", ">", "==", "!="}[g.r.Intn(4)], 3, atom(n), g.genInt(1), "")
		s.pc(c.p+" {\n", c.c+" {\n")
	} else {
		c := g.genBool(3)
		s.pc("if "+c.p+" {\n", "if "+c.c+" {\n")
	}
	s.add(g.genBlock(g.r.Range(1, 3)))
	for g.r.Chance(1, 4) {
		c := g.genBool(2)
		g.f("stmt:else-if")
		s.pc("} else if "+c.p+" {\n", "} else if "+c.c+" {\n")
		s.add(g.genBlock(g.r.Range(1, 2)))
	}
	if g.r.Chance(1, 2) {
		g.f("stmt:else")
		s.both("} else {\n")
		s.add(g.genBlock(g.r.Range(1, 3)))
	}
	s.both("}\n")
	s.add(g.pop())
	return s.E()
}

func (g *G) label() (string, *bool) {
	g.nlbl++
	u := false
	return fmt.Sprintf("L%d", g.nlbl), &u
}

func (g *G) genFor() E {
	g.nctx++
	var head, body sb
	lbl, used := g.label()
	g.push()
	n := g.r.Range(0, 4)
	switch g.r.Intn(4) {
	case 0: // cond-only loop with a fuel counter
		k := g.scopedName("k")
		g.f("stmt:for-cond")
		head.both("%s := 0\n", k)
		g.declare(&Var{Name: k, Ty: tInt, ReadOnly: true, Used: true})
		c := g.genBool(1)
		head.pc(fmt.Sprintf("§L§for %s < %d && %s {\n%s++\n", k, n, c.p, k), fmt.Sprintf("§L§for %s < %d && %s {\n%s++\n", k, n, c.c, k))
	case 1: // counting down
		i := g.scopedName("i")
		g.f("stmt:for-down")
		head.both("§L§for %s := %d; %s > 0; %s-- {\n", i, n, i, i)
		g.declare(&Var{Name: i, Ty: tInt, ReadOnly: true, Used: true})
	case 2: // infinite loop with a break guarded by a counter
		k := g.scopedName("k")
		g.f("stmt:for-ever")
		head.both("%s := 0\n", k)
		g.declare(&Var{Name: k, Ty: tInt, ReadOnly: true, Used: true})
		head.both("§L§for {\n%s++\nif %s > %d {\nbreak\n}\n", k, k, n)
	default:
		i := g.scopedName("i")
		g.f("stmt:for-3")
		step := 1
		if g.r.Chance(1, 4) {
			step = 2
		}
		if step == 1 {
			head.both("§L§for %s := 0; %s < %d; %s++ {\n", i, i, n, i)
		} else {
			head.both("§L§for %s := 0; %s < %d; %s += %d {\n", i, i, n*2, i, step)
		}
		g.declare(&Var{Name: i, Ty: tInt, ReadOnly: true, Used: true})
	}
	g.loops = append(g.loops, loopCtx{label: lbl, usedLbl: used})
	g.loopNest++
	body.pc("", "ck_step()\n")
	body.add(g.genBlock(g.r.Range(1, 4)))
	g.loopNest--
	g.loops = g.loops[:len(g.loops)-1]
	body.both("}\n")
	tail := g.pop()
	l := ""
	if *used {
		l = lbl + ":\n"
		g.f("stmt:labeled-loop")
	}
	h := head.E()
	var s sb
	// a wrapper block only where a counter is declared in front of the loop: otherwise the loop's own scope is
	// directly inside the enclosing block (a variable leaking out of it would be visible there)
	wrap := !strings.HasPrefix(h.p, "§L§") || tail.p != ""
	if wrap {
		s.both("{\n")
	}
	s.pc(strings.Replace(h.p, "§L§", l, 1), strings.Replace(h.c, "§L§", l, 1))
	s.add(body.E())
	s.add(tail)
	if wrap {
		s.both("}\n")
	}
	return s.E()
}

func (g *G) genRange() E {
	g.nctx++
	var s sb
	lbl, used := g.label()
	g.push()
	mapRange := false
	var head string
	switch g.r.Intn(6) {
	case 0: // range over an int constant
		i := g.scopedName("i")
		g.f("stmt:range-int")
		head = fmt.Sprintf("for %s := range %d {\n", i, g.r.Intn(5))
		g.declare(&Var{Name: i, Ty: tInt, ReadOnly: true, Used: true})
	case 1: // range over a map: commutative accumulation only
		var v *Var
		if v = g.pickVar(KMapII, false); v == nil {
			v = g.pickVar(KMapSI, false)
		}
		if v == nil || g.pickVar(KInt, true) == nil {
			g.pop()
			return g.genStmtSimple()
		}
		mapRange = true
		v.Used = true
		if v.Ty.K == KMapII && g.r.Bool() {
			k := g.scopedName("k")
			x := g.scopedName("x", k)
			g.f("stmt:range-map-kv")
			head = fmt.Sprintf("for %s, %s := range %s {\n", k, x, v.Name)
			g.declare(&Var{Name: k, Ty: tInt, ReadOnly: true, Used: true})
			g.declare(&Var{Name: x, Ty: tInt, ReadOnly: true, Used: true})
		} else {
			x := g.scopedName("x")
			g.f("stmt:range-map-v")
			head = fmt.Sprintf("for _, %s := range %s {\n", x, v.Name)
			g.declare(&Var{Name: x, Ty: tInt, ReadOnly: true, Used: true})
		}
	case 2: // range over a string: bytes of an ASCII string
		v := g.pickVar(KStr, false)
		if v == nil {
			g.pop()
			return g.genStmtSimple()
		}
		v.Used = true
		i := g.scopedName("i")
		g.f("stmt:range-str")
		head = fmt.Sprintf("for %s := range %s {\n", i, v.Name)
		g.declare(&Var{Name: i, Ty: tInt, ReadOnly: true, Used: true})
	default:
		v := g.pickVar(KInts, false)
		if v == nil {
			g.pop()
			return g.genStmtSimple()
		}
		v.Used = true
		switch g.r.Intn(3) {
		case 0:
			i := g.scopedName("i")
			x := g.scopedName("x", i)
			g.f("stmt:range-slice-kv")
			head = fmt.Sprintf("for %s, %s := range %s {\n", i, x, v.Name)
			g.declare(&Var{Name: i, Ty: tInt, ReadOnly: true, Used: true})
			g.declare(&Var{Name: x, Ty: tInt, ReadOnly: true, Used: true})
		case 1:
			x := g.scopedName("x")
			g.f("stmt:range-slice-v")
			head = fmt.Sprintf("for _, %s := range %s {\n", x, v.Name)
			g.declare(&Var{Name: x, Ty: tInt, ReadOnly: true, Used: true})
		default:
			i := g.scopedName("i")
			g.f("stmt:range-slice-k")
			head = fmt.Sprintf("for %s := range %s {\n", i, v.Name)
			g.declare(&Var{Name: i, Ty: tInt, ReadOnly: true, Used: true})
		}
	}
	var rangeVars []string
	for _, rv := range g.scopes[len(g.scopes)-1].vars {
		rangeVars = append(rangeVars, rv.Name)
	}
	g.loops = append(g.loops, loopCtx{label: lbl, usedLbl: used, mapRange: mapRange})
	g.loopNest++
	body := g.genBlock(g.r.Range(1, 3))
	body.c = "ck_step()\n" + body.c
	g.loopNest--
	g.loops = g.loops[:len(g.loops)-1]
	tail := g.pop()
	if *used {
		s.both("%s:\n", lbl)
		g.f("stmt:labeled-loop")
	}
	s.both("%s", head)
	for _, rv := range rangeVars {
		s.both("_ = %s\n", rv)
	}
	s.add(body)
	s.both("}\n")
	s.add(tail)
	return s.E()
}

func (g *G) genSwitch() E {
	g.nctx++
	var s sb
	lbl, used := g.label()
	g.push()
	tagless := g.r.Chance(1, 3)
	var head E
	if tagless {
		g.f("stmt:switch-tagless")
		head = E{"switch {\n", "switch {\n", 0, false}
	} else {
		// an inlined helper with a loop (VarSum, SumVar) in the tag / init of a labeled switch: the switch keeps its
		// label (formerly the known finding inline-steals-label)
		t := g.genInt(2)
		if strings.Contains(t.p, "inline.VarSum") || strings.Contains(t.p, "inline.SumVar") {
			g.f("stmt:switch-tag-loop-inline")
		}
		if isLit(t) {
			if v := g.pickVar(KInt, false); v != nil {
				t = g.use(v)
			}
		}
		if g.r.Chance(1, 3) {
			n := g.scopedName("t")
			g.f("stmt:switch-init")
			head = E{fmt.Sprintf("switch %s := %s; %s {\n", n, t.p, n), fmt.Sprintf("switch %s := %s; %s {\n", n, t.c, n), 0, false}
			g.declare(&Var{Name: n, Ty: tInt, ReadOnly: true, Used: true})
		} else {
			g.f("stmt:switch-tag")
			head = E{"switch " + t.p + " {\n", "switch " + t.c + " {\n", 0, false}
		}
	}
	g.loops = append(g.loops, loopCtx{label: lbl, usedLbl: used, isSwitch: true})
	n := g.r.Range(1, 4)
	defPos := -1
	earlyDef := false
	if g.r.Chance(2, 3) {
		defPos = n
		// an early default is reordered by the compiler (codegen.go:980-986): the known finding
		// `switch-early-default` covers fallthrough and overlapping cases; the generator keeps to
		// distinct constant cases without fallthrough there.
		if !tagless && g.r.Chance(1, 3) {
			defPos = g.r.Intn(n + 1)
			if defPos != n {
				earlyDef = true
				g.f("stmt:switch-early-default")
			}
		}
	}
	usedConst := map[string]bool{}
	var body sb
	clauses := n
	if defPos >= 0 {
		clauses = n + 1
	}
	ci := 0
	for i := 0; i < clauses; i++ {
		if i == defPos {
			body.both("default:\n")
		} else {
			ci++
			if tagless {
				c := g.genBool(2)
				body.pc("case "+c.p+":\n", "case "+c.c+":\n")
			} else {
				m := 1
				if g.r.Chance(1, 4) {
					m = 2
					g.f("stmt:switch-multi-case")
				}
				var ps, cs []string
				for j := 0; j < m; j++ {
					if !earlyDef && g.r.Chance(1, 5) {
						if v := g.pickVar(KInt, false); v != nil {
							g.f("stmt:switch-nonconst-case")
							ps, cs = append(ps, g.use(v).p), append(cs, v.Name)
							continue
						}
					}
					var k string
					for {
						k = fmt.Sprintf("%d", g.r.Intn(12))
						if !usedConst[k] {
							break
						}
					}
					usedConst[k] = true
					ps, cs = append(ps, k), append(cs, k)
				}
				body.pc("case "+strings.Join(ps, ", ")+":\n", "case "+strings.Join(cs, ", ")+":\n")
			}
		}
		body.add(g.genBlock(g.r.Range(0, 2)))
		if i != clauses-1 && !earlyDef && g.r.Chance(1, 6) {
			g.f("stmt:fallthrough")
			body.both("fallthrough\n")
		}
	}
	g.loops = g.loops[:len(g.loops)-1]
	tail := g.pop()
	wrap := tail.p != ""
	if wrap {
		s.both("{\n")
	}
	if *used {
		s.both("%s:\n", lbl)
		g.f("stmt:labeled-switch")
	}
	s.add(head)
	s.add(body.E())
	s.both("}\n")
	s.add(tail)
	if wrap {
		s.both("}\n")
	}
	return s.E()
}

func (g *G) genBranch() E {
	var s sb
	// candidates: innermost switch/loop for break, innermost loop for continue, outer ones by label
	inner := g.loops[len(g.loops)-1]
	cond := g.genBool(2)
	s.pc("if "+cond.p+" {\n", "if "+cond.c+" {\n")
	switch g.r.Intn(5) {
	case 0:
		g.f("stmt:break")
		if inner.isSwitch {
			g.f("stmt:break-in-switch")
		}
		s.both("break\n")
	case 1:
		if g.inLoop() {
			g.f("stmt:continue")
			if inner.isSwitch {
				g.f("stmt:continue-in-switch")
			}
			s.both("continue\n")
		} else {
			s.both("break\n")
		}
	case 2, 3:
		l := g.loops[g.r.Intn(len(g.loops))]
		*l.usedLbl = true
		g.f("stmt:break-label")
		s.both("break %s\n", l.label)
	default:
		var ls []loopCtx
		for _, l := range g.loops {
			if !l.isSwitch {
				ls = append(ls, l)
			}
		}
		if len(ls) == 0 {
			s.both("break\n")
		} else {
			l := ls[g.r.Intn(len(ls))]
			*l.usedLbl = true
			g.f("stmt:continue-label")
			s.both("continue %s\n", l.label)
		}
	}
	s.both("}\n")
	return s.E()
}

func (g *G) genContainerStmt() E {
	var s sb
	which := g.r.Weighted([]int{4, 2, 2, 1, 1, 2})
	// make sure there is something to work on
	need := map[int]Ty{0: tInts, 1: tInts, 2: tMapII, 3: tMapII, 4: tMapII, 5: tBytes}[which]
	if g.pickMut(need.K, which == 0 || which == 5) == nil && g.r.Chance(2, 3) {
		return g.genDefine(need)
	}
	switch which {
	case 0: // append to []int (only to a slice nothing else refers to: APPEND grows the shared array in the VM)
		if v := g.pickMut(KInts, true); v != nil {
			// the arguments of append(v, a, b) must not read v: the VM appends a before it evaluates b
			// (known finding append-multi-arg-eval)
			g.hidden = v
			defer func() { g.hidden = nil }()
			e := g.genInt(2)
			g.f("stmt:append-ints")
			v.Used = true
			if g.r.Chance(1, 3) {
				g.f("stmt:append-multi")
				e2 := g.genInt(1)
				s.pc(fmt.Sprintf("%s = append(%s, %s, %s)\n", v.Name, v.Name, e.p, e2.p), fmt.Sprintf("%s = append(%s, %s, %s)\n", v.Name, v.Name, e.c, e2.c))
			} else {
				s.pc(fmt.Sprintf("%s = append(%s, %s)\n", v.Name, v.Name, e.p), fmt.Sprintf("%s = append(%s, %s)\n", v.Name, v.Name, e.c))
			}
			return s.E()
		}
	case 1: // slice element update
		if v := g.pickMut(KInts, false); v != nil && v.MinLen > 0 {
			e := g.genInt(2)
			i := g.r.Intn(v.MinLen)
			v.Used = true
			g.f("stmt:index-set")
			if g.r.Chance(1, 3) {
				g.f("stmt:index-opassign")
				s.pc(fmt.Sprintf("%s[%d] += %s\n", v.Name, i, e.p), fmt.Sprintf("%s[%d] = ck_add(%s[%d], %s)\n", v.Name, i, v.Name, i, e.c))
			} else {
				s.pc(fmt.Sprintf("%s[%d] = %s\n", v.Name, i, e.p), fmt.Sprintf("%s[%d] = %s\n", v.Name, i, e.c))
			}
			return s.E()
		}
	case 2: // map update
		if v := g.pickMut(KMapII, false); v != nil {
			v.Used = true
			k, e := g.genInt(1), g.genInt(2)
			g.f("stmt:map-set")
			s.pc(fmt.Sprintf("%s[%s] = %s\n", v.Name, k.p, e.p), fmt.Sprintf("%s[%s] = %s\n", v.Name, k.c, e.c))
			return s.E()
		}
		if v := g.pickMut(KMapSI, false); v != nil {
			v.Used = true
			k, e := g.genStrClean(1), g.genInt(2)
			g.f("stmt:map-set")
			s.pc(fmt.Sprintf("%s[%s] = %s\n", v.Name, k.p, e.p), fmt.Sprintf("%s[%s] = %s\n", v.Name, k.c, e.c))
			return s.E()
		}
	case 3: // comma-ok lookup
		if v := g.pickVar(KMapII, false); v != nil {
			v.Used = true
			k := g.genInt(1)
			x, ok := g.fresh("x"), g.fresh("ok")
			g.f("stmt:map-comma-ok")
			s.pc(fmt.Sprintf("%s, %s := %s[%s]\n", x, ok, v.Name, k.p), fmt.Sprintf("%s, %s := %s[%s]\n", x, ok, v.Name, k.c))
			g.declare(&Var{Name: x, Ty: tInt})
			g.declare(&Var{Name: ok, Ty: tBool})
			return s.E()
		}
	case 4: // delete
		if v := g.pickMut(KMapII, false); v != nil {
			v.Used = true
			k := g.genInt(1)
			g.f("stmt:map-delete")
			s.pc(fmt.Sprintf("delete(%s, %s)\n", v.Name, k.p), fmt.Sprintf("delete(%s, %s)\n", v.Name, k.c))
			return s.E()
		}
	default: // byte slice update / append
		if v := g.pickMut(KBytes, true); v != nil {
			v.Used = true
			if v.MinLen > 0 && g.r.Bool() {
				g.f("stmt:bytes-index-set")
				s.both("%s[%d] = %d\n", v.Name, g.r.Intn(v.MinLen), g.r.Intn(256))
			} else {
				g.f("stmt:append-bytes")
				s.both("%s = append(%s, %d)\n", v.Name, v.Name, g.r.Intn(256))
			}
			return s.E()
		}
	}
	return g.genStmtSimple()
}

func (g *G) genCallStmt() E {
	var s sb
	if g.noCalls {
		return g.genStmtSimple()
	}
	var cands []*Func
	for _, f := range g.funcs {
		cands = append(cands, f)
	}
	if len(cands) == 0 || (g.loopNest > 0 && !g.r.Chance(1, 4)) {
		return g.genStmtSimple()
	}
	f := cands[g.r.Intn(len(cands))]
	if g.pure && !f.Pure {
		return g.genStmtSimple()
	}
	e, ok := g.callOf(f, 2)
	if !ok {
		return g.genStmtSimple()
	}
	if !f.Pure {
		g.impure = true
	}
	g.f("stmt:call")
	if len(f.Rets) > 0 {
		g.f("stmt:call-drop-result")
	}
	s.pc(e.p+"\n", e.c+"\n")
	return s.E()
}

func (g *G) genMultiAssign() E {
	var s sb
	if g.noCalls {
		return g.genStmtSimple()
	}
	var cands []*Func
	for _, f := range g.funcs {
		if len(f.Rets) == 2 && f.Recv == nil && (f.Pure || !g.pure) {
			cands = append(cands, f)
		}
	}
	if len(cands) == 0 {
		// parallel assignment / swap
		a, b := g.pickVar(KInt, true), g.pickVar(KInt, true)
		if a == nil || b == nil || a == b || a.Name == b.Name {
			return g.genStmtSimple()
		}
		g.f("stmt:swap")
		a.Used, b.Used = true, true
		s.both("%s, %s = %s, %s\n", a.Name, b.Name, b.Name, a.Name)
		return s.E()
	}
	f := cands[g.r.Intn(len(cands))]
	e, ok := g.callOf(f, 2)
	if !ok {
		return g.genStmtSimple()
	}
	if !f.Pure {
		g.impure = true
	}
	x, y := g.fresh("m"), g.fresh("m")
	g.f("stmt:multi-return-define")
	if g.r.Chance(1, 4) {
		g.f("stmt:multi-return-blank")
		s.pc(fmt.Sprintf("%s, _ := %s\n", x, e.p), fmt.Sprintf("%s, _ := %s\n", x, e.c))
		g.declare(&Var{Name: x, Ty: f.Rets[0]})
		return s.E()
	}
	s.pc(fmt.Sprintf("%s, %s := %s\n", x, y, e.p), fmt.Sprintf("%s, %s := %s\n", x, y, e.c))
	g.declare(&Var{Name: x, Ty: f.Rets[0]})
	g.declare(&Var{Name: y, Ty: f.Rets[1]})
	return s.E()
}

func (g *G) genReturn() E {
	var s sb
	if g.cur == nil || len(g.cur.Rets) == 0 {
		s.both("return\n")
		return s.E()
	}
	var ps, cs []string
	old, oldSafe := g.noCalls, g.safe
	if g.hasDefer {
		// docs/compiler.md: "defer and recover are supported except for the cases where panic occurs in return
		// statement": the return statements of a function with defer contain nothing that can panic
		g.noCalls = true
		g.safe = true
	}
	for _, t := range g.cur.Rets {
		var e E
		called := false
		if len(g.cur.Rets) == 1 && !g.noCalls && t.K != KPtr && g.r.Chance(1, 6) {
			if ce, ok := g.genTopCall(t); ok {
				e, called = ce, true
				g.f("stmt:return-call")
			}
		}
		if !called {
			e = g.genExpr(t, 3)
		}
		ps, cs = append(ps, e.p), append(cs, e.c)
	}
	g.noCalls, g.safe = old, oldSafe
	s.pc("return "+strings.Join(ps, ", ")+"\n", "return "+strings.Join(cs, ", ")+"\n")
	return s.E()
}
