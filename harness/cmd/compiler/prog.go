package main

import (
	"fmt"
	"strings"

	"verif/harness/internal/prng"
)

// Prog is one generated (or hand-written) program together with the calls to make.
type Prog struct {
	K          int
	Kind       string // "dialect", "core", "corpus"
	Plain      string // top-level declarations, plain names (P<k>_…)
	Checked    string // same derivation with overflow-detecting arithmetic (C<k>_…); "" = none
	ResetP     string // body of the go-run reset function: re-assigns the globals' initial values in source order
	ResetC     string
	Init       string // body of the init() function ("" = none), plain names
	InitC      string
	Entries    []*Entry
	Key        string // corpus: stable key used when this program's oracle fails
	Feat       map[string]int
	Core       *CoreProg
	CoreTokens string   // prefix-coded program for the Lean driver
	CoreFuncs  []string // all functions of a core program, source order
	Note       string
	Imports    string         // import block of the neo source ("" = none)
	Files      []string       // multi-file package: the declarations of each file (a.go, b.go, …); Plain is their concatenation
	HasDeploy  bool           // the source declares _deploy(data any, isUpdate bool)
	NParams    map[string]int // debug-info method id -> number of INITSLOT arguments the source implies
}

type Entry struct {
	Name   string // exported name in the plain text
	Params []Kind
	Ret    Kind
	Tuples [][]int64 // bools as 0/1
}

func upfx(k int, checked bool) (string, string) {
	if checked {
		return fmt.Sprintf("C%d", k), fmt.Sprintf("c%d", k)
	}
	return fmt.Sprintf("P%d", k), fmt.Sprintf("p%d", k)
}

func rename(s string, k int, checked bool) string {
	u, l := upfx(k, checked)
	s = strings.ReplaceAll(s, "§", u)
	return strings.ReplaceAll(s, "¶", l)
}

var argInts = []int64{0, 1, -1, 2, 3, 4, 5, 7, 8, 9, 10, 11, 12, 16, 17, 31, 32, 64, 100, 127, 128, 255, 256, -2, -3, -5, -7, -128, -129}
var argBig = []int64{1 << 31, -(1 << 31), 1<<32 + 1, 1 << 53, 1<<62 + 1, 1<<63 - 1, -1 << 63, 1<<63 - 2, -1<<63 + 1, 65535, 65536, -65537}

func genArg(r *prng.R, k Kind) int64 {
	if k == KBool {
		return int64(r.Intn(2))
	}
	switch r.Intn(10) {
	case 0:
		return argBig[r.Intn(len(argBig))]
	case 1, 2:
		return int64(r.Intn(41)) - 20
	default:
		return argInts[r.Intn(len(argInts))]
	}
}

func genTuples(r *prng.R, params []Kind, n int) [][]int64 {
	if len(params) == 0 {
		return [][]int64{{}}
	}
	seen := map[string]bool{}
	var res [][]int64
	for i := 0; i < n*3 && len(res) < n; i++ {
		t := make([]int64, len(params))
		for j, k := range params {
			t[j] = genArg(r, k)
		}
		key := fmt.Sprint(t)
		if seen[key] {
			continue
		}
		seen[key] = true
		res = append(res, t)
	}
	return res
}

// genDialectProgram builds one random program of the dialect.
func genDialectProgram(r *prng.R, k int, ntuples int) *Prog {
	g := &G{r: r, feat: map[string]int{}}
	var top sb
	var resetB, initB sb

	// --- struct types
	if r.Chance(1, 2) {
		sd := &StructDef{Name: "T§_S"}
		sd.Fields = append(sd.Fields, Field{"A", tInt}, Field{"B", tInt})
		if r.Bool() {
			sd.Fields = append(sd.Fields, Field{"F", tBool})
		}
		if r.Chance(1, 3) {
			sd.Fields = append(sd.Fields, Field{"N", tStr})
		}
		g.structs = append(g.structs, sd)
		top.both("type %s struct {\n", sd.Name)
		for _, f := range sd.Fields {
			top.both("%s %s\n", f.Name, f.Ty.src())
		}
		top.both("}\n")
		g.f("prog:struct")
	}

	// --- globals (declared in dependency order; initialisers use literals and earlier globals only)
	g.push()
	ng := r.Intn(4)
	for i := 0; i < ng; i++ {
		ks := []Ty{tInt, tInt, tBool, tStr, tInts, tMapII}
		t := ks[r.Intn(len(ks))]
		name := fmt.Sprintf("g¶_%d", i)
		g.noCalls = true
		g.safe = true
		var e E
		minLen := 0
		switch t.K {
		case KInts:
			e, minLen = g.intsLit(1)
		case KMapII:
			e = g.genMap(t)
		case KStr:
			e, minLen = g.strLit()
		default:
			e = g.genExpr(t, 2)
		}
		g.noCalls = false
		g.safe = false
		if r.Chance(1, 5) && (t.K == KInt || t.K == KBool || t.K == KStr) {
			top.both("var %s %s\n", name, t.src())
			zero := map[Kind]string{KInt: "0", KBool: "false", KStr: `""`}[t.K]
			resetB.both("%s = %s\n", name, zero)
			minLen = 0
			g.f("prog:global-zero")
		} else {
			top.pc(fmt.Sprintf("var %s = %s\n", name, e.p), fmt.Sprintf("var %s = %s\n", name, e.c))
			resetB.pc(fmt.Sprintf("%s = %s\n", name, e.p), fmt.Sprintf("%s = %s\n", name, e.c))
		}
		v := &Var{Name: name, Ty: t, Global: true, Used: true, MinLen: minLen, Clean: t.K == KStr && r.Bool()}
		g.globals = append(g.globals, v)
		g.f("prog:global")
	}
	// --- helpers that the compiler inlines (pkg/compiler/testdata/inline, see canInline in analysis.go): used in
	// package-level initialisers with argument expressions that call functions (these are stored in temporaries
	// of _initialize) and inside function bodies
	useInline := r.Chance(1, 3)
	imports := ""
	if useInline {
		imports = inlineImport
		g.useInline = true
		g.f("prog:inline")
		top.both("func ¶_two() int {\nreturn 2\n}\nfunc ¶_three() int {\nreturn 3\n}\n")
		for _, n := range []string{"¶_two", "¶_three"} {
			g.funcs = append(g.funcs, &Func{Name: n, Rets: []Ty{tInt}, Pure: true})
		}
		ni := r.Range(1, 3)
		for i := 0; i < ni; i++ {
			name := fmt.Sprintf("g¶_%d", ng+i)
			d1, d2 := r.Range(0, 9), r.Range(0, 9)
			var e E
			switch r.Intn(9) {
			case 0:
				e = atom2("inline.Sum(¶_two(), ¶_three())", "ck_add(¶_two(), ¶_three())")
			case 1:
				e = atom2(fmt.Sprintf("inline.SumSquared(¶_two(), %d)", d1), fmt.Sprintf("ck_mul(ck_add(¶_two(), %d), ck_add(¶_two(), %d))", d1, d1))
			case 2:
				e = atom2("inline.NoArgsReturn1()", "1")
			case 3:
				e = atom2(fmt.Sprintf("inline.VarSum(¶_two(), ¶_three(), %d)", d1), fmt.Sprintf("ck_add(ck_add(¶_two(), ¶_three()), %d)", d1))
			case 4:
				e = atom2(fmt.Sprintf("inline.Sum(%d, %d)", d1, d2), fmt.Sprintf("ck_add(%d, %d)", d1, d2))
			case 5:
				e = atom2("inline.Concat(¶_three())", "ck_add(ck_mul(¶_three(), 100), 121)")
			case 6:
				e = atom2("inline.GetSumSameName()", "42")
			case 7:
				e = atom2(fmt.Sprintf("inline.Sum(inline.Sum(¶_two(), %d), ¶_three())", d1), fmt.Sprintf("ck_add(ck_add(¶_two(), %d), ¶_three())", d1))
			default:
				e = atom2(fmt.Sprintf("inline.SumSquared(¶_three(), ¶_two()) + %d", d2), fmt.Sprintf("ck_add(ck_mul(ck_add(¶_three(), ¶_two()), ck_add(¶_three(), ¶_two())), %d)", d2))
			}
			top.pc(fmt.Sprintf("var %s = %s\n", name, e.p), fmt.Sprintf("var %s = %s\n", name, e.c))
			resetB.pc(fmt.Sprintf("%s = %s\n", name, e.p), fmt.Sprintf("%s = %s\n", name, e.c))
			g.globals = append(g.globals, &Var{Name: name, Ty: tInt, Global: true, Used: true})
			g.f("prog:global-inline-init")
		}
		ng += ni
	}
	// globals are not in g.scopes (visible() appends them); keep the bottom scope for nothing
	hasInit := false
	if ng > 0 && r.Chance(1, 3) {
		// init(): straight-line updates of globals
		g.cur = nil
		g.noCalls = true
		g.budget = 3
		g.inDefer = true // no returns / panics
		g.safe = true
		b := g.genBlock(r.Range(1, 3))
		g.safe = false
		g.inDefer = false
		g.noCalls = false
		initB.add(b)
		hasInit = true
		g.f("prog:init-func")
	}

	// --- recover helper
	hasRecover := false
	var recGlobal *Var
	for _, v := range g.globals {
		if v.Ty.K == KInt {
			recGlobal = v
		}
	}
	if r.Chance(1, 3) {
		hasRecover = true
		top.pc("func ¶_rec() {\nif r := recover(); r != nil {\n", "func ¶_rec() {\nif r := recover(); r != nil {\nck_rt(r)\n")
		if recGlobal != nil {
			top.pc(fmt.Sprintf("%s = %s + 1000\n", recGlobal.Name, recGlobal.Name), fmt.Sprintf("%s = ck_add(%s, 1000)\n", recGlobal.Name, recGlobal.Name))
		}
		top.both("}\n}\n")
		g.f("prog:recover-helper")
	}

	// --- a deferred helper whose effect shows the order of deferred calls
	hasBump := false
	if recGlobal != nil && r.Chance(1, 2) {
		hasBump = true
		top.pc(fmt.Sprintf("func ¶_bump(k int) {\n%s = %s * 3 + k\n}\n", recGlobal.Name, recGlobal.Name),
			fmt.Sprintf("func ¶_bump(k int) {\nif r := recover(); r != nil {\nck_swallow(r)\n%s = ck_add(ck_mul(%s, 3), k)\npanic(r)\n}\n%s = ck_add(ck_mul(%s, 3), k)\n}\n", recGlobal.Name, recGlobal.Name, recGlobal.Name, recGlobal.Name))
		g.f("prog:bump-helper")
	}
	g.hasBump = hasBump
	// --- helpers
	nparams := map[string]int{}
	nh := r.Intn(5)
	for i := 0; i < nh; i++ {
		f := &Func{Name: fmt.Sprintf("¶_h%d", i)}
		if len(g.structs) > 0 && r.Chance(1, 3) {
			f.Recv = &Var{Name: "s", Ty: Ty{K: KPtr, S: g.structs[0]}, Used: true, ReadOnly: true}
			f.Name = fmt.Sprintf("M%d", i)
			g.f("prog:method")
		}
		f.Pure = f.Recv == nil && r.Bool()
		np := r.Intn(4)
		pk := []Ty{tInt, tInt, tInt, tBool, tStr, tInts}
		if f.Pure {
			pk = []Ty{tInt, tInt, tBool, tStr}
			g.f("prog:pure-helper")
		}
		for j := 0; j < np; j++ {
			t := pk[r.Intn(len(pk))]
			if len(g.structs) > 0 && r.Chance(1, 6) && !f.Pure {
				t = Ty{K: KPtr, S: g.structs[0]}
			}
			f.Params = append(f.Params, &Var{Name: fmt.Sprintf("a%d", j), Ty: t, Used: true})
		}
		switch r.Intn(8) {
		case 0:
			f.Rets = nil
		case 1:
			f.Rets = []Ty{tBool}
		case 2:
			f.Rets = []Ty{tInt, tInt}
			g.f("prog:multi-return")
		case 3:
			f.Rets = []Ty{tInt, tBool}
			g.f("prog:multi-return")
		case 4:
			f.Rets = []Ty{tStr}
		default:
			f.Rets = []Ty{tInt}
		}
		if f.Recv == nil && len(f.Rets) == 1 && r.Chance(1, 3) {
			f.Rec = true
			f.Params = append(f.Params, &Var{Name: "d", Ty: tInt, Used: true, ReadOnly: true})
			g.f("prog:recursive")
		}
		g.genFunc(f, &top, hasRecover, r.Range(2, 7))
		g.funcs = append(g.funcs, f)
		cnt := len(f.Params)
		if f.Recv != nil {
			cnt++
		}
		nparams[rename(f.Name, k, false)] = cnt
	}

	// --- entries
	p := &Prog{K: k, Kind: "dialect", Feat: g.feat, NParams: nparams, Imports: imports}
	ne := r.Range(1, 3)
	for i := 0; i < ne; i++ {
		f := &Func{Name: fmt.Sprintf("§_F%d", i)}
		np := r.Intn(4)
		var kinds []Kind
		for j := 0; j < np; j++ {
			t := tInt
			if r.Chance(1, 4) {
				t = tBool
			}
			kinds = append(kinds, t.K)
			f.Params = append(f.Params, &Var{Name: fmt.Sprintf("a%d", j), Ty: t, Used: true})
		}
		switch r.Intn(6) {
		case 0:
			f.Rets = []Ty{tBool}
		case 1:
			f.Rets = []Ty{tStr}
		default:
			f.Rets = []Ty{tInt}
		}
		g.genFunc(f, &top, hasRecover, r.Range(3, 10))
		nparams[rename(f.Name, k, false)] = len(f.Params)
		tuples := genTuples(r, kinds, ntuples)
		p.Entries = append(p.Entries, &Entry{Name: f.Name, Params: kinds, Ret: f.Rets[0].K, Tuples: tuples})
		// a wrapper that makes the side effects of the call on the int globals (deferred calls included) observable
		var gi []string
		for _, v := range g.globals {
			if v.Ty.K == KInt {
				gi = append(gi, v.Name)
			}
		}
		if f.Rets[0].K == KInt && len(gi) > 0 {
			w := fmt.Sprintf("§_W%d", i)
			var ps, as []string
			for j, pv := range f.Params {
				ps = append(ps, pv.Name+" "+pv.Ty.src())
				as = append(as, fmt.Sprintf("a%d", j))
			}
			top.both("func %s(%s) int {\nr := %s(%s)\nreturn r ^ %s\n}\n", w, strings.Join(ps, ", "), f.Name, strings.Join(as, ", "), strings.Join(gi, " ^ "))
			nparams[rename(w, k, false)] = len(f.Params)
			p.Entries = append(p.Entries, &Entry{Name: w, Params: kinds, Ret: KInt, Tuples: tuples})
			g.f("prog:wrapper-entry")
		}
	}
	g.pop()

	pl, ch := top.E().p, top.E().c
	// --- _deploy: reserved name, compiled into its own method with two arguments; first or last declaration
	if r.Chance(1, 3) {
		body := ""
		if recGlobal != nil {
			body = fmt.Sprintf("%s = %s + 1\n", recGlobal.Name, recGlobal.Name)
		}
		d := "func _deploy(data any, isUpdate bool) {\n" + body + "}\n"
		if r.Bool() {
			pl, ch = d+pl, d+ch
			g.f("prog:deploy-first")
		} else {
			pl, ch = pl+d, ch+d
			g.f("prog:deploy-last")
		}
		p.HasDeploy = true
		nparams["_deploy"] = 2
	}
	p.Plain = rename(pl, k, false)
	p.Checked = rename(ch, k, true)
	// --- multi-file package: the declarations cut into 2-3 contiguous files (a.go, b.go, c.go)
	if r.Chance(1, 4) {
		p.Files = splitFiles(r, p.Plain, k)
		if len(p.Files) > 1 {
			g.f(fmt.Sprintf("prog:multi-file-%d", len(p.Files)))
		}
	}
	if hasInit {
		p.Init = initB.E().p
		p.InitC = initB.E().c
		if p.Init == "" {
			p.Init = "\n"
			p.InitC = "\n"
		}
	}
	p.ResetP = rename(resetB.E().p, k, false)
	p.ResetC = rename(resetB.E().c, k, true)
	p.Init = rename(p.Init, k, false)
	p.InitC = rename(p.InitC, k, true)
	for _, e := range p.Entries {
		e.Name = rename(e.Name, k, false)
	}
	return p
}

// splitFiles cuts the top-level declarations (in their order: Go initialises package variables of several files in
// the order the files are presented, the relative order is kept) into 2-3 files.
func splitFiles(r *prng.R, plain string, k int) []string {
	lines := strings.SplitAfter(plain, "\n")
	gpfx := fmt.Sprintf("var gp%d_", k)
	var starts []int
	for i, l := range lines {
		if strings.HasPrefix(l, "func ") || strings.HasPrefix(l, "type ") || strings.HasPrefix(l, gpfx) {
			starts = append(starts, i)
		}
	}
	if len(starts) < 2 {
		return nil
	}
	nf := min(r.Range(2, 3), len(starts))
	// choose nf-1 distinct cut points among the declaration starts (not the first)
	cuts := map[int]bool{}
	for len(cuts) < nf-1 {
		cuts[starts[1+r.Intn(len(starts)-1)]] = true
	}
	var files []string
	var cur strings.Builder
	for i, l := range lines {
		if cuts[i] {
			files = append(files, cur.String())
			cur.Reset()
		}
		cur.WriteString(l)
	}
	files = append(files, cur.String())
	return files
}

// observe emits statements that xor-fold every visible container / string / struct into a fresh int variable.
func (g *G) observe() (E, string) {
	var s sb
	acc := g.fresh("acc")
	s.both("%s := 0\n", acc)
	vs := g.visible(func(v *Var) bool { return v.Ty.K == KPtr })
	vs = append(vs, g.visible(func(v *Var) bool { return v.Ty.K != KPtr })...)
	n, nint := 0, 0
	for _, v := range vs {
		if n >= 4 && v.Ty.K != KInt {
			continue
		}
		switch v.Ty.K {
		case KInts:
			s.both("for _, e := range %s {\n%s = %s ^ e\n}\n%s = %s ^ len(%s) << 4\n", v.Name, acc, acc, acc, acc, v.Name)
		case KBytes, KStr:
			s.both("for i := range %s {\n%s = %s ^ (int(%s[i]) + i)\n}\n", v.Name, acc, acc, v.Name)
		case KMapII:
			s.both("for k, e := range %s {\n%s = %s ^ k\n%s = %s ^ e\n}\n", v.Name, acc, acc, acc, acc)
		case KMapSI:
			s.both("for _, e := range %s {\n%s = %s ^ e\n}\n%s = %s ^ len(%s) << 5\n", v.Name, acc, acc, acc, acc, v.Name)
		case KPtr:
			for _, f := range v.Ty.S.Fields {
				switch f.Ty.K {
				case KInt:
					s.both("%s = %s ^ %s.%s\n", acc, acc, v.Name, f.Name)
				case KBool:
					s.both("if %s.%s == false {\n%s = %s ^ 64\n}\n", v.Name, f.Name, acc, acc)
				case KStr:
					s.both("%s = %s ^ len(%s.%s) << 7\nif %s.%s == \"\" {\n%s = %s ^ 256\n}\n", acc, acc, v.Name, f.Name, v.Name, f.Name, acc, acc)
				}
			}
		case KBool:
			s.both("if %s == false {\n%s = %s ^ 128\n}\n", v.Name, acc, acc)
		case KInt:
			// every int that is visible once the inner scopes have ended (shadowed outer variables included)
			if nint >= 6 {
				continue
			}
			nint++
			s.both("%s = %s ^ %s\n", acc, acc, v.Name)
			v.Used = true
			g.f("observe:int")
			continue
		default:
			continue
		}
		v.Used = true
		n++
		g.f("observe:" + v.Ty.src()[:min(3, len(v.Ty.src()))])
	}
	return s.E(), acc
}

// genFunc renders one function (helper, method or entry) into top.
func (g *G) genFunc(f *Func, top *sb, hasRecover bool, budget int) {
	g.cur = f
	f.group = g.r.Bool()
	g.nlbl = 0
	g.push()
	var ps []string
	for i, p := range f.Params {
		// `a0, a1 int` and `a0 int, a1 int` are different ast.Field lists
		if i+1 < len(f.Params) && f.Params[i+1].Ty == p.Ty && f.group {
			ps = append(ps, p.Name)
		} else {
			ps = append(ps, p.Name+" "+p.Ty.src())
		}
		v := *p
		if v.Ty.K == KInts || v.Ty.K == KStr || v.Ty.K == KBytes {
			v.MinLen = 0
		}
		g.declare(&v)
	}
	if f.Recv != nil {
		g.declare(f.Recv)
	}
	var rs []string
	for _, t := range f.Rets {
		rs = append(rs, t.src())
	}
	ret := ""
	if len(rs) == 1 {
		ret = " " + rs[0]
	} else if len(rs) > 1 {
		ret = " (" + strings.Join(rs, ", ") + ")"
	}
	recv := ""
	if f.Recv != nil {
		recv = "(s " + f.Recv.Ty.src() + ") "
	}
	var s sb
	s.both("func %s%s(%s)%s {\n", recv, f.Name, strings.Join(ps, ", "), ret)
	s.pc("", "ck_step()\n")
	g.selfCalls = 0
	g.loopNest = 0
	if f.Rec {
		s.both("if d <= 0 {\n")
		old := g.noCalls
		g.noCalls = true
		s.add(g.genReturn())
		g.noCalls = old
		s.both("}\n")
	}
	g.hasDefer = false
	g.pure = f.Pure
	g.impure = false
	if !f.Rec && !f.Pure {
		// deferred calls at the top of the function (a defer inside a loop is outside the dialect's model)
		for i := 0; i < 3; i++ {
			switch {
			case hasRecover && g.r.Chance(1, 4):
				s.both("defer ¶_rec()\n")
				g.f("func:defer-recover")
				g.hasDefer = true
			case g.hasBump && g.r.Chance(1, 3):
				s.both("defer ¶_bump(%d)\n", g.r.Intn(3))
				g.f("func:defer-bump")
				g.hasDefer = true
			}
		}
	}
	g.budget = budget
	g.depth = 0
	g.push()
	g.depth++
	for i := 0; i < budget && g.budget > 0; i++ {
		s.add(g.genStmt())
	}
	acc := ""
	if len(f.Rets) == 1 && f.Rets[0].K == KInt && g.r.Chance(3, 4) {
		// fold everything that is still visible into the result: makes the contents of slices, maps, strings and
		// structs observable
		var obs E
		obs, acc = g.observe()
		s.add(obs)
	}
	g.depth--
	s.add(g.pop())
	fin := g.genReturn()
	if acc != "" {
		fin.p = "return (" + strings.TrimSuffix(strings.TrimPrefix(fin.p, "return "), "\n") + ") ^ " + acc + "\n"
		fin.c = "return (" + strings.TrimSuffix(strings.TrimPrefix(fin.c, "return "), "\n") + ") ^ " + acc + "\n"
	}
	s.add(fin)
	s.add(g.pop())
	s.both("}\n")
	g.cur = nil
	g.pure = false
	e := s.E()
	top.add(e)
}
