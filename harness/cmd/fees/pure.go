package main

import (
	"encoding/binary"
	"errors"
	"fmt"
	"strings"

	"github.com/nspcc-dev/neo-go/pkg/config"
	"github.com/nspcc-dev/neo-go/pkg/core"
	"github.com/nspcc-dev/neo-go/pkg/core/fee"
	"github.com/nspcc-dev/neo-go/pkg/core/interop/interopnames"
	"github.com/nspcc-dev/neo-go/pkg/core/transaction"
	"github.com/nspcc-dev/neo-go/pkg/crypto/hash"
	"github.com/nspcc-dev/neo-go/pkg/crypto/keys"
	"github.com/nspcc-dev/neo-go/pkg/io"
	"github.com/nspcc-dev/neo-go/pkg/smartcontract"
	"github.com/nspcc-dev/neo-go/pkg/smartcontract/scparser"
	"github.com/nspcc-dev/neo-go/pkg/util"
	"github.com/nspcc-dev/neo-go/pkg/vm/emit"
	"github.com/nspcc-dev/neo-go/pkg/vm/opcode"

	"verif/harness/internal/hx"
	"verif/harness/internal/prng"
)

var (
	checkSigID      = idBytes(interopnames.SystemCryptoCheckSig)
	checkMultisigID = idBytes(interopnames.SystemCryptoCheckMultisig)
)

func idBytes(api string) []byte {
	b := make([]byte, 4)
	binary.LittleEndian.PutUint32(b, interopnames.ToID([]byte(api)))
	return b
}

func b2i(b bool) int {
	if b {
		return 1
	}
	return 0
}

// pure world: a genesis-only chain, never mutated, used to run witnesses on the real VM.
var pureW *world

func pureWorld() *world {
	if pureW == nil {
		pureW = newWorld(nil)
	}
	return pureW
}

func (w *world) gorgon() bool {
	hf := config.HFGorgon
	return w.bc.IsHardforkEnabled(&hf, w.bc.BlockHeight())
}

func dummyTx(signer util.Uint160) *transaction.Transaction {
	tx := transaction.New([]byte{byte(opcode.PUSH1)}, 0)
	tx.Nonce = 7
	tx.ValidUntilBlock = 100
	tx.Signers = []transaction.Signer{{Account: signer, Scopes: transaction.CalledByEntry}}
	return tx
}

func parseObs(script []byte) string {
	if scparser.IsSignatureContract(script) {
		return "sig"
	}
	if m, pubs, ok := scparser.ParseMultiSigContract(script); ok {
		return fmt.Sprintf("multisig %d %d", m, len(pubs))
	}
	return "none"
}

var pureBases = []int64{300000, 10000, 1, 123457, 1000000, 999999}

// scriptLines: parse + calc lines for one script, returns Calculate at the chain's base.
func scriptLines(o *hx.Out, r *prng.R, script []byte) {
	o.Line("parse "+hx.Hex(script), parseObs(script))
	bases := []int64{pureBases[0], pureBases[r.Intn(len(pureBases))], int64(r.Range(1, 1000000))}
	for _, b := range bases {
		obs := hx.Safe(func() string {
			f, sz := fee.Calculate(b, script)
			return fmt.Sprintf("%d %d", f, sz)
		})
		o.Line(fmt.Sprintf("calc %d %s", b, hx.Hex(script)), obs)
	}
}

// witnessLines: size and VM cost of (inv, ver) on the real code + oracle Calculate == VM, size == encoding.
func witnessLines(o *hx.Out, k int, tag string, tx *transaction.Transaction, inv, ver []byte, canonical bool, validPairs []byte) {
	w := pureWorld()
	wit := transaction.Witness{InvocationScript: inv, VerificationScript: ver}
	enc := wit.Bytes()
	o.Line(fmt.Sprintf("wsize %s %s", hx.Hex(inv), hx.Hex(ver)), fmt.Sprintf("%d", len(enc)))
	base := w.bc.GetBaseExecFee()
	st, gas, depth := w.runWitness(tx, hash.Hash160(ver), &wit)
	obs := "fault"
	if st == "halt" {
		obs = fmt.Sprintf("halt %d %d", gas, depth)
	}
	if modelOpcodes(inv) && modelOpcodes(ver) {
		o.Line(fmt.Sprintf("wcost %d %d %s %s %s", base, b2i(w.gorgon()), hx.Hex(validPairs), hx.Hex(inv), hx.Hex(ver)), obs)
	}
	// the same witness through VerifyWitness with plenty of gas: only MaxVerificationGas can stop it
	if canonical && modelOpcodes(inv) && modelOpcodes(ver) {
		const plenty = int64(1) << 50
		h160 := hash.Hash160(ver)
		used, err := w.bc.VerifyWitness(h160, tx, &wit, plenty)
		vobs := "fail"
		switch {
		case err == nil:
			vobs = fmt.Sprintf("ok %d", used)
		case errors.Is(err, core.ErrInvalidSignature):
			vobs = fmt.Sprintf("invsig %d", used)
		}
		o.Line(fmt.Sprintf("vw %d %d %d 1 %d %s %s %s", base, w.bc.GetMaxVerificationGAS(), b2i(w.gorgon()), plenty, hx.Hex(validPairs), hx.Hex(inv), hx.Hex(ver)), vobs)
		f, _ := fee.Calculate(base, ver)
		if st == "halt" && f > w.bc.GetMaxVerificationGAS() {
			o.Count("vw:above-max-verification-gas")
			if err == nil {
				o.Fail("max-verification-gas", k, "%s: witness costing %d verified although MaxVerificationGas is %d", tag, f, w.bc.GetMaxVerificationGAS())
			}
		}
	}
	o.Count("wcost:" + strings.SplitN(tag, ":", 2)[0] + ":" + st)
	// the property's oracle on the real code: for a standard contract the calculator's value is what
	// the VM charges, and its size part is the length of the encoded witness.
	if scparser.IsStandardContract(ver) {
		f, sz := fee.Calculate(base, ver)
		key := "calc-vs-vm"
		if !canonical {
			key = "calc-vs-vm-noncanonical-script"
		}
		if st == "halt" && f != gas {
			o.Fail(key, k, "%s: fee.Calculate=%d, VM consumed %d (base %d) ver=%x", tag, f, gas, base, ver)
		}
		if canonical && sz != len(enc) {
			o.Fail("calc-size", k, "%s: fee.Calculate size=%d, encoded witness has %d bytes", tag, sz, len(enc))
		}
	}
}

func doSig(o *hx.Out, k int, r *prng.R, p *keys.PrivateKey) {
	script := p.PublicKey().GetVerificationScript()
	o.Line("sigscript "+hx.Hex(p.PublicKey().Bytes()), hx.Hex(script))
	scriptLines(o, r, script)
	tx := dummyTx(hash.Hash160(script))
	sig := p.SignHashable(uint32(pureWorld().magic), tx)
	witnessLines(o, k, "sig", tx, pushData1(sig), script, true, append(p.PublicKey().Bytes(), sig...))
	o.Count("kind:sig")
}

func doMultisig(o *hx.Out, k int, r *prng.R, m int, ks []*keys.PrivateKey) {
	script, err := smartcontract.CreateMultiSigRedeemScript(m, pubsOf(ks))
	obs := "err"
	if err == nil {
		obs = hx.Hex(script)
	}
	o.Line(fmt.Sprintf("multisig %d %s", m, hx.Hex(pubBytes(ks))), obs)
	o.Count("kind:multisig")
	if err != nil {
		o.Count("multisig:builder-error")
		return
	}
	scriptLines(o, r, script)
	a := &acct{privs: ks, m: m, script: script, hash: hash.Hash160(script)}
	tx := dummyTx(a.hash)
	// sign with a random m-subset of the keys (ascending)
	which := subset(r, len(ks), m)
	sigs := a.sigs(pureWorld().magic, tx, which)
	witnessLines(o, k, "multisig", tx, invocation(sigs), script, true, pairsOf(a, which, sigs))
	o.Seen(fmt.Sprintf("ms/%d/%d", m, len(ks)))
	switch {
	case len(ks) <= 16:
		o.Count("multisig:n<=16")
	case len(ks) <= 127:
		o.Count("multisig:n<=127")
	default:
		o.Count("multisig:n>=128")
	}
}

// subset picks m ascending indices out of n.
func subset(r *prng.R, n, m int) []int {
	res := make([]int, 0, m)
	need := m
	for i := 0; i < n && need > 0; i++ {
		if r.Intn(n-i) < need {
			res = append(res, i)
			need--
		}
	}
	return res
}

func doEmitInt(o *hx.Out, v int64) {
	w := io.NewBufBinWriter()
	emit.Int(w.BinWriter, v)
	o.Line(fmt.Sprintf("emitint %d", v), hx.Hex(w.Bytes()))
	o.Count("kind:emitint")
}

func doEmitBytes(o *hx.Out, b []byte) {
	w := io.NewBufBinWriter()
	emit.Bytes(w.BinWriter, b)
	o.Line("emitbytes "+hx.Hex(b), hx.Hex(w.Bytes()))
	o.Count("kind:emitbytes")
}

// intPush encodes v with a chosen (possibly non-minimal) push instruction.
// form: 0 = canonical emit.Int, 1..6 = PUSHINT8..PUSHINT256.
func intPush(v int64, form int) []byte {
	if form == 0 {
		w := io.NewBufBinWriter()
		emit.Int(w.BinWriter, v)
		return w.Bytes()
	}
	size := 1 << (form - 1)
	b := make([]byte, size)
	u := uint64(v)
	for i := 0; i < size && i < 8; i++ {
		b[i] = byte(u >> (8 * i))
	}
	return append([]byte{byte(int(opcode.PUSHINT8) + form - 1)}, b...)
}

// handMultisig builds a multisig-shaped script by hand with chosen integer forms and variations.
func handMultisig(m int, keys [][]byte, n int, mForm, nForm int, tail []byte) []byte {
	s := intPush(int64(m), mForm)
	for _, k := range keys {
		s = append(s, pushData1(k)...)
	}
	s = append(s, intPush(int64(n), nForm)...)
	s = append(s, byte(opcode.SYSCALL))
	s = append(s, checkMultisigID...)
	return append(s, tail...)
}

// doVariant: a script that is (or is nearly) a standard multisig contract but not the builder's output.
func doVariant(o *hx.Out, k int, r *prng.R, m int, ks []*keys.PrivateKey, mForm, nForm int, mut string) {
	var kb [][]byte
	for _, p := range ks {
		kb = append(kb, p.PublicKey().Bytes())
	}
	n := len(ks)
	var tail []byte
	switch mut {
	case "ret":
		tail = []byte{byte(opcode.RET)}
	case "longkey":
		kb[r.Intn(n)] = append(kb[0][:33:33], 0)
	case "shortkey":
		i := r.Intn(n)
		kb[i] = kb[i][:32]
	case "n+1":
		n++
	case "n-1":
		n--
	case "m>n":
		m = n + 1
	case "m0":
		m = 0
	case "trunc":
	}
	script := handMultisig(m, kb, n, mForm, nForm, tail)
	if mut == "trunc" {
		script = script[:len(script)-1-r.Intn(3)]
	}
	if mut == "checksig-id" {
		copy(script[len(script)-4:], checkSigID)
	}
	scriptLines(o, r, script)
	a := &acct{privs: ks, m: m, script: script, hash: hash.Hash160(script)}
	tx := dummyTx(a.hash)
	mm := min(max(m, 1), len(ks))
	which := subset(r, len(ks), mm)
	sigs := a.sigs(pureWorld().magic, tx, which)
	tag := fmt.Sprintf("variant:m%d:n%d:%s", mForm, nForm, mut)
	witnessLines(o, k, tag, tx, invocation(sigs), script, false, pairsOf(a, which, sigs))
	o.Count("kind:variant")
	o.Count("variant:" + mut)
	if scparser.IsMultiSigContract(script) {
		o.Count("variant:parses-as-multisig")
		o.Seen(fmt.Sprintf("var/%d/%d/%d/%d/%s", m, len(ks), mForm, nForm, mut))
	}
}

var variantMuts = []string{"none", "none", "none", "ret", "longkey", "shortkey", "n+1", "n-1", "m>n", "m0", "trunc", "checksig-id"}

func boundaryInts() []int64 {
	return []int64{0, 1, 15, 16, 17, 127, 128, 129, 255, 256, 1023, 1024, 1025, 32767, 32768, 65535, 65536, 1<<23 - 1, 1 << 23,
		1<<31 - 1, 1 << 31, 1<<39 - 1, 1 << 39, 1<<47 - 1, 1 << 47, 1<<55 - 1, 1 << 55, 1<<62 + 12345, 1<<63 - 1}
}
