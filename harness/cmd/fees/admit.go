package main

import (
	"bytes"
	"encoding/json"
	"errors"
	"fmt"
	"math/big"
	"strings"

	"github.com/nspcc-dev/neo-go/pkg/config"
	"github.com/nspcc-dev/neo-go/pkg/core"
	"github.com/nspcc-dev/neo-go/pkg/core/fee"
	"github.com/nspcc-dev/neo-go/pkg/core/mempool"
	"github.com/nspcc-dev/neo-go/pkg/core/native/nativehashes"
	"github.com/nspcc-dev/neo-go/pkg/core/transaction"
	"github.com/nspcc-dev/neo-go/pkg/crypto/hash"
	"github.com/nspcc-dev/neo-go/pkg/crypto/keys"
	"github.com/nspcc-dev/neo-go/pkg/io"
	"github.com/nspcc-dev/neo-go/pkg/neotest"
	"github.com/nspcc-dev/neo-go/pkg/util"
	"github.com/nspcc-dev/neo-go/pkg/vm/opcode"
	"github.com/nspcc-dev/neo-go/pkg/wallet"

	"verif/harness/internal/hx"
	"verif/harness/internal/prng"
)

// ---- classification of the real verdict -----------------------------------------

func classify(err error) string {
	switch {
	case err == nil:
		return "ok"
	case errors.Is(err, core.ErrPolicy):
		if strings.Contains(err.Error(), "too big system fee") {
			return "err:policy-sysfee"
		}
		return "err:policy-blocked"
	case errors.Is(err, core.ErrInvalidScript):
		return "err:invalid-script"
	case errors.Is(err, core.ErrTxExpired):
		return "err:expired"
	case errors.Is(err, core.ErrTxNotYetValid):
		return "err:not-yet-valid"
	case errors.Is(err, core.ErrTxTooBig):
		return "err:too-big"
	case errors.Is(err, core.ErrTxSmallNetworkFee):
		return "err:small-netfee"
	case errors.Is(err, core.ErrAlreadyExists):
		return "err:already-exists"
	case errors.Is(err, core.ErrHasConflicts):
		if strings.HasPrefix(err.Error(), "mempool:") {
			return "err:pool-conflicts-attr"
		}
		return "err:has-conflicts"
	case errors.Is(err, core.ErrInvalidAttribute):
		return "err:invalid-attr"
	case errors.Is(err, core.ErrAlreadyInPool):
		return "err:pool-dup"
	case errors.Is(err, core.ErrInsufficientFunds):
		return "err:insufficient-funds"
	case errors.Is(err, core.ErrMemPoolConflict):
		return "err:pool-conflict"
	case errors.Is(err, core.ErrOOM):
		return "err:oom"
	case errors.Is(err, mempool.ErrOracleResponse):
		return "err:pool-oracle"
	case strings.HasPrefix(err.Error(), "witness #"):
		return "err:witness"
	}
	return "err:other"
}

// ---- scenario -----------------------------------------------------------------

type polSettings struct {
	feePerByte int64
	base       int64 // picoGAS
	attrFee    map[transaction.AttrType]int64
}

// scen is one chain with a few accounts in a known state.
type scen struct {
	w         *world
	hf        string // "all" | "preFaun" | "faun"
	p2p       bool
	reserved  bool
	pol       polSettings
	A, B      *acct // funded: single-sig, m-of-n
	C         *acct // funded single-sig, possibly blocked
	D         *acct // never funded
	E         *acct // funded with very little
	V, F      *acct // deployed contracts whose verify() returns true / false
	NC        *acct // funded; a multisig account whose script encodes m / n with a non-minimal integer push
	ncForms   [2]int
	committee *acct
	blockedC  bool
	accIDs    map[util.Uint160]int
	X         *transaction.Transaction // a transaction of A that is on chain
	sp        *specials
}

func (s *scen) id(h util.Uint160) int {
	if v, ok := s.accIDs[h]; ok {
		return v
	}
	v := len(s.accIDs) + 10
	s.accIDs[h] = v
	return v
}

const (
	idCommittee = 1
	idNotary    = 2
)

func newScen(r *prng.R, o *hx.Out, mtb int, kind string) *scen {
	s := &scen{accIDs: map[util.Uint160]int{}, sp: &specials{}}
	switch r.Intn(10) {
	case 0, 1:
		s.hf = "preFaun"
	case 2:
		s.hf = "faun"
	default:
		s.hf = "all"
	}
	s.p2p = r.Chance(1, 3)
	if strings.HasPrefix(kind, "notary") {
		s.p2p = r.Chance(3, 4)
	}
	s.reserved = r.Chance(1, 3)
	o.Count("chain:hf=" + s.hf)
	s.w = newWorld(func(c *config.Blockchain) {
		switch s.hf {
		case "preFaun":
			c.Hardforks = map[string]uint32{config.HFEchidna.String(): 0}
		case "faun":
			c.Hardforks = map[string]uint32{config.HFFaun.String(): 0}
		}
		c.P2PSigExtensions = s.p2p
		c.ReservedAttributes = s.reserved
		if mtb > 0 {
			c.MaxTraceableBlocks = uint32(mtb)
			c.MaxValidUntilBlockIncrement = 50
		}
	})
	w := s.w
	ks := pickKeys(r, 40)
	s.A = singleAcct("A", ks[0])
	s.C = singleAcct("C", ks[1])
	s.D = singleAcct("D", ks[2])
	s.E = singleAcct("E", ks[3])
	// wire limits: invocation script <= 1024 (m <= 15), verification script <= 1024 (n <= 29)
	n := r.Range(1, 29)
	switch r.Intn(6) {
	case 0:
		n = r.Range(1, 4)
	case 1:
		n = r.Range(15, 18)
	case 2:
		n = 29
	}
	m := r.Range(1, min(n, 15))
	switch r.Intn(5) {
	case 0:
		m = min(n, 15)
	case 1:
		m = 1
	}
	s.B = multiAcct("B", m, ks[4:4+n])
	{
		nn := r.Range(1, 6)
		nm := r.Range(1, nn)
		s.ncForms = [2]int{r.Intn(7), r.Intn(7)}
		if s.ncForms == [2]int{0, 0} {
			s.ncForms[r.Intn(2)] = r.Range(1, 6)
		}
		var kb [][]byte
		for _, p := range ks[34 : 34+nn] {
			kb = append(kb, p.PublicKey().Bytes())
		}
		sc := handMultisig(nm, kb, nn, s.ncForms[0], s.ncForms[1], nil)
		s.NC = &acct{name: fmt.Sprintf("NC[%d,%d]", s.ncForms[0], s.ncForms[1]), privs: ks[34 : 34+nn], m: nm, script: sc, hash: hash.Hash160(sc)}
	}
	ck := w.committee.(neotest.MultiSigner).Single(0).Account().PrivateKey()
	s.committee = multiAcct("committee", 1, []*keys.PrivateKey{ck})
	if s.committee.hash != w.committee.ScriptHash() {
		panic("committee account mismatch")
	}
	s.accIDs[s.committee.hash] = idCommittee
	s.accIDs[nativehashes.Notary] = idNotary
	// funding
	w.addBlock(
		w.fundTx(s.A.hash, 500_0000_0000), w.fundTx(s.B.hash, 500_0000_0000),
		w.fundTx(s.C.hash, 500_0000_0000), w.fundTx(s.E.hash, int64(r.Range(1, 200_0000))), w.fundTx(s.NC.hash, 500_0000_0000),
	)
	// policy
	s.pol = polSettings{feePerByte: 1000, attrFee: map[transaction.AttrType]int64{}}
	ptxN := 0
	addPol := func(method string, args ...any) {
		// one block each: the system fee of the next one is estimated against the state it will run in
		w.addBlock(w.policyTx(method, args...))
		ptxN++
	}
	if r.Chance(2, 3) {
		v := []int64{0, 1, 999, 1000, 1001, 5000, int64(r.Range(0, 30000))}[r.Intn(7)]
		s.pol.feePerByte = v
		addPol("setFeePerByte", v)
	}
	s.pol.base = 30 * 10000
	if r.Chance(2, 3) {
		var v int64
		if s.hf == "preFaun" {
			v = int64(r.Range(1, 100))
			s.pol.base = v * 10000
		} else {
			v = []int64{1, 9999, 10000, 10001, 123457, 300001, 1000000, int64(r.Range(1, 1000000))}[r.Intn(8)]
			s.pol.base = v
		}
		addPol("setExecFeeFactor", v)
	}
	for _, t := range []transaction.AttrType{transaction.HighPriority, transaction.NotValidBeforeT, transaction.ConflictsT, transaction.NotaryAssistedT, transaction.OracleResponseT} {
		if t == transaction.NotaryAssistedT && !strings.HasPrefix(kind, "notary") || t == transaction.OracleResponseT && !strings.HasPrefix(kind, "oracle") {
			continue
		}
		if r.Chance(1, 2) {
			v := int64(r.Range(0, 3_000_000))
			s.pol.attrFee[t] = v
			addPol("setAttributeFee", int64(t), v)
		}
	}
	if r.Chance(1, 3) {
		s.blockedC = true
		addPol("blockAccount", s.C.hash)
	}
	_ = ptxN
	if got := w.bc.FeePerByte(); got != s.pol.feePerByte {
		panic(fmt.Sprintf("feePerByte %d != %d", got, s.pol.feePerByte))
	}
	if got := w.bc.GetBaseExecFee(); got != s.pol.base {
		panic(fmt.Sprintf("base exec fee %d != %d", got, s.pol.base))
	}
	o.Count(fmt.Sprintf("chain:feePerByte=%s", bucket(s.pol.feePerByte, []int64{0, 999, 1000, 1001})))
	o.Count(fmt.Sprintf("chain:base%%10000=%v", s.pol.base%10000 != 0))
	// contract-based verification
	s.V = w.deployVerifier("verifier-true", r.Range(0, 40), true)
	s.F = w.deployVerifier("verifier-false", r.Range(0, 5), false)
	for _, a := range []*acct{s.V, s.F} {
		used, err := w.bc.VerifyWitness(a.hash, dummyTx(a.hash), &transaction.Witness{}, 1<<40)
		if err != nil && !errors.Is(err, core.ErrInvalidSignature) {
			panic(fmt.Sprintf("contract verification: %v", err))
		}
		a.cost = used
	}
	// X: a plain transaction of A on chain.
	c := s.newCand(r, []*acct{s.A}, 0)
	c.finish(0)
	s.X = c.tx
	w.addBlock(c.tx)
	return s
}

func bucket(v int64, marks []int64) string {
	for _, m := range marks {
		if v == m {
			return fmt.Sprint(m)
		}
	}
	return "other"
}

// attrFeeOf reads the attribute fee from Policy through a test invocation (state observation).
func (s *scen) attrFeeOf(t transaction.AttrType) int64 {
	if t == transaction.NotaryAssistedT && s.hf == "" {
		return 0
	}
	st, err := s.w.e.CommitteeInvoker(s.w.pol).TestInvoke(s.w.tb, "getAttributeFee", int64(t))
	if err != nil || st.Len() != 1 {
		return 0
	}
	v := st.Pop().BigInt().Int64()
	if exp, ok := s.pol.attrFee[t]; ok && exp != v {
		panic(fmt.Sprintf("attribute fee of %d: %d != %d", t, v, exp))
	}
	return v
}

// ---- candidate transactions ---------------------------------------------------------

type witKind int

const (
	witGood     witKind = iota
	witBadSig           // one signature byte flipped
	witMissing          // one signature less than needed
	witWrongKey         // verification script of another account (hash mismatch)
	witEmpty            // empty verification script
	witSwapped          // multisig signatures in reverse key order
)

type cand struct {
	s       *scen
	tx      *transaction.Transaction
	accts   []*acct
	wk      []witKind
	which   [][]int
	sigs    [][][]byte
	calc    int64 // the calculator's value
	calcSz  int
	need    int64
	attrFee int64
	// native contract signers
	notaryWrongKey bool
	nativeCost     map[int]int64
	nativeRes      map[int]bool
}

func (s *scen) newCand(r *prng.R, signers []*acct, pad int) *cand {
	script := []byte{byte(opcode.PUSH1)}
	for i := 0; i < pad; i++ {
		script = append(script, byte(opcode.NOP))
	}
	tx := transaction.New(script, int64(r.Range(0, 1_0000_0000)))
	tx.Nonce = uint32(r.U64())
	h := s.w.bc.BlockHeight()
	tx.ValidUntilBlock = h + uint32(r.Range(1, int(s.w.bc.GetMaxValidUntilBlockIncrement())))
	c := &cand{s: s, tx: tx, accts: signers}
	scopes := []transaction.WitnessScope{transaction.CalledByEntry, transaction.Global, transaction.None}
	for _, a := range signers {
		tx.Signers = append(tx.Signers, transaction.Signer{Account: a.hash, Scopes: scopes[r.Intn(3)]})
		c.wk = append(c.wk, witGood)
		if a.contract {
			c.which = append(c.which, nil)
		} else {
			c.which = append(c.which, a.defaultWhich())
		}
	}
	return c
}

// calculator: the network fee a wallet computes (neotest.AddNetworkFee / rpcsrv calculatenetworkfee):
// size (with the witness sizes fee.Calculate predicts) * feePerByte + attribute fees + Σ fee.Calculate.
func (c *cand) calculator() {
	s := c.s
	saved := c.tx.Scripts
	c.tx.Scripts = nil
	size := io.GetVarSize(c.tx)
	c.tx.Scripts = saved
	var exec int64
	for i, a := range c.accts {
		if a.native != "" {
			// a test run of the native `verify`, like for any contract-based witness
			wit, used, _ := c.nativeWitness(i)
			exec += used
			size += io.GetVarSize(wit.InvocationScript) + io.GetVarSize(wit.VerificationScript)
			continue
		}
		if a.contract {
			// what a wallet does for contract-based witnesses: a test run (neotest/basic.go:341-359, rpcsrv/server.go:1040-1050)
			exec += a.cost
			size += 1 + io.GetVarSize(a.script) // empty invocation script + the verification script (empty for deployed contracts)
			continue
		}
		f, sz := fee.Calculate(s.pol.base, a.script)
		exec += f
		size += sz
	}
	var af int64
	for _, at := range c.tx.Attributes {
		b := s.attrFeeOf(at.Type)
		switch at.Type {
		case transaction.ConflictsT:
			af += b * int64(len(c.tx.Signers))
		case transaction.NotaryAssistedT:
			if s.p2p {
				af += b * (int64(at.Value.(*transaction.NotaryAssisted).NKeys) + 1)
			}
		default:
			af += b
		}
	}
	c.attrFee = af
	c.calcSz = size
	c.need = int64(size)*s.pol.feePerByte + af
	c.calc = c.need + exec
}

// neotestSigner wraps an account of the harness as a neotest.Signer (nil for hand-made scripts).
func neotestSigner(a *acct) neotest.Signer {
	if a.contract {
		return nil
	}
	if a.m == 0 {
		return neotest.NewSingleSigner(wallet.NewAccountFromPrivateKey(a.privs[0]))
	}
	if !strings.HasPrefix(a.name, "NC") {
		accs := make([]*wallet.Account, len(a.privs))
		for i, p := range a.privs {
			accs[i] = wallet.NewAccountFromPrivateKey(p)
			if err := accs[i].ConvertMultisig(a.m, pubsOf(a.privs)); err != nil {
				panic(err)
			}
		}
		return neotest.NewMultiSigner(accs...)
	}
	return nil
}

// crossCheckNeotest compares the calculator with pkg/neotest's AddNetworkFee (basic.go:338-366).
func (c *cand) crossCheckNeotest(o *hx.Out, k int) {
	var sg []neotest.Signer
	for _, a := range c.accts {
		s := neotestSigner(a)
		if s == nil {
			return
		}
		sg = append(sg, s)
	}
	cp := c.tx.Copy()
	cp.NetworkFee = 0
	cp.Scripts = nil
	neotest.AddNetworkFee(c.s.w.tb, c.s.w.bc, cp, sg...)
	o.Count("calc:neotest-crosscheck")
	if cp.NetworkFee != c.calc {
		o.Fail("calculator-vs-neotest", k, "neotest.AddNetworkFee = %d, calculator = %d", cp.NetworkFee, c.calc)
	}
}

// finish sets NetworkFee = calculator + delta and signs.
func (c *cand) finish(delta int64) {
	c.calculator()
	c.tx.NetworkFee = c.calc + delta
	if c.tx.NetworkFee < 0 {
		c.tx.NetworkFee = 0
	}
	c.sign()
}

func (c *cand) sign() {
	magic := c.s.w.magic
	c.tx.Scripts = nil
	c.sigs = nil
	// the hash depends on everything but the witnesses
	fresh := c.tx.Copy()
	*c.tx = *fresh
	c.nativeCost, c.nativeRes = map[int]int64{}, map[int]bool{}
	for i, a := range c.accts {
		if a.native != "" {
			c.sigs = append(c.sigs, nil)
			c.tx.Scripts = append(c.tx.Scripts, transaction.Witness{InvocationScript: []byte{}, VerificationScript: []byte{}})
			continue
		}
		if a.contract {
			c.sigs = append(c.sigs, nil)
			vs := a.script // inline custom script, or nothing for a deployed contract
			if vs == nil {
				vs = []byte{}
			}
			c.tx.Scripts = append(c.tx.Scripts, transaction.Witness{InvocationScript: []byte{}, VerificationScript: vs})
			continue
		}
		sg := a.sigs(magic, c.tx, c.which[i])
		c.sigs = append(c.sigs, sg)
		c.tx.Scripts = append(c.tx.Scripts, transaction.Witness{InvocationScript: invocation(sg), VerificationScript: a.script})
	}
	for i, a := range c.accts {
		if a.native != "" {
			wit, used, ok := c.nativeWitness(i)
			c.tx.Scripts[i] = wit
			c.nativeCost[i], c.nativeRes[i] = used, ok
		}
	}
}

// applyWit mutates witness i after signing; returns the signatures that are still valid, as (which, sigs).
func (c *cand) applyWit(r *prng.R, i int, k witKind) {
	c.wk[i] = k
	a := c.accts[i]
	w := &c.tx.Scripts[i]
	switch k {
	case witBadSig:
		j := r.Intn(len(c.sigs[i]))
		bad := append([]byte{}, c.sigs[i][j]...)
		bad[r.Intn(64)] ^= byte(1 << r.Intn(8))
		sg := append([][]byte{}, c.sigs[i]...)
		sg[j] = bad
		w.InvocationScript = invocation(sg)
		// the flipped signature is not valid any more
		c.which[i] = append(append([]int{}, c.which[i][:j]...), c.which[i][j+1:]...)
		c.sigs[i] = append(append([][]byte{}, c.sigs[i][:j]...), c.sigs[i][j+1:]...)
	case witMissing:
		w.InvocationScript = invocation(c.sigs[i][:len(c.sigs[i])-1])
	case witWrongKey:
		other := c.s.D
		w.VerificationScript = other.script
		w.InvocationScript = invocation(other.sigs(c.s.w.magic, c.tx, []int{0}))
	case witEmpty:
		w.VerificationScript = nil
	case witSwapped:
		sg := append([][]byte{}, c.sigs[i]...)
		for x, y := 0, len(sg)-1; x < y; x, y = x+1, y-1 {
			sg[x], sg[y] = sg[y], sg[x]
		}
		w.InvocationScript = invocation(sg)
	}
	_ = a
}

// ---- the model's op line ----------------------------------------------------------------

type recInfo struct {
	kind      string // N | T | S
	index     uint32 // S: block index in the stub under the hash (the newest conflicting transaction)
	signers   []util.Uint160
	signerIdx []uint32 // S: block index in the per-signer record (the newest one that signer signed); nil = all `index`
}

type poolInfo struct {
	dup       bool
	feeSum    int64 // fees of the payer's pooled transactions
	oracleErr bool  // a response to the same request with at least this network fee is pooled
}

func (c *cand) witToken(i int) string {
	w := c.tx.Scripts[i]
	if a := c.accts[i]; a.native == "notary" {
		sp := c.s.sp
		sigOk := sp.notaryDesignated && !c.notaryWrongKey
		dep := "-"
		if c.tx.Sender() == a.hash && len(c.tx.Signers) > 1 {
			if d := depositOf(c.s.w.bc, c.tx.Signers[1].Account); d.Sign() > 0 {
				dep = d.String()
			}
		}
		return fmt.Sprintf("NV %d %d %s", c.nativeCost[i], b2i(sigOk), dep)
	} else if a.native == "oracle" {
		return fmt.Sprintf("OV %d", c.nativeCost[i])
	}
	if a := c.accts[i]; a.contract && c.wk[i] == witGood {
		kind := "o"
		if !a.returns {
			kind = "i"
		}
		return fmt.Sprintf("Q %d %s", a.cost, kind)
	}
	if len(w.VerificationScript) == 0 {
		return "M"
	}
	hashOk := hash.Hash160(w.VerificationScript) == c.tx.Signers[i].Account
	pairs := pairsOf(c.accts[i], c.which[i], c.sigs[i])
	if c.wk[i] == witWrongKey {
		pairs = nil
	}
	return fmt.Sprintf("W %d %s %s %s", b2i(hashOk), hx.Hex(pairs), hx.Hex(w.InvocationScript), hx.Hex(w.VerificationScript))
}

// admitLine renders the predicate vector of (chain, candidate) for the Lean model.
func (c *cand) admitLine(rec recInfo, onChainHashes map[util.Uint256]bool, p poolInfo, wireSize int) string {
	s := c.s
	bc := s.w.bc
	var b strings.Builder
	hfNotary := true // Echidna is enabled in every configuration used here
	gorgon := s.hf == "all"
	fmt.Fprintf(&b, "admit %d %d %d %d %d %d %d %d %d %d %d", bc.BlockHeight(), bc.GetMaxValidUntilBlockIncrement(),
		bc.GetConfig().MaxBlockSystemFee, s.pol.feePerByte, s.pol.base, bc.GetMaxVerificationGAS(), bc.GetMaxTraceableBlocks(),
		b2i(gorgon), b2i(s.p2p), b2i(s.reserved), b2i(hfNotary))
	for _, t := range []transaction.AttrType{transaction.HighPriority, transaction.OracleResponseT, transaction.NotValidBeforeT, transaction.ConflictsT, transaction.NotaryAssistedT} {
		fmt.Fprintf(&b, " %d", s.attrFeeOf(t))
	}
	// committee, the designated oracle nodes' account (if any), notary
	if s.sp.oracleDesignated {
		fmt.Fprintf(&b, " %d %d %d", idCommittee, s.id(s.sp.oracleNodes.hash), idNotary)
	} else {
		fmt.Fprintf(&b, " %d - %d", idCommittee, idNotary)
	}
	if s.blockedC {
		fmt.Fprintf(&b, " 1 %d", s.id(s.C.hash))
	} else {
		b.WriteString(" 0")
	}
	switch rec.kind {
	case "S":
		fmt.Fprintf(&b, " S %d %d", rec.index, len(rec.signers))
		for i, h := range rec.signers {
			idx := rec.index
			if rec.signerIdx != nil {
				idx = rec.signerIdx[i]
			}
			fmt.Fprintf(&b, " %d %d", s.id(h), idx)
		}
	default:
		b.WriteString(" " + rec.kind)
	}
	tx := c.tx
	scriptOk := !(len(tx.Script) >= 2 && tx.Script[0] == byte(opcode.JMP))
	fmt.Fprintf(&b, " %d %d %d %d %d %d %d", tx.Version, len(tx.Script), b2i(scriptOk), tx.SystemFee, tx.NetworkFee, tx.ValidUntilBlock, wireSize)
	fmt.Fprintf(&b, " %d", len(tx.Signers))
	for i, sg := range tx.Signers {
		fmt.Fprintf(&b, " %d %d %s", s.id(sg.Account), b2i(sg.Scopes == transaction.None), c.witToken(i))
	}
	fmt.Fprintf(&b, " %d", len(tx.Attributes))
	hashIDs := map[util.Uint256]int{}
	for _, a := range tx.Attributes {
		switch a.Type {
		case transaction.HighPriority:
			b.WriteString(" HP")
		case transaction.OracleResponseT:
			id := a.Value.(*transaction.OracleResponse).ID
			gas, reqOk := s.sp.requests[id]
			fmt.Fprintf(&b, " OR %d %d %d %d", id, b2i(s.sp.oracleScript != nil && bytes.Equal(tx.Script, s.sp.oracleScript)), b2i(reqOk), gas)
		case transaction.NotValidBeforeT:
			fmt.Fprintf(&b, " NVB %d", a.Value.(*transaction.NotValidBefore).Height)
		case transaction.ConflictsT:
			h := a.Value.(*transaction.Conflicts).Hash
			if _, ok := hashIDs[h]; !ok {
				hashIDs[h] = len(hashIDs) + 1
			}
			fmt.Fprintf(&b, " CF %d %d", hashIDs[h], b2i(onChainHashes[h]))
		case transaction.NotaryAssistedT:
			fmt.Fprintf(&b, " NA %d", a.Value.(*transaction.NotaryAssisted).NKeys)
		default:
			fmt.Fprintf(&b, " OT %d", a.Type)
		}
	}
	bal := bc.GetUtilityTokenBalance(tx.Sender(), util.Uint160{})
	if tx.Sender() == nativehashes.Notary && len(tx.Signers) > 1 {
		bal = bc.GetUtilityTokenBalance(tx.Sender(), tx.Signers[1].Account) // the payer's deposit
	}
	if !bal.IsInt64() {
		bal = big.NewInt(1 << 62)
	}
	fmt.Fprintf(&b, " %d 0 %d %d %d 0", b2i(p.dup), bal.Int64(), p.feeSum, b2i(p.oracleErr))
	return b.String()
}

// ---- submission -----------------------------------------------------------------

// encodings of the same content; returns the transactions decoded on each path (nil + error class on failure).
func reencode(tx *transaction.Transaction) (map[string]*transaction.Transaction, map[string]string) {
	res := map[string]*transaction.Transaction{}
	errs := map[string]string{}
	raw := tx.Bytes()
	if raw == nil {
		errs["encode"] = "encode-error"
		return res, errs
	}
	if t, err := transaction.NewTransactionFromBytes(raw); err == nil {
		res["bytes"] = t
	} else {
		errs["bytes"] = "decode-error"
	}
	t2 := &transaction.Transaction{}
	br := io.NewBinReaderFromBuf(raw)
	t2.DecodeBinary(br)
	if br.Err == nil {
		res["stream"] = t2
	} else {
		errs["stream"] = "decode-error"
	}
	if js, err := json.Marshal(tx.Copy()); err == nil {
		t3 := &transaction.Transaction{}
		if err := json.Unmarshal(js, t3); err == nil {
			res["json"] = t3
		} else {
			errs["json"] = "decode-error"
			if debugJSON {
				fmt.Println("json:", err, string(js))
			}
		}
	} else {
		errs["json"] = "decode-error"
	}
	res["object"] = tx.Copy()
	return res, errs
}

var debugJSON = false

var encOrder = []string{"bytes", "stream", "json", "object"}

// submit runs VerifyTx on every encoding; the verdict of the `bytes` path is the observation.
// `objectMayDiffer` = the in-memory object is not something a decoder can produce (structurally invalid).
func submit(o *hx.Out, k int, w *world, tx *transaction.Transaction, tag string) (string, *transaction.Transaction) {
	txs, errs := reencode(tx)
	verdicts := map[string]string{}
	for _, e := range encOrder {
		if t, ok := txs[e]; ok {
			verdicts[e] = hx.Safe(func() string { return classify(w.bc.VerifyTx(t)) })
		} else {
			verdicts[e] = errs[e]
		}
	}
	ref := verdicts["bytes"]
	for _, e := range encOrder {
		v := verdicts[e]
		if v == "panic" {
			o.Fail("verifytx-panic", k, "%s: VerifyTx panicked on the %s encoding", tag, e)
		}
		if e == "object" && ref == "decode-error" {
			continue // the object is not decodable content
		}
		if e == "json" && v == "decode-error" && ref != "decode-error" {
			// transaction JSON has no form for reserved attribute types: not an accepted encoding, no verdict
			o.Count("enc:json-undecodable")
			continue
		}
		if v != ref {
			key := "encoding-verdict-differs"
			if e == "json" && ref == "decode-error" && len(tx.Signers)+len(tx.Attributes) > transaction.MaxAttributes {
				// isValid (shared by all decoders) has no count check; only the binary decoders enforce MaxAttributes
				key = "json-accepts-over-maxattributes"
			}
			o.Fail(key, k, "%s: verdict %s on %s, %s on bytes (%d signers, %d attributes)", tag, v, e, ref, len(tx.Signers), len(tx.Attributes))
		}
	}
	return ref, txs["bytes"]
}

// ---- one admission case ----------------------------------------------------------------

var invKinds = []string{
	"none", "none", "none", "none", "none", "none",
	"fee-1", "fee-1", "fee-1",
	"fee+", "expired", "vub-far", "vub-max", "blocked", "bad-script", "sysfee-big", "on-chain", "stub-common", "stub-disjoint", "stub-old", "stub-2nd", "stub-3rd", "stub-multi", "stub-multi", "stub-multi",
	"bad-sig", "missing-sig", "wrong-key", "empty-verif", "swapped-sigs", "nvb-future", "conflicts-dup", "conflicts-onchain",
	"hp-no-committee", "reserved", "oracle", "notary", "no-funds", "dup-signers", "below-need", "pool-dup", "two", "noncanon", "noncanon-vm", "stale", "stale", "stale",
	"contract", "contract", "contract-fee-1", "contract-false", "stale-contract", "stale-contract", "stale-contract",
	"at-need", "oversized", "max-size", "dup-attr", "too-many", "version", "empty-script",
}

func admitCase(f *hx.Flags, o *hx.Out, k int, r *prng.R) {
	inv := invKinds[r.Intn(len(invKinds))]
	runAdmit(o, k, r, inv)
}

func admitCorpus() []func(o *hx.Out, k int, r *prng.R) {
	var c []func(o *hx.Out, k int, r *prng.R)
	seen := map[string]bool{}
	for _, inv := range invKinds {
		if seen[inv] {
			continue
		}
		seen[inv] = true
		inv := inv
		c = append(c, func(o *hx.Out, k int, r *prng.R) { runAdmit(o, k, r, inv) })
	}
	return c
}

func runAdmit(o *hx.Out, k int, r *prng.R, inv string) {
	mtb := 0
	switch inv {
	case "stub-old":
		mtb = 5
	case "stub-multi":
		mtb = r.Range(2, 7)
	}
	s := newScen(r, o, mtb, inv)
	defer s.w.close()
	w := s.w
	o.Count("kind:admit")
	o.Count("admit:" + inv)

	// signers
	pool := []*acct{s.A, s.B}
	if !s.blockedC {
		pool = append(pool, s.C)
	}
	var signers []*acct
	switch r.Intn(4) {
	case 0:
		signers = []*acct{s.A}
	case 1:
		signers = []*acct{s.B}
	default:
		n := r.Range(1, len(pool))
		perm := append([]*acct{}, pool...)
		for i := range perm {
			j := i + r.Intn(len(perm)-i)
			perm[i], perm[j] = perm[j], perm[i]
		}
		signers = perm[:n]
	}
	wantCommittee := r.Chance(1, 4)
	if wantCommittee && inv != "hp-no-committee" {
		signers = append(signers, s.committee)
	}
	switch inv {
	case "blocked":
		if !s.blockedC {
			s.blockedC = true
			w.addBlock(w.policyTx("blockAccount", s.C.hash))
		}
		if i := indexAcct(signers, s.C); i >= 0 {
			signers = append(signers[:i:i], signers[i+1:]...)
		}
		signers = append(signers, s.C)
		if r.Bool() {
			signers[0], signers[len(signers)-1] = signers[len(signers)-1], signers[0]
		}
	case "no-funds":
		if r.Bool() {
			signers = append([]*acct{s.D}, signers...)
		} else {
			signers = append([]*acct{s.E}, signers...)
		}
	case "contract", "contract-fee-1", "stale-contract":
		signers = append(signers, s.V)
		if r.Bool() && len(signers) > 2 {
			signers[1], signers[len(signers)-1] = signers[len(signers)-1], signers[1]
		}
	case "contract-false":
		signers = append(signers, s.F)
	case "noncanon", "noncanon-vm":
		signers = []*acct{s.NC}
		if r.Bool() {
			signers = append(signers, s.A)
		}
	case "missing-sig", "swapped-sigs":
		if s.B.m < 2 && inv == "swapped-sigs" || !containsAcct(signers, s.B) {
			signers = append(signers[:0:0], s.B)
		}
	}
	if inv == "dup-signers" {
		// the same account twice, both witnesses valid
		signers = append(signers, signers[r.Intn(len(signers))])
	}
	if inv == "oversized" || inv == "max-size" {
		// many signers with bulky witness rules; only the sender needs funds
		signers = []*acct{s.A, s.B}
		for i := 0; i < 11; i++ {
			signers = append(signers, singleAcct(fmt.Sprintf("X%d", i), keyPool[700+i]))
		}
	}
	if inv == "too-many" {
		for i := 0; len(signers) < 17; i++ {
			signers = append(signers, singleAcct(fmt.Sprintf("X%d", i), keyPool[700+i]))
		}
	}
	pads := []int{0, 0, 10, 250, 251, 252, 253, r.Range(0, 3000)}
	c := s.newCand(r, signers, pads[r.Intn(len(pads))])
	tx := c.tx
	height := w.bc.BlockHeight()

	// attributes (valid ones)
	onChain := map[util.Uint256]bool{}
	if r.Chance(1, 3) {
		tx.Attributes = append(tx.Attributes, transaction.Attribute{Type: transaction.NotValidBeforeT, Value: &transaction.NotValidBefore{Height: uint32(r.Range(0, int(height)))}})
	}
	for i := r.Intn(3); i > 0 && r.Chance(1, 2); i-- {
		var h util.Uint256
		copy(h[:], r.Bytes(32))
		tx.Attributes = append(tx.Attributes, transaction.Attribute{Type: transaction.ConflictsT, Value: &transaction.Conflicts{Hash: h}})
	}
	if containsAcct(signers, s.committee) && r.Bool() {
		tx.Attributes = append(tx.Attributes, transaction.Attribute{Type: transaction.HighPriority})
	}
	if s.reserved && r.Chance(1, 3) {
		tx.Attributes = append(tx.Attributes, transaction.Attribute{Type: transaction.AttrType(0xe0 + r.Intn(32)), Value: &transaction.Reserved{Value: r.Bytes(r.Intn(5))}})
	}

	delta := int64(0)
	expect := "ok" // the statement's verdict: "ok", "reject" or "" (not decided by the scenario alone)
	rec := recInfo{kind: "N"}
	var second string
	if inv == "two" {
		// two invalidities at once: only the order of the checks is compared with the model
		opts := []string{"expired", "vub-far", "bad-script", "sysfee-big", "below-need", "bad-sig", "nvb-future", "conflicts-dup", "hp-no-committee"}
		inv = opts[r.Intn(len(opts))]
		second = opts[r.Intn(len(opts))]
		for second == inv {
			second = opts[r.Intn(len(opts))]
		}
		o.Count("admit:two:" + inv + "+" + second)
	}
	for pass, what := range []string{inv, second} {
		if what == "" {
			continue
		}
		if pass == 0 || what != inv {
			expect = "reject"
		}
		switch what {
		case "none", "pool-dup", "noncanon", "noncanon-vm", "stale", "stale-contract":
			expect = "ok"
			if what == "stale-contract" {
				// a contract-based witness and at least one attribute that carries a fee; little or no slack in the fee
				delta = []int64{0, 0, int64(r.Range(1, 50))}[r.Intn(3)]
				if !tx.HasAttribute(transaction.NotValidBeforeT) && !tx.HasAttribute(transaction.ConflictsT) && !tx.HasAttribute(transaction.HighPriority) {
					if r.Bool() {
						tx.Attributes = append(tx.Attributes, transaction.Attribute{Type: transaction.NotValidBeforeT, Value: &transaction.NotValidBefore{Height: uint32(r.Range(0, int(height)))}})
					} else {
						var h util.Uint256
						copy(h[:], r.Bytes(32))
						tx.Attributes = append(tx.Attributes, transaction.Attribute{Type: transaction.ConflictsT, Value: &transaction.Conflicts{Hash: h}})
					}
				}
			}
			if what == "stale" {
				delta = []int64{0, 0, 1, int64(r.Range(0, 2000)), int64(r.Range(0, 3_000_000))}[r.Intn(5)]
			}
		case "fee-1", "contract-fee-1":
			delta = -1
			expect = "reject-fee"
		case "contract":
			expect = "ok"
		case "fee+":
			delta = int64(r.Range(1, 100000))
			expect = "ok"
		case "expired":
			tx.ValidUntilBlock = height - uint32(r.Intn(2))*min(height, 1)
		case "vub-far":
			tx.ValidUntilBlock = height + w.bc.GetMaxValidUntilBlockIncrement() + 1 + uint32(r.Intn(3))
		case "vub-max":
			// the last admissible value
			tx.ValidUntilBlock = height + w.bc.GetMaxValidUntilBlockIncrement()
			expect = "ok"
		case "blocked", "no-funds", "missing-sig", "swapped-sigs", "bad-sig", "wrong-key", "empty-verif":
			// handled around signing
		case "bad-script":
			tx.Script = append([]byte{byte(opcode.JMP), 0x80}, tx.Script...) // jump to offset -128
		case "sysfee-big":
			tx.SystemFee = w.bc.GetConfig().MaxBlockSystemFee + 1 + int64(r.Intn(5))
		case "nvb-future":
			tx.Attributes = dropAttr(tx.Attributes, transaction.NotValidBeforeT)
			tx.Attributes = append(tx.Attributes, transaction.Attribute{Type: transaction.NotValidBeforeT, Value: &transaction.NotValidBefore{Height: height + 1 + uint32(r.Intn(3))}})
		case "conflicts-dup":
			var h util.Uint256
			copy(h[:], r.Bytes(32))
			for i := 0; i < 2; i++ {
				tx.Attributes = append(tx.Attributes, transaction.Attribute{Type: transaction.ConflictsT, Value: &transaction.Conflicts{Hash: h}})
			}
		case "conflicts-onchain":
			tx.Attributes = append(tx.Attributes, transaction.Attribute{Type: transaction.ConflictsT, Value: &transaction.Conflicts{Hash: s.X.Hash()}})
			onChain[s.X.Hash()] = true
		case "hp-no-committee":
			tx.Attributes = dropAttr(tx.Attributes, transaction.HighPriority)
			tx.Attributes = append(tx.Attributes, transaction.Attribute{Type: transaction.HighPriority})
		case "reserved":
			if s.reserved {
				expect = "ok"
			}
			rt := transaction.AttrType(0xe0 + r.Intn(32))
			for tx.HasAttribute(rt) { // one attribute per reserved type, a second one would be malformed
				rt = transaction.AttrType(0xe0 + r.Intn(32))
			}
			tx.Attributes = append(tx.Attributes, transaction.Attribute{Type: rt, Value: &transaction.Reserved{Value: r.Bytes(r.Intn(5))}})
		case "oracle":
			tx.Attributes = append(tx.Attributes, transaction.Attribute{Type: transaction.OracleResponseT, Value: &transaction.OracleResponse{ID: r.U64() % 5, Code: transaction.Success, Result: r.Bytes(r.Intn(4))}})
		case "notary":
			tx.Attributes = append(tx.Attributes, transaction.Attribute{Type: transaction.NotaryAssistedT, Value: &transaction.NotaryAssisted{NKeys: uint8(r.Intn(4))}})
		case "below-need", "at-need":
			delta = 0 // set below
		case "dup-attr":
			// two attributes of a type that allows one
			switch r.Intn(2) {
			case 0:
				tx.Attributes = dropAttr(tx.Attributes, transaction.NotValidBeforeT)
				for i := 0; i < 2; i++ {
					tx.Attributes = append(tx.Attributes, transaction.Attribute{Type: transaction.NotValidBeforeT, Value: &transaction.NotValidBefore{Height: uint32(i)}})
				}
			default:
				signers0 := containsAcct(signers, s.committee)
				_ = signers0
				tx.Attributes = dropAttr(tx.Attributes, transaction.HighPriority)
				tx.Attributes = append(tx.Attributes, transaction.Attribute{Type: transaction.HighPriority}, transaction.Attribute{Type: transaction.HighPriority})
			}
		case "version":
			tx.Version = uint8(r.Range(1, 255))
		case "empty-script":
			tx.Script = nil
		case "too-many", "dup-signers":
			// built into the signer list
		case "max-size":
			expect = "ok"
		case "oversized":
			// sized below
		}
	}
	if len(tx.Attributes)+len(tx.Signers) > transaction.MaxAttributes && inv != "too-many" {
		tx.Attributes = tx.Attributes[:max(0, transaction.MaxAttributes-len(tx.Signers))]
	}
	if inv == "too-many" && r.Bool() {
		// 16 signers are fine, the attributes make it 17 entries
		tx.Signers = tx.Signers[:16]
		c.accts, c.wk, c.which = c.accts[:16], c.wk[:16], c.which[:16]
		signers = signers[:16]
		tx.Attributes = []transaction.Attribute{{Type: transaction.NotValidBeforeT, Value: &transaction.NotValidBefore{Height: 0}}}
	}
	if inv == "oversized" || inv == "max-size" {
		bulkUp(r, tx)
		target := transaction.MaxTransactionSize
		if inv == "oversized" {
			target += []int{1, 1, 2, 3, r.Range(1, 500)}[r.Intn(5)]
		} else {
			target -= []int{0, 0, 0, 1, r.Range(0, 500)}[r.Intn(5)]
		}
		for it := 0; it < 3; it++ {
			c.finish(0)
			adj := target - len(tx.Bytes())
			if adj == 0 {
				break
			}
			n := len(tx.Script) + adj
			if n < 300 || n > transaction.MaxScriptLength {
				panic(fmt.Sprintf("cannot reach size %d (script would be %d bytes)", target, n))
			}
			sc := make([]byte, n)
			sc[0] = byte(opcode.PUSH1)
			for i := 1; i < n; i++ {
				sc[i] = byte(opcode.NOP)
			}
			tx.Script = sc
		}
	}
	if inv == "stub-multi" {
		tx.ValidUntilBlock = height + uint32(r.Range(30, 50)) // survives the history built below
	}
	c.finish(delta)
	if len(signers) <= 5 {
		c.crossCheckNeotest(o, k)
	}
	if inv == "noncanon-vm" {
		// pay what the VM really charges for every witness (observed), not what fee.Calculate says
		var vmCost int64
		for i := range tx.Scripts {
			used, err := w.bc.VerifyWitness(tx.Signers[i].Account, tx, &tx.Scripts[i], 1<<40)
			if err != nil {
				panic(tbFail{fmt.Sprintf("noncanon-vm: witness %d does not verify: %v", i, err)})
			}
			vmCost += used
		}
		tx.NetworkFee = c.need + vmCost
		c.sign()
	}
	if inv == "at-need" {
		// exactly size*feePerByte + attribute fees: nothing left for the witnesses
		tx.NetworkFee = c.need
		c.sign()
	}
	if inv == "below-need" || second == "below-need" {
		// strictly below size*feePerByte + attribute fees
		if c.need == 0 {
			expect = "" // nothing is below zero: the transaction is simply valid or invalid for other reasons
			if second == "" {
				expect = "ok"
			}
		} else {
			tx.NetworkFee = c.need - 1 - int64(r.Intn(int(min(c.need, 1000))))
			c.sign()
		}
	}
	// witness-level invalidities (after signing)
	for _, what := range []string{inv, second} {
		wi := r.Intn(len(signers))
		for signers[wi].contract {
			wi = r.Intn(len(signers))
		}
		switch what {
		case "bad-sig":
			c.applyWit(r, wi, witBadSig)
		case "missing-sig":
			c.applyWit(r, indexAcct(signers, s.B), witMissing)
		case "swapped-sigs":
			if s.B.m >= 2 {
				c.applyWit(r, indexAcct(signers, s.B), witSwapped)
			} else {
				expect = "ok"
			}
		case "wrong-key":
			c.applyWit(r, wi, witWrongKey)
		case "empty-verif":
			c.applyWit(r, wi, witEmpty)
		}
	}
	if inv == "no-funds" {
		bal := w.bc.GetUtilityTokenBalance(tx.Sender(), util.Uint160{})
		if bal.Cmp(big.NewInt(tx.SystemFee+tx.NetworkFee)) >= 0 {
			expect = "ok" // E happens to hold enough
		}
	}
	if second != "" {
		expect = "" // only the order of the checks is compared (with the model)
	}

	// on-chain history that refers to the candidate
	switch inv {
	case "on-chain":
		w.addBlock(tx)
		rec = recInfo{kind: "T"}
		expect = "reject"
	case "stub-common", "stub-disjoint", "stub-old", "stub-2nd", "stub-3rd":
		var ysigners []*acct
		if inv == "stub-disjoint" {
			for _, a := range []*acct{s.A, s.B, s.C} {
				if !containsAcct(signers, a) && !(a == s.C && s.blockedC) {
					ysigners = append(ysigners, a)
				}
			}
			if len(ysigners) == 0 {
				inv = "stub-common"
				o.Count("admit:stub-disjoint->common")
			}
		}
		if inv != "stub-disjoint" {
			ysigners = []*acct{signers[r.Intn(len(signers))]}
			if ysigners[0] == s.committee || r.Bool() {
				// the common signer need not be the sender of either
				for _, a := range []*acct{s.A, s.B} {
					if !containsAcct(ysigners, a) && r.Bool() {
						ysigners = append([]*acct{a}, ysigners...)
					}
				}
			}
		}
		y := s.newCand(r, ysigners, 0)
		y.tx.Attributes = conflictsNaming(r, o, tx.Hash(), map[string]int{"stub-2nd": 1, "stub-3rd": 2}[inv]-b2i(inv != "stub-2nd" && inv != "stub-3rd"))
		y.finish(0)
		b := w.addBlock(y.tx)
		rec = recInfo{kind: "S", index: b.Index}
		for _, a := range ysigners {
			rec.signers = append(rec.signers, a.hash)
		}
		expect = "reject"
		if inv == "stub-disjoint" {
			expect = "ok"
		}
		if inv == "stub-old" {
			for i := 0; i < 5; i++ {
				w.addBlock()
			}
			expect = "ok"
		}
		if tx.ValidUntilBlock <= w.bc.BlockHeight() {
			expect = "reject"
		}
	}
	if inv == "stub-multi" {
		// several on-chain transactions in different blocks name the candidate as a conflict; the candidate is
		// submitted around the edge of the traceability window of each of them.
		type onChainConflict struct {
			index   uint32
			signers []util.Uint160
		}
		var history []onChainConflict // the harness's own record of what it put on chain
		avail := []*acct{s.A, s.B}
		if !s.blockedC {
			avail = append(avail, s.C)
		}
		ny := r.Range(2, 3)
		for i := 0; i < ny; i++ {
			var ys []*acct
			for _, a := range avail {
				if r.Bool() {
					ys = append(ys, a)
				}
			}
			if len(ys) == 0 {
				ys = []*acct{avail[r.Intn(len(avail))]}
			}
			if i == ny-1 && r.Chance(2, 3) {
				// the newest one shares a signer with the candidate
				common := signers[r.Intn(len(signers))]
				if !common.contract && common != s.NC && !containsAcct(ys, common) {
					ys = append(ys, common)
				}
			}
			y := s.newCand(r, ys, 0)
			y.tx.Attributes = conflictsNaming(r, o, tx.Hash(), -1)
			y.finish(0)
			b := w.addBlock(y.tx)
			oc := onChainConflict{index: b.Index}
			for _, a := range ys {
				oc.signers = append(oc.signers, a.hash)
			}
			history = append(history, oc)
			gap := r.Range(0, mtb+1)
			if i < ny-1 {
				gap = r.Range(0, mtb)
			}
			for j := 0; j < gap; j++ {
				w.addBlock()
			}
		}
		H := w.bc.BlockHeight()
		traceable := func(idx uint32) bool { return idx <= H && idx+uint32(mtb) > H }
		// the statement: named as a conflict by a traceable on-chain transaction of one of its signers
		named := false
		for _, oc := range history {
			if !traceable(oc.index) {
				continue
			}
			for _, h := range oc.signers {
				if tx.HasSigner(h) {
					named = true
				}
			}
		}
		o.Count(fmt.Sprintf("stub-multi:named=%v", named))
		if traceable(history[0].index) {
			o.Count("stub-multi:oldest-traceable")
		} else if traceable(history[len(history)-1].index) {
			o.Count("stub-multi:oldest-out-newest-in")
		} else {
			o.Count("stub-multi:all-out")
		}
		// the records as dao.StoreAsTransaction keeps them: newest index under the hash, newest per signer
		rec = recInfo{kind: "S", index: history[len(history)-1].index}
		latest := map[util.Uint160]uint32{}
		for _, oc := range history {
			for _, h := range oc.signers {
				if _, ok := latest[h]; !ok {
					rec.signers = append(rec.signers, h)
				}
				latest[h] = oc.index
			}
		}
		for _, h := range rec.signers {
			rec.signerIdx = append(rec.signerIdx, latest[h])
		}
		expect = "ok"
		if named {
			expect = "reject"
		}
	}
	if tx.ValidUntilBlock <= w.bc.BlockHeight() && expect == "ok" {
		expect = "reject"
	}

	// ---- run the real code --------------------------------------------------------------
	raw := tx.Bytes()
	verdict, decoded := submit(o, k, w, tx, inv)
	if verdict == "decode-error" {
		verdict = "err:malformed"
	}
	o.Count("verdict:" + verdict)
	if decoded != nil {
		// size: what the calculator predicted is the wire size (only when the witnesses are the standard ones)
		allGood := true
		for _, x := range c.wk {
			allGood = allGood && (x == witGood || x == witBadSig || x == witSwapped)
		}
		if allGood && inv != "dup-signers" && c.calcSz != len(raw) {
			o.Fail("calc-size", k, "%s: calculator size %d, wire size %d", inv, c.calcSz, len(raw))
		}
		if decoded.Size() != len(raw) {
			o.Fail("size-vs-wire", k, "%s: Size()=%d, %d bytes on the wire", inv, decoded.Size(), len(raw))
		}
		if af := w.bc.CalculateAttributesFee(decoded); af != c.attrFee {
			o.Fail("attr-fee", k, "%s: CalculateAttributesFee=%d, expected %d", inv, af, c.attrFee)
		}
		o.Line(c.admitLine(rec, onChain, poolInfo{}, len(raw)), verdict)
		needLine(o, w, decoded, verdict)
		// each standard witness on its own, with the gas that is left for it
		gas := tx.NetworkFee - c.need
		for i := range tx.Scripts {
			wt := tx.Scripts[i]
			if c.accts[i].contract && c.wk[i] == witGood && gas >= c.accts[i].cost && c.accts[i].returns {
				gas -= c.accts[i].cost
				continue
			}
			if len(wt.VerificationScript) == 0 || gas < 0 {
				break
			}
			used, err := w.bc.VerifyWitness(tx.Signers[i].Account, decoded, &decoded.Scripts[i], gas)
			obs := "fail"
			switch {
			case err == nil:
				obs = fmt.Sprintf("ok %d", used)
			case errors.Is(err, core.ErrInvalidSignature):
				obs = fmt.Sprintf("invsig %d", used)
			}
			tok := c.witToken(i)
			parts := strings.SplitN(tok, " ", 3)
			o.Line(fmt.Sprintf("vw %d %d %d %s %d %s", s.pol.base, w.bc.GetMaxVerificationGAS(), b2i(s.hf == "all"), parts[1], gas, parts[2]), obs)
			o.Count("vw:" + strings.SplitN(obs, " ", 2)[0])
			if err != nil {
				break
			}
			gas -= used
		}
	} else {
		o.Count("admit:not-decodable")
		o.Line(c.admitLine(rec, onChain, poolInfo{}, len(raw)), verdict)
	}

	// ---- the statement's oracle on the real code ------------------------------------------
	accepted := verdict == "ok"
	switch expect {
	case "ok":
		if !accepted {
			key := "valid-rejected"
			if delta == 0 {
				key = "threshold-reject-at-calc"
			}
			if inv == "noncanon" {
				// same shape as the pure stream's finding: scparser takes the script for a standard multisig
				// contract, fee.Calculate prices emit.Int(m)'s opcode, the VM the script's
				key = "calc-vs-vm-noncanonical-script"
			}
			o.Fail(key, k, "%s: a valid transaction with fee = calculator%+d was rejected: %s (signers %s)", inv, delta, verdict, acctNames(signers))
		}
	case "reject-fee":
		if accepted {
			o.Fail("threshold-accept-below-calc", k, "accepted with calculator-1 (signers %s)", acctNames(signers))
		} else if verdict != "err:small-netfee" && verdict != "err:witness" {
			o.Fail("threshold-wrong-class", k, "calculator-1 rejected as %s", verdict)
		}
	case "reject":
		if accepted {
			o.Fail("accepted-invalid:"+inv, k, "a transaction invalid in respect %q (%s) was accepted", inv, second)
		}
	}

	// pool: PoolTx agrees with VerifyTx, the pool holds exactly the accepted transaction, a second PoolTx is a duplicate.
	if decoded != nil {
		mp := w.bc.GetMemPool()
		before := mp.Count()
		pv := classify(w.bc.PoolTx(decoded))
		if pv != verdict {
			o.Fail("pooltx-vs-verifytx", k, "%s: VerifyTx %s, PoolTx %s", inv, verdict, pv)
		}
		if (pv == "ok") != mp.ContainsKey(decoded.Hash()) || mp.Count() != before+b2i(pv == "ok") {
			o.Fail("pool-content", k, "%s: PoolTx %s but pool count %d -> %d, contains=%v", inv, pv, before, mp.Count(), mp.ContainsKey(decoded.Hash()))
		}
		if pv == "ok" && (inv == "pool-dup" || r.Chance(1, 4)) {
			again, _ := transaction.NewTransactionFromBytes(raw)
			v2 := classify(w.bc.PoolTx(again))
			o.Line(c.admitLine(rec, onChain, poolInfo{dup: true}, len(raw)), v2)
			if v2 == "ok" {
				o.Fail("accepted-invalid:pool-dup", k, "the same transaction was pooled twice")
			}
		}
	}
	if decoded != nil && verdict == "ok" && w.bc.GetMemPool().ContainsKey(decoded.Hash()) && (inv == "stale" || inv == "stale-contract" || inv == "noncanon-vm" || r.Chance(1, 4)) {
		postState(o, k, r, c, decoded, len(raw), rec, onChain, inv, signers, "")
	}
	o.Seen(fmt.Sprintf("admit/%s/%s/%d/%d/%d/%s", inv, second, len(tx.Signers), len(tx.Attributes), len(raw), verdict))
	if k%50 == 0 {
		o.Sample(fmt.Sprintf("admit %s: signers %s attrs %d size %d fee %d (calc %d) -> %s", inv, acctNames(signers), len(tx.Attributes), len(raw), tx.NetworkFee, c.calc, verdict))
	}
}

// bulkUp gives every signer 16 witness rules of 16 script hashes each (~5.5 KB per signer).
func bulkUp(r *prng.R, tx *transaction.Transaction) {
	for i := range tx.Signers {
		sg := &tx.Signers[i]
		sg.Scopes = transaction.Rules
		sg.Rules = nil
		for j := 0; j < 16; j++ {
			var or transaction.ConditionOr
			for l := 0; l < 16; l++ {
				var h util.Uint160
				copy(h[:], r.Bytes(20))
				or = append(or, (*transaction.ConditionScriptHash)(&h))
			}
			sg.Rules = append(sg.Rules, transaction.WitnessRule{Action: transaction.WitnessAllow, Condition: &or})
		}
	}
}

func containsAcct(l []*acct, a *acct) bool { return indexAcct(l, a) >= 0 }

func indexAcct(l []*acct, a *acct) int {
	for i, x := range l {
		if x == a {
			return i
		}
	}
	return -1
}

func acctNames(l []*acct) string {
	var n []string
	for _, a := range l {
		if a.m > 0 {
			n = append(n, fmt.Sprintf("%s(%d/%d)", a.name, a.m, len(a.privs)))
		} else {
			n = append(n, a.name)
		}
	}
	return strings.Join(n, ",")
}

func dropAttr(as []transaction.Attribute, t transaction.AttrType) []transaction.Attribute {
	var res []transaction.Attribute
	for _, a := range as {
		if a.Type != t {
			res = append(res, a)
		}
	}
	return res
}


// postState: the candidate is pooled; the chain moves (blocks, a Policy change by the committee, an on-chain
// conflict) and the pool's filter IsTxStillRelevant is compared with the model's, VerifyTx on the new state with
// the model's admission. The statement's oracle: what the filter keeps must be admissible on the new state.
func postState(o *hx.Out, k int, r *prng.R, c *cand, decoded *transaction.Transaction, wireSize int, rec recInfo, onChain map[util.Uint256]bool, inv string, signers []*acct, forceMove string) {
	s := c.s
	w := s.w
	tx := c.tx
	faun := s.hf != "preFaun"
	moves := []string{"blocks", "execfee-up", "execfee-up", "execfee-down", "feeperbyte-up", "feeperbyte-down", "vubinc-down", "attrfee-up", "block-signer", "conflict-onchain", "expire"}
	mv := moves[r.Intn(len(moves))]
	if forceMove != "" {
		mv = forceMove
	} else if inv == "stale-contract" {
		mv = "attrfee-up"
	} else if inv == "stale" && len(signers) > 1 && r.Chance(1, 3) {
		mv = "conflict-onchain"
	}
	if inv == "noncanon-vm" {
		mv = []string{"execfee-up", "execfee-up", "blocks", "feeperbyte-up"}[r.Intn(4)]
	}
	var lastBlk []*transaction.Transaction // the transactions of the last block added
	conflictBySigner := false
	relpSeen, relpVal := false, false
	setPol := func(method string, args ...any) {
		lastBlk = w.addBlock(w.policyTx(method, args...)).Transactions
	}
	switch mv {
	case "blocks":
		for i := r.Range(1, 3); i > 0; i-- {
			lastBlk = w.addBlock().Transactions
		}
	case "execfee-up", "execfee-down":
		cur := s.pol.base
		var v int64
		if faun {
			steps := []int64{1, 1, 2, 17, cur / 100, cur / 3, cur}
			d := steps[r.Intn(len(steps))]
			if mv == "execfee-up" {
				v = min(cur+d, 100*10000)
			} else {
				v = max(cur-d, 1)
			}
			s.pol.base = v
		} else {
			f := cur / 10000
			if mv == "execfee-up" {
				f = min(f+int64(r.Range(1, 3)), 100)
			} else {
				f = max(f-int64(r.Range(1, 3)), 1)
			}
			v = f
			s.pol.base = f * 10000
		}
		setPol("setExecFeeFactor", v)
	case "feeperbyte-up":
		s.pol.feePerByte += []int64{1, 1, 7, int64(r.Range(1, 3000))}[r.Intn(4)]
		setPol("setFeePerByte", s.pol.feePerByte)
	case "feeperbyte-down":
		s.pol.feePerByte = max(s.pol.feePerByte-int64(r.Range(1, 500)), 0)
		setPol("setFeePerByte", s.pol.feePerByte)
	case "vubinc-down":
		h := w.bc.BlockHeight() + 1 // height after the policy block
		left := int64(tx.ValidUntilBlock) - int64(h)
		v := left + int64(r.Range(-2, 1)) // around the boundary VUB = height + increment
		v = max(v, 1)
		if v >= int64(w.bc.GetMaxTraceableBlocks()) {
			v = int64(w.bc.GetMaxTraceableBlocks()) - 1
		}
		setPol("setMaxValidUntilBlockIncrement", v)
	case "attrfee-up":
		// the fee of an attribute the transaction CARRIES goes up (every attribute type Policy prices and these chains use)
		var carried []transaction.AttrType
		for _, a := range tx.Attributes {
			if a.Type == transaction.HighPriority || a.Type == transaction.NotValidBeforeT || a.Type == transaction.ConflictsT {
				carried = append(carried, a.Type)
			}
		}
		t := transaction.ConflictsT
		if len(carried) > 0 {
			t = carried[r.Intn(len(carried))]
			o.Count(fmt.Sprintf("stale:attrfee-up:carried=%d", t))
		} else {
			o.Count("stale:attrfee-up:not-carried")
		}
		up := []int64{1, 1, int64(r.Range(1, 100000))}[r.Intn(3)]
		if inv == "stale-contract" {
			// around the point where the network fee stops covering size + attribute fees: what is left for the
			// witnesses now, divided by how often the raised fee is charged
			left := max(tx.NetworkFee-c.need, 0)
			mult := int64(0)
			for _, a := range tx.Attributes {
				if a.Type == t {
					mult++
				}
			}
			if t == transaction.ConflictsT {
				mult *= int64(len(tx.Signers))
			}
			mult = max(mult, 1)
			d := []int64{-1, 0, 1, 1, int64(r.Range(2, 5000)), -int64(r.Range(2, 5000))}[r.Intn(6)]
			up = max((left+d+mult-1)/mult, 1)
			o.Count(fmt.Sprintf("stale:attrfee-up:edge%+d", min(max(d, -2), 2)))
		}
		v := min(s.attrFeeOf(t)+up, 10_0000_0000)
		s.pol.attrFee[t] = v
		setPol("setAttributeFee", int64(t), v)
	case "block-signer":
		a := signers[r.Intn(len(signers))]
		if a != s.C || s.blockedC {
			mv = "blocks"
			lastBlk = w.addBlock().Transactions
			break
		}
		s.blockedC = true
		setPol("blockAccount", s.C.hash)
	case "conflict-onchain":
		// a transaction naming the candidate in a Conflicts attribute arrives in a block made elsewhere (never through
		// this node's pool), signed by: the candidate's sender, a co-signer only, both, or somebody who does not sign it
		ok := func(a *acct) bool {
			// the account pays for the conflicting transaction: it must be one of the funded ones
			return (a == s.A || a == s.B || a == s.C) && !(a == s.C && s.blockedC)
		}
		var senderA, coA, strangerA *acct
		if ok(signers[0]) {
			senderA = signers[0]
		}
		for _, a := range signers[1:] {
			if ok(a) && (coA == nil || r.Bool()) {
				coA = a
			}
		}
		for _, a := range []*acct{s.A, s.B, s.C} {
			if ok(a) && !containsAcct(signers, a) {
				strangerA = a
			}
		}
		var ys []*acct
		kinds := []string{"cosigner", "cosigner", "sender", "both", "stranger"}
		ck := kinds[r.Intn(len(kinds))]
		switch {
		case ck == "cosigner" && coA != nil:
			ys = []*acct{coA}
		case ck == "both" && coA != nil && senderA != nil:
			ys = []*acct{coA, senderA}
		case ck == "stranger" && strangerA != nil:
			ys = []*acct{strangerA}
		case senderA != nil:
			ck = "sender"
			ys = []*acct{senderA}
		case coA != nil:
			ck = "cosigner"
			ys = []*acct{coA}
		}
		if len(ys) == 0 || rec.kind != "N" {
			mv = "blocks"
			lastBlk = w.addBlock().Transactions
			break
		}
		o.Count("stale:conflict-signed-by=" + ck)
		conflictBySigner = ck != "stranger"
		y := s.newCand(r, ys, 0)
		y.tx.Attributes = conflictsNaming(r, o, tx.Hash(), -1)
		y.finish(0)
		b := w.addBlock(y.tx)
		lastBlk = b.Transactions
		rec = recInfo{kind: "S", index: b.Index}
		for _, a := range ys {
			rec.signers = append(rec.signers, a.hash)
		}
	case "expire":
		n := int(tx.ValidUntilBlock) - int(w.bc.BlockHeight())
		if n > 4 {
			mv = "blocks"
			n = 1
		}
		for i := 0; i < n+r.Intn(2)-1; i++ {
			lastBlk = w.addBlock().Transactions
		}
	}
	o.Count("stale:move=" + mv)
	rel := w.bc.IsTxStillRelevant(decoded, nil, false)
	line := c.admitLine(rec, onChain, poolInfo{}, wireSize)
	o.Line("relevant"+strings.TrimPrefix(line, "admit"), fmt.Sprintf("%d", b2i(rel)))
	// the same filter the way RemoveStale drives it: with the scratch pool of the last block instead of the ledger lookup
	{
		bp := mempool.New(len(lastBlk)+1, false, nil)
		var sb strings.Builder
		fmt.Fprintf(&sb, "relevantp %d", len(lastBlk))
		for i, y := range lastBlk {
			_ = bp.Add(y, w.bc)
			fmt.Fprintf(&sb, " %d %d %d %d", 1000+i, y.SystemFee, y.NetworkFee, len(y.Signers))
			for _, sg := range y.Signers {
				fmt.Fprintf(&sb, " %d", s.id(sg.Account))
			}
			cf := y.GetAttributes(transaction.ConflictsT)
			fmt.Fprintf(&sb, " %d", len(cf))
			for j, a := range cf {
				if a.Value.(*transaction.Conflicts).Hash == tx.Hash() {
					sb.WriteString(" 0")
				} else {
					fmt.Fprintf(&sb, " %d", 2000+10*i+j)
				}
			}
			sb.WriteString(" -")
		}
		if bp.Count() == len(lastBlk) {
			relp := w.bc.IsTxStillRelevant(decoded, bp, false)
			o.Line(sb.String()+strings.TrimPrefix(line, "admit"), fmt.Sprintf("%d", b2i(relp)))
			o.Count(fmt.Sprintf("stale:relevantp=%v", relp))
			relpSeen, relpVal = true, relp
		}
	}
	inPool := w.bc.GetMemPool().ContainsKey(decoded.Hash())
	v2 := classify(w.bc.VerifyTx(decoded))
	o.Line(line, v2)
	o.Count(fmt.Sprintf("stale:relevant=%v,verify=%s", rel, v2))
	if mv == "conflict-onchain" && conflictBySigner && v2 == "ok" {
		o.Fail("accepted-invalid:onchain-conflict-of-signer", k, "%s: VerifyTx accepts the transaction although an on-chain transaction of one of its signers names it in one of its Conflicts attributes", inv)
	}
	chainPart := v2 != "ok" && v2 != "err:insufficient-funds" && v2 != "err:pool-conflict"
	if rel && chainPart {
		key := "relevant-but-inadmissible"
		if containsAcct(signers, s.NC) && v2 == "err:witness" {
			// fee.Calculate, which the filter prices standard witnesses with, is below what the VM charges for this script
			key = "calc-vs-vm-noncanonical-script"
		}
		o.Fail(key, k, "%s after %s: IsTxStillRelevant keeps the transaction, VerifyTx says %s (signers %s, fee %d, calc %d)", inv, mv, v2, acctNames(signers), tx.NetworkFee, c.calc)
	}
	if relpSeen && relpVal && chainPart && !(containsAcct(signers, s.NC) && v2 == "err:witness") {
		// the statement on the form of the filter RemoveStale really runs
		o.Fail("relevant-but-inadmissible", k, "%s after %s: IsTxStillRelevant (with the block's pool) keeps the transaction, VerifyTx says %s (signers %s, fee %d, calc %d)", inv, mv, v2, acctNames(signers), tx.NetworkFee, c.calc)
	}
	if inPool && !rel && rec.kind != "S" {
		// RemoveStale runs the filter with the block's scratch pool instead of the DAO; without an on-chain conflict both agree
		o.Fail("pool-keeps-irrelevant-tx", k, "%s after %s: IsTxStillRelevant is false but the transaction is still pooled", inv, mv)
	}
	if inPool && chainPart && !(containsAcct(signers, s.NC) && v2 == "err:witness") {
		o.Fail("pool-holds-inadmissible-tx", k, "%s after %s: still pooled, VerifyTx says %s", inv, mv, v2)
	}
}

// needLine: needNetworkFee as the code computes it (int64: size * FeePerByte + CalculateAttributesFee) and whether
// the verdict is "network fee too small", whenever the checks before that one passed.
func needLine(o *hx.Out, w *world, t *transaction.Transaction, verdict string) {
	switch verdict {
	case "err:malformed", "err:policy-sysfee", "err:invalid-script", "err:expired", "err:not-yet-valid", "err:policy-blocked", "err:too-big", "panic":
		return
	}
	af := w.bc.CalculateAttributesFee(t)
	need := int64(t.Size())*w.bc.FeePerByte() + af
	o.Line(fmt.Sprintf("needm %d %d %d %d", t.Size(), w.bc.FeePerByte(), af, t.NetworkFee), fmt.Sprintf("%d %d", need, b2i(verdict == "err:small-netfee")))
}

// conflictsNaming builds the Conflicts attributes of an on-chain transaction: n of them (1..3 unless pos forces more),
// all naming random hashes except the one at position pos (0-based; -1 = random), which names h. dao.StoreAsTransaction
// has to write the per-signer records for every one of them, not only for the first.
func conflictsNaming(r *prng.R, o *hx.Out, h util.Uint256, pos int) []transaction.Attribute {
	n := r.Range(1, 3)
	if pos < 0 {
		pos = r.Intn(n)
	}
	n = max(n, pos+1)
	var as []transaction.Attribute
	for i := 0; i < n; i++ {
		x := h
		if i != pos {
			copy(x[:], r.Bytes(32))
		}
		as = append(as, transaction.Attribute{Type: transaction.ConflictsT, Value: &transaction.Conflicts{Hash: x}})
	}
	o.Count(fmt.Sprintf("onchain-conflicts:n=%d,pos=%d", n, pos))
	return as
}
