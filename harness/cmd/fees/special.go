package main

// Positive OracleResponse and NotaryAssisted transactions: the roles are designated by the committee, an oracle
// request is put on chain by a deployed contract, Notary deposits are made; then one valid transaction per case,
// or one that is invalid in exactly one respect.

import (
	"bytes"
	"fmt"
	"math/big"
	"strings"

	"github.com/nspcc-dev/neo-go/pkg/core"
	"github.com/nspcc-dev/neo-go/pkg/core/native"
	"github.com/nspcc-dev/neo-go/pkg/core/native/nativehashes"
	"github.com/nspcc-dev/neo-go/pkg/core/native/nativenames"
	"github.com/nspcc-dev/neo-go/pkg/core/native/noderoles"
	"github.com/nspcc-dev/neo-go/pkg/core/state"
	"github.com/nspcc-dev/neo-go/pkg/core/transaction"
	"github.com/nspcc-dev/neo-go/pkg/crypto/keys"
	"github.com/nspcc-dev/neo-go/pkg/io"
	"github.com/nspcc-dev/neo-go/pkg/neotest"
	"github.com/nspcc-dev/neo-go/pkg/smartcontract"
	"github.com/nspcc-dev/neo-go/pkg/smartcontract/callflag"
	"github.com/nspcc-dev/neo-go/pkg/smartcontract/manifest"
	"github.com/nspcc-dev/neo-go/pkg/smartcontract/nef"
	"github.com/nspcc-dev/neo-go/pkg/util"
	"github.com/nspcc-dev/neo-go/pkg/vm/emit"
	"github.com/nspcc-dev/neo-go/pkg/vm/opcode"

	"verif/harness/internal/hx"
	"verif/harness/internal/prng"
)

// what the special cases add to a scenario.
type specials struct {
	oracleNodes  *acct            // the designated oracle nodes' multisig account (Oracle.GetScriptHash)
	oracleScript []byte           // native.CreateOracleResponseScript
	requests     map[uint64]int64 // request id -> GasForResponse
	OA           *acct            // the native Oracle contract as a signer
	oracleDesignated bool
	notaryDesignated bool
	notaryKeys   []*keys.PrivateKey
	NA           *acct                  // the native Notary contract as a signer
	deposits     map[util.Uint160]int64 // Notary deposits made in the setup
}

func (s *scen) designate(role noderoles.Role, pubs keys.PublicKeys) {
	w := s.w
	var ks []any
	for _, p := range pubs {
		ks = append(ks, p.Bytes())
	}
	h := w.e.NativeHash(w.tb, nativenames.Designation)
	w.addBlock(w.e.CommitteeInvoker(h).PrepareInvoke(w.tb, "designateAsRole", int64(role), ks))
	// the designation takes effect with the next block
	w.addBlock()
}

// setupOracle designates oracle nodes, funds their account and puts nreq requests on chain.
func (s *scen) setupOracle(r *prng.R, designated bool, nreq int) {
	w := s.w
	sp := s.sp
	n := r.Range(1, 4)
	ks := pickKeys(r, n)
	sp.oracleNodes = multiAcct("oracle-nodes", smartcontract.GetDefaultHonestNodeCount(n), ks) // Designate.hashFromNodes
	oracleHash := w.e.NativeHash(w.tb, nativenames.Oracle)
	sp.oracleScript = native.CreateOracleResponseScript(oracleHash)
	sp.OA = &acct{contract: true, native: "oracle", returns: true, name: "Oracle", hash: oracleHash}
	w.addBlock(w.fundTx(sp.oracleNodes.hash, 100_0000_0000))
	if designated {
		s.designate(noderoles.Oracle, pubsOf(ks))
		sp.oracleDesignated = true
	}
	// a contract whose `req` method asks the oracle for a URL, GasForResponse fixed per request
	sp.requests = map[uint64]int64{}
	for i := 0; i < nreq; i++ {
		gas := []int64{native.MinimumResponseGas, 1000_0000, 2000_0000, int64(r.Range(native.MinimumResponseGas, 5000_0000))}[r.Intn(4)]
		bw := io.NewBufBinWriter()
		emit.AppCall(bw.BinWriter, oracleHash, "request", callflag.All, fmt.Sprintf("https://x/%d", i), nil, "handle", nil, gas)
		emit.Opcodes(bw.BinWriter, opcode.DROP, opcode.RET)
		off := bw.Len()
		emit.Opcodes(bw.BinWriter, opcode.RET)
		ne, err := nef.NewFile(bw.Bytes())
		if err != nil {
			panic(err)
		}
		name := fmt.Sprintf("requester-%d", i)
		m := manifest.DefaultManifest(name)
		m.ABI.Methods = []manifest.Method{
			{Name: "req", Offset: 0, Parameters: []manifest.Parameter{}, ReturnType: smartcontract.VoidType},
			{Name: "handle", Offset: off, Parameters: []manifest.Parameter{
				manifest.NewParameter("url", smartcontract.StringType), manifest.NewParameter("data", smartcontract.AnyType),
				manifest.NewParameter("code", smartcontract.IntegerType), manifest.NewParameter("res", smartcontract.ByteArrayType)},
				ReturnType: smartcontract.VoidType},
		}
		h := state.CreateContractHash(w.e.Validator.ScriptHash(), ne.Checksum, name)
		w.e.DeployContract(w.tb, &neotest.Contract{Hash: h, NEF: ne, Manifest: m}, nil)
		w.addBlock(w.e.ValidatorInvoker(h).PrepareInvoke(w.tb, "req"))
		sp.requests[uint64(i)] = gas
	}
}

// setupNotary designates a notary node and makes deposits.
func (s *scen) setupNotary(r *prng.R, designated bool, deposits map[*acct]int64) {
	w := s.w
	sp := s.sp
	sp.notaryKeys = pickKeys(r, r.Range(1, 3))
	sp.NA = &acct{contract: true, native: "notary", returns: true, name: "Notary", hash: nativehashes.Notary}
	s.accIDs[nativehashes.Notary] = idNotary
	if designated {
		s.designate(noderoles.P2PNotary, pubsOf(sp.notaryKeys))
		sp.notaryDesignated = true
	}
	sp.deposits = map[util.Uint160]int64{}
	for a, amount := range deposits {
		// GAS.transfer(a, Notary, amount, [null, till]) signed by a
		c := s.newCand(r, []*acct{a}, 0)
		bw := io.NewBufBinWriter()
		emit.AppCall(bw.BinWriter, w.gas, "transfer", callflag.All, a.hash, nativehashes.Notary, amount, []any{nil, int64(w.bc.BlockHeight() + 1000)})
		emit.Opcodes(bw.BinWriter, opcode.ASSERT)
		c.tx.Script = bw.Bytes()
		c.tx.Signers[0].Scopes = transaction.Global
		c.tx.SystemFee = 1_0000_0000
		c.tx.ValidUntilBlock = w.bc.BlockHeight() + 1
		c.finish(0)
		w.addBlock(c.tx)
		sp.deposits[a.hash] = amount
	}
}

var specialKinds = []string{
	"oracle-ok", "oracle-ok", "oracle-ok", "oracle-fee-1", "oracle-fee-1",
	"oracle-undesignated", "oracle-noreq", "oracle-scope", "oracle-script", "oracle-nosigner", "oracle-lowgas", "oracle-atgas", "oracle-dup-id",
	"notary-ok", "notary-ok", "notary-ok", "notary-sender", "notary-sender", "notary-fee-1", "notary-sender-fee-1",
	"notary-undesignated", "notary-badsig", "notary-scope", "notary-noattr", "notary-nodeposit", "notary-lowdeposit", "notary-atdeposit", "notary-3signers",
}

func specialCorpus() []func(o *hx.Out, k int, r *prng.R) {
	var c []func(o *hx.Out, k int, r *prng.R)
	seen := map[string]bool{}
	for _, inv := range specialKinds {
		if seen[inv] {
			continue
		}
		seen[inv] = true
		inv := inv
		c = append(c, func(o *hx.Out, k int, r *prng.R) { runSpecial(o, k, r, inv) })
	}
	return c
}

func runSpecial(o *hx.Out, k int, r *prng.R, inv string) {
	s := newScen(r, o, 0, inv)
	defer s.w.close()
	w := s.w
	o.Count("kind:special")
	o.Count("special:" + inv)
	sp := s.sp
	var c *cand
	delta := int64(0)
	expect := "ok"
	var signers []*acct
	pi := poolInfo{}

	switch {
	case strings.HasPrefix(inv, "oracle"):
		s.setupOracle(r, inv != "oracle-undesignated", 2)
		signers = []*acct{sp.oracleNodes}
		if r.Bool() {
			// the way the oracle service builds it: the native contract signs too (its `verify` looks for the attribute)
			signers = []*acct{sp.oracleNodes, sp.OA}
			if r.Bool() {
				signers = []*acct{sp.OA, sp.oracleNodes}
				// the sender pays: the native contract's account holds the GAS minted for the requests
			}
		}
		if inv == "oracle-nosigner" {
			signers[indexAcct(signers, sp.oracleNodes)] = s.B
		}
		c = s.newCand(r, signers, 0)
		c.tx.Script = bytes.Clone(sp.oracleScript)
		if inv == "oracle-script" {
			c.tx.Script = append(c.tx.Script, byte(opcode.NOP))
		}
		for i := range c.tx.Signers {
			c.tx.Signers[i].Scopes = transaction.None
		}
		if inv == "oracle-scope" {
			c.tx.Signers[r.Intn(len(c.tx.Signers))].Scopes = []transaction.WitnessScope{transaction.CalledByEntry, transaction.Global}[r.Intn(2)]
		}
		id := uint64(r.Intn(2))
		if inv == "oracle-noreq" {
			id = uint64(r.Range(2, 9))
		}
		c.tx.Attributes = []transaction.Attribute{{Type: transaction.OracleResponseT, Value: &transaction.OracleResponse{ID: id, Code: transaction.Success, Result: r.Bytes(r.Intn(20))}}}
		c.tx.SystemFee = 0
		if inv == "oracle-fee-1" {
			delta = -1
			expect = "reject-fee"
		}
		c.finish(delta)
		// SystemFee = GasForResponse - NetworkFee, as the oracle service sets it (never below zero)
		gas := sp.requests[id]
		sys := max(gas-c.tx.NetworkFee, 0) + []int64{0, 0, 1, int64(r.Range(0, 100_0000))}[r.Intn(4)]
		switch inv {
		case "oracle-atgas":
			sys = max(gas-c.tx.NetworkFee, 0)
		case "oracle-lowgas":
			sys = gas - c.tx.NetworkFee - 1 - int64(r.Intn(3))
			if sys < 0 {
				// the network fee alone covers the response gas: nothing is below it, the transaction is valid
				sys = 0
				inv = "oracle-ok"
				o.Count("special:oracle-lowgas->ok")
			}
		}
		c.tx.SystemFee = sys
		c.sign()
		switch inv {
		case "oracle-undesignated", "oracle-noreq", "oracle-scope", "oracle-script", "oracle-nosigner", "oracle-lowgas":
			expect = "reject"
		}
	default:
		designated := inv != "notary-undesignated"
		dep := map[*acct]int64{s.A: 50_0000_0000}
		if inv == "notary-lowdeposit" || inv == "notary-atdeposit" {
			w.addBlock(w.fundTx(s.D.hash, 40_0000_0000))
			dep[s.D] = 20_0000_0000
		}
		s.setupNotary(r, designated, dep)
		payer := s.A
		switch inv {
		case "notary-nodeposit":
			payer = s.B
		case "notary-lowdeposit", "notary-atdeposit":
			payer = s.D
		}
		senderIsNotary := strings.HasPrefix(inv, "notary-sender") || inv == "notary-nodeposit" || inv == "notary-lowdeposit" || inv == "notary-atdeposit" || inv == "notary-3signers" ||
			((inv == "notary-badsig" || inv == "notary-scope" || inv == "notary-undesignated") && r.Bool())
		if senderIsNotary {
			signers = []*acct{sp.NA, payer}
			if inv == "notary-3signers" {
				signers = append(signers, s.B)
			}
		} else {
			signers = []*acct{payer, sp.NA}
			if r.Chance(1, 3) {
				signers = []*acct{payer, s.B, sp.NA}
			}
		}
		c = s.newCand(r, signers, 0)
		ni := indexAcct(signers, sp.NA)
		c.tx.Signers[ni].Scopes = transaction.None
		if inv == "notary-scope" {
			c.tx.Signers[ni].Scopes = []transaction.WitnessScope{transaction.CalledByEntry, transaction.Global}[r.Intn(2)]
		}
		if inv != "notary-noattr" {
			nk := []int{0, 1, 2, 4, r.Intn(256)}[r.Intn(5)]
			if payer == s.D {
				nk = min(nk, 4) // the fees must stay below the deposit
			}
			c.tx.Attributes = append(c.tx.Attributes, transaction.Attribute{Type: transaction.NotaryAssistedT, Value: &transaction.NotaryAssisted{NKeys: uint8(nk)}})
		}
		if r.Chance(1, 4) {
			c.tx.Attributes = append(c.tx.Attributes, transaction.Attribute{Type: transaction.NotValidBeforeT, Value: &transaction.NotValidBefore{Height: w.bc.BlockHeight()}})
		}
		if inv == "notary-badsig" {
			c.notaryWrongKey = true
		}
		c.tx.SystemFee = int64(r.Range(0, 1000_0000))
		if inv == "notary-fee-1" || inv == "notary-sender-fee-1" {
			delta = -1
			expect = "reject-fee"
		}
		c.finish(delta)
		if inv == "notary-lowdeposit" || inv == "notary-atdeposit" {
			// Notary.verify compares the deposit with the fees: put the fees at the boundary
			d := sp.deposits[payer.hash]
			c.tx.SystemFee = d - c.tx.NetworkFee
			if inv == "notary-lowdeposit" {
				c.tx.SystemFee += 1 + int64(r.Intn(3))
			}
			if c.tx.SystemFee < 0 {
				panic(tbFail{"deposit below the network fee"})
			}
			c.sign()
		}
		switch inv {
		case "notary-undesignated", "notary-badsig", "notary-scope", "notary-noattr", "notary-nodeposit", "notary-lowdeposit", "notary-3signers":
			expect = "reject"
		}
	}
	tx := c.tx
	raw := tx.Bytes()
	verdict, decoded := submit(o, k, w, tx, inv)
	if verdict == "decode-error" {
		verdict = "err:malformed"
	}
	o.Count("verdict:" + verdict)
	o.Count("special:" + inv + ":" + verdict)
	if decoded == nil {
		o.Fail("special-undecodable", k, "%s: the transaction does not decode", inv)
		return
	}
	if c.calcSz != len(raw) {
		o.Fail("calc-size", k, "%s: calculator size %d, wire size %d", inv, c.calcSz, len(raw))
	}
	if af := w.bc.CalculateAttributesFee(decoded); af != c.attrFee {
		o.Fail("attr-fee", k, "%s: CalculateAttributesFee=%d, expected %d", inv, af, c.attrFee)
	}
	rec := recInfo{kind: "N"}
	onChain := map[util.Uint256]bool{}
	o.Line(c.admitLine(rec, onChain, pi, len(raw)), verdict)
	needLine(o, w, decoded, verdict)
	// the price of the native `verify` calls, derived by the model from the native method table and the opcode prices
	for i, a := range c.accts {
		if a.native != "" {
			name := map[string]string{"notary": "Notary", "oracle": "OracleContract"}[a.native]
			o.Line(fmt.Sprintf("nprice %d %s", s.pol.base, name), fmt.Sprintf("%d", c.nativeCost[i]))
			o.Count("special:nprice:" + name)
		}
	}

	accepted := verdict == "ok"
	switch expect {
	case "ok":
		if !accepted {
			key := "valid-rejected"
			if delta == 0 {
				key = "threshold-reject-at-calc"
			}
			o.Fail(key, k, "%s: a valid transaction with fee = calculator%+d was rejected: %s [%v] (signers %s)", inv, delta, verdict, w.bc.VerifyTx(decoded), acctNames(signers))
		}
	case "reject-fee":
		if accepted {
			o.Fail("threshold-accept-below-calc", k, "%s: accepted with calculator-1 (signers %s)", inv, acctNames(signers))
		} else if verdict != "err:small-netfee" && verdict != "err:witness" {
			o.Fail("threshold-wrong-class", k, "%s: calculator-1 rejected as %s", inv, verdict)
		}
	case "reject":
		if accepted {
			o.Fail("accepted-invalid:"+inv, k, "a transaction invalid in respect %q was accepted", inv)
		}
	}

	// the pool: PoolTx agrees with VerifyTx; a second response to the same request only replaces a cheaper one
	mp := w.bc.GetMemPool()
	pv := classify(w.bc.PoolTx(decoded))
	if pv != verdict {
		o.Fail("pooltx-vs-verifytx", k, "%s: VerifyTx %s, PoolTx %s", inv, verdict, pv)
	}
	if (pv == "ok") != mp.ContainsKey(decoded.Hash()) {
		o.Fail("pool-content", k, "%s: PoolTx %s, contains=%v", inv, pv, mp.ContainsKey(decoded.Hash()))
	}
	if inv == "oracle-dup-id" && pv == "ok" {
		first := decoded
		for round := 0; round < 2; round++ {
			c2 := s.newCand(r, signers, 0)
			c2.tx.Script = bytes.Clone(sp.oracleScript)
			for i := range c2.tx.Signers {
				c2.tx.Signers[i].Scopes = transaction.None
			}
			or := *tx.Attributes[0].Value.(*transaction.OracleResponse)
			or.Result = r.Bytes(len(or.Result)) // same size, other content
			c2.tx.Attributes = []transaction.Attribute{{Type: transaction.OracleResponseT, Value: &or}}
			// not cheaper / cheaper / more expensive than the pooled one
			d := []int64{0, 0, 1, int64(r.Range(1, 10000))}[r.Intn(4)]
			if round == 1 {
				d = int64(r.Range(1, 5000))
			}
			c2.tx.SystemFee = 0
			c2.finish(0)
			if round == 0 {
				c2.tx.NetworkFee = first.NetworkFee - d
				if c2.tx.NetworkFee < c2.calc {
					c2.tx.NetworkFee = first.NetworkFee // equal fee is "not more": rejected as well
				}
			} else {
				c2.tx.NetworkFee = first.NetworkFee + d
			}
			c2.tx.SystemFee = max(sp.requests[or.ID]-c2.tx.NetworkFee, 0)
			c2.sign()
			raw2 := c2.tx.Bytes()
			t2, err := transaction.NewTransactionFromBytes(raw2)
			if err != nil {
				panic(err)
			}
			pooledFees := first.SystemFee + first.NetworkFee
			v2 := classify(w.bc.PoolTx(t2))
			p2 := poolInfo{feeSum: pooledFees, oracleErr: t2.NetworkFee <= first.NetworkFee}
			o.Line(c2.admitLine(rec, onChain, p2, len(raw2)), v2)
			o.Count("special:oracle-dup-id:second:" + v2)
			if p2.oracleErr && v2 == "ok" {
				o.Fail("accepted-invalid:oracle-dup-id", k, "a second response to request %d with network fee %d <= %d of the pooled one was accepted", or.ID, t2.NetworkFee, first.NetworkFee)
			}
			if !p2.oracleErr && v2 != "ok" && v2 != "err:pool-conflict" && v2 != "err:insufficient-funds" {
				o.Fail("valid-rejected", k, "oracle-dup-id: a better paying response was rejected: %s", v2)
			}
			if v2 == "ok" {
				if mp.ContainsKey(first.Hash()) {
					o.Fail("pool-two-responses", k, "two responses to request %d are pooled", or.ID)
				}
				first = t2
			}
		}
	}
	if pv == "ok" && (inv == "notary-ok" || inv == "notary-sender" || inv == "notary-atdeposit") && r.Bool() {
		// a Conflicts(tx) transaction of the payer / a co-signer lands on chain in a foreign block
		postState(o, k, r, c, decoded, len(raw), rec, onChain, inv, signers, "conflict-onchain")
	}
	o.Seen(fmt.Sprintf("special/%s/%d/%d/%d/%s", inv, len(tx.Signers), len(tx.Attributes), len(raw), verdict))
	if k%20 == 0 {
		o.Sample(fmt.Sprintf("special %s: signers %s size %d sysfee %d netfee %d (calc %d) -> %s", inv, acctNames(signers), len(raw), tx.SystemFee, tx.NetworkFee, c.calc, verdict))
	}
}

// nativeWitness builds the witness of a native contract signer and observes what its `verify` costs and returns.
func (c *cand) nativeWitness(i int) (transaction.Witness, int64, bool) {
	a := c.accts[i]
	s := c.s
	wit := transaction.Witness{InvocationScript: []byte{}, VerificationScript: []byte{}}
	if a.native == "notary" {
		key := keyPool[900]
		if len(s.sp.notaryKeys) > 0 {
			key = s.sp.notaryKeys[len(s.sp.notaryKeys)-1]
		}
		if c.notaryWrongKey {
			key = keyPool[901]
		}
		sig := key.SignHashable(uint32(s.w.magic), c.tx)
		wit.InvocationScript = append([]byte{byte(opcode.PUSHDATA1), keys.SignatureLen}, sig...)
	}
	used, err := s.w.bc.VerifyWitness(a.hash, c.tx, &wit, 1<<40)
	ok := err == nil
	if err != nil && !strings.Contains(err.Error(), core.ErrInvalidSignature.Error()) {
		panic(tbFail{fmt.Sprintf("native witness of %s: %v", a.name, err)})
	}
	return wit, used, ok
}

func depositOf(bc *core.Blockchain, payer util.Uint160) *big.Int {
	return bc.GetUtilityTokenBalance(nativehashes.Notary, payer)
}
