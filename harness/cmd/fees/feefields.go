package main

// The sign and overflow checks of SystemFee / NetworkFee: the two 64-bit words of a valid transaction's wire form
// are overwritten and the bytes are given to every decoder.

import (
	"encoding/binary"
	"encoding/json"
	"errors"
	"fmt"
	"math/big"
	"strings"

	"github.com/nspcc-dev/neo-go/pkg/core/transaction"
	"github.com/nspcc-dev/neo-go/pkg/io"
	"github.com/nspcc-dev/neo-go/pkg/vm/opcode"

	"verif/harness/internal/hx"
	"verif/harness/internal/prng"
)

func classifyFeeErr(err error) string {
	switch {
	case err == nil:
		return "ok"
	case errors.Is(err, transaction.ErrNegativeSystemFee):
		return "neg-sys"
	case errors.Is(err, transaction.ErrNegativeNetworkFee):
		return "neg-net"
	case errors.Is(err, transaction.ErrTooBigFees):
		return "too-big"
	}
	return "other:" + err.Error()
}

func feeWord(r *prng.R) uint64 {
	marks := []uint64{0, 1, 1 << 62, 1<<63 - 1, 1 << 63, 1<<63 + 1, 1<<64 - 1}
	switch r.Intn(4) {
	case 0:
		return marks[r.Intn(len(marks))]
	case 1:
		return marks[r.Intn(len(marks))] + uint64(r.Intn(5)) - 2
	case 2:
		return r.U64() >> uint(r.Intn(64))
	}
	return r.U64()
}

func doFeeFields(o *hx.Out, k int, r *prng.R) {
	o.Count("kind:feefields")
	p := keyPool[r.Intn(len(keyPool))]
	a := singleAcct("F", p)
	tx := transaction.New([]byte{byte(opcode.PUSH1)}, 0)
	tx.Nonce = uint32(r.U64())
	tx.ValidUntilBlock = 100
	tx.Signers = []transaction.Signer{{Account: a.hash, Scopes: transaction.CalledByEntry}}
	tx.Scripts = []transaction.Witness{{InvocationScript: invocation([][]byte{r.Bytes(64)}), VerificationScript: a.script}}
	raw := tx.Bytes()
	for i := 0; i < 6; i++ {
		su, nu := feeWord(r), feeWord(r)
		switch r.Intn(5) {
		case 0:
			// the sum right at the int64 boundary
			su = uint64(r.U64() >> 1)
			nu = 1<<63 - 1 - su + uint64(r.Intn(3)) - 1
		case 1:
			su = 0
		}
		b := append([]byte{}, raw...)
		binary.LittleEndian.PutUint64(b[5:], su)
		binary.LittleEndian.PutUint64(b[13:], nu)
		_, e1 := transaction.NewTransactionFromBytes(b)
		t2 := &transaction.Transaction{}
		br := io.NewBinReaderFromBuf(b)
		t2.DecodeBinary(br)
		v1, v2 := classifyFeeErr(e1), classifyFeeErr(br.Err)
		// JSON carries the fees as decimal int64 strings
		tj := tx.Copy()
		tj.SystemFee, tj.NetworkFee = int64(su), int64(nu)
		j, err := json.Marshal(tj)
		if err != nil {
			panic(err)
		}
		t3 := &transaction.Transaction{}
		v3 := classifyFeeErr(json.Unmarshal(j, t3))
		o.Line(fmt.Sprintf("feesvalid %d %d", su, nu), v1)
		o.Count("feefields:" + strings.SplitN(v1, ":", 2)[0])
		if v2 != v1 || v3 != v1 {
			o.Fail("encoding-verdict-differs", k, "fee words %d %d: NewTransactionFromBytes %s, DecodeBinary %s, JSON %s", su, nu, v1, v2, v3)
		}
		// the statement's oracle: what decodes has non-negative fees whose sum does not overflow
		if v1 == "ok" {
			sum := new(big.Int).Add(new(big.Int).SetUint64(su), new(big.Int).SetUint64(nu))
			if su >= 1<<63 || nu >= 1<<63 || sum.Cmp(new(big.Int).Lsh(big.NewInt(1), 63)) >= 0 {
				o.Fail("fee-field-accepted", k, "a transaction with fee words %d %d decodes", su, nu)
			}
		}
		o.Seen(fmt.Sprintf("feefields/%s/%d/%d", v1, su>>60, nu>>60))
	}
}
