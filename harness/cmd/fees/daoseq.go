package main

// What dao.StoreAsTransaction / StoreAsBlock write and dao.HasTransaction reads, on a bare DAO: sequences of stored
// transactions with Conflicts attributes (several naming the same hash, in different blocks, signed by overlapping
// sets of accounts; naming a stored block; naming a stored transaction), then HasTransaction queries for every hash
// with various signer sets around the edge of the traceability window.

import (
	"errors"
	"fmt"
	"strings"

	"github.com/nspcc-dev/neo-go/pkg/core/block"
	"github.com/nspcc-dev/neo-go/pkg/core/dao"
	"github.com/nspcc-dev/neo-go/pkg/core/storage"
	"github.com/nspcc-dev/neo-go/pkg/core/transaction"
	"github.com/nspcc-dev/neo-go/pkg/util"
	"github.com/nspcc-dev/neo-go/pkg/vm/opcode"

	"verif/harness/internal/hx"
	"verif/harness/internal/prng"
)

func doDaoSeq(o *hx.Out, k int, r *prng.R) {
	o.Count("kind:daoseq")
	d := dao.NewSimple(storage.NewMemoryStore(), false)
	mtb := uint32(r.Range(1, 6))
	nacc := r.Range(2, 5)
	accs := make([]util.Uint160, nacc)
	for i := range accs {
		copy(accs[i][:], r.Bytes(20))
	}
	// hashes that can be named: victims (never stored as a transaction), stored blocks, stored transactions
	ids := map[util.Uint256]int{}
	id := func(h util.Uint256) int {
		if v, ok := ids[h]; ok {
			return v
		}
		ids[h] = len(ids) + 1
		return ids[h]
	}
	var nameable []util.Uint256
	pureVictim := map[util.Uint256]bool{} // hashes that are never stored as a transaction or block
	for i := r.Range(1, 3); i > 0; i-- {
		var h util.Uint256
		copy(h[:], r.Bytes(32))
		nameable = append(nameable, h)
		pureVictim[h] = true
	}
	var ops []string
	// the harness's own record of what it put on chain: victim hash -> (index, signers) of the transactions naming it
	type naming struct {
		index   uint32
		signers []util.Uint160
	}
	history := map[util.Uint256][]naming{}
	if r.Chance(1, 2) {
		b := &block.Block{}
		b.Index = uint32(r.Range(1, 1000))
		b.Nonce = r.U64()
		if err := d.StoreAsBlock(b, nil, nil); err != nil {
			panic(err)
		}
		nameable = append(nameable, b.Hash())
		ops = append(ops, fmt.Sprintf("B %d", id(b.Hash())))
		o.Count("daoseq:block")
	}
	index := uint32(r.Range(1, 4))
	top := index
	nops := r.Range(1, 7)
	for i := 0; i < nops; i++ {
		tx := transaction.New([]byte{byte(opcode.PUSH1)}, 0)
		tx.Nonce = uint32(r.U64())
		ns := r.Range(1, min(3, nacc))
		perm := r.Intn(nacc)
		for j := 0; j < ns; j++ {
			tx.Signers = append(tx.Signers, transaction.Signer{Account: accs[(perm+j)%nacc]})
		}
		tx.Scripts = make([]transaction.Witness, ns)
		nc := r.Intn(4)
		seen := map[util.Uint256]bool{}
		for j := 0; j < nc; j++ {
			h := nameable[r.Intn(len(nameable))]
			if seen[h] {
				continue
			}
			seen[h] = true
			tx.Attributes = append(tx.Attributes, transaction.Attribute{Type: transaction.ConflictsT, Value: &transaction.Conflicts{Hash: h}})
		}
		if err := d.StoreAsTransaction(tx, index, nil); err != nil {
			panic(err)
		}
		for _, a := range tx.GetAttributes(transaction.ConflictsT) {
			var sg []util.Uint160
			for _, x := range tx.Signers {
				sg = append(sg, x.Account)
			}
			h := a.Value.(*transaction.Conflicts).Hash
			history[h] = append(history[h], naming{index, sg})
		}
		o.Count(fmt.Sprintf("daoseq:conflicts-per-tx=%d", len(tx.GetAttributes(transaction.ConflictsT))))
		var sb strings.Builder
		fmt.Fprintf(&sb, "T %d %d %d", id(tx.Hash()), index, len(tx.Signers))
		for _, s := range tx.Signers {
			fmt.Fprintf(&sb, " %d", idxOf(accs, s.Account))
		}
		cf := tx.GetAttributes(transaction.ConflictsT)
		fmt.Fprintf(&sb, " %d", len(cf))
		for _, a := range cf {
			fmt.Fprintf(&sb, " %d", id(a.Value.(*transaction.Conflicts).Hash))
		}
		ops = append(ops, sb.String())
		// a stored transaction can be named by later ones (its record is then overwritten by a stub)
		if r.Chance(1, 3) {
			nameable = append(nameable, tx.Hash())
			o.Count("daoseq:tx-nameable")
		}
		top = index
		index += uint32(r.Intn(3))
	}
	// queries
	var qs, obs []string
	var hs []util.Uint256
	for h := range ids {
		hs = append(hs, h)
	}
	// deterministic order
	for i := range hs {
		for j := i + 1; j < len(hs); j++ {
			if ids[hs[j]] < ids[hs[i]] {
				hs[i], hs[j] = hs[j], hs[i]
			}
		}
	}
	for _, h := range hs {
		for q := 0; q < 3; q++ {
			height := top + uint32(r.Range(0, int(mtb)+2))
			if r.Chance(1, 6) && top > 0 {
				height = top - 1
			}
			var sg []transaction.Signer
			var sb strings.Builder
			ns := r.Intn(nacc + 1)
			start := r.Intn(nacc)
			fmt.Fprintf(&sb, "%d %d %d", id(h), height, ns)
			for j := 0; j < ns; j++ {
				a := accs[(start+j)%nacc]
				sg = append(sg, transaction.Signer{Account: a})
				fmt.Fprintf(&sb, " %d", idxOf(accs, a))
			}
			err := d.HasTransaction(h, sg, height, mtb)
			v := "none"
			switch {
			case errors.Is(err, dao.ErrAlreadyExists):
				v = "exists"
			case errors.Is(err, dao.ErrHasConflicts):
				v = "conflicts"
			case err != nil:
				v = "other"
			}
			o.Count("daoseq:query:" + v)
			// the statement's clause on the real store: a hash is refused iff an on-chain transaction inside the
			// traceability window names it and shares a signer with the asking transaction
			if pureVictim[h] && len(sg) > 0 && height >= top {
				named := false
				for _, nm := range history[h] {
					if nm.index <= height && nm.index+mtb > height {
						for _, a := range nm.signers {
							for _, b := range sg {
								named = named || a == b.Account
							}
						}
					}
				}
				if named && v != "conflicts" {
					o.Fail("dao-misses-conflict-of-signer", k, "hash %d is named by a traceable stored transaction sharing a signer with the query (height %d, mtb %d), HasTransaction says %s; ops: %s", id(h), height, mtb, v, strings.Join(ops, " | "))
				}
				if !named && v == "conflicts" {
					o.Fail("dao-reports-conflict-without-signer", k, "hash %d: HasTransaction says conflicts at height %d (mtb %d) although no traceable stored transaction naming it shares a signer; ops: %s", id(h), height, mtb, strings.Join(ops, " | "))
				}
				o.Count(fmt.Sprintf("daoseq:oracle:named=%v", named))
			}
			qs = append(qs, sb.String())
			obs = append(obs, v)
		}
	}
	o.Line(fmt.Sprintf("daoseq %d %d %s %d %s", mtb, len(ops), strings.Join(ops, " "), len(qs), strings.Join(qs, " ")), strings.Join(obs, ","))
	o.Seen(fmt.Sprintf("daoseq/%d/%d/%d", mtb, len(ops), len(qs)))
}

func idxOf(accs []util.Uint160, a util.Uint160) int {
	for i, x := range accs {
		if x == a {
			return 100 + i
		}
	}
	return 0
}
