// Command fees: correspondence + oracle streams for C07 (admission is sound and fee-exact;
// pool contents form proposable blocks).
//
//	-part fees      builders / fee.Calculate / witness cost on the real VM / admission on a neotest chain
//	-part proposal  mempool -> ApplyPolicyToTxSet -> block -> wire round trip -> AddBlock on a replica
package main

import (
	"flag"
	"fmt"
	"os"

	"verif/harness/internal/hx"
	"verif/harness/internal/prng"
)

func main() {
	part := flag.String("part", "fees", "fees|proposal")
	f := hx.ParseFlags()
	o := hx.NewOut(f.Out)
	defer o.Close()
	initKeys(1100)
	switch *part {
	case "fees":
		runFees(f, o)
	case "proposal":
		runProposal(f, o)
	default:
		fmt.Fprintln(os.Stderr, "unknown part", *part)
		os.Exit(2)
	}
	if pureW != nil {
		pureW.close()
	}
}

// guarded runs one case body; a harness-side failure (setup that did not work) is reported on stderr
// and makes the process exit non-zero at the end, it is never an observation.
var harnessErrors int

func guarded(k int, body func()) {
	defer func() {
		if r := recover(); r != nil {
			harnessErrors++
			fmt.Fprintf(os.Stderr, "case %d: harness failure: %v\n", k, r)
		}
	}()
	body()
}

const nExhaustive = 136 // pairs 1 <= m <= n <= 16

func exhaustivePair(k int) (m, n int) {
	for n = 1; n <= 16; n++ {
		if k < n {
			return k + 1, n
		}
		k -= n
	}
	panic("index")
}

func runFees(f *hx.Flags, o *hx.Out) {
	corpus := feesCorpus()
	nRandom := f.N(1400, 24000)
	total := nExhaustive + len(corpus) + nRandom
	for k := 0; k < total; k++ {
		if !f.Want(k) {
			continue
		}
		r := prng.ForCase(f.Seed, k)
		o.Case(k)
		guarded(k, func() {
			switch {
			case k < nExhaustive:
				m, n := exhaustivePair(k)
				doMultisig(o, k, r, m, keyPool[k:k+n])
			case k < nExhaustive+len(corpus):
				corpus[k-nExhaustive](o, k, r)
			default:
				randomFeesCase(f, o, k, r)
			}
		})
	}
	if harnessErrors > 0 {
		o.Close()
		os.Exit(3)
	}
}

func randomFeesCase(f *hx.Flags, o *hx.Out, k int, r *prng.R) {
	thorough := f.Tier == "thorough"
	switch r.Weighted([]int{6, 4, 10, 12, 52, 12, 2, 2}) {
	case 0: // emit.Int / emit.Bytes
		for i := 0; i < 4; i++ {
			var v int64
			switch r.Intn(3) {
			case 0:
				b := boundaryInts()
				v = b[r.Intn(len(b))] + int64(r.Intn(3)) - 1
				if v < 0 {
					v = 0
				}
			case 1:
				v = int64(r.U64() >> uint(1+r.Intn(63)))
			default:
				v = int64(r.Intn(2000))
			}
			doEmitInt(o, v)
		}
		lens := []int{0, 1, 33, 64, 255, 256, 257, 300}
		doEmitBytes(o, r.Bytes(lens[r.Intn(len(lens))]))
	case 1:
		doSig(o, k, r, keyPool[r.Intn(len(keyPool))])
	case 2: // m-of-n beyond 16
		var n int
		switch r.Intn(6) {
		case 0:
			n = r.Range(17, 40)
		case 1:
			n = r.Range(120, 135)
		case 2:
			n = r.Range(1, 29)
		case 3:
			if thorough {
				n = r.Range(1000, 1024)
			} else {
				n = r.Range(40, 160)
			}
		default:
			if thorough {
				n = r.Range(1, 1024)
			} else {
				n = r.Range(1, 200)
			}
		}
		m := r.Range(1, n)
		switch r.Intn(8) {
		case 0:
			m = n
		case 1:
			m = 1
		case 2:
			m = r.Range(0, n+1) // builder error cases included
		}
		doMultisig(o, k, r, m, pickKeys(r, n))
	case 3:
		n := r.Range(1, 20)
		m := r.Range(1, n)
		doVariant(o, k, r, m, pickKeys(r, n), r.Intn(7), r.Intn(7), variantMuts[r.Intn(len(variantMuts))])
	case 4:
		admitCase(f, o, k, r)
	case 5:
		runSpecial(o, k, r, specialKinds[r.Intn(len(specialKinds))])
	case 6:
		doFeeFields(o, k, r)
	default:
		for i := 0; i < 4; i++ {
			doDaoSeq(o, k, r)
		}
	}
}

func feesCorpus() []func(o *hx.Out, k int, r *prng.R) {
	var c []func(o *hx.Out, k int, r *prng.R)
	c = append(c, func(o *hx.Out, k int, r *prng.R) {
		for _, v := range boundaryInts() {
			doEmitInt(o, v)
		}
	})
	c = append(c, func(o *hx.Out, k int, r *prng.R) { doSig(o, k, r, keyPool[0]) })
	// boundaries of emit.Int(n): 16/17 (PUSH16 -> PUSHINT8), 127/128 (PUSHINT8 -> PUSHINT16), the maximum 1024,
	// and the evaluation stack limit m+n+2 = 2048.
	for _, mn := range [][2]int{{1, 17}, {17, 17}, {16, 127}, {127, 127}, {1, 128}, {128, 128}, {3, 152}, {3, 153}, {3, 200}, {1, 1024}, {1022, 1024}, {1023, 1023}, {1023, 1024}, {1024, 1024}} {
		mn := mn
		c = append(c, func(o *hx.Out, k int, r *prng.R) { doMultisig(o, k, r, mn[0], keyPool[:mn[1]]) })
	}
	// builder errors
	for _, mn := range [][2]int{{0, 3}, {4, 3}, {1025, 1030}} {
		mn := mn
		c = append(c, func(o *hx.Out, k int, r *prng.R) { doMultisig(o, k, r, mn[0], keyPool[:mn[1]]) })
	}
	// every non-minimal integer form for m and for n
	for form := 1; form <= 6; form++ {
		form := form
		c = append(c, func(o *hx.Out, k int, r *prng.R) { doVariant(o, k, r, 2, keyPool[:3], form, 0, "none") })
		c = append(c, func(o *hx.Out, k int, r *prng.R) { doVariant(o, k, r, 2, keyPool[:3], 0, form, "none") })
	}
	for _, mut := range variantMuts[3:] {
		mut := mut
		c = append(c, func(o *hx.Out, k int, r *prng.R) { doVariant(o, k, r, 2, keyPool[:3], 0, 0, mut) })
	}
	c = append(c, func(o *hx.Out, k int, r *prng.R) { doFeeFields(o, k, r) })
	c = append(c, func(o *hx.Out, k int, r *prng.R) {
		for i := 0; i < 20; i++ {
			doDaoSeq(o, k, r)
		}
	})
	c = append(c, admitCorpus()...)
	c = append(c, specialCorpus()...)
	return c
}
