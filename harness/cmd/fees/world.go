package main

import (
	"bytes"
	"fmt"
	"slices"

	"github.com/nspcc-dev/neo-go/pkg/config"
	"github.com/nspcc-dev/neo-go/pkg/config/netmode"
	"github.com/nspcc-dev/neo-go/pkg/core"
	"github.com/nspcc-dev/neo-go/pkg/core/block"
	"github.com/nspcc-dev/neo-go/pkg/core/native/nativenames"
	"github.com/nspcc-dev/neo-go/pkg/core/state"
	"github.com/nspcc-dev/neo-go/pkg/core/transaction"
	"github.com/nspcc-dev/neo-go/pkg/crypto/hash"
	"github.com/nspcc-dev/neo-go/pkg/crypto/keys"
	"github.com/nspcc-dev/neo-go/pkg/io"
	"github.com/nspcc-dev/neo-go/pkg/neotest"
	"github.com/nspcc-dev/neo-go/pkg/neotest/chain"
	"github.com/nspcc-dev/neo-go/pkg/smartcontract"
	"github.com/nspcc-dev/neo-go/pkg/smartcontract/callflag"
	"github.com/nspcc-dev/neo-go/pkg/smartcontract/manifest"
	"github.com/nspcc-dev/neo-go/pkg/smartcontract/nef"
	"github.com/nspcc-dev/neo-go/pkg/smartcontract/trigger"
	"github.com/nspcc-dev/neo-go/pkg/util"
	"github.com/nspcc-dev/neo-go/pkg/vm/emit"
	"github.com/nspcc-dev/neo-go/pkg/vm/opcode"
	"github.com/nspcc-dev/neo-go/pkg/vm/vmstate"
	"go.uber.org/zap"

	"verif/harness/internal/prng"
)

// ---- keys -----------------------------------------------------------------

// keyPool is a fixed, deterministic set of key pairs (independent of the run seed), sorted by
// public key, so that any sub-slice is in the order CreateMultiSigRedeemScript emits.
var keyPool []*keys.PrivateKey

func initKeys(n int) {
	r := prng.New(0x6b657973)
	for len(keyPool) < n {
		p, err := keys.NewPrivateKeyFromBytes(r.Bytes(32))
		if err != nil {
			continue
		}
		keyPool = append(keyPool, p)
	}
	slices.SortFunc(keyPool, func(a, b *keys.PrivateKey) int { return a.PublicKey().Cmp(b.PublicKey()) })
}

// pickKeys returns n distinct keys of the pool in public-key order.
func pickKeys(r *prng.R, n int) []*keys.PrivateKey {
	if n > len(keyPool) {
		panic("key pool too small")
	}
	// choose n indices without replacement, keep them sorted.
	idx := make([]int, 0, n)
	if n*2 > len(keyPool) {
		// drop len-n
		drop := map[int]bool{}
		for len(drop) < len(keyPool)-n {
			drop[r.Intn(len(keyPool))] = true
		}
		for i := range keyPool {
			if !drop[i] {
				idx = append(idx, i)
			}
		}
	} else {
		seen := map[int]bool{}
		for len(seen) < n {
			seen[r.Intn(len(keyPool))] = true
		}
		for i := range keyPool {
			if seen[i] {
				idx = append(idx, i)
			}
		}
	}
	res := make([]*keys.PrivateKey, n)
	for i, j := range idx {
		res[i] = keyPool[j]
	}
	return res
}

func pubsOf(ps []*keys.PrivateKey) keys.PublicKeys {
	res := make(keys.PublicKeys, len(ps))
	for i, p := range ps {
		res[i] = p.PublicKey()
	}
	return res
}

func pubBytes(ps []*keys.PrivateKey) []byte {
	var b []byte
	for _, p := range ps {
		b = append(b, p.PublicKey().Bytes()...)
	}
	return b
}

// ---- accounts -------------------------------------------------------------

// acct is a standard account the harness holds the keys of: single signature (m == 0) or m-of-n.
type acct struct {
	contract bool  // a deployed contract with a `verify` method (no keys)
	native   string // "notary" | "oracle": a native contract as signer
	cost     int64 // contract: datoshi its verification consumes (observed with plenty of gas)
	returns  bool  // contract: what `verify` returns
	name     string
	privs  []*keys.PrivateKey // public-key order
	m      int
	script []byte
	hash   util.Uint160
}

func singleAcct(name string, p *keys.PrivateKey) *acct {
	s := p.PublicKey().GetVerificationScript()
	return &acct{name: name, privs: []*keys.PrivateKey{p}, script: s, hash: hash.Hash160(s)}
}

func multiAcct(name string, m int, ps []*keys.PrivateKey) *acct {
	s, err := smartcontract.CreateMultiSigRedeemScript(m, pubsOf(ps))
	if err != nil {
		panic(err)
	}
	return &acct{name: name, privs: ps, m: m, script: s, hash: hash.Hash160(s)}
}

// deployVerifier deploys a hand-assembled contract whose `verify()` runs `nops` NOPs and returns `ret`.
func (w *world) deployVerifier(name string, nops int, ret bool) *acct {
	var script []byte
	for i := 0; i < nops; i++ {
		script = append(script, byte(opcode.NOP))
	}
	if ret {
		script = append(script, byte(opcode.PUSHT))
	} else {
		script = append(script, byte(opcode.PUSHF))
	}
	script = append(script, byte(opcode.RET))
	ne, err := nef.NewFile(script)
	if err != nil {
		panic(err)
	}
	m := manifest.NewManifest(name)
	m.ABI.Methods = []manifest.Method{{Name: manifest.MethodVerify, Offset: 0, Parameters: []manifest.Parameter{}, ReturnType: smartcontract.BoolType, Safe: true}}
	h := state.CreateContractHash(w.e.Validator.ScriptHash(), ne.Checksum, name)
	w.e.DeployContract(w.tb, &neotest.Contract{Hash: h, NEF: ne, Manifest: m}, nil)
	return &acct{contract: true, returns: ret, name: name, hash: h}
}

// ledgerGuard makes an account whose inline (non-standard) verification script reads chain state:
// it is true while Ledger.currentIndex() < k. Its cost is observed on the real VM.
func (w *world) ledgerGuard(k uint32) *acct {
	bw := io.NewBufBinWriter()
	emit.AppCall(bw.BinWriter, w.e.NativeHash(w.tb, nativenames.Ledger), "currentIndex", callflag.ReadStates)
	emit.Int(bw.BinWriter, int64(k))
	emit.Opcodes(bw.BinWriter, opcode.LT)
	script := bw.Bytes()
	a := &acct{contract: true, returns: true, name: fmt.Sprintf("guard<%d", k), script: script, hash: hash.Hash160(script)}
	used, err := w.bc.VerifyWitness(a.hash, dummyTx(a.hash), &transaction.Witness{InvocationScript: []byte{}, VerificationScript: script}, 1<<40)
	if err != nil {
		panic(tbFail{fmt.Sprintf("ledger guard does not verify: %v", err)})
	}
	a.cost = used
	return a
}

func pushData1(b []byte) []byte {
	return append([]byte{byte(opcode.PUSHDATA1), byte(len(b))}, b...)
}

// sigs returns the signatures of the chosen keys (indices into privs, ascending) for tx.
func (a *acct) sigs(magic netmode.Magic, tx *transaction.Transaction, which []int) [][]byte {
	var res [][]byte
	for _, i := range which {
		res = append(res, a.privs[i].SignHashable(uint32(magic), tx))
	}
	return res
}

// defaultWhich: the single key, or the first m keys.
func (a *acct) defaultWhich() []int {
	n := 1
	if a.m > 0 {
		n = a.m
	}
	w := make([]int, n)
	for i := range w {
		w[i] = i
	}
	return w
}

func invocation(sigs [][]byte) []byte {
	var b []byte
	for _, s := range sigs {
		b = append(b, pushData1(s)...)
	}
	return b
}

// pairs renders the valid (key, signature) pairs for the model's `verify`.
func pairsOf(a *acct, which []int, sigs [][]byte) []byte {
	var b []byte
	for k, i := range which {
		b = append(b, a.privs[i].PublicKey().Bytes()...)
		b = append(b, sigs[k]...)
	}
	return b
}

// ---- chain ----------------------------------------------------------------

type world struct {
	tb        *shimTB
	bc        *core.Blockchain
	e         *neotest.Executor
	committee neotest.Signer
	magic     netmode.Magic
	gas, pol  util.Uint160
}

func newWorld(hook func(*config.Blockchain)) *world {
	tb := &shimTB{}
	bc, acc := chain.NewSingleWithOptions(tb, &chain.Options{Logger: zap.NewNop(), BlockchainConfigHook: hook})
	e := neotest.NewExecutor(tb, bc, acc, acc)
	w := &world{tb: tb, bc: bc, e: e, committee: acc, magic: bc.GetConfig().Magic}
	w.gas = e.NativeHash(tb, nativenames.Gas)
	w.pol = e.NativeHash(tb, nativenames.Policy)
	return w
}

func (w *world) close() { w.tb.done() }

// fundTxs prepares GAS transfers from the validator account (not yet on chain).
func (w *world) fundTx(to util.Uint160, amount int64) *transaction.Transaction {
	return w.e.ValidatorInvoker(w.gas).PrepareInvoke(w.tb, "transfer", w.e.Validator.ScriptHash(), to, amount, nil)
}

func (w *world) policyTx(method string, args ...any) *transaction.Transaction {
	return w.e.CommitteeInvoker(w.pol).PrepareInvoke(w.tb, method, args...)
}

// addBlock adds a block with txs and requires every one of them to HALT.
func (w *world) addBlock(txs ...*transaction.Transaction) *block.Block {
	b := w.e.AddNewBlock(w.tb, txs...)
	for _, tx := range txs {
		aer, err := w.bc.GetAppExecResults(tx.Hash(), trigger.Application)
		if err != nil || len(aer) != 1 || aer[0].VMState != vmstate.Halt {
			msg := ""
			if len(aer) == 1 {
				msg = aer[0].FaultException
			}
			panic(tbFail{fmt.Sprintf("setup transaction did not HALT: %v %s", err, msg)})
		}
	}
	return b
}

// runWitness executes inv+ver on the real VM the way verifyHashAgainstScript does, without gas limit.
// Returns ("halt", datoshi consumed, stack depth) or ("fault", 0, 0).
func (w *world) runWitness(tx *transaction.Transaction, h util.Uint160, wit *transaction.Witness) (string, int64, int) {
	ic, err := w.bc.GetTestVM(trigger.Verification, tx, nil)
	if err != nil {
		panic(err)
	}
	ic.VM.SetGasLimit(-1)
	if err := w.bc.InitVerificationContext(ic, h, wit); err != nil {
		return "fault", 0, 0
	}
	err = ic.Exec()
	if err != nil || ic.VM.HasFailed() {
		return "fault", 0, 0
	}
	return "halt", ic.VM.GasConsumed(), ic.VM.Estack().Len()
}

// modelOpcodes tells whether a script only uses the opcodes of the Lean price interpreter
// (PUSHINT*, PUSHDATA*, PUSHM1..PUSH16, SYSCALL CheckSig/CheckMultisig); truncated scripts qualify.
func modelOpcodes(s []byte) bool {
	for i := 0; i < len(s); {
		op := opcode.Opcode(s[i])
		i++
		switch {
		case op <= opcode.PUSHINT256:
			i += 1 << op
		case op == opcode.PUSHDATA1:
			if i >= len(s) {
				return true
			}
			i += 1 + int(s[i])
		case op == opcode.PUSHDATA2:
			if i+1 >= len(s) {
				return true
			}
			i += 2 + int(s[i]) + int(s[i+1])<<8
		case op == opcode.PUSHDATA4:
			if i+3 >= len(s) {
				return true
			}
			i += 4 + int(s[i]) + int(s[i+1])<<8 + int(s[i+2])<<16 + int(s[i+3])<<24
		case op >= opcode.PUSHM1 && op <= opcode.PUSH16:
		case op == opcode.SYSCALL:
			if i+4 > len(s) {
				return true
			}
			id := s[i : i+4]
			if !bytes.Equal(id, checkSigID) && !bytes.Equal(id, checkMultisigID) {
				return false
			}
			i += 4
		default:
			return false
		}
	}
	return true
}
