package main

// Stream part `proposal`: pool contents -> ApplyPolicyToTxSet -> block built the way consensus
// builds it -> EncodeBinary -> DecodeBinary -> backup-side checks and AddBlock on a replica.

import (
	"crypto/sha256"
	"encoding/hex"
	"errors"
	"fmt"
	"math/big"
	"os"
	"slices"
	"strings"
	"time"

	"github.com/nspcc-dev/neo-go/pkg/config"
	"github.com/nspcc-dev/neo-go/pkg/config/netmode"
	"github.com/nspcc-dev/neo-go/pkg/core"
	"github.com/nspcc-dev/neo-go/pkg/core/block"
	"github.com/nspcc-dev/neo-go/pkg/core/mempool"
	"github.com/nspcc-dev/neo-go/pkg/core/native/nativehashes"
	"github.com/nspcc-dev/neo-go/pkg/core/native/nativenames"
	"github.com/nspcc-dev/neo-go/pkg/core/storage"
	"github.com/nspcc-dev/neo-go/pkg/core/transaction"
	"github.com/nspcc-dev/neo-go/pkg/crypto/hash"
	"github.com/nspcc-dev/neo-go/pkg/crypto/keys"
	"github.com/nspcc-dev/neo-go/pkg/io"
	"github.com/nspcc-dev/neo-go/pkg/neotest"
	"github.com/nspcc-dev/neo-go/pkg/smartcontract"
	"github.com/nspcc-dev/neo-go/pkg/util"
	"github.com/nspcc-dev/neo-go/pkg/wallet"
	"go.uber.org/zap"

	"verif/harness/internal/hx"
	"verif/harness/internal/prng"
)

type netCfg struct {
	nVal          int
	maxTx         uint16
	maxBlockSize  uint32
	maxBlockSys   int64
	stateRoot     bool
	hf            string
	memPoolSize   int
	committeeKeys []*keys.PrivateKey // public-key order
}

// newNetWorld builds a chain whose standby committee = validators = keys the harness holds.
func newNetWorld(nc *netCfg) *world {
	tb := &shimTB{}
	pubs := pubsOf(nc.committeeKeys)
	var sc []string
	for _, p := range pubs {
		sc = append(sc, hex.EncodeToString(p.Bytes()))
	}
	cfg := config.Blockchain{
		ProtocolConfiguration: config.ProtocolConfiguration{
			Magic:                       netmode.UnitTestNet,
			MaxTraceableBlocks:          1000,
			MaxBlockSystemFee:           nc.maxBlockSys,
			MaxBlockSize:                nc.maxBlockSize,
			MaxTransactionsPerBlock:     nc.maxTx,
			MaxValidUntilBlockIncrement: 500,
			TimePerBlock:                time.Second,
			Genesis:                     config.Genesis{TimePerBlock: time.Second},
			StandbyCommittee:            sc,
			ValidatorsCount:             uint32(nc.nVal),
			VerifyTransactions:          true,
			StateRootInHeader:           nc.stateRoot,
			MemPoolSize:                 nc.memPoolSize,
		},
	}
	switch nc.hf {
	case "preFaun":
		cfg.Hardforks = map[string]uint32{config.HFEchidna.String(): 0}
	}
	bc, err := core.NewBlockchain(storage.NewMemoryStore(), cfg, zap.NewNop())
	if err != nil {
		panic(tbFail{"NewBlockchain: " + err.Error()})
	}
	go bc.Run()
	tb.Cleanup(bc.Close)
	mk := func(m int) neotest.Signer {
		accs := make([]*wallet.Account, len(nc.committeeKeys))
		for i, k := range nc.committeeKeys {
			accs[i] = wallet.NewAccountFromPrivateKey(k)
			if err := accs[i].ConvertMultisig(m, slices.Clone(pubs)); err != nil {
				panic(err)
			}
		}
		return neotest.NewMultiSigner(accs...)
	}
	n := len(nc.committeeKeys)
	validator := mk(smartcontract.GetDefaultHonestNodeCount(n))
	committee := mk(smartcontract.GetMajorityHonestNodeCount(n))
	e := neotest.NewExecutor(tb, bc, validator, committee)
	w := &world{tb: tb, bc: bc, e: e, committee: committee, magic: cfg.Magic}
	w.gas = e.NativeHash(tb, nativenames.Gas)
	w.pol = e.NativeHash(tb, nativenames.Policy)
	return w
}

// relay sends a block to a replica the way peers receive it: bytes, decode, AddBlock.
func relay(b *block.Block, to *core.Blockchain) error {
	bw := io.NewBufBinWriter()
	b.EncodeBinary(bw.BinWriter)
	if bw.Err != nil {
		return fmt.Errorf("encode: %w", bw.Err)
	}
	nb := block.New(to.GetConfig().StateRootInHeader)
	br := io.NewBinReaderFromBuf(bw.Bytes())
	nb.DecodeBinary(br)
	if br.Err != nil {
		return fmt.Errorf("decode: %w", br.Err)
	}
	if br.Len() != 0 {
		return fmt.Errorf("decode: %d bytes left", br.Len())
	}
	return to.AddBlock(nb)
}

// consensusBlock builds the next block from txs the way consensus.newBlockFromContext + dbft do,
// signed by the first m validators.
func consensusBlock(w *world, nc *netCfg, txs []*transaction.Transaction, r *prng.R) *block.Block {
	bc := w.bc
	prev, err := bc.GetBlock(bc.GetHeaderHash(bc.BlockHeight()))
	if err != nil {
		panic(err)
	}
	b := &block.Block{}
	b.Timestamp = prev.Timestamp + uint64(r.Range(1, 2000))
	b.Nonce = r.U64()
	b.Index = bc.BlockHeight() + 1
	if nc.stateRoot {
		sr, err := bc.GetStateRoot(b.Index - 1)
		if err != nil {
			panic(err)
		}
		b.StateRootEnabled = true
		b.PrevStateRoot = sr.Root
	}
	script, err := smartcontract.CreateDefaultMultiSigRedeemScript(bc.ComputeNextBlockValidators())
	if err != nil {
		panic(err)
	}
	b.NextConsensus = hash.Hash160(script)
	b.PrevHash = prev.Hash()
	b.Version = block.VersionInitial
	b.PrimaryIndex = byte(r.Intn(nc.nVal))
	hashes := make([]util.Uint256, len(txs))
	for i, t := range txs {
		hashes[i] = t.Hash()
	}
	b.MerkleRoot = hash.CalcMerkleRoot(hashes)
	b.Transactions = txs
	// witness: the current validators' multisig
	vals, _ := bc.GetNextBlockValidators()
	vscript, err := smartcontract.CreateDefaultMultiSigRedeemScript(vals)
	if err != nil {
		panic(err)
	}
	b.Script.VerificationScript = vscript
	b.Script.InvocationScript = w.e.Validator.SignHashable(uint32(w.magic), b)
	return b
}

// genRound generates the raw transactions of one round against the current state of s.w.
func genRound(o *hx.Out, r *prng.R, s *scen, senders []*acct, committee *acct, ntx int, bind string) [][]byte {
	var raws [][]byte
	height := s.w.bc.BlockHeight()
	var last *transaction.Transaction
	for i := 0; i < ntx; i++ {
		a := senders[r.Intn(len(senders))]
		signers := []*acct{a}
		hp := r.Chance(1, 10)
		if hp {
			signers = append(signers, committee)
		} else if r.Chance(1, 6) {
			b := senders[r.Intn(len(senders))]
			if b != a {
				signers = append(signers, b)
			}
		}
		guardD := 0
		if r.Chance(1, 4) {
			// cosigned by an inline script that stops verifying once the chain is guardD blocks higher
			guardD = r.Range(1, 3)
			signers = append(signers, s.w.ledgerGuard(height+uint32(guardD)))
			o.Count(fmt.Sprintf("proposal:tx-with-state-dependent-witness:d=%d", guardD))
		}
		pad := []int{0, 20, 200, 1000, r.Range(0, 3000)}[r.Intn(5)]
		c := s.newCand(r, signers, pad)
		c.tx.SystemFee = int64(r.Range(0, 3)) * 1_0000_0000 / int64(r.Range(1, 4))
		if bind == "sysfee" {
			c.tx.SystemFee = int64(r.Range(0, 12)) * 1_0000_0000
		}
		if manyMode {
			c.tx.SystemFee = 0
			c.tx.ValidUntilBlock = height + 6
		}
		c.tx.ValidUntilBlock = height + uint32(r.Range(1, 6))
		if hp {
			c.tx.Attributes = append(c.tx.Attributes, transaction.Attribute{Type: transaction.HighPriority})
		}
		if last != nil && r.Chance(1, 8) && last.HasSigner(a.hash) {
			// replaces a pooled transaction of a common signer when it pays more
			c.tx.Attributes = append(c.tx.Attributes, transaction.Attribute{Type: transaction.ConflictsT, Value: &transaction.Conflicts{Hash: last.Hash()}})
			o.Count("proposal:tx-with-conflicts")
		}
		extra := int64(0)
		switch r.Intn(4) {
		case 0:
			extra = int64(r.Range(0, 1000))
		case 1:
			extra = int64(r.Range(0, 5_000_000))
		case 2:
			extra = int64(len(c.tx.Script)) * int64(r.Range(0, 2000))
		}
		c.finish(extra)
		raws = append(raws, c.tx.Bytes())
		last = c.tx
	}
	return raws
}

// manyMode: the current case wants a pool of several hundred cheap transactions.
var manyMode bool

func runProposal(f *hx.Flags, o *hx.Out) {
	n := f.N(160, 3000)
	for k := 0; k < n; k++ {
		if !f.Want(k) {
			continue
		}
		r := prng.ForCase(f.Seed, k)
		o.Case(k)
		guarded(k, func() { proposalCase(o, k, r) })
	}
	if harnessErrors > 0 {
		o.Close()
		os.Exit(3)
	}
}

func proposalCase(o *hx.Out, k int, r *prng.R) {
	nc := &netCfg{hf: "all", memPoolSize: 50000}
	nc.nVal = []int{1, 1, 4, 4, 7}[r.Intn(5)]
	nc.committeeKeys = pickKeys(r, nc.nVal)
	nc.stateRoot = r.Chance(1, 3)
	if r.Chance(1, 5) {
		nc.hf = "preFaun"
	}
	// which limit binds
	bind := []string{"count", "size", "sysfee", "none", "size", "mempool"}[r.Intn(6)]
	if k < 7 {
		bind = "size"
	}
	// corpus case 6: more than 252 pooled transactions, so that the count prefix of the capped list (3 bytes) differs
	// from the one of what is finally taken (1 byte); MaxBlockSize = wire size of the first j (< 253) + 1
	many := k == 6
	manyMode = many
	nc.maxTx = 512
	nc.maxBlockSize = 2_000_000
	nc.maxBlockSys = 9000_0000_0000
	ntx := r.Range(3, 40)
	if many {
		ntx = 275
	}
	switch bind {
	case "count":
		nc.maxTx = uint16(r.Range(1, 12))
	case "size":
		nc.maxBlockSize = uint32(r.Range(800, 9000))
	case "sysfee":
		nc.maxBlockSys = int64(r.Range(1, 40)) * 1_0000_0000
	case "mempool":
		nc.memPoolSize = r.Range(2, 10)
	}
	boundary := (bind == "size" || bind == "sysfee") && (k < 7 || r.Chance(2, 3))
	// corpus cases 7..10 and a quarter of the others: co-signed transactions of different senders tied by Conflicts
	// attributes, the payer's fees at the edge of its balance (see genEdge)
	edge := (k >= 7 && k <= 10) || (!boundary && !many && r.Chance(1, 4))
	if k >= 7 && k <= 13 {
		bind, boundary = "none", false
	}
	// corpus cases 11, 12 and a third of the others: a block made elsewhere carries a Conflicts attribute naming a pooled
	// multi-signer transaction (see foreignConflict)
	foreign := k == 11 || k == 12 || (!many && r.Chance(1, 3))
	if foreign {
		edge = false
	}
	// corpus case 13 and a quarter of the others: a pooled transaction with a NON-standard witness carries an attribute
	// whose fee a block raises while it is pooled (see carriedAttrCase)
	attrCase := k == 13 || (!many && !foreign && r.Chance(1, 4))
	var attrPending func() *transaction.Transaction // builds the setAttributeFee transaction for the next block
	if k < 6 {
		// corpus: the defect fixed by 2cbe22b (state root not counted when sizing the proposal) lived here
		nc.stateRoot = true
	}
	o.Count("proposal:bind=" + bind)
	o.Count(fmt.Sprintf("proposal:validators=%d", nc.nVal))
	o.Count(fmt.Sprintf("proposal:stateroot=%v", nc.stateRoot))
	// senders and their funding (fixed before any chain exists, so that a chain can be rebuilt identically)
	nSenders := r.Range(2, 6)
	if edge || foreign {
		nSenders = max(nSenders, 4)
	}
	ks := pickKeys(r, nSenders+6)
	var senders []*acct
	var amounts []int64
	for i := 0; i < nSenders; i++ {
		a := singleAcct(fmt.Sprintf("S%d", i), ks[i])
		if i == 1 {
			nn := r.Range(2, 5)
			a = multiAcct("M", r.Range(1, nn), ks[nSenders:nSenders+nn])
		}
		senders = append(senders, a)
		amount := int64(r.Range(5, 400)) * 1_0000_0000
		if many {
			amount = 2000_0000_0000
		} else if edge && i == 0 {
			amount = 3_0000_0000 // the account whose pooled fees are put at the edge of its balance
		} else if (edge && i == 2) || (foreign && (i == 0 || i == 2 || i == 3)) {
			amount = 300_0000_0000
		} else if r.Chance(1, 5) {
			amount = int64(r.Range(1, 30)) * 1000_0000 // poor sender: some of its transactions will not fit
		}
		amounts = append(amounts, amount)
	}
	ck := nc.committeeKeys
	committee := multiAcct("committee", smartcontract.GetMajorityHonestNodeCount(len(ck)), ck)
	fundAll := func(w *world) *block.Block {
		var fund []*transaction.Transaction
		for i, a := range senders {
			fund = append(fund, w.fundTx(a.hash, amounts[i]))
		}
		fund = append(fund, w.fundTx(committee.hash, 100_0000_0000))
		return w.addBlock(fund...)
	}
	mkScen := func(w *world) *scen {
		return &scen{w: w, hf: nc.hf, pol: polSettings{feePerByte: w.bc.FeePerByte(), base: w.bc.GetBaseExecFee(), attrFee: map[transaction.AttrType]int64{}}, accIDs: map[util.Uint160]int{}}
	}
	// boundary-directed: measure the pool on a chain without a binding size limit, then set MaxBlockSize
	// right around the wire size of a block of the first j pool transactions and rebuild.
	var preRaws [][]byte
	if boundary {
		big := *nc
		big.maxBlockSize = 2_000_000
		big.maxBlockSys = 9000_0000_0000
		P := newNetWorld(&big)
		fundAll(P)
		preRaws = genRound(o, r, mkScen(P), senders, committee, ntx, bind)
		for _, raw := range preRaws {
			t, _ := transaction.NewTransactionFromBytes(raw)
			_ = P.bc.PoolTx(t)
		}
		ptxs := P.bc.GetMemPool().GetVerifiedTransactions()
		if len(ptxs) > 0 {
			j := r.Range(1, len(ptxs))
			if many {
				if len(ptxs) < 253 {
					panic(tbFail{fmt.Sprintf("corpus case 6: only %d transactions pooled", len(ptxs))})
				}
				j = r.Range(100, 252)
			}
			pb := consensusBlock(P, &big, ptxs[:j], prng.New(1))
			bw := io.NewBufBinWriter()
			pb.EncodeBinary(bw.BinWriter)
			// exactly at the limit, one off, around the state root's 32 bytes, or somewhere near
			off := []int{0, 0, 0, -1, 1, -32, -33, r.Range(-34, 2)}[r.Intn(8)]
			if many {
				off = 1
			}
			if bind == "size" {
				nc.maxBlockSize = uint32(len(bw.Bytes()) + off)
				o.Count(fmt.Sprintf("proposal:boundary-directed:size%+d", min(max(off, -2), 2)))
			} else {
				var sum int64
				for _, t := range ptxs[:j] {
					sum += t.SystemFee
				}
				off = []int{0, 0, 0, -1, 1}[r.Intn(5)]
				nc.maxBlockSys = max(sum+int64(off), 1)
				o.Count(fmt.Sprintf("proposal:boundary-directed:sysfee%+d", off))
			}
		}
		P.close()
	}
	A := newNetWorld(nc)
	defer A.close()
	B := newNetWorld(nc)
	defer B.close()
	bcfg := A.bc.GetConfig()

	send := func(b *block.Block, what string) bool {
		if err := relay(b, B.bc); err != nil {
			o.Fail("replica-rejects-"+what, k, "replica: %v", err)
			return false
		}
		return true
	}
	if !send(fundAll(A), "setup-block") {
		return
	}
	s := mkScen(A)

	rounds := r.Range(1, 3)
	moved := map[string]bool{} // Policy values the committee has changed in this case
	// staleKey names the two known shapes in which a transaction stays pooled although the new Policy value
	// makes it inadmissible: IsTxStillRelevant re-checks blocked accounts, NetworkFee >= size and attribute fees,
	// attributes and non-standard witnesses, but not that what is left of NetworkFee still pays the standard
	// witnesses (after a raise of ExecFeeFactor, FeePerByte or an attribute fee), nor the ValidUntilBlock window.
	staleKey := func(generic string, err error) string {
		switch {
		case (moved["execfee-up"] || moved["feeperbyte-up"] || moved["attrfee-up"]) && strings.Contains(err.Error(), "witness #") && strings.Contains(err.Error(), "GAS limit exceeded"):
			return "pool-keeps-tx-underpaying-after-fee-raise"
		case moved["vubinc-down"] && classify(err) == "err:not-yet-valid":
			return "pool-keeps-tx-beyond-lowered-vubinc"
		}
		return generic
	}
	for round := 0; round < rounds; round++ {
		mp := A.bc.GetMemPool()
		var pooled, rejected int
		raws := preRaws
		preRaws = nil
		if raws == nil {
			raws = genRound(o, r, s, senders, committee, ntx, bind)
			if edge && round == 0 {
				raws = append(genEdge(o, r, s, senders, k), raws...)
			}
		}
		var roundTxs []*transaction.Transaction
		for ri, raw := range raws {
			t, err := transaction.NewTransactionFromBytes(raw)
			if err != nil {
				panic(err)
			}
			roundTxs = append(roundTxs, t)
			err = A.bc.PoolTx(t)
			if edge && round == 0 && ri < 3 {
				o.Count(fmt.Sprintf("proposal:edge:tx%d:%s", ri, classify(err)))
			}
			if err != nil {
				rejected++
				o.Count("proposal:pooltx:" + classify(err))
			} else {
				pooled++
			}
		}
		o.Add("proposal:pooled", pooled)
		poolConsistent(o, k, A, "after pooling")
		if foreign && round == 0 {
			if !foreignConflict(o, r, k, s, A, senders, send) {
				return
			}
		}
		if attrCase && round == 0 {
			attrPending = carriedAttrCase(o, r, k, s, A, senders, committee)
		}
		if r.Chance(1, 2) && !many {
			// the chain moves on before this node proposes: the pool is re-checked against the new state
			nblk := r.Range(1, 2)
			for i := 0; i < nblk; i++ {
				if !send(A.addBlock(), "interleaved-block") {
					return
				}
			}
			o.Count("proposal:interleaved-blocks")
		}
		policyMoves := r.Chance(1, 3) && !many
		if attrPending != nil {
			policyMoves = false
			moved["attrfee-up"] = true
			ptx := attrPending()
			attrPending = nil
			if !send(A.addBlock(ptx), "policy-block") {
				return
			}
		}
		if policyMoves {
			// the committee changes a Policy value between pooling and proposing: whatever stays pooled must
			// still be admissible under the new value (IsTxStillRelevant, blockchain.go:3192-3229)
			var ptx *transaction.Transaction
			switch pk := r.Intn(5); pk {
			case 0:
				base := A.bc.GetBaseExecFee()
				v := base * int64(r.Range(2, 3))
				if nc.hf == "preFaun" {
					v = min(v/10000, 100) // maxExecFeeFactor
				} else {
					v = min(v, 100*10000)
				}
				ptx = A.policyTx("setExecFeeFactor", v)
				moved["execfee-up"] = true
				o.Count("proposal:policy:execfee-up")
			case 1:
				ptx = A.policyTx("setFeePerByte", A.bc.FeePerByte()+int64(r.Range(1, 3000)))
				moved["feeperbyte-up"] = true
				o.Count("proposal:policy:feeperbyte-up")
			case 2:
				ptx = A.policyTx("setMaxValidUntilBlockIncrement", int64(r.Range(1, 4)))
				moved["vubinc-down"] = true
				o.Count("proposal:policy:vubinc-down")
			case 3:
				ptx = A.policyTx("blockAccount", senders[r.Intn(len(senders))].hash)
				o.Count("proposal:policy:block-sender")
			default:
				ptx = A.policyTx("setAttributeFee", int64(transaction.ConflictsT), int64(r.Range(1, 2_000_000)))
				moved["attrfee-up"] = true
				o.Count("proposal:policy:conflicts-fee-up")
			}
			if !send(A.addBlock(ptx), "policy-block") {
				return
			}
		}
		// what is pooled is admissible on the current state (each on its own)
		for _, t := range mp.GetVerifiedTransactions() {
			if err := A.bc.VerifyTx(t); err != nil {
				o.Fail(staleKey("pool-holds-inadmissible-tx", err), k, "pooled transaction %s does not verify at height %d: %v", t.Hash().StringLE(), A.bc.BlockHeight(), err)
				break
			}
		}
		poolConsistent(o, k, A, "before packing")
		txs := mp.GetVerifiedTransactions()
		picked := A.bc.ApplyPolicyToTxSet(txs)

		// --- model line: the cut ApplyPolicyToTxSet makes -------------------------------------
		// the model sizes the block itself: state root flag and the validators' keys (builder order) are all it gets
		vals, _ := A.bc.GetNextBlockValidators()
		svals := slices.Clone(vals)
		slices.SortFunc(svals, func(a, b *keys.PublicKey) int { return a.Cmp(b) })
		var vhex []byte
		for _, v := range svals {
			vhex = append(vhex, v.Bytes()...)
		}
		var sb strings.Builder
		fmt.Fprintf(&sb, "pack %d %d %d %d %s %d", bcfg.MaxTransactionsPerBlock, bcfg.MaxBlockSize, bcfg.MaxBlockSystemFee, b2i(bcfg.StateRootInHeader), hx.Hex(vhex), len(txs))
		for _, t := range txs {
			fmt.Fprintf(&sb, " %d %d", t.Size(), t.SystemFee)
		}
		o.Line(sb.String(), fmt.Sprintf("%d", len(picked)))
		// the same pool under the extreme values of one limit: the count prefix, the exact boundary of every prefix
		if len(txs) > 0 && r.Chance(1, 2) {
			packSublistLines(o, r, A, bcfg, vhex, txs)
		}
		// the scratch pool of a backup / of AddBlock on everything this round generated, conflicts and poor senders included
		scratchLine(o, k, s, A, roundTxs)

		// --- the statement's oracle ---------------------------------------------------------
		// a prefix in pool order
		if len(picked) > len(txs) {
			o.Fail("pack-not-prefix", k, "picked %d of %d", len(picked), len(txs))
			return
		}
		for i := range picked {
			if picked[i].Hash() != txs[i].Hash() {
				o.Fail("pack-not-prefix", k, "picked[%d] is not pool[%d]", i, i)
				return
			}
		}
		if bcfg.MaxTransactionsPerBlock != 0 && len(picked) > int(bcfg.MaxTransactionsPerBlock) {
			o.Fail("pack-count", k, "picked %d > MaxTransactionsPerBlock %d", len(picked), bcfg.MaxTransactionsPerBlock)
		}
		var sys int64
		for _, t := range picked {
			sys += t.SystemFee
		}
		if sys > bcfg.MaxBlockSystemFee {
			o.Fail("pack-sysfee", k, "picked system fee %d > MaxBlockSystemFee %d", sys, bcfg.MaxBlockSystemFee)
		}
		b := consensusBlock(A, nc, picked, r)
		bw := io.NewBufBinWriter()
		b.EncodeBinary(bw.BinWriter)
		wireBytes := bw.Bytes()
		wire := len(wireBytes)
		if len(picked) > 0 && uint32(wire) > bcfg.MaxBlockSize {
			key := "pack-size"
			if nc.stateRoot && uint32(wire)-32 <= bcfg.MaxBlockSize {
				key = "pack-size-stateroot"
			}
			o.Fail(key, k, "block of %d picked transactions is %d bytes on the wire (GetExpectedBlockSize %d) > MaxBlockSize %d: a backup's verifyBlock rejects this proposal (validators %d, StateRootInHeader %v)", len(picked), wire, b.GetExpectedBlockSize(), bcfg.MaxBlockSize, nc.nVal, nc.stateRoot)
		}
		o.Line(fmt.Sprintf("expsize %d %s %s %d", b2i(b.StateRootEnabled), hx.Hex(b.Script.InvocationScript), hx.Hex(b.Script.VerificationScript), len(picked)),
			fmt.Sprintf("%d", b.GetExpectedBlockSizeWithoutTransactions(len(picked))))
		if wire <= 40000 {
			var eb strings.Builder
			fmt.Fprintf(&eb, "encblock %d %s %s %d %d %d %d %s %d %s %s %s %d", b.Version, hx.Hex(b.PrevHash[:]), hx.Hex(b.MerkleRoot[:]), b.Timestamp, b.Nonce,
				b.Index, b.PrimaryIndex, hx.Hex(b.NextConsensus[:]), b2i(b.StateRootEnabled), hx.Hex(b.PrevStateRoot[:]),
				hx.Hex(b.Script.InvocationScript), hx.Hex(b.Script.VerificationScript), len(picked))
			for _, t := range picked {
				eb.WriteString(" " + hx.Hex(t.Bytes()))
			}
			sum := sha256.Sum256(wireBytes)
			o.Line(eb.String(), fmt.Sprintf("%d %s %d", wire, hx.Hex(sum[:]), b.GetExpectedBlockSize()))
			o.Count("proposal:encblock")
		}
		if b.GetExpectedBlockSize() != wire {
			o.Fail("expected-block-size", k, "GetExpectedBlockSize %d, %d bytes on the wire", b.GetExpectedBlockSize(), wire)
		}
		// backup side (consensus.verifyBlock): every transaction is poolable on a node that has never seen it
		nb := block.New(bcfg.StateRootInHeader)
		br := io.NewBinReaderFromBuf(wireBytes)
		nb.DecodeBinary(br)
		if br.Err != nil {
			o.Fail("block-decode", k, "%v", br.Err)
			return
		}
		if nb.Hash() != b.Hash() {
			o.Fail("block-hash-roundtrip", k, "hash changed across the wire")
		}
		vp := mempool.New(len(nb.Transactions)+1, false, nil)
		for i, t := range nb.Transactions {
			if err := B.bc.PoolTx(t, vp); err != nil {
				o.Fail(staleKey("backup-rejects-tx", err), k, "transaction %d of the proposal: %v", i, err)
				break
			}
		}
		if err := B.bc.AddBlock(nb); err != nil {
			o.Fail(staleKey("replica-rejects-proposal", err), k, "AddBlock on the replica: %v (picked %d, validators %d, stateroot %v)", err, len(picked), nc.nVal, nc.stateRoot)
			return
		}
		if err := A.bc.AddBlock(b); err != nil {
			o.Fail("proposer-rejects-own-block", k, "%v", err)
			return
		}
		if A.bc.GetStateModule().CurrentLocalStateRoot() != B.bc.GetStateModule().CurrentLocalStateRoot() {
			o.Fail("replica-state-differs", k, "state roots differ after the proposed block")
		}
		// what is left in the pool never contains a transaction that is in the block
		for _, t := range picked {
			if mp.ContainsKey(t.Hash()) {
				o.Fail("pool-keeps-included-tx", k, "%s still pooled", t.Hash().StringLE())
			}
		}
		o.Add("proposal:picked", len(picked))
		switch {
		case len(picked) == len(txs):
			o.Count("proposal:cut=all")
		case len(picked) == 0:
			o.Count("proposal:cut=none")
		default:
			o.Count("proposal:cut=partial")
		}
		o.Seen(fmt.Sprintf("prop/%d/%d/%d/%s/%v/%d", len(txs), len(picked), wire, bind, nc.stateRoot, nc.nVal))
		if k < 3 && round == 0 {
			o.Sample(fmt.Sprintf("proposal: %d pooled (%d rejected), picked %d, block %d bytes, bind=%s validators=%d stateroot=%v", len(txs), rejected, len(picked), wire, bind, nc.nVal, nc.stateRoot))
		}
		ntx = r.Range(0, 15)
	}
	// last of all (a refused block leaves its header behind on the replica): AddBlock's transaction loop on a block that
	// is not a proposer's selection
	if !many {
		var fresh []*transaction.Transaction
		for _, raw := range genRound(o, r, s, senders, committee, r.Range(4, 10), bind) {
			t, _ := transaction.NewTransactionFromBytes(raw)
			fresh = append(fresh, t)
		}
		// and one or two that name another of them in a Conflicts attribute, paying more or less than it
		for i := r.Range(0, 2); i > 0 && len(fresh) > 0; i-- {
			u := fresh[r.Intn(len(fresh))]
			var ua *acct
			for _, a := range senders {
				if a.hash == u.Sender() {
					ua = a
				}
			}
			if ua == nil {
				continue
			}
			v := s.newCand(r, []*acct{ua}, 0)
			v.tx.SystemFee = 0
			v.tx.ValidUntilBlock = A.bc.BlockHeight() + 3
			v.tx.Attributes = []transaction.Attribute{{Type: transaction.ConflictsT, Value: &transaction.Conflicts{Hash: u.Hash()}}}
			v.finish(0)
			v.tx.NetworkFee = max(v.calc, u.NetworkFee+[]int64{1, 1000, 0, -1}[r.Intn(4)])
			v.sign()
			vt, _ := transaction.NewTransactionFromBytes(v.tx.Bytes())
			fresh = append([]*transaction.Transaction{vt}, fresh...)
			o.Count("ledger:with-conflicting-pair")
		}
		ledgerLine(o, k, r, s, A, B, nc, fresh)
	}
}

// packSublistLines calls ApplyPolicyToTxSet on random contiguous sub-lists of the pool (a running chain cannot change
// its limits, but the list it is given can): this moves the count prefix and the position of the cut.
func packSublistLines(o *hx.Out, r *prng.R, A *world, bcfg config.Blockchain, vhex []byte, txs []*transaction.Transaction) {
	for i := 0; i < 3; i++ {
		lo := r.Intn(len(txs))
		hi := lo + r.Range(1, len(txs)-lo)
		sub := txs[lo:hi]
		picked := A.bc.ApplyPolicyToTxSet(slices.Clone(sub))
		var sb strings.Builder
		fmt.Fprintf(&sb, "pack %d %d %d %d %s %d", bcfg.MaxTransactionsPerBlock, bcfg.MaxBlockSize, bcfg.MaxBlockSystemFee, b2i(bcfg.StateRootInHeader), hx.Hex(vhex), len(sub))
		for _, t := range sub {
			fmt.Fprintf(&sb, " %d %d", t.Size(), t.SystemFee)
		}
		o.Line(sb.String(), fmt.Sprintf("%d", len(picked)))
		o.Count("proposal:pack-sublist")
	}
}

func classifyPool(err error) string {
	switch {
	case err == nil:
		return "ok"
	case errors.Is(err, mempool.ErrDup):
		return "err:pool-dup"
	case errors.Is(err, mempool.ErrConflictsAttribute):
		return "err:pool-conflicts-attr"
	case errors.Is(err, mempool.ErrInsufficientFunds):
		return "err:insufficient-funds"
	case errors.Is(err, mempool.ErrConflict):
		return "err:pool-conflict"
	case errors.Is(err, mempool.ErrOracleResponse):
		return "err:pool-oracle"
	case errors.Is(err, mempool.ErrOOM):
		return "err:oom"
	}
	return "err:other"
}

// scratchLine adds txs one after the other to an empty pool of capacity len(txs) (what a backup and AddBlock do
// with the transactions of a block) and renders what mempool.Add reads of them for the model.
func scratchLine(o *hx.Out, k int, s *scen, w *world, txs []*transaction.Transaction) {
	if len(txs) == 0 {
		return
	}
	mp := mempool.New(len(txs), false, nil)
	hid := map[util.Uint256]int{}
	id := func(h util.Uint256) int {
		if v, ok := hid[h]; ok {
			return v
		}
		hid[h] = len(hid) + 1
		return hid[h]
	}
	type payer struct{ p, s util.Uint160 }
	var payers []payer
	seen := map[payer]bool{}
	var body strings.Builder
	var verdicts []string
	for _, t := range txs {
		q := payer{p: t.Sender()}
		if t.Sender() == nativehashes.Notary && len(t.Signers) > 1 {
			q.s = t.Signers[1].Account
		}
		if !seen[q] {
			seen[q] = true
			payers = append(payers, q)
		}
		fmt.Fprintf(&body, " %d %d %d %d", id(t.Hash()), t.SystemFee, t.NetworkFee, len(t.Signers))
		for _, sg := range t.Signers {
			fmt.Fprintf(&body, " %d", s.id(sg.Account))
		}
		cf := t.GetAttributes(transaction.ConflictsT)
		fmt.Fprintf(&body, " %d", len(cf))
		for _, a := range cf {
			fmt.Fprintf(&body, " %d", id(a.Value.(*transaction.Conflicts).Hash))
		}
		if or := t.GetAttributes(transaction.OracleResponseT); len(or) > 0 {
			fmt.Fprintf(&body, " %d", or[0].Value.(*transaction.OracleResponse).ID)
		} else {
			body.WriteString(" -")
		}
		v := classifyPool(mp.Add(t, w.bc))
		verdicts = append(verdicts, v)
		o.Count("scratch:" + v)
	}
	var content []int
	for _, t := range mp.GetVerifiedTransactions() {
		content = append(content, id(t.Hash()))
	}
	slices.Sort(content)
	var cs []string
	for _, c := range content {
		cs = append(cs, fmt.Sprint(c))
	}
	var head strings.Builder
	fmt.Fprintf(&head, "scratch %d %d", s.id(nativehashes.Notary), len(payers))
	for _, q := range payers {
		bal := w.bc.GetUtilityTokenBalance(q.p, q.s)
		sid := 0
		if q.s != (util.Uint160{}) {
			sid = s.id(q.s)
		}
		fmt.Fprintf(&head, " %d %d %s", s.id(q.p), sid, bal.String())
	}
	fmt.Fprintf(&head, " %d", len(txs))
	o.Line(head.String()+body.String(), strings.Join(verdicts, ",")+" "+strings.Join(cs, ","))
	if len(content) != len(txs) {
		o.Count("scratch:some-rejected-or-replaced")
	}
}

// poolConsistent recomputes, from the pooled transactions themselves (not from the pool's caches), the hypothesis
// the packing theorem takes from C08: every transaction once, no two pooled transactions tied by a Conflicts
// attribute, one response per oracle request, and for every payer (sender, or Notary + depositor) the system +
// network fees of its pooled transactions within its balance / deposit.
func poolConsistent(o *hx.Out, k int, w *world, when string) {
	txs := w.bc.GetMemPool().GetVerifiedTransactions()
	type payer struct{ p, s util.Uint160 }
	sums := map[payer]*big.Int{}
	var order []payer
	seen := map[util.Uint256]bool{}
	orc := map[uint64]bool{}
	for _, t := range txs {
		if seen[t.Hash()] {
			o.Fail("pool-holds-tx-twice", k, "%s: %s", when, t.Hash().StringLE())
		}
		seen[t.Hash()] = true
	}
	for _, t := range txs {
		q := payer{p: t.Sender()}
		if t.Sender() == nativehashes.Notary && len(t.Signers) > 1 {
			q.s = t.Signers[1].Account
		}
		if sums[q] == nil {
			sums[q] = new(big.Int)
			order = append(order, q)
		}
		sums[q].Add(sums[q], big.NewInt(t.SystemFee+t.NetworkFee))
		for _, a := range t.GetAttributes(transaction.ConflictsT) {
			if h := a.Value.(*transaction.Conflicts).Hash; seen[h] {
				o.Fail("pool-holds-conflicting-pair", k, "%s: pooled %s names pooled %s in a Conflicts attribute", when, t.Hash().StringLE(), h.StringLE())
			}
		}
		for _, a := range t.GetAttributes(transaction.OracleResponseT) {
			id := a.Value.(*transaction.OracleResponse).ID
			if orc[id] {
				o.Fail("pool-two-responses", k, "%s: two pooled responses to request %d", when, id)
			}
			orc[id] = true
		}
	}
	for _, q := range order {
		bal := w.bc.GetUtilityTokenBalance(q.p, q.s)
		if sums[q].Cmp(bal) > 0 {
			o.Fail("pool-insolvent-payer", k, "%s: the pooled transactions of payer %s cost %s, its balance is %s (%d pooled)", when, q.p.StringLE(), sums[q], bal, len(txs))
			break
		}
	}
	o.Count("proposal:pool-consistency-checked")
}

// genEdge: the pool around a replacement through a Conflicts attribute between transactions of different senders.
// A = senders[0] (3 GAS), B = senders[2] (rich). a1 (sent by A) uses part of A's balance; e is sent by one of A / B
// and co-signed by the other; a2 (sent by A) and e are tied by a Conflicts attribute in one of the two directions,
// a2 pays the higher network fee, and fees(a1)+fees(a2) sits at an edge of A's balance: exactly the balance, one
// above, or — what decides if e's fees may be discounted — balance + fees(e) and one above that.
func genEdge(o *hx.Out, r *prng.R, s *scen, senders []*acct, k int) [][]byte {
	A, B := senders[0], senders[2]
	bal := s.w.bc.GetUtilityTokenBalance(A.hash, util.Uint160{}).Int64()
	height := s.w.bc.BlockHeight()
	eBySenderB := r.Bool() // else: e is A's own transaction co-signed by B (its fees ARE discounted)
	a2NamesE := r.Bool()
	dsel := r.Intn(5)
	switch k {
	case 7:
		eBySenderB, a2NamesE, dsel = true, true, 1
	case 8:
		eBySenderB, a2NamesE, dsel = true, false, 1
	case 9:
		eBySenderB, a2NamesE, dsel = true, true, 0
	case 10:
		eBySenderB, a2NamesE, dsel = false, true, 2
	}
	mk := func(signers []*acct, conflicts *util.Uint256, netExtra int64) *cand {
		c := s.newCand(r, signers, 0)
		c.tx.SystemFee = 100_0000
		c.tx.ValidUntilBlock = height + 6
		if conflicts != nil {
			c.tx.Attributes = []transaction.Attribute{{Type: transaction.ConflictsT, Value: &transaction.Conflicts{Hash: *conflicts}}}
		}
		c.finish(netExtra)
		return c
	}
	fees := func(c *cand) int64 { return c.tx.SystemFee + c.tx.NetworkFee }
	a1 := mk([]*acct{A}, nil, bal*int64(r.Range(30, 55))/100)
	es := []*acct{B, A}
	if !eBySenderB {
		es = []*acct{A, B}
	}
	var zero util.Uint256
	var e, a2 *cand
	eExtra := int64(r.Range(1000_0000, 3000_0000))
	// e's fees do not depend on the hash it names, only on carrying the attribute
	if a2NamesE {
		e = mk(es, nil, eExtra)
	} else {
		e = mk(es, &zero, eExtra)
	}
	fe := fees(e)
	f1 := fees(a1)
	if !eBySenderB {
		f1 += fe // e is paid by A as well
	}
	delta := []int64{0, 1, fe, fe + 1, -int64(r.Range(1, 1000))}[dsel]
	// fees(a2) = bal + delta - (what A has pooled before a2)
	a2 = mk([]*acct{A}, nil, 0)
	if a2NamesE {
		h := e.tx.Hash()
		a2 = mk([]*acct{A}, &h, 0)
	}
	want := bal + delta - f1
	a2.tx.NetworkFee += want - fees(a2)
	if a2.tx.NetworkFee <= e.tx.NetworkFee || a2.tx.NetworkFee < a2.calc {
		panic(tbFail{fmt.Sprintf("genEdge: cannot place a2's fee (%d, e pays %d, calculator %d)", a2.tx.NetworkFee, e.tx.NetworkFee, a2.calc)})
	}
	a2.sign()
	if !a2NamesE {
		// now that a2's hash is fixed, e names it
		h := a2.tx.Hash()
		e.tx.Attributes = []transaction.Attribute{{Type: transaction.ConflictsT, Value: &transaction.Conflicts{Hash: h}}}
		e.finish(eExtra)
		if fees(e) != fe {
			panic(tbFail{"genEdge: e's fees moved"})
		}
	}
	o.Count(fmt.Sprintf("proposal:edge:eBySenderB=%v,a2NamesE=%v,delta=%d", eBySenderB, a2NamesE, dsel))
	// a1 and e are pooled first; when e names a2, a2 comes last as well (step 1 of checkTxConflicts)
	return [][]byte{a1.tx.Bytes(), e.tx.Bytes(), a2.tx.Bytes()}
}

// foreignConflict: t, sent by S and co-signed by C, is pooled on the proposer; then a block that was NOT built from this
// node's pool (the conflicting transaction never passes PoolTx here) brings a transaction y with Conflicts(t), signed by
// C only, by S, by both, or by a third account that does not sign t. The ledger rule (dao.HasTransaction) kills t iff y
// shares a signer with it; whatever stays pooled afterwards must be admissible, which the caller checks next
// (VerifyTx of every pooled transaction, proposal, backup-side PoolTx, replica AddBlock).
func foreignConflict(o *hx.Out, r *prng.R, k int, s *scen, A *world, senders []*acct, send func(*block.Block, string) bool) bool {
	S, C, X := senders[0], senders[2], senders[3]
	height := A.bc.BlockHeight()
	t := s.newCand(r, []*acct{S, C}, 0)
	t.tx.SystemFee = 100_0000
	t.tx.ValidUntilBlock = height + 6
	t.finish(int64(r.Range(0, 100_0000)))
	tt, _ := transaction.NewTransactionFromBytes(t.tx.Bytes())
	if err := A.bc.PoolTx(tt); err != nil {
		o.Count("proposal:foreign:t-not-pooled:" + classify(err))
		return true
	}
	kind := []string{"cosigner", "cosigner", "sender", "both", "stranger"}[r.Intn(5)]
	switch k {
	case 11:
		kind = "cosigner"
	case 12:
		kind = "stranger"
	}
	ys := map[string][]*acct{"cosigner": {C}, "sender": {S}, "both": {C, S}, "stranger": {X}}[kind]
	y := s.newCand(r, ys, 0)
	y.tx.SystemFee = 100_0000
	y.tx.ValidUntilBlock = height + 2
	h := tt.Hash()
	y.tx.Attributes = conflictsNaming(r, o, h, -1)
	y.finish(0)
	o.Count("proposal:foreign:conflict-signed-by=" + kind)
	if !send(A.addBlock(y.tx), "foreign-conflict-block") {
		return false
	}
	pooled := A.bc.GetMemPool().ContainsKey(h)
	verdict := classify(A.bc.VerifyTx(tt))
	o.Count(fmt.Sprintf("proposal:foreign:%s:pooled=%v,verify=%s", kind, pooled, verdict))
	// the statement, on this one transaction: named as a conflict by an on-chain transaction of one of its signers => not in the pool
	if pooled && kind != "stranger" {
		o.Fail("pool-keeps-tx-named-by-onchain-conflict-of-signer", k, "t (sender %s, co-signer %s) is still pooled after a block with Conflicts(t) signed by its %s; VerifyTx says %s", S.name, C.name, kind, verdict)
	}
	if kind != "stranger" && verdict == "ok" {
		o.Fail("accepted-invalid:onchain-conflict-of-signer", k, "VerifyTx accepts t although an on-chain transaction of its %s names it in one of its Conflicts attributes", kind)
	}
	if kind == "stranger" && verdict != "ok" {
		o.Fail("valid-rejected", k, "a Conflicts attribute of an account that does not sign t makes VerifyTx say %s", verdict)
	}
	return true
}

// ledgerLine: a block that is NOT the proposer's selection — a random handful of this round's transactions, each
// admissible on its own, in random order, so that two of them may conflict or overdraw a sender together — is given
// to the replica over the wire. AddBlock's transaction loop (scratch pool, count check) is compared with Pack.ledgerLoop.
// If the replica accepts it, the proposer has to accept it too (both chains stay in step).
func ledgerLine(o *hx.Out, k int, r *prng.R, s *scen, A, B *world, nc *netCfg, roundTxs []*transaction.Transaction) bool {
	var cands []*transaction.Transaction
	for _, t := range roundTxs {
		if len(cands) >= 10 {
			break
		}
		if B.bc.VerifyTx(t) == nil {
			cands = append(cands, t)
		}
	}
	if len(cands) < 2 {
		return true
	}
	for i := range cands {
		j := i + r.Intn(len(cands)-i)
		cands[i], cands[j] = cands[j], cands[i]
	}
	sub := cands[:r.Range(2, min(6, len(cands)))]
	// what mempool.Add reads of them
	hid := map[util.Uint256]int{}
	id := func(h util.Uint256) int {
		if v, ok := hid[h]; ok {
			return v
		}
		hid[h] = len(hid) + 1
		return hid[h]
	}
	type payer struct{ p, s util.Uint160 }
	var payers []payer
	seen := map[payer]bool{}
	var body strings.Builder
	for _, t := range sub {
		q := payer{p: t.Sender()}
		if t.Sender() == nativehashes.Notary && len(t.Signers) > 1 {
			q.s = t.Signers[1].Account
		}
		if !seen[q] {
			seen[q] = true
			payers = append(payers, q)
		}
		fmt.Fprintf(&body, " %d %d %d %d", id(t.Hash()), t.SystemFee, t.NetworkFee, len(t.Signers))
		for _, sg := range t.Signers {
			fmt.Fprintf(&body, " %d", s.id(sg.Account))
		}
		cf := t.GetAttributes(transaction.ConflictsT)
		fmt.Fprintf(&body, " %d", len(cf))
		for _, a := range cf {
			fmt.Fprintf(&body, " %d", id(a.Value.(*transaction.Conflicts).Hash))
		}
		body.WriteString(" -")
	}
	var head strings.Builder
	fmt.Fprintf(&head, "ledger %d %d", s.id(nativehashes.Notary), len(payers))
	for _, q := range payers {
		sid := 0
		if q.s != (util.Uint160{}) {
			sid = s.id(q.s)
		}
		fmt.Fprintf(&head, " %d %d %s", s.id(q.p), sid, B.bc.GetUtilityTokenBalance(q.p, q.s).String())
	}
	fmt.Fprintf(&head, " %d", len(sub))
	blk := consensusBlock(A, nc, slices.Clone(sub), r)
	err := relay(blk, B.bc)
	obs := "ok"
	if err != nil {
		obs = "other:" + err.Error()
		for i, t := range sub {
			if strings.Contains(err.Error(), "transaction "+t.Hash().StringLE()+" failed to verify") {
				switch {
				case strings.Contains(err.Error(), "conflicts with another transaction of the block"):
					obs = fmt.Sprintf("conflict %d", i)
				case errors.Is(err, core.ErrMemPoolConflict):
					obs = fmt.Sprintf("tx %d err:pool-conflict", i)
				case errors.Is(err, core.ErrInsufficientFunds):
					obs = fmt.Sprintf("tx %d err:insufficient-funds", i)
				case errors.Is(err, core.ErrHasConflicts) && strings.Contains(err.Error(), "mempool:"):
					obs = fmt.Sprintf("tx %d err:pool-conflicts-attr", i)
				case errors.Is(err, core.ErrAlreadyInPool):
					obs = fmt.Sprintf("tx %d err:pool-dup", i)
				default:
					obs = fmt.Sprintf("tx %d %s", i, classify(errors.Unwrap(err)))
				}
			}
		}
	}
	o.Line(head.String()+body.String(), obs)
	o.Count("ledger:" + strings.SplitN(strings.SplitN(obs, ":", 2)[0], " ", 2)[0])
	return true
}

// carriedAttrCase pools a transaction whose second signer is an inline NON-standard script (true while the chain is
// low enough) and that carries one attribute Policy prices — NotValidBefore, Conflicts or (signed by the committee)
// HighPriority — with a network fee that pays exactly what the calculator says. It returns the committee's
// setAttributeFee transaction that raises the fee of THAT attribute type to around the point where the network fee
// stops covering size + attribute fees (one below, exactly, one above, further above). After the block carrying it,
// IsTxStillRelevant must drop the transaction as soon as the remainder is negative — running the witnesses with a
// negative gas limit (= unlimited for the VM) is no substitute — or the proposal built next is refused by the replica.
func carriedAttrCase(o *hx.Out, r *prng.R, k int, s *scen, A *world, senders []*acct, committee *acct) func() *transaction.Transaction {
	height := A.bc.BlockHeight()
	sender := senders[2%len(senders)]
	if A.bc.GetUtilityTokenBalance(sender.hash, util.Uint160{}).Int64() < 5_0000_0000 {
		sender = committee
	}
	kind := r.Intn(3)
	if k == 13 {
		kind = 0
	}
	signers := []*acct{sender, A.ledgerGuard(height + 6)}
	var at transaction.AttrType
	var attr transaction.Attribute
	mult := int64(1)
	switch kind {
	case 0:
		at = transaction.NotValidBeforeT
		attr = transaction.Attribute{Type: at, Value: &transaction.NotValidBefore{Height: 0}}
	case 1:
		at = transaction.ConflictsT
		var h util.Uint256
		copy(h[:], r.Bytes(32))
		attr = transaction.Attribute{Type: at, Value: &transaction.Conflicts{Hash: h}}
	default:
		at = transaction.HighPriority
		attr = transaction.Attribute{Type: at}
		if sender != committee {
			signers = []*acct{sender, committee, signers[1]}
		}
	}
	c := s.newCand(r, signers, 0)
	c.tx.SystemFee = 100_0000
	c.tx.ValidUntilBlock = height + 6
	c.tx.Attributes = []transaction.Attribute{attr}
	c.finish(0)
	if at == transaction.ConflictsT {
		mult = int64(len(c.tx.Signers))
	}
	t, _ := transaction.NewTransactionFromBytes(c.tx.Bytes())
	if err := A.bc.PoolTx(t); err != nil {
		o.Count("proposal:carried-attr:not-pooled:" + classify(err))
		return nil
	}
	left := c.tx.NetworkFee - c.need
	d := []int64{1, 1, 0, -1, int64(r.Range(2, 100000))}[r.Intn(5)]
	if k == 13 {
		d = 1
	}
	up := max((left+d+mult-1)/mult, 1)
	o.Count(fmt.Sprintf("proposal:carried-attr:type=%d,edge%+d", at, min(d, 2)))
	v := min(s.attrFeeOf(at)+up, 10_0000_0000)
	return func() *transaction.Transaction { return A.policyTx("setAttributeFee", int64(at), v) }
}
