package main

// testing.TB shim so that pkg/neotest can be driven from an ordinary binary.
// FailNow panics with tbFail; the per-case wrapper recovers it.

import (
	"fmt"
	"os"
	"testing"
)

type tbFail struct{ msg string }

type shimTB struct {
	testing.TB // nil: only to satisfy the private method of the interface
	cleanups   []func()
	failed     bool
	msgs       []string
}

func (s *shimTB) Cleanup(f func())          { s.cleanups = append(s.cleanups, f) }
func (s *shimTB) Error(a ...any)            { s.failed = true; s.msgs = append(s.msgs, fmt.Sprint(a...)) }
func (s *shimTB) Errorf(f string, a ...any) { s.failed = true; s.msgs = append(s.msgs, fmt.Sprintf(f, a...)) }
func (s *shimTB) Fail()                     { s.failed = true }
func (s *shimTB) FailNow() {
	s.failed = true
	m := ""
	if len(s.msgs) > 0 {
		m = s.msgs[len(s.msgs)-1]
	}
	panic(tbFail{m})
}
func (s *shimTB) Failed() bool              { return s.failed }
func (s *shimTB) Fatal(a ...any)            { s.Error(a...); s.FailNow() }
func (s *shimTB) Fatalf(f string, a ...any) { s.Errorf(f, a...); s.FailNow() }
func (s *shimTB) Helper()                   {}
func (s *shimTB) Log(a ...any)              {}
func (s *shimTB) Logf(f string, a ...any)   {}
func (s *shimTB) Name() string              { return "verif-fees" }
func (s *shimTB) Setenv(k, v string)        { os.Setenv(k, v) }
func (s *shimTB) Skip(a ...any)             { panic(tbFail{"skip"}) }
func (s *shimTB) SkipNow()                  { panic(tbFail{"skip"}) }
func (s *shimTB) Skipf(f string, a ...any)  { panic(tbFail{"skip"}) }
func (s *shimTB) Skipped() bool             { return false }
func (s *shimTB) TempDir() string {
	d, err := os.MkdirTemp("", "verif-fees")
	if err != nil {
		panic(err)
	}
	s.Cleanup(func() { os.RemoveAll(d) })
	return d
}

// done runs the registered cleanups (LIFO).
func (s *shimTB) done() {
	for i := len(s.cleanups) - 1; i >= 0; i-- {
		s.cleanups[i]()
	}
	s.cleanups = nil
}
