package main

// rig: the real bqueue.Queue driven one atomic step at a time.
//
// The Run goroutine of the real queue only touches shared state inside its lock sections and through
// the Queuer it was given. The stub Queuer below parks the Run goroutine inside Height() and AddItem()
// until the harness releases it, and the third place where Run can stop (`<-checkBlocks`) is detected
// from the goroutine's state. So the harness decides the order of all critical sections:
//
//	model pc        real goroutine
//	init            parked in the first Height() call (queue.go:93)
//	wait            blocked on <-checkBlocks (queue.go:95)
//	top             parked in Height() (queue.go:100), value not chosen yet
//	haveH h         parked in Height(), the harness has recorded h = height at that moment; the value is
//	                handed over when the lock section is to run — reading a height has no side effect, so
//	                "read h, other steps happen, lock section" is the same run as "other steps happen,
//	                Height() returns the old h, lock section"
//	holding b       parked in AddItem(b) before its effect on the chain
//	added b         parked in AddItem(b) after its effect, before it returns to Run
//	done            Run returned
//
// Put is called on the harness goroutine; its Height() call gets the stale value chosen by the case.

import (
	"bytes"
	"errors"
	"fmt"
	"reflect"
	"runtime"
	"strconv"
	"sync"
	"time"
	"unsafe"

	"github.com/nspcc-dev/neo-go/pkg/network/bqueue"
	"go.uber.org/zap"
)

type elem struct {
	idx uint32
	tag int
	ok  bool
}

func (e *elem) GetIndex() uint32 { return e.idx }

type phys int

const (
	pInit phys = iota
	pWait
	pTop
	pHaveH
	pHolding
	pAdded
	pDone
)

type event struct {
	kind string // "A" Height entered by Run, "B" AddItem entered by Run, "done"
	b    *elem
}

type addCall struct {
	idx     uint32
	tag     int
	ok      bool   // outcome
	heightB uint32 // chain height when the effect was applied
	valid   bool
}

type chain struct {
	mu        sync.Mutex
	height    uint32
	runGID    uint64
	putH      uint32
	logStage  int    // 1: the `Height() < index` test of the logging branch is next, 2: the Height() inside the log call
	logIdx    uint32
	events    chan event
	relH      chan uint32
	relEffect chan struct{}
	relReturn chan struct{}
	effectAck chan error
	calls     []addCall
	applied   []uint32 // every index applied to the chain, in order (queue or external)
}

func curGID() uint64 {
	var buf [64]byte
	n := runtime.Stack(buf[:], false)
	// "goroutine 123 ["
	f := bytes.Fields(buf[:n])
	id, _ := strconv.ParseUint(string(f[1]), 10, 64)
	return id
}

var errRejected = errors.New("rejected")

func (c *chain) Height() uint32 {
	if curGID() != c.runGID {
		return c.putH
	}
	c.mu.Lock()
	if c.logStage != 0 { // the Height() calls of the logging branch after a failed AddItem (queue.go:122-125)
		h := c.height
		if c.logStage == 1 && h < c.logIdx {
			c.logStage = 2
		} else {
			c.logStage = 0
		}
		c.mu.Unlock()
		return h
	}
	c.mu.Unlock()
	c.events <- event{kind: "A"}
	return <-c.relH
}

func (c *chain) AddItem(b *elem) error {
	c.events <- event{kind: "B", b: b}
	<-c.relEffect
	c.mu.Lock()
	var err error
	ok := b.ok && b.idx == c.height+1
	c.calls = append(c.calls, addCall{idx: b.idx, tag: b.tag, ok: ok, heightB: c.height, valid: b.ok})
	if ok {
		c.height++
		c.applied = append(c.applied, b.idx)
	} else {
		err = errRejected
	}
	c.mu.Unlock()
	c.effectAck <- err
	<-c.relReturn
	if err != nil {
		c.mu.Lock()
		c.logStage, c.logIdx = 1, b.idx
		c.mu.Unlock()
	}
	return err
}

func (c *chain) AddItems(...*elem) error { panic("AddItems is not used by bqueue.Queue") }

type rig struct {
	q        *bqueue.Queue[*elem]
	c        *chain
	cap      int
	st       phys
	pendingH uint32
	held     *elem
	lenSeen  []int
	disc     bool
}

func newRig(cacheSize int, h0 uint32) *rig {
	c := &chain{height: h0, events: make(chan event, 4), relH: make(chan uint32), relEffect: make(chan struct{}),
		relReturn: make(chan struct{}), effectAck: make(chan error)}
	r := &rig{c: c, cap: cacheSize}
	r.q = bqueue.New[*elem](c, zap.NewNop(), nil, cacheSize, func(l int) { r.lenSeen = append(r.lenSeen, l) }, bqueue.NonBlocking)
	ready := make(chan struct{})
	go func() {
		c.runGID = curGID()
		close(ready)
		r.q.Run()
		c.events <- event{kind: "done"}
	}()
	<-ready
	ev := <-c.events // first Height() call
	if ev.kind != "A" {
		panic("rig: unexpected first event " + ev.kind)
	}
	r.st = pInit
	return r
}

// runParked reports whether the Run goroutine is blocked on the channel receive inside Run itself.
func (r *rig) runParked() bool {
	buf := make([]byte, 1<<16)
	n := runtime.Stack(buf, true)
	hdr := []byte(fmt.Sprintf("goroutine %d [", r.c.runGID))
	i := bytes.Index(buf[:n], hdr)
	if i < 0 {
		return false
	}
	rest := buf[i+len(hdr) : n]
	j := bytes.IndexByte(rest, ']')
	if j < 0 {
		return false
	}
	status := string(rest[:j])
	if len(status) < 12 || status[:12] != "chan receive" {
		return false
	}
	// first frame line after the header line
	k := bytes.IndexByte(rest, '\n')
	if k < 0 {
		return false
	}
	line := rest[k+1:]
	if e := bytes.IndexByte(line, '\n'); e >= 0 {
		line = line[:e]
	}
	return bytes.Contains(line, []byte("bqueue.(*Queue")) && bytes.Contains(line, []byte(".Run("))
}

// settle waits until the Run goroutine is at one of its stopping points again.
func (r *rig) settle() {
	deadline := time.Now().Add(20 * time.Second)
	spins := 0
	for {
		select {
		case ev := <-r.c.events:
			switch ev.kind {
			case "A":
				r.st = pTop
			case "B":
				r.st = pHolding
				r.held = ev.b
			case "done":
				r.st = pDone
			}
			return
		default:
		}
		spins++
		if spins < 20 {
			runtime.Gosched()
			continue
		}
		if r.runParked() {
			// make sure no event slipped in between
			select {
			case ev := <-r.c.events:
				switch ev.kind {
				case "A":
					r.st = pTop
				case "B":
					r.st = pHolding
					r.held = ev.b
				case "done":
					r.st = pDone
				}
			default:
				r.st = pWait
			}
			return
		}
		if time.Now().After(deadline) {
			panic("rig: Run goroutine did not reach a stopping point")
		}
		time.Sleep(20 * time.Microsecond)
	}
}

// step performs one step of the Run goroutine. It returns the AddItem call made, if any.
func (r *rig) step() *addCall {
	switch r.st {
	case pInit:
		r.c.mu.Lock()
		h := r.c.height
		r.c.mu.Unlock()
		r.c.relH <- h
		r.settle()
	case pWait, pDone:
		// nothing is enabled
	case pTop:
		r.c.mu.Lock()
		r.pendingH = r.c.height
		r.c.mu.Unlock()
		r.st = pHaveH
	case pHaveH:
		r.c.relH <- r.pendingH
		r.settle()
	case pHolding:
		r.c.relEffect <- struct{}{}
		<-r.c.effectAck
		r.st = pAdded
		r.c.mu.Lock()
		ac := r.c.calls[len(r.c.calls)-1]
		r.c.mu.Unlock()
		return &ac
	case pAdded:
		r.c.relReturn <- struct{}{}
		r.settle()
	}
	return nil
}

func (r *rig) put(e *elem, hr uint32) {
	r.c.putH = hr
	if err := r.q.Put(e); err != nil {
		panic("rig: Put returned an error: " + err.Error())
	}
	if r.st == pWait {
		r.settle()
	}
}

func (r *rig) advance() {
	r.c.mu.Lock()
	r.c.height++
	r.c.applied = append(r.c.applied, r.c.height)
	r.c.mu.Unlock()
}

func (r *rig) discard() {
	r.q.Discard()
	r.disc = true
	if r.st == pWait {
		r.settle()
	}
}

func (r *rig) height() uint32 {
	r.c.mu.Lock()
	defer r.c.mu.Unlock()
	return r.c.height
}

// quiesce lets Run go on until it blocks on the channel or exits.
func (r *rig) quiesce(onCall func(*addCall)) {
	for n := 0; r.st != pWait && r.st != pDone; n++ {
		if n > 1000000 {
			panic("rig: quiesce does not terminate")
		}
		if ac := r.step(); ac != nil && onCall != nil {
			onCall(ac)
		}
	}
}

// shutdown releases the goroutine at the end of a case.
func (r *rig) shutdown() {
	if !r.disc {
		r.discard()
	}
	r.quiesce(nil)
}

func (r *rig) pcString() string {
	switch r.st {
	case pInit:
		return "init"
	case pWait:
		return "wait"
	case pTop:
		return "top"
	case pHaveH:
		return fmt.Sprintf("haveH:%d", r.pendingH)
	case pHolding:
		return fmt.Sprintf("holding:%d/%d", r.held.idx, r.held.tag)
	case pAdded:
		return fmt.Sprintf("added:%d/%d", r.held.idx, r.held.tag)
	}
	return "done"
}

func (r *rig) obs() string {
	lq, left := r.q.LastQueued()
	return fmt.Sprintf("pc=%s lq=%d left=%d h=%d", r.pcString(), lq, left, r.height())
}

// occupied reads the number of non-nil slots of the unexported ring (read-only, all goroutines
// parked). Returns -1 if the field cannot be found (then the len oracle is skipped).
func (r *rig) occupied() (n int) {
	defer func() {
		if recover() != nil {
			n = -1
		}
	}()
	v := reflect.ValueOf(r.q).Elem().FieldByName("queue")
	if !v.IsValid() || v.Kind() != reflect.Slice {
		return -1
	}
	s := reflect.NewAt(v.Type(), unsafe.Pointer(v.UnsafeAddr())).Elem().Interface().([]*elem)
	for _, e := range s {
		if e != nil {
			n++
		}
	}
	return n
}
