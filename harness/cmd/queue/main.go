// Command queue: correspondence + oracle stream for the block queue (C20 a).
//
// Each case builds a real bqueue.Queue over a stub chain, then executes a PRNG-chosen schedule of atomic
// steps (see rig.go): puts from "concurrent producers" (with the stale height a concurrent producer may
// have read), single steps of the Run goroutine, blocks added to the chain by another writer, Discard.
// One line per step: the op for the Lean model and what the real queue shows (Run's position,
// LastQueued, chain height, the AddItem call made).
//
// Oracle on the real code (independent of the model):
//   - additem-ahead: Run offered the chain an element above height+1 (the element is dropped unapplied)
//   - applied-order: the chain's applied indices are not h0+1, h0+2, …
//   - stuck: after letting Run go until it blocks, the chain is below the highest contiguous index it
//     was given (valid element put inside the window, or applied by another writer)
//   - len-drift: with Run blocked, capacity left reported by LastQueued ≠ cap − occupied slots
package main

import (
	"fmt"
	"os"
	"strings"
	"time"

	"verif/harness/internal/hx"
	"verif/harness/internal/prng"
)

type kase struct {
	k       int
	o       *hx.Out
	r       *rig
	cap     int
	h0      uint32
	given   map[uint32]bool // valid element put inside the window
	tainted map[uint32]bool // an invalid element with this index was put
	hasAdv  bool
	// schedule classes of the three known defects (Props/C20.lean: queue_offers_only_next,
	// queue_no_external_writer_never_stuck, queue_len_drift_witness); a failure outside its class is a new one
	raced       bool // an external addition fell between Run's height read and its lock section (not Calm)
	advAsleep   bool // the last external addition came while Run was blocked on checkBlocks or between its height read and lock section ...
	sigAfterAdv bool // ... and a Put signalled since then
	staleInsert bool // a producer with a stale height got an index past its window check that the chain had passed
	pendingNotify int // external additions the server has not told the queue about yet
	slotReuse   bool // a Put went into the slot of the element Run holds between its two lock sections (same slot, higher index)
	ahead   bool
	nextTag int
	trace   []string
}

func (c *kase) line(op string, extra string) {
	obs := c.r.obs()
	if extra != "" {
		obs += " " + extra
	}
	c.o.Line(op, obs)
	c.trace = append(c.trace, op)
}

func (c *kase) onCall(ac *addCall) string {
	c.o.Count("additem:" + map[bool]string{true: "ok", false: "rejected"}[ac.ok])
	if ac.idx > ac.heightB+1 {
		c.ahead = true
		key := "additem-ahead"
		if c.raced {
			key = "additem-ahead-ext"
		}
		c.o.Fail(key, c.k, "Run called AddItem(index %d) at chain height %d (cap %d): the element is dropped unapplied; schedule: %s",
			ac.idx, ac.heightB, c.cap, strings.Join(c.trace, "; "))
	}
	if !ac.ok && ac.idx <= ac.heightB {
		c.o.Count("additem:stale")
	}
	return fmt.Sprintf("add=%d/%d:%v", ac.idx, ac.tag, ac.ok)
}

func (c *kase) doPut(idx uint32, ok bool, hr uint32) {
	e := &elem{idx: idx, tag: c.nextTag, ok: ok}
	c.nextTag++
	c.r.put(e, hr)
	if !c.r.disc && idx > hr && idx <= hr+uint32(c.cap) {
		c.sigAfterAdv = true // queue.go:196-201: every Put that gets this far signals
		if (c.r.st == pHolding || c.r.st == pAdded) && c.r.held != nil && idx > c.r.held.idx && (idx-c.r.held.idx)%uint32(c.cap) == 0 {
			c.slotReuse = true
			c.o.Count("put:into-the-slot-run-holds")
		}
		if idx <= c.r.height() {
			c.staleInsert = true
			c.o.Count("put:stale-index-past-the-check")
		}
		if ok {
			c.given[idx] = true
		} else {
			c.tainted[idx] = true
		}
		c.o.Count("put:in-window")
	} else if idx <= hr {
		c.o.Count("put:old")
	} else {
		c.o.Count("put:beyond-window")
	}
	if hr < c.r.height() {
		c.o.Count("put:stale-height")
	}
	b := 0
	if ok {
		b = 1
	}
	c.line(fmt.Sprintf("put %d %d %d %d", idx, e.tag, b, hr), "")
}

func (c *kase) doRun() {
	ac := c.r.step()
	extra := ""
	if ac != nil {
		extra = c.onCall(ac)
	}
	c.line("run", extra)
}

func (c *kase) doAdv() {
	c.hasAdv = true
	if c.r.st == pHaveH {
		c.raced = true
		c.o.Count("adv:between-read-and-lock")
	}
	// Run will not look at the chain height again before it blocks: it is blocked already, or it has read the
	// height for its next lock section
	c.advAsleep, c.sigAfterAdv = c.r.st == pWait || c.r.st == pHaveH, false
	if c.advAsleep {
		c.o.Count("adv:while-run-blocked")
	}
	c.r.advance()
	// Server.relayBlocksLoop hears of the block from the ledger's subscription and calls Queue.Notify (aea938c):
	// some time later, so it is a step of its own (delivered at a random later point, at the latest before the
	// end-of-case oracle)
	c.pendingNotify++
	c.line("adv", "")
}

// doNotify delivers one pending notification of an external addition.
func (c *kase) doNotify() {
	c.pendingNotify--
	n, ok := any(c.r.q).(interface{ Notify() })
	if !ok {
		return // a queue without Notify (the code before aea938c)
	}
	n.Notify()
	if c.r.st == pWait {
		c.r.settle() // Run may have been woken
	}
	c.sigAfterAdv = true
	c.o.Count("op:notify")
	c.line("notify", "")
}

func (c *kase) doQuiesce() {
	var parts []string
	c.r.quiesce(func(ac *addCall) { parts = append(parts, c.onCall(ac)) })
	c.line("quiesce", strings.Join(parts, ","))
}

// finalChecks runs the end-of-case oracle.
func (c *kase) finalChecks() {
	r := c.r
	// applied-order
	r.c.mu.Lock()
	applied := append([]uint32{}, r.c.applied...)
	r.c.mu.Unlock()
	for i, a := range applied {
		if a != c.h0+1+uint32(i) {
			c.o.Fail("applied-order", c.k, "applied indices %v do not continue %d", applied, c.h0)
			break
		}
	}
	if r.disc {
		return
	}
	for c.pendingNotify > 0 { // every external addition is eventually followed by its notification
		c.doNotify()
	}
	c.doQuiesce()
	h := r.height()
	// highest contiguous index given
	m := h
	for {
		n := m + 1
		if c.given[n] && !c.tainted[n] {
			m = n
		} else {
			break
		}
	}
	if m > h && !c.ahead {
		key := "stuck"
		if c.hasAdv && c.advAsleep && !c.sigAfterAdv {
			key = "stuck-ext"
		}
		c.o.Fail(key, c.k, "Run is blocked at height %d although valid in-window elements up to %d were put (cap %d); schedule: %s",
			h, m, c.cap, strings.Join(c.trace, "; "))
	}
	if m > c.h0 {
		c.o.Count("final:progress")
	}
	if r.st == pWait {
		if occ := r.occupied(); occ >= 0 {
			_, left := r.q.LastQueued()
			if left != c.cap-occ {
				c.o.Count("final:len-drift")
				// `len` is the number of occupied slots for every schedule (queue_len_exact, after 3d50aab and
				// 6d1ab5f): both directions are regressions of defects this check found (len-drift, len-undercount)
				key := "len-drift"
				if left > c.cap-occ {
					key = "len-undercount-fresh"
					if c.slotReuse || c.hasAdv || c.staleInsert {
						key = "len-undercount"
					}
				}
				c.o.Fail(key, c.k, "Run blocked, %d of %d slots occupied, LastQueued reports %d left; schedule: %s",
					occ, c.cap, left, strings.Join(c.trace, "; "))
			}
			if occ > 0 {
				c.o.Count("final:garbage-left")
			}
		}
	}
}

func (c *kase) start(capacity int, h0 uint32) {
	c.cap, c.h0 = capacity, h0
	c.r = newRig(capacity, h0)
	c.given, c.tainted = map[uint32]bool{}, map[uint32]bool{}
	c.line(fmt.Sprintf("new %d %d", capacity, h0), "")
}

type script func(c *kase)

// corpus: hand-written schedules that run first.
var corpus = []script{
	// the repo's own test pattern, small capacity
	func(c *kase) {
		c.start(8, 0)
		c.doPut(3, true, 0)
		c.doPut(4, true, 0)
		for i := uint32(1); i < 5; i++ {
			c.doPut(i, true, 0)
		}
		c.doPut(9, true, 0)
		c.doRun()
		c.doQuiesce()
		for i := uint32(1); i < 5; i++ {
			c.doPut(i, true, 4)
		}
		c.doPut(8, true, 4)
		c.doPut(7, true, 4)
		c.doPut(6, true, 4)
		c.doPut(5, true, 4)
	},
	// wrap-around of the ring, lastQ loop stops at the end of the ring
	func(c *kase) {
		c.start(4, 0)
		c.doRun()
		for i := uint32(1); i <= 4; i++ {
			c.doPut(i, true, 0)
		}
		c.doQuiesce()
		for i := uint32(5); i <= 8; i++ {
			c.doPut(i, true, 4)
		}
	},
	// another writer adds h+1 while h+2.. are queued and Run sleeps: nothing wakes Run
	func(c *kase) {
		c.start(4, 10)
		c.doRun()
		c.doPut(12, true, 10)
		c.doPut(13, true, 10)
		c.doQuiesce()
		c.doAdv()
	},
	// Run reads the height, another writer adds a block, a producer puts the top of the window
	func(c *kase) {
		c.start(4, 5)
		c.doRun()
		c.doPut(7, true, 5)
		c.doRun() // top -> haveH 5
		c.doAdv() // height 6
		c.doPut(10, true, 6)
		c.doRun()
		c.doRun()
		c.doRun()
	},
	// a producer with a stale height leaves an applied element behind; its successor replaces it: len drifts
	func(c *kase) {
		c.start(4, 0)
		c.doRun()
		c.doPut(1, true, 0)
		c.doQuiesce()
		c.doPut(1, true, 0) // stale read: 1 is already applied
		c.doQuiesce()
		c.doPut(5, true, 1)
		c.doPut(2, true, 1)
		c.doPut(3, true, 1)
		c.doPut(4, true, 1)
	},
	// capacity 1: the clean-up loop's condition can hold
	func(c *kase) {
		c.start(1, 0)
		c.doRun()
		c.doPut(1, true, 0)
		c.doAdv()
		c.doAdv()
		c.doQuiesce()
		c.doPut(3, true, 2)
	},
	// invalid element first, valid duplicate is thrown away, retry after rejection
	func(c *kase) {
		c.start(4, 0)
		c.doRun()
		c.doPut(1, false, 0)
		c.doPut(1, true, 0)
		c.doQuiesce()
		c.doPut(1, true, 0)
	},
	// discard while Run holds an element
	func(c *kase) {
		c.start(4, 0)
		c.doRun()
		c.doPut(1, true, 0)
		c.doPut(2, true, 0)
		c.doRun()
		c.doRun()
		c.r.discard()
		c.line("disc", "")
		c.doRun()
		c.doRun()
		c.doPut(3, true, 1)
		c.doQuiesce()
	},
}

func genCase(c *kase, r *prng.R) {
	caps := []int{1, 2, 2, 3, 3, 4, 4, 4, 5, 6, 8, 8, 16}
	capacity := caps[r.Intn(len(caps))]
	var h0 uint32
	switch r.Intn(4) {
	case 0:
		h0 = 0
	case 1:
		h0 = uint32(r.Intn(5))
	case 2:
		h0 = uint32(capacity*r.Range(1, 3) + r.Range(-1, 1))
	default:
		h0 = uint32(r.Intn(40))
	}
	c.start(capacity, h0)
	// profile
	wPut, wRun, wAdv := 10, 10, 0
	profile := r.Intn(6)
	switch profile {
	case 0: // everything through the queue
		c.o.Count("profile:queue-only")
	case 1:
		wAdv = 1
		c.o.Count("profile:rare-external")
	case 2:
		wAdv = 5
		c.o.Count("profile:external-heavy")
	case 3:
		wRun = 3
		c.o.Count("profile:run-starved")
	case 4:
		wRun = 25
		c.o.Count("profile:run-eager")
	default:
		wAdv = 2
		wRun = 20
		c.o.Count("profile:mixed")
	}
	invalidPct := 0
	if r.Chance(1, 4) {
		invalidPct = 10
	}
	stalePct := []int{0, 10, 30}[r.Intn(3)]
	discardAt := -1
	nOps := r.Range(10, 70)
	if r.Chance(1, 10) {
		discardAt = r.Intn(nOps)
	}
	// producers walk upwards with jitter; "next" is what a well-behaved peer would send next
	next := h0 + 1
	for i := 0; i < nOps; i++ {
		if c.pendingNotify > 0 && r.Chance(1, 3) {
			c.doNotify()
		}
		if i == discardAt {
			c.r.discard()
			c.line("disc", "")
			c.o.Count("op:disc")
			continue
		}
		switch r.Weighted([]int{wPut, wRun, wAdv}) {
		case 0:
			h := c.r.height()
			var idx uint32
			switch r.Intn(10) {
			case 0, 1, 2, 3: // the sequence, possibly repeated by another peer
				idx = next
				if r.Chance(3, 4) {
					next++
				}
			case 4: // near the tip
				idx = h + uint32(r.Range(0, 3))
			case 5: // top of the window
				idx = h + uint32(capacity) + uint32(r.Range(-1, 1))
			case 6: // one ring ahead of something near the tip
				idx = h + uint32(r.Range(1, 2)) + uint32(capacity)*uint32(r.Range(0, 1))
			case 7: // far ahead
				idx = h + uint32(capacity) + uint32(r.Range(2, 20))
			case 8: // old
				if h > 0 {
					idx = h - uint32(r.Intn(int(min(h, 3))+1))
				}
			default:
				idx = h + uint32(r.Range(1, capacity+1))
			}
			hr := h
			if r.Intn(100) < stalePct && h > c.h0 {
				hr = h - uint32(r.Range(1, int(min(h-c.h0, 3))))
			}
			ok := r.Intn(100) >= invalidPct
			c.doPut(idx, ok, hr)
			c.o.Count("op:put")
		case 1:
			c.doRun()
			c.o.Count("op:run")
		default:
			c.doAdv()
			c.o.Count("op:adv")
		}
	}
	c.o.Count(fmt.Sprintf("cap:%d", capacity))
}

func main() {
	f := hx.ParseFlags()
	o := hx.NewOut(f.Out)
	defer o.Close()
	n := f.N(2000, 100000)
	for k := 0; k < n; k++ {
		if !f.Want(k) {
			continue
		}
		r := prng.ForCase(f.Seed, k)
		o.Case(k)
		c := &kase{k: k, o: o}
		// a step that never returns (deadlock in the real queue) must not hang the check
		wd := time.AfterFunc(60*time.Second, func() {
			o.Fail("hang", k, "a step of the real queue did not return within 60 s; schedule so far: %s", strings.Join(c.trace, "; "))
			o.Close()
			os.Exit(0)
		})
		if k < len(corpus) {
			corpus[k](c)
			o.Count("corpus")
		} else {
			genCase(c, r)
		}
		c.finalChecks()
		c.r.shutdown()
		wd.Stop()
		o.Seen(strings.Join(c.trace, ";"))
		if k >= len(corpus) && k < len(corpus)+3 {
			o.Sample(strings.Join(c.trace, "; "))
		}
	}
}
