package main

// A fresh single-node neotest chain with the interpreter contracts deployed,
// and the observation of the ledger state the property talks about.

import (
	"bytes"
	"encoding/json"
	"fmt"
	"math/big"
	"sort"

	"github.com/nspcc-dev/neo-go/pkg/config"
	"github.com/nspcc-dev/neo-go/pkg/core"
	"github.com/nspcc-dev/neo-go/pkg/core/native/nativenames"
	"github.com/nspcc-dev/neo-go/pkg/core/state"
	"github.com/nspcc-dev/neo-go/pkg/core/transaction"
	"github.com/nspcc-dev/neo-go/pkg/neotest"
	"github.com/nspcc-dev/neo-go/pkg/neotest/chain"
	"github.com/nspcc-dev/neo-go/pkg/encoding/bigint"
	"github.com/nspcc-dev/neo-go/pkg/smartcontract"
	"github.com/nspcc-dev/neo-go/pkg/smartcontract/manifest"
	"github.com/nspcc-dev/neo-go/pkg/smartcontract/nef"
	"github.com/nspcc-dev/neo-go/pkg/vm/opcode"
	"github.com/nspcc-dev/neo-go/pkg/util"
	"github.com/nspcc-dev/neo-go/pkg/vm/stackitem"
	"go.uber.org/zap"
)

type env struct {
	tb     *shimTB
	bc     *core.Blockchain
	e      *neotest.Executor
	comm   neotest.Signer // validator = committee (single node)
	sender neotest.Signer // pays for the case transactions
	w      world
	ids    [numContracts]int32
	gasID  int32
	neoID  int32
	polID  int32
	mgmtID int32
	nonce  uint32
}

// nonces are per-chain counters (neotest.Nonce is a process-wide counter: fine too, but this keeps
// a case independent of the cases before it).
func (v *env) nextNonce() uint32 { v.nonce++; return v.nonce + 1000 }

var interp = buildInterp()

func newEnv() *env {
	config.Version = "verif"
	tb := &shimTB{}
	bc, comm := chain.NewSingleWithOptions(tb, &chain.Options{Logger: zap.NewNop()})
	e := neotest.NewExecutor(tb, bc, comm, comm)
	v := &env{tb: tb, bc: bc, e: e, comm: comm}
	v.w.gas = e.NativeHash(tb, nativenames.Gas)
	v.w.neo = e.NativeHash(tb, nativenames.Neo)
	v.w.policy = e.NativeHash(tb, nativenames.Policy)
	v.gasID = e.NativeID(tb, nativenames.Gas)
	v.neoID = e.NativeID(tb, nativenames.Neo)
	v.polID = e.NativeID(tb, nativenames.Policy)
	v.w.mgmt = e.NativeHash(tb, nativenames.Management)
	v.mgmtID = e.NativeID(tb, nativenames.Management)
	v.w.plain = map[int]util.Uint160{}
	for _, a := range plainAccounts {
		// descending hashes for ascending numbers: block-list insert positions vary
		v.w.plain[a] = util.Uint160{byte(0xf0 - a), 8, 8, byte(a)}
	}
	v.sender = e.NewAccount(tb, 100000_0000_0000)
	for d := 0; d < numAux; d++ {
		ne, err := nef.NewFile([]byte{byte(opcode.RET)})
		if err != nil {
			panic(err)
		}
		m := manifest.DefaultManifest(fmt.Sprintf("aux%d", d))
		m.ABI.Methods = []manifest.Method{{Name: "x", Offset: 0, ReturnType: smartcontract.VoidType, Parameters: []manifest.Parameter{}}}
		v.w.auxNef[d], err = ne.Bytes()
		if err != nil {
			panic(err)
		}
		v.w.auxMan[d], err = json.Marshal(m)
		if err != nil {
			panic(err)
		}
		v.w.auxHash[d] = state.CreateContractHash(v.sender.ScriptHash(), ne.Checksum, m.Name)
	}
	// deploy the interpreter contracts in one block
	var txs []*transaction.Transaction
	for i := 0; i < numContracts; i++ {
		ne, m := interpContract(fmt.Sprintf("interp%d", i), interp)
		h := state.CreateContractHash(comm.ScriptHash(), ne.Checksum, m.Name)
		v.w.hashes[i] = h
		rawM, err := json.Marshal(m)
		if err != nil {
			panic(err)
		}
		neb, err := ne.Bytes()
		if err != nil {
			panic(err)
		}
		script, err := smartcontract.CreateCallScript(bc.ManagementContractHash(), "deploy", neb, rawM, nil)
		if err != nil {
			panic(err)
		}
		tx := transaction.New(script, 0)
		tx.Nonce = v.nextNonce()
		tx.ValidUntilBlock = bc.BlockHeight() + 1
		e.SignTx(tb, tx, 20_0000_0000, comm)
		txs = append(txs, tx)
	}
	e.AddNewBlock(tb, txs...)
	for i, tx := range txs {
		e.CheckHalt(tb, tx.Hash())
		cs := bc.GetContractState(v.w.hashes[i])
		if cs == nil {
			panic("interpreter contract not deployed")
		}
		v.ids[i] = cs.ID
	}
	return v
}

func (v *env) close() { v.tb.done() }

// newTx builds a signed transaction with the given script, paid by the sender;
// withCommittee adds the committee as a second (Global) signer.
func (v *env) newTx(script []byte, sysFee int64, withCommittee bool) *transaction.Transaction {
	tx := transaction.New(script, 0)
	tx.Nonce = v.nextNonce()
	tx.ValidUntilBlock = v.bc.BlockHeight() + 1
	signers := []neotest.Signer{v.sender}
	if withCommittee {
		signers = append(signers, v.comm)
	}
	return v.e.SignTx(v.tb, tx, sysFee, signers...)
}

// ---------- observation ----------

type kv struct{ c, k, v int }

type snapshot struct {
	store   []kv             // contract storage: (contract index, key, value), sorted
	gas     map[int]*big.Int // GAS balance per contract index; -1 = sender
	neo     map[int]*big.Int
	feePB   int64       // Policy.getFeePerByte via the native cache
	blocked map[int]bool // plain accounts in Policy's blocked list
	aux     map[int]int  // deployed auxiliary contracts: index -> contract ID
	nextID  int
	odd     []string // unexpected storage entries; native cache values that differ from storage
}

func (v *env) snap() *snapshot {
	s := &snapshot{gas: map[int]*big.Int{}, neo: map[int]*big.Int{}}
	for i := 0; i < numContracts; i++ {
		v.bc.SeekStorage(v.ids[i], nil, func(k, val []byte) bool {
			if len(k) == 1 && len(val) == 1 {
				s.store = append(s.store, kv{i, int(k[0]), int(val[0])})
			} else {
				s.odd = append(s.odd, fmt.Sprintf("%d:%x=%x", i, k, val))
			}
			return true
		})
		s.gas[i] = v.bc.GetUtilityTokenBalance(v.w.hashes[i], util.Uint160{})
		nb, _ := v.bc.GetGoverningTokenBalance(v.w.hashes[i])
		s.neo[i] = nb
	}
	s.gas[senderAcc] = v.bc.GetUtilityTokenBalance(v.sender.ScriptHash(), util.Uint160{})
	for _, a := range plainAccounts {
		s.gas[a] = v.bc.GetUtilityTokenBalance(v.w.plain[a], util.Uint160{})
	}
	sort.Slice(s.store, func(a, b int) bool {
		if s.store[a].c != s.store[b].c {
			return s.store[a].c < s.store[b].c
		}
		return s.store[a].k < s.store[b].k
	})
	s.feePB = v.bc.FeePerByte()
	if st := v.bc.GetStorageItem(v.polID, []byte{10}); st == nil || bigint.FromBytes(st).Int64() != s.feePB {
		s.odd = append(s.odd, fmt.Sprintf("feePerByte cache=%d storage=%x", s.feePB, []byte(st)))
	}
	s.blocked = map[int]bool{}
	inv := v.e.CommitteeInvoker(v.w.policy)
	for _, a := range plainAccounts {
		h := v.w.plain[a]
		inStorage := v.bc.GetStorageItem(v.polID, append([]byte{15}, h.BytesBE()...)) != nil
		stk, err := inv.TestInvoke(v.tb, "isBlocked", h)
		if err != nil || stk.Len() != 1 {
			panic(fmt.Sprintf("isBlocked test invocation failed: %v", err))
		}
		inCache := stk.Pop().Bool()
		if inCache != inStorage {
			s.odd = append(s.odd, fmt.Sprintf("blocked[%d] cache=%v storage=%v", a, inCache, inStorage))
		}
		s.blocked[a] = inCache
	}
	s.aux = map[int]int{}
	for d := 0; d < numAux; d++ {
		cs := v.bc.GetContractState(v.w.auxHash[d]) // through the Management cache
		inStorage := v.bc.GetStorageItem(v.mgmtID, append([]byte{8}, v.w.auxHash[d].BytesBE()...)) != nil
		if (cs != nil) != inStorage {
			s.odd = append(s.odd, fmt.Sprintf("aux[%d] cache=%v storage=%v", d, cs != nil, inStorage))
		}
		if cs != nil {
			s.aux[d] = int(cs.ID)
		}
	}
	if st := v.bc.GetStorageItem(v.mgmtID, []byte{15}); st != nil {
		s.nextID = int(bigint.FromBytes(st).Int64())
	}
	return s
}

func storeText(st []kv) string {
	var b bytes.Buffer
	fmt.Fprintf(&b, "%d", len(st))
	for _, e := range st {
		fmt.Fprintf(&b, " %d %d %d", e.c, e.k, e.v)
	}
	return b.String()
}

type event struct{ c, e int }

// eventsOf canonicalises the notifications of an execution result: (contract index, number)
// for the interpreter's event; natives' Transfer events as (100+token, amount).
func (v *env) eventsOf(aer *state.AppExecResult, entry util.Uint160) ([]event, []string) {
	var res []event
	var odd []string
	for _, n := range aer.Events {
		idx := -1
		for i, h := range v.w.hashes {
			if h.Equals(n.ScriptHash) {
				idx = i
			}
		}
		if n.ScriptHash.Equals(entry) {
			idx = entryID
		}
		arr, _ := n.Item.Value().([]stackitem.Item)
		switch {
		case idx >= 0 && n.Name == eventName && len(arr) == 1:
			bi, err := arr[0].TryInteger()
			if err != nil {
				odd = append(odd, "badint")
				continue
			}
			res = append(res, event{idx, int(bi.Int64())})
		case n.Name == "Transfer" && len(arr) == 3 && (n.ScriptHash.Equals(v.w.gas) || n.ScriptHash.Equals(v.w.neo)):
			bi, _ := arr[2].TryInteger()
			t := 100
			if n.ScriptHash.Equals(v.w.neo) {
				t = 101
			}
			res = append(res, event{t, int(bi.Int64())})
		case n.Name == "Deploy" && len(arr) == 1 && n.ScriptHash.Equals(v.w.mgmt):
			b, _ := arr[0].TryBytes()
			d := -1
			for i := range v.w.auxHash {
				if bytes.Equal(b, v.w.auxHash[i].BytesBE()) {
					d = i
				}
			}
			if d < 0 {
				odd = append(odd, "deploy-of-unknown")
				continue
			}
			res = append(res, event{mgmtTab, d})
		default:
			odd = append(odd, n.ScriptHash.StringLE()+":"+n.Name)
		}
	}
	return res, odd
}

func eventsText(ev []event) string {
	var b bytes.Buffer
	fmt.Fprintf(&b, "%d", len(ev))
	for _, e := range ev {
		fmt.Fprintf(&b, " %d %d", e.c, e.e)
	}
	return b.String()
}
