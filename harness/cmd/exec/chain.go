package main

// A fresh single-node neotest chain with the interpreter contracts deployed,
// and the observation of the ledger state the property talks about.

import (
	"bytes"
	"encoding/binary"
	"encoding/json"
	"fmt"
	"sort"

	"github.com/nspcc-dev/neo-go/pkg/config"
	"github.com/nspcc-dev/neo-go/pkg/core"
	"github.com/nspcc-dev/neo-go/pkg/core/native/nativenames"
	"github.com/nspcc-dev/neo-go/pkg/core/state"
	"github.com/nspcc-dev/neo-go/pkg/core/transaction"
	"github.com/nspcc-dev/neo-go/pkg/core/native/noderoles"
	"github.com/nspcc-dev/neo-go/pkg/core/storage"
	"github.com/nspcc-dev/neo-go/pkg/crypto/keys"
	"github.com/nspcc-dev/neo-go/pkg/neotest"
	"github.com/nspcc-dev/neo-go/pkg/neotest/chain"
	"github.com/nspcc-dev/neo-go/pkg/encoding/bigint"
	"github.com/nspcc-dev/neo-go/pkg/smartcontract"
	"github.com/nspcc-dev/neo-go/pkg/smartcontract/callflag"
	"github.com/nspcc-dev/neo-go/pkg/smartcontract/manifest"
	"github.com/nspcc-dev/neo-go/pkg/smartcontract/nef"
	"github.com/nspcc-dev/neo-go/pkg/vm/opcode"
	"github.com/nspcc-dev/neo-go/pkg/util"
	"github.com/nspcc-dev/neo-go/pkg/vm/stackitem"
	"go.uber.org/zap"
)

type env struct {
	tb     *shimTB
	bc     *core.Blockchain
	e      *neotest.Executor
	comm   neotest.Signer // validator = committee (single node)
	sender neotest.Signer // pays for the case transactions
	w      world
	ids    [numContracts]int32
	gasID  int32
	neoID  int32
	polID  int32
	mgmtID int32
	oraID  int32
	nonce  uint32
	store  *storage.MemoryStore
	single neotest.SingleSigner // the committee member's own account (the registered candidate)
	staleSeen bool // the shape of the finding blocked-list-stale-index (fixed by cf4871f) occurred in this chain: a divergence of the blocked-accounts cache is reported under that key
}

// nonces are per-chain counters (neotest.Nonce is a process-wide counter: fine too, but this keeps
// a case independent of the cases before it).
func (v *env) nextNonce() uint32 { v.nonce++; return v.nonce + 1000 }

// the interpreter code of the two classes of contracts: 0,1 (method tokens of natives only) and 2,3 (also tokens
// of `run` of contracts 0 and 1); built once, when the committee (the deployer) and the native hashes are known
var interpCodes [numContracts]*interpCode
var interpNames [numContracts]string

type natTokSpec struct {
	h      func(w *world) util.Uint160
	method string
	n      int
}

var natTokSpecs = []natTokSpec{
	{func(w *world) util.Uint160 { return w.gas }, "transfer", 4}, {func(w *world) util.Uint160 { return w.neo }, "transfer", 4},
	{func(w *world) util.Uint160 { return w.neo }, "vote", 2}, {func(w *world) util.Uint160 { return w.neo }, "registerCandidate", 1},
	{func(w *world) util.Uint160 { return w.neo }, "unregisterCandidate", 1},
	{func(w *world) util.Uint160 { return w.policy }, "setFeePerByte", 1}, {func(w *world) util.Uint160 { return w.policy }, "blockAccount", 1},
	{func(w *world) util.Uint160 { return w.policy }, "unblockAccount", 1},
	{func(w *world) util.Uint160 { return w.policy }, "setWhitelistFeeContract", 4}, {func(w *world) util.Uint160 { return w.policy }, "removeWhitelistFeeContract", 3},
	{func(w *world) util.Uint160 { return w.mgmt }, "deploy", 2}, {func(w *world) util.Uint160 { return w.mgmt }, "update", 2},
	{func(w *world) util.Uint160 { return w.mgmt }, "destroy", 0}, {func(w *world) util.Uint160 { return w.roleMgmt }, "designateAsRole", 2},
	{func(w *world) util.Uint160 { return w.oracle }, "request", 5}, {func(w *world) util.Uint160 { return w.oracle }, "finish", 0},
	{func(w *world) util.Uint160 { return w.notary }, "lockDepositUntil", 2}, {func(w *world) util.Uint160 { return w.notary }, "withdraw", 2},
	{func(w *world) util.Uint160 { return w.neo }, "setGasPerBlock", 1},
}

// flag sets of the method tokens for `run` of contracts 0 and 1
var conTokFlags = []int{15, 5, 7}

func tokKey(h util.Uint160, method string, n int) string { return fmt.Sprintf("%s.%s/%d", h.StringLE(), method, n) }

// fixed node keys for RoleManagement.designateAsRole
var nodeKeyA, nodeKeyB = mustKey("02b3622bf4017bdfe317c58aed5f4c753f206b7db896046fa7d774bbc4bf7f8dc2"), mustKey("02103a7f7dd016558597f7960d27c516a4394fd968b9e65155eb4b013e4040406e")

func mustKey(h string) []byte {
	k, err := keys.NewPublicKeyFromString(h)
	if err != nil {
		panic(err)
	}
	return k.Bytes()
}

func newEnv() *env {
	config.Version = "verif"
	tb := &shimTB{}
	store := storage.NewMemoryStore()
	bc, comm := chain.NewSingleWithOptions(tb, &chain.Options{Logger: zap.NewNop(), Store: store})
	e := neotest.NewExecutor(tb, bc, comm, comm)
	v := &env{tb: tb, bc: bc, e: e, comm: comm, store: store}
	v.single = comm.(neotest.MultiSigner).Single(0)
	v.w.candKey = v.single.Account().PublicKey().Bytes()
	v.w.roleMgmt = e.NativeHash(tb, nativenames.Designation)
	v.w.notary = e.NativeHash(tb, nativenames.Notary)
	v.w.oracle = e.NativeHash(tb, nativenames.Oracle)
	v.oraID = e.NativeID(tb, nativenames.Oracle)

	v.w.nodeSets = map[int][]any{1: {nodeKeyA}, 2: {nodeKeyA, nodeKeyB}}
	v.w.gas = e.NativeHash(tb, nativenames.Gas)
	v.w.neo = e.NativeHash(tb, nativenames.Neo)
	v.w.policy = e.NativeHash(tb, nativenames.Policy)
	v.gasID = e.NativeID(tb, nativenames.Gas)
	v.neoID = e.NativeID(tb, nativenames.Neo)
	v.polID = e.NativeID(tb, nativenames.Policy)
	v.w.mgmt = e.NativeHash(tb, nativenames.Management)
	v.mgmtID = e.NativeID(tb, nativenames.Management)
	v.w.plain = map[int]util.Uint160{}
	for _, a := range plainAccounts {
		// descending hashes for ascending numbers: block-list insert positions vary
		v.w.plain[a] = util.Uint160{byte(0xf0 - a), 8, 8, byte(a)}
	}
	v.sender = e.NewAccount(tb, 100000_0000_0000)
	for d := 0; d < numAux; d++ {
		ne, err := nef.NewFile([]byte{byte(opcode.RET)})
		if err != nil {
			panic(err)
		}
		m := manifest.DefaultManifest(fmt.Sprintf("aux%d", d))
		m.ABI.Methods = []manifest.Method{{Name: "x", Offset: 0, ReturnType: smartcontract.VoidType, Parameters: []manifest.Parameter{}}}
		v.w.auxNef[d], err = ne.Bytes()
		if err != nil {
			panic(err)
		}
		v.w.auxMan[d], err = json.Marshal(m)
		if err != nil {
			panic(err)
		}
		v.w.auxHash[d] = state.CreateContractHash(v.sender.ScriptHash(), ne.Checksum, m.Name)
	}
	// method tokens (static calls, CALLT): natives for every contract, `run` of contracts 0 and 1 for contracts 2 and 3
	var toksA []nef.MethodToken
	v.w.natTok = map[string]int{}
	for _, sp := range natTokSpecs {
		h := sp.h(&v.w)
		cs := bc.GetContractState(h)
		if cs == nil {
			panic("native contract state not found")
		}
		md := cs.Manifest.ABI.GetMethod(sp.method, sp.n)
		if md == nil {
			panic("native method not found: " + sp.method)
		}
		v.w.natTok[tokKey(h, sp.method, sp.n)] = len(toksA)
		toksA = append(toksA, nef.MethodToken{Hash: h, Method: sp.method, ParamCount: uint16(sp.n),
			HasReturn: md.ReturnType != smartcontract.VoidType, CallFlag: callflag.All})
	}
	if interpCodes[0] == nil {
		// contract 0: no hook; contract 1: the reward hook (it names contract 0, whose hash must sort before
		// contract 1's own — the order of Policy's blocked-accounts list — so the name of contract 1 is salted);
		// contracts 2,3: tokens of `run` of contracts 0 and 1
		c0 := buildInterp(len(toksA), nil)
		c0.tokens = toksA
		interpCodes[0], interpNames[0] = &c0, "interp0"
		ne0, m0 := interpContract(interpNames[0], c0)
		h0 := state.CreateContractHash(comm.ScriptHash(), ne0.Checksum, m0.Name)
		v.w.hashes[0] = h0
		c1 := buildInterp(len(toksA), v.w.encList(rewardProgram(), 1))
		c1.tokens = toksA
		interpCodes[1] = &c1
		var h1 util.Uint160
		for salt := 0; ; salt++ {
			interpNames[1] = fmt.Sprintf("interp1_%d", salt)
			ne1, m1 := interpContract(interpNames[1], c1)
			h1 = state.CreateContractHash(comm.ScriptHash(), ne1.Checksum, m1.Name)
			if h0.Compare(h1) < 0 {
				break
			}
		}
		toksB := append([]nef.MethodToken{}, toksA...)
		for _, hc := range []util.Uint160{h0, h1} {
			for _, fl := range conTokFlags {
				toksB = append(toksB, nef.MethodToken{Hash: hc, Method: "run", ParamCount: 1, HasReturn: true, CallFlag: callflag.CallFlag(fl)})
			}
		}
		b := buildInterp(len(toksB), nil)
		b.tokens = toksB
		interpCodes[2], interpCodes[3] = &b, &b
		interpNames[2], interpNames[3] = "interp2", "interp3"
	}
	v.w.conTok = map[[2]int]int{}
	for c := 0; c < 2; c++ {
		for j, fl := range conTokFlags {
			v.w.conTok[[2]int{c, fl}] = len(toksA) + c*len(conTokFlags) + j
		}
	}
	for i := 0; i < numContracts; i++ {
		for k := 0; k < numNefs; k++ {
			ne := nefVariant(*v.code(i), k)
			b, err := ne.Bytes()
			if err != nil {
				panic(err)
			}
			v.w.nefs[i][k], v.w.nefSums[i][k] = b, ne.Checksum
		}
	}
	// deploy the interpreter contracts in one block
	var txs []*transaction.Transaction
	for i := 0; i < numContracts; i++ {
		ne, m := interpContract(interpNames[i], *v.code(i))
		h := state.CreateContractHash(comm.ScriptHash(), ne.Checksum, m.Name)
		v.w.hashes[i] = h
		rawM, err := json.Marshal(m)
		if err != nil {
			panic(err)
		}
		m2 := *m
		m2.Extra = json.RawMessage(`"updated"`)
		if v.w.manifests[i], err = json.Marshal(&m2); err != nil {
			panic(err)
		}
		neb, err := ne.Bytes()
		if err != nil {
			panic(err)
		}
		script, err := smartcontract.CreateCallScript(bc.ManagementContractHash(), "deploy", neb, rawM, nil)
		if err != nil {
			panic(err)
		}
		tx := transaction.New(script, 0)
		tx.Nonce = v.nextNonce()
		tx.ValidUntilBlock = bc.BlockHeight() + 1
		e.SignTx(tb, tx, 20_0000_0000, comm)
		txs = append(txs, tx)
	}
	e.AddNewBlock(tb, txs...)
	for i, tx := range txs {
		e.CheckHalt(tb, tx.Hash())
		cs := bc.GetContractState(v.w.hashes[i])
		if cs == nil {
			panic("interpreter contract not deployed")
		}
		v.ids[i] = cs.ID
	}
	return v
}

func (v *env) close() { v.tb.done() }

// code: the interpreter code of contract i (0: plain; 1: with the reward hook; 2,3: with tokens of contracts 0,1).
func (v *env) code(i int) *interpCode { return interpCodes[i] }

// newTx builds a signed transaction with the given script, paid by the sender;
// withCommittee adds the committee as a second (Global) signer.
func (v *env) newTx(script []byte, sysFee int64, withCommittee bool, more ...neotest.Signer) *transaction.Transaction {
	tx := transaction.New(script, 0)
	tx.Nonce = v.nextNonce()
	tx.ValidUntilBlock = v.bc.BlockHeight() + 1
	signers := []neotest.Signer{v.sender}
	if withCommittee {
		signers = append(signers, v.comm)
	}
	signers = append(signers, more...)
	return v.e.SignTx(v.tb, tx, sysFee, signers...)
}

// planTx builds the transaction of a plan (committee witness, candidate key owner's witness as the plan needs).
func (v *env) planTx(p txPlan, script []byte, fee int64) *transaction.Transaction {
	if p.candWitness {
		return v.newTx(script, fee, p.committee, v.single)
	}
	return v.newTx(script, fee, p.committee)
}

// ---------- observation ----------

type kv struct{ c, k, v int }

type triple struct{ o, k, v int }

type snapshot struct {
	tr  []triple // the ledger state in the model's vocabulary (owner, key, value), sorted
	odd []string // unexpected storage entries; native cache values that differ from storage
	stale []string // blocked-accounts cache vs storage, once the shape of blocked-list-stale-index occurred (regression key)
}

var neoHolders = []int{0, 1, 2, 3, 6, 7}

func (v *env) acc(a int) util.Uint160 {
	if a < numContracts {
		return v.w.hashes[a]
	}
	return v.w.plain[a]
}

// accIndex maps a script hash (BE bytes) to the model's account number (-1: unknown).
func (v *env) accIndex(b []byte) int {
	for _, a := range []int{0, 1, 2, 3, 6, 7, 8} {
		if bytes.Equal(b, v.acc(a).BytesBE()) {
			return a
		}
	}
	return -1
}

func (v *env) testInvoke(h util.Uint160, method string, args ...any) stackitem.Item {
	stk, err := v.e.CommitteeInvoker(h).TestInvoke(v.tb, method, args...)
	if err != nil || stk.Len() != 1 {
		panic(fmt.Sprintf("test invocation of %s failed: %v", method, err))
	}
	return stk.Pop().Item()
}

// snap observes the ledger state. post: the state is that of a just persisted block (NEO
// BalanceHeight == height means "touched in this block"); otherwise it is the pre-state of the
// next block and carries the GAS reward every NEO holder would get on its first touch there.
func (v *env) snap(post bool) *snapshot {
	s := &snapshot{}
	add := func(o, k, val int) { s.tr = append(s.tr, triple{o, k, val}) }
	height := v.bc.BlockHeight()
	for i := 0; i < numContracts; i++ {
		v.bc.SeekStorage(v.ids[i], nil, func(k, val []byte) bool {
			if len(k) == 1 && len(val) == 1 {
				add(i, int(k[0]), int(val[0]))
			} else {
				s.odd = append(s.odd, fmt.Sprintf("%d:%x=%x", i, k, val))
			}
			return true
		})
	}
	for _, a := range []int{0, 1, 2, 3, 6, 7, 8} {
		if g := v.bc.GetUtilityTokenBalance(v.acc(a), util.Uint160{}); g.Sign() != 0 {
			add(gasTab, a, int(g.Int64()))
		}
	}
	if g := v.bc.GetUtilityTokenBalance(v.w.notary, util.Uint160{}); g.Sign() != 0 {
		add(gasTab, notaryAcc, int(g.Int64()))
	}
	add(gasTab, senderAcc, int(v.bc.GetUtilityTokenBalance(v.sender.ScriptHash(), util.Uint160{}).Int64()))
	// NEO accounts
	for _, a := range neoHolders {
		h := v.acc(a)
		bal, hgt := v.bc.GetGoverningTokenBalance(h)
		si := v.bc.GetStorageItem(v.neoID, append([]byte{20}, h.BytesBE()...))
		if (si != nil) != (bal.Sign() != 0) {
			s.odd = append(s.odd, fmt.Sprintf("neo[%d] record=%v balance=%s", a, si != nil, bal))
		}
		if si == nil {
			continue
		}
		add(neoTab, a, int(bal.Int64()))
		nb, err := state.NEOBalanceFromBytes(si)
		if err != nil {
			panic(err)
		}
		if nb.VoteTo != nil {
			add(voteTab, a, 1)
		}
		if post {
			if hgt == height {
				add(neoHTab, a, 1)
			}
		} else if r, err := v.bc.CalculateClaimable(h, height+1); err == nil && r.Sign() != 0 {
			add(rewardTab, a, int(r.Int64()))
		}
	}
	if si := v.bc.GetStorageItem(v.neoID, []byte{1}); si != nil {
		if n := bigint.FromBytes(si); n.Sign() != 0 {
			add(votersTab, 0, int(n.Int64()))
		}
	}
	// Notary deposits
	for i := 0; i < numContracts; i++ {
		if d := v.bc.GetUtilityTokenBalance(v.w.notary, v.w.hashes[i]); d.Sign() != 0 {
			add(notaryTab, i, int(d.Int64()))
		}
	}
	// NEO: GAS per block — the latest record in storage against what the node answers from the cache
	{
		var latest []byte
		v.bc.SeekStorage(v.neoID, []byte{29}, func(k, val []byte) bool { // prefixGASPerBlock + index (BE): ascending
			latest = val
			return true
		})
		inStorage := int(bigint.FromBytes(latest).Int64())
		it := v.testInvoke(v.w.neo, "getGasPerBlock")
		bi, _ := it.TryInteger()
		if int(bi.Int64()) != inStorage {
			s.odd = append(s.odd, fmt.Sprintf("gasPerBlock cache=%d storage=%d", bi.Int64(), inStorage))
		}
		add(gasPBTab, 0, inStorage)
	}
	// Notary: till of every deposit
	for i := 0; i < numContracts; i++ {
		if d := v.bc.GetUtilityTokenBalance(v.w.notary, v.w.hashes[i]); d.Sign() != 0 {
			add(tillTab, i, int(v.bc.GetNotaryDepositExpiration(v.w.hashes[i])))
		}
	}
	// the persisting block's index is an input of the next block
	if !post {
		add(heightTab, 0, int(height)+1)
	}
	// NEO candidate record: [registered, votes]
	if si := v.bc.GetStorageItem(v.neoID, append([]byte{33}, v.w.candKey...)); si != nil {
		it, err := stackitem.Deserialize(si)
		arr, ok := it.Value().([]stackitem.Item)
		if err != nil || !ok || len(arr) != 2 {
			s.odd = append(s.odd, "candidate record")
		} else {
			reg, _ := arr[0].TryBool()
			votes, _ := arr[1].TryInteger()
			if reg {
				add(regTab, 0, 1)
			} else if votes.Sign() == 0 {
				s.odd = append(s.odd, "candidate record neither registered nor voted for")
			}
			if votes.Sign() != 0 {
				add(candTab, 0, int(votes.Int64()))
			}
		}
	}
	// Oracle: next request id, pending requests (record vs id list per URL), GAS of the contract
	if st := v.bc.GetStorageItem(v.oraID, []byte{9}); st != nil {
		next := int(bigint.FromBytes(st).Int64())
		if next != 0 {
			add(oracleTab, 0, next)
		}
		listed := map[uint64]bool{}
		v.bc.SeekStorage(v.oraID, []byte{6}, func(k, val []byte) bool { // prefixIDList + hash160(url) -> list of ids
			it, err := stackitem.Deserialize(val)
			arr, ok := it.Value().([]stackitem.Item)
			if err != nil || !ok {
				s.odd = append(s.odd, "oracle id list")
				return true
			}
			for _, x := range arr {
				bi, _ := x.TryInteger()
				if listed[bi.Uint64()] {
					s.odd = append(s.odd, fmt.Sprintf("oracle id %d listed twice", bi.Uint64()))
				}
				listed[bi.Uint64()] = true
			}
			return true
		})
		nreq := 0
		for id := 0; id < next; id++ {
			req, err := v.oracleRequest(uint64(id))
			if err != nil {
				if listed[uint64(id)] {
					s.odd = append(s.odd, fmt.Sprintf("oracle id %d listed without request", id))
				}
				continue
			}
			nreq++
			if !listed[uint64(id)] {
				s.odd = append(s.odd, fmt.Sprintf("oracle request %d not in its id list", id))
			}
			u := -1
			for i, url := range oracleURLs {
				if req.URL == url {
					u = i
				}
			}
			add(oracleTab, 100+id, 10*u+v.accIndex(req.CallbackContract.BytesBE()))
		}
		if nreq != len(listed) {
			s.odd = append(s.odd, fmt.Sprintf("oracle: %d requests, %d listed ids", nreq, len(listed)))
		}
	}
	if g := v.bc.GetUtilityTokenBalance(v.w.oracle, util.Uint160{}); g.Sign() != 0 {
		add(gasTab, oracleAcc, int(g.Int64()))
	}
	// Policy: fee per byte (cache vs storage), blocked list (cache vs storage), whitelisted fees
	feePB := v.bc.FeePerByte()
	if st := v.bc.GetStorageItem(v.polID, []byte{10}); st == nil || bigint.FromBytes(st).Int64() != feePB {
		s.odd = append(s.odd, fmt.Sprintf("feePerByte cache=%d storage=%x", feePB, []byte(st)))
	}
	add(policyTab, 0, int(feePB))
	for _, a := range []int{0, 1, 2, 3, 6, 7, 8} {
		h := v.acc(a)
		inStorage := v.bc.GetStorageItem(v.polID, append([]byte{15}, h.BytesBE()...)) != nil
		inCache := v.testInvoke(v.w.policy, "isBlocked", h).Value().(bool)
		if inCache != inStorage {
			if v.staleSeen {
				s.stale = append(s.stale, fmt.Sprintf("blocked[%d] cache=%v storage=%v", a, inCache, inStorage))
			} else {
				s.odd = append(s.odd, fmt.Sprintf("blocked[%d] cache=%v storage=%v", a, inCache, inStorage))
			}
		}
		if inCache {
			add(blockTab, a, 1)
		}
	}
	v.bc.SeekStorage(v.polID, []byte{16}, func(k, val []byte) bool {
		it, err := stackitem.Deserialize(val)
		arr, ok := it.Value().([]stackitem.Item)
		if err != nil || !ok || len(arr) != 4 || len(k) != 24 {
			s.odd = append(s.odd, fmt.Sprintf("whitelist entry %x", k))
			return true
		}
		c := -1
		for i, h := range v.w.hashes {
			if bytes.Equal(k[:20], h.BytesBE()) {
				c = i
			}
		}
		fee, _ := arr[3].TryInteger()
		if c < 0 {
			s.odd = append(s.odd, fmt.Sprintf("whitelist entry for unknown contract %x", k))
		} else {
			add(wlTab, c, int(fee.Int64()))
		}
		return true
	})
	// ContractManagement: auxiliary contracts, update counters, destroyed contracts, next ID
	for d := 0; d < numAux; d++ {
		cs := v.bc.GetContractState(v.w.auxHash[d]) // through the Management cache
		inStorage := v.bc.GetStorageItem(v.mgmtID, append([]byte{8}, v.w.auxHash[d].BytesBE()...)) != nil
		if (cs != nil) != inStorage {
			s.odd = append(s.odd, fmt.Sprintf("aux[%d] cache=%v storage=%v", d, cs != nil, inStorage))
		}
		if cs != nil {
			add(mgmtTab, d, int(cs.ID))
		}
	}
	for i := 0; i < numContracts; i++ {
		cs := v.bc.GetContractState(v.w.hashes[i])
		inStorage := v.bc.GetStorageItem(v.mgmtID, append([]byte{8}, v.w.hashes[i].BytesBE()...)) != nil
		if (cs != nil) != inStorage {
			s.odd = append(s.odd, fmt.Sprintf("contract[%d] cache=%v storage=%v", i, cs != nil, inStorage))
		}
		if cs == nil {
			add(mgmtTab, 100+i, 1)
		} else {
			if cs.UpdateCounter != 0 {
				add(mgmtTab, 200+i, int(cs.UpdateCounter))
			}
			nv := -1
			for k, sum := range v.w.nefSums[i] {
				if cs.NEF.Checksum == sum {
					nv = k
				}
			}
			if nv < 0 {
				s.odd = append(s.odd, fmt.Sprintf("contract[%d] has an unknown NEF", i))
			} else if nv != 0 {
				add(mgmtTab, 300+i, nv)
			}
		}
	}
	if st := v.bc.GetStorageItem(v.mgmtID, []byte{15}); st != nil {
		add(mgmtTab, 99, int(bigint.FromBytes(st).Int64()))
	}
	// RoleManagement: what was designated in the block just persisted
	if post {
		for _, r := range roles {
			ks, hgt, err := v.bc.GetDesignatedByRole(noderoles.Role(r))
			if err == nil && hgt == height+1 && len(ks) > 0 {
				add(roleTab, r, len(ks))
			}
		}
	}
	sort.Slice(s.tr, func(a, b int) bool {
		if s.tr[a].o != s.tr[b].o {
			return s.tr[a].o < s.tr[b].o
		}
		return s.tr[a].k < s.tr[b].k
	})
	return s
}

// oracleRequest reads a pending Oracle request from storage.
func (v *env) oracleRequest(id uint64) (*state.OracleRequest, error) {
	k := make([]byte, 9)
	k[0] = 7 // prefixRequest
	binary.BigEndian.PutUint64(k[1:], id)
	si := v.bc.GetStorageItem(v.oraID, k)
	if si == nil {
		return nil, fmt.Errorf("no request")
	}
	it, err := stackitem.Deserialize(si)
	if err != nil {
		return nil, err
	}
	req := new(state.OracleRequest)
	if err := req.FromStackItem(it); err != nil {
		return nil, err
	}
	return req, nil
}

func storeText(st []kv) string {
	var b bytes.Buffer
	fmt.Fprintf(&b, "%d", len(st))
	for _, e := range st {
		fmt.Fprintf(&b, " %d %d %d", e.c, e.k, e.v)
	}
	return b.String()
}

type event struct{ c, e int }

// eventsOf canonicalises the notifications of an execution result: (contract index, number)
// for the interpreter's event; natives' Transfer events as (100+token, amount).
func (v *env) eventsOf(aer *state.AppExecResult, entry util.Uint160) ([]event, []string) {
	var res []event
	var odd []string
	for _, n := range aer.Events {
		idx := -1
		for i, h := range v.w.hashes {
			if h.Equals(n.ScriptHash) {
				idx = i
			}
		}
		if n.ScriptHash.Equals(entry) {
			idx = entryID
		}
		arr, _ := n.Item.Value().([]stackitem.Item)
		switch {
		case idx >= 0 && n.Name == eventName && len(arr) == 1:
			bi, err := arr[0].TryInteger()
			if err != nil {
				odd = append(odd, "badint")
				continue
			}
			res = append(res, event{idx, int(bi.Int64())})
		case n.Name == "Transfer" && len(arr) == 3 && (n.ScriptHash.Equals(v.w.gas) || n.ScriptHash.Equals(v.w.neo)):
			bi, _ := arr[2].TryInteger()
			t := 100
			if n.ScriptHash.Equals(v.w.neo) {
				t = 101
			}
			res = append(res, event{t, int(bi.Int64())})
		case n.Name == "Vote" && len(arr) == 4 && n.ScriptHash.Equals(v.w.neo):
			b, _ := arr[0].TryBytes()
			res = append(res, event{voteTab, v.accIndex(b)})
		case n.Name == "CandidateStateChanged" && len(arr) == 3 && n.ScriptHash.Equals(v.w.neo):
			reg, _ := arr[1].TryBool()
			res = append(res, event{regTab, b2i(reg)})
		case n.Name == "OracleRequest" && len(arr) == 4 && n.ScriptHash.Equals(v.w.oracle):
			bi, _ := arr[0].TryInteger()
			res = append(res, event{oracleTab, int(bi.Int64())})
		case n.Name == "Designation" && len(arr) >= 2 && n.ScriptHash.Equals(v.w.roleMgmt):
			bi, _ := arr[0].TryInteger()
			res = append(res, event{roleTab, int(bi.Int64())})
		case n.Name == "WhitelistFeeChanged" && len(arr) == 4 && n.ScriptHash.Equals(v.w.policy):
			b, _ := arr[0].TryBytes()
			res = append(res, event{wlTab, v.accIndex(b)})
		case (n.Name == "Update" || n.Name == "Destroy") && len(arr) == 1 && n.ScriptHash.Equals(v.w.mgmt):
			b, _ := arr[0].TryBytes()
			off := 200
			if n.Name == "Destroy" {
				off = 100
			}
			res = append(res, event{mgmtTab, off + v.accIndex(b)})
		case n.Name == "Deploy" && len(arr) == 1 && n.ScriptHash.Equals(v.w.mgmt):
			b, _ := arr[0].TryBytes()
			d := -1
			for i := range v.w.auxHash {
				if bytes.Equal(b, v.w.auxHash[i].BytesBE()) {
					d = i
				}
			}
			if d < 0 {
				odd = append(odd, "deploy-of-unknown")
				continue
			}
			res = append(res, event{mgmtTab, d})
		default:
			odd = append(odd, n.ScriptHash.StringLE()+":"+n.Name)
		}
	}
	return res, odd
}

func eventsText(ev []event) string {
	var b bytes.Buffer
	fmt.Fprintf(&b, "%d", len(ev))
	for _, e := range ev {
		fmt.Fprintf(&b, " %d %d", e.c, e.e)
	}
	return b.String()
}
