package main

// Generator of call trees (depth <= 4, width <= 4): throw/abort at every position, nested
// try/catch/finally, calls with varied call-flag sets, reads, native GAS transfers (with
// payment callbacks that write/throw/abort) and a committee-signed Policy setter.

import (
	"fmt"

	"verif/harness/internal/hx"
	"verif/harness/internal/prng"
)

type gen struct {
	r       *prng.R
	o       *hx.Out
	budget  int  // remaining node budget of the tree
	natives bool
	deploys int
	bulk    int  // bulk notify nodes: at most two per tree
	regs    int  // NEO.registerCandidate costs 1000 GAS: at most two per tree
	candW   bool // the transaction carries the candidate key owner's witness
	height  int  // index of the block the tree will run in
}

var flagChoices = []int{11, 3, 1, 0, 14, 10, 6, 9, 12, 4, 8, 2}

// flags: mostly All; then the sets that still allow reading and calling (ReadOnly, no-notify,
// no-write); rarely anything else (the next storage access or call faults).
func (g *gen) flags(allPct int) int {
	x := g.r.Intn(100)
	switch {
	case x < allPct:
		return 15
	case x < allPct+(100-allPct)*2/3:
		return []int{5, 7, 13}[g.r.Intn(3)]
	}
	return flagChoices[g.r.Intn(len(flagChoices))]
}

var amounts = []int{0, 1, 1, 2, 3, 5, 8, 1 << 40}

// gx is the generation context of a node list.
type gx struct {
	c     int   // executing contract (entryID: the transaction script)
	depth int   // remaining nesting depth
	maxw  int   // width of the list
	quiet bool  // inside a finally block or the catch block of a try-catch-finally: fewer calls
	f     flags // effective call flags (ops the flags forbid are mostly avoided)
	h     bool  // some enclosing TRY would handle an exception
}

func (g *gen) list(x gx) []*Node {
	w := g.r.Range(1, x.maxw)
	if g.r.Chance(1, 12) {
		w = 0
	}
	var res []*Node
	for i := 0; i < w && g.budget > 0; i++ {
		n := g.node(x)
		res = append(res, n)
		if (n.Op == nThrow || n.Op == nAbort) && !g.r.Chance(1, 8) {
			break // mostly no dead code behind a throw
		}
	}
	return res
}

func (x gx) sub(maxw int) gx { x.depth--; x.maxw = maxw; return x }

func (g *gen) node(x gx) *Node {
	g.budget--
	var w []int
	//            put del ntf ifp call loc try thr abt xfer fee
	if x.c == entryID {
		if x.depth <= 0 { // the entry script can do little by itself: call something small
			callee := g.r.Intn(numContracts)
			fl := g.flags(80)
			return &Node{Op: nCall, C: callee, Fl: fl, Body: g.list(gx{callee, 0, 3, x.quiet, x.f.and(flagsOf(fl)), x.h})}
		}
		w = []int{1, 0, 1, 0, 44, 4, 22, 2, 1, 0, 3}
	} else {
		w = []int{22, 6, 12, 8, 18, 4, 16, 2, 1, 6, 12}
	}
	if x.h {
		w[7] = 8
	}
	if x.quiet {
		w[4] /= 2
		w[9] /= 2
	}
	if x.depth <= 0 {
		w[3], w[4], w[5], w[6], w[9] = 0, 0, 0, 0, 0
	}
	if !g.natives {
		w[9], w[10] = 0, 0
	}
	// ops the current flags forbid fault the transaction: keep a few
	keep := g.r.Chance(1, 12)
	if !keep {
		if !(x.f.r && x.f.w) {
			w[0], w[1] = 0, 0
		}
		if !x.f.n {
			w[2] = 0
		}
		if !x.f.r {
			w[3] = 0
		}
		if !(x.f.r && x.f.c) {
			w[4], w[9], w[10] = 0, 0, 0
		}
		if !(x.f.w && x.f.n) {
			w[9] = 0
		}
		if !x.f.w {
			w[10] = 0
		}
	}
	switch g.r.Weighted(w) {
	case 0:
		return &Node{Op: nPut, K: g.r.Intn(4), V: g.r.Range(1, 9)}
	case 1:
		return &Node{Op: nDel, K: g.r.Intn(4)}
	case 2:
		if x.c != entryID && g.bulk < 2 && g.r.Chance(1, 20) { // around the limit of 512 notifications per execution
			g.bulk++
			return &Node{Op: nNotify, K: g.r.Range(1, 9), Rep: []int{200, 256, 300, 500, 509, 510, 511, 512, 513}[g.r.Intn(9)]}
		}
		return &Node{Op: nNotify, K: g.r.Range(1, 9)}
	case 3:
		if g.r.Chance(2, 5) { // read a stored value, derive bytes from it, edit them in place (storage must not change)
			return &Node{Op: nEdit, K: g.r.Intn(4), V: g.r.Intn(15)}
		}
		return &Node{Op: nIf, K: g.r.Intn(4), Body: g.list(x.sub(3))}
	case 4:
		callee := g.r.Intn(numContracts)
		fl := g.flags(80)
		y := x.sub(4)
		y.c, y.f = callee, x.f.and(flagsOf(fl))
		if x.c >= 2 && x.c < numContracts && g.r.Chance(1, 3) { // contracts 2,3 hold method tokens of contracts 0,1
			callee, fl = g.r.Intn(2), conTokFlags[[]int{0, 0, 0, 1, 2}[g.r.Intn(5)]]
			y.c, y.f = callee, x.f.and(flagsOf(fl))
			return &Node{Op: nCall, C: callee, Fl: fl, Tok: true, Body: g.list(y)}
		}
		return &Node{Op: nCall, C: callee, Fl: fl, Tok: g.r.Bool(), Body: g.list(y)}
	case 5:
		return &Node{Op: nLocal, Body: g.list(x.sub(3))}
	case 6:
		n := &Node{Op: nTryC}
		switch g.r.Intn(5) {
		case 0, 1:
			n.HasCatch = true
		case 2:
			n.HasFin = true
		default:
			n.HasCatch, n.HasFin = true, true
		}
		y := x.sub(4)
		y.h = true
		n.Body = g.list(y)
		if n.HasCatch {
			y = x.sub(3)
			y.quiet = x.quiet || n.HasFin
			y.h = x.h || n.HasFin
			n.Catch = g.list(y)
		}
		if n.HasFin {
			y = x.sub(3)
			y.quiet = true
			n.Fin = g.list(y)
		}
		if len(n.Body) == 1 && n.Body[0].Op == nCall && g.r.Bool() {
			n.Inl = true
		}
		return n
	case 7:
		return &Node{Op: nThrow}
	case 8:
		return &Node{Op: nAbort}
	case 9:
		to := g.r.Intn(numContracts + 1)
		if to == numContracts {
			to = plainAccounts[g.r.Intn(len(plainAccounts))]
		}
		nat := &NatOp{Kind: natTransfer, Tok: 0, To: to, Amt: amounts[g.r.Intn(len(amounts))]}
		fl := g.flags(90)
		if to < numContracts && g.r.Bool() {
			nat.HasCb = true
			y := x.sub(3)
			y.c, y.f = to, x.f.and(flagsOf(fl))
			nat.Cb = g.list(y)
		}
		return &Node{Op: nNative, Fl: fl, Nat: nat, Tok: g.r.Chance(1, 3)}
	default:
		fl := g.flags(90)
		tok := g.r.Chance(1, 3)
		mk := func(nat *NatOp) *Node { return &Node{Op: nNative, Fl: fl, Nat: nat, Tok: tok} }
		switch v := g.r.Intn(43); {
		case v >= 41:
			return mk(&NatOp{Kind: natSetGas, Val: []int{0, 1, 300000000, 500000000, 999999999, 1000000000, 1000000001}[g.r.Intn(7)]})
		case v < 3:
			return mk(&NatOp{Kind: natSetFee, Val: g.r.Range(1, 5000)})
		case v < 6:
			return mk(&NatOp{Kind: natBlock, Val: plainAccounts[g.r.Intn(len(plainAccounts))]})
		case v < 8:
			return mk(&NatOp{Kind: natUnblock, Val: plainAccounts[g.r.Intn(len(plainAccounts))]})
		case v < 10 && g.deploys < 3:
			g.deploys++
			return mk(&NatOp{Kind: natDeploy, Val: g.r.Intn(numAux)})
		case v < 12:
			return mk(&NatOp{Kind: natUpdate, Val: []int{0, 0, 1, 2}[g.r.Intn(4)]})
		case v < 13 && x.c == 3:
			return mk(&NatOp{Kind: natDestroy})
		case v < 15:
			return mk(&NatOp{Kind: natDesignate, To: roles[g.r.Intn(len(roles))], Val: g.r.Range(1, 2)})
		case v < 18:
			return mk(&NatOp{Kind: natSetWl, To: g.r.Intn(numContracts), Val: g.r.Range(0, 900)})
		case v < 19:
			return mk(&NatOp{Kind: natDelWl, To: g.r.Intn(numContracts)})
		case v < 21: // Notary deposit: GAS transfer to the Notary contract
			return mk(&NatOp{Kind: natTransfer, To: notaryAcc, Amt: []int{minDeposit, minDeposit + 10000000, 5}[g.r.Intn(3)]})
		case v < 26: // NEO transfer
			to := []int{0, 1, 2, 3, 6, 7}[g.r.Intn(6)]
			nat := &NatOp{Kind: natNeoTransfer, To: to, Amt: []int{0, 1, 2, 3, 5, 100}[g.r.Intn(6)]}
			if to < numContracts && g.r.Bool() && x.depth > 0 {
				nat.HasCb = true
				y := x.sub(3)
				y.c, y.f = to, x.f.and(flagsOf(fl))
				nat.Cb = g.list(y)
			}
			return mk(nat)
		case v < 30:
			return mk(&NatOp{Kind: natVote, Val: g.r.Intn(3) % 2})
		case v < 32 && g.regs < 2:
			g.regs++
			return mk(&NatOp{Kind: natRegCand})
		case v < 34:
			return mk(&NatOp{Kind: natUnregCand, Val: b2i(g.candW)})
		case v < 37:
			if g.r.Chance(1, 6) {
				return mk(&NatOp{Kind: natOracleFinish})
			}
			return mk(&NatOp{Kind: natOracleReq, Val: g.r.Intn(len(oracleURLs))})
		case v < 39: // lockDepositUntil: around the block index (too early / minimal) and around a fresh deposit's till
			till := []int{g.height - 1, g.height, g.height + 1, g.height + 2, g.height + 3, g.height + depositDelta - 2,
				g.height + depositDelta - 1, g.height + depositDelta + 1}[g.r.Intn(8)]
			return mk(&NatOp{Kind: natLock, Val: till})
		default:
			to := g.r.Intn(numContracts + 1)
			if to == numContracts {
				to = plainAccounts[g.r.Intn(len(plainAccounts))]
			}
			return mk(&NatOp{Kind: natWithdraw, To: to})
		}
	}
}

// tree generates a transaction's tree.
func genTree(r *prng.R, o *hx.Out, natives bool, height int) txPlan {
	g := &gen{r: r, o: o, budget: 32, natives: natives, height: height, candW: r.Chance(3, 4)}
	depth := r.Range(2, 4)
	t := g.list(gx{entryID, depth, 3, false, flagsOf(15), false})
	if len(t) == 0 {
		c := r.Intn(numContracts)
		t = []*Node{{Op: nCall, C: c, Fl: 15, Body: g.list(gx{c, depth - 1, 4, false, flagsOf(15), false})}}
	}
	return planOf(t)
}

// stats walks a tree and feeds the input-distribution counters.
func treeStats(o *hx.Out, l []*Node, depth int, maxDepth *int, nodes *int) {
	if depth > *maxDepth {
		*maxDepth = depth
	}
	for _, n := range l {
		*nodes++
		switch n.Op {
		case nPut:
			o.Count("node:put")
		case nDel:
			o.Count("node:del")
		case nNotify:
			o.Count("node:notify")
			if n.Rep > 1 {
				o.Count("node:notify-bulk")
			}
		case nEdit:
			o.Count("node:edit-derived-value")
			o.Count(fmt.Sprintf("edit-variant:%d", n.V))
		case nIf:
			o.Count("node:ifp")
			treeStats(o, n.Body, depth+1, maxDepth, nodes)
		case nCall:
			o.Count("node:call")
			if n.Fl != 15 {
				o.Count("node:call-restricted-flags")
			}
			treeStats(o, n.Body, depth+1, maxDepth, nodes)
		case nLocal:
			o.Count("node:local")
			treeStats(o, n.Body, depth+1, maxDepth, nodes)
		case nTryC:
			switch {
			case n.HasCatch && n.HasFin:
				o.Count("node:try-catch-finally")
			case n.HasCatch:
				o.Count("node:try-catch")
			default:
				o.Count("node:try-finally")
			}
			if n.Inl {
				o.Count("node:try-inline-call")
			}
			treeStats(o, n.Body, depth+1, maxDepth, nodes)
			treeStats(o, n.Catch, depth+1, maxDepth, nodes)
			treeStats(o, n.Fin, depth+1, maxDepth, nodes)
		case nThrow:
			o.Count("node:throw")
		case nAbort:
			o.Count("node:abort")
		case nNative:
			if n.Nat.Kind == natTransfer && n.Nat.To == notaryAcc {
				o.Count("node:notary-deposit")
			} else if n.Nat.Kind == natTransfer {
				o.Count("node:gas-transfer")
				if n.Nat.HasCb {
					o.Count("node:gas-transfer-with-callback-program")
				}
				treeStats(o, n.Nat.Cb, depth+1, maxDepth, nodes)
			} else {
				o.Count([]string{"", "node:policy-setFeePerByte", "node:policy-blockAccount", "node:policy-unblockAccount", "node:management-deploy",
					"node:management-update", "node:management-destroy", "node:roles-designate", "node:policy-setWhitelistFee", "node:policy-removeWhitelistFee",
					"node:neo-transfer", "node:neo-vote", "node:neo-registerCandidate", "node:neo-unregisterCandidate", "node:oracle-request",
					"node:oracle-finish", "node:notary-lockDepositUntil", "node:notary-withdraw", "node:neo-setGasPerBlock"}[n.Nat.Kind])
				if n.Nat.Kind == natNeoTransfer {
					treeStats(o, n.Nat.Cb, depth+1, maxDepth, nodes)
				}
			}
		}
	}
}

// genDoubleSet generates a whole block of the scenario class "set, then set AGAIN in an execution that is rolled
// back": for every native setter whose cache update has an "update the existing record in place" path (GasPerBlock
// records, fee per byte, whitelisted fees, blocked list, candidate record and votes, Notary deposits and their till,
// contract state) the first set is committed (the caller's own change / a HALTed transaction), the second one runs
// in a callee that throws under the caller's TRY, in a transaction that FAULTs afterwards, or in a callee whose
// caller is rolled back as a whole; a last transaction uses the contracts. Cache vs storage vs a restarted node are
// compared after the block as always.
func genDoubleSet(r *prng.R, o *hx.Out, height int) []txPlan {
	c := r.Intn(numContracts)
	c2 := r.Intn(numContracts)
	wlC, acc := r.Intn(numContracts), plainAccounts[r.Intn(len(plainAccounts))]
	type setter struct {
		name string
		mk   func(i int) *Node // the i-th set (0 = committed one)
		same bool              // acts on the executing contract: the callee is the same contract
	}
	gasV := []int{300000000, 700000000, 100000000, 900000000}
	setters := []setter{
		{"gasPerBlock", func(i int) *Node { return setGas(gasV[(i+r.Intn(2))%4]) }, false},
		{"feePerByte", func(i int) *Node { return setFee(100+i*37+r.Intn(5), 15) }, false},
		{"whitelist", func(i int) *Node { return setWl(wlC, 10+i*11+r.Intn(3)) }, false},
		{"whitelist-remove", func(i int) *Node {
			if i%2 == 0 {
				return setWl(wlC, 10+i)
			}
			return delWl(wlC)
		}, false},
		{"blocked", func(i int) *Node {
			if i%2 == 0 {
				return blockAcc(acc, 15)
			}
			return unblockAcc(acc, 15)
		}, false},
		{"candidate", func(i int) *Node {
			if i%2 == 0 {
				return unregCand(1)
			}
			return regCand()
		}, false},
		{"vote", func(i int) *Node { return vote((i + 1) % 2) }, true},
		{"deposit", func(i int) *Node { return deposit(minDeposit + i) }, true},
		{"till", func(i int) *Node { return lockDep(height + 1 + i) }, true},
		{"nef", func(i int) *Node { return updateNef(1 + i%2) }, true},
		{"oracle", func(i int) *Node { return oracleReq(i % 2) }, false},
		{"neo-balance", func(i int) *Node { return neoXfer([]int{6, 7, 0, 1}[r.Intn(4)], 1+i, nil) }, true},
	}
	s := setters[r.Intn(len(setters))]
	if s.same {
		if s.name == "till" || s.name == "deposit" {
			c = 2 + r.Intn(2) // the contracts that (mostly) start with a deposit
		}
		c2 = c
	}
	o.Count("double-set:" + s.name)
	use := planOf(L(call(2, 15, put(0, 1)), call(wlC, 15, notify(1))))
	shape := r.Intn(5)
	o.Count(fmt.Sprintf("double-set-shape:%d", shape))
	switch shape {
	case 0: // committed by the caller, set again by a callee that throws under the caller's TRY
		return []txPlan{planOf(L(call(c, 15, s.mk(0), try(L(call(c2, 15, s.mk(1), s.mk(2), throw())), L(notify(1)), nil), s.mk(3)))), use}
	case 1: // committed by a HALTed transaction, set again by a transaction that FAULTs afterwards
		return []txPlan{planOf(L(call(c, 15, s.mk(0)))), planOf(L(call(c, 15, s.mk(1), call(c2, 15, s.mk(2)), abort()))), use}
	case 2: // the callee completes, then its caller (called under a TRY of ITS caller) throws
		return []txPlan{planOf(L(call(c, 15, s.mk(0), try(L(call(c2, 15, s.mk(1), call(c, 15, s.mk(2)), throw())), none, L(notify(2))), call(c2, 15, s.mk(3))))), use}
	case 3: // set again in a TRY of the entry script whose callee throws; and once more, committed
		return []txPlan{planOf(L(call(c, 15, s.mk(0)), try(L(call(c2, 15, s.mk(1), throw())), none, nil), call(c, 15, s.mk(2)))), use}
	default: // set twice and committed, then set again by an out-of-try callee of a transaction that throws unhandled
		return []txPlan{planOf(L(call(c, 15, s.mk(0), s.mk(1)))), planOf(L(call(c, 15, call(c2, 15, s.mk(2)), throw()))), use}
	}
}
