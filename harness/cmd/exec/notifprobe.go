package main

// Emitted notifications are immutable (the Exec model: `emitted_notifications_immutable`): a fixed probe on the
// real code. A script makes GAS.transfer emit its Transfer event, then takes that very event from
// System.Runtime.GetNotifications and overwrites the amount in it with SETITEM. The events stored in the
// application log must still say what was emitted (finding native-notification-rewritten, fixed in /repo by 0aa93d2).

import (
	"math/big"

	"github.com/nspcc-dev/neo-go/pkg/core/interop/interopnames"
	"github.com/nspcc-dev/neo-go/pkg/smartcontract/callflag"
	"github.com/nspcc-dev/neo-go/pkg/util"
	"github.com/nspcc-dev/neo-go/pkg/vm/opcode"
	"github.com/nspcc-dev/neo-go/pkg/vm/stackitem"
	"github.com/nspcc-dev/neo-go/pkg/vm/vmstate"

	"verif/harness/internal/hx"
)

func runNotificationProbe(o *hx.Out, k int) {
	v := newEnv()
	defer v.close()
	to := v.w.plain[6]
	before := v.bc.GetUtilityTokenBalance(to, util.Uint160{})
	a := newAsm()
	a.ops(opcode.PUSHNULL)
	a.int(5)
	a.bytes(to.BytesBE())
	a.bytes(v.sender.ScriptHash().BytesBE())
	a.int(4)
	a.ops(opcode.PACK)
	a.int(int64(callflag.All))
	a.str("transfer")
	a.bytes(v.w.gas.BytesBE())
	a.syscall(interopnames.SystemContractCall)
	a.ops(opcode.DROP)
	a.bytes(v.w.gas.BytesBE())
	a.syscall(interopnames.SystemRuntimeGetNotifications)
	a.ops(opcode.PUSH0, opcode.PICKITEM, opcode.PUSH2, opcode.PICKITEM, opcode.PUSH2)
	a.int(999)
	a.ops(opcode.SETITEM, opcode.RET)
	tx := v.newTx(a.finish(), sysFee, false)
	v.e.AddNewBlock(v.tb, tx)
	aer := v.e.GetTxExecResult(v.tb, tx.Hash())
	moved := new(big.Int).Sub(v.bc.GetUtilityTokenBalance(to, util.Uint160{}), before)
	o.Count("probe:rewrite-of-a-native-notification")
	// expectation (since 0aa93d2 the item is stored as an immutable deep copy): the stored event says what was
	// emitted — the in-place edit of a GetNotifications result FAULTs or has no effect on the log
	const emitted = 5
	if aer.VMState == vmstate.Halt {
		o.Count("probe:rewrite-halted")
		if moved.Cmp(big.NewInt(emitted)) != 0 {
			o.Fail("native-notification-rewritten", k, "GAS.transfer of %d moved %s", emitted, moved)
		}
	} else {
		o.Count("probe:rewrite-refused-with-FAULT")
	}
	for _, ev := range aer.Events {
		if ev.Name != "Transfer" || !ev.ScriptHash.Equals(v.w.gas) {
			continue
		}
		arr, _ := ev.Item.Value().([]stackitem.Item)
		if len(arr) != 3 {
			continue
		}
		to2, _ := arr[1].TryBytes()
		if h, err := util.Uint160DecodeBytesBE(to2); err != nil || !h.Equals(to) {
			continue
		}
		amt, _ := arr[2].TryInteger()
		if amt.Cmp(big.NewInt(emitted)) != 0 {
			o.Fail("native-notification-rewritten", k, "GAS.transfer emitted a Transfer of %d (%s, moved %s); after a SETITEM on the item returned by System.Runtime.GetNotifications the stored event says %s", emitted, aer.VMState, moved, amt)
		}
	}
}
