package main

// The generic "interpreter" contract: a hand-assembled NeoVM program with a
// method run(prog) that walks an encoded call tree (nested arrays) and executes
// it with the real syscalls/opcodes (System.Storage.Put/Delete on GetContext,
// System.Runtime.Notify, System.Contract.Call, TRY/ENDTRY/ENDFINALLY/THROW/ABORT,
// internal CALL), and onNEP17Payment(from, amount, data) that runs `data` as a
// program when it is not null. The same code is deployed several times under
// different names, so a call tree over contracts c0..c3 is pure data.

import (
	"fmt"

	"github.com/nspcc-dev/neo-go/pkg/core/interop/interopnames"
	"github.com/nspcc-dev/neo-go/pkg/vm/emit"
	"github.com/nspcc-dev/neo-go/pkg/smartcontract"
	"github.com/nspcc-dev/neo-go/pkg/smartcontract/manifest"
	"github.com/nspcc-dev/neo-go/pkg/smartcontract/nef"
	"github.com/nspcc-dev/neo-go/pkg/vm/opcode"
)

// node opcodes of the encoded tree
const (
	nPut = iota
	nDel
	nNotify
	nCall
	nTryC  // [op, body, catch, inl]
	nTryF  // [op, body, fin, inl]
	nTryCF // [op, body, catch, fin, inl]
	nThrow
	nAbort
	nLocal
	nNative // [op, hash, method, flags, args]
	nIf     // [op, key, body]: run body if the key is present in the executing contract's storage
	nCallT   // [op, token, body]: CALLT <token> with the single argument `body` (method token of another interpreter's `run`)
	nNativeT // [op, token, args]: CALLT <token> with the arguments unpacked (method token of a native method)
	nEdit    // [op, key, variant]: read the stored value (Get / Find iterator value), derive a byte value from it with an operation that might alias it, edit the result in place, drop it
	nOps
)

const eventName = "E"

// emitCall emits System.Contract.Call(hash, "run", flags, [body]) for the call node pushed by load.
func emitCall(a *asm, load func()) {
	load()
	a.pick(3)
	a.int(1)
	a.ops(opcode.PACK) // args = [body]
	load()
	a.pick(2) // flags
	a.str("run")
	load()
	a.pick(1) // hash
	a.syscall(interopnames.SystemContractCall)
	a.ops(opcode.CLEAR)
}

type interpCode struct {
	script     []byte
	offRun     int
	offPayment int
	offVerify  int
	tokens     []nef.MethodToken
}

// buildInterp assembles the interpreter; ntok = number of method tokens of the NEF it will be put into
// (one CALLT stub per token: the operand of CALLT is static).
// reward: the program (encoded tree) run when the contract receives a GAS reward — onNEP17Payment(null, amount,
// null), the mint of a deferred NEO reward — or nil.
func buildInterp(ntok int, reward []any) interpCode {
	a := newAsm()
	ldNode := func() { a.ops(opcode.LDLOC1) }
	ldInl := func() { a.ops(opcode.LDLOC2) }
	runList := func(i int64) { // run(node[i]) by internal CALL
		ldNode()
		a.pick(i)
		a.jmp(opcode.CALLL, "run")
		a.ops(opcode.DROP)
	}
	// body of a try handler: inline single call (in the context that owns the TRY) or CALL run(body)
	tryBody := func(pfx string, inlIdx int64) {
		ldNode()
		a.pick(inlIdx)
		a.jmp(opcode.JMPIFL, pfx+"_inl")
		runList(1)
		a.jmp(opcode.JMPL, pfx+"_eb")
		a.label(pfx + "_inl")
		ldNode()
		a.pick(1)
		a.pick(0)
		a.ops(opcode.STLOC2)
		emitCall(a, ldInl)
		a.label(pfx + "_eb")
		a.jmp(opcode.ENDTRYL, pfx+"_end")
	}

	a.label("run")
	offRun := a.pos()
	a.initslot(4, 1)
	a.ops(opcode.PUSH0, opcode.STLOC0)
	a.label("loop")
	a.ops(opcode.LDLOC0, opcode.LDARG0, opcode.SIZE, opcode.GE)
	a.jmp(opcode.JMPIFL, "done")
	a.ops(opcode.LDARG0, opcode.LDLOC0, opcode.PICKITEM, opcode.STLOC1)
	a.ops(opcode.LDLOC0, opcode.INC, opcode.STLOC0)
	names := []string{"h_put", "h_del", "h_notify", "h_call", "h_tryc", "h_tryf", "h_trycf", "h_throw", "h_abort", "h_local", "h_native", "h_if", "h_callt", "h_nativet", "h_edit"}
	for i, n := range names {
		ldNode()
		a.pick(0)
		a.int(int64(i))
		a.ops(opcode.NUMEQUAL)
		a.jmp(opcode.JMPIFL, n)
	}
	a.ops(opcode.ABORT)
	a.label("done")
	a.ops(opcode.PUSH1, opcode.RET)

	a.label("h_put")
	ldNode()
	a.pick(2)
	ldNode()
	a.pick(1)
	a.syscall(interopnames.SystemStorageGetContext)
	a.syscall(interopnames.SystemStoragePut)
	a.jmp(opcode.JMPL, "loop")

	a.label("h_del")
	ldNode()
	a.pick(1)
	a.syscall(interopnames.SystemStorageGetContext)
	a.syscall(interopnames.SystemStorageDelete)
	a.jmp(opcode.JMPL, "loop")

	a.label("h_notify") // [op, number, repetitions]
	ldNode()
	a.pick(2)
	a.ops(opcode.STLOC3)
	a.label("ntf_loop")
	a.ops(opcode.LDLOC3, opcode.PUSH0, opcode.LE)
	a.jmp(opcode.JMPIFL, "loop")
	ldNode()
	a.pick(1)
	a.int(1)
	a.ops(opcode.PACK)
	a.str(eventName)
	a.syscall(interopnames.SystemRuntimeNotify)
	a.ops(opcode.LDLOC3, opcode.DEC, opcode.STLOC3)
	a.jmp(opcode.JMPL, "ntf_loop")

	a.label("h_call")
	emitCall(a, ldNode)
	a.jmp(opcode.JMPL, "loop")

	a.label("h_tryc")
	a.try("tc_c", "")
	tryBody("tc", 3)
	a.label("tc_c")
	a.ops(opcode.CLEAR)
	runList(2)
	a.jmp(opcode.ENDTRYL, "tc_end")
	a.label("tc_end")
	a.jmp(opcode.JMPL, "loop")

	a.label("h_tryf")
	a.try("", "tf_f")
	tryBody("tf", 3)
	a.label("tf_f")
	a.ops(opcode.CLEAR)
	runList(2)
	a.ops(opcode.ENDFINALLY)
	a.label("tf_end")
	a.jmp(opcode.JMPL, "loop")

	a.label("h_trycf")
	a.try("tcf_c", "tcf_f")
	tryBody("tcf", 4)
	a.label("tcf_c")
	a.ops(opcode.CLEAR)
	runList(2)
	a.jmp(opcode.ENDTRYL, "tcf_end")
	a.label("tcf_f")
	a.ops(opcode.CLEAR)
	runList(3)
	a.ops(opcode.ENDFINALLY)
	a.label("tcf_end")
	a.jmp(opcode.JMPL, "loop")

	a.label("h_throw")
	a.str("x")
	a.ops(opcode.THROW)

	a.label("h_abort")
	a.ops(opcode.ABORT)

	a.label("h_local")
	runList(1)
	a.jmp(opcode.JMPL, "loop")

	a.label("h_native")
	ldNode()
	a.pick(4)
	ldNode()
	a.pick(3)
	ldNode()
	a.pick(2)
	ldNode()
	a.pick(1)
	a.syscall(interopnames.SystemContractCall)
	a.ops(opcode.CLEAR)
	a.jmp(opcode.JMPL, "loop")

	a.label("h_if")
	ldNode()
	a.pick(1)
	a.syscall(interopnames.SystemStorageGetContext)
	a.syscall(interopnames.SystemStorageGet)
	a.ops(opcode.ISNULL)
	a.jmp(opcode.JMPIFL, "loop")
	runList(2)
	a.jmp(opcode.JMPL, "loop")

	// static calls through method tokens: the argument(s) first, then the stub of the token
	a.label("h_callt")
	ldNode()
	a.pick(2)
	a.jmp(opcode.JMPL, "tok_dispatch")
	a.label("h_nativet")
	ldNode()
	a.pick(2)
	a.ops(opcode.UNPACK, opcode.DROP) // args[0] on top, as LoadToken pops them
	a.label("tok_dispatch")
	for k := 0; k < ntok; k++ {
		ldNode()
		a.pick(1)
		a.int(int64(k))
		a.ops(opcode.NUMEQUAL)
		a.jmp(opcode.JMPIFL, fmt.Sprintf("tok%d", k))
	}
	a.ops(opcode.ABORT)
	for k := 0; k < ntok; k++ {
		a.label(fmt.Sprintf("tok%d", k))
		emit.Instruction(a.w.BinWriter, opcode.CALLT, []byte{byte(k), byte(k >> 8)})
		a.ops(opcode.CLEAR)
		a.jmp(opcode.JMPL, "loop")
	}

	// a value obtained from storage -> a byte-producing operation that might alias it -> in-place edits of the
	// result, which is then dropped: storage must not change (stored values are immutable)
	a.label("h_edit")
	ldNode()
	a.pick(1)
	a.syscall(interopnames.SystemStorageGetContext)
	a.syscall(interopnames.SystemStorageGet)
	a.ops(opcode.STLOC3)
	// other sources of the value: Storage.Find iterators (values only / the value of the [key, value] struct / the
	// key of a keys-only iterator) and the script of the transaction (System.Runtime.GetScriptContainer)
	for _, src := range []struct{ variant, opts int64 }{{10, 4}, {12, 0}, {13, 1}} {
		lbl := fmt.Sprintf("ed_src%d", src.variant)
		ldNode()
		a.pick(2)
		a.int(src.variant)
		a.ops(opcode.NUMEQUAL)
		a.jmp(opcode.JMPIFNOTL, lbl)
		a.int(src.opts)
		ldNode()
		a.pick(1)
		a.syscall(interopnames.SystemStorageGetContext)
		a.syscall(interopnames.SystemStorageFind)
		a.ops(opcode.DUP)
		a.syscall(interopnames.SystemIteratorNext)
		a.jmp(opcode.JMPIFL, lbl+"v")
		a.ops(opcode.DROP)
		a.jmp(opcode.JMPL, "loop")
		a.label(lbl + "v")
		a.syscall(interopnames.SystemIteratorValue)
		if src.variant == 12 {
			a.ops(opcode.PUSH1, opcode.PICKITEM)
		}
		a.ops(opcode.STLOC3)
		a.jmp(opcode.JMPL, "ed_have")
		a.label(lbl)
	}
	ldNode()
	a.pick(2)
	a.int(14)
	a.ops(opcode.NUMEQUAL)
	a.jmp(opcode.JMPIFNOTL, "ed_have")
	a.syscall(interopnames.SystemRuntimeGetScriptContainer)
	a.ops(opcode.PUSH7, opcode.PICKITEM, opcode.STLOC3)
	a.label("ed_have")
	a.ops(opcode.LDLOC3, opcode.ISNULL)
	a.jmp(opcode.JMPIFL, "loop")
	const nEditVariants = 15
	for k := 0; k < nEditVariants; k++ {
		ldNode()
		a.pick(2)
		a.int(int64(k))
		a.ops(opcode.NUMEQUAL)
		a.jmp(opcode.JMPIFL, fmt.Sprintf("ed%d", k))
	}
	a.ops(opcode.ABORT)
	toBuffer := func() { emit.Instruction(a.w.BinWriter, opcode.CONVERT, []byte{0x30}) }
	size := func() { a.ops(opcode.LDLOC3, opcode.SIZE) }
	for k := 0; k < nEditVariants; k++ {
		a.label(fmt.Sprintf("ed%d", k))
		switch k {
		case 0, 10, 12, 13, 14: // value ++ empty
			a.ops(opcode.LDLOC3)
			a.bytes([]byte{})
			a.ops(opcode.CAT)
		case 1: // empty ++ value
			a.bytes([]byte{})
			a.ops(opcode.LDLOC3, opcode.CAT)
		case 2: // SUBSTR, full length
			a.ops(opcode.LDLOC3, opcode.PUSH0)
			size()
			a.ops(opcode.SUBSTR)
		case 3:
			a.ops(opcode.LDLOC3)
			size()
			a.ops(opcode.LEFT)
		case 4:
			a.ops(opcode.LDLOC3)
			size()
			a.ops(opcode.RIGHT)
		case 5:
			a.ops(opcode.LDLOC3)
			toBuffer()
		case 6: // MEMCPY from the value into a new buffer
			size()
			a.ops(opcode.NEWBUFFER, opcode.DUP, opcode.PUSH0, opcode.LDLOC3, opcode.PUSH0)
			size()
			a.ops(opcode.MEMCPY)
		case 7: // through an array
			a.ops(opcode.LDLOC3, opcode.PUSH1, opcode.PACK, opcode.PUSH0, opcode.PICKITEM)
			toBuffer()
		case 8:
			a.ops(opcode.LDLOC3)
			a.bytes([]byte("z"))
			a.ops(opcode.CAT)
		case 9:
			a.bytes([]byte("z"))
			a.ops(opcode.LDLOC3, opcode.CAT)
		case 11: // value ++ empty, then MEMCPY INTO the result
			a.ops(opcode.LDLOC3)
			a.bytes([]byte{})
			a.ops(opcode.CAT, opcode.DUP, opcode.PUSH0)
			a.bytes([]byte("q"))
			a.ops(opcode.PUSH0, opcode.PUSH1, opcode.MEMCPY)
		}
		a.jmp(opcode.JMPL, "ed_apply")
	}
	a.label("ed_apply")
	a.ops(opcode.DUP, opcode.PUSH0)
	a.int(90)
	a.ops(opcode.SETITEM, opcode.DUP, opcode.REVERSEITEMS, opcode.DROP)
	a.jmp(opcode.JMPL, "loop")

	// onNEP17Payment(from, amount, data)
	offPay := a.pos()
	a.initslot(0, 3)
	a.ops(opcode.LDARG2, opcode.ISNULL)
	a.jmp(opcode.JMPIFL, "pay_ret")
	a.ops(opcode.LDARG2)
	a.jmp(opcode.CALLL, "run")
	a.ops(opcode.DROP)
	a.ops(opcode.RET)
	a.label("pay_ret") // data == null
	if reward != nil {
		a.ops(opcode.LDARG0, opcode.ISNULL)
		a.jmp(opcode.JMPIFNOTL, "pay_end")
		emitAny(a, reward)
		a.jmp(opcode.CALLL, "run")
		a.ops(opcode.DROP)
		a.label("pay_end")
	}
	a.ops(opcode.RET)

	// verify(): true — the contract can be the sender of a (setup) transaction
	offVerify := a.pos()
	a.ops(opcode.PUSHT, opcode.RET)

	return interpCode{script: a.finish(), offRun: offRun, offPayment: offPay, offVerify: offVerify}
}

// nefVariant: the interpreter script followed by v NOPs (never executed): same behaviour, another checksum.
func nefVariant(code interpCode, v int) *nef.File {
	sc := append([]byte{}, code.script...)
	for i := 0; i < v; i++ {
		sc = append(sc, byte(opcode.NOP))
	}
	ne, err := nef.NewFile(sc)
	if err != nil {
		panic(err)
	}
	ne.Tokens = code.tokens
	ne.Checksum = ne.CalculateChecksum()
	return ne
}

func interpContract(name string, code interpCode) (*nef.File, *manifest.Manifest) {
	ne := nefVariant(code, 0)
	m := manifest.DefaultManifest(name)
	m.ABI.Methods = []manifest.Method{
		{Name: "run", Offset: code.offRun, ReturnType: smartcontract.IntegerType,
			Parameters: []manifest.Parameter{manifest.NewParameter("prog", smartcontract.AnyType)}},
		{Name: "onNEP17Payment", Offset: code.offPayment, ReturnType: smartcontract.VoidType,
			Parameters: []manifest.Parameter{
				manifest.NewParameter("from", smartcontract.AnyType),
				manifest.NewParameter("amount", smartcontract.IntegerType),
				manifest.NewParameter("data", smartcontract.AnyType)}},
		{Name: "verify", Offset: code.offVerify, ReturnType: smartcontract.BoolType, Parameters: []manifest.Parameter{}, Safe: true},
	}
	m.ABI.Events = []manifest.Event{{Name: eventName, Parameters: []manifest.Parameter{manifest.NewParameter("n", smartcontract.IntegerType)}}}
	m.Permissions = []manifest.Permission{*manifest.NewPermission(manifest.PermissionWildcard)}
	return ne, m
}
