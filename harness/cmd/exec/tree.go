package main

// Call trees: the data type, its three renderings (encoded program for the
// interpreter contracts, inline-compiled entry script, token text for the Lean
// driver) and the generator.

import (
	"fmt"
	"strings"

	"github.com/nspcc-dev/neo-go/pkg/core/interop/interopnames"
	"github.com/nspcc-dev/neo-go/pkg/util"
	"github.com/nspcc-dev/neo-go/pkg/vm/opcode"
)

const (
	numContracts = 4
	entryID      = 9 // the transaction's entry script (not a deployed contract)
)

type Node struct {
	Op       int // nPut, nDel, nNotify, nCall, nTryC (any try), nThrow, nAbort, nLocal, nNative
	K, V     int // put/del key and value; notify: K = event number
	Rep      int // notify: emitted Rep times (0 = once)
	C        int // call: callee contract index
	Fl       int // call / native call: requested call flags
	Body     []*Node
	HasCatch bool
	Catch    []*Node
	HasFin   bool
	Fin      []*Node
	Inl      bool // try: body is a single call executed in the context that owns the TRY
	Tok      bool // call / native call: through a method token (CALLT, the static call path) where one exists
	Nat      *NatOp
	Inner    bool    // model only: a further phase of the running native method (no frame of its own)
	Rest     []*Node // model only: the rest of the native method, run inside its frame
}

// NatOp is a native-contract call made by a tree node.
type NatOp struct {
	Kind  int // natTransfer, ...
	Tok   int // 0 = GAS, 1 = NEO
	To    int // receiver contract index (or extAccount)
	Amt   int
	HasCb bool    // data != null: the receiver's onNEP17Payment runs Cb
	Cb    []*Node // payment callback program
	Val   int     // policy value
	Tag   int     // number of the native node in its tree (NEO methods: names the pending GAS reward)
}

const (
	natTransfer = iota
	natSetFee   // Policy.setFeePerByte(Val), needs the committee witness
	natBlock    // Policy.blockAccount(account Val), committee
	natUnblock  // Policy.unblockAccount(account Val), committee
	natDeploy   // ContractManagement.deploy(auxiliary contract Val)
	natUpdate   // ContractManagement.update(nil, manifest) of the calling contract
	natDestroy  // ContractManagement.destroy() of the calling contract
	natDesignate // RoleManagement.designateAsRole(role To, node list Val), committee
	natSetWl    // Policy.setWhitelistFeeContract(contract To, "run", 1, fee Val), committee
	natDelWl    // Policy.removeWhitelistFeeContract(contract To, "run", 1), committee
	natNeoTransfer // NEO.transfer(self, To, Amt, data)
	natVote     // NEO.vote(self, candidate if Val != 0 else null)
	natRegCand  // NEO.registerCandidate(candidate key)
	natUnregCand // NEO.unregisterCandidate(candidate key); Val = 1: the transaction carries the key owner's witness
	natOracleReq // Oracle.request(url_Val, null, "cb", null, responseGas)
	natOracleFinish // Oracle.finish()
	natLock     // Notary.lockDepositUntil(self, till Val)
	natWithdraw // Notary.withdraw(self, To)
	natSetGas   // NEO.setGasPerBlock(Val), committee
	// steps the NEO methods are desugared into (model only)
	natNeoXferP
	natVoteP
	natMint
	natRevoke
	natBlockP
	natDestroyP
)

const (
	regTab      = 118
	oracleTab   = 119
	oracleAcc   = 13
	responseGas = 10000000
	tillTab     = 120
	heightTab   = 121
	gasPBTab    = 122
	maxGasPerBlock = 1000000000
	depositDelta = 5760
	numNefs     = 3 // NEF variants of the interpreter contract (0 = as deployed)
)

var oracleURLs = []string{"https://a.example/x", "https://b.example/y"}

var roles = []int{4, 8, 16} // StateValidator, Oracle, NeoFSAlphabetNode

const numAux = 3 // auxiliary contracts that trees may deploy

var plainAccounts = []int{6, 7, 8} // accounts that are not contracts (GAS receivers, block targets)

// ---------- text for the Lean driver ----------

func listText(sb *strings.Builder, l []*Node) {
	sb.WriteString("[ ")
	for _, n := range l {
		nodeText(sb, n)
	}
	sb.WriteString("] ")
}

func b2i(b bool) int {
	if b {
		return 1
	}
	return 0
}

func nodeText(sb *strings.Builder, n *Node) {
	switch n.Op {
	case nPut:
		fmt.Fprintf(sb, "P %d %d ", n.K, n.V)
	case nDel:
		fmt.Fprintf(sb, "D %d ", n.K)
	case nNotify:
		if n.Rep > 1 {
			fmt.Fprintf(sb, "NN %d %d ", n.K, n.Rep)
		} else {
			fmt.Fprintf(sb, "N %d ", n.K)
		}
	case nCall:
		fmt.Fprintf(sb, "C %d %d ", n.C, n.Fl)
		listText(sb, n.Body)
	case nTryC:
		fmt.Fprintf(sb, "T ")
		listText(sb, n.Body)
		fmt.Fprintf(sb, "%d ", b2i(n.HasCatch))
		listText(sb, n.Catch)
		fmt.Fprintf(sb, "%d ", b2i(n.HasFin))
		listText(sb, n.Fin)
	case nThrow:
		sb.WriteString("X ")
	case nAbort:
		sb.WriteString("A ")
	case nLocal:
		sb.WriteString("I ")
		listText(sb, n.Body)
	case nIf:
		fmt.Fprintf(sb, "Q %d ", n.K)
		listText(sb, n.Body)
	case nEdit:
		fmt.Fprintf(sb, "ED %d %d ", n.K, n.V)
	case nNative:
		switch n.Nat.Kind {
		case natTransfer:
			fmt.Fprintf(sb, "G %d %d %d %d %d ", n.Nat.Tok, n.Nat.To, n.Nat.Amt, n.Fl, b2i(n.Nat.HasCb))
			listText(sb, n.Nat.Cb)
		case natSetFee:
			fmt.Fprintf(sb, "F %d %d ", n.Nat.Val, n.Fl)
		case natBlock:
			fmt.Fprintf(sb, "B %d %d %d ", n.Nat.Val, n.Fl, n.Nat.Tag)
		case natUnblock:
			fmt.Fprintf(sb, "U %d %d ", n.Nat.Val, n.Fl)
		case natDeploy:
			fmt.Fprintf(sb, "Y %d %d ", n.Nat.Val, n.Fl)
		case natUpdate:
			fmt.Fprintf(sb, "M %d %d ", n.Nat.Val, n.Fl)
		case natDestroy:
			fmt.Fprintf(sb, "Z %d %d ", n.Fl, n.Nat.Tag)
		case natRegCand:
			fmt.Fprintf(sb, "KR %d ", n.Fl)
		case natUnregCand:
			fmt.Fprintf(sb, "KU %d %d ", n.Nat.Val, n.Fl)
		case natOracleReq:
			fmt.Fprintf(sb, "OR %d %d ", n.Nat.Val, n.Fl)
		case natOracleFinish:
			fmt.Fprintf(sb, "OF %d ", n.Fl)
		case natLock:
			fmt.Fprintf(sb, "NL %d %d ", n.Nat.Val, n.Fl)
		case natWithdraw:
			fmt.Fprintf(sb, "NW %d %d ", n.Nat.To, n.Fl)
		case natSetGas:
			fmt.Fprintf(sb, "GP %d %d ", n.Nat.Val, n.Fl)
		case natDesignate:
			fmt.Fprintf(sb, "R %d %d %d ", n.Nat.To, n.Nat.Val, n.Fl)
		case natSetWl:
			fmt.Fprintf(sb, "W %d %d %d ", n.Nat.To, n.Nat.Val, n.Fl)
		case natDelWl:
			fmt.Fprintf(sb, "V %d %d ", n.Nat.To, n.Fl)
		case natNeoTransfer:
			fmt.Fprintf(sb, "E %d %d %d %d %d ", n.Nat.To, n.Nat.Amt, n.Fl, n.Nat.Tag, b2i(n.Nat.HasCb))
			listText(sb, n.Nat.Cb)
		case natVote:
			fmt.Fprintf(sb, "O %d %d %d ", n.Nat.Val, n.Fl, n.Nat.Tag)
		default:
			panic("bad native kind")
		}
	default:
		panic("bad node")
	}
}

func treeText(l []*Node) string {
	var sb strings.Builder
	listText(&sb, l)
	return strings.TrimSpace(sb.String())
}

// ---------- world: hashes the renderings need ----------

type world struct {
	hashes   [numContracts]util.Uint160
	gas, neo util.Uint160
	policy   util.Uint160
	mgmt     util.Uint160
	roleMgmt util.Uint160
	notary   util.Uint160
	oracle   util.Uint160
	nefs     [numContracts][numNefs][]byte // serialized NEF variants of the interpreter contracts
	nefSums  [numContracts][numNefs]uint32
	natTok   map[string]int         // method tokens of native methods: hash.method/nparams -> token index
	conTok   map[[2]int]int         // method tokens of `run` of contracts 0,1: (callee, flags) -> token index (contracts 2,3 only)
	candKey  []byte                 // public key of the registered candidate
	nodeSets map[int][]any          // designated node lists (public keys)
	manifests [numContracts][]byte  // manifest used by ContractManagement.update
	plain    map[int]util.Uint160 // ordinary accounts (no contract)
	auxNef   [numAux][]byte
	auxMan   [numAux][]byte
	auxHash  [numAux]util.Uint160
}

func keyBytes(k int) []byte { return []byte{byte(k)} }
func valBytes(v int) []byte { return []byte{byte(v)} }

// ---------- encoded program for the interpreter contracts ----------

// encList encodes a node list executed inside contract `self`.
func (w *world) encList(l []*Node, self int) []any {
	res := make([]any, 0, len(l))
	for _, n := range l {
		res = append(res, w.encNode(n, self))
	}
	return res
}

func (w *world) nativeArgs(n *Node, self util.Uint160, selfID int) (util.Uint160, string, []any) {
	switch n.Nat.Kind {
	case natTransfer, natNeoTransfer:
		tok := w.gas
		if n.Nat.Kind == natNeoTransfer {
			tok = w.neo
		}
		var data any
		if n.Nat.HasCb {
			data = w.encList(n.Nat.Cb, n.Nat.To)
		}
		to := w.plain[n.Nat.To]
		if n.Nat.To < numContracts {
			to = w.hashes[n.Nat.To]
		}
		if n.Nat.To == notaryAcc { // Notary deposit: data = [owner = null (sender), till]
			to = w.notary
			data = []any{nil, int64(1000000)}
		}
		return tok, "transfer", []any{self, to, int64(n.Nat.Amt), data}
	case natSetFee:
		return w.policy, "setFeePerByte", []any{int64(n.Nat.Val)}
	case natBlock:
		return w.policy, "blockAccount", []any{w.plain[n.Nat.Val]}
	case natUnblock:
		return w.policy, "unblockAccount", []any{w.plain[n.Nat.Val]}
	case natDeploy:
		return w.mgmt, "deploy", []any{w.auxNef[n.Nat.Val], w.auxMan[n.Nat.Val]}
	case natUpdate:
		var man []byte
		if selfID < numContracts {
			man = w.manifests[selfID]
		}
		var ne any
		if n.Nat.Val != 0 && selfID < numContracts {
			ne = w.nefs[selfID][n.Nat.Val]
		}
		return w.mgmt, "update", []any{ne, man}
	case natRegCand:
		return w.neo, "registerCandidate", []any{w.candKey}
	case natUnregCand:
		return w.neo, "unregisterCandidate", []any{w.candKey}
	case natOracleReq:
		return w.oracle, "request", []any{oracleURLs[n.Nat.Val], nil, "cb", nil, int64(responseGas)}
	case natOracleFinish:
		return w.oracle, "finish", []any{}
	case natSetGas:
		return w.neo, "setGasPerBlock", []any{int64(n.Nat.Val)}
	case natLock:
		return w.notary, "lockDepositUntil", []any{self, int64(n.Nat.Val)}
	case natWithdraw:
		to := w.plain[n.Nat.To]
		if n.Nat.To < numContracts {
			to = w.hashes[n.Nat.To]
		}
		return w.notary, "withdraw", []any{self, to}
	case natDestroy:
		return w.mgmt, "destroy", []any{}
	case natDesignate:
		return w.roleMgmt, "designateAsRole", []any{int64(n.Nat.To), w.nodeSets[n.Nat.Val]}
	case natSetWl:
		return w.policy, "setWhitelistFeeContract", []any{w.hashes[n.Nat.To], "run", int64(1), int64(n.Nat.Val)}
	case natDelWl:
		return w.policy, "removeWhitelistFeeContract", []any{w.hashes[n.Nat.To], "run", int64(1)}
	case natVote:
		var k any
		if n.Nat.Val != 0 {
			k = w.candKey
		}
		return w.neo, "vote", []any{self, k}
	}
	panic("bad native op")
}

func (w *world) encNode(n *Node, self int) any {
	switch n.Op {
	case nPut:
		return []any{int64(nPut), keyBytes(n.K), valBytes(n.V)}
	case nDel:
		return []any{int64(nDel), keyBytes(n.K)}
	case nNotify:
		return []any{int64(nNotify), int64(n.K), int64(max(n.Rep, 1))}
	case nCall:
		if k, ok := w.conTok[[2]int{n.C, n.Fl}]; ok && n.Tok && self >= 2 && self < numContracts {
			cov["path:contract-call-through-method-token"]++
			return []any{int64(nCallT), int64(k), w.encList(n.Body, n.C)}
		}
		return []any{int64(nCall), w.hashes[n.C], int64(n.Fl), w.encList(n.Body, n.C)}
	case nTryC:
		var body []any
		if n.Inl { // the inline form is a System.Contract.Call emitted by the handler itself: never a token call
			b0 := *n.Body[0]
			b0.Tok = false
			body = []any{w.encNode(&b0, self)}
		} else {
			body = w.encList(n.Body, self)
		}
		switch {
		case n.HasCatch && n.HasFin:
			return []any{int64(nTryCF), body, w.encList(n.Catch, self), w.encList(n.Fin, self), int64(b2i(n.Inl))}
		case n.HasCatch:
			return []any{int64(nTryC), body, w.encList(n.Catch, self), int64(b2i(n.Inl))}
		default:
			return []any{int64(nTryF), body, w.encList(n.Fin, self), int64(b2i(n.Inl))}
		}
	case nThrow:
		return []any{int64(nThrow)}
	case nAbort:
		return []any{int64(nAbort)}
	case nLocal:
		return []any{int64(nLocal), w.encList(n.Body, self)}
	case nIf:
		return []any{int64(nIf), keyBytes(n.K), w.encList(n.Body, self)}
	case nEdit:
		return []any{int64(nEdit), keyBytes(n.K), int64(n.V)}
	case nNative:
		h, m, args := w.nativeArgs(n, w.hashes[self], self)
		if k, ok := w.natTok[tokKey(h, m, len(args))]; ok && n.Tok && n.Fl == 15 {
			cov["path:native-call-through-method-token"]++
			return []any{int64(nNativeT), int64(k), args}
		}
		return []any{int64(nNative), h, m, int64(n.Fl), args}
	}
	panic("bad node")
}

// ---------- inline compilation (the transaction's entry script) ----------

type compiler struct {
	a     *asm
	w     *world
	nlab  int
	funcs [][]*Node // bodies of `local` nodes, emitted after the main code
	fname []string
	self  util.Uint160
}

func (c *compiler) fresh(p string) string {
	c.nlab++
	return fmt.Sprintf("%s%d", p, c.nlab)
}

func (c *compiler) list(l []*Node) {
	for _, n := range l {
		c.node(n)
	}
}

func (c *compiler) anyItem(x any) {
	emitAny(c.a, x)
}

func (c *compiler) node(n *Node) {
	a := c.a
	switch n.Op {
	case nPut:
		a.bytes(valBytes(n.V))
		a.bytes(keyBytes(n.K))
		a.syscall(interopnames.SystemStorageGetContext)
		a.syscall(interopnames.SystemStoragePut)
	case nDel:
		a.bytes(keyBytes(n.K))
		a.syscall(interopnames.SystemStorageGetContext)
		a.syscall(interopnames.SystemStorageDelete)
	case nNotify:
		for i := 0; i < min(max(n.Rep, 1), 4); i++ { // the entry script may not notify at all: the first one faults
			a.int(int64(n.K))
			a.int(1)
			a.ops(opcode.PACK)
			a.str(eventName)
			a.syscall(interopnames.SystemRuntimeNotify)
		}
	case nCall:
		emitAny(a, []any{c.w.encList(n.Body, n.C)})
		a.int(int64(n.Fl))
		a.str("run")
		a.bytes(c.w.hashes[n.C].BytesBE())
		a.syscall(interopnames.SystemContractCall)
		a.ops(opcode.CLEAR)
	case nTryC:
		lc, lf, le := "", "", c.fresh("e")
		if n.HasCatch {
			lc = c.fresh("c")
		}
		if n.HasFin {
			lf = c.fresh("f")
		}
		a.try(lc, lf)
		c.list(n.Body)
		a.jmp(opcode.ENDTRYL, le)
		if n.HasCatch {
			a.label(lc)
			a.ops(opcode.CLEAR)
			c.list(n.Catch)
			a.jmp(opcode.ENDTRYL, le)
		}
		if n.HasFin {
			a.label(lf)
			a.ops(opcode.CLEAR)
			c.list(n.Fin)
			a.ops(opcode.ENDFINALLY)
		}
		a.label(le)
	case nThrow:
		a.str("x")
		a.ops(opcode.THROW)
	case nAbort:
		a.ops(opcode.ABORT)
	case nLocal:
		name := c.fresh("fn")
		c.funcs = append(c.funcs, n.Body)
		c.fname = append(c.fname, name)
		a.jmp(opcode.CALLL, name)
	case nIf, nEdit: // (the entry script has no storage of its own: the read faults)
		le := c.fresh("q")
		a.bytes(keyBytes(n.K))
		a.syscall(interopnames.SystemStorageGetContext)
		a.syscall(interopnames.SystemStorageGet)
		a.ops(opcode.ISNULL)
		a.jmp(opcode.JMPIFL, le)
		c.list(n.Body)
		a.label(le)
	case nNative:
		h, m, args := c.w.nativeArgs(n, c.self, entryID)
		emitAny(a, args)
		a.int(int64(n.Fl))
		a.str(m)
		a.bytes(h.BytesBE())
		a.syscall(interopnames.SystemContractCall)
		a.ops(opcode.CLEAR)
	default:
		panic("bad node")
	}
}

// compileEntry compiles a node list into a stand-alone script (straight-line code,
// TRY blocks in the executing context itself, `local` bodies as CALLed functions).
func (w *world) compileEntry(l []*Node) []byte {
	c := &compiler{a: newAsm(), w: w}
	c.list(l)
	c.a.ops(opcode.RET)
	for i := 0; i < len(c.funcs); i++ { // funcs may grow while compiling
		c.a.label(c.fname[i])
		c.list(c.funcs[i])
		c.a.ops(opcode.RET)
	}
	return c.a.finish()
}

// emitAny pushes a nested []any / int64 / []byte / Uint160 / nil value.
func emitAny(a *asm, x any) {
	switch t := x.(type) {
	case nil:
		a.ops(opcode.PUSHNULL)
	case int64:
		a.int(t)
	case []byte:
		a.bytes(t)
	case string:
		a.str(t)
	case util.Uint160:
		a.bytes(t.BytesBE())
	case []any:
		for i := len(t) - 1; i >= 0; i-- {
			emitAny(a, t[i])
		}
		a.int(int64(len(t)))
		a.ops(opcode.PACK)
	default:
		panic(fmt.Sprintf("emitAny: %T", x))
	}
}
