package main

// A tiny two-pass NeoVM assembler on top of pkg/vm/emit: symbolic labels, all
// jumps/calls/try in their long (4-byte offset) forms so that sizes are known
// before label resolution.

import (
	"encoding/binary"
	"fmt"

	"github.com/nspcc-dev/neo-go/pkg/io"
	"github.com/nspcc-dev/neo-go/pkg/vm/emit"
	"github.com/nspcc-dev/neo-go/pkg/vm/opcode"
)

type fixup struct {
	at    int    // position of the 4-byte operand
	base  int    // position of the instruction (offsets are relative to it)
	label string // target
}

type asm struct {
	w      *io.BufBinWriter
	labels map[string]int
	fix    []fixup
}

func newAsm() *asm {
	return &asm{w: io.NewBufBinWriter(), labels: map[string]int{}}
}

func (a *asm) pos() int { return a.w.Len() }

func (a *asm) label(name string) {
	if _, ok := a.labels[name]; ok {
		panic("duplicate label " + name)
	}
	a.labels[name] = a.pos()
}

func (a *asm) ops(o ...opcode.Opcode) { emit.Opcodes(a.w.BinWriter, o...) }
func (a *asm) int(i int64)            { emit.Int(a.w.BinWriter, i) }
func (a *asm) bytes(b []byte)         { emit.Bytes(a.w.BinWriter, b) }
func (a *asm) str(s string)           { emit.String(a.w.BinWriter, s) }
func (a *asm) syscall(name string)    { emit.Syscall(a.w.BinWriter, name) }
func (a *asm) initslot(l, n uint8)    { emit.InitSlot(a.w.BinWriter, l, n) }

// jmp emits a long jump-like instruction (JMPL, JMPIFL, CALLL, ENDTRYL, ...) to the label.
func (a *asm) jmp(op opcode.Opcode, label string) {
	base := a.pos()
	emit.Instruction(a.w.BinWriter, op, make([]byte, 4))
	a.fix = append(a.fix, fixup{at: base + 1, base: base, label: label})
}

// try emits TRYL; an empty label means "no such block" (offset 0).
func (a *asm) try(catch, fin string) {
	base := a.pos()
	emit.Instruction(a.w.BinWriter, opcode.TRYL, make([]byte, 8))
	if catch != "" {
		a.fix = append(a.fix, fixup{at: base + 1, base: base, label: catch})
	}
	if fin != "" {
		a.fix = append(a.fix, fixup{at: base + 5, base: base, label: fin})
	}
}

// item i of the array on top of the stack.
func (a *asm) pick(i int64) {
	a.int(i)
	a.ops(opcode.PICKITEM)
}

func (a *asm) finish() []byte {
	if a.w.Err != nil {
		panic(a.w.Err)
	}
	b := a.w.Bytes()
	for _, f := range a.fix {
		t, ok := a.labels[f.label]
		if !ok {
			panic(fmt.Sprintf("undefined label %s", f.label))
		}
		binary.LittleEndian.PutUint32(b[f.at:], uint32(int32(t-f.base)))
	}
	return b
}
