package main

import (
	"fmt"
	"os"
	"time"

	"github.com/nspcc-dev/neo-go/pkg/core/transaction"
)

func put(k, v int) *Node    { return &Node{Op: nPut, K: k, V: v} }
func del(k int) *Node       { return &Node{Op: nDel, K: k} }
func notify(e int) *Node    { return &Node{Op: nNotify, K: e} }
func throw() *Node          { return &Node{Op: nThrow} }
func abort() *Node          { return &Node{Op: nAbort} }
func local(b ...*Node) *Node { return &Node{Op: nLocal, Body: b} }
func call(c, fl int, b ...*Node) *Node {
	return &Node{Op: nCall, C: c, Fl: fl, Body: b}
}
func try(body, catch, fin []*Node) *Node {
	return &Node{Op: nTryC, Body: body, HasCatch: catch != nil, Catch: catch, HasFin: fin != nil, Fin: fin}
}
func L(n ...*Node) []*Node { return n }

func probe() {
	t0 := time.Now()
	v := newEnv()
	defer v.close()
	fmt.Println("env", time.Since(t0))
	cases := [][]*Node{
		L(call(0, 15, put(1, 1), notify(1))),
		L(call(0, 15, put(1, 2), try(L(call(1, 15, put(1, 3), notify(2), throw())), L(notify(3)), nil), put(2, 2))),
		// finally + in-flight exception + call
		L(call(0, 15, try(L(try(L(throw()), nil, L(call(1, 15, put(3, 3), notify(7)), put(3, 4)))), L(notify(8)), nil))),
		L(try(L(call(0, 15, put(0, 5), throw())), L(notify(9)), nil)),
		L(call(0, 15, put(0, 7), abort())),
	}
	for i, c := range cases {
		t1 := time.Now()
		before := v.snap()
		script := v.w.compileEntry(c)
		tx := v.newTx(script, 50_0000_0000, false)
		v.e.AddNewBlock(v.tb, []*transaction.Transaction{tx}...)
		aer := v.e.GetTxExecResult(v.tb, tx.Hash())
		after := v.snap()
		ev, odd := v.eventsOf(aer, tx.Sender())
		fmt.Printf("case %d: %s\n  %s fault=%q\n  before %s\n  after  %s\n  events %s odd=%v\n  gas sender %s -> %s (sys %d net %d) %v\n", i, treeText(c),
			aer.VMState, aer.FaultException, storeText(before.store), storeText(after.store), eventsText(ev), odd,
			before.gas[-1], after.gas[-1], tx.SystemFee, tx.NetworkFee, time.Since(t1))
	}
}

func main() {
	if len(os.Args) > 1 && os.Args[1] == "probe" {
		probe()
		return
	}
}
