// Command exec: correspondence + oracle stream for C04 (failed execution leaves no trace).
//
// Every case builds a fresh single-node chain with four copies of the interpreter contract
// (interp.go), gives the contracts random initial storage and GAS, then adds 1-2 blocks of
// 1-3 transactions whose scripts are call trees assembled into real NeoVM code. Printed per
// block: the pre-state, per transaction the VM state and the notifications of its
// AppExecResult, and the ledger state after the block (storage of every contract, GAS
// balances incl. the fee payer, the Policy setting read through the native cache).
// Oracle: the real result against the transactional specification (model.go specRun).
package main

import (
	"bytes"
	"fmt"
	"os"
	"sort"
	"strings"

	"github.com/nspcc-dev/neo-go/pkg/core/transaction"
	"github.com/nspcc-dev/neo-go/pkg/neotest"
	"github.com/nspcc-dev/neo-go/pkg/util"
	"github.com/nspcc-dev/neo-go/pkg/io"
	"github.com/nspcc-dev/neo-go/pkg/smartcontract/callflag"
	"github.com/nspcc-dev/neo-go/pkg/vm/emit"
	"github.com/nspcc-dev/neo-go/pkg/vm/vmstate"

	"verif/harness/internal/hx"
	"verif/harness/internal/prng"
)

const (
	sysFee       = 10_0000_0000
	sysFeeDeploy = 60_0000_0000 // every deployment costs at least 10 GAS
)

// ---------- store <-> observation ----------

func sortTriples(t []triple) {
	sort.Slice(t, func(a, b int) bool {
		if t[a].o != t[b].o {
			return t[a].o < t[b].o
		}
		return t[a].k < t[b].k
	})
}

func triplesText(t []triple) string {
	var b bytes.Buffer
	fmt.Fprintf(&b, "%d", len(t))
	for _, e := range t {
		fmt.Fprintf(&b, " %d %d %d", e.o, e.k, e.v)
	}
	return b.String()
}

func storeOf(t []triple) *wnode {
	var l *wnode
	for _, e := range t {
		l = l.set(mkey{e.o, e.k}, e.v)
	}
	return l
}

// triplesOf renders a model store the way the Lean driver's showStore does.
func triplesOf(l *wnode) []triple {
	var res []triple
	for k := range l.keys() {
		if v, ok := l.get(k); ok {
			if (k.o == gasTab || k.o == neoTab || k.o == candTab || k.o == votersTab) && v == 0 {
				continue
			}
			res = append(res, triple{k.o, k.k, v})
		}
	}
	sortTriples(res)
	return res
}

func sameEvents(a, b []event) bool {
	if len(a) != len(b) {
		return false
	}
	for i := range a {
		if a[i] != b[i] {
			return false
		}
	}
	return true
}

func burn(l *wnode, fee int) *wnode {
	b, _ := l.get(mkey{gasTab, senderAcc})
	b -= fee
	if b < 0 {
		b = 0
	}
	return l.set(mkey{gasTab, senderAcc}, b)
}

// ---------- one case ----------

type txPlan struct {
	tree      []*Node
	committee bool // a Policy setter occurs: the committee signs too
	deploys   bool
	oog       bool // the system fee is cut below what the script needs: the tx runs out of gas
	candWitness bool // NEO.unregisterCandidate occurs with the key owner's witness: the owner signs too
	registers int  // number of NEO.registerCandidate nodes (1000 GAS each)
	bulk      int  // notifications of the bulk notify nodes (about 0.011 GAS each)
	nefUpdates int // updates with a new NEF (storage fee for the whole contract state)
}

func (p txPlan) fee() int64 {
	f := int64(sysFee)
	if p.deploys {
		f = sysFeeDeploy
	}
	return f + int64(p.registers)*1001_0000_0000 + int64(p.bulk)*150_0000 + int64(p.nefUpdates)*8_0000_0000
}

func simpleTx(r *prng.R) txPlan {
	return simpleTxFixed(r.Intn(numContracts), r.Intn(4), r.Range(1, 9))
}

func planText(p txPlan) string { return treeText(p.tree) }

// setup: a registered candidate, then random initial storage, GAS and NEO for the contracts,
// sometimes votes, blocked accounts, whitelisted fees and a deployed auxiliary contract.
func (v *env) setup(r *prng.R, rich bool) {
	halt := func(txs ...*transaction.Transaction) {
		v.e.AddNewBlock(v.tb, txs...) // also when empty: the block heights do not depend on the random choices

		for _, tx := range txs {
			if aer := v.e.GetTxExecResult(v.tb, tx.Hash()); aer.VMState != vmstate.Halt {
				panic("setup transaction failed: " + aer.FaultException)
			}
		}
	}
	natTx := func(h util.Uint160, method string, fee int64, signers []neotest.Signer, args ...any) *transaction.Transaction {
		w := io.NewBufBinWriter()
		emit.AppCall(w.BinWriter, h, method, callflag.All, args...)
		tx := transaction.New(w.Bytes(), 0)
		tx.Nonce = v.nextNonce()
		tx.ValidUntilBlock = v.bc.BlockHeight() + 1
		return v.e.SignTx(v.tb, tx, fee, signers...)
	}
	comm := []neotest.Signer{v.comm}
	// block R: (mostly) the committee member registers itself as a candidate (1000 GAS); GAS for the
	// contracts that will make a Notary deposit as senders of their own transaction (see below)
	var txs []*transaction.Transaction
	if rich || r.Chance(5, 6) {
		txs = append(txs, natTx(v.w.neo, "registerCandidate", 1010_0000_0000, []neotest.Signer{v.sender, v.single}, v.w.candKey))
	}
	var shortDep [numContracts]bool
	for i := 0; i < numContracts; i++ {
		if (rich && i >= 2) || (!rich && r.Chance(1, 4)) {
			shortDep[i] = true
			txs = append(txs, natTx(v.w.gas, "transfer", sysFee, comm, v.comm.ScriptHash(), v.w.hashes[i], int64(3_0000_0000), nil))
		}
	}
	halt(txs...)

	txs = nil
	for i := 0; i < numContracts; i++ {
		var prog []*Node
		for k := 0; k < 4; k++ {
			if r.Chance(2, 5) {
				prog = append(prog, &Node{Op: nPut, K: k, V: r.Range(1, 9)})
			}
		}
		if r.Chance(1, 4) { // becomes meaningful once the contract holds NEO (next block)
			prog = append(prog, &Node{Op: nNotify, K: 1})
		}
		if len(prog) > 0 {
			txs = append(txs, v.newTx(v.w.compileEntry([]*Node{{Op: nCall, C: i, Fl: 15, Body: prog}}), sysFee, false))
		}
		if rich || r.Chance(4, 5) {
			amt := int64(r.Intn(21))
			if rich || r.Chance(2, 3) {
				amt += 1_0000_0000 // enough for Notary deposits
			}
			if amt > 0 {
				txs = append(txs, natTx(v.w.gas, "transfer", sysFee, comm, v.comm.ScriptHash(), v.w.hashes[i], amt, nil))
			}
		}
		if rich || r.Chance(1, 2) {
			txs = append(txs, natTx(v.w.neo, "transfer", sysFee, comm, v.comm.ScriptHash(), v.w.hashes[i], int64(r.Range(1, 40)), nil))
		}
		if shortDep[i] {
			// a deposit whose owner is the transaction's sender may choose `till`: the minimum, so that
			// Notary.withdraw succeeds in the test blocks (notary.go onPayment: allowedChangeTill)
			w := io.NewBufBinWriter()
			emit.AppCall(w.BinWriter, v.w.gas, "transfer", callflag.All, v.w.hashes[i], v.w.notary,
				int64(minDeposit+r.Intn(3)), []any{nil, int64(v.bc.BlockHeight() + 2)})
			tx := transaction.New(w.Bytes(), 0)
			tx.Nonce = v.nextNonce()
			tx.ValidUntilBlock = v.bc.BlockHeight() + 1
			txs = append(txs, v.e.SignTx(v.tb, tx, 1_0000_0000, neotest.NewContractSigner(v.w.hashes[i], func(*transaction.Transaction) []any { return nil })))
		}
	}
	if r.Chance(1, 3) {
		txs = append(txs, natTx(v.w.neo, "transfer", sysFee, comm, v.comm.ScriptHash(), v.w.plain[6], int64(r.Range(1, 9)), nil))
	}
	halt(txs...)
	// sometimes the chain starts with votes, blocked accounts, whitelisted fees, a deployed auxiliary contract
	txs = nil
	for i := 0; i < numContracts; i++ {
		if r.Chance(1, 3) {
			txs = append(txs, v.newTx(v.w.compileEntry([]*Node{call(i, 15, &Node{Op: nNative, Fl: 15, Nat: &NatOp{Kind: natVote, Val: 1}})}), sysFee, false))
		}
	}
	var pre []*Node
	for _, a := range plainAccounts {
		if r.Chance(1, 3) {
			pre = append(pre, blockAcc(a, 15))
		}
	}
	for i := 0; i < numContracts; i++ {
		if r.Chance(1, 4) {
			pre = append(pre, &Node{Op: nNative, Fl: 15, Nat: &NatOp{Kind: natSetWl, To: i, Val: r.Range(0, 900)}})
		}
	}
	if r.Chance(1, 5) {
		pre = append(pre, deploy(r.Intn(numAux), 15))
	}
	if len(pre) > 0 {
		p := planOf([]*Node{call(0, 15, pre...)})
		txs = append(txs, v.newTx(v.w.compileEntry(p.tree), p.fee(), p.committee))
	}
	halt(txs...)
}

func runCase(o *hx.Out, k int, r *prng.R, corp []txPlan, natives bool) {
	v := newEnv()
	defer v.close()
	v.setup(r, corp != nil)
	if os.Getenv("VERIF_EXEC_DEBUG") != "" {
		fmt.Fprintf(os.Stderr, "case %d: first test block %d\n", k, v.bc.BlockHeight()+1)
	}
	if corp != nil {
		if h := int(v.bc.BlockHeight()) + 1; h != corpusHeight {
			panic(fmt.Sprintf("the corpus assumes that its block has index %d, it is %d", corpusHeight, h))
		}
		v.runBlock(o, k, corp)
		return
	}
	nblocks := r.Range(1, 2)
	for b := 0; b < nblocks; b++ {
		if natives && r.Chance(1, 7) {
			o.Count("block:double-set-scenario")
			v.runBlock(o, k, genDoubleSet(r, o, int(v.bc.BlockHeight())+1))
			continue
		}
		ntx := []int{1, 1, 1, 2, 2, 3}[r.Intn(6)]
		var plans []txPlan
		for i := 0; i < ntx; i++ {
			switch {
			case ntx > 1 && r.Chance(1, 3):
				plans = append(plans, simpleTx(r))
				o.Count("tx:simple-neighbour")
			case ntx > 1 && i == 0 && r.Chance(1, 4):
				p := genTree(r, o, natives, int(v.bc.BlockHeight())+1)
				p.oog = true
				plans = append(plans, p)
				o.Count("tx:out-of-gas-predecessor")
			default:
				plans = append(plans, genTree(r, o, natives, int(v.bc.BlockHeight())+1))
			}
		}
		v.runBlock(o, k, plans)
	}
}

func (v *env) runBlock(o *hx.Out, k int, plans []txPlan) {
	before := v.snap(false)
	pre := before.tr
	var txs []*transaction.Transaction
	var fees []string
	for i := range plans {
		p := &plans[i]
		script := v.w.compileEntry(p.tree)
		fee := p.fee()
		if p.oog {
			// what the script needs on the state it will meet (it is the first of the block), cut
			probe := v.planTx(*p, script, fee)
			if vm, _ := v.e.TestInvoke(probe); vm != nil && vm.GasConsumed() > 1 {
				fee = vm.GasConsumed() * int64(1+k%7) / 8
			} else {
				p.oog = false
			}
		}
		tx := v.planTx(*p, script, fee)
		txs = append(txs, tx)
		fees = append(fees, fmt.Sprint(tx.SystemFee+tx.NetworkFee))
	}
	o.Line(fmt.Sprintf("block %d %s %s", len(txs), strings.Join(fees, " "), triplesText(pre)), "ok")
	o.Count(fmt.Sprintf("block:txs=%d", len(txs)))

	v.e.AddNewBlock(v.tb, txs...)
	// does the block have the shape of the finding blocked-list-stale-index, fixed by cf4871f (a pre-pass of the
	// implementation model; its coverage counters are discarded)? From then on a divergence of Policy's blocked-accounts
	// cache of this chain is reported under that (no longer known) key: a regression of the fix.
	{
		saved := cov
		cov = map[string]int{}
		st := storeOf(pre)
		for _, tx := range txs {
			st = burn(st, int(tx.SystemFee+tx.NetworkFee))
		}
		for _, p := range plans {
			if p.oog {
				continue
			}
			st = implRun(st, p.tree).st
			if staleFired {
				v.staleSeen = true
				o.Count("shape:block-inside-reward-callback-of-a-block")
			}
		}
		cov = saved
	}
	// the transactions as stored in the block are the ones that were submitted (their script is handed to the VM by
	// System.Runtime.GetScriptContainer)
	for i, tx := range txs {
		stored, _, err := v.bc.GetTransaction(tx.Hash())
		if err != nil || !bytes.Equal(stored.Script, v.w.compileEntry(plans[i].tree)) || stored.Hash() != tx.Hash() {
			o.Fail("stored-transaction-changed", k, "tx %d: %s", i, planText(plans[i]))
		}
	}
	after := v.snap(true)
	post := after.tr
	for _, t := range pre { // the rewards and the block index are inputs of the block: the model keeps them in its store
		if t.o == rewardTab || t.o == heightTab {
			post = append(post, t)
		}
	}
	sortTriples(post)

	// specification side (Go port, cross-checked against Lean by the `spec`/`specend` lines)
	specSt, implSt := storeOf(pre), storeOf(pre)
	for _, tx := range txs {
		specSt = burn(specSt, int(tx.SystemFee+tx.NetworkFee))
		implSt = burn(implSt, int(tx.SystemFee+tx.NetworkFee))
	}
	anyDev := false
	for i, p := range plans {
		tx := txs[i]
		aer := v.e.GetTxExecResult(v.tb, tx.Hash())
		ev, odd := v.eventsOf(aer, tx.Sender())
		st := aer.VMState.String()
		gasOut := strings.Contains(strings.ToLower(aer.FaultException), "gas limit") || strings.Contains(aer.FaultException, "insufficient gas")
		if os.Getenv("VERIF_EXEC_DEBUG") != "" {
			fmt.Fprintf(os.Stderr, "case %d tx %d: %s %q\n", k, i, aer.VMState, aer.FaultException)
		}
		realHalt := aer.VMState == vmstate.Halt
		if realHalt {
			o.Count("result:HALT")
		} else {
			o.Count("result:FAULT")
			o.Count("fault:" + faultClass(aer.FaultException))
		}
		if p.oog {
			// out of gas at a point the model does not know: the model's answer is FAULT and no change
			obs := st
			if !gasOut {
				obs += " not-out-of-gas"
				o.Fail("harness-gas-cut", k, "%s: %s %q with fee %d", planText(p), st, aer.FaultException, tx.SystemFee)
			}
			o.Line("txg | "+planText(p), obs)
			o.Line("spec", "FAULT ev 0")
			continue
		}
		if gasOut {
			st = "GASLIMIT"
			o.Fail("harness-gas-limit", k, "%s: %s", planText(p), aer.FaultException)
		}
		if len(odd) > 0 {
			st += " odd=" + strings.Join(odd, ",")
			o.Fail("odd-event", k, "%s: %v", planText(p), odd)
		}
		o.Line("tx | "+planText(p), fmt.Sprintf("%s ev %s", st, eventsText(ev)))
		var effEv []event
		if realHalt {
			effEv = ev
		}

		so := specRun(specSt, p.tree)
		specSt = so.st
		mo := implRun(implSt, p.tree)
		implSt = mo.st
		fired := devFired
		anyDev = anyDev || fired
		if fired {
			o.Count("shape:commit-rule-applied-under-pending-exception")
		}
		hs := "FAULT"
		if so.halt {
			hs = "HALT"
		}
		o.Line("spec", fmt.Sprintf("%s ev %s", hs, eventsText(so.ev)))
		// the Go port's classification flag against the `dev` flag of the Lean specification spK
		o.Line("dev", fmt.Sprintf("dev %d", b2i(fired)))
		if fired {
			// the known deviation was applied in this transaction: the specification's ledger state may differ from
			// the implementation model's from here on. Report it (known shape), then let the specification continue
			// from the implementation model's state, so that the following transactions of the block are judged on
			// their own (the driver does the same on `dev 1`). Whether the REAL state is the model's is checked at the
			// end of the block.
			if a, b := triplesText(triplesOf(specSt)), triplesText(triplesOf(implSt)); a != b {
				o.Fail("finally-call-rollback", k, "tx %d of block: ledger state after the transaction: implementation model %s, spec %s; tree %s", i, b, a, planText(p))
			}
			specSt = implSt
		}

		if realHalt != so.halt || !sameEvents(effEv, so.ev) {
			o.Fail(classify(fired, realHalt == mo.halt && sameEvents(ev, mo.raw), "tx"), k,
				"tx %d of block: real %s ev %s, spec %s ev %s; tree %s", i, st, eventsText(effEv), hs, eventsText(so.ev), planText(p))
		}
		// direct form of the first sentence of the property, independent of the specification:
		// a block consisting of one FAULTed transaction changes nothing but the fee payer's GAS.
		if len(plans) == 1 && !realHalt {
			want := triplesOf(burn(storeOf(pre), int(tx.SystemFee+tx.NetworkFee)))
			if triplesText(want) != triplesText(post) {
				o.Fail("fault-left-trace", k, "FAULTed tx changed state: before %s after %s fee %d; tree %s",
					triplesText(pre), triplesText(post), tx.SystemFee+tx.NetworkFee, planText(p))
			}
		}
		var md, nn int
		treeStats(o, p.tree, 1, &md, &nn)
		o.Count(fmt.Sprintf("tree:depth=%d", md))
		o.Count("tree:nodes=" + bucket(nn))
		if callInFinally(p.tree) {
			o.Count("shape:call-in-finally")
		} else {
			o.Count("shape:safe")
		}
		if callInCatchWithFinally(p.tree) {
			o.Count("shape:call-in-catch-with-finally")
		}
		if nn > 1 {
			o.Seen(planText(p))
		}
		if k < 3 {
			o.Sample(fmt.Sprintf("%s -> %s ev %s", planText(p), st, eventsText(ev)))
		}
	}
	if len(after.stale) > 0 {
		o.Fail("blocked-list-stale-index", k, "%v; txs %s", after.stale, plansText(plans))
		post = append(post, triple{997, 0, len(after.stale)})
	}
	if len(after.odd) > 0 {
		o.Fail("cache-storage-divergence", k, "%v; txs %s", after.odd, plansText(plans))
		post = append(post, triple{999, 0, len(after.odd)})
	}
	// the native caches against a node restarted from the same store
	div := v.replicaCheck()
	if v.staleSeen {
		var rest, stale []string
		for _, d := range div {
			if strings.HasPrefix(d, "isBlocked:") {
				stale = append(stale, d)
			} else {
				rest = append(rest, d)
			}
		}
		if len(stale) > 0 {
			o.Fail("blocked-list-stale-index", k, "node restarted from the same store: %v; txs %s", stale, plansText(plans))
		}
		div = rest
	}
	if len(div) > 0 {
		o.Fail("cache-restart-divergence", k, "%v; txs %s", div, plansText(plans))
		post = append(post, triple{998, 0, len(div)})
	}
	o.Line("end", "st "+triplesText(post))
	spost := triplesOf(specSt)
	o.Line("specend", "st "+triplesText(spost))
	if triplesText(post) != triplesText(spost) {
		o.Fail(classify(anyDev, triplesText(post) == triplesText(triplesOf(implSt)), "state"), k,
			"ledger state after block: real %s, spec %s; txs %s", triplesText(post), triplesText(spost), plansText(plans))
	}
	for name, n := range cov {
		o.Add(name, n)
		delete(cov, name)
	}
}

func plansText(ps []txPlan) string {
	var s []string
	for _, p := range ps {
		s = append(s, planText(p))
	}
	return strings.Join(s, " ;; ")
}

func bucket(n int) string {
	switch {
	case n <= 3:
		return "01-03"
	case n <= 8:
		return "04-08"
	case n <= 16:
		return "09-16"
	case n <= 30:
		return "17-30"
	}
	return "31+"
}

func faultClass(s string) string {
	for _, c := range []string{"ABORT", "unhandled exception", "missing call flags", "not allowed in dynamic scripts",
		"can not be retrieved in dynamic scripts", "context unload callback failed", "instruction offset is out of range",
		"invalid offset for TRY", "invalid committee signature", "GAS limit", "contract already exists", "is blocked", "not found",
		"first deposit", "already designated", "whitelist"} {
		if strings.Contains(s, c) {
			return strings.ReplaceAll(c, " ", "-")
		}
	}
	return "other"
}

// classify names the shape of a deviation of the real code from the specification. The
// implementation model is proved equal to the specification unless its run applies the commit
// rule of unloadContext to a callee that completed normally under a pending exception (Props/C04
// impl_refines_spec_unless_finally_commit); so a deviation is "known" only if that rule fired in
// the model's run AND the real code agrees with the model.
func classify(fired, realEqImpl bool, what string) string {
	if realEqImpl && fired {
		return "finally-call-rollback"
	}
	return "atomicity-" + what
}

func main() {
	f := hx.ParseFlags()
	o := hx.NewOut(f.Out)
	defer o.Close()
	corp := corpus()
	n := f.N(len(corp)+500, len(corp)+8000)
	for k := 0; k < n; k++ {
		if !f.Want(k) {
			continue
		}
		r := prng.ForCase(f.Seed, k)
		o.Case(k)
		var c []txPlan
		if k < len(corp) {
			c = corp[k]
			o.Count("case:corpus")
		} else {
			o.Count("case:generated")
		}
		func() {
			defer func() {
				if e := recover(); e != nil {
					o.Line("harness-error", fmt.Sprint(e))
					o.Fail("harness-error", k, "%v", e)
				}
			}()
			if c == nil && k%8 == 7 {
				o.Count("case:native-cache-layering")
				runCacheCase(o, k, r)
				return
			}
			if c == nil && k == len(corp) {
				o.Count("case:notification-immutability-probe")
				runNotificationProbe(o, k)
				return
			}
			if c == nil && k%16 == 3 {
				o.Count("case:blocked-accounts-cache")
				runBlockedListCase(o, k, r)
				return
			}
			runCase(o, k, r, c, true)
		}()
	}
}
