package main

// Correspondence stream for Policy's blocked-accounts cache (policy.go: a sorted slice searched with
// slices.BinarySearchFunc; BlockAccountInternalDeferrable, unblockAccount) against Model/ExecBlocked.lean:
// random sequences of blockAccount / unblockAccount of plain accounts, one per block, and (once per chain) the
// transaction of the finding blocked-list-stale-index (fixed by cf4871f) — contract 1, armed, destroys itself; the payment
// callback of its GAS reward makes contract 0 destroy itself before contract 1 is inserted (the position used to be
// computed before the callback). After every block the cache is read in ITS order (Policy.getBlockedAccounts iterates over a
// clone of the cached slice) and compared with the driver's list — also after the list has become unsorted, when
// every later search runs on an unsorted slice. Oracle: isBlocked (the cache) against storage for every account.

import (
	"fmt"
	"sort"
	"strings"

	"github.com/nspcc-dev/neo-go/pkg/core/interop/interopnames"
	"github.com/nspcc-dev/neo-go/pkg/core/transaction"
	"github.com/nspcc-dev/neo-go/pkg/io"
	"github.com/nspcc-dev/neo-go/pkg/neotest"
	"github.com/nspcc-dev/neo-go/pkg/smartcontract/callflag"
	"github.com/nspcc-dev/neo-go/pkg/util"
	"github.com/nspcc-dev/neo-go/pkg/vm/emit"
	"github.com/nspcc-dev/neo-go/pkg/vm/opcode"
	"github.com/nspcc-dev/neo-go/pkg/vm/stackitem"
	"github.com/nspcc-dev/neo-go/pkg/vm/vmstate"

	"verif/harness/internal/hx"
	"verif/harness/internal/prng"
)

// cachedBlockedList returns Policy's blocked-accounts cache in its own order.
func (v *env) cachedBlockedList() []util.Uint160 {
	a := newAsm()
	a.int(0)
	a.ops(opcode.PACK)
	a.int(int64(callflag.ReadOnly))
	a.str("getBlockedAccounts")
	a.bytes(v.w.policy.BytesBE())
	a.syscall(interopnames.SystemContractCall) // [iter]
	a.ops(opcode.NEWARRAY0)                    // [iter, arr]
	a.label("loop")
	a.ops(opcode.OVER)
	a.syscall(interopnames.SystemIteratorNext)
	a.jmp(opcode.JMPIFNOTL, "end")
	a.ops(opcode.DUP, opcode.PUSH2, opcode.PICK)
	a.syscall(interopnames.SystemIteratorValue)
	a.ops(opcode.APPEND)
	a.jmp(opcode.JMPL, "loop")
	a.label("end")
	a.ops(opcode.NIP, opcode.RET)
	tx := transaction.New(a.finish(), 0)
	tx.ValidUntilBlock = v.bc.BlockHeight() + 1
	tx.Signers = []transaction.Signer{{Account: v.sender.ScriptHash(), Scopes: transaction.Global}}
	vm, err := v.e.TestInvoke(tx)
	if err != nil || vm.Estack().Len() != 1 {
		panic(fmt.Sprintf("getBlockedAccounts: %v", err))
	}
	arr, ok := vm.Estack().Pop().Item().Value().([]stackitem.Item)
	if !ok {
		panic("getBlockedAccounts: not an array")
	}
	var res []util.Uint160
	for _, it := range arr {
		b, _ := it.TryBytes()
		h, err := util.Uint160DecodeBytesBE(b)
		if err != nil {
			panic(err)
		}
		res = append(res, h)
	}
	return res
}

func runBlockedListCase(o *hx.Out, k int, r *prng.R) {
	v := newEnv()
	defer v.close()
	v.setup(r, true)
	// the universe of accounts, numbered in the order of the cache (util.Uint160.Compare)
	univ := []util.Uint160{v.w.hashes[0], v.w.hashes[1]}
	for _, a := range plainAccounts {
		univ = append(univ, v.w.plain[a])
	}
	var extra []util.Uint160
	for i := 0; i < 8; i++ {
		h := util.Uint160{}
		copy(h[:], r.Bytes(20))
		extra = append(extra, h)
		univ = append(univ, h)
	}
	sort.Slice(univ, func(a, b int) bool { return univ[a].Compare(univ[b]) < 0 })
	rank := func(h util.Uint160) int {
		for i, u := range univ {
			if u.Equals(h) {
				return i + 1
			}
		}
		panic("blocked account outside the universe: " + h.StringLE())
	}
	listText := func() string {
		l := v.cachedBlockedList()
		var sb strings.Builder
		fmt.Fprintf(&sb, "bl %d", len(l))
		for _, h := range l {
			fmt.Fprintf(&sb, " %d", rank(h))
		}
		return sb.String()
	}
	staleDone := false
	check := func(op string) {
		o.Line(op, listText())
		// the property's oracle on the real code: what the node answers (cache) against storage
		var bad []string
		for _, h := range univ {
			inStorage := v.bc.GetStorageItem(v.polID, append([]byte{15}, h.BytesBE()...)) != nil
			inCache := v.testInvoke(v.w.policy, "isBlocked", h).Value().(bool)
			if inCache != inStorage {
				bad = append(bad, fmt.Sprintf("account %d: isBlocked=%v storage=%v", rank(h), inCache, inStorage))
			}
		}
		if len(bad) > 0 {
			key := "cache-storage-divergence"
			if staleDone {
				key = "blocked-list-stale-index"
			}
			o.Fail(key, k, "after %q: %v", op, bad)
		}
	}
	// the list setup left (blocked plain accounts)
	{
		t := listText()
		o.Line("blset "+strings.TrimPrefix(t, "bl "), t)
	}
	polTx := func(method string, h util.Uint160) *transaction.Transaction {
		w := io.NewBufBinWriter()
		emit.AppCall(w.BinWriter, v.w.policy, method, callflag.All, h)
		tx := transaction.New(w.Bytes(), 0)
		tx.Nonce = v.nextNonce()
		tx.ValidUntilBlock = v.bc.BlockHeight() + 1
		return v.e.SignTx(v.tb, tx, sysFee, []neotest.Signer{v.comm}...)
	}
	targets := append([]util.Uint160{}, extra...)
	for _, a := range plainAccounts {
		targets = append(targets, v.w.plain[a])
	}
	n := r.Range(6, 14)
	stalePos := -1
	if r.Chance(3, 4) {
		stalePos = r.Intn(n)
	}
	for i := 0; i < n; i++ {
		switch {
		case i == stalePos:
			p := planOf([]*Node{call(1, 15, put(4, 1), destroy())})
			tx := v.planTx(p, v.w.compileEntry(p.tree), p.fee())
			v.e.AddNewBlock(v.tb, tx)
			aer := v.e.GetTxExecResult(v.tb, tx.Hash())
			if aer.VMState != vmstate.Halt || v.bc.GetContractState(v.w.hashes[0]) != nil || v.bc.GetContractState(v.w.hashes[1]) != nil {
				panic("the reward hook of contract 1 did not destroy contract 0: " + aer.FaultException)
			}
			staleDone = true
			o.Count("blocked-op:block-with-block-in-reward-callback")
			check(fmt.Sprintf("blstale %d %d", rank(v.w.hashes[1]), rank(v.w.hashes[0])))
		case r.Chance(3, 5):
			h := targets[r.Intn(len(targets))]
			v.e.AddNewBlock(v.tb, polTx("blockAccount", h))
			o.Count("blocked-op:block")
			check(fmt.Sprintf("blblock %d", rank(h)))
		default:
			h := targets[r.Intn(len(targets))]
			v.e.AddNewBlock(v.tb, polTx("unblockAccount", h))
			o.Count("blocked-op:unblock")
			check(fmt.Sprintf("blunblock %d", rank(h)))
		}
	}
}
