package main

// The native caches against a node restarted from the same store: after every test block the
// write cache is flushed (VerifPersist hook), the backing MemoryStore is cloned, a second
// Blockchain is started over the clone (its native caches are rebuilt from storage by
// InitializeCache) and a fixed list of read-only native methods — everything that is answered
// from a cache — is invoked on both nodes. Any difference is a cache that diverged from storage.

import (
	"bytes"
	"encoding/binary"
	"fmt"

	"github.com/nspcc-dev/neo-go/pkg/core"
	"github.com/nspcc-dev/neo-go/pkg/core/storage"
	"github.com/nspcc-dev/neo-go/pkg/neotest"
	"github.com/nspcc-dev/neo-go/pkg/neotest/chain"
	"github.com/nspcc-dev/neo-go/pkg/util"
	"github.com/nspcc-dev/neo-go/pkg/vm/stackitem"
	"go.uber.org/zap"
)

func cloneStore(src *storage.MemoryStore) *storage.MemoryStore {
	dst := storage.NewMemoryStore()
	puts, stores := map[string][]byte{}, map[string][]byte{}
	for b := 0; b < 256; b++ {
		src.Seek(storage.SeekRange{Prefix: []byte{byte(b)}}, func(k, v []byte) bool {
			m := puts
			if p := storage.KeyPrefix(b); p == storage.STStorage || p == storage.STTempStorage {
				m = stores
			}
			m[string(k)] = bytes.Clone(v)
			return true
		})
	}
	_ = dst.PutChangeSet(puts, stores)
	return dst
}

type probe struct {
	h      util.Uint160
	method string
	args   []any
}

func (v *env) probes() []probe {
	var ps []probe
	add := func(h util.Uint160, m string, a ...any) { ps = append(ps, probe{h, m, a}) }
	next := int64(v.bc.BlockHeight() + 1)
	for _, m := range []string{"getFeePerByte", "getExecFeeFactor", "getStoragePrice"} {
		add(v.w.policy, m)
	}
	for _, a := range []int{0, 1, 2, 3, 6, 7, 8} {
		add(v.w.policy, "isBlocked", v.acc(a))
	}
	for i := 0; i < numContracts; i++ {
		add(v.w.hashes[i], "run", []any{}) // the gas consumed shows a whitelisted fee
		add(v.w.mgmt, "getContract", v.w.hashes[i])
		add(v.w.notary, "balanceOf", v.w.hashes[i])
	}
	for d := 0; d < numAux; d++ {
		add(v.w.mgmt, "getContract", v.w.auxHash[d])
	}
	add(v.w.mgmt, "getMinimumDeploymentFee")
	for _, r := range roles {
		add(v.w.roleMgmt, "getDesignatedByRole", int64(r), next)
	}
	for _, m := range []string{"getCandidates", "getCommittee", "getNextBlockValidators", "getGasPerBlock", "getRegisterPrice"} {
		add(v.w.neo, m)
	}
	add(v.w.neo, "getCandidateVote", v.w.candKey)
	for _, a := range neoHolders {
		add(v.w.neo, "getAccountState", v.acc(a))
		add(v.w.neo, "unclaimedGas", v.acc(a), next)
	}
	add(v.w.notary, "getMaxNotValidBeforeDelta")
	return ps
}

func runProbe(e *neotest.Executor, tb *shimTB, p probe) (res string) {
	defer func() {
		if r := recover(); r != nil {
			res = fmt.Sprintf("panic: %v", r)
		}
	}()
	tx := e.NewUnsignedTx(tb, p.h, p.method, p.args...)
	vm, err := e.TestInvoke(tx)
	if err != nil {
		return "err " + fmt.Sprint(vm.GasConsumed())
	}
	out := fmt.Sprintf("gas=%d", vm.GasConsumed())
	for _, it := range vm.Estack().ToArray() {
		if b, err := stackitem.ToJSONWithTypes(it); err == nil {
			out += " " + string(b)
		} else {
			out += " " + it.String()
		}
	}
	return out
}

// replicaCheck returns the probes answered differently by the live node and by a node restarted
// from its store.
func (v *env) replicaCheck() []string {
	if err := v.bc.VerifPersist(); err != nil {
		panic(err)
	}
	tb := &shimTB{}
	defer tb.done()
	var bcB *core.Blockchain
	bcB, comm := chain.NewSingleWithOptions(tb, &chain.Options{Logger: zap.NewNop(), Store: cloneStore(v.store)})
	eB := neotest.NewExecutor(tb, bcB, comm, comm)
	var div []string
	if bcB.BlockHeight() != v.bc.BlockHeight() {
		return []string{fmt.Sprintf("replica height %d, live %d", bcB.BlockHeight(), v.bc.BlockHeight())}
	}
	// contract storage: the live DAO, the node restarted from the same store, and what the state root commits to
	// (the MPT) must hold the same bytes under the same keys
	dump := func(bc *core.Blockchain) map[string]string {
		m := map[string]string{}
		for i := 0; i < numContracts; i++ {
			bc.SeekStorage(v.ids[i], nil, func(k, val []byte) bool {
				m[fmt.Sprintf("%d:%x", i, k)] = fmt.Sprintf("%x", val)
				return true
			})
		}
		return m
	}
	live, restarted := dump(v.bc), dump(bcB)
	for k, a := range live {
		if b, ok := restarted[k]; !ok || a != b {
			div = append(div, fmt.Sprintf("storage %s: live %s, restarted %s", k, a, b))
		}
	}
	for k := range restarted {
		if _, ok := live[k]; !ok {
			div = append(div, fmt.Sprintf("storage %s: only after restart", k))
		}
	}
	sm := v.bc.GetStateModule()
	root := sm.CurrentLocalStateRoot()
	for i := 0; i < numContracts; i++ {
		v.bc.SeekStorage(v.ids[i], nil, func(k, val []byte) bool {
			key := make([]byte, 4, 4+len(k))
			binary.LittleEndian.PutUint32(key, uint32(v.ids[i]))
			key = append(key, k...)
			mv, err := sm.GetState(root, key)
			if err != nil || !bytes.Equal(mv, val) {
				div = append(div, fmt.Sprintf("storage %d:%x: DAO %x, state root commits to %x (%v)", i, k, val, mv, err))
			}
			return true
		})
	}
	for _, p := range v.probes() {
		a, b := runProbe(v.e, v.tb, p), runProbe(eB, tb, p)
		if a != b {
			if len(a) > 160 {
				a = a[:160]
			}
			if len(b) > 160 {
				b = b[:160]
			}
			div = append(div, fmt.Sprintf("%s: live %s, restarted %s", p.method, a, b))
		}
	}
	return div
}
