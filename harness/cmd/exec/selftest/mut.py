#!/usr/bin/env python3
# mutation self-test for C04 (sensitivity of tie + oracle): python3 harness/cmd/exec/selftest/mut.py [Mx ...]
# Builds the harness with a Go overlay per mutation of /repo (nothing in /repo is touched), runs the quick tier,
# pipes ops.txt through drv_exec and reports tie-disagreeing cases and oracle FAIL keys. Work dir: /tmp/exec-selftest (delete after use).
import json, os, subprocess, sys
MUTS = [
 ("M1-wrap-ignores-notify-flag", "/repo/pkg/core/interop/contract/call.go",
  "f&(callflag.All^callflag.ReadOnly) != 0 //", "f&callflag.WriteStates != 0 //"),
 ("M2-no-notification-truncation", "/repo/pkg/core/interop/contract/call.go",
  "ic.Notifications = ic.Notifications[:baseNtfCount] //", "_ = baseNtfCount //"),
 ("M3-basecount-taken-after-wrap-off-by-one", "/repo/pkg/core/interop/contract/call.go",
  "ic.Notifications = ic.Notifications[:baseNtfCount] //", "ic.Notifications = ic.Notifications[:min(baseNtfCount+1, len(ic.Notifications))] //"),
 ("M4-unload-always-commit-on-RET-path-only", "/repo/pkg/vm/vm.go",
  "err := ctx.sc.onUnload(v, ctx, v.uncaughtException == nil)", "err := ctx.sc.onUnload(v, ctx, v.uncaughtException == nil || ctx.retCount >= 0 && len(v.istack) > 2)"),
 ("M5-hastry-checks-top-context-only", "/repo/pkg/vm/vm.go",
  "			return false // Different contract -> no one cares.\n		}", "			return false // Different contract -> no one cares.\n		}\n		if i > 0 {\n			return false\n		}"),
 ("M6-exception-cleared-before-unwinding", "/repo/pkg/vm/vm.go",
  "			for range pop {\n				ctx := v.istack[len(v.istack)-1]\n				v.istack = v.istack[:len(v.istack)-1]\n				v.unloadContext(ctx)\n			}\n			v.estack = ictx.sc.estack\n			if ectx.State == eTry && ectx.HasCatch() {\n				ectx.State = eCatch\n				v.estack.PushItem(v.uncaughtException)\n				v.uncaughtException = nil",
  "			exc := v.uncaughtException\n			if ectx.State == eTry && ectx.HasCatch() {\n				v.uncaughtException = nil\n			}\n			for range pop {\n				ctx := v.istack[len(v.istack)-1]\n				v.istack = v.istack[:len(v.istack)-1]\n				v.unloadContext(ctx)\n			}\n			v.estack = ictx.sc.estack\n			if ectx.State == eTry && ectx.HasCatch() {\n				ectx.State = eCatch\n				v.estack.PushItem(exc)\n				v.uncaughtException = nil"),
 ("M7-native-cache-not-copied", "/repo/pkg/core/dao/dao.go",
  "			cp := v.Copy()\n", "			cp := v\n"),
 ("M8-revert-fix-catch-finally", "/repo/pkg/vm/vm.go",
  "if eCtx.State == eTry || (eCtx.State == eCatch && eCtx.HasFinally()) {", "if eCtx.State == eTry {"),
 ("M9-callback-exception-catchable", "/repo/pkg/core/interop/contract/call.go",
  "		if callFromNative && !commit {\n			return fmt.Errorf(\"unhandled exception\")\n		}", "		if callFromNative && !commit && v == nil {\n			return fmt.Errorf(\"unhandled exception\")\n		}"),
 ("M10-persist-wrong-dao-on-halt", "/repo/pkg/core/interop/contract/call.go",
  "			ic.DAO = baseDAO\n		}\n		if callFromNative", "			if commit || baseNtfCount > 0 {\n				ic.DAO = baseDAO\n			}\n		}\n		if callFromNative"),
 ("M11-persist-faulted-tx", "/repo/pkg/core/blockchain.go",
  "		if !v.HasFailed() {\n			_, err := systemInterop.DAO.Persist()", "		if !v.HasFailed() || len(systemInterop.Notifications) == 0 {\n			_, err := systemInterop.DAO.Persist()"),
 ("M12-tx-runs-on-block-cache-directly", "/repo/pkg/core/interop/context.go",
  "		dao = d.GetPrivate()\n", "		dao = d\n"),
 ("M13-hastry-checks-innermost-frame-only", "/repo/pkg/vm/vm.go",
  "		for j := range ictx.tryStack.Len() {\n			eCtx := ictx.tryStack.Peek(j).Value().(*exceptionHandlingContext)\n			// A TRY", "		for j := range min(ictx.tryStack.Len(), 1) {\n			eCtx := ictx.tryStack.Peek(j).Value().(*exceptionHandlingContext)\n			// A TRY"),
 ("M14-throwing-catch-skips-finally", "/repo/pkg/vm/vm.go",
  "if ectx.State == eFinally || (ectx.State == eCatch && !ectx.HasFinally()) {", "if ectx.State == eFinally || ectx.State == eCatch {"),
 ("M15-management-cache-shallow-copy", "/repo/pkg/core/native/management.go",
  "		contracts: maps.Clone(c.contracts),", "		contracts: c.contracts,"),
 ("M16-policy-blocked-list-not-cloned", "/repo/pkg/core/native/policy.go",
  "	dst.blockedAccounts = slices.Clone(src.blockedAccounts)\n", ""),
 ("M17-policy-cache-written-through-ro", "/repo/pkg/core/native/policy.go",
  "	setIntWithKey(p.ID, ic.DAO, feePerByteKey, value)\n	cache := ic.DAO.GetRWCache(p.ID).(*PolicyCache)", "	setIntWithKey(p.ID, ic.DAO, feePerByteKey, value)\n	cache := ic.DAO.GetROCache(p.ID).(*PolicyCache)"),
 ("M18-getprivate-shares-cache-map", "/repo/pkg/core/dao/dao.go",
  "	d.nativeCache = make(map[int32]NativeContractCache)\n	return d", "	d.nativeCache = maps.Clone(dao.nativeCache)\n	return d"),
 ("M19-vm-reset-keeps-pending-exception", "/repo/pkg/vm/vm.go",
  "	v.estack.elems = v.estack.elems[:0]\n	v.uncaughtException = nil\n", "	v.estack.elems = v.estack.elems[:0]\n"),
 ("M20-designation-cache-updated-through-ro", "/repo/pkg/core/native/designate.go",
  "	cache := ic.DAO.GetRWCache(s.ID).(*DesignationCache)\n	err = s.updateCachedRoleData(cache, ic.DAO, r)", "	cache := ic.DAO.GetROCache(s.ID).(*DesignationCache)\n	err = s.updateCachedRoleData(cache, ic.DAO, r)"),
 ("M21-whitelist-list-not-cloned", "/repo/pkg/core/native/policy.go",
  "	dst.whitelistedContracts = slices.Clone(src.whitelistedContracts)\n", ""),
 ("M22-neo-gaspervote-cache-not-cloned", "/repo/pkg/core/native/native_neo.go",
  "	dst.gasPerVoteCache = maps.Clone(src.gasPerVoteCache)", "	dst.gasPerVoteCache = src.gasPerVoteCache\n	_ = maps.Clone[map[string]big.Int]"),
 ("M23-management-update-mutates-cached-contract", "/repo/pkg/core/native/management.go",
  "	contract = *oldcontract // Make a copy, don't ruin (potentially) cached contract.\n", "	contract = *oldcontract // Make a copy, don't ruin (potentially) cached contract.\n	oldcontract.UpdateCounter++\n	contract.UpdateCounter--\n"),
 ("M24-neo-cache-votesChanged-through-ro", "/repo/pkg/core/native/native_neo.go",
  "	cache := d.GetRWCache(n.ID).(*NeoCache)\n	cache.votesChanged = true\n	if acc.VoteTo != nil {", "	cache := d.GetROCache(n.ID).(*NeoCache)\n	cache.votesChanged = true\n	if acc.VoteTo != nil {"),
]
only = sys.argv[1:] 
env = dict(os.environ, GOFLAGS="-mod=mod", GOPROXY="off")
for name, path, old, new in MUTS:
    if only and not any(name.startswith(o) for o in only): continue
    src = open(path).read()
    if src.count(old) != 1:
        print(name, "PATTERN COUNT", src.count(old)); continue
    d = "/tmp/exec-selftest/" + name
    os.makedirs(d, exist_ok=True)
    mp = d + "/" + os.path.basename(path)
    open(mp, "w").write(src.replace(old, new))
    json.dump({"Replace": {path: mp}}, open(d + "/ov.json", "w"))
    r = subprocess.run(["go", "build", "-tags", "verif", "-overlay", d + "/ov.json", "-o", d + "/bin", "./cmd/exec"], cwd="/verif/harness", env=env, capture_output=True, text=True)
    if r.returncode != 0:
        print(name, "BUILD FAILED", r.stderr[-500:]); continue
    subprocess.run([d + "/bin", "-seed", "1", "-tier", "quick", "-out", d + "/out"], env=env, capture_output=True)
    with open(d + "/out/ops.txt", "rb") as fi, open(d + "/out/model.txt", "wb") as fo:
        subprocess.run(["/verif/lean/.lake/build/bin/drv_exec"], stdin=fi, stdout=fo)
    impl = open(d + "/out/impl.txt").read().split("\n"); model = open(d + "/out/model.txt").read().split("\n")
    ops = open(d + "/out/ops.txt").read().split("\n")
    cases = set(); cur = -1
    for i, (a, b) in enumerate(zip(impl, model)):
        if ops[i].startswith("case "): cur = int(ops[i].split()[1])
        if a != b: cases.add(cur)
    keys = {}
    for l in open(d + "/out/oracle.txt"):
        k = l.split()[1]; keys[k] = keys.get(k, 0) + 1
    print("%-45s tie-disagreeing cases: %3d (corpus %d)  oracle: %s" % (name, len(cases), len([c for c in cases if c < 58]), keys))
