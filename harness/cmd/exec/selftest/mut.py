#!/usr/bin/env python3
# mutation self-test for C04 (sensitivity of tie + oracle): python3 harness/cmd/exec/selftest/mut.py [Mx ...]
# Builds the harness with a Go overlay per mutation of /repo (nothing in /repo is touched), runs the quick tier,
# pipes ops.txt through drv_exec and reports tie-disagreeing cases and oracle FAIL keys. Work dir: /tmp/exec-selftest (delete after use).
import json, os, subprocess, sys
NCORPUS = 109
MUTS = [
 ("M1-wrap-ignores-notify-flag", "/repo/pkg/core/interop/contract/call.go",
  "f&(callflag.All^callflag.ReadOnly) != 0 //", "f&callflag.WriteStates != 0 //"),
 ("M2-no-notification-truncation", "/repo/pkg/core/interop/contract/call.go",
  "ic.Notifications = ic.Notifications[:baseNtfCount] //", "_ = baseNtfCount //"),
 ("M3-basecount-taken-after-wrap-off-by-one", "/repo/pkg/core/interop/contract/call.go",
  "ic.Notifications = ic.Notifications[:baseNtfCount] //", "ic.Notifications = ic.Notifications[:min(baseNtfCount+1, len(ic.Notifications))] //"),
 ("M4-unload-always-commit-on-RET-path-only", "/repo/pkg/vm/vm.go",
  "err := ctx.sc.onUnload(v, ctx, v.uncaughtException == nil)", "err := ctx.sc.onUnload(v, ctx, v.uncaughtException == nil || ctx.retCount >= 0 && len(v.istack) > 2)"),
 ("M5-hastry-checks-top-context-only", "/repo/pkg/vm/vm.go",
  "			return false // Different contract -> no one cares.\n		}", "			return false // Different contract -> no one cares.\n		}\n		if i > 0 {\n			return false\n		}"),
 ("M6-exception-cleared-before-unwinding", "/repo/pkg/vm/vm.go",
  "			for range pop {\n				ctx := v.istack[len(v.istack)-1]\n				v.istack = v.istack[:len(v.istack)-1]\n				v.unloadContext(ctx)\n			}\n			v.estack = ictx.sc.estack\n			if ectx.State == eTry && ectx.HasCatch() {\n				ectx.State = eCatch\n				v.estack.PushItem(v.uncaughtException)\n				v.uncaughtException = nil",
  "			exc := v.uncaughtException\n			if ectx.State == eTry && ectx.HasCatch() {\n				v.uncaughtException = nil\n			}\n			for range pop {\n				ctx := v.istack[len(v.istack)-1]\n				v.istack = v.istack[:len(v.istack)-1]\n				v.unloadContext(ctx)\n			}\n			v.estack = ictx.sc.estack\n			if ectx.State == eTry && ectx.HasCatch() {\n				ectx.State = eCatch\n				v.estack.PushItem(exc)\n				v.uncaughtException = nil"),
 ("M7-native-cache-not-copied", "/repo/pkg/core/dao/dao.go",
  "			cp := v.Copy()\n", "			cp := v\n"),
 ("M8-revert-fix-catch-finally", "/repo/pkg/vm/vm.go",
  "if eCtx.State == eTry || (eCtx.State == eCatch && eCtx.HasFinally()) {", "if eCtx.State == eTry {"),
 ("M9-callback-exception-catchable", "/repo/pkg/core/interop/contract/call.go",
  "		if callFromNative && !commit {\n			return fmt.Errorf(\"unhandled exception\")\n		}", "		if callFromNative && !commit && v == nil {\n			return fmt.Errorf(\"unhandled exception\")\n		}"),
 ("M10-persist-wrong-dao-on-halt", "/repo/pkg/core/interop/contract/call.go",
  "			ic.DAO = baseDAO\n		}\n		if callFromNative", "			if commit || baseNtfCount > 0 {\n				ic.DAO = baseDAO\n			}\n		}\n		if callFromNative"),
 ("M11-persist-faulted-tx", "/repo/pkg/core/blockchain.go",
  "		if !v.HasFailed() {\n			_, err := systemInterop.DAO.Persist()", "		if !v.HasFailed() || len(systemInterop.Notifications) == 0 {\n			_, err := systemInterop.DAO.Persist()"),
 ("M12-tx-runs-on-block-cache-directly", "/repo/pkg/core/interop/context.go",
  "		dao = d.GetPrivate()\n", "		dao = d\n"),
 ("M13-hastry-checks-innermost-frame-only", "/repo/pkg/vm/vm.go",
  "		for j := range ictx.tryStack.Len() {\n			eCtx := ictx.tryStack.Peek(j).Value().(*exceptionHandlingContext)\n			// A TRY", "		for j := range min(ictx.tryStack.Len(), 1) {\n			eCtx := ictx.tryStack.Peek(j).Value().(*exceptionHandlingContext)\n			// A TRY"),
 ("M14-throwing-catch-skips-finally", "/repo/pkg/vm/vm.go",
  "if ectx.State == eFinally || (ectx.State == eCatch && !ectx.HasFinally()) {", "if ectx.State == eFinally || ectx.State == eCatch {"),
 ("M15-management-cache-shallow-copy", "/repo/pkg/core/native/management.go",
  "		contracts: maps.Clone(c.contracts),", "		contracts: c.contracts,"),
 ("M16-policy-blocked-list-not-cloned", "/repo/pkg/core/native/policy.go",
  "	dst.blockedAccounts = slices.Clone(src.blockedAccounts)\n", ""),
 ("M17-policy-cache-written-through-ro", "/repo/pkg/core/native/policy.go",
  "	setIntWithKey(p.ID, ic.DAO, feePerByteKey, value)\n	cache := ic.DAO.GetRWCache(p.ID).(*PolicyCache)", "	setIntWithKey(p.ID, ic.DAO, feePerByteKey, value)\n	cache := ic.DAO.GetROCache(p.ID).(*PolicyCache)"),
 ("M18-getprivate-shares-cache-map", "/repo/pkg/core/dao/dao.go",
  "	d.nativeCache = make(map[int32]NativeContractCache)\n	return d", "	d.nativeCache = maps.Clone(dao.nativeCache)\n	return d"),
 ("M19-vm-reset-keeps-pending-exception", "/repo/pkg/vm/vm.go",
  "	v.estack.elems = v.estack.elems[:0]\n	v.uncaughtException = nil\n", "	v.estack.elems = v.estack.elems[:0]\n"),
 ("M20-designation-cache-updated-through-ro", "/repo/pkg/core/native/designate.go",
  "	cache := ic.DAO.GetRWCache(s.ID).(*DesignationCache)\n	err = s.updateCachedRoleData(cache, ic.DAO, r)", "	cache := ic.DAO.GetROCache(s.ID).(*DesignationCache)\n	err = s.updateCachedRoleData(cache, ic.DAO, r)"),
 ("M21-whitelist-list-not-cloned", "/repo/pkg/core/native/policy.go",
  "	dst.whitelistedContracts = slices.Clone(src.whitelistedContracts)\n", ""),
 ("M22-neo-gaspervote-cache-not-cloned", "/repo/pkg/core/native/native_neo.go",
  "	dst.gasPerVoteCache = maps.Clone(src.gasPerVoteCache)", "	dst.gasPerVoteCache = src.gasPerVoteCache\n	_ = maps.Clone[map[string]big.Int]"),
 ("M23-management-update-mutates-cached-contract", "/repo/pkg/core/native/management.go",
  "	contract = *oldcontract // Make a copy, don't ruin (potentially) cached contract.\n", "	contract = *oldcontract // Make a copy, don't ruin (potentially) cached contract.\n	oldcontract.UpdateCounter++\n	contract.UpdateCounter--\n"),
 ("M24-neo-cache-votesChanged-through-ro", "/repo/pkg/core/native/native_neo.go",
  "	cache := d.GetRWCache(n.ID).(*NeoCache)\n	cache.votesChanged = true\n	if acc.VoteTo != nil {", "	cache := d.GetROCache(n.ID).(*NeoCache)\n	cache.votesChanged = true\n	if acc.VoteTo != nil {"),
 ("N1-notification-limit-counts-emitted-not-kept", "/repo/pkg/core/interop/context.go",
  "		if ic.Trigger == trigger.Application && len(ic.Notifications) == MaxNotificationCount {", "		ic.Invocations[util.Uint160{0xee}]++\n		if ic.Trigger == trigger.Application && ic.Invocations[util.Uint160{0xee}] > MaxNotificationCount {"),
 ("N2-notification-limit-off-by-one", "/repo/pkg/core/interop/context.go",
  "len(ic.Notifications) == MaxNotificationCount {", "len(ic.Notifications) == MaxNotificationCount-1 {"),
 ("N3-destroy-erases-before-blocking", "/repo/pkg/core/native/management.go",
  "	m.destroyInternalDeferrable(ic, sis, popArgsPushRes, true)", "	m.destroyInternalDeferrable(ic, sis, popArgsPushRes, false)"),
 ("N4-unregister-keeps-empty-candidate-record", "/repo/pkg/core/native/native_neo.go",
  "	ok := n.dropCandidateIfZero(ic.DAO, cache, pub, c)\n", "	ok := false\n"),
 ("N5-register-event-condition-inverted", "/repo/pkg/core/native/native_neo.go",
  "		emitEvent = !c.Registered\n", "		emitEvent = c.Registered\n"),
 ("N6-withdraw-keeps-deposit", "/repo/pkg/core/native/notary.go",
  "	n.removeDepositFor(ic.DAO, from)\n", ""),
 ("N7-lock-accepts-earlier-till", "/repo/pkg/core/native/notary.go",
  "	if till < deposit.Till {\n		return stackitem.NewBool(false)\n	}\n	deposit.Till = till", "	deposit.Till = till"),
 ("N8-syscall-error-becomes-catchable", "/repo/pkg/vm/vm.go",
  "				panic(fmt.Sprintf(\"%s failed: %s\", iName, err))", "				v.throw(stackitem.NewByteArray([]byte(fmt.Sprintf(\"%s failed: %s\", iName, err))))\n				break"),
 ("N9-update-nef-not-stored-when-manifest-given", "/repo/pkg/core/native/management.go",
  "	if neff != nil {\n		contract.NEF = *neff\n	}", "	if neff != nil && manif == nil {\n		contract.NEF = *neff\n	}"),
 ("N10-oracle-request-id-list-not-updated-on-second", "/repo/pkg/core/native/oracle.go",
  "	*lst = append(*lst, id)\n	return d.PutStorageConvertible(o.ID, key, lst)", "	if len(*lst) > 0 {\n		return nil\n	}\n	*lst = append(*lst, id)\n	return d.PutStorageConvertible(o.ID, key, lst)"),
 ("N11-vote-allows-unregistered-candidate", "/repo/pkg/core/native/native_neo.go",
  "		if !cd.Registered {\n			return false, errors.New(\"validator must be registered\")\n		}", "		_ = cd"),
 ("N12-onunload-restore-skipped-on-rollback", "/repo/pkg/core/interop/contract/call.go",
  "			ic.DAO = baseDAO\n		}\n		if callFromNative", "			if commit || ic.DAO != baseDAO && len(ic.Notifications) > baseNtfCount {\n				ic.DAO = baseDAO\n			}\n		}\n		if callFromNative"),
 ("N13-static-token-calls-not-wrapped", "/repo/pkg/core/interop/contract/call.go",
  "	wrapped := ic.VM.ContractHasTryBlock() && //", "	wrapped := isDynamic && ic.VM.ContractHasTryBlock() && //"),
 ("N14-token-call-ignores-token-flags", "/repo/pkg/core/interop/contract/call.go",
  "	return callInternal(ic, cs, md, tok.CallFlag, tok.HasReturn, args, false)", "	return callInternal(ic, cs, md, callflag.All, tok.HasReturn, args, false)"),
 ("N15-calls-from-natives-not-wrapped", "/repo/pkg/core/interop/contract/call.go",
  "	wrapped := ic.VM.ContractHasTryBlock() && //", "	wrapped := !callFromNative && ic.VM.ContractHasTryBlock() && //"),
]
import re
def table_check(d):
    """regenerated-table obligations under the overlay, without touching lean/NeoModel/Generated (other checks
    regenerate it concurrently): extract into d/gen, then compile generated table + obligation file as one scratch file."""
    gen = d + "/gen"; os.makedirs(gen, exist_ok=True)
    e = dict(env, VERIF_GO_OVERLAY=d + "/ov.json")
    r = subprocess.run(["/tmp/exec-selftest/extract", "-repo", "/repo", "-out", gen], env=e, capture_output=True, text=True)
    if r.returncode != 0:
        return ["extractor: " + (r.stdout + r.stderr).strip()[-200:]]
    bad = []
    tag = re.sub(r"\W", "", os.path.basename(d))[:20]
    # 1. CacheCopy + Proofs/ExecCacheCopy.lean
    body = open("/verif/lean/NeoModel/Proofs/ExecCacheCopy.lean").read().replace("import NeoModel.Generated.CacheCopy\n", "")
    src = open(gen + "/CacheCopy.lean").read() + "\n" + body
    # 2. ExcFacts / ExecFacts + the statements of Props/C04.lean
    props = open("/verif/lean/NeoModel/Props/C04.lean").read()
    def thm(name):
        i = props.index("theorem " + name); j = props.index("by decide", i)
        return props[i:j + len("by decide")]
    src2 = ("import NeoModel.Model.Exec\nimport NeoModel.Proofs.ExecFacts\n" + open(gen + "/ExcFacts.lean").read() +
            "\nnamespace NeoModel.Exec\nopen NeoModel.Generated in\n" + thm("facts_exceptions") + "\nend NeoModel.Exec\n")
    for nm, text in (("Cache", src), ("Exc", src2)):
        f = "/verif/lean/Scratch/Sel%s%s.lean" % (nm, tag)
        open(f, "w").write(text)
        r = subprocess.run(["lake", "env", "lean", f], cwd="/verif/lean", env=env, capture_output=True, text=True)
        os.remove(f)
        out = r.stdout + r.stderr
        for m in re.finditer(r"error", out):
            pass
        if r.returncode != 0:
            names = set(re.findall(r"theorem (\w+)", text))
            hit = [n for n in names if n in out] or ["(see output)"]
            first = [l for l in out.split("\n") if "error" in l][:2]
            bad.append("%s: %s" % (nm, "; ".join(x[:160] for x in first)))
    # ExecFacts differences are plain text differences of the table (its theorems compare literals)
    a, b = open(gen + "/ExecFacts.lean").read(), open("/verif/lean/NeoModel/Generated/ExecFacts.lean").read()
    if a != b:
        bad.append("ExecFacts table differs from the clean one")
    return bad

only = sys.argv[1:] 
env = dict(os.environ, GOFLAGS="-mod=mod", GOPROXY="off")
os.makedirs("/tmp/exec-selftest", exist_ok=True)
# a private extractor with the C04 tables only (other table files may be work in progress of their owners)
import shutil
xd = "/verif/harness/cmd/exec/selftest/xtr"
shutil.rmtree(xd, ignore_errors=True); os.makedirs(xd)
for f in ("main.go", "cachecopy.go", "excfacts.go", "execfacts.go"):
    shutil.copy("/verif/harness/cmd/extract/" + f, xd + "/" + f)
try:
    subprocess.run(["go", "build", "-tags", "verif", "-o", "/tmp/exec-selftest/extract", "./cmd/exec/selftest/xtr"], cwd="/verif/harness", env=env, check=True)
finally:
    shutil.rmtree(xd, ignore_errors=True)
for name, path, old, new in MUTS:
    if only and not any(name.startswith(o) for o in only): continue
    src = open(path).read()
    if src.count(old) != 1:
        print(name, "PATTERN COUNT", src.count(old)); continue
    d = "/tmp/exec-selftest/" + name
    os.makedirs(d, exist_ok=True)
    mp = d + "/" + os.path.basename(path)
    open(mp, "w").write(src.replace(old, new))
    json.dump({"Replace": {path: mp}}, open(d + "/ov.json", "w"))
    r = subprocess.run(["go", "build", "-tags", "verif", "-overlay", d + "/ov.json", "-o", d + "/bin", "./cmd/exec"], cwd="/verif/harness", env=env, capture_output=True, text=True)
    if r.returncode != 0:
        print(name, "BUILD FAILED", r.stderr[-500:]); continue
    subprocess.run([d + "/bin", "-seed", "1", "-tier", "quick", "-out", d + "/out"], env=env, capture_output=True)
    with open(d + "/out/ops.txt", "rb") as fi, open(d + "/out/model.txt", "wb") as fo:
        subprocess.run(["/verif/lean/.lake/build/bin/drv_exec"], stdin=fi, stdout=fo)
    impl = open(d + "/out/impl.txt").read().split("\n"); model = open(d + "/out/model.txt").read().split("\n")
    ops = open(d + "/out/ops.txt").read().split("\n")
    cases = set(); cur = -1
    for i, (a, b) in enumerate(zip(impl, model)):
        if ops[i].startswith("case "): cur = int(ops[i].split()[1])
        if a != b: cases.add(cur)
    keys = {}
    for l in open(d + "/out/oracle.txt"):
        k = l.split()[1]; keys[k] = keys.get(k, 0) + 1
    tb = table_check(d)
    print("%-45s tie-disagreeing cases: %3d (corpus %d)  oracle: %s  tables: %s" % (name, len(cases), len([c for c in cases if c < NCORPUS]), keys, tb or "ok"))
