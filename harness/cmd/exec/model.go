package main

import "fmt"

// Go ports of the two semantics of lean/NeoModel/Model/Exec.lean.
//   spRun : the transactional specification — the property's oracle for the real code.
//   imRun : the implementation model — used only to *classify* a deviation of the real code
//           from the specification (known shape or not); the tie against the real code is
//           made by the Lean driver, not by this port.
// Both are cross-checked against the Lean definitions on every run (driver lines `tx`, `spec`).

type mkey struct{ o, k int }

// cov: dynamic coverage counters fed by the implementation-model run of every tree.
var cov = map[string]int{}

// devFired: the implementation-model run applied the commit rule of unloadContext to a callee
// that completed normally while an exception was pending (the `dev` flag of Exec.spK; the two are
// proved equal: Props/C04 impl_refines_specK). Reset by implRun.
var devFired bool

// staleFired: the implementation-model run started a Policy block (blockAccount / ContractManagement.destroy: votes
// revoked, reward paid with a payment callback, THEN the account is put on the list) while another one was in
// progress, i.e. inside the reward callback of an account that is being blocked: the shape of the known finding
// blocked-list-stale-index (the outer insertion uses a position computed before the callback). Reset by implRun.
var staleFired bool
var blockDepth int

type flags struct{ r, w, c, n bool }

func flagsOf(x int) flags { return flags{x&1 != 0, x&2 != 0, x&4 != 0, x&8 != 0} }
func (a flags) and(b flags) flags {
	return flags{a.r && b.r, a.w && b.w, a.c && b.c, a.n && b.n}
}
func (a flags) mut() bool { return a.w || a.n }

const (
	gasTab    = 100
	policyTab = 102
	mgmtTab   = 103
	blockTab  = 104
	roleTab   = 105
	wlTab     = 106
	neoTab    = 101
	neoHTab   = 111
	rewardTab = 112
	voteTab   = 113
	candTab   = 114
	votersTab = 115
	pendTab   = 116
	notaryTab = 117
	notaryAcc = 12
	minDeposit = 20000000
	extAcc    = 8  // an account that is not a contract (so are 6 and 7)
	senderAcc = 50 // the fee payer
	maxFeePB  = 100000000
	maxNotifications = 512 // interop.MaxNotificationCount
)

type resKind int

const (
	rNorm resKind = iota
	rThrown
	rFault
)

// ---- persistent (immutable) store: chain of writes, newest first ----

type wnode struct {
	k    mkey
	v    int
	del  bool
	next *wnode
}

func (l *wnode) get(k mkey) (int, bool) {
	for ; l != nil; l = l.next {
		if l.k == k {
			if l.del {
				return 0, false
			}
			return l.v, true
		}
	}
	return 0, false
}

func (l *wnode) set(k mkey, v int) *wnode { return &wnode{k: k, v: v, next: l} }
func (l *wnode) delete(k mkey) *wnode     { return &wnode{k: k, del: true, next: l} }

// concat returns a ++ b.
func concat(a, b *wnode) *wnode {
	if a == nil {
		return b
	}
	var ws []*wnode
	for x := a; x != nil; x = x.next {
		ws = append(ws, x)
	}
	res := b
	for i := len(ws) - 1; i >= 0; i-- {
		res = &wnode{k: ws[i].k, v: ws[i].v, del: ws[i].del, next: res}
	}
	return res
}

func (l *wnode) keys() map[mkey]bool {
	m := map[mkey]bool{}
	for ; l != nil; l = l.next {
		m[l.k] = true
	}
	return m
}

// ---- native methods ----

type natOut struct {
	ws      []wnode // newest first
	evs     []event
	cb      int  // -1: none
	cbAbort bool // the (native) payment callback panics
}

type viewFn func(mkey) (int, bool)

func alive(view viewFn, c int) bool {
	if c >= numContracts {
		return false
	}
	_, dead := view(mkey{mgmtTab, 100 + c})
	return !dead
}

func present(view viewFn, k mkey) bool { _, ok := view(k); return ok }

// neoTouch: first touch of a NEO account in the persisting block (newest first).
func neoTouch(view viewFn, a, tag int) []wnode {
	if present(view, mkey{neoHTab, a}) {
		return nil
	}
	r, _ := view(mkey{rewardTab, a})
	var ws []wnode
	if r != 0 {
		ws = append(ws, wnode{k: mkey{pendTab, 100*tag + a}, v: r})
	}
	return append(ws, wnode{k: mkey{neoHTab, a}, v: 1})
}

func cat(parts ...[]wnode) []wnode {
	var res []wnode
	for _, p := range parts {
		res = append(res, p...)
	}
	return res
}

func natStep(n *Node, self int, f flags, view viewFn) *natOut {
	switch n.Nat.Kind {
	case natTransfer:
		if !(f.r && f.w && f.c && f.n) {
			return nil
		}
		if self == entryID {
			return &natOut{cb: -1}
		}
		tab := gasTab + n.Nat.Tok
		bal, _ := view(mkey{tab, self})
		if bal < n.Nat.Amt {
			return &natOut{cb: -1}
		}
		out := &natOut{cb: -1}
		if !(self == n.Nat.To || n.Nat.Amt == 0) {
			tb, _ := view(mkey{tab, n.Nat.To})
			out.ws = []wnode{{k: mkey{tab, n.Nat.To}, v: tb + n.Nat.Amt}, {k: mkey{tab, self}, v: bal - n.Nat.Amt}}
		}
		out.evs = []event{{tab, n.Nat.Amt}}
		if n.Nat.To == notaryAcc {
			out.cb = notaryAcc
			if d, ok := view(mkey{notaryTab, self}); ok {
				out.ws = append([]wnode{{k: mkey{notaryTab, self}, v: d + n.Nat.Amt}}, out.ws...)
			} else if n.Nat.Amt < minDeposit {
				out.cbAbort = true
			} else {
				h, _ := view(mkey{heightTab, 0})
				out.ws = append([]wnode{{k: mkey{tillTab, self}, v: h - 1 + depositDelta}, {k: mkey{notaryTab, self}, v: n.Nat.Amt}}, out.ws...)
			}
			return out
		}
		if n.Nat.To < numContracts && alive(view, n.Nat.To) {
			out.cb = n.Nat.To
		}
		return out
	case natSetFee:
		if !(f.r && f.w) {
			return nil
		}
		if n.Nat.Val > maxFeePB {
			return nil
		}
		return &natOut{ws: []wnode{{k: mkey{policyTab, 0}, v: n.Nat.Val}}, cb: -1}
	case natBlockP:
		if !(f.r && f.w && f.n) {
			return nil
		}
		if _, ok := view(mkey{blockTab, n.Nat.Val}); ok {
			return &natOut{cb: -1}
		}
		return &natOut{ws: []wnode{{k: mkey{blockTab, n.Nat.Val}, v: 1}}, cb: -1}
	case natUnblock:
		if !(f.r && f.w) {
			return nil
		}
		if _, ok := view(mkey{blockTab, n.Nat.Val}); ok {
			return &natOut{ws: []wnode{{k: mkey{blockTab, n.Nat.Val}, del: true}}, cb: -1}
		}
		return &natOut{cb: -1}
	case natDeploy:
		if !(f.r && f.w && f.c && f.n) {
			return nil
		}
		if _, ok := view(mkey{mgmtTab, n.Nat.Val}); ok {
			return nil
		}
		id, _ := view(mkey{mgmtTab, 99})
		return &natOut{ws: []wnode{{k: mkey{mgmtTab, 99}, v: id + 1}, {k: mkey{mgmtTab, n.Nat.Val}, v: id}},
			evs: []event{{mgmtTab, n.Nat.Val}}, cb: -1}
	case natUpdate:
		if !(f.r && f.w && f.c && f.n) || !alive(view, self) {
			return nil
		}
		cnt, _ := view(mkey{mgmtTab, 200 + self})
		var nefW []wnode
		if n.Nat.Val != 0 {
			nefW = []wnode{{k: mkey{mgmtTab, 300 + self}, v: n.Nat.Val}}
		}
		if present(view, mkey{wlTab, self}) {
			return &natOut{ws: cat(nefW, []wnode{{k: mkey{mgmtTab, 200 + self}, v: cnt + 1}, {k: mkey{wlTab, self}, del: true}}),
				evs: []event{{wlTab, self}, {mgmtTab, 200 + self}}, cb: -1}
		}
		return &natOut{ws: cat(nefW, []wnode{{k: mkey{mgmtTab, 200 + self}, v: cnt + 1}}), evs: []event{{mgmtTab, 200 + self}}, cb: -1}
	case natDestroyP:
		if !(f.r && f.w && f.n) || !alive(view, self) {
			return nil
		}
		erase := []wnode{{k: mkey{mgmtTab, 100 + self}, v: 1}, {k: mkey{self, 4}, del: true}, {k: mkey{self, 3}, del: true}, {k: mkey{self, 2}, del: true},
			{k: mkey{self, 1}, del: true}, {k: mkey{self, 0}, del: true}}
		if present(view, mkey{wlTab, self}) {
			return &natOut{ws: cat(erase, []wnode{{k: mkey{wlTab, self}, del: true}, {k: mkey{blockTab, self}, v: 1}}),
				evs: []event{{wlTab, self}, {mgmtTab, 100 + self}}, cb: -1}
		}
		return &natOut{ws: cat(erase, []wnode{{k: mkey{blockTab, self}, v: 1}}), evs: []event{{mgmtTab, 100 + self}}, cb: -1}
	case natDesignate:
		if !(f.r && f.w && f.n) || present(view, mkey{roleTab, n.Nat.To}) {
			return nil
		}
		return &natOut{ws: []wnode{{k: mkey{roleTab, n.Nat.To}, v: n.Nat.Val}}, evs: []event{{roleTab, n.Nat.To}}, cb: -1}
	case natSetWl:
		if !(f.r && f.w && f.n) || !alive(view, n.Nat.To) {
			return nil
		}
		return &natOut{ws: []wnode{{k: mkey{wlTab, n.Nat.To}, v: n.Nat.Val}}, evs: []event{{wlTab, n.Nat.To}}, cb: -1}
	case natDelWl:
		if !(f.r && f.w && f.n) || !alive(view, n.Nat.To) || !present(view, mkey{wlTab, n.Nat.To}) {
			return nil
		}
		return &natOut{ws: []wnode{{k: mkey{wlTab, n.Nat.To}, del: true}}, evs: []event{{wlTab, n.Nat.To}}, cb: -1}
	case natNeoXferP:
		if !(f.r && f.w && f.c && f.n) {
			return nil
		}
		if self == entryID {
			return &natOut{cb: -1}
		}
		to, amt := n.Nat.To, n.Nat.Amt
		cb := -1
		if to < numContracts && alive(view, to) {
			cb = to
		}
		bal, has := view(mkey{neoTab, self})
		if !has {
			if amt == 0 {
				return &natOut{evs: []event{{neoTab, 0}}, cb: cb}
			}
			return &natOut{cb: -1}
		}
		if bal < amt {
			return &natOut{cb: -1}
		}
		touchF := neoTouch(view, self, n.Nat.Tag)
		if self == to || amt == 0 {
			return &natOut{ws: touchF, evs: []event{{neoTab, amt}}, cb: cb}
		}
		voting := present(view, mkey{voteTab, self})
		voters, _ := view(mkey{votersTab, 0})
		cand, _ := view(mkey{candTab, 0})
		var votesF []wnode
		if voting {
			votesF = []wnode{{k: mkey{votersTab, 0}, v: voters - amt}, {k: mkey{candTab, 0}, v: cand - amt}}
			voters, cand = voters-amt, cand-amt
		}
		var balF []wnode
		if bal == amt {
			balF = []wnode{{k: mkey{voteTab, self}, del: true}, {k: mkey{neoHTab, self}, del: true}, {k: mkey{neoTab, self}, del: true}}
		} else {
			balF = []wnode{{k: mkey{neoTab, self}, v: bal - amt}}
		}
		var toW []wnode
		if tb, ok := view(mkey{neoTab, to}); !ok {
			toW = []wnode{{k: mkey{neoTab, to}, v: amt}, {k: mkey{neoHTab, to}, v: 1}}
		} else {
			toW = []wnode{{k: mkey{neoTab, to}, v: tb + amt}}
			if present(view, mkey{voteTab, to}) {
				toW = append(toW, wnode{k: mkey{votersTab, 0}, v: voters + amt}, wnode{k: mkey{candTab, 0}, v: cand + amt})
			}
			toW = append(toW, neoTouch(view, to, n.Nat.Tag)...)
		}
		return &natOut{ws: cat(toW, balF, votesF, touchF), evs: []event{{neoTab, amt}}, cb: cb}
	case natVoteP:
		if !(f.r && f.w && f.n) {
			return nil
		}
		if self == entryID {
			return &natOut{cb: -1}
		}
		bal, has := view(mkey{neoTab, self})
		if !has {
			return &natOut{cb: -1}
		}
		on := n.Nat.Val != 0
		if on && !present(view, mkey{regTab, 0}) {
			return &natOut{cb: -1}
		}
		old := present(view, mkey{voteTab, self})
		voters, _ := view(mkey{votersTab, 0})
		cand, _ := view(mkey{candTab, 0})
		var wVoters, wCand, wVote []wnode
		if old != on {
			if on {
				wVoters = []wnode{{k: mkey{votersTab, 0}, v: voters + bal}}
				wCand = []wnode{{k: mkey{candTab, 0}, v: cand + bal}}
			} else {
				wVoters = []wnode{{k: mkey{votersTab, 0}, v: voters - bal}}
				wCand = []wnode{{k: mkey{candTab, 0}, v: cand - bal}}
			}
		}
		if on {
			wVote = []wnode{{k: mkey{voteTab, self}, v: 1}}
		} else {
			wVote = []wnode{{k: mkey{voteTab, self}, del: true}}
		}
		return &natOut{ws: cat(wVote, wCand, neoTouch(view, self, n.Nat.Tag), wVoters), evs: []event{{voteTab, self}}, cb: -1}
	case natRevoke:
		if !(f.r && f.w && f.n) {
			return nil
		}
		a := n.Nat.Val
		if a == 99 {
			if !alive(view, self) {
				return nil
			}
			a = self
		}
		if present(view, mkey{blockTab, a}) {
			return &natOut{cb: -1}
		}
		bal, has := view(mkey{neoTab, a})
		if !has {
			return &natOut{cb: -1}
		}
		var wVoters, wCand []wnode
		if present(view, mkey{voteTab, a}) {
			voters, _ := view(mkey{votersTab, 0})
			cand, _ := view(mkey{candTab, 0})
			wVoters = []wnode{{k: mkey{votersTab, 0}, v: voters - bal}}
			wCand = []wnode{{k: mkey{candTab, 0}, v: cand - bal}}
		}
		return &natOut{ws: cat([]wnode{{k: mkey{voteTab, a}, del: true}}, wCand, neoTouch(view, a, n.Nat.Tag), wVoters), evs: []event{{voteTab, a}}, cb: -1}
	case natMint:
		if !(f.r && f.w && f.n) {
			return nil
		}
		a := n.Nat.Val
		if a == 99 {
			a = self
		}
		r, ok := view(mkey{pendTab, 100*n.Nat.Tag + a})
		if !ok {
			return &natOut{cb: -1}
		}
		g, _ := view(mkey{gasTab, a})
		out := &natOut{ws: []wnode{{k: mkey{gasTab, a}, v: g + r}, {k: mkey{pendTab, 100*n.Nat.Tag + a}, del: true}}, evs: []event{{gasTab, r}}, cb: -1}
		if alive(view, a) {
			out.cb = a
		}
		return out
	case natRegCand:
		if !(f.r && f.w && f.n) {
			return nil
		}
		if present(view, mkey{regTab, 0}) {
			return &natOut{cb: -1}
		}
		return &natOut{ws: []wnode{{k: mkey{regTab, 0}, v: 1}}, evs: []event{{regTab, 1}}, cb: -1}
	case natUnregCand:
		if !(f.r && f.w && f.n) {
			return nil
		}
		if n.Nat.Val == 0 || !present(view, mkey{regTab, 0}) {
			return &natOut{cb: -1}
		}
		return &natOut{ws: []wnode{{k: mkey{regTab, 0}, del: true}}, evs: []event{{regTab, 0}}, cb: -1}
	case natOracleReq:
		if !(f.r && f.w && f.n) {
			return nil
		}
		if !alive(view, self) { // the mint and its event precede the check of the caller
			return &natOut{evs: []event{{gasTab, responseGas}}, cb: self, cbAbort: true}
		}
		id, _ := view(mkey{oracleTab, 0})
		g, _ := view(mkey{gasTab, oracleAcc})
		return &natOut{ws: []wnode{{k: mkey{oracleTab, 100 + id}, v: 10*n.Nat.Val + self}, {k: mkey{oracleTab, 0}, v: id + 1},
			{k: mkey{gasTab, oracleAcc}, v: g + responseGas}}, evs: []event{{gasTab, responseGas}, {oracleTab, id}}, cb: -1}
	case natOracleFinish:
		return nil
	case natSetGas:
		if !(f.r && f.w) || n.Nat.Val > maxGasPerBlock {
			return nil
		}
		return &natOut{ws: []wnode{{k: mkey{gasPBTab, 0}, v: n.Nat.Val}}, cb: -1}
	case natLock:
		if !(f.r && f.w) {
			return nil
		}
		h, _ := view(mkey{heightTab, 0})
		till, _ := view(mkey{tillTab, self})
		if self == entryID || n.Nat.Val < h+1 || !present(view, mkey{notaryTab, self}) || n.Nat.Val < till {
			return &natOut{cb: -1}
		}
		return &natOut{ws: []wnode{{k: mkey{tillTab, self}, v: n.Nat.Val}}, cb: -1}
	case natWithdraw:
		if !(f.r && f.w && f.c && f.n) {
			return nil
		}
		if self == entryID {
			return &natOut{cb: -1}
		}
		amt, has := view(mkey{notaryTab, self})
		if !has {
			return &natOut{cb: -1}
		}
		h, _ := view(mkey{heightTab, 0})
		till, _ := view(mkey{tillTab, self})
		if h-1 < till {
			return &natOut{cb: -1}
		}
		to := n.Nat.To
		var gasW []wnode
		if to != notaryAcc {
			tb, _ := view(mkey{gasTab, to})
			nb, _ := view(mkey{gasTab, notaryAcc})
			gasW = []wnode{{k: mkey{gasTab, to}, v: tb + amt}, {k: mkey{gasTab, notaryAcc}, v: nb - amt}}
		}
		return &natOut{ws: cat(gasW, []wnode{{k: mkey{tillTab, self}, del: true}, {k: mkey{notaryTab, self}, del: true}}),
			evs: []event{{gasTab, amt}}, cb: to, cbAbort: to == notaryAcc}
	}
	panic("bad native op")
}

func applyWrites(l *wnode, ws []wnode) *wnode {
	for i := len(ws) - 1; i >= 0; i-- {
		l = &wnode{k: ws[i].k, v: ws[i].v, del: ws[i].del, next: l}
	}
	return l
}

// expand gives the NEO methods (and blockAccount, which revokes votes) the shape the model knows:
// the method proper, and — inside the same native frame — the deferred GAS minting
// (GAS.MintDeferrable with onNEP17Payment(null, amount, null)) for the sender and the receiver.
// Exactly what Driver/Exec.lean builds for `E`, `O` and `B`.
func expand(n *Node) *Node {
	inner := func(op NatOp) *Node { op.Tag = n.Nat.Tag; return &Node{Op: nNative, Fl: n.Fl, Nat: &op, Inner: true} }
	switch n.Nat.Kind {
	case natNeoTransfer:
		return &Node{Op: nNative, Fl: n.Fl, Nat: &NatOp{Kind: natNeoXferP, To: n.Nat.To, Amt: n.Nat.Amt, HasCb: n.Nat.HasCb, Cb: n.Nat.Cb, Tag: n.Nat.Tag},
			Rest: []*Node{inner(NatOp{Kind: natMint, Val: 99}), inner(NatOp{Kind: natMint, Val: n.Nat.To})}}
	case natBlock:
		return &Node{Op: nNative, Fl: n.Fl, Nat: &NatOp{Kind: natRevoke, Val: n.Nat.Val, Tag: n.Nat.Tag},
			Rest: []*Node{inner(NatOp{Kind: natMint, Val: n.Nat.Val}), inner(NatOp{Kind: natBlockP, Val: n.Nat.Val})}}
	case natVote:
		return &Node{Op: nNative, Fl: n.Fl, Nat: &NatOp{Kind: natVoteP, Val: n.Nat.Val, Tag: n.Nat.Tag},
			Rest: []*Node{inner(NatOp{Kind: natMint, Val: 99})}}
	case natDestroy:
		return &Node{Op: nNative, Fl: n.Fl, Nat: &NatOp{Kind: natRevoke, Val: 99, Tag: n.Nat.Tag},
			Rest: []*Node{inner(NatOp{Kind: natMint, Val: 99}), inner(NatOp{Kind: natDestroyP})}}
	}
	return nil
}

func cbBody(n *Node) []*Node {
	if n.Nat.HasCb {
		return n.Nat.Cb
	}
	return nil
}

// rewardProgram: what interpreter contract 1 does when it receives a GAS reward (the hook built into its
// onNEP17Payment, interp.go): if its storage key 4 is present it calls contract 0, which destroys itself.
// Driver/Exec.lean `rewardProg`.
func rewardProgram() []*Node {
	return []*Node{{Op: nIf, K: 4, Body: []*Node{{Op: nCall, C: 0, Fl: 15, Body: []*Node{{Op: nNative, Fl: 15, Nat: &NatOp{Kind: natDestroy, Tag: 90}}}}}}}
}

// cbProgram: the program the callback context `to` of a native phase runs.
func cbProgram(n *Node, to int) []*Node {
	if n.Nat.Kind == natMint && to == 1 {
		return rewardProgram()
	}
	return cbBody(n)
}

// ---- specification ----

type sst struct {
	st  *wnode
	ev  []event // never mutated in place: always re-sliced with full capacity guard
	exc bool
}

func evAppend(ev []event, more ...event) []event {
	res := make([]event, 0, len(ev)+len(more))
	res = append(res, ev...)
	return append(res, more...)
}

func spList(l []*Node, c int, f flags, s sst) (resKind, sst) {
	for _, n := range l {
		k, s1 := spNode(n, c, f, s)
		if k != rNorm {
			return k, s1
		}
		s = s1
	}
	return rNorm, s
}

func spEnd(hasF bool, fin []*Node, c int, f flags, s sst) (resKind, sst) {
	if !hasF {
		return rNorm, s
	}
	k, s3 := spList(fin, c, f, s)
	if k == rNorm && s3.exc {
		return rThrown, s3
	}
	return k, s3
}

func spFinExc(fin []*Node, c int, f flags, s sst) (resKind, sst) {
	k, s3 := spList(fin, c, f, s)
	if k == rNorm {
		if s3.exc {
			return rThrown, s3
		}
		return rFault, s3
	}
	return k, s3
}

func spNode(n *Node, c int, f flags, s sst) (resKind, sst) {
	switch n.Op {
	case nPut:
		if f.r && f.w && alive(s.st.get, c) {
			s.st = s.st.set(mkey{c, n.K}, n.V)
			return rNorm, s
		}
		return rFault, s
	case nDel:
		if f.r && f.w && alive(s.st.get, c) {
			s.st = s.st.delete(mkey{c, n.K})
			return rNorm, s
		}
		return rFault, s
	case nNotify:
		if !(f.n && c != entryID) {
			return rFault, s
		}
		for i := 0; i < max(n.Rep, 1); i++ {
			if len(s.ev) >= maxNotifications {
				return rFault, s
			}
			s.ev = evAppend(s.ev, event{c, n.K})
		}
		return rNorm, s
	case nEdit: // a read; what the VM does with the value afterwards cannot change the store
		if f.r && alive(s.st.get, c) {
			return rNorm, s
		}
		return rFault, s
	case nIf:
		if f.r && alive(s.st.get, c) {
			if _, ok := s.st.get(mkey{c, n.K}); ok {
				return spList(n.Body, c, f, s)
			}
			return rNorm, s
		}
		return rFault, s
	case nCall:
		if !(f.r && f.c && alive(s.st.get, n.C)) {
			return rFault, s
		}
		k, s1 := spList(n.Body, n.C, f.and(flagsOf(n.Fl)), s)
		switch k {
		case rNorm:
			return rNorm, s1
		case rThrown:
			s.exc = true
			return rThrown, s
		}
		return rFault, s1
	case nLocal:
		return spList(n.Body, c, f, s)
	case nTryC:
		if !n.HasCatch && !n.HasFin {
			return rFault, s
		}
		k, s1 := spList(n.Body, c, f, s)
		switch k {
		case rNorm:
			return spEnd(n.HasFin, n.Fin, c, f, s1)
		case rThrown:
			if n.HasCatch {
				s1.exc = false
				k2, s2 := spList(n.Catch, c, f, s1)
				switch k2 {
				case rNorm:
					return spEnd(n.HasFin, n.Fin, c, f, s2)
				case rThrown:
					if n.HasFin {
						return spFinExc(n.Fin, c, f, s2)
					}
					return rThrown, s2
				}
				return rFault, s2
			}
			return spFinExc(n.Fin, c, f, s1)
		}
		return rFault, s1
	case nThrow:
		s.exc = true
		return rThrown, s
	case nAbort:
		return rFault, s
	case nNative:
		if ex := expand(n); ex != nil {
			return spNode(ex, c, f, s)
		}
		if !(n.Inner || (f.r && f.c)) {
			return rFault, s
		}
		f1 := f
		if !n.Inner {
			f1 = f.and(flagsOf(n.Fl))
		}
		out := natStep(n, c, f1, s.st.get)
		if out == nil {
			return rFault, s
		}
		s.st = applyWrites(s.st, out.ws)
		s.ev = evAppend(s.ev, out.evs...)
		if len(s.ev) > maxNotifications { // the event that finds the list full panics
			s.ev = s.ev[:maxNotifications:maxNotifications]
			return rFault, s
		}
		if out.cb >= 0 {
			if out.cbAbort {
				return rFault, s
			}
			k, s2 := spList(cbProgram(n, out.cb), out.cb, f1, s)
			if k != rNorm {
				return rFault, s2
			}
			s = s2
		}
		if k, s3 := spList(n.Rest, c, f1, s); k != rNorm {
			return rFault, s3
		} else {
			return rNorm, s3
		}
	}
	panic("bad node")
}

type outcome struct {
	halt bool
	st   *wnode
	ev   []event // effective
	raw  []event
}

func specRun(pre *wnode, t []*Node) outcome {
	k, s := spList(t, entryID, flagsOf(15), sst{st: pre})
	if k == rNorm {
		return outcome{true, s.st, s.ev, s.ev}
	}
	return outcome{false, pre, nil, nil}
}

// ---- implementation model ----

type ist struct {
	top   *wnode
	below []*wnode // nearest first; never mutated in place
	ev    []event
	exc   bool
}

func (s ist) view(k mkey) (int, bool) {
	for x := s.top; x != nil; x = x.next {
		if x.k == k {
			return x.v, !x.del
		}
	}
	for _, l := range s.below {
		for x := l; x != nil; x = x.next {
			if x.k == k {
				return x.v, !x.del
			}
		}
	}
	return 0, false
}

func (s ist) push() ist {
	nb := make([]*wnode, 0, len(s.below)+1)
	nb = append(nb, s.top)
	nb = append(nb, s.below...)
	s.top, s.below = nil, nb
	return s
}

func (s ist) merge() ist {
	if len(s.below) == 0 {
		return s
	}
	s.top = concat(s.top, s.below[0])
	s.below = s.below[1:]
	return s
}

func (s ist) drop(base int) ist {
	if base < len(s.ev) {
		s.ev = s.ev[:base:base]
	}
	if len(s.below) == 0 {
		return s
	}
	s.top = s.below[0]
	s.below = s.below[1:]
	return s
}

func (s ist) unload(wrapped bool, base int) ist {
	if !wrapped {
		return s
	}
	if s.exc {
		return s.drop(base)
	}
	return s.merge()
}

type ictx struct {
	c     int
	f     flags
	inTry bool
	h     bool
}

func raise(h bool, s ist) (resKind, ist) {
	s.exc = true
	if h {
		return rThrown, s
	}
	return rFault, s
}

func imList(l []*Node, x ictx, s ist) (resKind, ist) {
	for _, n := range l {
		k, s1 := imNode(n, x, s)
		if k != rNorm {
			return k, s1
		}
		s = s1
	}
	return rNorm, s
}

func imEnd(h, hasF bool, fin []*Node, x ictx, s ist) (resKind, ist) {
	if !hasF {
		return rNorm, s
	}
	k, s3 := imList(fin, x, s)
	if k == rNorm && s3.exc {
		return raise(h, s3)
	}
	return k, s3
}

func imFinExc(h bool, fin []*Node, x ictx, s ist) (resKind, ist) {
	k, s3 := imList(fin, x, s)
	if k == rNorm {
		if s3.exc {
			return raise(h, s3)
		}
		return rFault, s3
	}
	return k, s3
}

func imNode(n *Node, x ictx, s ist) (resKind, ist) {
	switch n.Op {
	case nPut:
		if x.f.r && x.f.w && alive(s.view, x.c) {
			s.top = s.top.set(mkey{x.c, n.K}, n.V)
			return rNorm, s
		}
		return rFault, s
	case nDel:
		if x.f.r && x.f.w && alive(s.view, x.c) {
			s.top = s.top.delete(mkey{x.c, n.K})
			return rNorm, s
		}
		return rFault, s
	case nNotify:
		if !(x.f.n && x.c != entryID) {
			return rFault, s
		}
		for i := 0; i < max(n.Rep, 1); i++ {
			if len(s.ev) >= maxNotifications {
				cov["dyn:notification-limit-hit"]++
				return rFault, s
			}
			s.ev = evAppend(s.ev, event{x.c, n.K})
		}
		if n.Rep > 1 {
			cov["dyn:bulk-notify-completed"]++
		}
		return rNorm, s
	case nEdit:
		if x.f.r && alive(s.view, x.c) {
			if _, ok := s.view(mkey{x.c, n.K}); ok {
				cov["dyn:stored-value-derived-and-edited"]++
			}
			return rNorm, s
		}
		return rFault, s
	case nIf:
		if x.f.r && alive(s.view, x.c) {
			if _, ok := s.view(mkey{x.c, n.K}); ok {
				return imList(n.Body, x, s)
			}
			return rNorm, s
		}
		return rFault, s
	case nCall:
		if !(x.f.r && x.f.c && alive(s.view, n.C)) {
			return rFault, s
		}
		f1 := x.f.and(flagsOf(n.Fl))
		wrapped := x.inTry && f1.mut()
		base := len(s.ev)
		s0 := s
		if wrapped {
			s0 = s.push()
		}
		k, s1 := imList(n.Body, ictx{n.C, f1, false, x.h}, s0)
		if k == rFault {
			return rFault, s1
		}
		switch {
		case wrapped && k == rThrown:
			cov["dyn:wrapped-call-thrown-dropped"]++
		case wrapped && s1.exc:
			devFired = true
			cov["dyn:wrapped-call-returned-during-exception-dropped"]++
		case wrapped:
			cov["dyn:wrapped-call-committed"]++
		case k == rThrown && x.inTry:
			cov["dyn:readonly-call-thrown-in-try"]++
		case k == rThrown:
			cov["dyn:unwrapped-call-thrown"]++
		default:
			cov["dyn:unwrapped-call-returned"]++
		}
		if len(s0.below) >= 3 {
			cov["dyn:layers>=3"]++
		}
		return k, s1.unload(wrapped, base)
	case nLocal:
		return imList(n.Body, x, s)
	case nTryC:
		if !n.HasCatch && !n.HasFin {
			return rFault, s
		}
		xb := x
		xb.inTry, xb.h = true, true
		k, s1 := imList(n.Body, xb, s)
		switch k {
		case rNorm:
			return imEnd(x.h, n.HasFin, n.Fin, x, s1)
		case rThrown:
			cov["dyn:exception-reached-try-frame"]++
			if n.HasCatch {
				s1.exc = false
				xc := x
				xc.inTry = x.inTry || n.HasFin // ContractHasTryBlock: eCatch with a finally counts (fix db399c7)
				xc.h = x.h || n.HasFin
				k2, s2 := imList(n.Catch, xc, s1)
				switch k2 {
				case rNorm:
					return imEnd(x.h, n.HasFin, n.Fin, x, s2)
				case rThrown:
					if n.HasFin {
						cov["dyn:finally-after-throwing-catch"]++
						return imFinExc(x.h, n.Fin, x, s2)
					}
					return rThrown, s2
				}
				return rFault, s2
			}
			cov["dyn:finally-entered-by-exception"]++
			return imFinExc(x.h, n.Fin, x, s1)
		}
		return rFault, s1
	case nThrow:
		return raise(x.h, s)
	case nAbort:
		return rFault, s
	case nNative:
		if ex := expand(n); ex != nil {
			return imNode(ex, x, s)
		}
		if !(n.Inner || (x.f.r && x.f.c)) {
			return rFault, s
		}
		if n.Nat.Kind == natRevoke && len(n.Rest) > 0 {
			if blockDepth > 0 {
				staleFired = true
			}
			blockDepth++
			defer func() { blockDepth-- }()
		}
		f1 := x.f
		if !n.Inner {
			f1 = x.f.and(flagsOf(n.Fl))
		}
		wrapped := !n.Inner && x.inTry && f1.mut()
		base := len(s.ev)
		s0 := s
		if wrapped {
			s0 = s.push()
		}
		out := natStep(n, x.c, f1, s0.view)
		if out == nil {
			return rFault, s0
		}
		covNative(n, out)
		s1 := s0
		s1.top = applyWrites(s1.top, out.ws)
		s1.ev = evAppend(s1.ev, out.evs...)
		if len(s1.ev) > maxNotifications {
			cov["dyn:notification-limit-hit-by-native"]++
			s1.ev = s1.ev[:maxNotifications:maxNotifications]
			return rFault, s1
		}
		if len(out.ws) > 0 {
			if wrapped {
				cov["dyn:native-write-wrapped"]++
			} else {
				cov["dyn:native-write-unwrapped"]++
			}
		}
		if out.cb >= 0 {
			if out.cbAbort {
				return rFault, s1
			}
			k, s2 := imList(cbProgram(n, out.cb), ictx{out.cb, f1, false, x.h}, s1)
			if k == rThrown {
				cov["dyn:payment-callback-threw"]++
			}
			if k != rNorm {
				return rFault, s2
			}
			if s2.exc { // callFromNative && !commit
				devFired = true
				return rFault, s2
			}
			cov["dyn:payment-callback-returned"]++
			s1 = s2
		}
		k, s3 := imList(n.Rest, ictx{x.c, f1, false, x.h}, s1)
		if k != rNorm {
			return rFault, s3
		}
		if wrapped && s3.exc {
			devFired = true
		}
		return rNorm, s3.unload(wrapped, base)
	}
	panic("bad node")
}

// covNative counts, for the natives whose checks can refuse, whether the call had an effect.
func covNative(n *Node, out *natOut) {
	name := map[int]string{natRegCand: "registerCandidate", natUnregCand: "unregisterCandidate", natOracleReq: "oracle-request",
		natLock: "lockDepositUntil", natWithdraw: "withdraw", natVoteP: "vote", natRevoke: "revoke-votes", natMint: "gas-reward-mint",
		natNeoXferP: "neo-transfer", natUpdate: "update", natDestroyP: "destroy", natSetGas: "setGasPerBlock"}[n.Nat.Kind]
	if name == "" {
		return
	}
	switch {
	case n.Nat.Kind == natUpdate:
		cov[fmt.Sprintf("dyn:update-nef=%d", n.Nat.Val)]++
	case len(out.ws) > 0:
		cov["dyn:"+name+"-effective"]++
	default:
		cov["dyn:"+name+"-refused-or-noop"]++
	}
}

func implRun(pre *wnode, t []*Node) outcome {
	devFired, staleFired, blockDepth = false, false, 0
	k, s := imList(t, ictx{entryID, flagsOf(15), false, false}, ist{below: []*wnode{pre}})
	if k == rNorm {
		return outcome{true, concat(s.top, pre), s.ev, s.ev}
	}
	return outcome{false, pre, nil, s.ev}
}

// ---- syntactic classes (Exec.callFree / Exec.safe) ----

func callFree(l []*Node) bool {
	for _, n := range l {
		switch n.Op {
		case nCall, nNative:
			return false
		case nIf, nLocal:
			if !callFree(n.Body) {
				return false
			}
		case nTryC:
			if !callFree(n.Body) || !callFree(n.Catch) || !callFree(n.Fin) {
				return false
			}
		}
	}
	return true
}

// callInFinally reports whether some finally block contains a contract or native call
// (the complement of Exec.safe).
func callInFinally(l []*Node) bool {
	for _, n := range l {
		switch n.Op {
		case nIf, nLocal, nCall:
			if callInFinally(n.Body) {
				return true
			}
		case nNative:
			if callInFinally(cbBody(n)) {
				return true
			}
		case nTryC:
			if callInFinally(n.Body) || callInFinally(n.Catch) || callInFinally(n.Fin) {
				return true
			}
			if n.HasFin && !callFree(n.Fin) {
				return true
			}
		}
	}
	return false
}

// callInCatchWithFinally: a call inside the catch block of a try that also has a finally block
// (the shape of the defect fixed by db399c7; kept as a distribution counter).
func callInCatchWithFinally(l []*Node) bool {
	for _, n := range l {
		switch n.Op {
		case nIf, nLocal, nCall:
			if callInCatchWithFinally(n.Body) {
				return true
			}
		case nNative:
			if callInCatchWithFinally(cbBody(n)) {
				return true
			}
		case nTryC:
			if callInCatchWithFinally(n.Body) || callInCatchWithFinally(n.Catch) || callInCatchWithFinally(n.Fin) {
				return true
			}
			if n.HasCatch && n.HasFin && !callFree(n.Catch) {
				return true
			}
		}
	}
	return false
}
