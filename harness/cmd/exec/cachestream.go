package main

// Correspondence stream for the native-cache layering of pkg/core/dao (GetPrivate, GetROCache,
// GetRWCache, Persist; dao.go:105-122, 1052-1137) against the heap model `CStack` of
// Model/Exec.lean: random sequences of push / cache update / persist / drop over a real stack of
// dao.Simple objects with a tiny NativeContractCache implementation; after every operation the
// value every native id shows at EVERY depth of the stack is printed (a leak into a lower layer is
// visible at once). Oracle: reference value stack (a write is visible at the top only; drop
// restores; persist keeps).

import (
	"fmt"
	"strings"

	"github.com/nspcc-dev/neo-go/pkg/core/dao"
	"github.com/nspcc-dev/neo-go/pkg/core/storage"

	"verif/harness/internal/hx"
	"verif/harness/internal/prng"
)

type testCache struct{ v int }

func (c *testCache) Copy() dao.NativeContractCache { return &testCache{v: c.v} }

const cacheIDs = 4

func readAll(stack []*dao.Simple) string {
	var parts []string
	for d := len(stack) - 1; d >= 0; d-- {
		var vs []string
		for id := 0; id < cacheIDs; id++ {
			if c := stack[d].GetROCache(int32(id)); c != nil {
				vs = append(vs, fmt.Sprint(c.(*testCache).v))
			} else {
				vs = append(vs, "-")
			}
		}
		parts = append(parts, strings.Join(vs, " "))
	}
	return strings.Join(parts, " | ")
}

// reference: values per layer, top last
type refStack []map[int]int

func (r refStack) read(depthFromTop, id int) (int, bool) {
	for d := len(r) - 1 - depthFromTop; d >= 0; d-- {
		if v, ok := r[d][id]; ok {
			return v, true
		}
	}
	return 0, false
}

func (r refStack) text() string {
	var parts []string
	for k := 0; k < len(r); k++ {
		var vs []string
		for id := 0; id < cacheIDs; id++ {
			if v, ok := r.read(k, id); ok {
				vs = append(vs, fmt.Sprint(v))
			} else {
				vs = append(vs, "-")
			}
		}
		parts = append(parts, strings.Join(vs, " "))
	}
	return strings.Join(parts, " | ")
}

func runCacheCase(o *hx.Out, k int, r *prng.R) {
	base := dao.NewSimple(storage.NewMemoryStore(), false)
	stack := []*dao.Simple{base}
	ref := refStack{map[int]int{}}
	var init []string
	for id := 0; id < cacheIDs; id++ {
		if r.Chance(3, 4) {
			v := r.Range(1, 99)
			base.SetCache(int32(id), &testCache{v: v})
			ref[0][id] = v
			init = append(init, fmt.Sprintf("%d %d", id, v))
		}
	}
	check := func(op string) {
		got := readAll(stack)
		o.Line(op, got)
		if want := ref.text(); want != got {
			o.Fail("native-cache-layering", k, "after %q: dao shows %s, a copy-on-write stack shows %s", op, got, want)
		}
	}
	check(fmt.Sprintf("cinit %d %s", len(init), strings.Join(init, " ")))
	n := r.Range(5, 40)
	for i := 0; i < n; i++ {
		top := stack[len(stack)-1]
		switch x := r.Intn(10); {
		case x < 3 && len(stack) < 6:
			stack = append(stack, top.GetPrivate())
			ref = append(ref, map[int]int{})
			o.Count("cache-op:push")
			check("cpush")
		case x < 7:
			id, v := r.Intn(cacheIDs), r.Range(100, 999)
			if c := top.GetRWCache(int32(id)); c != nil {
				c.(*testCache).v = v
				ref[len(ref)-1][id] = v
			}
			o.Count("cache-op:write")
			check(fmt.Sprintf("cwrite %d %d", id, v))
		case x < 8 && len(stack) > 1:
			if _, err := top.Persist(); err != nil {
				panic(err)
			}
			for id, v := range ref[len(ref)-1] {
				ref[len(ref)-2][id] = v
			}
			stack, ref = stack[:len(stack)-1], ref[:len(ref)-1]
			o.Count("cache-op:persist")
			check("cpersist")
		case len(stack) > 1:
			stack, ref = stack[:len(stack)-1], ref[:len(ref)-1]
			o.Count("cache-op:drop")
			check("cdrop")
		default:
			id := r.Intn(cacheIDs)
			_ = top.GetROCache(int32(id))
			o.Count("cache-op:read")
			check("cread")
		}
	}
}
