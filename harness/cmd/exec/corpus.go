package main

// Hand-written cases that always run first (cases 0..n-1).

func put(k, v int) *Node     { return &Node{Op: nPut, K: k, V: v} }
func del(k int) *Node        { return &Node{Op: nDel, K: k} }
func notify(e int) *Node     { return &Node{Op: nNotify, K: e} }
func notifyN(e, rep int) *Node { return &Node{Op: nNotify, K: e, Rep: rep} }
func throw() *Node           { return &Node{Op: nThrow} }
func abort() *Node           { return &Node{Op: nAbort} }
func local(b ...*Node) *Node { return &Node{Op: nLocal, Body: b} }
func call(c, fl int, b ...*Node) *Node {
	return &Node{Op: nCall, C: c, Fl: fl, Body: b}
}
func try(body, catch, fin []*Node) *Node {
	return &Node{Op: nTryC, Body: body, HasCatch: catch != nil, Catch: catch, HasFin: fin != nil, Fin: fin}
}
func tryInl(body, catch, fin []*Node) *Node {
	n := try(body, catch, fin)
	n.Inl = true
	return n
}
func ifp(k int, b ...*Node) *Node { return &Node{Op: nIf, K: k, Body: b} }
func edit(k, variant int) *Node { return &Node{Op: nEdit, K: k, V: variant} }
func edits(k int) []*Node {
	var l []*Node
	for v := 0; v < 15; v++ {
		l = append(l, edit(k, v))
	}
	return l
}
func xfer(to, amt, fl int, cb []*Node) *Node {
	return &Node{Op: nNative, Fl: fl, Nat: &NatOp{Kind: natTransfer, To: to, Amt: amt, HasCb: cb != nil, Cb: cb}}
}
func setFee(v, fl int) *Node {
	return &Node{Op: nNative, Fl: fl, Nat: &NatOp{Kind: natSetFee, Val: v}}
}
func L(n ...*Node) []*Node { return n }

// tok marks calls to go through method tokens (CALLT) where the executing contract has one.
func tok(ns ...*Node) []*Node {
	var walk func(l []*Node)
	walk = func(l []*Node) {
		for _, n := range l {
			if n.Op == nCall || n.Op == nNative {
				n.Tok = true
			}
			walk(n.Body)
			walk(n.Catch)
			walk(n.Fin)
			if n.Nat != nil {
				walk(n.Nat.Cb)
			}
		}
	}
	walk(ns)
	return ns
}

var none = []*Node{}

func blockAcc(a, fl int) *Node {
	return &Node{Op: nNative, Fl: fl, Nat: &NatOp{Kind: natBlock, Val: a}}
}
func unblockAcc(a, fl int) *Node {
	return &Node{Op: nNative, Fl: fl, Nat: &NatOp{Kind: natUnblock, Val: a}}
}
func deploy(d, fl int) *Node {
	return &Node{Op: nNative, Fl: fl, Nat: &NatOp{Kind: natDeploy, Val: d}}
}

// planOf derives what the transaction needs (committee witness, deployment fee) from the tree.
func planOf(t []*Node) txPlan {
	p := txPlan{tree: t}
	tag := 0
	var walk func(l []*Node)
	walk = func(l []*Node) {
		for _, n := range l {
			if n.Op == nNotify && n.Rep > 1 {
				p.bulk += n.Rep
			}
			if n.Op == nNative {
				tag++
				n.Nat.Tag = tag
				switch n.Nat.Kind {
				case natSetFee, natBlock, natUnblock, natDesignate, natSetWl, natDelWl, natSetGas:
					p.committee = true
				case natDeploy:
					p.deploys = true
				case natUpdate:
					if n.Nat.Val != 0 {
						p.nefUpdates++
					}
				case natRegCand:
					p.registers++
				case natUnregCand:
					if n.Nat.Val != 0 {
						p.candWitness = true
					}
				}
			}
			walk(n.Body)
			walk(n.Catch)
			walk(n.Fin)
			if n.Nat != nil {
				walk(n.Nat.Cb)
			}
		}
	}
	walk(t)
	if p.candWitness { // the witness is a property of the transaction: every unregistration of the tree has it
		var fix func(l []*Node)
		fix = func(l []*Node) {
			for _, n := range l {
				if n.Op == nNative && n.Nat.Kind == natUnregCand {
					n.Nat.Val = 1
				}
				fix(n.Body)
				fix(n.Catch)
				fix(n.Fin)
				if n.Nat != nil {
					fix(n.Nat.Cb)
				}
			}
		}
		fix(t)
	}
	return p
}

func nat(kind, fl int, op NatOp) *Node {
	op.Kind = kind
	return &Node{Op: nNative, Fl: fl, Nat: &op}
}
func update() *Node                  { return nat(natUpdate, 15, NatOp{}) }
func updateNef(v int) *Node          { return nat(natUpdate, 15, NatOp{Val: v}) }
func regCand() *Node                 { return nat(natRegCand, 15, NatOp{}) }
func unregCand(w int) *Node          { return nat(natUnregCand, 15, NatOp{Val: w}) }
func oracleReq(u int) *Node          { return nat(natOracleReq, 15, NatOp{Val: u}) }
func oracleFinish() *Node            { return nat(natOracleFinish, 15, NatOp{}) }
func lockDep(till int) *Node         { return nat(natLock, 15, NatOp{Val: till}) }
func withdraw(to int) *Node          { return nat(natWithdraw, 15, NatOp{To: to}) }
func setGas(v int) *Node             { return nat(natSetGas, 15, NatOp{Val: v}) }
func destroy() *Node                 { return nat(natDestroy, 15, NatOp{}) }
func designate(role, v int) *Node    { return nat(natDesignate, 15, NatOp{To: role, Val: v}) }
func setWl(c, fee int) *Node         { return nat(natSetWl, 15, NatOp{To: c, Val: fee}) }
func delWl(c int) *Node              { return nat(natDelWl, 15, NatOp{To: c}) }
func vote(on int) *Node              { return nat(natVote, 15, NatOp{Val: on}) }
func deposit(amt int) *Node          { return nat(natTransfer, 15, NatOp{To: notaryAcc, Amt: amt}) }
func neoXfer(to, amt int, cb []*Node) *Node {
	return nat(natNeoTransfer, 15, NatOp{To: to, Amt: amt, HasCb: cb != nil, Cb: cb})
}

// rolledBackAndCommitted wraps ops into: a callee that does them and throws (caught), then a callee
// that does them and returns, then a callee that does them again inside a transaction that ... halts.
func bothWays(c int, ops func() []*Node) []*Node {
	return L(call(0, 15,
		try(L(call(c, 15, append(ops(), throw())...)), L(notify(1)), nil),
		call(c, 15, ops()...),
		try(L(call(c, 15, append(ops(), throw())...)), none, L(notify(2)))))
}

func one(t ...*Node) []txPlan { return []txPlan{planOf(t)} }

// corpusHeight: index of the block a corpus case runs in (setup always makes the same number of blocks);
// the Notary `till` values of the corpus are absolute heights.
const corpusHeight = 6

func corpus() [][]txPlan {
	return [][]txPlan{
		// plain halt / plain fault
		one(call(0, 15, put(1, 1), notify(1), del(2))),
		one(call(0, 15, put(0, 7), notify(2), abort())),
		one(call(0, 15, put(0, 7), notify(2), throw())),
		// callee throws, caller catches: callee undone, before/after kept
		one(call(0, 15, put(1, 2), notify(1), try(L(call(1, 15, put(1, 3), notify(2), call(2, 15, put(0, 9)), throw())), L(notify(3)), nil), put(2, 2))),
		one(call(0, 15, put(1, 2), tryInl(L(call(1, 15, put(1, 3), notify(2), throw())), L(notify(3)), nil), put(2, 2))),
		// TRY in the entry script itself (single-context path of ContractHasTryBlock)
		one(try(L(call(0, 15, put(0, 5), notify(4), throw())), none, nil), call(1, 15, put(0, 1))),
		// TRY two internal calls below the calling context
		one(call(0, 15, try(L(local(local(call(1, 15, put(3, 3), throw())))), L(put(3, 1)), nil))),
		// the caller has no TRY, its caller has: the middle contract's writes go with it
		one(call(0, 15, try(L(call(1, 15, put(0, 1), call(2, 15, put(0, 2), notify(5), throw()))), L(notify(6)), nil))),
		// exception caught inside the callee itself: nothing is rolled back
		one(call(0, 15, call(1, 15, try(L(put(0, 4), throw()), L(put(1, 4)), nil)), put(2, 4))),
		// read-only flags: not wrapped, callee cannot write
		one(call(0, 15, try(L(call(1, 5, ifp(0, throw()), throw())), L(notify(7)), nil))),
		one(call(0, 15, try(L(call(1, 5, put(0, 1))), none, nil))),
		// notify-only / write-only callee flags still need the layer (events and writes are undone)
		one(call(0, 15, notify(1), try(L(call(1, 13, notify(2), call(2, 9, notify(3)), throw())), L(notify(4)), nil))),
		one(call(0, 15, put(1, 1), try(L(call(1, 7, put(1, 2), call(2, 3, put(1, 3)), throw())), L(put(2, 1)), nil))),
		// nested handlers: the inner frame is in its catch block, the outer one is still a TRY
		one(call(0, 15, try(L(try(L(throw()), L(call(1, 15, put(0, 6), notify(6), throw())), nil)), L(notify(7)), nil))),
		// the same with both frames in ONE context (inline-compiled entry script)
		one(try(L(try(L(throw()), L(call(1, 15, put(0, 6), notify(6), throw())), nil)), L(call(0, 15, notify(7))), nil)),
		// finally: normal path, exceptional path with rethrow to an outer catch
		one(call(0, 15, try(L(put(0, 1)), nil, L(put(1, 1))), try(L(try(L(put(2, 1), throw()), nil, L(put(3, 1), notify(1)))), L(notify(2)), nil))),
		// exception lost inside a finally block: ENDFINALLY jumps to EndOffset -1 (FAULT)
		one(call(0, 15, try(L(try(L(throw()), nil, L(try(L(throw()), none, nil)))), none, nil))),
		// KNOWN (finally-call-rollback): a callee that completes inside a finally block which runs
		// for an exception is unloaded with commit=false; its writes and events are lost
		one(call(0, 15, try(L(try(L(throw()), nil, L(call(1, 15, put(3, 3), notify(7)), put(3, 4)))), L(notify(8)), nil))),
		// replay of the defect fixed by db399c7: a call from a catch block that has a finally was
		// not wrapped; the finally block saw the failed callee's write (key 0 of c0) and aborted
		one(try(L(call(0, 15, del(0), try(L(throw()), L(call(1, 15, call(0, 15, put(0, 1)), throw())), L(ifp(0, abort()))))), none, nil)),
		// GAS transfers: plain, with a callback that writes, with a callback that throws (FAULT),
		// rolled back with the caller's catch
		one(call(0, 15, xfer(1, 0, 15, L(put(2, 2), notify(3))), xfer(extAcc, 0, 15, nil))),
		one(call(0, 15, try(L(call(1, 15, xfer(2, 0, 15, L(put(1, 1))), throw())), L(notify(1)), nil))),
		one(call(0, 15, try(L(xfer(1, 0, 15, L(throw()))), L(notify(1)), nil))),
		one(call(0, 15, try(L(xfer(1, 0, 15, L(try(L(throw()), L(put(1, 5)), nil)))), L(notify(1)), nil))),
		// a transfer to a plain account inside a finally block that runs for an exception (raw events of a FAULT)
		one(call(2, 15, try(L(try(L(throw()), nil, L(xfer(7, 0, 15, nil), xfer(1, 0, 15, nil)))), L(throw()), L(put(3, 4))))),
		// committee-signed Policy setter inside a rolled-back callee, and inside a committed one
		one(call(0, 15, try(L(call(1, 15, setFee(777, 15), throw())), L(notify(1)), nil)), call(2, 15, setFee(555, 15))),
		one(call(0, 15, setFee(444, 15), abort())),
		// blocked-account list (sorted slice in the Policy cache): rolled back / committed / unblocked
		one(call(0, 15, blockAcc(7, 15), try(L(call(1, 15, blockAcc(6, 15), blockAcc(8, 15), unblockAcc(7, 15), throw())), L(notify(1)), nil), blockAcc(8, 15))),
		one(call(0, 15, blockAcc(6, 15), blockAcc(7, 15), blockAcc(8, 15), try(L(call(1, 15, unblockAcc(7, 15), throw())), none, nil), unblockAcc(6, 15), abort())),
		one(call(0, 15, blockAcc(6, 15), blockAcc(7, 15), blockAcc(8, 15), try(L(call(1, 15, unblockAcc(7, 15), throw())), none, nil))),
		one(call(0, 15, blockAcc(6, 15), blockAcc(8, 15), try(L(call(1, 15, blockAcc(7, 15), throw())), none, nil))),
		// deployments (Management cache, next contract ID): rolled back, then committed with the same ID
		one(call(0, 15, try(L(call(1, 15, deploy(0, 15), deploy(1, 15), throw())), L(notify(1)), nil), deploy(1, 15), try(L(call(2, 15, deploy(2, 15))), none, nil))),
		one(call(0, 15, deploy(0, 15), deploy(0, 15))),
		one(call(0, 15, deploy(2, 15), abort())),
		// --- stage 4 natives: each rolled back (callee throws, caller catches), committed, rolled back again ---
		one(call(0, 15, try(L(call(1, 15, designate(8, 1), designate(4, 2), throw())), L(notify(1)), nil),
			call(1, 15, designate(8, 2), designate(4, 1)), try(L(call(1, 15, designate(16, 1), throw())), none, L(notify(2))))),
		one(call(0, 15, designate(8, 1), try(L(designate(8, 2)), none, nil))),
		one(bothWays(1, func() []*Node { return L(setWl(1, 300), setWl(2, 10), setWl(1, 301)) })...),
		one(call(0, 15, setWl(0, 5), setWl(3, 7), try(L(call(1, 15, delWl(0), setWl(2, 9), throw())), none, nil), delWl(3))),
		// stored values are immutable: a value read from storage (Get / Find iterator) goes through a byte operation
		// that might alias it (CAT with an empty operand, SUBSTR/LEFT/RIGHT of full length, CONVERT, MEMCPY, PACK), the
		// result is edited in place (SETITEM, REVERSEITEMS, MEMCPY) and dropped — then the execution FAULTs, throws under
		// the caller's TRY, or HALTs without any Put: storage, the MPT and a restarted node must show the old bytes
		{planOf(L(call(0, 15, put(1, 7), put(2, 8)))), planOf(L(call(0, 15, edit(1, 0), abort()))), planOf(L(call(1, 15, put(0, 1))))},
		{planOf(L(call(0, 15, put(1, 7)))), planOf(L(call(1, 15, try(L(call(0, 15, edit(1, 0), edit(1, 11), throw())), L(notify(1)), nil))))},
		{planOf(L(call(0, 15, put(1, 7), put(2, 8), put(3, 9)))), planOf(L(call(0, 15, edits(1)...), call(0, 15, edits(2)...))), planOf(L(call(0, 15, append(edits(3), abort())...)))},
		one(call(2, 15, append(append(L(put(0, 5)), edits(0)...), call(2, 5, edits(0)...))...)),
		// GasPerBlock set twice for the same block index, the second time in an execution that is rolled back (a
		// callee that throws under the caller's TRY; a later transaction that FAULTs): the record of the first set
		// must survive in the cache (the list of records is append-only: a layer's copy must be its own)
		one(call(0, 15, setGas(300000000), try(L(call(1, 15, setGas(700000000), throw())), L(notify(1)), nil), call(2, 15, put(0, 1)))),
		{planOf(L(call(0, 15, setGas(300000000)))), planOf(L(call(0, 15, setGas(700000000), call(1, 15, setGas(800000000)), abort()))), planOf(L(call(2, 15, put(0, 1))))},
		one(call(0, 15, try(L(call(1, 15, setGas(100000000), setGas(200000000), throw())), none, nil), setGas(1000000001))),
		// a whitelisted fee that exists already is set AGAIN in a rolled-back callee / in a transaction that FAULTs
		// (the cached record is updated in place: it must be the layer's own copy)
		one(call(0, 15, setWl(2, 10), try(L(call(1, 15, setWl(2, 99), setWl(2, 98), throw())), L(notify(1)), nil), call(2, 15, put(0, 1)))),
		{planOf(L(call(0, 15, setWl(2, 10), setWl(3, 20)))), planOf(L(call(0, 15, setWl(2, 77), setWl(3, 78), abort()))), planOf(L(call(2, 15, put(0, 1)), call(3, 15, put(0, 1))))},
		one(bothWays(2, func() []*Node { return L(update(), put(1, 1)) })...),
		one(call(0, 15, setWl(3, 50), try(L(call(3, 15, put(0, 1), destroy(), throw())), L(notify(1)), nil), call(3, 15, put(0, 2), update()))),
		one(call(0, 15, setWl(3, 50), call(3, 15, put(0, 1), destroy()), try(L(call(3, 15, put(0, 2))), none, nil))),
		one(call(3, 15, put(1, 1), destroy(), notify(5), try(L(put(1, 2)), none, nil))),
		one(call(3, 15, destroy()), call(0, 15, xfer(3, 0, 15, L(put(0, 1))), put(0, 9))),
		one(bothWays(1, func() []*Node { return L(deposit(minDeposit), deposit(7)) })...),
		one(call(1, 15, try(L(call(2, 15, deposit(minDeposit+5), throw())), none, nil), deposit(minDeposit), call(2, 15, deposit(minDeposit)))),
		one(call(1, 15, try(L(deposit(5)), none, nil))),
		one(bothWays(0, func() []*Node { return L(neoXfer(1, 1, L(put(3, 3), notify(4))), neoXfer(6, 1, nil)) })...),
		one(bothWays(1, func() []*Node { return L(vote(1), neoXfer(0, 1, nil), vote(0)) })...),
		one(call(0, 15, vote(1), try(L(call(1, 15, vote(1), neoXfer(0, 2, L(vote(0), throw())))), L(notify(1)), nil), neoXfer(1, 1, nil))),
		one(call(0, 15, neoXfer(0, 3, L(try(L(notify(6), neoXfer(1, 0, nil), put(2, 1)), none, L(put(1, 2)))))), call(1, 15, neoXfer(2, 1, nil))),
		one(call(0, 15, neoXfer(6, 1, nil), try(L(call(1, 15, blockAcc(6, 15), throw())), none, nil), blockAcc(6, 15), unblockAcc(6, 15))),
		one(call(0, 15, neoXfer(1, 100, nil), neoXfer(1, 0, L(abort())))),
		// a NEO method with a pending GAS reward inside a finally block that runs for an exception: the
		// reward's payment callback returns with the exception pending -> FAULT (one frame, not three)
		one(call(2, 15, put(3, 1), try(L(try(L(throw()), nil, L(vote(1), notify(4))), put(1, 2)), L(notify(5)), nil))),
		one(call(0, 15, try(L(try(L(throw()), nil, L(neoXfer(6, 1, nil), notify(4)))), L(notify(5)), nil))),
		// --- NEO candidate (un)registration inside call trees (NEO cache: votesChanged, gasPerVoteCache) ---
		one(call(0, 15, unregCand(1), try(L(call(1, 15, regCand(), vote(1), throw())), L(notify(1)), nil), vote(1), regCand(), vote(1))),
		one(bothWays(1, func() []*Node { return L(unregCand(1), regCand()) })...),
		one(call(0, 15, unregCand(0), vote(0)), regCand()),
		one(call(0, 15, vote(1), try(L(call(1, 15, unregCand(1), neoXfer(1, 100, nil), throw())), none, nil), unregCand(1), neoXfer(1, 100, nil), regCand())),
		one(call(1, 15, vote(1), unregCand(1), vote(0), try(L(call(2, 15, regCand(), throw())), none, L(notify(2))), vote(1))),
		one(call(0, 15, try(L(try(L(throw()), nil, L(unregCand(1), notify(4)))), L(notify(5)), nil))),
		// --- Oracle.request (request id counter, id lists per URL, GAS minted to the Oracle contract) ---
		one(bothWays(1, func() []*Node { return L(oracleReq(0), oracleReq(1), oracleReq(0)) })...),
		one(call(0, 15, oracleReq(0), try(L(call(1, 15, oracleReq(0), call(2, 15, oracleReq(1)), throw())), L(oracleReq(1)), nil), oracleReq(0), abort())),
		one(oracleReq(0)),
		one(call(0, 15, try(L(oracleFinish()), L(notify(1)), nil))),
		one(try(L(oracleFinish()), none, nil)),
		// --- ContractManagement.update with a new NEF ---
		one(bothWays(2, func() []*Node { return L(updateNef(1), put(1, 1)) })...),
		one(call(0, 15, updateNef(2), call(0, 15, put(1, 1), updateNef(1)), try(L(call(0, 15, updateNef(2), throw())), none, nil), update())),
		one(call(1, 15, setWl(1, 9), updateNef(1), abort())),
		// --- destroy of a contract that holds NEO and votes (Policy blocks it: its votes are revoked, the GAS reward
		// is paid to the contract that is about to disappear) ---
		one(call(3, 15, vote(1)), call(0, 15, try(L(call(3, 15, put(0, 1), destroy(), throw())), L(notify(1)), nil), call(3, 15, put(0, 2), destroy()), neoXfer(3, 1, nil))),
		one(call(0, 15, neoXfer(3, 2, nil), try(L(call(3, 15, destroy())), none, L(notify(2))), neoXfer(3, 1, L(put(0, 1))), xfer(3, 0, 15, nil))),
		one(call(3, 15, try(L(try(L(throw()), nil, L(destroy()))), L(notify(5)), nil))),
		// --- Notary.lockDepositUntil / withdraw (contracts 2 and 3 start with a deposit whose till has passed) ---
		one(call(2, 15, lockDep(6), lockDep(7), lockDep(6), try(L(call(3, 15, lockDep(9), throw())), none, nil), withdraw(6))),
		one(bothWays(2, func() []*Node { return L(withdraw(7), deposit(minDeposit), withdraw(7)) })...),
		one(call(3, 15, withdraw(1), withdraw(1)), call(2, 15, try(L(call(3, 15, deposit(minDeposit), throw())), none, nil), withdraw(2))),
		one(call(1, 15, deposit(minDeposit), lockDep(5764), lockDep(5766), withdraw(6))),
		one(call(1, 15, deposit(minDeposit), lockDep(5770), lockDep(5764), lockDep(9)), call(2, 15, lockDep(8), lockDep(7))),
		one(call(2, 15, try(L(try(L(throw()), nil, L(withdraw(7)))), L(notify(5)), nil))),
		one(withdraw(6), lockDep(9)),
		// --- the limit of 512 notifications per execution counts what is in the list: rolled-back ones free their room ---
		one(call(0, 15, notifyN(1, 512))),
		one(call(0, 15, notifyN(1, 512), notify(2))),
		one(call(0, 15, try(L(call(1, 15, notifyN(1, 510), throw())), L(notify(2)), nil), notifyN(3, 511))),
		one(call(0, 15, try(L(call(1, 15, notifyN(1, 510), throw())), L(notify(2)), nil), notifyN(3, 512))),
		one(call(0, 15, notifyN(1, 511), try(L(call(1, 15, notify(2), notify(3))), L(notify(4)), nil))),
		one(call(0, 15, notifyN(1, 511), xfer(1, 0, 15, L(put(1, 1))), try(L(notify(2)), L(notify(3)), nil))),
		one(call(0, 15, notifyN(1, 512), try(L(xfer(7, 0, 15, nil)), L(notify(3)), nil))),
		one(call(0, 15, notifyN(1, 511), vote(1))),
		one(call(1, 15, try(L(call(2, 15, notifyN(5, 300), call(3, 15, notifyN(6, 212)), throw())), none, L(notifyN(7, 256))), call(2, 15, notifyN(8, 256)))),
		// --- the static call path (method tokens, CALLT): contracts 2,3 -> contracts 0,1 and natives ---
		one(tok(call(2, 15, put(1, 2), notify(1), try(L(call(1, 15, put(1, 3), notify(2), call(0, 15, put(0, 9)), throw())), L(notify(3)), nil), put(2, 2)))...),
		one(tok(call(3, 15, try(L(call(0, 7, put(1, 1), xfer(1, 0, 15, L(put(2, 2))), throw())), L(notify(1)), L(call(1, 5, ifp(0, throw())))), call(0, 5, put(0, 1))))...),
		one(tok(call(2, 15, try(L(try(L(throw()), nil, L(call(1, 15, put(3, 3), notify(7)), put(3, 4)))), L(notify(8)), nil)))...),
		one(tok(bothWays(2, func() []*Node { return L(setFee(700, 15), vote(1), oracleReq(0), deposit(minDeposit), updateNef(1), neoXfer(0, 1, L(put(3, 3)))) })...)...),
		one(tok(call(0, 15, try(L(call(1, 15, xfer(2, 0, 15, L(put(1, 1))), regCand(), throw())), L(notify(1)), nil), withdraw(6), unregCand(1)))...),
		one(tok(call(3, 15, put(0, 1), try(L(call(1, 15, blockAcc(7, 15), designate(8, 1), throw())), none, L(setWl(1, 5))), destroy()))...),
		// regression cases of the finding blocked-list-stale-index (fixed by cf4871f): Policy.BlockAccountInternalDeferrable
		// computed the position of the account in the sorted blocked-accounts cache BEFORE it revoked the account's votes;
		// the GAS reward of the revocation is paid with a payment callback, and here the callback (the hook of contract 1,
		// armed by key 4) makes contract 0 destroy itself, which inserts contract 0 into the list; contract 1 was then
		// inserted at the stale position: unsorted list, isBlocked (binary search) missed accounts blocked in storage
		one(call(1, 15, put(4, 1), destroy())),
		one(call(1, 15, put(4, 1)), call(2, 15, try(L(call(1, 15, destroy(), throw())), L(notify(1)), nil), call(1, 15, destroy()))),
		// the VM is reused: a predecessor that died with a pending exception / deep in pushed layers /
		// by ABORT must not disturb a try-finally on the normal path, nor calls under TRY, in the next one
		{planOf(L(call(0, 15, put(1, 1), call(1, 15, put(1, 1), throw())))), planOf(L(call(0, 15, try(L(call(1, 15, put(2, 2))), nil, L(put(3, 3))), notify(1))))},
		{planOf(L(call(0, 15, try(L(call(1, 15, notify(3), call(2, 15, put(0, 1), abort()))), none, nil)))), planOf(L(call(0, 15, try(L(call(1, 15, put(2, 2), throw())), L(notify(2)), L(put(3, 3))))))},
		// a faulting transaction between two good ones
		{simpleTxFixed(0, 1, 1), planOf(L(call(0, 15, put(1, 9), deploy(0, 15), call(1, 15, put(1, 9)), abort()))), simpleTxFixed(1, 2, 2)},
	}
}

func simpleTxFixed(c, k, v int) txPlan {
	return txPlan{tree: L(call(c, 15, put(k, v), notify(v)))}
}
