package main

// Hand-written cases that always run first (cases 0..n-1).

func put(k, v int) *Node     { return &Node{Op: nPut, K: k, V: v} }
func del(k int) *Node        { return &Node{Op: nDel, K: k} }
func notify(e int) *Node     { return &Node{Op: nNotify, K: e} }
func throw() *Node           { return &Node{Op: nThrow} }
func abort() *Node           { return &Node{Op: nAbort} }
func local(b ...*Node) *Node { return &Node{Op: nLocal, Body: b} }
func call(c, fl int, b ...*Node) *Node {
	return &Node{Op: nCall, C: c, Fl: fl, Body: b}
}
func try(body, catch, fin []*Node) *Node {
	return &Node{Op: nTryC, Body: body, HasCatch: catch != nil, Catch: catch, HasFin: fin != nil, Fin: fin}
}
func tryInl(body, catch, fin []*Node) *Node {
	n := try(body, catch, fin)
	n.Inl = true
	return n
}
func ifp(k int, b ...*Node) *Node { return &Node{Op: nIf, K: k, Body: b} }
func xfer(to, amt, fl int, cb []*Node) *Node {
	return &Node{Op: nNative, Fl: fl, Nat: &NatOp{Kind: natTransfer, To: to, Amt: amt, HasCb: cb != nil, Cb: cb}}
}
func setFee(v, fl int) *Node {
	return &Node{Op: nNative, Fl: fl, Nat: &NatOp{Kind: natSetFee, Val: v}}
}
func L(n ...*Node) []*Node { return n }

var none = []*Node{}

func blockAcc(a, fl int) *Node {
	return &Node{Op: nNative, Fl: fl, Nat: &NatOp{Kind: natBlock, Val: a}}
}
func unblockAcc(a, fl int) *Node {
	return &Node{Op: nNative, Fl: fl, Nat: &NatOp{Kind: natUnblock, Val: a}}
}
func deploy(d, fl int) *Node {
	return &Node{Op: nNative, Fl: fl, Nat: &NatOp{Kind: natDeploy, Val: d}}
}

// planOf derives what the transaction needs (committee witness, deployment fee) from the tree.
func planOf(t []*Node) txPlan {
	p := txPlan{tree: t}
	var walk func(l []*Node)
	walk = func(l []*Node) {
		for _, n := range l {
			if n.Op == nNative {
				switch n.Nat.Kind {
				case natSetFee, natBlock, natUnblock, natDesignate, natSetWl, natDelWl:
					p.committee = true
				case natDeploy:
					p.deploys = true
				}
			}
			walk(n.Body)
			walk(n.Catch)
			walk(n.Fin)
			if n.Nat != nil {
				walk(n.Nat.Cb)
			}
		}
	}
	walk(t)
	return p
}

func one(t ...*Node) []txPlan { return []txPlan{planOf(t)} }

func corpus() [][]txPlan {
	return [][]txPlan{
		// plain halt / plain fault
		one(call(0, 15, put(1, 1), notify(1), del(2))),
		one(call(0, 15, put(0, 7), notify(2), abort())),
		one(call(0, 15, put(0, 7), notify(2), throw())),
		// callee throws, caller catches: callee undone, before/after kept
		one(call(0, 15, put(1, 2), notify(1), try(L(call(1, 15, put(1, 3), notify(2), call(2, 15, put(0, 9)), throw())), L(notify(3)), nil), put(2, 2))),
		one(call(0, 15, put(1, 2), tryInl(L(call(1, 15, put(1, 3), notify(2), throw())), L(notify(3)), nil), put(2, 2))),
		// TRY in the entry script itself (single-context path of ContractHasTryBlock)
		one(try(L(call(0, 15, put(0, 5), notify(4), throw())), none, nil), call(1, 15, put(0, 1))),
		// TRY two internal calls below the calling context
		one(call(0, 15, try(L(local(local(call(1, 15, put(3, 3), throw())))), L(put(3, 1)), nil))),
		// the caller has no TRY, its caller has: the middle contract's writes go with it
		one(call(0, 15, try(L(call(1, 15, put(0, 1), call(2, 15, put(0, 2), notify(5), throw()))), L(notify(6)), nil))),
		// exception caught inside the callee itself: nothing is rolled back
		one(call(0, 15, call(1, 15, try(L(put(0, 4), throw()), L(put(1, 4)), nil)), put(2, 4))),
		// read-only flags: not wrapped, callee cannot write
		one(call(0, 15, try(L(call(1, 5, ifp(0, throw()), throw())), L(notify(7)), nil))),
		one(call(0, 15, try(L(call(1, 5, put(0, 1))), none, nil))),
		// notify-only / write-only callee flags still need the layer (events and writes are undone)
		one(call(0, 15, notify(1), try(L(call(1, 13, notify(2), call(2, 9, notify(3)), throw())), L(notify(4)), nil))),
		one(call(0, 15, put(1, 1), try(L(call(1, 7, put(1, 2), call(2, 3, put(1, 3)), throw())), L(put(2, 1)), nil))),
		// nested handlers: the inner frame is in its catch block, the outer one is still a TRY
		one(call(0, 15, try(L(try(L(throw()), L(call(1, 15, put(0, 6), notify(6), throw())), nil)), L(notify(7)), nil))),
		// the same with both frames in ONE context (inline-compiled entry script)
		one(try(L(try(L(throw()), L(call(1, 15, put(0, 6), notify(6), throw())), nil)), L(call(0, 15, notify(7))), nil)),
		// finally: normal path, exceptional path with rethrow to an outer catch
		one(call(0, 15, try(L(put(0, 1)), nil, L(put(1, 1))), try(L(try(L(put(2, 1), throw()), nil, L(put(3, 1), notify(1)))), L(notify(2)), nil))),
		// exception lost inside a finally block: ENDFINALLY jumps to EndOffset -1 (FAULT)
		one(call(0, 15, try(L(try(L(throw()), nil, L(try(L(throw()), none, nil)))), none, nil))),
		// KNOWN (finally-call-rollback): a callee that completes inside a finally block which runs
		// for an exception is unloaded with commit=false; its writes and events are lost
		one(call(0, 15, try(L(try(L(throw()), nil, L(call(1, 15, put(3, 3), notify(7)), put(3, 4)))), L(notify(8)), nil))),
		// replay of the defect fixed by db399c7: a call from a catch block that has a finally was
		// not wrapped; the finally block saw the failed callee's write (key 0 of c0) and aborted
		one(try(L(call(0, 15, del(0), try(L(throw()), L(call(1, 15, call(0, 15, put(0, 1)), throw())), L(ifp(0, abort()))))), none, nil)),
		// GAS transfers: plain, with a callback that writes, with a callback that throws (FAULT),
		// rolled back with the caller's catch
		one(call(0, 15, xfer(1, 0, 15, L(put(2, 2), notify(3))), xfer(extAcc, 0, 15, nil))),
		one(call(0, 15, try(L(call(1, 15, xfer(2, 0, 15, L(put(1, 1))), throw())), L(notify(1)), nil))),
		one(call(0, 15, try(L(xfer(1, 0, 15, L(throw()))), L(notify(1)), nil))),
		one(call(0, 15, try(L(xfer(1, 0, 15, L(try(L(throw()), L(put(1, 5)), nil)))), L(notify(1)), nil))),
		// a transfer to a plain account inside a finally block that runs for an exception (raw events of a FAULT)
		one(call(2, 15, try(L(try(L(throw()), nil, L(xfer(7, 0, 15, nil), xfer(1, 0, 15, nil)))), L(throw()), L(put(3, 4))))),
		// committee-signed Policy setter inside a rolled-back callee, and inside a committed one
		one(call(0, 15, try(L(call(1, 15, setFee(777, 15), throw())), L(notify(1)), nil)), call(2, 15, setFee(555, 15))),
		one(call(0, 15, setFee(444, 15), abort())),
		// blocked-account list (sorted slice in the Policy cache): rolled back / committed / unblocked
		one(call(0, 15, blockAcc(7, 15), try(L(call(1, 15, blockAcc(6, 15), blockAcc(8, 15), unblockAcc(7, 15), throw())), L(notify(1)), nil), blockAcc(8, 15))),
		one(call(0, 15, blockAcc(6, 15), blockAcc(7, 15), blockAcc(8, 15), try(L(call(1, 15, unblockAcc(7, 15), throw())), none, nil), unblockAcc(6, 15), abort())),
		one(call(0, 15, blockAcc(6, 15), blockAcc(7, 15), blockAcc(8, 15), try(L(call(1, 15, unblockAcc(7, 15), throw())), none, nil))),
		one(call(0, 15, blockAcc(6, 15), blockAcc(8, 15), try(L(call(1, 15, blockAcc(7, 15), throw())), none, nil))),
		// deployments (Management cache, next contract ID): rolled back, then committed with the same ID
		one(call(0, 15, try(L(call(1, 15, deploy(0, 15), deploy(1, 15), throw())), L(notify(1)), nil), deploy(1, 15), try(L(call(2, 15, deploy(2, 15))), none, nil))),
		one(call(0, 15, deploy(0, 15), deploy(0, 15))),
		one(call(0, 15, deploy(2, 15), abort())),
		// a faulting transaction between two good ones
		{simpleTxFixed(0, 1, 1), planOf(L(call(0, 15, put(1, 9), deploy(0, 15), call(1, 15, put(1, 9)), abort()))), simpleTxFixed(1, 2, 2)},
	}
}

func simpleTxFixed(c, k, v int) txPlan {
	return txPlan{tree: L(call(c, 15, put(k, v), notify(v)))}
}
