// Single corruptions of the valid next block.
package main

import (
	"bytes"

	"github.com/nspcc-dev/neo-go/pkg/core/block"
	"github.com/nspcc-dev/neo-go/pkg/core/transaction"
	"github.com/nspcc-dev/neo-go/pkg/util"
	"github.com/nspcc-dev/neo-go/pkg/vm/opcode"

	"verif/harness/internal/prng"
)

// cand is one candidate block as a peer would deliver it.
type cand struct {
	name   string
	group  string // header | witness | txlist | encoding | control
	signed string // "orig" (signature untouched), "resigned" (validators signed the changed block), "n/a"
	blk    *block.Block
	raw    []byte          // encoding-level candidates: the bytes received
	decErr bool            // bytes do not decode: nothing reaches AddBlock
	hdrs   []*block.Header // group "headers": the list handed to AddHeaders
}

type corruptor struct {
	st  *state
	r   *prng.R
	out []cand
	// want >= 0: only candidate number `want` is materialised (blocks built, signed, decoded); the others
	// are listed by name. The random stream is drawn identically either way.
	want int
}

// skip reports whether the candidate about to be appended need not be built.
func (c *corruptor) skip() bool { return c.want >= 0 && len(c.out) != c.want }

func (c *corruptor) base() (hdrFields, []*transaction.Transaction) {
	return fieldsOf(&c.st.next.Header), append([]*transaction.Transaction{}, c.st.next.Transactions...)
}

// emit finalises a candidate: optionally recompute the Merkle root and re-sign by the validators.
func (c *corruptor) emit(name, group string, f hdrFields, txs []*transaction.Transaction, remerkle, resign bool) {
	if c.skip() {
		signed := "orig"
		if resign {
			signed, name = "resigned", name+"+resigned"
		}
		c.out = append(c.out, cand{name: name, group: group, signed: signed})
		return
	}
	if remerkle {
		f.MerkleRoot = merkleOf(txs)
	}
	signed := "orig"
	if resign {
		f.Inv = c.st.v.sign(mkBlock(f, txs), nil)
		f.Ver = c.st.v.script
		signed = "resigned"
		name += "+resigned"
	}
	c.out = append(c.out, cand{name: name, group: group, signed: signed, blk: mkBlock(f, txs)})
}

// both emits the not-re-signed and the re-signed variant of a change inside the signed part.
func (c *corruptor) both(name, group string, f hdrFields, txs []*transaction.Transaction, remerkle bool) {
	c.emit(name, group, f, txs, false, false)
	c.emit(name, group, f, txs, remerkle, true)
}

func rnd256(r *prng.R) (u util.Uint256) { copy(u[:], r.Bytes(32)); return }
func rnd160(r *prng.R) (u util.Uint160) { copy(u[:], r.Bytes(20)); return }

func (c *corruptor) header() {
	st, r := c.st, c.r
	tip := st.prep[len(st.prep)-1]
	mod := func(name string, m func(f *hdrFields)) {
		f, txs := c.base()
		m(&f)
		c.both(name, "header", f, txs, false)
	}
	mod("version=1", func(f *hdrFields) { f.Version = 1 })
	mod("version=max", func(f *hdrFields) { f.Version = 0xffffffff })
	mod("prevhash=random", func(f *hdrFields) { f.PrevHash = rnd256(r) })
	mod("prevhash=zero", func(f *hdrFields) { f.PrevHash = util.Uint256{} })
	mod("prevhash=older", func(f *hdrFields) { f.PrevHash = tip.PrevHash })
	mod("prevhash=self", func(f *hdrFields) { f.PrevHash = st.next.Hash() })
	mod("merkle=random", func(f *hdrFields) { f.MerkleRoot = rnd256(r) })
	mod("merkle=bitflip", func(f *hdrFields) { f.MerkleRoot[r.Intn(32)] ^= 1 << uint(r.Intn(8)) })
	mod("ts=tip", func(f *hdrFields) { f.Timestamp = tip.Timestamp })
	mod("ts=tip-1", func(f *hdrFields) { f.Timestamp = tip.Timestamp - 1 })
	mod("ts=0", func(f *hdrFields) { f.Timestamp = 0 })
	mod("ts=tip+1", func(f *hdrFields) { f.Timestamp = tip.Timestamp + 1 })
	mod("ts=later", func(f *hdrFields) { f.Timestamp += 5 })
	mod("nonce", func(f *hdrFields) { f.Nonce ^= 1 << uint(r.Intn(64)) })
	mod("index-1", func(f *hdrFields) { f.Index-- })
	mod("index+1", func(f *hdrFields) { f.Index++ })
	mod("index+2", func(f *hdrFields) { f.Index += 2 })
	mod("index=0", func(f *hdrFields) { f.Index = 0 })
	mod("primary", func(f *hdrFields) { f.PrimaryIndex ^= 1 })
	mod("primary=n-1", func(f *hdrFields) { f.PrimaryIndex = byte(st.v.nvals - 1) })
	mod("primary=n", func(f *hdrFields) { f.PrimaryIndex = byte(st.v.nvals) })
	mod("primary=255", func(f *hdrFields) { f.PrimaryIndex = 255 })
	mod("nextconsensus=random", func(f *hdrFields) { f.NextConsensus = rnd160(r) })
	mod("nextconsensus=bitflip", func(f *hdrFields) { f.NextConsensus[r.Intn(20)] ^= 1 << uint(r.Intn(8)) })
	if st.spec.k.sr {
		mod("prevstateroot=random", func(f *hdrFields) { f.PrevStateRoot = rnd256(r) })
		mod("prevstateroot=zero", func(f *hdrFields) { f.PrevStateRoot = util.Uint256{} })
		mod("prevstateroot=older", func(f *hdrFields) { f.PrevStateRoot = st.roots[st.h-1] })
		mod("stateroot-flag-off", func(f *hdrFields) { f.SRE = false; f.PrevStateRoot = util.Uint256{} })
	} else {
		mod("stateroot-flag-on", func(f *hdrFields) { f.SRE = true; f.PrevStateRoot = st.roots[st.h] })
	}
}

func (c *corruptor) witness() {
	st, r, v := c.st, c.r, c.st.v
	w := func(name string, m func(f *hdrFields)) {
		f, txs := c.base()
		m(&f)
		if c.skip() {
			c.out = append(c.out, cand{name: name, group: "witness", signed: "n/a"})
			return
		}
		c.out = append(c.out, cand{name: name, group: "witness", signed: "n/a", blk: mkBlock(f, txs)})
	}
	flip := func(b []byte, pos int) []byte {
		n := bytes.Clone(b)
		n[pos] ^= 1 << uint(r.Intn(8))
		return n
	}
	w("inv-bitflip-opcode", func(f *hdrFields) { f.Inv = flip(f.Inv, 66*r.Intn(v.m)) })
	w("inv-bitflip-length", func(f *hdrFields) { f.Inv = flip(f.Inv, 66*r.Intn(v.m)+1) })
	w("inv-bitflip-sig", func(f *hdrFields) { f.Inv = flip(f.Inv, 66*r.Intn(v.m)+2+r.Intn(64)) })
	w("inv-bitflip-sig2", func(f *hdrFields) { f.Inv = flip(f.Inv, 66*r.Intn(v.m)+2+r.Intn(64)) })
	w("inv-bitflip-last", func(f *hdrFields) { f.Inv = flip(f.Inv, len(f.Inv)-1) })
	w("inv-empty", func(f *hdrFields) { f.Inv = nil })
	w("ver-empty", func(f *hdrFields) { f.Ver = nil })
	w("witness-empty", func(f *hdrFields) { f.Inv, f.Ver = nil, nil })
	w("ver-bitflip", func(f *hdrFields) { f.Ver = flip(f.Ver, r.Intn(len(f.Ver))) })
	w("inv-drop-last-sig", func(f *hdrFields) { f.Inv = f.Inv[:len(f.Inv)-66] })
	w("inv-append-push1", func(f *hdrFields) { f.Inv = append(bytes.Clone(f.Inv), byte(opcode.PUSH1)) })
	w("inv-prepend-push1", func(f *hdrFields) { f.Inv = append([]byte{byte(opcode.PUSH1)}, f.Inv...) })
	w("inv-truncated", func(f *hdrFields) { f.Inv = f.Inv[:len(f.Inv)-1-r.Intn(60)] })
	w("sig-wrong-magic", func(f *hdrFields) { f.Inv = v.signNet(uint32(magic)+1, st.next, nil) })
	w("sig-other-block", func(f *hdrFields) {
		g := *f
		g.Nonce++
		f.Inv = v.sign(mkBlock(g, st.next.Transactions), nil)
	})
	w("sig-outsider-key", func(f *hdrFields) {
		s := accX.acc.SignHashable(magic, st.next)
		n := bytes.Clone(f.Inv)
		copy(n[66*r.Intn(v.m)+2:], s)
		f.Inv = n
	})
	w("witness-of-outsider", func(f *hdrFields) {
		s := accX.acc.SignHashable(magic, st.next)
		f.Inv = append([]byte{byte(opcode.PUSHDATA1), 64}, s...)
		f.Ver = accX.acc.Contract.Script
	})
	other := singleVals
	if !st.spec.k.multi {
		other = multiVals
	}
	w("witness-of-other-validator-set", func(f *hdrFields) { f.Inv, f.Ver = other.sign(st.next, nil), other.script })
	// class copy-differs (header): the offered copy differs from the validly signed header in exactly ONE witness
	// field - when the header is already recorded (headers ahead) this is the copy the known-header path compares
	w("copy:hdr-inv-truncated", func(f *hdrFields) { f.Inv = f.Inv[:len(f.Inv)-1] })
	w("copy:hdr-inv-extended", func(f *hdrFields) { f.Inv = append(bytes.Clone(f.Inv), byte(opcode.PUSH2)) }) // (a NOP would still verify)
	w("copy:hdr-inv-replaced", func(f *hdrFields) { f.Inv = other.sign(st.next, nil) })
	w("copy:hdr-ver-truncated", func(f *hdrFields) { f.Ver = f.Ver[:len(f.Ver)-1] })
	w("copy:hdr-ver-extended", func(f *hdrFields) { f.Ver = append(bytes.Clone(f.Ver), byte(opcode.NOP)) })
	w("copy:hdr-ver-replaced", func(f *hdrFields) { f.Ver = other.script })
	if v.m > 1 {
		w("inv-swap-sigs", func(f *hdrFields) {
			n := bytes.Clone(f.Inv)
			copy(n[0:66], f.Inv[66:132])
			copy(n[66:132], f.Inv[0:66])
			f.Inv = n
		})
		w("inv-dup-sig", func(f *hdrFields) {
			n := bytes.Clone(f.Inv)
			copy(n[66:132], f.Inv[0:66])
			f.Inv = n
		})
		// other valid signer subsets: still signed by the consensus address
		w("alt-signers-013(valid)", func(f *hdrFields) { f.Inv = v.sign(st.next, []int{0, 1, 3}) })
		w("alt-signers-123(valid)", func(f *hdrFields) { f.Inv = v.sign(st.next, []int{1, 2, 3}) })
		w("all-four-sigs", func(f *hdrFields) { f.Inv = v.sign(st.next, []int{0, 1, 2, 3}) })
		w("signers-out-of-order", func(f *hdrFields) { f.Inv = v.sign(st.next, []int{2, 0, 1}) })
	}
}

func (c *corruptor) txlist() {
	st, r := c.st, c.r
	n := len(st.next.Transactions)
	tl := func(name string, m func(txs []*transaction.Transaction) []*transaction.Transaction, variants string) {
		f, txs := c.base()
		txs = m(txs)
		switch variants {
		case "both":
			c.both(name, "txlist", f, txs, true)
		case "plain":
			c.emit(name, "txlist", f, txs, false, false)
		case "resigned":
			c.emit(name, "txlist", f, txs, true, true)
		}
	}
	app := func(ts ...*transaction.Transaction) func([]*transaction.Transaction) []*transaction.Transaction {
		return func(txs []*transaction.Transaction) []*transaction.Transaction { return append(txs, ts...) }
	}
	if n >= 2 {
		tl("swap-first-two", func(t []*transaction.Transaction) []*transaction.Transaction { t[0], t[1] = t[1], t[0]; return t }, "both")
		tl("swap-ends", func(t []*transaction.Transaction) []*transaction.Transaction { t[0], t[n-1] = t[n-1], t[0]; return t }, "both")
	}
	if n >= 1 {
		tl("dup-last", func(t []*transaction.Transaction) []*transaction.Transaction { return append(t, t[n-1]) }, "both")
		// further members of the same-root family: a level above the leaves has an odd number of nodes
		if n >= 5 && n%2 == 1 && ((n+1)/2)%2 == 1 {
			tl("dup-last-x3(same-root)", func(t []*transaction.Transaction) []*transaction.Transaction { return append(t, t[n-1], t[n-1]) }, "both")
			tl("dup-last-x4(same-root)", func(t []*transaction.Transaction) []*transaction.Transaction {
				return append(t, t[n-1], t[n-1], t[n-1])
			}, "both")
		}
		if n >= 6 && n%2 == 0 && (n/2)%2 == 1 {
			tl("dup-last-pair(same-root)", func(t []*transaction.Transaction) []*transaction.Transaction { return append(t, t[n-2], t[n-1]) }, "both")
		}
		tl("dup-first-appended", func(t []*transaction.Transaction) []*transaction.Transaction { return append(t, t[0]) }, "both")
		tl("dup-first-adjacent", func(t []*transaction.Transaction) []*transaction.Transaction {
			return append([]*transaction.Transaction{t[0]}, t...)
		}, "both")
		tl("drop-last", func(t []*transaction.Transaction) []*transaction.Transaction { return t[:n-1] }, "both")
		tl("drop-first", func(t []*transaction.Transaction) []*transaction.Transaction { return t[1:] }, "both")
		i := r.Intn(n)
		tl("tx-nonce-altered", func(t []*transaction.Transaction) []*transaction.Transaction {
			x := cloneTx(t[i])
			x.Nonce++
			x = cloneTx(x)
			st.label(x, false, "field-altered-not-resigned")
			t[i] = x
			return t
		}, "both")
		tl("tx-sysfee-altered", func(t []*transaction.Transaction) []*transaction.Transaction {
			x := cloneTx(t[i])
			x.SystemFee++
			x = cloneTx(x)
			st.label(x, false, "field-altered-not-resigned")
			t[i] = x
			return t
		}, "both")
		for _, j := range []int{0, n - 1} {
			j := j
			nm := "tx-witness-bitflip-first"
			if j != 0 {
				if n == 1 {
					continue
				}
				nm = "tx-witness-bitflip-last"
			}
			tl(nm, func(t []*transaction.Transaction) []*transaction.Transaction {
				x := cloneTx(t[j])
				x.Scripts[0].InvocationScript[2+r.Intn(64)] ^= 1 << uint(r.Intn(8))
				st.label(x, false, "witness-corrupted")
				t[j] = x
				return t
			}, "plain")
		}
		// in-block conflicts with the first transaction (same sender)
		first := st.next.Transactions[0]
		sender := accA
		mk := func(target *transaction.Transaction, extra int64, why string) *transaction.Transaction {
			o := txOpt{nonce: first.Nonce + 7777 + uint32(r.Intn(1000)), vub: st.h + 50, sysFee: sysFeeTransfer, conflicts: []util.Uint256{target.Hash()}, extraNet: extra}
			return st.label(mkTx(sender, accX.h, 12, o), true, why)
		}
		// a richer replacement of the first transaction, so that a conflicting one can pay less
		rich := st.label(mkTx(sender, accX.h, 10, txOpt{nonce: first.Nonce + 5555, vub: st.h + 50, sysFee: sysFeeTransfer, extraNet: 3000000}), true, "plain-rich")
		hi := mk(first, 500000, "conflicts-with-in-block-higher-fee")
		lo := mk(rich, 0, "conflicts-with-in-block-lower-fee")
		withRich := func(t []*transaction.Transaction) []*transaction.Transaction { t[0] = rich; return t }
		tl("inblock-conflict-after-higher-fee", app(hi), "both")
		tl("inblock-conflict-after-lower-fee", func(t []*transaction.Transaction) []*transaction.Transaction { return append(withRich(t), lo) }, "resigned")
		tl("inblock-conflict-before-higher-fee", func(t []*transaction.Transaction) []*transaction.Transaction {
			return append([]*transaction.Transaction{hi}, t...)
		}, "resigned")
		tl("inblock-conflict-before-lower-fee", func(t []*transaction.Transaction) []*transaction.Transaction {
			return append([]*transaction.Transaction{lo}, withRich(t)...)
		}, "resigned")
		tl("rich-first(valid)", withRich, "resigned")
	}
	tl("add-valid-tx", app(st.extra), "both")
	tl("add-expired", app(st.expired), "both")
	tl("add-vub-edge(valid)", app(st.vubEdge), "resigned")
	tl("add-not-yet-valid", app(st.notYet), "resigned")
	tl("add-vub-far-edge(valid)", app(st.vubFarEdge), "resigned")
	tl("add-already-on-chain", app(st.onChain), "both")
	tl("add-conflicting-with-on-chain", app(st.yConfl), "resigned")
	tl("add-conflicts-attr-on-chain", app(st.attrOnCh), "resigned")
	tl("add-bad-script", app(st.badScript), "resigned")
	tl("add-low-fee", app(st.lowFee), "resigned")
	tl("add-wrong-key-witness", app(st.wrongKey), "resigned")
	tl("add-underfunded", app(st.poorBig), "resigned")
	tl("add-poor-one(valid)", app(st.poor1), "resigned")
	tl("add-poor-two-exceed", app(st.poor1, st.poor2), "resigned")
	if st.stale != nil {
		// the transaction pooled before the tip block changed its validity (still pooled or evicted by RemoveStale)
		tl("add-stale-pooled", app(st.stale), "resigned")
		tl("prepend-stale-pooled", func(t []*transaction.Transaction) []*transaction.Transaction {
			return append([]*transaction.Transaction{st.stale}, t...)
		}, "resigned")
		tl("only-stale-pooled", func(t []*transaction.Transaction) []*transaction.Transaction {
			return []*transaction.Transaction{st.stale}
		}, "resigned")
	}
	tl("prepend-expired", func(t []*transaction.Transaction) []*transaction.Transaction {
		return append([]*transaction.Transaction{st.expired}, t...)
	}, "resigned")
	// class copy-differs (transaction): the block's copy of its FIRST transaction (pooled in the states with a
	// mempool) differs from the valid one in exactly one witness field; the hash, and so the block hash, is the same
	if n >= 1 {
		cp := func(name string, m func(w *transaction.Witness)) {
			tl("copy:tx-"+name, func(t []*transaction.Transaction) []*transaction.Transaction {
				x := cloneTx(t[0])
				m(&x.Scripts[0])
				st.label(x, false, "copy-differs:"+name)
				t[0] = x
				return t
			}, "plain")
		}
		otherTx := accX.acc
		cp("inv-truncated", func(w *transaction.Witness) { w.InvocationScript = w.InvocationScript[:len(w.InvocationScript)-1] })
		cp("inv-extended", func(w *transaction.Witness) { w.InvocationScript = append(w.InvocationScript, byte(opcode.PUSH2)) }) // (a NOP would still verify)
		cp("inv-replaced", func(w *transaction.Witness) {
			w.InvocationScript = append([]byte{byte(opcode.PUSHDATA1), 64}, otherTx.SignHashable(magic, st.next.Transactions[0])...)
		})
		cp("ver-truncated", func(w *transaction.Witness) { w.VerificationScript = w.VerificationScript[:len(w.VerificationScript)-1] })
		cp("ver-extended", func(w *transaction.Witness) { w.VerificationScript = append(w.VerificationScript, byte(opcode.NOP)) })
		cp("ver-replaced", func(w *transaction.Witness) { w.VerificationScript = otherTx.Contract.Script })
	}
	// transactions built to fail chosen conjuncts of the stand-alone verification, appended to the valid block
	for i := range st.vars {
		if v := &st.vars[i]; v.inBlock {
			tl("var:"+v.name, app(v.tx), "resigned")
		}
	}
	// two failing transactions: the first one decides
	if t := st.varByName("two-signers"); t != nil && st.spec.poolMode >= 1 {
		// pooled with both witnesses intact; the block carries a copy whose SECOND witness is corrupted
		x := cloneTx(t)
		x.Scripts[1].InvocationScript[2+r.Intn(64)] ^= 1 << uint(r.Intn(8))
		st.label(x, false, "second-witness-corrupted(pooled-intact)")
		tl("var:two-signers-pooled-second-witness-corrupted", app(x), "resigned")
	}
	if a, b := st.varByName("vub=h"), st.varByName("blocked-sender"); a != nil && b != nil { // expired / policy
		tl("var:expired-then-blocked", app(a, b), "resigned")
		tl("var:blocked-then-expired", app(b, a), "resigned")
	}
}

func (c *corruptor) encoding() {
	st, r := c.st, c.r
	raw := encodeBlock(st.next)
	sre := st.spec.k.sr
	e := func(name string, bs []byte) {
		if c.skip() {
			c.out = append(c.out, cand{name: name, group: "encoding", signed: "orig"})
			return
		}
		b, err := decodeBlock(bs, sre)
		c.out = append(c.out, cand{name: name, group: "encoding", signed: "orig", blk: b, raw: bs, decErr: err != nil})
	}
	e("reencoded(valid)", raw)
	e("truncated-1", raw[:len(raw)-1])
	e("truncated-random", raw[:r.Intn(len(raw))])
	e("padded-1(valid)", append(bytes.Clone(raw), 0))
	e("padded-random(valid)", append(bytes.Clone(raw), r.Bytes(1+r.Intn(40))...))
	// header length up to the witness count byte
	hl := 4 + 32 + 32 + 8 + 8 + 4 + 1 + 20
	if sre {
		hl += 32
	}
	two := bytes.Clone(raw)
	two[hl] = 2
	e("witness-count-2", two)
	zero := bytes.Clone(raw)
	zero[hl] = 0
	e("witness-count-0", zero)
	// position of the tx count: after the witness
	pos := hl + 1
	skipVar := func(p int) int { // var-bytes at p (lengths here are < 0xfd)
		return p + 1 + int(raw[p])
	}
	if raw[pos] < 0xfd && raw[skipVar(pos)] < 0xfd {
		cnt := skipVar(skipVar(pos))
		n := len(st.next.Transactions)
		if int(raw[cnt]) == n {
			nm := append(bytes.Clone(raw[:cnt]), 0xfd, byte(n), 0)
			nm = append(nm, raw[cnt+1:]...)
			e("txcount-nonminimal-varint(valid)", nm)
			more := bytes.Clone(raw)
			more[cnt] = byte(n + 1)
			e("txcount+1", more)
			if n > 0 {
				less := bytes.Clone(raw)
				less[cnt] = byte(n - 1)
				e("txcount-1-trailing-bytes", less)
			}
		}
	}
	// the same corruption delivered through the wire as a struct field change would be: random byte flip
	for i := 0; i < 3; i++ {
		fl := bytes.Clone(raw)
		fl[r.Intn(len(fl))] ^= 1 << uint(r.Intn(8))
		e("wire-bitflip", fl)
	}
}

func (c *corruptor) control() {
	f, txs := c.base()
	if c.skip() {
		c.out = append(c.out, cand{name: "valid", group: "control", signed: "orig"})
	} else {
		c.out = append(c.out, cand{name: "valid", group: "control", signed: "orig", blk: mkBlock(f, txs)})
	}
	c.out = append(c.out, cand{name: "txverify", group: "txverify", signed: "n/a"})
}

func corruptions(st *state, r *prng.R) []cand { return corruptionsFor(st, r, -1) }

// corruptionsFor lists all candidates and materialises only number `want` (-1: all).
func corruptionsFor(st *state, r *prng.R, want int) []cand {
	st.useState()
	c := &corruptor{st: st, r: r, want: want}
	c.control()
	c.header()
	c.witness()
	c.txlist()
	c.encoding()
	c.headerLists()
	return c.out
}
