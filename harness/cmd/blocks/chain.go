// Chain helpers of the `blocks` stream (C06): own keys/config/builders, no testing.TB needed.
package main

import (
	"bytes"
	"crypto/sha256"
	"encoding/hex"
	"fmt"
	"math/big"
	"sort"

	"github.com/nspcc-dev/neo-go/pkg/config"
	"github.com/nspcc-dev/neo-go/pkg/config/netmode"
	"github.com/nspcc-dev/neo-go/pkg/core"
	"github.com/nspcc-dev/neo-go/pkg/core/block"
	"github.com/nspcc-dev/neo-go/pkg/core/fee"
	"github.com/nspcc-dev/neo-go/pkg/core/native/nativehashes"
	cstate "github.com/nspcc-dev/neo-go/pkg/core/state"
	"github.com/nspcc-dev/neo-go/pkg/core/storage"
	"github.com/nspcc-dev/neo-go/pkg/core/transaction"
	"github.com/nspcc-dev/neo-go/pkg/crypto/hash"
	"github.com/nspcc-dev/neo-go/pkg/crypto/keys"
	"github.com/nspcc-dev/neo-go/pkg/io"
	"github.com/nspcc-dev/neo-go/pkg/smartcontract"
	"github.com/nspcc-dev/neo-go/pkg/smartcontract/callflag"
	"github.com/nspcc-dev/neo-go/pkg/util"
	"github.com/nspcc-dev/neo-go/pkg/vm/emit"
	"github.com/nspcc-dev/neo-go/pkg/vm/opcode"
	"github.com/nspcc-dev/neo-go/pkg/wallet"
	"go.uber.org/zap"
)

const magic = netmode.UnitTestNet

// Same well-known test keys the repo's neotest chains use (pkg/neotest/chain/chain.go).
var committeeWIFs = []string{
	"KzfPUYDC9n2yf4fK5ro4C8KMcdeXtFuEnStycbZgX3GomiUsvX6W",
	"KzgWE3u3EDp13XPXXuTKZxeJ3Gi8Bsm8f9ijY3ZsCKKRvZUo1Cdn",
	"KxyjQ8eUa4FHt3Gvioyt1Wz29cTUrE4eTqX3yFSk1YFCsPL8uNsY",
	"L2oEXKRAAMiPEZukwR5ho2S6SMeQLhcK9mF71ZnF7GvT8dU4Kkgz",
	"L1Tr1iq5oz1jaFaMXP21sHDkJYDDkuLtpvQ4wRf1cjKvJYvnvpAb",
	"Kz6XTUrExy78q8f4MjDHnwz8fYYyUE8iPXwPRAkHa3qN2JcHYm7e",
}

// kind is the static configuration of a chain.
type kind struct {
	multi bool // 4 validators (3-of-4 multisig) / 6 committee members; else 1 validator
	sr    bool // StateRootInHeader
	vt    bool // VerifyTransactions
	skip  bool // SkipBlockVerification
}

func (k kind) String() string {
	b := func(x bool) int {
		if x {
			return 1
		}
		return 0
	}
	return fmt.Sprintf("multi=%d sr=%d vt=%d skip=%d", b(k.multi), b(k.sr), b(k.vt), b(k.skip))
}

// valset is the validator set of a chain kind: the keys in verification-script order.
type valset struct {
	privs   []*keys.PrivateKey // sorted by public key
	pubs    keys.PublicKeys
	m       int
	script  []byte
	addr    util.Uint160
	standby []string
	nvals   int
}

var (
	singleVals, multiVals *valset
	// committee of the 4-validator chains (6 members, majority multisig); the single chain's committee is its validator
	multiCommittee *valset
)

func init() {
	var all []*keys.PrivateKey
	for _, w := range committeeWIFs {
		p, err := keys.NewPrivateKeyFromWIF(w)
		if err != nil {
			panic(err)
		}
		all = append(all, p)
	}
	mk := func(privs []*keys.PrivateKey, standby []*keys.PrivateKey, majority bool) *valset {
		v := &valset{nvals: len(privs)}
		v.privs = append(v.privs, privs...)
		sort.Slice(v.privs, func(i, j int) bool { return v.privs[i].PublicKey().Cmp(v.privs[j].PublicKey()) < 0 })
		for _, p := range v.privs {
			v.pubs = append(v.pubs, p.PublicKey())
		}
		v.m = smartcontract.GetDefaultHonestNodeCount(len(privs))
		if majority {
			v.m = smartcontract.GetMajorityHonestNodeCount(len(privs))
		}
		s, err := smartcontract.CreateMultiSigRedeemScript(v.m, v.pubs.Copy())
		if err != nil {
			panic(err)
		}
		v.script = s
		v.addr = hash.Hash160(s)
		for _, p := range standby {
			v.standby = append(v.standby, p.PublicKey().StringCompressed())
		}
		return v
	}
	singleVals = mk([]*keys.PrivateKey{all[2]}, []*keys.PrivateKey{all[2]}, false)
	multiCommittee = mk(all, nil, true)
	// Validators must come first in the standby committee list.
	multiVals = mk(all[:4], []*keys.PrivateKey{all[2], all[0], all[3], all[1], all[4], all[5]}, false)
}

func (k kind) committee() *valset {
	if k.multi {
		return multiCommittee
	}
	return singleVals
}

func (k kind) vals() *valset {
	if k.multi {
		return multiVals
	}
	return singleVals
}

// noClose keeps the memory store readable after Blockchain.Close.
type noClose struct{ *storage.MemoryStore }

func (noClose) Close() error { return nil }

type chainT struct {
	bc    *core.Blockchain
	store *storage.MemoryStore
	k     kind
}

func newChain(k kind) *chainT { return newChainMTB(k, 0) }

func newChainMTB(k kind, mtb int) *chainT {
	if mtb == 0 {
		mtb = 1000
	}
	v := k.vals()
	cfg := config.Blockchain{
		ProtocolConfiguration: config.ProtocolConfiguration{
			Magic:                       magic,
			MaxTraceableBlocks:          uint32(mtb),
			MaxBlockSystemFee:           900000000000,
			MaxValidUntilBlockIncrement: 100,
			TimePerBlock:                1000000000,
			Genesis:                     config.Genesis{TimePerBlock: 1000000000},
			StandbyCommittee:            v.standby,
			ValidatorsCount:             uint32(v.nvals),
			VerifyTransactions:          k.vt,
			StateRootInHeader:           k.sr,
			P2PSigExtensions:            k.multi,
			MemPoolSize:                 100,
		},
		Ledger: config.Ledger{SkipBlockVerification: k.skip},
	}
	ms := storage.NewMemoryStore()
	bc, err := core.NewBlockchain(noClose{ms}, cfg, zap.NewNop())
	if err != nil {
		panic(fmt.Sprintf("NewBlockchain: %v", err))
	}
	go bc.Run()
	return &chainT{bc: bc, store: ms, k: k}
}

func (c *chainT) close() { c.bc.Close() }

// ---- accounts -------------------------------------------------------------------

type acct struct {
	name string
	acc  *wallet.Account
	h    util.Uint160
}

func mkAcct(name string) *acct {
	seed := sha256.Sum256([]byte("verif-blocks-" + name))
	p, err := keys.NewPrivateKeyFromBytes(seed[:])
	if err != nil {
		panic(err)
	}
	a := wallet.NewAccountFromPrivateKey(p)
	return &acct{name: name, acc: a, h: a.ScriptHash()}
}

var (
	accA = mkAcct("A")
	accB = mkAcct("B")
	accC = mkAcct("C")
	accD = mkAcct("D")
	accP = mkAcct("poor")
	accX = mkAcct("outsider") // never funded, not a validator
	accS = mkAcct("stale")    // sender of the transaction that is pooled and then loses its validity
	accK = mkAcct("K")        // blocked by Policy.blockAccount in every state
)

// ---- transactions ----------------------------------------------------------------

const (
	sysFeeTransfer = 20000000 // 0.2 GAS, generous for a GAS transfer
	baseFeePerByte = 1000
	baseExecFee    = 30 * 10000 // DefaultBaseExecFee * vm.ExecFeeFactorMultiplier (picoGAS)
)

// Policy values in force at the tip of the state being worked on (set by useState): transactions built
// for that state pay accordingly.
var (
	curFeePerByte   int64 = baseFeePerByte
	curConflictsFee int64 // fee per Conflicts attribute and signer
)

func transferScript(from, to util.Uint160, amount int64) []byte {
	w := io.NewBufBinWriter()
	emit.AppCall(w.BinWriter, nativehashes.GasToken, "transfer", callflag.All, from, to, amount, nil)
	emit.Opcodes(w.BinWriter, opcode.ASSERT)
	if w.Err != nil {
		panic(w.Err)
	}
	return w.Bytes()
}

type txOpt struct {
	nonce     uint32
	vub       uint32
	sysFee    int64
	extraNet  int64 // added on top of the exact network fee (may be negative)
	conflicts []util.Uint256
	script    []byte
}

// mkTx builds and signs a transaction whose only signer is `from` (a single-sig account).
func mkTx(from *acct, to util.Uint160, amount int64, o txOpt) *transaction.Transaction {
	script := o.script
	if script == nil {
		script = transferScript(from.h, to, amount)
	}
	tx := transaction.New(script, o.sysFee)
	tx.Nonce = o.nonce
	tx.ValidUntilBlock = o.vub
	tx.Signers = []transaction.Signer{{Account: from.h, Scopes: transaction.CalledByEntry}}
	for _, c := range o.conflicts {
		tx.Attributes = append(tx.Attributes, transaction.Attribute{Type: transaction.ConflictsT, Value: &transaction.Conflicts{Hash: c}})
	}
	vs := from.acc.Contract.Script
	nf, sz := fee.Calculate(baseExecFee, vs)
	size := io.GetVarSize(tx) + sz
	// Conflicts attribute fee is 0 by default policy; attribute fees are not used by these txs.
	tx.NetworkFee = nf + int64(size)*curFeePerByte + int64(len(o.conflicts))*curConflictsFee + o.extraNet
	if err := from.acc.SignTx(magic, tx); err != nil {
		panic(err)
	}
	return tx
}

// mkValTx builds a transfer from the validators' multisig address (the holder of the genesis GAS).
func mkValTx(v *valset, to util.Uint160, amount int64, nonce, vub uint32) *transaction.Transaction {
	tx := transaction.New(transferScript(v.addr, to, amount), sysFeeTransfer)
	tx.Nonce = nonce
	tx.ValidUntilBlock = vub
	tx.Signers = []transaction.Signer{{Account: v.addr, Scopes: transaction.CalledByEntry}}
	nf, sz := fee.Calculate(baseExecFee, v.script)
	size := io.GetVarSize(tx) + sz
	tx.NetworkFee = nf + int64(size)*curFeePerByte
	tx.Scripts = []transaction.Witness{{InvocationScript: v.sign(tx, nil), VerificationScript: v.script}}
	return tx
}

// mkCommitteeTx builds a transaction that calls a native method with the committee's witness.
func mkCommitteeTx(cv *valset, contract util.Uint160, method string, nonce, vub uint32, args ...any) *transaction.Transaction {
	w := io.NewBufBinWriter()
	emit.AppCall(w.BinWriter, contract, method, callflag.All, args...)
	if w.Err != nil {
		panic(w.Err)
	}
	tx := transaction.New(w.Bytes(), 50000000)
	tx.Nonce = nonce
	tx.ValidUntilBlock = vub
	tx.Signers = []transaction.Signer{{Account: cv.addr, Scopes: transaction.CalledByEntry}}
	nf, sz := fee.Calculate(baseExecFee, cv.script)
	size := io.GetVarSize(tx) + sz
	tx.NetworkFee = nf + int64(size)*curFeePerByte
	tx.Scripts = []transaction.Witness{{InvocationScript: cv.sign(tx, nil), VerificationScript: cv.script}}
	return tx
}

// cloneTx re-decodes a transaction so that no cached hash/size survives.
func cloneTx(t *transaction.Transaction) *transaction.Transaction {
	n, err := transaction.NewTransactionFromBytes(t.Bytes())
	if err != nil {
		panic(err)
	}
	return n
}

// ---- blocks -------------------------------------------------------------------------

// sign returns a multisig invocation script for item made by the validators with the given
// indexes (default: the first m).
func (v *valset) sign(item hash.Hashable, idx []int) []byte {
	return v.signNet(uint32(magic), item, idx)
}

func (v *valset) signNet(net uint32, item hash.Hashable, idx []int) []byte {
	if idx == nil {
		for i := 0; i < v.m; i++ {
			idx = append(idx, i)
		}
	}
	var s []byte
	for _, i := range idx {
		sig := v.privs[i].SignHashable(net, item)
		s = append(s, byte(opcode.PUSHDATA1), keys.SignatureLen)
		s = append(s, sig...)
	}
	return s
}

// hdrFields are the fields of a header that the harness sets; a block is always built
// from them afresh so that the cached hash never goes stale.
type hdrFields struct {
	Version       uint32
	PrevHash      util.Uint256
	MerkleRoot    util.Uint256
	Timestamp     uint64
	Nonce         uint64
	Index         uint32
	NextConsensus util.Uint160
	SRE           bool
	PrevStateRoot util.Uint256
	PrimaryIndex  byte
	Inv, Ver      []byte
}

func fieldsOf(h *block.Header) hdrFields {
	return hdrFields{h.Version, h.PrevHash, h.MerkleRoot, h.Timestamp, h.Nonce, h.Index, h.NextConsensus,
		h.StateRootEnabled, h.PrevStateRoot, h.PrimaryIndex, bytes.Clone(h.Script.InvocationScript), bytes.Clone(h.Script.VerificationScript)}
}

func (f hdrFields) header() block.Header {
	return block.Header{Version: f.Version, PrevHash: f.PrevHash, MerkleRoot: f.MerkleRoot, Timestamp: f.Timestamp,
		Nonce: f.Nonce, Index: f.Index, NextConsensus: f.NextConsensus, StateRootEnabled: f.SRE, PrevStateRoot: f.PrevStateRoot,
		PrimaryIndex: f.PrimaryIndex, Script: transaction.Witness{InvocationScript: bytes.Clone(f.Inv), VerificationScript: bytes.Clone(f.Ver)}}
}

func mkBlock(f hdrFields, txs []*transaction.Transaction) *block.Block {
	b := &block.Block{Header: f.header()}
	for _, t := range txs {
		b.Transactions = append(b.Transactions, cloneTx(t))
	}
	return b
}

// merkleOf is the harness' own Merkle root (pairwise double SHA-256 over the big-endian hash bytes, an
// odd last element paired with itself, zero for no transactions) - not the repository's CalcMerkleRoot.
func merkleOf(txs []*transaction.Transaction) util.Uint256 {
	if len(txs) == 0 {
		return util.Uint256{}
	}
	level := make([][]byte, len(txs))
	for i, t := range txs {
		level[i] = t.Hash().BytesBE()
	}
	for len(level) > 1 {
		var next [][]byte
		for i := 0; i < len(level); i += 2 {
			j := i + 1
			if j == len(level) {
				j = i
			}
			a := sha256.Sum256(append(append([]byte{}, level[i]...), level[j]...))
			b := sha256.Sum256(a[:])
			next = append(next, b[:])
		}
		level = next
	}
	u, err := util.Uint256DecodeBytesBE(level[0])
	if err != nil {
		panic(err)
	}
	return u
}

// wire sends the block through the binary encoding the way a peer receives it.
func wire(b *block.Block, sre bool) (*block.Block, error) {
	w := io.NewBufBinWriter()
	b.EncodeBinary(w.BinWriter)
	if w.Err != nil {
		return nil, w.Err
	}
	return decodeBlock(w.Bytes(), sre)
}

func decodeBlock(bs []byte, sre bool) (*block.Block, error) {
	nb := block.New(sre)
	r := io.NewBinReaderFromBuf(bs)
	nb.DecodeBinary(r)
	if r.Err != nil {
		return nil, r.Err
	}
	return nb, nil
}

func encodeBlock(b *block.Block) []byte {
	w := io.NewBufBinWriter()
	b.EncodeBinary(w.BinWriter)
	if w.Err != nil {
		panic(w.Err)
	}
	return w.Bytes()
}

// ---- independent checks ---------------------------------------------------------------

// strictSigned is the harness' own reading of "is signed by the consensus address addr":
// the verification script is exactly the m-of-n script whose hash is addr and the invocation
// script is exactly m `PUSHDATA1 64 <sig>` pushes with valid signatures of distinct keys in key order.
func strictSigned(v *valset, addr util.Uint160, h *block.Header) bool {
	ver := h.Script.VerificationScript
	if hash.Hash160(ver) != addr || !bytes.Equal(ver, v.script) {
		return false
	}
	inv := h.Script.InvocationScript
	if len(inv) != v.m*66 {
		return false
	}
	ki := 0
	for i := 0; i < v.m; i++ {
		p := inv[i*66 : (i+1)*66]
		if p[0] != byte(opcode.PUSHDATA1) || p[1] != 64 {
			return false
		}
		ok := false
		for ; ki < len(v.pubs); ki++ {
			if v.pubs[ki].VerifyHashable(p[2:], uint32(magic), h) {
				ok = true
				ki++
				break
			}
		}
		if !ok {
			return false
		}
	}
	return true
}

// ---- observation of a node --------------------------------------------------------------

type snap struct {
	bh, hh    uint32
	tip, htip util.Uint256
	root      util.Uint256
	pool      []util.Uint256
	db        map[string]string
	dbDigest  string
}

func (c *chainT) snapshot() *snap {
	s := &snap{}
	bc := c.bc
	s.bh, s.hh = bc.BlockHeight(), bc.HeaderHeight()
	s.tip, s.htip = bc.CurrentBlockHash(), bc.CurrentHeaderHash()
	s.root = bc.GetStateModule().CurrentLocalStateRoot()
	for _, t := range bc.GetMemPool().GetVerifiedTransactions() {
		s.pool = append(s.pool, t.Hash())
	}
	if err := bc.VerifPersist(); err != nil {
		panic(err)
	}
	s.db = map[string]string{}
	h := sha256.New()
	// MemoryStore.Seek needs a non-empty prefix (it picks its map by the first key byte).
	for p := 0; p < 256; p++ {
		c.store.Seek(storage.SeekRange{Prefix: []byte{byte(p)}}, func(k, v []byte) bool {
			v = canonValue(k, v)
			s.db[string(k)] = string(v)
			var l [8]byte
			l[0], l[1], l[2], l[3] = byte(len(k)), byte(len(k)>>8), byte(len(v)), byte(len(v)>>8)
			l[4] = byte(len(v) >> 16)
			h.Write(l[:])
			h.Write(k)
			h.Write(v)
			return true
		})
	}
	s.dbDigest = hex.EncodeToString(h.Sum(nil)[:8])
	return s
}

func sameHashes(a, b []util.Uint256) bool {
	if len(a) != len(b) {
		return false
	}
	for i := range a {
		if a[i] != b[i] {
			return false
		}
	}
	return true
}

// canonValue removes representation noise that is not state: TokenTransferInfo serialises its
// LastUpdated map in Go map order (pkg/core/state/tokens.go:102), so equal values have several encodings.
func canonValue(k, v []byte) []byte {
	if len(k) == 0 || k[0] != byte(storage.STTokenTransferInfo) {
		return v
	}
	var ti cstate.TokenTransferInfo
	r := io.NewBinReaderFromBuf(v)
	ti.DecodeBinary(r)
	if r.Err != nil {
		return v
	}
	ids := make([]int, 0, len(ti.LastUpdated))
	for id := range ti.LastUpdated {
		ids = append(ids, int(id))
	}
	sort.Ints(ids)
	out := fmt.Sprintf("tti %d %d %d %d %v %v", ti.NextNEP11Batch, ti.NextNEP17Batch, ti.NextNEP11NewestTimestamp, ti.NextNEP17NewestTimestamp, ti.NewNEP11Batch, ti.NewNEP17Batch)
	for _, id := range ids {
		out += fmt.Sprintf(" %d:%d", id, ti.LastUpdated[int32(id)])
	}
	return []byte(out)
}

// dbDiff returns the keys added/changed/removed between two dumps (sorted, hex).
func dbDiff(a, b map[string]string) (added, changed, removed []string) {
	for k, v := range b {
		if av, ok := a[k]; !ok {
			added = append(added, hex.EncodeToString([]byte(k)))
		} else if av != v {
			changed = append(changed, hex.EncodeToString([]byte(k)))
		}
	}
	for k := range a {
		if _, ok := b[k]; !ok {
			removed = append(removed, hex.EncodeToString([]byte(k)))
		}
	}
	sort.Strings(added)
	sort.Strings(changed)
	sort.Strings(removed)
	return
}

func gasBalance(c *chainT, h util.Uint160) *big.Int {
	return c.bc.GetUtilityTokenBalance(h, util.Uint160{})
}

// short / short160: 6-byte tokens for the line protocol. A digest of the whole value, not a prefix:
// corruptions flip single bits anywhere in a hash. Zero stays recognisable.
func short(h util.Uint256) string {
	if h == (util.Uint256{}) {
		return "000000000000"
	}
	d := sha256.Sum256(h[:])
	return hex.EncodeToString(d[:6])
}
func short160(h util.Uint160) string {
	if h == (util.Uint160{}) {
		return "000000000000"
	}
	d := sha256.Sum256(h[:])
	return hex.EncodeToString(d[:6])
}
func witID(w *transaction.Witness) string {
	s := sha256.New()
	s.Write([]byte{byte(len(w.InvocationScript)), byte(len(w.InvocationScript) >> 8)})
	s.Write(w.InvocationScript)
	s.Write(w.VerificationScript)
	return "w" + hex.EncodeToString(s.Sum(nil)[:5])
}
