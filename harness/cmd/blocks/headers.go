// AddHeaders cases (corrupted header lists) and the node-invariant oracle.
package main

import (
	"bytes"
	"fmt"
	"strings"

	"github.com/nspcc-dev/neo-go/pkg/core/block"
	"github.com/nspcc-dev/neo-go/pkg/util"

	"verif/harness/internal/hx"
	"verif/harness/internal/prng"
)

// headerLists: the valid headers beyond what the node knows, with one corruption.
func (c *corruptor) headerLists() {
	st, r, v := c.st, c.r, c.st.v
	all := append([]*block.Block{st.next}, st.future...)
	fresh := all[st.spec.ahead:] // 1..4 valid headers the node does not know yet
	base := func() []hdrFields {
		var fs []hdrFields
		for _, b := range fresh {
			fs = append(fs, fieldsOf(&b.Header))
		}
		return fs
	}
	emit := func(name string, fs []hdrFields) {
		if c.skip() {
			c.out = append(c.out, cand{name: name, group: "headers", signed: "n/a"})
			return
		}
		var hs []*block.Header
		for _, f := range fs {
			b := mkBlock(f, nil)
			hs = append(hs, &b.Header)
		}
		c.out = append(c.out, cand{name: name, group: "headers", signed: "n/a", hdrs: hs})
	}
	// relink re-signs header j after a change and re-links/re-signs everything after it
	relink := func(fs []hdrFields, j int) {
		if c.skip() {
			return
		}
		for i := j; i < len(fs); i++ {
			if i > j {
				fs[i].PrevHash = mkBlock(fs[i-1], nil).Hash()
			}
			fs[i].Inv = v.sign(mkBlock(fs[i], nil), nil)
		}
	}
	emit("valid-list", base())
	emit("empty-list", nil)
	n := len(fresh)
	j := r.Intn(n)
	prevTs := func(fs []hdrFields, j int) uint64 {
		if j > 0 {
			return fs[j-1].Timestamp
		}
		kn := st.knownHeaders()
		return kn[len(kn)-1].ts
	}
	mods := []struct {
		name string
		m    func(fs []hdrFields, j int)
	}{
		{"ts=prev", func(fs []hdrFields, j int) { fs[j].Timestamp = prevTs(fs, j) }},
		{"prevhash=random", func(fs []hdrFields, j int) { fs[j].PrevHash = rnd256(r) }},
		{"index+1", func(fs []hdrFields, j int) { fs[j].Index++ }},
		{"index-1", func(fs []hdrFields, j int) { fs[j].Index-- }},
		{"nonce", func(fs []hdrFields, j int) { fs[j].Nonce++ }},
		{"nextconsensus=random", func(fs []hdrFields, j int) { fs[j].NextConsensus = rnd160(r) }},
		{"merkle=random", func(fs []hdrFields, j int) { fs[j].MerkleRoot = rnd256(r) }},
	}
	if st.spec.k.sr {
		mods = append(mods, struct {
			name string
			m    func(fs []hdrFields, j int)
		}{"prevstateroot=random", func(fs []hdrFields, j int) { fs[j].PrevStateRoot = rnd256(r) }})
	}
	for _, m := range mods {
		j := j
		if m.name == "prevstateroot=random" && r.Chance(2, 3) {
			j = 0 // only the header right above the local state height is checked against the local root
		}
		fs := base()
		m.m(fs, j)
		emit(fmt.Sprintf("hdr%d/%d:%s", j, n, m.name), fs) // signature of header j no longer fits; later ones link to the old hash
		fs = base()
		m.m(fs, j)
		relink(fs, j)
		emit(fmt.Sprintf("hdr%d/%d:%s+relinked", j, n, m.name), fs)
	}
	wit := []struct {
		name string
		m    func(f *hdrFields)
	}{
		{"inv-bitflip", func(f *hdrFields) {
			x := bytes.Clone(f.Inv)
			x[2+r.Intn(64)] ^= 1 << uint(r.Intn(8))
			f.Inv = x
		}},
		{"inv-empty", func(f *hdrFields) { f.Inv = nil }},
		{"ver-bitflip", func(f *hdrFields) {
			x := bytes.Clone(f.Ver)
			x[r.Intn(len(x))] ^= 1 << uint(r.Intn(8))
			f.Ver = x
		}},
		{"witness-of-outsider", func(f *hdrFields) {
			s := accX.acc.SignHashable(magic, &block.Header{})
			f.Inv = append([]byte{0x0c, 64}, s...)
			f.Ver = accX.acc.Contract.Script
		}},
	}
	for _, w := range wit {
		fs := base()
		w.m(&fs[j])
		emit(fmt.Sprintf("hdr%d/%d:%s", j, n, w.name), fs)
	}
	if n >= 2 {
		fs := base()
		fs[0], fs[1] = fs[1], fs[0]
		emit("swap-first-two", fs)
		emit("drop-first(gap)", base()[1:])
		fs = base()
		fs = append(fs[:1], fs...)
		emit("dup-first(valid)", fs)
		emit("only-first(valid)", base()[:1])
	}
	if n >= 3 {
		fs := base()
		fs = append(fs[:1], fs[2:]...)
		emit("drop-middle", fs)
	}
	// known prefix in front: silently skipped
	var pre []hdrFields
	for _, b := range st.prep {
		pre = append(pre, fieldsOf(&b.Header))
	}
	emit("known-prefix+valid(valid)", append(pre, base()...))
	emit("known-only", pre)
}

func hdrToken(h *block.Header) string {
	hi := hdrInfoOf(h)
	return fmt.Sprintf("%d:%s:%s:%d:%s:%s:%s", hi.idx, short(hi.hash), short(hi.prev), hi.ts, short160(hi.nc), short(hi.psr), hi.wit)
}

func classifyHdr(err error) string {
	if err == nil {
		return "ok"
	}
	return classify(err)
}

// nodeInvariant checks on the real node what the model's `Inv` says: every header ahead of the
// block tip is linked to its predecessor (hash, index, later timestamp) and signed for the consensus
// address the predecessor designates; with state roots in headers the first header ahead carries the
// local state root.
func nodeInvariant(st *state, c *chainT) string { return nodeInvariantX(st, c, true) }

// nodeInvariantX with full=false checks only what holds even without verification: the header
// recorded for height i has index i and is stored under its own hash.
func nodeInvariantX(st *state, c *chainT, full bool) string {
	bc := c.bc
	bh, hh := bc.BlockHeight(), bc.HeaderHeight()
	if hh < bh {
		return fmt.Sprintf("header height %d below block height %d", hh, bh)
	}
	prev, err := bc.GetHeader(bc.GetHeaderHash(bh))
	if err != nil {
		return "tip header unreadable"
	}
	for i := bh + 1; i <= hh; i++ {
		h, err := bc.GetHeader(bc.GetHeaderHash(i))
		if err != nil {
			return fmt.Sprintf("header %d unreadable: %v", i, err)
		}
		cp := mkBlock(fieldsOf(h), nil) // fresh copy: no cached hash
		switch {
		case cp.Index != i:
			return fmt.Sprintf("header at %d has index %d", i, cp.Index)
		case cp.Hash() != bc.GetHeaderHash(i):
			return fmt.Sprintf("header %d stored under a hash that is not its own", i)
		case !full:
		case cp.PrevHash != prev.Hash():
			return fmt.Sprintf("header %d does not name header %d as previous", i, i-1)
		case cp.Timestamp <= prev.Timestamp:
			return fmt.Sprintf("header %d is not later than header %d", i, i-1)
		case !strictSigned(st.v, prev.NextConsensus, &cp.Header):
			return fmt.Sprintf("header %d is not signed for the consensus address of header %d", i, i-1)
		}
		if full && i == bh+1 && st.spec.k.sr && cp.PrevStateRoot != bc.GetStateModule().CurrentLocalStateRoot() {
			return fmt.Sprintf("header %d carries PrevStateRoot %s, local root is %s", i, short(cp.PrevStateRoot), short(bc.GetStateModule().CurrentLocalStateRoot()))
		}
		prev = &cp.Header
	}
	return ""
}

func runHeadersCase(o *hx.Out, k int, st *state, cd *cand, r *prng.R, c *chainT, known []hdrInfo, fail func(key, format string, a ...any)) {
	spec := st.spec
	// sig facts: each header against the header it names as previous (known or earlier in the list)
	byHash := map[util.Uint256]hdrInfo{}
	for _, h := range known {
		byHash[h.hash] = h
	}
	var toks []string
	var hs []*block.Header
	for _, h := range cd.hdrs {
		hi := hdrInfoOf(h)
		if p, ok := byHash[hi.prev]; ok {
			cp := mkBlock(fieldsOf(h), nil)
			o.Line(fmt.Sprintf("sig %s %s %s %d", hi.wit, short(hi.hash), short160(p.nc), b01(strictSigned(st.v, p.nc, &cp.Header))), "ok")
		}
		if _, ok := byHash[hi.hash]; !ok {
			byHash[hi.hash] = hi
		}
		toks = append(toks, hdrToken(h))
		nb := mkBlock(fieldsOf(h), nil)
		if r.Chance(3, 4) { // through the wire, as a peer sends them
			w, err := wire(nb, nb.StateRootEnabled)
			if err != nil {
				panic(err)
			}
			nb = w
		}
		hs = append(hs, &nb.Header)
	}
	line := "addheaders -"
	if len(toks) > 0 {
		line = "addheaders " + strings.Join(toks, ";")
	}
	before := c.snapshot()
	var err error
	res := hx.Safe(func() string {
		err = c.bc.AddHeaders(hs...)
		return classifyHdr(err)
	})
	after := c.snapshot()
	add, chg, rem := dbDiff(before.db, after.db)
	var obs string
	if res == "ok" {
		obs = fmt.Sprintf("ok bh=%d hh=%d top=%s", after.bh, after.hh, short(after.htip))
	} else {
		db := "same"
		if len(add)+len(chg)+len(rem) > 0 || after.hh != before.hh || after.htip != before.htip {
			db = "changed"
		}
		obs = fmt.Sprintf("%s bh=%d hh=%d db=%s", res, after.bh, after.hh, db)
	}
	o.Line(line, obs)
	o.Count("hdrs:" + strings.SplitN(res, "(", 2)[0])
	o.Count(fmt.Sprintf("hdrs:recorded=%d", after.hh-before.hh))

	// oracle: ledger and mempool never change; a failed call records nothing; whatever is recorded is valid
	if after.bh != before.bh || after.tip != before.tip || after.root != before.root || !sameHashes(before.pool, after.pool) {
		fail("addheaders-changed-ledger", "AddHeaders changed block height / tip / root / mempool (%v)", err)
	}
	if res != "ok" && (len(add)+len(chg)+len(rem) > 0 || after.hh != before.hh) {
		fail("addheaders-error-left-trace", "AddHeaders failed (%v) but the database changed: +%v ~%v -%v, header height %d->%d", err, add, chg, rem, before.hh, after.hh)
	}
	if res == "ok" {
		n := int(after.hh - before.hh)
		if len(rem) != 0 || (n == 0 && len(add)+len(chg) != 0) || (n > 0 && (len(add) != n || len(chg) != 1)) {
			fail("addheaders-unexpected-db-change", "recorded %d headers, database: +%v ~%v -%v", n, add, chg, rem)
		}
	}
	if why := nodeInvariantX(st, c, !spec.k.skip); why != "" {
		fail("node-invariant-broken", "after AddHeaders (%s): %s", res, why)
	}
}

var _ = prng.New
