// Transactions built to fail exactly one or two conjuncts of the stand-alone verification
// (verifyAndPoolTx), plus valid controls at the boundaries. Each is verified on its own with VerifyTx
// (group "txverify": real error class vs the model's prediction) and a subset is appended to the valid
// block (group "txlist": the class AddBlock wraps into "transaction … failed to verify").
package main

import (
	"bytes"
	"fmt"

	"github.com/nspcc-dev/neo-go/pkg/core/transaction"
	"github.com/nspcc-dev/neo-go/pkg/util"
	"github.com/nspcc-dev/neo-go/pkg/vm/opcode"

	"verif/harness/internal/hx"
	"verif/harness/internal/prng"
)

type txVar struct {
	name    string
	tx      *transaction.Transaction
	exp     string // class VerifyTx must answer by construction ("" = no expectation: random combination)
	expIn   string // class inside a block if different from exp
	inBlock bool   // also appended to the valid block
}

const maxTxSize = 102400

func (st *state) buildVariants(r *prng.R) {
	h := st.h
	vub := h + 50
	nn := st.nonceNext
	ce := transaction.CalledByEntry
	sg := func(a *acct) xSigner { return xSigner{acc: a, scope: ce} }
	base := func(a *acct) xSpec {
		return xSpec{signers: []xSigner{sg(a)}, to: accX.h, amount: int64(20 + r.Intn(50)), nonce: nn(), vub: vub, sysFee: sysFeeTransfer}
	}
	add := func(name, exp string, inBlock bool, x xSpec) *transaction.Transaction {
		t := st.mkX(x)
		valid := exp == "ok"
		st.label(t, valid, "variant:"+name)
		st.vars = append(st.vars, txVar{name: name, tx: t, exp: exp, inBlock: inBlock})
		return t
	}
	with := func(x xSpec, f func(x *xSpec)) xSpec { f(&x); return x }
	attr := func(t transaction.AttrType, v transaction.AttrValue) transaction.Attribute {
		return transaction.Attribute{Type: t, Value: v}
	}
	flipSig := func(i int) func(t *transaction.Transaction) {
		return func(t *transaction.Transaction) { t.Scripts[i].InvocationScript[2+r.Intn(64)] ^= 1 << uint(r.Intn(8)) }
	}
	wrongKey := func(i int) func(t *transaction.Transaction) {
		return func(t *transaction.Transaction) {
			s := accX.acc.SignHashable(magic, t)
			t.Scripts[i] = transaction.Witness{InvocationScript: append([]byte{byte(opcode.PUSHDATA1), 64}, s...), VerificationScript: accX.acc.Contract.Script}
		}
	}

	add("plain", "ok", false, base(accB))
	// script
	for i, bs := range badScripts {
		bs := bs
		add(fmt.Sprintf("bad-script-%d", i), "invalid-script", i == 1, with(base(accD), func(x *xSpec) { x.script = bs }))
	}
	add("bad-script+expired", "invalid-script", true, with(base(accD), func(x *xSpec) { x.script = badScripts[0]; x.vub = h }))
	// ValidUntilBlock window
	add("vub=h", "expired", false, with(base(accC), func(x *xSpec) { x.vub = h }))
	add("vub=1", "expired", false, with(base(accC), func(x *xSpec) { x.vub = 1 }))
	add("vub=h+1", "ok", false, with(base(accC), func(x *xSpec) { x.vub = h + 1 }))
	add("vub=h+inc", "ok", false, with(base(accC), func(x *xSpec) { x.vub = h + cfgMaxVUBInc }))
	add("vub=h+inc+1", "not-yet-valid", false, with(base(accC), func(x *xSpec) { x.vub = h + cfgMaxVUBInc + 1 }))
	add("expired+low-fee", "expired", true, with(base(accC), func(x *xSpec) { x.vub = h; x.netAdj = -1000000 }))
	add("expired+blocked", "expired", true, with(base(accK), func(x *xSpec) { x.vub = h }))
	add("vub-too-far+blocked", "not-yet-valid", true, with(base(accK), func(x *xSpec) { x.vub = h + cfgMaxVUBInc + 1 }))
	// Policy: blocked signers
	add("blocked-sender", "policy", true, base(accK))
	add("blocked-second-signer", "policy", true, with(base(accA), func(x *xSpec) { x.signers = append(x.signers, sg(accK)) }))
	add("blocked+low-fee", "policy", false, with(base(accK), func(x *xSpec) { x.netAdj = -1000000 }))
	// size: a Reserved attribute (refused later, as an attribute) pads the transaction to the limit
	pad := func(total int) xSpec {
		x := base(accD)
		x.script = append(bytes.Repeat([]byte{byte(opcode.NOP)}, 60000), byte(opcode.RET))
		x.attrs = []transaction.Attribute{attr(0xe0, &transaction.Reserved{Value: []byte{1}})}
		probe := st.mkX(with(x, func(x *xSpec) { x.nonce = 1 }))
		n := total - len(probe.Bytes()) + 1
		// the var-bytes length prefix grows from 1 to 3 bytes
		x.attrs = []transaction.Attribute{attr(0xe0, &transaction.Reserved{Value: bytes.Repeat([]byte{7}, n-2)})}
		return x
	}
	tb := add("size=max+1", "too-big", true, pad(maxTxSize+1))
	te := add("size=max", "invalid-attr", false, pad(maxTxSize))
	if len(tb.Bytes()) != maxTxSize+1 || len(te.Bytes()) != maxTxSize {
		panic(fmt.Sprintf("producer: padded transactions have sizes %d, %d", len(tb.Bytes()), len(te.Bytes())))
	}
	add("size=max+1+blocked", "policy", true, with(pad(maxTxSize+1), func(x *xSpec) { x.signers = append(x.signers, sg(accK)) }))
	add("size=max+1+expired", "expired", false, with(pad(maxTxSize+1), func(x *xSpec) { x.vub = h }))
	add("size=max+1+small-fee", "too-big", false, with(pad(maxTxSize+1), func(x *xSpec) { z := int64(5); x.netAbs = &z }))
	// network fee
	sizeFee := func(x xSpec) int64 { return int64(len(st.mkX(with(x, func(x *xSpec) { x.nonce = 2 })).Bytes())) * st.fpb }
	add("net=size*fpb-1", "small-net-fee", true, with(base(accD), func(x *xSpec) { z := sizeFee(*x) - 1; x.netAbs = &z }))
	add("net=size*fpb", "witness", true, with(base(accD), func(x *xSpec) { z := sizeFee(*x); x.netAbs = &z }))
	add("net=exact-1", "witness", true, with(base(accD), func(x *xSpec) { x.netAdj = -1 }))
	add("net=exact+1", "ok", false, with(base(accD), func(x *xSpec) { x.netAdj = 1 }))
	add("small-net-fee+bad-witness", "small-net-fee", true, with(base(accD), func(x *xSpec) { z := sizeFee(*x) - 1; x.netAbs = &z; x.post = flipSig(0) }))
	na := attr(transaction.NotaryAssistedT, &transaction.NotaryAssisted{NKeys: 2})
	add("notary-attr-fee-1", "small-net-fee", true, with(base(accD), func(x *xSpec) {
		x.attrs = []transaction.Attribute{na}
		z := sizeFee(*x) - 1
		if st.spec.k.multi {
			z += 3 * notaryFeePerKey
		}
		x.netAbs = &z
	}))
	unknown := util.Uint256{0x42, 9, byte(r.Intn(256)), byte(r.Intn(256))}
	cf := func(hs ...util.Uint256) []transaction.Attribute {
		var as []transaction.Attribute
		for _, hh := range hs {
			as = append(as, attr(transaction.ConflictsT, &transaction.Conflicts{Hash: hh}))
		}
		return as
	}
	if st.conflFee > 0 {
		add("conflicts-attr-fee-1", "small-net-fee", true, with(base(accD), func(x *xSpec) {
			x.attrs = cf(unknown)
			z := sizeFee(*x) + st.conflFee - 1
			x.netAbs = &z
		}))
		add("conflicts-attr-fee-two-signers-1", "small-net-fee", false, with(base(accD), func(x *xSpec) {
			x.attrs = cf(unknown)
			x.signers = append(x.signers, sg(accC))
			z := sizeFee(*x) + 2*st.conflFee - 1
			x.netAbs = &z
		}))
	}
	// on-chain records
	// these four were built below the tip: after a FeePerByte raise they underpay (no by-construction expectation then)
	early := func(exp string) string {
		if st.fpb != baseFeePerByte {
			return ""
		}
		return exp
	}
	st.vars = append(st.vars, txVar{name: "on-chain", tx: st.onChain, exp: early("already-exists")})
	oc := cloneTx(st.onChain)
	flipSig(0)(oc)
	st.label(oc, false, "variant:on-chain+bad-witness")
	st.vars = append(st.vars, txVar{name: "on-chain+bad-witness", tx: oc, exp: early("already-exists"), inBlock: true})
	cexp := func(t *transaction.Transaction) string {
		if st.conflictInWindow(t) {
			return "has-conflicts"
		}
		return "ok" // no conflicting transaction of one of its signers is traceable any more
	}
	st.vars = append(st.vars, txVar{name: "conflict-record", tx: st.yConfl, exp: early(cexp(st.yConfl)), inBlock: true})
	st.vars = append(st.vars, txVar{name: "conflict-record-of-another-signer", tx: st.zConfl, exp: early("ok"), inBlock: true})
	st.vars = append(st.vars, txVar{name: "conflict-record-of-second-signer", tx: st.wConfl, exp: early(cexp(st.wConfl)), inBlock: true})
	// witnesses
	add("wrong-key", "witness", false, with(base(accB), func(x *xSpec) { x.post = wrongKey(0) }))
	add("sig-bitflip", "witness", false, with(base(accB), func(x *xSpec) { x.post = flipSig(0) }))
	other := st.mkX(base(accB))
	add("sig-of-other-tx", "witness", true, with(base(accB), func(x *xSpec) {
		x.post = func(t *transaction.Transaction) { t.Scripts[0] = other.Scripts[0] }
	}))
	add("inv-empty", "witness", true, with(base(accB), func(x *xSpec) {
		x.post = func(t *transaction.Transaction) { t.Scripts[0].InvocationScript = nil }
	}))
	add("ver-empty", "witness", true, with(base(accB), func(x *xSpec) {
		x.post = func(t *transaction.Transaction) { t.Scripts[0].VerificationScript = nil }
	}))
	two := func() xSpec { return with(base(accB), func(x *xSpec) { x.signers = append(x.signers, sg(accC)) }) }
	add("two-signers", "ok", true, two())
	add("two-signers-second-bad", "witness", true, with(two(), func(x *xSpec) { x.post = flipSig(1) }))
	add("two-signers-first-bad", "witness", false, with(two(), func(x *xSpec) { x.post = flipSig(0) }))
	add("two-signers-net=exact-1", "witness", true, with(two(), func(x *xSpec) { x.netAdj = -1 }))
	add("two-signers-swapped-witnesses", "witness", false, with(two(), func(x *xSpec) {
		x.post = func(t *transaction.Transaction) { t.Scripts[0], t.Scripts[1] = t.Scripts[1], t.Scripts[0] }
	}))
	// class many-signers: n = 3..6 witnesses (single-signature, multi-signature, non-standard), network fee at the
	// n-witness boundary: the GAS left for witness k is the fee part minus the cost of ALL witnesses before it
	{
		nonStd := xSigner{script: trueScript, scope: ce}
		sixth := xSigner{vals: st.spec.k.committee(), scope: ce}
		if !st.spec.k.multi {
			sixth = sg(accP) // the single chain's committee is its validator set
		}
		sets := [][]xSigner{
			{sg(accB), sg(accC), sg(accD)},
			{sg(accB), sg(accC), {vals: st.v, scope: ce}, sg(accD)},
			{sg(accB), nonStd, sg(accC), sg(accD), sg(accA)},
			{sg(accB), sg(accC), sg(accD), sg(accA), sixth, nonStd},
		}
		for _, set := range sets {
			set := set
			n := len(set)
			var firstNm2 int64
			for _, x := range set[:n-2] {
				firstNm2 += x.witCost()
			}
			mk := func(adj int64) xSpec { return with(base(accB), func(x *xSpec) { x.signers = set; x.netAdj = adj }) }
			add(fmt.Sprintf("signers%d-net=exact", n), "ok", true, mk(0))
			add(fmt.Sprintf("signers%d-net=exact-1", n), "witness", n <= 4, mk(-1))
			add(fmt.Sprintf("signers%d-net=exact-half-first", n), "witness", true, mk(-set[0].witCost()/2))
			add(fmt.Sprintf("signers%d-net=exact-first-n-2+1", n), "witness", n <= 4, mk(-firstNm2+1))
		}
	}
	// attributes
	hp := attr(transaction.HighPriority, nil)
	add("hp-no-committee", "invalid-attr", true, with(base(accB), func(x *xSpec) { x.attrs = []transaction.Attribute{hp} }))
	add("hp-committee", "ok", true, with(base(accB), func(x *xSpec) {
		x.attrs = []transaction.Attribute{hp}
		x.signers = append(x.signers, xSigner{vals: st.spec.k.committee(), scope: ce})
	}))
	add("oracle-response", "invalid-attr", true, with(base(accB), func(x *xSpec) {
		x.attrs = []transaction.Attribute{attr(transaction.OracleResponseT, &transaction.OracleResponse{ID: 1, Code: transaction.Success, Result: []byte{1}})}
	}))
	add("oracle-response-scope-none", "invalid-attr", false, with(base(accB), func(x *xSpec) {
		x.attrs = []transaction.Attribute{attr(transaction.OracleResponseT, &transaction.OracleResponse{ID: 1, Code: transaction.Success, Result: []byte{1}})}
		x.signers[0].scope = transaction.None
	}))
	add("nvb=h", "ok", true, with(base(accB), func(x *xSpec) {
		x.attrs = []transaction.Attribute{attr(transaction.NotValidBeforeT, &transaction.NotValidBefore{Height: h})}
	}))
	add("nvb=h+1", "invalid-attr", true, with(base(accB), func(x *xSpec) {
		x.attrs = []transaction.Attribute{attr(transaction.NotValidBeforeT, &transaction.NotValidBefore{Height: h + 1})}
	}))
	add("conflicts-unknown", "ok", true, with(base(accB), func(x *xSpec) { x.attrs = cf(unknown) }))
	add("conflicts-two-distinct", "ok", false, with(base(accB), func(x *xSpec) { x.attrs = cf(unknown, util.Uint256{3, 1}) }))
	add("conflicts-dup", "invalid-attr", true, with(base(accB), func(x *xSpec) { x.attrs = cf(unknown, unknown) }))
	add("conflicts-names-on-chain-tx", "invalid-attr", false, with(base(accB), func(x *xSpec) { x.attrs = cf(st.onChain.Hash()) }))
	add("conflicts-names-recorded-hash", "ok", false, with(base(accB), func(x *xSpec) { x.attrs = cf(st.yConfl.Hash()) }))
	add("notary-assisted-no-notary-signer", "invalid-attr", true, with(base(accB), func(x *xSpec) { x.attrs = []transaction.Attribute{na} }))
	add("reserved-attr", "invalid-attr", true, with(base(accB), func(x *xSpec) {
		x.attrs = []transaction.Attribute{attr(0xe5, &transaction.Reserved{Value: []byte{1, 2, 3}})}
	}))
	add("bad-witness+invalid-attr", "witness", true, with(base(accB), func(x *xSpec) {
		x.attrs = []transaction.Attribute{hp}
		x.post = flipSig(0)
	}))
	add("low-fee+invalid-attr", "witness", false, with(base(accB), func(x *xSpec) {
		x.attrs = []transaction.Attribute{hp}
		x.netAdj = -1
	}))
	// funds (pool.Add) and the off-chain-only system fee limit
	add("fee-exceeds-balance", "insufficient-funds", false, with(base(accP), func(x *xSpec) { x.sysFee = 40000000 }))
	big := add("sysfee-over-block-limit", "sysfee-limit", st.bal["vals"] > cfgMaxBlockSysFee+10*gas, with(base(accA), func(x *xSpec) {
		x.signers = []xSigner{{vals: st.v, scope: ce}}
		x.sysFee = cfgMaxBlockSysFee + 1
	}))
	st.label(big, true, "variant:sysfee-over-block-limit(the limit is applied to off-chain transactions only)")
	st.vars[len(st.vars)-1].expIn = "ok"
	add("sysfee=block-limit", "ok", false, with(base(accA), func(x *xSpec) {
		x.signers = []xSigner{{vals: st.v, scope: ce}}
		x.sysFee = cfgMaxBlockSysFee
	}))
	add("sysfee-over-block-limit+bad-script", "sysfee-limit", false, with(base(accA), func(x *xSpec) {
		x.signers = []xSigner{{vals: st.v, scope: ce}}
		x.sysFee = cfgMaxBlockSysFee + 1
		x.script = badScripts[0]
	}))
	st.vars[len(st.vars)-1].expIn = "invalid-script"

	// random combinations of defects along independent dimensions (no by-construction expectation:
	// the model's first-failing-check prediction is compared with the node's answer)
	for i := 0; i < 12; i++ {
		who := []*acct{accA, accB, accC, accD}[r.Intn(4)]
		x := base(who)
		nm := ""
		def := func(p, q int, tag string, f func()) {
			if r.Chance(p, q) {
				nm += "+" + tag
				f()
			}
		}
		def(1, 5, "badscript", func() { x.script = badScripts[r.Intn(len(badScripts))] })
		def(1, 4, "vub", func() { x.vub = []uint32{h, h + cfgMaxVUBInc + 1, h - 1}[r.Intn(3)] })
		def(1, 5, "blocked", func() {
			if r.Bool() {
				x.signers = []xSigner{sg(accK)}
			} else {
				x.signers = append(x.signers, sg(accK))
			}
		})
		def(1, 4, "attr", func() {
			switch r.Intn(4) {
			case 0:
				x.attrs = []transaction.Attribute{hp}
			case 1:
				x.attrs = []transaction.Attribute{attr(transaction.NotValidBeforeT, &transaction.NotValidBefore{Height: h + 1 + uint32(r.Intn(3))})}
			case 2:
				x.attrs = cf(unknown, unknown)
			case 3:
				x.attrs = cf(st.onChain.Hash())
			}
		})
		def(1, 4, "fee", func() {
			if r.Bool() {
				x.netAdj = -1 - int64(r.Intn(1000))
			} else {
				z := sizeFee(x) - 1 - int64(r.Intn(5))
				x.netAbs = &z
			}
		})
		def(1, 4, "wit", func() {
			j := r.Intn(len(x.signers))
			if r.Bool() {
				x.post = flipSig(j)
			} else {
				x.post = wrongKey(j)
			}
		})
		if nm == "" {
			nm = "+none"
		}
		t := st.mkX(x)
		st.label(t, nm == "+none", "variant:combo"+nm)
		st.vars = append(st.vars, txVar{name: fmt.Sprintf("combo%d%s", i, nm), tx: t, inBlock: i < 4})
	}
}

func (st *state) varByName(n string) *transaction.Transaction {
	for i := range st.vars {
		if st.vars[i].name == n {
			return st.vars[i].tx
		}
	}
	return nil
}

// runTxVerify: every variant through VerifyTx on the replica, the node's class next to the model's.
func runTxVerify(o *hx.Out, k int, st *state, c *chainT, fail func(key, format string, a ...any)) {
	for i := range st.vars {
		v := &st.vars[i]
		for _, l := range st.recLines([]*transaction.Transaction{v.tx}) {
			o.Line(l, "ok")
		}
		var err error
		res := hx.Safe(func() string {
			err = c.bc.VerifyTx(cloneTx(v.tx))
			if err == nil {
				return "ok"
			}
			return "err:" + classifyTxErrFull(err)
		})
		o.Line("verifytx "+st.txToken(v.tx), res)
		o.Count("verifytx:" + res)
		if v.exp != "" {
			want := "err:" + v.exp
			if v.exp == "ok" {
				want = "ok"
			}
			if res != want {
				fail("tx-class-unexpected", "VerifyTx of variant %q (built to give %s) answers %s: %v", v.name, want, res, err)
			}
		}
	}
}
