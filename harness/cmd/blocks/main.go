// Command blocks: correspondence + oracle stream for C06 (only valid chain extensions are accepted;
// a rejected block changes nothing).
//
// One case = one chain state x one single corruption of the valid next block. The harness prints the
// node state and an independently computed description of the candidate (which conjuncts of the
// property hold for it), the Lean driver maps that through the model of AddBlock/addHeaders/verifyHeader,
// and the observation line carries what the real node did. The property's oracle runs on the real node.
package main

import (
	"encoding/hex"
	"errors"
	"fmt"
	"os"
	"sort"
	"strings"
	"time"

	"github.com/nspcc-dev/neo-go/pkg/core"
	"github.com/nspcc-dev/neo-go/pkg/core/block"
	"github.com/nspcc-dev/neo-go/pkg/core/mempool"
	"github.com/nspcc-dev/neo-go/pkg/core/transaction"
	"github.com/nspcc-dev/neo-go/pkg/util"

	"verif/harness/internal/hx"
	"verif/harness/internal/prng"
)

const slots = 300 // case index = state*slots + corruption index

// quickStates is the hand-picked state list of the quick tier; further states are random.
var quickStates = []stateSpec{
	{k: kind{multi: true, vt: true}, nprep: 2, ahead: 0, ntx: 3, poolMode: 0},
	{k: kind{multi: true, vt: true}, nprep: 1, ahead: 1, ntx: 3, poolMode: 1},
	{k: kind{multi: true, sr: true, vt: true}, nprep: 2, ahead: 0, ntx: 2, poolMode: 2},
	{k: kind{multi: true, sr: true, vt: true}, nprep: 1, ahead: 2, ntx: 3, poolMode: 2},
	{k: kind{multi: false, vt: true}, nprep: 1, ahead: 3, ntx: 1, poolMode: 1},
	{k: kind{multi: false, sr: true, vt: true}, nprep: 3, ahead: 0, ntx: 5, poolMode: 1},
	{k: kind{multi: true, vt: false}, nprep: 1, ahead: 0, ntx: 3, poolMode: 0},
	{k: kind{multi: false, sr: true, vt: false}, nprep: 1, ahead: 1, ntx: 3, poolMode: 2},
	{k: kind{multi: true, sr: true, vt: true}, nprep: 1, ahead: 2, ntx: 1, poolMode: 0, badNextPsr: true},
	{k: kind{multi: false, vt: true, skip: true}, nprep: 1, ahead: 0, ntx: 2, poolMode: 1},
	{k: kind{multi: true, vt: true}, nprep: 1, ahead: 0, ntx: 0, poolMode: 0},
	{k: kind{multi: false, sr: true, vt: true}, nprep: 1, ahead: 3, ntx: 6, poolMode: 2},
	{k: kind{multi: true, sr: true, vt: true, skip: true}, nprep: 1, ahead: 2, ntx: 3, poolMode: 1},
	// a pooled transaction loses its validity by the tip block (control + tx-list candidates only)
	{k: kind{multi: false, vt: true}, nprep: 1, ntx: 2, stale: 1},
	{k: kind{multi: true, vt: true}, nprep: 1, ntx: 2, stale: 2},
	{k: kind{multi: false, sr: true, vt: true}, nprep: 1, ntx: 1, stale: 3},
	{k: kind{multi: true, vt: true}, nprep: 1, ntx: 2, poolMode: 1, stale: 4},
	{k: kind{multi: false, vt: true}, nprep: 1, ntx: 2, stale: 5},
	{k: kind{multi: true, sr: true, vt: true}, nprep: 2, ntx: 2, stale: 6},
	{k: kind{multi: false, vt: true}, nprep: 1, ntx: 2, poolMode: 1, stale: 7},
	// the conflict record of block 2 at the edge of a 2-block traceability window: still counted / forgotten
	{k: kind{multi: false, vt: true}, nprep: 1, ntx: 2, mtb: 2, gap: 1, slim: true},
	{k: kind{multi: true, sr: true, vt: true}, nprep: 1, ntx: 2, mtb: 2, gap: 2, slim: true},
	// SkipBlockVerification, headers ahead, and account A's stored transfer log with room for one more entry:
	// a block with another transaction list is executed and then refused - the log's entry counter was
	// changed in place (failed-store-corrupts-transfer-log, fixed: b358bb1; kept as a regression, tied again)
	{k: kind{multi: true, sr: true, vt: false, skip: true}, nprep: 1, ahead: 2, ntx: 3, slim: true, extraA: 3},
	// VerifyTransactions off and six transactions: [t1..t6,t5,t6] has the Merkle root, hash and signature of [t1..t6]
	{k: kind{multi: true, vt: false}, nprep: 1, ntx: 6, slim: true},
	// several conflicting transactions for one hash in different blocks around the edge of the window:
	// B1 (by A) in block 2 is out of the 2-block window at height 4, B2 (by A) in block 3 is inside (seeded C06-m6)
	{k: kind{multi: false, vt: true}, nprep: 1, ntx: 2, mtb: 2, gap: 2, slim: true, conf: []confAdd{{1, "A"}}},
	// the later one is by another account: the stub is refreshed but no transaction of A's is in the window
	{k: kind{multi: true, vt: true}, nprep: 1, ntx: 2, mtb: 2, gap: 2, slim: true, conf: []confAdd{{1, "B"}}},
	{k: kind{multi: false, sr: true, vt: true}, nprep: 1, ntx: 2, mtb: 3, gap: 4, slim: true, conf: []confAdd{{1, "B"}, {2, "A"}, {3, "B"}}},
	{k: kind{multi: true, vt: true}, nprep: 1, ntx: 2, mtb: 3, gap: 4, slim: true, conf: []confAdd{{1, "A"}, {3, "B"}, {4, "B"}}},
	// controls for the post-block mempool filter: the pooled transaction must survive the tip block (another
	// attribute's fee raised; FeePerByte raised and already covered) / is dropped when one unit short
	{k: kind{multi: false, vt: true}, nprep: 1, ntx: 2, stale: 8},
	{k: kind{multi: true, vt: true}, nprep: 1, ntx: 2, stale: 9},
	{k: kind{multi: false, vt: true}, nprep: 1, ntx: 2, stale: 10},
}

func randomSpec(r *prng.R) stateSpec {
	s := stateSpec{k: kind{multi: r.Chance(2, 3), sr: r.Bool(), vt: r.Chance(4, 5), skip: r.Chance(1, 12)}}
	s.nprep = 1 + r.Intn(3)
	s.ahead = r.Weighted([]int{4, 3, 2, 2})
	s.ntx = r.Weighted([]int{1, 2, 2, 4, 2, 3, 2, 1})
	s.poolMode = r.Intn(3)
	if s.k.sr && s.ahead >= 2 && r.Chance(1, 6) {
		s.badNextPsr = true
	}
	if r.Chance(1, 4) {
		s.stale = 1 + r.Intn(len(staleNames)-1)
	}
	if r.Chance(1, 5) {
		s.mtb = 2 + r.Intn(3)
		s.gap = r.Intn(6)
		s.slim = true
		for off := 1; off <= s.gap; off++ {
			if r.Chance(1, 2) {
				s.conf = append(s.conf, confAdd{off, []string{"A", "B"}[r.Intn(2)]})
			}
		}
	}
	return s
}

// ---- classification of the real outcome -------------------------------------------------------

func classify(err error) string {
	if err == nil {
		return "ok"
	}
	m := err.Error()
	switch {
	case strings.HasPrefix(m, "transaction ") && strings.Contains(m, " failed to verify: "):
		return "err:tx" // wraps the inner reason, classify first
	case errors.Is(err, core.ErrInvalidBlockIndex):
		return "err:index-future"
	case strings.Contains(m, "is already on chain") && errors.Is(err, core.ErrAlreadyExists):
		return "err:index-old"
	case errors.Is(err, core.ErrHdrStateRootSetting):
		return "err:srflag"
	case strings.Contains(m, "was not found"):
		return "err:prev-unknown"
	case errors.Is(err, core.ErrHdrInvalidStateRoot):
		return "err:stateroot"
	case errors.Is(err, core.ErrHdrHashMismatch):
		return "err:prevhash"
	case errors.Is(err, core.ErrHdrIndexMismatch):
		return "err:hdr-index"
	case errors.Is(err, core.ErrHdrInvalidTimestamp):
		return "err:timestamp"
	case strings.HasPrefix(m, "invalid block: hash mismatch"):
		return "err:hash-mismatch"
	case strings.Contains(m, "MerkleRoot mismatch"):
		return "err:merkle"
	case strings.HasPrefix(m, "invalid block: duplicate transaction"):
		return "err:dup"
	case strings.Contains(m, "PrevStateRoot mismatch"), strings.Contains(m, "onPersist failed"), strings.Contains(m, "postPersist failed"),
		strings.Contains(m, "failed to persist"), strings.Contains(m, "MPT"), strings.Contains(m, "failed to store"):
		return "err:store"
	case errors.Is(err, core.ErrWitnessHashMismatch), errors.Is(err, core.ErrInvalidSignature), errors.Is(err, core.ErrVerificationFailed),
		errors.Is(err, core.ErrInvalidInvocationScript), errors.Is(err, core.ErrInvalidVerificationScript),
		errors.Is(err, core.ErrUnknownVerificationContract), errors.Is(err, core.ErrNativeContractWitness),
		errors.Is(err, core.ErrInvalidVerificationContract):
		return "err:witness"
	}
	return "err:other(" + strings.ReplaceAll(m, " ", "_") + ")"
}

// classifyTxErr names the reason VerifyTx refuses a transaction.
func classifyTxErr(err error) string {
	switch {
	case errors.Is(err, core.ErrTxSmallNetworkFee):
		return "small-network-fee"
	case errors.Is(err, core.ErrPolicy):
		return "policy"
	case errors.Is(err, core.ErrInsufficientFunds), errors.Is(err, core.ErrMemPoolConflict):
		return "insufficient-funds"
	case errors.Is(err, core.ErrTxExpired):
		return "expired"
	case errors.Is(err, core.ErrHasConflicts):
		return "has-conflicts"
	case errors.Is(err, core.ErrAlreadyExists):
		return "already-exists"
	case errors.Is(err, core.ErrInvalidAttribute):
		return "invalid-attribute"
	}
	return "other"
}

// ---- the independently computed description of a candidate ---------------------------------------

type txDesc struct {
	id, wid, sender string
	fee, net        int64
	valid           bool
	why             string
	confl           []string
	confH           []util.Uint256
	h               util.Uint256
	tok             string // the facts the model's stand-alone verification decides on
	raw             *transaction.Transaction
}

func (st *state) describeTx(t *transaction.Transaction) txDesc {
	d := txDesc{id: short(t.Hash()), h: t.Hash(), wid: witAll(t), fee: t.SystemFee + t.NetworkFee, net: t.NetworkFee, tok: st.txToken(t), raw: t}
	d.sender = "?"
	if len(t.Signers) > 0 {
		if n, ok := st.names[t.Signers[0].Account]; ok {
			d.sender = n
		}
	}
	if l, ok := st.labels[txKey(t)]; ok {
		d.valid, d.why = l.valid, l.why
	} else {
		d.valid, d.why = false, "unknown-object" // not a transaction the harness signed in this form
	}
	for _, a := range t.GetAttributes(transaction.ConflictsT) {
		h := a.Value.(*transaction.Conflicts).Hash
		d.confl = append(d.confl, short(h))
		d.confH = append(d.confH, h)
	}
	return d
}

func (d txDesc) token() string { return d.tok }

func b01(x bool) int {
	if x {
		return 1
	}
	return 0
}

type vector struct {
	idxRel   int // -1 older, 0 next, +1 future (vs block height+1)
	srFlagOK bool
	prev     *hdrInfo // header the candidate names as previous, if known to the node
	signed   bool     // strictSigned against prev.nc (false if prev unknown)
	merkleOK bool
	cmroot   util.Uint256 // Merkle root computed by the harness over the received tx list
	txs      []txDesc
	newRoot  util.Uint256 // state root this block produces, when the harness knows it (else zero)
	storeOK  bool         // execution of the block (storeBlock's persist scripts) can succeed
}

func (st *state) lookup(known []hdrInfo, h util.Uint256) *hdrInfo {
	for i := range known {
		if known[i].hash == h {
			return &known[i]
		}
	}
	return nil
}

// sameTxObjects: same hashes in the same order (withWit: and the same witnesses).
func sameTxObjects(a, b []*transaction.Transaction, withWit bool) bool {
	if len(a) != len(b) {
		return false
	}
	for i := range a {
		if a[i].Hash() != b[i].Hash() || withWit && txKey(a[i]) != txKey(b[i]) {
			return false
		}
	}
	return true
}

// rootOnClean applies b to a fresh tip-only replica of the same kind and returns the resulting root.
func (st *state) rootOnClean(b *block.Block) (util.Uint256, error) {
	sp := st.spec
	sp.ahead, sp.poolMode = 0, 0
	s2 := *st
	s2.spec = sp
	s2.pool = nil
	c := s2.replica()
	defer c.close()
	if err := c.bc.AddBlock(mkBlock(fieldsOf(&b.Header), b.Transactions)); err != nil {
		return util.Uint256{}, err
	}
	return c.bc.GetStateModule().CurrentLocalStateRoot(), nil
}

func (st *state) vectorOf(known []hdrInfo, b *block.Block) vector {
	// (GAS.OnPersist pays validators[PrimaryIndex], only when the block has transactions: decided by the
	// model from prim= and nvals=)
	v := vector{storeOK: true}
	switch {
	case b.Index < st.h+1:
		v.idxRel = -1
	case b.Index > st.h+1:
		v.idxRel = 1
	}
	v.srFlagOK = b.StateRootEnabled == st.spec.k.sr
	v.prev = st.lookup(known, b.PrevHash)
	if v.prev != nil {
		v.signed = strictSigned(st.v, v.prev.nc, &b.Header)
	}
	v.cmroot = merkleOf(b.Transactions)
	v.merkleOK = v.cmroot == b.MerkleRoot
	// GAS.OnPersist burns the fees of every transaction of the block from its sender, in order;
	// storeBlock fails if one of them cannot pay (only reachable when the tx loop does not stop the block).
	spent := map[string]int64{}
	for _, t := range b.Transactions {
		d := st.describeTx(t)
		v.txs = append(v.txs, d)
		spent[d.sender] += d.fee
		if spent[d.sender] > st.bal[d.sender] {
			v.storeOK = false
		}
	}
	return v
}

// ---- the harness' own reading of the property's conjuncts (for the oracle) ------------------------------

// mutuallyCompatible: no duplicates, no transaction naming another one of the block in a Conflicts
// attribute, and every sender can pay the fees of all of its transactions in the block.
func (st *state) mutuallyCompatible(txs []txDesc) (bool, string) {
	seen := map[string]bool{}
	spent := map[string]int64{}
	for _, t := range txs {
		if seen[t.id] {
			return false, "duplicate"
		}
		seen[t.id] = true
	}
	for _, t := range txs {
		for _, c := range t.confl {
			if seen[c] {
				return false, "in-block-conflict"
			}
		}
		spent[t.sender] += t.fee
		if spent[t.sender] > st.bal[t.sender] {
			return false, "fees-exceed-balance"
		}
	}
	return true, ""
}

var tCorr, tReplica time.Duration

func main() {
	defer func() {
		if os.Getenv("VERIF_DEBUG") == "time" {
			fmt.Fprintf(os.Stderr, "corruptions: %v replica: %v\n", tCorr, tReplica)
		}
	}()
	f := hx.ParseFlags()
	o := hx.NewOut(f.Out)
	defer o.Close()
	nStates := f.N(len(quickStates), 150)
	maxK := nStates * slots
	if f.Cases > 0 {
		maxK = f.Cases
		nStates = (maxK + slots - 1) / slots
	}
	states := map[int]*state{}
	getState := func(si int) *state {
		if st, ok := states[si]; ok {
			return st
		}
		var spec stateSpec
		sr := prng.ForCase(f.Seed^0x5eed5eed, si)
		if si < len(quickStates) {
			spec = quickStates[si]
		} else {
			spec = randomSpec(sr)
		}
		st := safeBuild(o, si, spec, sr)
		if st == nil {
			states[si] = nil
			return nil
		}
		o.Count(fmt.Sprintf("state:ahead=%d", spec.ahead))
		o.Count(fmt.Sprintf("state:pool=%d", spec.poolMode))
		o.Count(fmt.Sprintf("state:%s", spec.k))
		states[si] = st
		return st
	}
	done := map[int]bool{}
	// corpus: the replays of the four defects this check found (fixed since), run first
	for _, cp := range corpus {
		if cp.state >= nStates || f.Only >= 0 && f.Only/slots != cp.state {
			continue
		}
		st := getState(cp.state)
		if st == nil {
			continue
		}
		base := cp.state * slots
		names := corruptionsFor(st, prng.ForCase(f.Seed, base), 1<<30)
		for ci := range names {
			if names[ci].name != cp.name {
				continue
			}
			k := base + ci
			if k < maxK && f.Want(k) && !done[k] {
				r := prng.ForCase(f.Seed, k)
				cs := corruptions(st, r)
				runCase(o, k, st, &cs[ci], r)
				o.Count("corpus")
				done[k] = true
			}
		}
	}
	for si := 0; si < nStates; si++ {
		if f.Only >= 0 && f.Only/slots != si {
			continue
		}
		st := getState(si)
		if st == nil {
			continue
		}
		for ci := 0; ci < slots; ci++ {
			k := si*slots + ci
			if k >= maxK || !f.Want(k) || done[k] {
				continue
			}
			r := prng.ForCase(f.Seed, k)
			t0 := time.Now()
			cs := corruptionsFor(st, r, ci)
			tCorr += time.Since(t0)
			if ci >= len(cs) {
				break
			}
			if (st.spec.stale > 0 || st.spec.slim) && cs[ci].group != "control" && cs[ci].group != "txlist" && cs[ci].group != "txverify" {
				continue // stale-pool states: the header/witness/encoding sweeps add nothing new
			}
			runCase(o, k, st, &cs[ci], r)
		}
		if si >= len(quickStates) {
			delete(states, si)
		}
	}
}

// corpus names (state of quickStates, corruption) pairs that once were accepted by the real node.
var corpus = []struct {
	state int
	name  string
}{
	{1, "inv-bitflip-sig"},                            // header known ahead, corrupted block witness (d99d969)
	{1, "witness-empty"},                              //
	{1, "tx-witness-bitflip-first"},                   // tx pooled, block copy with corrupted witness (ec0103c)
	{0, "var:signers3-net=exact-half-first+resigned"}, // 3 signers, fee short by half the first witness' cost (seeded C06-m8: 2875800 vs 3367560)
	{1, "copy:hdr-ver-replaced"},                      // header known ahead, copy with another verification script (seeded C06-m7)
	{1, "copy:tx-ver-replaced"},                       // tx pooled, copy with another verification script (seeded C06-m7)
	{0, "inblock-conflict-after-higher-fee+resigned"}, // [t1,t2], t2.Conflicts={t1} (d0c3ec8)
	{0, "inblock-conflict-before-lower-fee+resigned"},
	{6, "dup-last"},                 // [a,b,c,c] with the hash of [a,b,c], VerifyTransactions off (ab64b57)
	{24, "add-conflicting-with-on-chain+resigned"}, // two conflicting txs for one hash, the older one out of the window (seeded C06-m6)
	{23, "dup-last-pair(same-root)"}, // [t1..t6,t5,t6] with the hash and signature of [t1..t6], VerifyTransactions off
	{7, "tx-witness-bitflip-first"}, // VerifyTransactions off: accepted tx stayed in the mempool (a280843)
	{12, "dup-last"},                // storeBlock fails after AddMPTBatch (next header's PrevStateRoot): trie damaged
	{12, "add-valid-tx"},
	// a pooled transaction that lost its validity by the tip block and is carried by the next block
	{13, "add-stale-pooled+resigned"}, // FeePerByte raised a little: the witness cost was not re-checked (fixed: 4f45775)
	{14, "add-stale-pooled+resigned"}, // FeePerByte raised a lot: must have been evicted (seeded loadPolicy mutation)
	{15, "add-stale-pooled+resigned"}, // attribute fee raised (fixed: 397b691)
	{16, "add-stale-pooled+resigned"}, // sender blocked by Policy.blockAccount (fixed: 397b691)
}

// safeBuild turns a refusal of the valid chain itself (prefix, valid next block, valid headers, a
// transaction the harness pooled) into an oracle failure instead of a crash of the harness.
func safeBuild(o *hx.Out, si int, spec stateSpec, r *prng.R) (st *state) {
	defer func() {
		if e := recover(); e != nil {
			msg := fmt.Sprint(e)
			if strings.HasPrefix(msg, "reference replica refused") || strings.HasPrefix(msg, "replica:") || strings.HasPrefix(msg, "producer:") {
				o.Case(si * slots)
				o.Fail("valid-chain-refused", si*slots, "state{%s}: %s", spec, msg)
				st = nil
				return
			}
			panic(e)
		}
	}()
	return buildState(spec, r)
}

func hdrLine(h hdrInfo) string {
	return fmt.Sprintf("hdr %d %s %s %d %s %s %s", h.idx, short(h.hash), short(h.prev), h.ts, short160(h.nc), short(h.psr), h.wit)
}

func (st *state) blockLine(op string, known []hdrInfo, b *block.Block, v vector) (sigFact string, line string) {
	hi := hdrInfoOf(&b.Header)
	if v.prev != nil {
		sigFact = fmt.Sprintf("sig %s %s %s %d", hi.wit, short(hi.hash), short160(v.prev.nc), b01(v.signed))
	}
	var toks []string
	for _, t := range v.txs {
		toks = append(toks, t.token())
	}
	tx := "-"
	if len(toks) > 0 {
		tx = strings.Join(toks, ",")
	}
	// the full transaction hashes (big-endian bytes): the model computes the Merkle root itself (double SHA-256)
	var hs []string
	for _, t := range b.Transactions {
		hs = append(hs, hex.EncodeToString(t.Hash().BytesBE()))
	}
	txh := "-"
	if len(hs) > 0 {
		txh = strings.Join(hs, ",")
	}
	line = fmt.Sprintf("%s idx=%d sre=%d hash=%s prev=%s ts=%d nc=%s psr=%s wit=%s prim=%d mroot=%s newroot=%s txs=%s txh=%s",
		op, hi.idx, b01(b.StateRootEnabled), short(hi.hash), short(hi.prev), hi.ts, short160(hi.nc), short(hi.psr), hi.wit, b.PrimaryIndex,
		short(b.MerkleRoot), short(v.newRoot), tx, txh)
	return
}

func poolIDs(p []util.Uint256) string {
	if len(p) == 0 {
		return "-"
	}
	s := make([]string, len(p))
	for i, h := range p {
		s[i] = short(h)
	}
	sort.Strings(s)
	return strings.Join(s, ",")
}

// attempt submits b to the node and prints the op and observation lines; returns the class and snapshots.
func attempt(o *hx.Out, k int, st *state, c *chainT, known []hdrInfo, b *block.Block, v vector, tag string, untied bool) (string, *snap, *snap, error) {
	before := c.snapshot()
	sigFact, line := st.blockLine("addblock", known, b, v)
	if sigFact != "" {
		o.Line(sigFact, "ok")
	}
	if !untied {
		for _, l := range st.recLines(b.Transactions) {
			o.Line(l, "ok")
		}
	}
	var err error
	res := hx.Safe(func() string {
		err = c.bc.AddBlock(b)
		r := classify(err)
		if r == "err:tx" {
			// which transaction, and which check of verifyAndPoolTx / the scratch pool
			at := -1
			for i, t := range b.Transactions {
				if strings.HasPrefix(err.Error(), "transaction "+t.Hash().StringLE()+" ") {
					at = i
					break
				}
			}
			r = fmt.Sprintf("err:tx/%s@%d", classifyTxErrFull(err), at)
		}
		return r
	})
	after := c.snapshot()
	if os.Getenv("VERIF_DEBUG") != "" {
		fmt.Fprintf(os.Stderr, "case %d %s: %s: %v\n", k, tag, res, err)
	}
	var obs string
	if res == "ok" {
		stored := "?"
		if h, e := c.bc.GetHeader(b.Hash()); e == nil {
			stored = short(h.Hash()) + "/" + witID(&h.Script)
		}
		stale := 0 // block transactions still in the mempool
		for _, t := range b.Transactions {
			for _, ph := range after.pool {
				if ph == t.Hash() {
					stale++
				}
			}
		}
		obs = fmt.Sprintf("ok bh=%d hh=%d stored=%s stale=%d pool=%s", after.bh, after.hh, stored, stale, poolIDs(after.pool))
	} else {
		ledger, pool, db := "same", "same", "same"
		if after.bh != before.bh || after.tip != before.tip || after.root != before.root {
			ledger = "changed"
		}
		if !sameHashes(before.pool, after.pool) {
			pool = "changed"
		}
		add, chg, rem := dbDiff(before.db, after.db)
		if len(add)+len(chg)+len(rem) > 0 {
			db = "changed"
			if len(add) == 1 && len(chg) == 1 && len(rem) == 0 && strings.HasSuffix(add[0], b.Hash().StringBE()) &&
				after.hh == before.hh+1 && after.htip == b.Hash() {
				if h, e := c.bc.GetHeader(b.Hash()); e == nil && witID(&h.Script) == witID(&b.Script) && h.Index == b.Index {
					db = "hdr"
				}
			}
		} else if after.hh != before.hh || after.htip != before.htip {
			db = "changed"
		}
		obs = fmt.Sprintf("%s bh=%d hh=%d ledger=%s pool=%s db=%s", res, after.bh, after.hh, ledger, pool, db)
	}
	if untied {
		// The model treats a failed storeBlock as traceless; the real node's in-memory trie is not
		// (finding failed-store-corrupts-trie), so what it answers next is not predicted, only judged.
		o.Line("note follow-up-after-failed-execution-not-tied", "ok")
		o.Count("untied-follow-up")
	} else {
		o.Line(line, obs)
	}
	o.Count(tag + ":" + strings.SplitN(strings.SplitN(res, "(", 2)[0], "@", 2)[0])
	return res, before, after, err
}

func runCase(o *hx.Out, k int, st *state, cd *cand, r *prng.R) {
	o.Case(k)
	spec := st.spec
	fail := func(key, format string, a ...any) {
		o.Fail(key, k, "state{%s} corruption{%s/%s} %s", spec, cd.group, cd.name, fmt.Sprintf(format, a...))
	}
	t0 := time.Now()
	c := st.replica()
	tReplica += time.Since(t0)
	defer c.close()
	known := st.knownHeaders()
	tipInfo := known[st.h]

	// state lines
	o.Line(fmt.Sprintf("cfg sr=%d vt=%d skip=%d", b01(spec.k.sr), b01(spec.k.vt), b01(spec.k.skip)), "ok")
	for _, h := range known {
		o.Line(hdrLine(h), "ok")
	}
	o.Line(fmt.Sprintf("node bh=%d root=%s", st.h, short(st.roots[st.h])), "ok")
	o.Line(st.chainLine(), "ok")
	var bl []string
	for _, n := range []string{"A", "B", "C", "D", "poor", "outsider", "stale", "K", "committee", "vals"} {
		bl = append(bl, fmt.Sprintf("%s=%d", n, st.bal[n]))
	}
	o.Line("bal "+strings.Join(bl, " "), "ok")
	s0 := c.snapshot()
	// the pooled transactions with the facts the post-block filter (IsTxStillRelevant) reads
	var pt []string
	var pooled []*transaction.Transaction
	for _, t := range c.bc.GetMemPool().GetVerifiedTransactions() {
		pt = append(pt, st.txToken(t))
		pooled = append(pooled, t)
	}
	sort.Strings(pt)
	if len(pt) == 0 {
		pt = []string{"-"}
	}
	for _, l := range st.recLines(pooled) {
		o.Line(l, "ok")
	}
	o.Line("pool "+strings.Join(pt, ","), "ok")
	if st.stale != nil && !spec.k.skip {
		// did the transaction pooled one block below the tip survive the tip block (RemoveStale / IsTxStillRelevant)?
		// conf: the tip block carries a transaction that names it in a Conflicts attribute (by construction)
		obs := "dropped"
		for _, ph := range s0.pool {
			if ph == st.stale.Hash() {
				obs = "kept"
			}
		}
		o.Line(fmt.Sprintf("relevant conf=%d %s", b01(spec.stale == 7), st.txToken(st.stale)), obs)
		o.Count("relevant:" + staleNames[spec.stale] + ":" + obs)
	}
	if s0.bh != st.h || s0.root != st.roots[st.h] || s0.hh != st.h+uint32(spec.ahead) {
		panic("replica is not in the described state")
	}

	o.Count("group:" + cd.group)
	if strings.HasPrefix(cd.name, "copy:") {
		o.Count("class:copy-differs")
	}
	o.Count("signed:" + cd.signed)
	o.Seen(fmt.Sprintf("%s|%s", spec, cd.name))
	if k%slots < 2 && k/slots < 2 {
		o.Sample(fmt.Sprintf("state{%s} corruption{%s}", spec, cd.name))
	}

	if cd.group == "headers" {
		runHeadersCase(o, k, st, cd, r, c, known, fail)
		return
	}
	if cd.group == "txverify" {
		runTxVerify(o, k, st, c, fail)
		return
	}
	recordedOther := false   // a header with a hash other than the valid block's was recorded
	failedAfterExec := false // the first attempt executed another transaction list and failed in storeBlock afterwards
	if cd.decErr {
		o.Line("undecodable", "ok")
		o.Count("undecodable")
	} else {
		b := cd.blk
		direct := r.Chance(1, 4) && cd.group != "encoding"
		if !direct {
			nb, err := wire(b, b.StateRootEnabled)
			if err != nil {
				panic(fmt.Sprintf("candidate %s does not survive the wire: %v", cd.name, err))
			}
			b = nb
			o.Count("via:wire")
		} else {
			o.Count("via:struct")
		}
		v := st.vectorOf(known, b)
		headerKnown := b.Index <= st.h+uint32(spec.ahead) // else-branch of AddBlock
		sameList := sameTxObjects(b.Transactions, st.next.Transactions, false)
		identical := sameTxObjects(b.Transactions, st.next.Transactions, true) && witID(&b.Script) == witID(&st.next.Script)
		switch {
		case sameList:
			v.newRoot = st.roots[st.h+1]
		case spec.k.sr && spec.ahead >= 2 && b.Hash() == st.next.Hash():
			// only then can a different tx list meet the next-header check of storeBlock
			if rt, err := st.rootOnClean(b); err == nil {
				v.newRoot = rt
			}
		}
		res, before, after, err := attempt(o, k, st, c, known, b, v, "first", false)
		failedAfterExec = err != nil && strings.Contains(err.Error(), "PrevStateRoot mismatch") && !sameList

		// ---- the property's oracle on the real node ----
		if res == "ok" {
			o.Count("accepted")
			if !spec.k.skip {
				conj := map[string]bool{
					"next-index":               b.Index == st.h+1,
					"prev-hash":                b.PrevHash == tipInfo.hash,
					"later-timestamp":          b.Timestamp > tipInfo.ts,
					"merkle-root":              v.merkleOK,
					"signed-by-next-consensus": strictSigned(st.v, tipInfo.nc, &b.Header),
					"prev-state-root":          !spec.k.sr || b.PrevStateRoot == st.roots[st.h],
					"stateroot-flag":           v.srFlagOK,
				}
				names := make([]string, 0, len(conj))
				for n := range conj {
					names = append(names, n)
				}
				sort.Strings(names)
				for _, n := range names {
					if conj[n] {
						continue
					}
					key := "accepted-invalid:" + n
					if n == "signed-by-next-consensus" && headerKnown {
						key = "known-header-corrupted-witness"
					}
					fail(key, "accepted although conjunct %q is false; stored witness %s (valid block's witness %s)", n, witID(&b.Script), witID(&st.next.Script))
				}
				// repeated transactions are refused whatever VerifyTransactions says
				if ok, why := st.mutuallyCompatible(v.txs); !ok && why == "duplicate" && !spec.k.vt {
					fail("accepted-incompatible:duplicate", "accepted with a repeated transaction (VerifyTransactions off)")
				}
				if spec.k.vt {
					pooled := map[util.Uint256]bool{}
					for _, h := range before.pool {
						pooled[h] = true
					}
					for _, t := range v.txs {
						if !t.valid {
							key := "accepted-invalid:tx"
							if pooled[t.h] {
								key = "pooled-tx-witness-not-checked"
								if st.stale != nil && t.h == st.stale.Hash() && t.wid == witID(&st.stale.Scripts[0]) {
									// the very object that is pooled: it lost its validity while pooled and was not evicted
									key = "stale-pooled-tx-accepted:" + staleNames[spec.stale]
								}
							}
							fail(key, "accepted with transaction %s that is not individually valid (%s)", t.id, t.why)
						}
					}
					if ok, why := st.mutuallyCompatible(v.txs); !ok {
						key := "accepted-incompatible:" + why
						if why == "in-block-conflict" {
							key = "inblock-conflict-accepted"
						}
						fail(key, "accepted with mutually incompatible transactions (%s)", why)
					}
				}
			}
			// every transaction of an accepted block must be retrievable afterwards
			for _, t := range b.Transactions {
				if _, _, e := c.bc.GetTransaction(t.Hash()); e != nil {
					if !spec.k.vt || spec.k.skip {
						o.Count("accepted-unverified:tx-record-lost") // transactions are not verified by configuration
						break
					}
					key := "accepted-tx-record-lost"
					if ok, why := st.mutuallyCompatible(v.txs); !ok && why == "in-block-conflict" {
						key = "inblock-conflict-accepted" // the later tx's conflict stub overwrote the earlier tx's record
					}
					fail(key, "transaction %s of the accepted block cannot be read back: %v", short(t.Hash()), e)
					break
				}
			}
			// block identity is the hash: the same hash must give the same state
			if b.Hash() == st.next.Hash() && !spec.badNextPsr && !spec.k.skip {
				if after.root != st.refRoot {
					key := "same-hash-different-state"
					if ok, why := st.mutuallyCompatible(v.txs); !ok && why == "duplicate" {
						key = "dup-tx-same-hash-accepted"
					}
					fail(key, "accepted block has the valid block's hash %s but the state root is %s, not %s (tx list %d vs %d, VerifyTransactions=%v)",
						short(b.Hash()), short(after.root), short(st.refRoot), len(b.Transactions), len(st.next.Transactions), spec.k.vt)
				} else if identical && sameHashes(after.pool, st.refPool) && after.dbDigest != st.refDigest {
					fail("nondeterministic-db", "same block, same state, different database digest %s vs %s", after.dbDigest, st.refDigest)
				}
				stays := false
				for _, t := range b.Transactions {
					for _, ph := range after.pool {
						if ph == t.Hash() {
							stays = true
							fail("accepted-tx-stays-pooled", "transaction %s is on chain now (block accepted) and still in the mempool: %s (VerifyTransactions=%v)",
								short(ph), poolIDs(after.pool), spec.k.vt)
						}
					}
				}
				if sameList && !stays && !sameHashes(after.pool, st.refPool) {
					fail("pool-differs-after-accept", "mempool after the block: %s, on the reference replica: %s", poolIDs(after.pool), poolIDs(st.refPool))
				}
			}
			if cd.group == "control" && !spec.badNextPsr && after.root != st.refRoot {
				fail("valid-block-root-differs", "root %s vs reference %s", short(after.root), short(st.refRoot))
			}
		} else {
			o.Count("rejected")
			if cd.group == "control" && !spec.badNextPsr {
				fail("valid-block-refused", "the valid block was refused: %v", err)
			}
			if after.bh != before.bh || after.tip != before.tip || after.root != before.root {
				fail("rejected-ledger-changed", "bh %d->%d tip %s->%s root %s->%s (%v)", before.bh, after.bh, short(before.tip), short(after.tip), short(before.root), short(after.root), err)
			}
			if !sameHashes(before.pool, after.pool) {
				fail("rejected-pool-changed", "mempool %s -> %s (%v)", poolIDs(before.pool), poolIDs(after.pool), err)
			}
			add, chg, rem := dbDiff(before.db, after.db)
			if len(add)+len(chg)+len(rem) > 0 || after.hh != before.hh || after.htip != before.htip {
				// only this header may have been recorded, and only if validly signed and linked
				last := known[len(known)-1]
				linked := b.PrevHash == last.hash && b.Index == last.idx+1 && b.Timestamp > last.ts && strictSigned(st.v, last.nc, &b.Header)
				hdrOnly := len(add) == 1 && len(chg) == 1 && len(rem) == 0 && after.hh == before.hh+1 && after.htip == b.Hash()
				switch {
				case spec.k.skip && hdrOnly:
					// SkipBlockVerification: headers are recorded unverified by configuration
					o.Count("rejected:header-recorded-unverified(skip)")
					recordedOther = recordedOther || b.Hash() != st.next.Hash()
				case !hdrOnly && err != nil && strings.Contains(err.Error(), "PrevStateRoot mismatch") && onlyTransferLogs(add, chg, rem) && after.hh == before.hh:
					kb, _ := hex.DecodeString(chg[0])
					bv, av := before.db[string(kb)], after.db[string(kb)]
					fail("failed-store-corrupts-transfer-log", "the rejected block (executed, then refused by the next header's PrevStateRoot) changed stored token transfer logs in place: ~%v; first one: %d bytes, entry count byte %d -> %d bytes, entry count byte %d, rest equal: %v (%v)",
						chg, len(bv), bv[0], len(av), av[0], len(bv) == len(av) && bv[1:] == av[1:], err)
					if len(kb) >= 21 {
						if u, e := util.Uint160DecodeBytesBE(kb[1:21]); e == nil {
							o.Count("failed-store:transfer-log-of:" + st.acctName(u))
						}
					}
				case !hdrOnly:
					fail("rejected-db-changed", "database changed by a rejected block: +%v ~%v -%v, header height %d->%d (%v)", add, chg, rem, before.hh, after.hh, err)
				case !linked:
					fail("rejected-header-recorded-invalid", "header %s recorded although not validly signed and linked (%v)", short(b.Hash()), err)
				default:
					o.Count("rejected:header-recorded")
					if b.Hash() != st.next.Hash() {
						recordedOther = true
					}
				}
			}
		}
		if why := nodeInvariantX(st, c, !spec.k.skip); why != "" {
			fail("node-invariant-broken", "after AddBlock (%s): %s", res, why)
		}
		if res != "ok" {
			known = st.knownAfter(known, c, b)
		} else {
			// block accepted: the follow-up below is not applicable
			return
		}
	}

	// ---- the correct block afterwards -------------------------------------------------------
	b := mkBlock(fieldsOf(&st.next.Header), st.next.Transactions)
	v := st.vectorOf(known, b)
	v.newRoot = st.roots[st.h+1]
	// (the follow-up after a failed post-execution storeBlock is tied again: the trie is reloaded, roots are predictable)
	res, _, after, err := attempt(o, k, st, c, known, b, v, "then-valid", false)
	if recordedOther || spec.badNextPsr {
		o.Count("then-valid:not-demanded")
		return
	}
	keyOf := func(key string) string {
		if failedAfterExec {
			return "failed-store-corrupts-trie"
		}
		return key
	}
	if res != "ok" {
		fail(keyOf("valid-refused-after-reject"), "after the rejected block the valid block is refused: %v", err)
		return
	}
	if after.root != st.refRoot {
		fail(keyOf("valid-differs-after-reject"), "state root %s, on a clean replica %s", short(after.root), short(st.refRoot))
	}
	if after.dbDigest != st.refDigest {
		add, chg, rem := dbDiff(st.refDB, after.db)
		trim := func(l []string) []string {
			if len(l) > 4 {
				return append(l[:4:4], fmt.Sprintf("...(%d)", len(l)))
			}
			return l
		}
		fail(keyOf("valid-differs-after-reject"), "database differs from a clean replica's after the valid block: extra keys %v, different values %v, missing keys %v", trim(add), trim(chg), trim(rem))
	}
	if !sameHashes(after.pool, st.refPool) {
		fail("valid-differs-after-reject", "mempool %s, on a clean replica %s", poolIDs(after.pool), poolIDs(st.refPool))
	}
}

// onlyTransferLogs: the difference consists of changed values under NEP-11/NEP-17 transfer log keys only.
func onlyTransferLogs(add, chg, rem []string) bool {
	if len(add) != 0 || len(rem) != 0 || len(chg) == 0 {
		return false
	}
	for _, k := range chg {
		if !strings.HasPrefix(k, "72") && !strings.HasPrefix(k, "73") {
			return false
		}
	}
	return true
}

// knownAfter re-reads which headers the node knows after an attempt (a rejected block may have
// left its header behind).
func (st *state) knownAfter(known []hdrInfo, c *chainT, b *block.Block) []hdrInfo {
	if int(c.bc.HeaderHeight())+1 == len(known)+1 && c.bc.CurrentHeaderHash() == b.Hash() {
		return append(append([]hdrInfo{}, known...), hdrInfoOf(&b.Header))
	}
	return known
}

var _ = mempool.ErrDup
