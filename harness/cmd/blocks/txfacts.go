// Facts about a transaction and about the chain state that the model of the stand-alone transaction
// verification (lean/NeoModel/Model/AddBlock/TxVerify.lean) takes its decision on. They are computed
// by the harness from the transaction object and from what it put on chain itself — not by asking the
// node: the node's answer is the observation.
package main

import (
	"bytes"
	"encoding/hex"
	"errors"
	"fmt"
	"sort"
	"strings"

	"github.com/nspcc-dev/neo-go/pkg/core"
	"github.com/nspcc-dev/neo-go/pkg/core/fee"
	"github.com/nspcc-dev/neo-go/pkg/core/mempool"
	"github.com/nspcc-dev/neo-go/pkg/core/native/nativehashes"
	"github.com/nspcc-dev/neo-go/pkg/core/transaction"
	"github.com/nspcc-dev/neo-go/pkg/crypto/hash"
	"github.com/nspcc-dev/neo-go/pkg/crypto/keys"
	"github.com/nspcc-dev/neo-go/pkg/io"
	"github.com/nspcc-dev/neo-go/pkg/util"
	"github.com/nspcc-dev/neo-go/pkg/vm/opcode"
)

const (
	cfgMaxVUBInc      = 100
	cfgMaxBlockSysFee = 900000000000
	cfgMaxVerGas      = 150000000 // Policy default MaxVerificationGas, never changed by the harness
	notaryFeePerKey   = 10000000  // Policy default fee of the NotaryAssisted attribute
)

// bad scripts the harness uses (scparser.IsScriptCorrect refuses them); every other script it builds is correct.
var badScripts = [][]byte{
	{0xff, 0x00},                             // unknown opcode
	{byte(opcode.JMP), 100},                  // jump out of the script
	{byte(opcode.PUSHDATA1), 5, 1, 2},        // operand runs past the end
	{byte(opcode.PUSH1), byte(opcode.JMPL)},  // truncated operand
}

func scriptIsBad(s []byte) bool {
	for _, b := range badScripts {
		if bytes.Equal(s, b) {
			return true
		}
	}
	return false
}

// stubRec is what the harness knows about the conflicting transactions it put on chain for one hash:
// their block indexes and signers, in the order they were stored (the model folds
// dao.StoreAsTransaction over this history itself).
type stubRec struct {
	hist []confEntry
}

type confEntry struct {
	idx     uint32
	signers []util.Uint160
}

// record registers a block's transactions as on chain (transaction records and conflict stubs,
// dao.StoreAsTransaction).
func (st *state) record(idx uint32, txs []*transaction.Transaction) {
	for _, t := range txs {
		st.chainTx[t.Hash()] = idx
		for _, a := range t.GetAttributes(transaction.ConflictsT) {
			h := a.Value.(*transaction.Conflicts).Hash
			s := st.stubs[h]
			if s == nil {
				s = &stubRec{}
				st.stubs[h] = s
			}
			e := confEntry{idx: idx}
			for _, sg := range t.Signers {
				e.signers = append(e.signers, sg.Account)
			}
			s.hist = append(s.hist, e)
		}
	}
}

// acctName gives the line-protocol name of an account.
func (st *state) acctName(h util.Uint160) string {
	if n, ok := st.names[h]; ok {
		return n
	}
	switch h {
	case nativehashes.Notary:
		return "notary"
	case nativehashes.OracleContract:
		return "oraclecontract"
	}
	return "x" + short160(h)
}

// conflictInWindow is the SPECIFICATION of the on-chain conflict test for transaction t at the tip: some
// transaction on chain names t's hash in a Conflicts attribute, shares a signer with t and sits inside
// the traceability window (index <= h < index + MaxTraceableBlocks).
func (st *state) conflictInWindow(t *transaction.Transaction) bool {
	s := st.stubs[t.Hash()]
	if s == nil {
		return false
	}
	for _, e := range s.hist {
		if !(e.idx <= st.h && e.idx+st.mtb() > st.h) {
			continue
		}
		for _, a := range e.signers {
			if t.HasSigner(a) {
				return true
			}
		}
	}
	return false
}

// witAll identifies all the witnesses of a transaction (for one witness: that witness' id).
func witAll(t *transaction.Transaction) string {
	switch len(t.Scripts) {
	case 0:
		return "-"
	case 1:
		return witID(&t.Scripts[0])
	}
	var all transaction.Witness
	for i := range t.Scripts {
		all.InvocationScript = append(all.InvocationScript, byte(len(t.Scripts[i].InvocationScript)), byte(len(t.Scripts[i].InvocationScript)>>8))
		all.InvocationScript = append(all.InvocationScript, t.Scripts[i].InvocationScript...)
		all.InvocationScript = append(all.InvocationScript, byte(len(t.Scripts[i].VerificationScript)), byte(len(t.Scripts[i].VerificationScript)>>8))
		all.InvocationScript = append(all.InvocationScript, t.Scripts[i].VerificationScript...)
	}
	return witID(&all)
}

var (
	checkSigID      = []byte{0x56, 0xe7, 0xb3, 0x27} // System.Crypto.CheckSig
	checkMultisigID = []byte{0x9e, 0xd0, 0xdc, 0x3a} // System.Crypto.CheckMultisig
)

// modelOpcodes: the script consists of the opcodes the price interpreter of the Lean model (Model/Fees.lean)
// knows: integer / data pushes and the two signature syscalls. (A truncated operand is fine: both sides fault.)
func modelOpcodes(s []byte) bool {
	for i := 0; i < len(s); {
		op := opcode.Opcode(s[i])
		i++
		switch {
		case op <= opcode.PUSHINT256:
			i += 1 << op
		case op == opcode.PUSHDATA1:
			if i >= len(s) {
				return true
			}
			i += 1 + int(s[i])
		case op == opcode.PUSHDATA2:
			if i+1 >= len(s) {
				return true
			}
			i += 2 + int(s[i]) + int(s[i+1])<<8
		case op == opcode.PUSHDATA4:
			return false
		case op >= opcode.PUSHM1 && op <= opcode.PUSH16:
		case op == opcode.SYSCALL:
			if i+4 > len(s) {
				return true
			}
			if id := s[i : i+4]; !bytes.Equal(id, checkSigID) && !bytes.Equal(id, checkMultisigID) {
				return false
			}
			i += 4
		default:
			return false
		}
	}
	return true
}

// pushes lists the operands of the PUSHDATA1 instructions of a script that have the given length.
func pushes(s []byte, n int) [][]byte {
	var out [][]byte
	for i := 0; i < len(s); {
		op := opcode.Opcode(s[i])
		i++
		switch {
		case op <= opcode.PUSHINT256:
			i += 1 << op
		case op == opcode.PUSHDATA1 && i < len(s):
			l := int(s[i])
			if i+1+l <= len(s) && l == n {
				out = append(out, s[i+1:i+1+l])
			}
			i += 1 + l
		case op == opcode.SYSCALL:
			i += 4
		}
	}
	return out
}

// witnessFacts describes witness w of signer acc on transaction t for the op line:
//
//	b<hashOk>.<inv hex|->.<ver hex>.<pairs hex|->   scripts made of the opcodes the model's interpreter knows: the
//	     model RUNS them (result and GAS); pairs = the (public key ‖ signature) pairs, 97 bytes each, among the
//	     33-byte and 64-byte pushes of the two scripts that verify for t (real ECDSA, done here)
//	m                                              empty verification script (no contract is deployed by the harness)
//	x                                              anything else: taken as failing
func (st *state) witnessFacts(t *transaction.Transaction, acc util.Uint160, w *transaction.Witness) string {
	ver, inv := w.VerificationScript, w.InvocationScript
	if len(ver) == 0 {
		return "m"
	}
	if !modelOpcodes(inv) || !modelOpcodes(ver) {
		return "x"
	}
	var pairs []byte
	for _, k := range pushes(ver, 33) {
		pub, err := keys.NewPublicKeyFromBytes(k, nil)
		if err != nil {
			continue
		}
		for _, sg := range pushes(inv, 64) {
			if pub.VerifyHashable(sg, uint32(magic), t) {
				pairs = append(pairs, k...)
				pairs = append(pairs, sg...)
			}
		}
	}
	hexOr := func(b []byte) string {
		if len(b) == 0 {
			return "-"
		}
		return hex.EncodeToString(b)
	}
	return fmt.Sprintf("b%d.%s.%s.%s", b01(hash.Hash160(ver) == acc), hexOr(inv), hexOr(ver), hexOr(pairs))
}

// txToken is the description of a received transaction for the op line:
//
//	id:wit:sys:net:vub:size:scriptok:<signer>+<signer>..:<attr>+<attr>..|-
//	signer = name/<scope is None>/<witness facts>      attr = hp | or.<scriptok><requestok>.<gas> | nvb.<h> | cf.<hash> | na.<nkeys> | rs.<type>
func (st *state) txToken(t *transaction.Transaction) string {
	var sg []string
	for i, s := range t.Signers {
		w := "x"
		if i < len(t.Scripts) {
			w = st.witnessFacts(t, s.Account, &t.Scripts[i])
		}
		sg = append(sg, fmt.Sprintf("%s/%d/%s", st.acctName(s.Account), b01(s.Scopes == transaction.None), w))
	}
	var at []string
	for _, a := range t.Attributes {
		switch a.Type {
		case transaction.HighPriority:
			at = append(at, "hp")
		case transaction.OracleResponseT:
			// no oracle request is ever made on the harness' chains and the script is never the response script
			at = append(at, "or.00.0")
		case transaction.NotValidBeforeT:
			at = append(at, fmt.Sprintf("nvb.%d", a.Value.(*transaction.NotValidBefore).Height))
		case transaction.ConflictsT:
			at = append(at, "cf."+short(a.Value.(*transaction.Conflicts).Hash))
		case transaction.NotaryAssistedT:
			at = append(at, fmt.Sprintf("na.%d", a.Value.(*transaction.NotaryAssisted).NKeys))
		default:
			at = append(at, fmt.Sprintf("rs.%d", int(a.Type)))
		}
	}
	as := "-"
	if len(at) > 0 {
		as = strings.Join(at, "+")
	}
	return fmt.Sprintf("%s:%s:%d:%d:%d:%d:%d:%s:%s", short(t.Hash()), witAll(t), t.SystemFee, t.NetworkFee, t.ValidUntilBlock,
		len(t.Bytes()), b01(!scriptIsBad(t.Script)), strings.Join(sg, "+"), as)
}

// chainLine describes the chain state and configuration at the tip.
func (st *state) chainLine() string {
	var bl []string
	for _, h := range st.blocked {
		bl = append(bl, st.acctName(h))
	}
	sort.Strings(bl)
	b := "-"
	if len(bl) > 0 {
		b = strings.Join(bl, ",")
	}
	nfee := 0
	if st.spec.k.multi {
		nfee = notaryFeePerKey
	}
	return fmt.Sprintf("chain base=%d gorgon=1 nvals=%d h=%d inc=%d mbsf=%d fpb=%d mvg=%d mtb=%d p2p=%d rsv=0 nta=1 committee=%s oracle=- notary=notary attrfee=%d:%d,%d:%d blocked=%s",
		baseExecFee, st.v.nvals, st.h, cfgMaxVUBInc, int64(cfgMaxBlockSysFee), st.fpb, cfgMaxVerGas, st.mtb(), b01(st.spec.k.multi),
		st.acctName(st.spec.k.committee().addr), int(transaction.ConflictsT), st.conflFee, int(transaction.NotaryAssistedT), nfee, b)
}

func (st *state) mtb() uint32 {
	if st.spec.mtb > 0 {
		return uint32(st.spec.mtb)
	}
	return 1000
}

// recLines: what is stored on chain under the hashes the verification of these transactions looks up.
func (st *state) recLines(txs []*transaction.Transaction) []string {
	seen := map[util.Uint256]bool{}
	var out []string
	one := func(h util.Uint256) {
		if seen[h] {
			return
		}
		seen[h] = true
		if _, ok := st.chainTx[h]; ok {
			out = append(out, fmt.Sprintf("rec %s tx", short(h)))
			return
		}
		if s, ok := st.stubs[h]; ok {
			var es []string
			for _, e := range s.hist {
				var sg []string
				for _, a := range e.signers {
					sg = append(sg, st.acctName(a))
				}
				es = append(es, fmt.Sprintf("%d:%s", e.idx, strings.Join(sg, "+")))
			}
			out = append(out, fmt.Sprintf("rec %s hist %s", short(h), strings.Join(es, ",")))
		}
	}
	for _, t := range txs {
		one(t.Hash())
		for _, a := range t.GetAttributes(transaction.ConflictsT) {
			one(a.Value.(*transaction.Conflicts).Hash)
		}
	}
	return out
}

// classifyTxErrFull names the check of verifyAndPoolTx (or of the off-chain entry / the scratch pool)
// that refused a transaction.
func classifyTxErrFull(err error) string {
	if err == nil {
		return "ok"
	}
	m := err.Error()
	switch {
	case errors.Is(err, core.ErrPolicy) && strings.Contains(m, "too big system fee"):
		return "sysfee-limit"
	case errors.Is(err, core.ErrInvalidScript):
		return "invalid-script"
	case errors.Is(err, core.ErrTxExpired):
		return "expired"
	case errors.Is(err, core.ErrTxNotYetValid):
		return "not-yet-valid"
	case errors.Is(err, core.ErrPolicy):
		return "policy"
	case errors.Is(err, core.ErrTxTooBig):
		return "too-big"
	case errors.Is(err, core.ErrTxSmallNetworkFee):
		return "small-net-fee"
	case errors.Is(err, core.ErrAlreadyInPool), errors.Is(err, mempool.ErrDup):
		return "pool-dup"
	case errors.Is(err, core.ErrAlreadyExists):
		return "already-exists"
	case errors.Is(err, mempool.ErrConflictsAttribute):
		return "pool-conflicts-attr"
	case errors.Is(err, core.ErrHasConflicts):
		return "has-conflicts"
	case strings.Contains(m, "witness #"):
		return "witness"
	case errors.Is(err, core.ErrInvalidAttribute):
		return "invalid-attr"
	case errors.Is(err, core.ErrInsufficientFunds):
		return "insufficient-funds"
	case errors.Is(err, core.ErrMemPoolConflict) && strings.Contains(m, "conflicts with another transaction of the block"):
		return "inblock-conflict"
	case errors.Is(err, core.ErrMemPoolConflict):
		return "pool-conflict"
	case errors.Is(err, core.ErrOOM):
		return "oom"
	}
	return "other(" + strings.ReplaceAll(m, " ", "_") + ")"
}

// ---- a general transaction builder ---------------------------------------------------------------

type xSigner struct {
	acc   *acct   // a single-signature account ...
	vals  *valset // ... or a multi-signature set of the harness
	scope transaction.WitnessScope
	raw   *util.Uint160 // ... or a bare account without a usable witness (empty verification script)
	// ... or a NON-standard verification script that returns true by itself (empty invocation script)
	script []byte
}

// trueScript is a non-standard verification script: PUSH1 (price: one unit of the exec fee factor).
var trueScript = []byte{byte(opcode.PUSH1)}

const trueScriptCost = baseExecFee / 10000 // one price unit, in datoshi

// witCost is the GAS the verification of this signer's witness consumes.
func (x xSigner) witCost() int64 {
	switch {
	case x.acc != nil:
		c, _ := fee.Calculate(baseExecFee, x.acc.acc.Contract.Script)
		return c
	case x.vals != nil:
		c, _ := fee.Calculate(baseExecFee, x.vals.script)
		return c
	case x.script != nil:
		return trueScriptCost
	}
	return 0
}

func (x xSigner) account() util.Uint160 {
	switch {
	case x.script != nil:
		return hash.Hash160(x.script)
	case x.acc != nil:
		return x.acc.h
	case x.vals != nil:
		return x.vals.addr
	}
	return *x.raw
}

type xSpec struct {
	signers []xSigner
	attrs   []transaction.Attribute
	script  []byte
	to      util.Uint160
	amount  int64
	nonce   uint32
	vub     uint32
	sysFee  int64
	netAdj  int64  // added to the exact network fee
	netAbs  *int64 // network fee given outright
	post    func(t *transaction.Transaction)
}

// exactNet = Σ verification cost + size·FeePerByte + attribute fees at the current policy.
func (st *state) mkX(x xSpec) *transaction.Transaction {
	script := x.script
	if script == nil {
		script = transferScript(x.signers[0].account(), x.to, x.amount)
	}
	tx := transaction.New(script, x.sysFee)
	tx.Nonce, tx.ValidUntilBlock = x.nonce, x.vub
	for _, s := range x.signers {
		tx.Signers = append(tx.Signers, transaction.Signer{Account: s.account(), Scopes: s.scope})
	}
	tx.Attributes = append(tx.Attributes, x.attrs...)
	var nf int64
	size := io.GetVarSize(tx)
	for _, s := range x.signers {
		switch {
		case s.acc != nil:
			c, sz := fee.Calculate(baseExecFee, s.acc.acc.Contract.Script)
			nf, size = nf+c, size+sz
		case s.vals != nil:
			c, sz := fee.Calculate(baseExecFee, s.vals.script)
			nf, size = nf+c, size+sz
		case s.script != nil:
			nf, size = nf+trueScriptCost, size+1+1+len(s.script)
		default:
			size += 2 // two empty scripts
		}
	}
	for _, a := range x.attrs {
		switch a.Type {
		case transaction.ConflictsT:
			nf += curConflictsFee * int64(len(x.signers))
		case transaction.NotaryAssistedT:
			if st.spec.k.multi {
				nf += notaryFeePerKey * (int64(a.Value.(*transaction.NotaryAssisted).NKeys) + 1)
			}
		}
	}
	tx.NetworkFee = nf + int64(size)*curFeePerByte + x.netAdj
	if x.netAbs != nil {
		tx.NetworkFee = *x.netAbs
	}
	for _, s := range x.signers {
		switch {
		case s.acc != nil:
			sig := s.acc.acc.SignHashable(magic, tx)
			tx.Scripts = append(tx.Scripts, transaction.Witness{
				InvocationScript:   append([]byte{byte(opcode.PUSHDATA1), 64}, sig...),
				VerificationScript: s.acc.acc.Contract.Script})
		case s.vals != nil:
			tx.Scripts = append(tx.Scripts, transaction.Witness{InvocationScript: s.vals.sign(tx, nil), VerificationScript: s.vals.script})
		case s.script != nil:
			tx.Scripts = append(tx.Scripts, transaction.Witness{VerificationScript: s.script})
		default:
			tx.Scripts = append(tx.Scripts, transaction.Witness{})
		}
	}
	if x.post != nil {
		x.post(tx)
	}
	return cloneTx(tx)
}
