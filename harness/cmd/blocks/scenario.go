// Chain states of the `blocks` stream: a producer chain builds the prefix, the valid next block,
// valid future blocks (for headers-ahead states) and the special transactions; replicas replay it.
package main

import (
	"fmt"
	"os"

	"github.com/nspcc-dev/neo-go/pkg/core/block"
	"github.com/nspcc-dev/neo-go/pkg/core/native/nativehashes"
	"github.com/nspcc-dev/neo-go/pkg/core/transaction"
	"github.com/nspcc-dev/neo-go/pkg/util"

	"verif/harness/internal/prng"
)

type stateSpec struct {
	k          kind
	nprep      int  // blocks after the funding block; tip height h = 1+nprep
	ahead      int  // headers known ahead of the tip (0..3), h+1 being the valid next block's
	ntx        int  // transactions in the valid next block
	poolMode   int  // 0 empty, 1 some of the block's txs, 2 some + a conflicting one + an unrelated one
	badNextPsr bool // sr && ahead>=2: header h+2 (validly signed) carries a wrong PrevStateRoot
	// stale > 0: a transaction is pooled one block below the tip and the tip block changes what its
	// validity depends on (see staleNames)
	stale int
	mtb   int // MaxTraceableBlocks of the chain (0: 1000)
	gap   int // extra blocks between the block that carries the conflict records and the tip
	slim  bool // run only the control, transaction-list and txverify candidates
	// extraA > 0: the prefix carries no random transfers and account A sends extraA-1 further ones in the
	// block of the conflict records (fixes the length and spare capacity of A's stored transfer log)
	extraA int
	// conf: further transactions with Conflicts{yConfl} in the blocks after the one of the conflict records
	// (off = 1..gap), signed by A (yConfl's signer) or by B (no common signer)
	conf []confAdd
}

type confAdd struct {
	off int
	by  string
}

var staleNames = []string{"", "feeperbyte-raised-a-little", "feeperbyte-raised-a-lot", "attribute-fee-raised", "sender-blocked",
	"balance-dropped", "valid-until-passed", "conflict-landed-on-chain",
	// controls: the pooled transaction must SURVIVE the tip block (8, 9) / is one unit short (10)
	"other-attribute-fee-raised", "feeperbyte-raised-covered", "feeperbyte-raised-covered-minus-1"}

func (s stateSpec) String() string {
	b := 0
	if s.badNextPsr {
		b = 1
	}
	r := fmt.Sprintf("%s prep=%d ahead=%d ntx=%d pool=%d badpsr=%d", s.k, s.nprep, s.ahead, s.ntx, s.poolMode, b)
	if s.stale > 0 {
		r += " stale=" + staleNames[s.stale]
	}
	if s.mtb > 0 {
		r += fmt.Sprintf(" mtb=%d gap=%d", s.mtb, s.gap)
	}
	if s.extraA > 0 {
		r += fmt.Sprintf(" extraA=%d", s.extraA)
	}
	for _, c := range s.conf {
		r += fmt.Sprintf(" conf+%d:%s", c.off, c.by)
	}
	return r
}

// txLabel is what the harness knows by construction about a transaction as received
// (hash and witness together identify the received object).
type txLabel struct {
	valid bool   // passes every check of verifyAndPoolTx that precedes pool.Add, at height h
	why   string // construction reason
}

// pendingRec: a produced block whose transactions are registered as on chain once the tip is reached
// (blocks above the tip - the valid next block and the future ones - are not on the replicas' chains).
type pendingRec struct {
	idx uint32
	txs []*transaction.Transaction
}

type hdrInfo struct {
	idx  uint32
	hash util.Uint256
	prev util.Uint256
	ts   uint64
	nc   util.Uint160
	psr  util.Uint256
	wit  string
}

type state struct {
	spec          stateSpec
	v             *valset
	h             uint32
	prep          []*block.Block // blocks 1..h (as accepted by the producer)
	next          *block.Block   // the valid block h+1
	future        []*block.Block // valid blocks h+2.. (3 of them); future[0] may carry the bad psr
	roots         []util.Uint256 // roots[i] = producer's state root at height i (0..h+4)
	genesis       hdrInfo
	labels        map[string]txLabel
	bal           map[string]int64 // balances at height h by account name
	names         map[util.Uint160]string
	pool          []*transaction.Transaction // txs pooled on a replica (in this order)
	prePool       []*transaction.Transaction // txs pooled one block below the tip (stale states)
	stale         *transaction.Transaction   // the pooled transaction whose validity the tip block changed
	staleOK       bool                       // VerifyTx(stale) on a clean replica at the tip height
	staleWhy      string
	fpb, conflFee int64 // FeePerByte / Conflicts attribute fee in force at the tip
	chainTx       map[util.Uint256]uint32  // transactions on chain (by construction) and their block
	stubs         map[util.Uint256]*stubRec // conflict records on chain (by construction)
	blocked       []util.Uint160            // accounts blocked by Policy at the tip
	recAt         uint32                    // index of the block that carries onChain and the Conflicts-carrying transactions
	zConfl        *transaction.Transaction  // named by an on-chain Conflicts attribute of ANOTHER account's transaction (valid)
	wConfl        *transaction.Transaction  // named by an on-chain Conflicts attribute of a two-signer transaction, sent by its second signer
	nonceNext     func() uint32
	pending       []pendingRec
	vars          []txVar // transactions built to fail chosen conjuncts of the stand-alone verification

	// special transactions, all built for height h
	onChain    *transaction.Transaction // included in block h
	yConfl     *transaction.Transaction // its hash is named by an on-chain Conflicts attribute of the same sender
	attrOnCh   *transaction.Transaction // carries Conflicts{onChain.hash}
	expired    *transaction.Transaction // VUB = h
	vubEdge    *transaction.Transaction // VUB = h+1 (valid)
	notYet     *transaction.Transaction // VUB = h+1+100 (too far)
	vubFarEdge *transaction.Transaction // VUB = h+100 (valid)
	badScript  *transaction.Transaction
	lowFee     *transaction.Transaction
	wrongKey   *transaction.Transaction
	poorBig    *transaction.Transaction // fee > balance of the poor account
	poor1      *transaction.Transaction
	poor2      *transaction.Transaction // each affordable, together not
	extra      *transaction.Transaction // a further valid tx (sender D)

	// reference: clean replica after the valid block
	refRoot   util.Uint256
	refDigest string
	refPool   []util.Uint256
	refDB     map[string]string
}

func txKey(t *transaction.Transaction) string { return short(t.Hash()) + "/" + witAll(t) }

func (st *state) label(t *transaction.Transaction, valid bool, why string) *transaction.Transaction {
	st.labels[txKey(t)] = txLabel{valid, why}
	return t
}

func hdrInfoOf(h *block.Header) hdrInfo {
	return hdrInfo{h.Index, h.Hash(), h.PrevHash, h.Timestamp, h.NextConsensus, h.PrevStateRoot, witID(&h.Script)}
}

const gas = 100000000

// produce builds block fields on top of the producer chain and adds the block to it.
func (st *state) produce(p *chainT, txs []*transaction.Transaction) *block.Block {
	bc := p.bc
	top, err := bc.GetHeader(bc.CurrentBlockHash())
	if err != nil {
		panic(err)
	}
	f := hdrFields{
		PrevHash:      top.Hash(),
		MerkleRoot:    merkleOf(txs),
		Timestamp:     top.Timestamp + 1000,
		Nonce:         uint64(top.Index)*7 + 3,
		Index:         top.Index + 1,
		NextConsensus: st.v.addr,
		SRE:           st.spec.k.sr,
		PrimaryIndex:  0,
		Ver:           st.v.script,
	}
	if st.spec.k.sr {
		f.PrevStateRoot = bc.GetStateModule().CurrentLocalStateRoot()
	}
	b := mkBlock(f, txs)
	f.Inv = st.v.sign(b, nil)
	b = mkBlock(f, txs)
	if err := bc.AddBlock(b); err != nil {
		panic(fmt.Sprintf("producer: block %d refused: %v", f.Index, err))
	}
	st.roots = append(st.roots, bc.GetStateModule().CurrentLocalStateRoot())
	st.pending = append(st.pending, pendingRec{f.Index, txs})
	// Hand out a copy: the chain keeps the pointer it was given as its top block.
	return mkBlock(f, txs)
}

// useState makes the transaction builders pay what this state's policy asks.
func (st *state) useState() { curFeePerByte, curConflictsFee = st.fpb, st.conflFee }

func buildState(spec stateSpec, r *prng.R) *state {
	curFeePerByte, curConflictsFee = baseFeePerByte, 0
	st := &state{spec: spec, fpb: baseFeePerByte, v: spec.k.vals(), labels: map[string]txLabel{}, bal: map[string]int64{}, names: map[util.Uint160]string{},
		chainTx: map[util.Uint256]uint32{}, stubs: map[util.Uint256]*stubRec{}}
	pk := spec.k
	pk.vt, pk.skip = true, false // the producer always verifies everything
	p := newChainMTB(pk, spec.mtb)
	defer p.close()
	g, err := p.bc.GetHeader(p.bc.CurrentBlockHash())
	if err != nil {
		panic(err)
	}
	st.genesis = hdrInfoOf(g)
	st.roots = append(st.roots, p.bc.GetStateModule().CurrentLocalStateRoot())
	hPre := uint32(1 + spec.nprep) // height of the block that carries the conflict records
	st.recAt = hPre
	st.h = hPre + uint32(spec.gap)
	if spec.stale > 0 {
		st.h++ // plus the block that changes the pooled transaction's validity
	}
	h := st.h
	vub := h + 50
	nonce := uint32(1000 * (r.Intn(1000) + 1))
	nn := func() uint32 { nonce++; return nonce }
	st.nonceNext = nn
	accts := []*acct{accA, accB, accC, accD}
	for _, a := range append(accts, accP, accX, accS, accK) {
		st.names[a.h] = a.name
	}
	st.names[spec.k.committee().addr] = "committee"
	st.names[st.v.addr] = "vals" // the single chain's committee is its validator

	// block 1: funding
	var fund []*transaction.Transaction
	for _, a := range accts {
		fund = append(fund, mkValTx(st.v, a.h, 1000*gas, nn(), vub))
	}
	fund = append(fund, mkValTx(st.v, accP.h, 30000000, nn(), vub))
	fund = append(fund, mkValTx(st.v, accS.h, 10*gas, nn(), vub))
	fund = append(fund, mkValTx(st.v, accK.h, 10*gas, nn(), vub))
	if cv := spec.k.committee(); cv.addr != st.v.addr {
		fund = append(fund, mkValTx(st.v, cv.addr, 100*gas, nn(), vub)) // the committee pays for its policy changes
	}
	st.prep = append(st.prep, st.produce(p, fund))

	// special txs whose hashes are needed early
	st.yConfl = mkTx(accA, accD.h, 7, txOpt{nonce: nn(), vub: vub, sysFee: sysFeeTransfer})
	st.onChain = mkTx(accA, accC.h, 5, txOpt{nonce: nn(), vub: vub, sysFee: sysFeeTransfer})
	namesY := mkTx(accA, accC.h, 6, txOpt{nonce: nn(), vub: vub, sysFee: sysFeeTransfer, conflicts: []util.Uint256{st.yConfl.Hash()}})
	st.zConfl = mkTx(accB, accD.h, 8, txOpt{nonce: nn(), vub: vub, sysFee: sysFeeTransfer})
	namesZ := mkTx(accA, accC.h, 9, txOpt{nonce: nn(), vub: vub, sysFee: sysFeeTransfer, conflicts: []util.Uint256{st.zConfl.Hash()}})
	// named by an on-chain Conflicts attribute of a TWO-signer transaction whose second signer is its sender
	st.wConfl = mkTx(accC, accD.h, 9, txOpt{nonce: nn(), vub: vub, sysFee: sysFeeTransfer})
	namesW := st.mkX(xSpec{signers: []xSigner{{acc: accA, scope: transaction.CalledByEntry}, {acc: accC, scope: transaction.CalledByEntry}},
		to: accD.h, amount: 10, nonce: nn(), vub: vub, sysFee: sysFeeTransfer,
		attrs: []transaction.Attribute{{Type: transaction.ConflictsT, Value: &transaction.Conflicts{Hash: st.wConfl.Hash()}}}})
	blockK := mkCommitteeTx(spec.k.committee(), nativehashes.PolicyContract, "blockAccount", nn(), vub, accK.h)
	st.blocked = append(st.blocked, accK.h)

	// blocks 2..h
	for i := 2; i <= int(hPre); i++ {
		var txs []*transaction.Transaction
		n := r.Intn(3)
		if spec.extraA > 0 {
			n = 0
		}
		for j := 0; j < n; j++ {
			a := accts[r.Intn(len(accts))]
			txs = append(txs, mkTx(a, accts[r.Intn(len(accts))].h, int64(1+r.Intn(1000)), txOpt{nonce: nn(), vub: vub, sysFee: sysFeeTransfer}))
		}
		if i == int(hPre) {
			txs = append(txs, st.onChain, namesY, namesZ, namesW, blockK)
			for j := 1; j < spec.extraA; j++ {
				txs = append(txs, mkTx(accA, accC.h, int64(40+j), txOpt{nonce: nn(), vub: vub, sysFee: sysFeeTransfer}))
			}
		}
		st.prep = append(st.prep, st.produce(p, txs))
	}
	for i := 0; i < spec.gap; i++ {
		var txs []*transaction.Transaction
		for _, c := range spec.conf {
			if c.off == i+1 {
				by := accA
				if c.by == "B" {
					by = accB
				}
				txs = append(txs, mkTx(by, accC.h, int64(60+i), txOpt{nonce: nn(), vub: vub, sysFee: sysFeeTransfer, conflicts: []util.Uint256{st.yConfl.Hash()}}))
			}
		}
		st.prep = append(st.prep, st.produce(p, txs))
	}
	if spec.stale > 0 {
		st.buildStale(p, nn, vub)
	}
	for _, pr := range st.pending { // everything produced so far is on the replicas' chains
		st.record(pr.idx, pr.txs)
	}
	for _, a := range append(accts, accP, accX, accS, accK) {
		st.bal[a.name] = gasBalance(p, a.h).Int64()
	}
	st.bal["committee"] = gasBalance(p, spec.k.committee().addr).Int64()
	st.bal["vals"] = gasBalance(p, st.v.addr).Int64()

	// the valid next block
	var txs []*transaction.Transaction
	for i := 0; i < spec.ntx; i++ {
		a := accts[i%len(accts)]
		txs = append(txs, st.label(mkTx(a, accX.h, int64(10+i), txOpt{nonce: nn(), vub: vub, sysFee: sysFeeTransfer}), true, "plain"))
	}

	// special transactions for height h
	o := func(vubv uint32) txOpt { return txOpt{nonce: nn(), vub: vubv, sysFee: sysFeeTransfer} }
	st.label(st.onChain, false, "already-on-chain")
	paysEnough := st.fpb == baseFeePerByte                                                   // built below the tip, for the base FeePerByte
	st.label(st.yConfl, paysEnough && !st.conflictInWindow(st.yConfl), "conflicts-with-on-chain") // valid again once no conflicting transaction of its signer is traceable
	st.label(st.zConfl, paysEnough, "conflict-record-of-another-signer")
	st.label(st.wConfl, paysEnough && !st.conflictInWindow(st.wConfl), "conflict-record-of-second-signer")
	oc := o(vub)
	oc.conflicts = []util.Uint256{st.onChain.Hash()}
	st.attrOnCh = st.label(mkTx(accB, accX.h, 3, oc), false, "conflicts-attr-names-on-chain-tx")
	st.expired = st.label(mkTx(accC, accX.h, 3, o(h)), false, "expired")
	st.vubEdge = st.label(mkTx(accC, accX.h, 4, o(h+1)), true, "vub-edge")
	st.notYet = st.label(mkTx(accC, accX.h, 5, o(h+101)), false, "not-yet-valid")
	st.vubFarEdge = st.label(mkTx(accC, accX.h, 6, o(h+100)), true, "vub-far-edge")
	bs := o(vub)
	bs.script = []byte{0xff, 0x00}
	st.badScript = st.label(mkTx(accD, accX.h, 0, bs), false, "bad-script")
	lf := o(vub)
	lf.extraNet = -1
	st.lowFee = st.label(mkTx(accD, accX.h, 8, lf), false, "low-network-fee")
	wk := mkTx(accD, accX.h, 9, o(vub))
	wk2 := mkTx(accX, accX.h, 9, txOpt{nonce: wk.Nonce, vub: vub, sysFee: sysFeeTransfer})
	wk.Scripts = []transaction.Witness{wk2.Scripts[0]} // a witness of another account
	st.wrongKey = st.label(cloneTx(wk), false, "wrong-key-witness")
	pb := o(vub)
	pb.sysFee = 40000000
	st.poorBig = st.label(mkTx(accP, accX.h, 1, pb), true, "fee-exceeds-balance") // valid before pool.Add
	st.poor1 = st.label(mkTx(accP, accX.h, 1, o(vub)), true, "poor-1")
	st.poor2 = st.label(mkTx(accP, accX.h, 2, o(vub)), true, "poor-2")
	st.extra = st.label(mkTx(accD, accX.h, 11, o(vub)), true, "extra")
	st.buildVariants(r)

	// mempool content of replicas
	if spec.poolMode >= 1 {
		for i, t := range txs {
			if i%2 == 0 {
				st.pool = append(st.pool, t)
			}
		}
	}
	if spec.poolMode >= 1 {
		// a pooled transaction with two witnesses: the block copy differs in the second one only
		if t := st.varByName("two-signers"); t != nil {
			st.pool = append(st.pool, t)
		}
	}
	if spec.poolMode >= 2 {
		if len(txs) >= 2 {
			// conflicts with the block's second transaction (same sender, higher fee)
			co := o(vub)
			co.conflicts = []util.Uint256{txs[1].Hash()}
			co.extraNet = 100000
			st.pool = append(st.pool, st.label(mkTx(accts[1], accX.h, 77, co), true, "pooled-conflicting"))
		}
		st.pool = append(st.pool, st.label(mkTx(accD, accA.h, 78, o(vub)), true, "pooled-unrelated"))
	}

	st.next = st.produce(p, txs)
	for i := 0; i < 3; i++ {
		t := mkTx(accD, accX.h, int64(100+i), txOpt{nonce: nn(), vub: vub + 3, sysFee: sysFeeTransfer})
		st.future = append(st.future, st.produce(p, []*transaction.Transaction{t}))
	}
	if spec.badNextPsr {
		f := fieldsOf(&st.future[0].Header)
		f.PrevStateRoot[0] ^= 0x55
		b := mkBlock(f, st.future[0].Transactions)
		f.Inv = st.v.sign(b, nil)
		st.future[0] = mkBlock(f, st.future[0].Transactions)
		// later headers must link to the replaced one
		f2 := fieldsOf(&st.future[1].Header)
		f2.PrevHash = st.future[0].Hash()
		b2 := mkBlock(f2, st.future[1].Transactions)
		f2.Inv = st.v.sign(b2, nil)
		st.future[1] = mkBlock(f2, st.future[1].Transactions)
		f3 := fieldsOf(&st.future[2].Header)
		f3.PrevHash = st.future[1].Hash()
		b3 := mkBlock(f3, st.future[2].Transactions)
		f3.Inv = st.v.sign(b3, nil)
		st.future[2] = mkBlock(f3, st.future[2].Transactions)
	}

	// reference run on a clean replica
	ref := st.replica()
	if err := ref.bc.AddBlock(mkBlock(fieldsOf(&st.next.Header), st.next.Transactions)); err != nil {
		if !spec.badNextPsr {
			panic(fmt.Sprintf("reference replica refused the valid block (%s): %v", spec, err))
		}
	}
	s := ref.snapshot()
	st.refRoot, st.refDigest, st.refPool, st.refDB = s.root, s.dbDigest, s.pool, s.db
	ref.close()
	return st
}

// buildStale pools a transaction at the current producer height and adds the block that changes what
// its validity depends on.
func (st *state) buildStale(p *chainT, nn func() uint32, vub uint32) {
	cv := st.spec.k.committee()
	o := txOpt{nonce: nn(), vub: vub, sysFee: sysFeeTransfer}
	var change []*transaction.Transaction
	policy := nativehashes.PolicyContract
	switch st.spec.stale {
	case 1:
		st.fpb = 2 * baseFeePerByte
		change = append(change, mkCommitteeTx(cv, policy, "setFeePerByte", nn(), vub, st.fpb))
	case 2:
		st.fpb = 20 * baseFeePerByte
		change = append(change, mkCommitteeTx(cv, policy, "setFeePerByte", nn(), vub, st.fpb))
	case 3:
		o.conflicts = []util.Uint256{{0x77, 1, 2, 3}}
		st.conflFee = 50000000
		change = append(change, mkCommitteeTx(cv, policy, "setAttributeFee", nn(), vub, int64(transaction.ConflictsT), st.conflFee))
	case 4:
		change = append(change, mkCommitteeTx(cv, policy, "blockAccount", nn(), vub, accS.h))
		st.blocked = append(st.blocked, accS.h)
	case 6:
		o.vub = p.bc.BlockHeight() + 1
	case 8:
		st.conflFee = 50000000
		change = append(change, mkCommitteeTx(cv, policy, "setAttributeFee", nn(), vub, int64(transaction.ConflictsT), st.conflFee))
	case 9, 10:
		st.fpb = 2 * baseFeePerByte
		change = append(change, mkCommitteeTx(cv, policy, "setFeePerByte", nn(), vub, st.fpb))
		// pays for its size at the raised FeePerByte already now (exactly / one unit short)
		o.extraNet = int64(len(mkTx(accS, accX.h, 55, o).Bytes())) * (st.fpb - baseFeePerByte)
		if st.spec.stale == 10 {
			o.extraNet--
		}
	}
	st.stale = mkTx(accS, accX.h, 55, o)
	switch st.spec.stale {
	case 5: // the sender moves (almost) everything away
		d := mkTx(accS, accD.h, 0, txOpt{nonce: nn(), vub: vub, sysFee: sysFeeTransfer})
		left := gasBalance(p, accS.h).Int64() - d.SystemFee - d.NetworkFee - 100000
		change = append(change, mkTx(accS, accD.h, left, txOpt{nonce: d.Nonce, vub: vub, sysFee: sysFeeTransfer}))
	case 7:
		change = append(change, mkTx(accS, accD.h, 1, txOpt{nonce: nn(), vub: vub, sysFee: sysFeeTransfer, conflicts: []util.Uint256{st.stale.Hash()}}))
	}
	if err := p.bc.VerifyTx(cloneTx(st.stale)); err != nil {
		panic(fmt.Sprintf("producer: the transaction to be pooled is not valid when pooled: %v", err))
	}
	st.prePool = []*transaction.Transaction{st.stale}
	st.prep = append(st.prep, st.produce(p, change))
	st.useState()                           // everything built from here on is for the tip height
	err := p.bc.VerifyTx(cloneTx(st.stale)) // the producer's mempool is empty: this is a clean node at the tip height
	st.staleOK, st.staleWhy = err == nil, "stale:"+staleNames[st.spec.stale]
	if err != nil {
		st.staleWhy += ":" + classifyTxErr(err)
		if os.Getenv("VERIF_DEBUG") != "" {
			fmt.Fprintf(os.Stderr, "stale tx at the tip: %v\n", err)
		}
	}
	st.label(st.stale, st.staleOK, st.staleWhy)
}

// aheadHeaders returns fresh copies of the headers a replica learns ahead of its tip.
func (st *state) aheadHeaders() []*block.Header {
	var hs []*block.Header
	all := append([]*block.Block{st.next}, st.future...)
	for i := 0; i < st.spec.ahead; i++ {
		b := mkBlock(fieldsOf(&all[i].Header), nil)
		hs = append(hs, &b.Header)
	}
	return hs
}

// replica builds a fresh node in this state.
func (st *state) replica() *chainT {
	c := newChainMTB(st.spec.k, st.spec.mtb)
	for i, b := range st.prep {
		if len(st.prePool) > 0 && i == len(st.prep)-1 {
			for _, t := range st.prePool {
				if err := c.bc.PoolTx(cloneTx(t)); err != nil {
					panic(fmt.Sprintf("replica: PoolTx of the to-be-stale transaction refused: %v", err))
				}
			}
		}
		if err := c.bc.AddBlock(mkBlock(fieldsOf(&b.Header), b.Transactions)); err != nil {
			panic(fmt.Sprintf("replica: prefix block %d refused: %v", b.Index, err))
		}
	}
	if hs := st.aheadHeaders(); len(hs) > 0 {
		if err := c.bc.AddHeaders(hs...); err != nil {
			panic(fmt.Sprintf("replica: AddHeaders refused: %v", err))
		}
		if c.bc.HeaderHeight() != st.h+uint32(st.spec.ahead) {
			panic("replica: headers not recorded")
		}
	}
	for _, t := range st.pool {
		if err := c.bc.PoolTx(cloneTx(t)); err != nil {
			panic(fmt.Sprintf("replica: PoolTx refused (%s): %v", st.labels[txKey(t)].why, err))
		}
	}
	return c
}

// cleanReplica is a tip-only, empty-mempool node with full verification (used for self-checks).
func (st *state) cleanReplica() *chainT {
	k := st.spec.k
	k.vt, k.skip = true, false
	c := newChainMTB(k, st.spec.mtb)
	for _, b := range st.prep {
		if err := c.bc.AddBlock(mkBlock(fieldsOf(&b.Header), b.Transactions)); err != nil {
			panic(err)
		}
	}
	return c
}

// knownHeaders lists the headers a replica in this state knows (genesis, prefix, ahead).
func (st *state) knownHeaders() []hdrInfo {
	hs := []hdrInfo{st.genesis}
	for _, b := range st.prep {
		hs = append(hs, hdrInfoOf(&b.Header))
	}
	for _, h := range st.aheadHeaders() {
		hs = append(hs, hdrInfoOf(h))
	}
	return hs
}
