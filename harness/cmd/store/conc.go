package main

import (
	"bytes"
	"context"
	"fmt"
	"runtime"
	"sync"
	"sync/atomic"
	"time"

	"github.com/nspcc-dev/neo-go/pkg/core/dao"
	"github.com/nspcc-dev/neo-go/pkg/core/storage"

	"verif/harness/internal/hx"
	"verif/harness/internal/prng"
)

// Concurrency cases (oracle only, no model lines besides the case marker).
//
// One shared MemCachedStore over a backend whose PutChangeSet is slow. Each round writes a batch
// (overwrites, new keys, deletions) into the cache, then starts reader goroutines that hammer
// Get / Seek / SeekAsync(cut and not) / dao.Seek while the main goroutine runs Persist. Nothing is
// written to the readers' key space during the round, so every answer must equal the one ordered
// map that was committed before the round began: a key of the batch being flushed must never be
// missing, a deleted one never come back, a value never be stale — at every moment of the swap,
// of the lower write and of the restore. The cache holds a few hundred keys so that the readers
// keep the read lock for a while: the writer lock of Persist then queues behind them and new
// readers queue behind it, i.e. readers arrive at the lock exactly across the swap.
// A writer goroutine meanwhile puts keys of another prefix into the same maps (it must not
// disturb the readers' answers either).

type slowStore struct {
	storage.Store
	delay   atomic.Bool
	reads   *atomic.Int64
	inWrite atomic.Bool
}

func (p *slowStore) PutChangeSet(a, b map[string][]byte) error {
	if p.delay.Load() {
		// hold the "swapped out, not yet written" window open until the readers made progress
		p.inWrite.Store(true)
		start := p.reads.Load()
		dl := time.Now().Add(3 * time.Millisecond)
		for p.reads.Load() < start+40 && time.Now().Before(dl) {
			runtime.Gosched()
		}
	}
	err := p.Store.PutChangeSet(a, b)
	if p.delay.Load() {
		// and the "written, ps not yet restored" window
		start := p.reads.Load()
		dl := time.Now().Add(2 * time.Millisecond)
		for p.reads.Load() < start+20 && time.Now().Before(dl) {
			runtime.Gosched()
		}
		p.inWrite.Store(false)
	}
	return err
}

type concFail struct {
	key, msg string
}

func runConcCase(o *hx.Out, f *hx.Flags, k int, kind string) {
	w, err := newWorld(kind)
	if err != nil {
		panic(err)
	}
	defer w.close()
	o.Case(k)
	setContract(5, 6, 0x70)
	r := prng.ForCase(f.Seed, k)
	var reads atomic.Int64
	slow := &slowStore{Store: w.nodes[0].st, reads: &reads}
	d := dao.NewSimple(slow, false)
	s := d.Store
	// optionally a private layer on top: reads then go through performSeek twice
	var top *dao.Simple
	if r.Chance(1, 3) {
		top = d.GetPrivate()
	}

	P := daoPrefix
	nKeys := 150 + r.Intn(250)
	keyOf := func(i int) []byte { return append(bytes.Clone(P), byte(i>>8), byte(i), byte(i%3)) }
	expected := map[string][]byte{} // the committed ordered map (readers' key space)
	gen := 0
	var fails []concFail
	var fmu sync.Mutex
	report := func(key, format string, a ...any) {
		fmu.Lock()
		if len(fails) < 3 {
			fails = append(fails, concFail{key, fmt.Sprintf(format, a...)})
		}
		fmu.Unlock()
	}

	rounds := 4 + r.Intn(3)
	for round := 0; round < rounds; round++ {
		// 1. the batch of this round, written while nobody reads
		gen++
		nb := nKeys/2 + r.Intn(nKeys/2)
		puts := map[string][]byte{}
		for i := 0; i < nb; i++ {
			key := keyOf(r.Intn(nKeys))
			if r.Chance(1, 4) {
				puts[string(key)] = nil
			} else {
				puts[string(key)] = []byte{byte(gen), byte(i >> 8), byte(i)}
			}
		}
		if r.Bool() {
			s.PutChangeSet(nil, puts)
		} else {
			for k, v := range puts {
				if v == nil {
					s.Delete([]byte(k))
				} else {
					s.Put([]byte(k), v)
				}
			}
		}
		for k, v := range puts {
			if v == nil {
				delete(expected, k)
			} else {
				expected[k] = v
			}
		}
		if top != nil && r.Bool() {
			// a few entries in the private layer as well
			for i := 0; i < 5; i++ {
				// keys the batches never touch (the private layer shadows the lower ones for good)
				key := keyOf(nKeys + r.Intn(40))
				v := []byte{byte(gen), 0xee, byte(i)}
				top.Store.Put(key, v)
				expected[string(key)] = v
			}
		}
		// frozen expectations of the round
		wantFwd := specSeek(expected, seekRange{pfx: P})
		wantBwd := specSeek(expected, seekRange{pfx: P, bw: true})
		wantCut := specSeek(expected, seekRange{pfx: P, cut: true})
		sub := append(bytes.Clone(P), 0)
		wantSub := specSeek(expected, seekRange{pfx: sub})

		// 2. readers
		var st storage.Store = s
		dd := d
		if top != nil {
			st, dd = top.Store, top
		}
		stop := make(chan struct{})
		var wg sync.WaitGroup
		nReaders := 6
		for g := 0; g < nReaders; g++ {
			wg.Add(1)
			rr := prng.New(r.U64())
			go func(g int) {
				defer wg.Done()
				for it := 0; ; it++ {
					select {
					case <-stop:
						return
					default:
					}
					phase := "idle"
					if slow.inWrite.Load() {
						phase = "lower write in flight"
					}
					switch (g + it) % 6 {
					case 0, 1:
						for j := 0; j < 8; j++ {
							key := keyOf(rr.Intn(nKeys))
							v, err := st.Get(key)
							want, ok := expected[string(key)]
							if ok != (err == nil) || (ok && !bytes.Equal(v, want)) {
								report("concurrent-get", "round %d (%s): Get(%x) = %x found=%v, committed: %x found=%v", round, phase, key, v, err == nil, want, ok)
							}
						}
					case 2:
						got, _ := realSeek(st, seekRange{pfx: P})
						if !sameKVs(got, wantFwd) {
							report("concurrent-seek", "round %d (%s): Seek forward returned %d items, committed map has %d; %s", round, phase, len(got), len(wantFwd), firstDiff(got, wantFwd))
						}
					case 3:
						got, _ := realSeek(st, seekRange{pfx: P, bw: true})
						if !sameKVs(got, wantBwd) {
							report("concurrent-seek", "round %d (%s): Seek backwards returned %d items, committed map has %d; %s", round, phase, len(got), len(wantBwd), firstDiff(got, wantBwd))
						}
					case 4:
						got, _ := realSeekAsync(func(ctx context.Context) chan storage.KeyValue {
							return dd.SeekAsync(ctx, daoID, storage.SeekRange{})
						}, 0)
						if !sameKVs(got, wantCut) {
							report("concurrent-seek", "round %d (%s): dao.SeekAsync (cutPrefix) returned %d items, committed map has %d; %s", round, phase, len(got), len(wantCut), firstDiff(got, wantCut))
						}
					case 5:
						got, _ := realSeek(st, seekRange{pfx: sub})
						if !sameKVs(got, wantSub) {
							report("concurrent-seek", "round %d (%s): Seek(sub-prefix) returned %d items, committed map has %d; %s", round, phase, len(got), len(wantSub), firstDiff(got, wantSub))
						}
					}
					reads.Add(1)
				}
			}(g)
		}
		// a writer on another prefix of the same `stor` map
		wg.Add(1)
		go func() {
			defer wg.Done()
			for i := 0; ; i++ {
				select {
				case <-stop:
					return
				default:
				}
				s.Put([]byte{0x71, byte(round), byte(i >> 8), byte(i)}, []byte{1})
				if i%7 == 0 {
					s.Delete([]byte{0x71, byte(round), byte(i >> 9), byte(i >> 1)})
				}
				runtime.Gosched()
			}
		}()
		// let the readers get going, then flush under their feet
		for start := reads.Load(); reads.Load() < start+12; {
			runtime.Gosched()
		}
		slow.delay.Store(true)
		var perr error
		if r.Chance(1, 6) {
			_, perr = s.PersistSync()
		} else {
			_, perr = s.Persist()
		}
		slow.delay.Store(false)
		if perr != nil {
			report("persist-error", "Persist: %v", perr)
		}
		for start := reads.Load(); reads.Load() < start+12; {
			runtime.Gosched()
		}
		close(stop)
		wg.Wait()
		o.Count("conc:flushes")
	}
	o.Add("conc:reads", int(reads.Load()))
	o.Count("conc:cases")
	o.Count("conc:backend=" + kind)
	for _, fl := range fails {
		o.Fail(fl.key, k, "%s", fl.msg)
	}
	o.Seen(fmt.Sprintf("conc%d", k))
}

func firstDiff(got, want []kv) string {
	for i := 0; i < len(got) || i < len(want); i++ {
		var g, w string
		if i < len(got) {
			g = hx.Hex(got[i].k) + ":" + hx.Hex(got[i].v)
		}
		if i < len(want) {
			w = hx.Hex(want[i].k) + ":" + hx.Hex(want[i].v)
		}
		if g != w {
			return fmt.Sprintf("first difference at item %d: got %s, committed %s", i, g, w)
		}
	}
	return "same"
}

// runTornSeekCase: a Seek that has taken its snapshot of the cached items but not yet opened the
// scan of the lower store, a writer batch {B, C} and a complete Persist in between. An atomic
// read would answer with the map before the batch or after it.
func runTornSeekCase(o *hx.Out, f *hx.Flags, k int, kind string, viaPrivate bool) {
	w, err := newWorld(kind)
	if err != nil {
		panic(err)
	}
	defer w.close()
	o.Case(k)
	if noSplit {
		return
	}
	setContract(5, 6, 0x70)
	p := newPause(w.nodes[0].st)
	d := dao.NewSimple(p, false)
	s := d.Store
	key := func(b byte) []byte { return append(bytes.Clone(daoPrefix), b) }
	s.PutChangeSet(nil, map[string][]byte{string(key('A')): {1}, string(key('B')): {1}})
	before := map[string][]byte{string(key('A')): {1}, string(key('B')): {1}}
	after := map[string][]byte{string(key('A')): {1}, string(key('B')): {2}, string(key('C')): {2}}
	var reader storage.Store = s
	if viaPrivate {
		reader = d.GetPrivate().Store
	}
	p.seekHold.Store(true)
	res := make(chan []kv, 1)
	go func() {
		got, _ := realSeek(reader, seekRange{pfx: daoPrefix})
		res <- got
	}()
	<-p.seekAt // the reader holds its snapshot {A:1, B:1} and is about to scan the lower store
	p.seekHold.Store(false)
	s.PutChangeSet(nil, map[string][]byte{string(key('B')): {2}, string(key('C')): {2}})
	if _, err := s.Persist(); err != nil {
		o.Fail("persist-error", k, "Persist: %v", err)
	}
	p.seekGo <- struct{}{}
	got := <-res
	sr := seekRange{pfx: daoPrefix}
	if !sameKVs(got, specSeek(before, sr)) && !sameKVs(got, specSeek(after, sr)) {
		o.Fail("seek-torn-by-write-and-flush", k, "Seek(private layer on top: %v) overlapped PutChangeSet{B:2,C:2} + Persist: got %s, the map was %s before the batch and %s after it",
			viaPrivate, showKVs(got), showKVs(specSeek(before, sr)), showKVs(specSeek(after, sr)))
	}
	o.Count("conc:torn-seek-cases")
}

// runBatchAtomCase: is PutChangeSet(puts, stores) one atomic batch on the backend itself?
// A writer applies batches {A: g} (non-storage map) + {B: g} (storage map) with g = 1, 2, 3 …,
// directly or through a MemCachedStore (PutChangeSet + Persist); readers on the bare backend read
// A, then B, then A again. With atomic batches A and B carry the same generation at every
// instant and generations only grow, so every reader must see gen(A₁) ≤ gen(B) ≤ gen(A₂):
// a batch written puts-first and torn shows gen(A₁) > gen(B), one written stores-first shows
// gen(B) > gen(A₂). No legal interleaving breaks the chain (reads are sequential in one goroutine).
// One more reader does the same through the cache layer, where a flush must not show either.
func runBatchAtomCase(o *hx.Out, f *hx.Flags, k int, kind string, viaCache bool, batches int) {
	w, err := newWorld(kind)
	if err != nil {
		panic(err)
	}
	defer w.close()
	o.Case(k)
	be := w.nodes[0].st
	var mc *storage.MemCachedStore
	if viaCache {
		mc = storage.NewMemCachedStore(be)
	}
	keyA := []byte{0x01, 0xaa} // chooseMap: mem  (e.g. block / MPT data)
	keyB := []byte{0x70, 0xbb} // chooseMap: stor (contract storage)
	enc := func(g uint32) []byte { return []byte{byte(g >> 24), byte(g >> 16), byte(g >> 8), byte(g)} }
	dec := func(b []byte) int64 {
		if len(b) != 4 {
			return -1
		}
		return int64(b[0])<<24 | int64(b[1])<<16 | int64(b[2])<<8 | int64(b[3])
	}
	apply := func(g uint32) error {
		puts := map[string][]byte{string(keyA): enc(g)}
		stores := map[string][]byte{string(keyB): enc(g)}
		if mc != nil {
			if err := mc.PutChangeSet(puts, stores); err != nil {
				return err
			}
			_, err := mc.Persist()
			return err
		}
		return be.PutChangeSet(puts, stores)
	}
	if err := apply(0); err != nil {
		o.Fail("persist-error", k, "initial batch: %v", err)
		return
	}
	var fails []concFail
	var fmu sync.Mutex
	report := func(format string, a ...any) {
		fmu.Lock()
		if len(fails) < 3 {
			fails = append(fails, concFail{"backend-batch-torn", fmt.Sprintf(format, a...)})
		}
		fmu.Unlock()
	}
	var reads atomic.Int64
	stop := make(chan struct{})
	var wg sync.WaitGroup
	reader := func(st storage.Store, what string) {
		defer wg.Done()
		get := func(key []byte) int64 {
			v, err := st.Get(key)
			if err != nil {
				return -2
			}
			return dec(v)
		}
		for {
			select {
			case <-stop:
				return
			default:
			}
			a1 := get(keyA)
			b := get(keyB)
			a2 := get(keyA)
			if a1 < 0 || b < 0 || a2 < 0 {
				report("%s on %s: a key of the committed batches is missing or malformed: A=%d B=%d A=%d (-2: not found)", what, kind, a1, b, a2)
			} else if a1 > b {
				report("%s on %s: read A of generation %d, then B of generation %d: half of batch %d (the non-storage map) was visible without the other half", what, kind, a1, b, a1)
			} else if b > a2 {
				report("%s on %s: read B of generation %d, then A of generation %d: half of batch %d (the storage map) was visible without the other half", what, kind, b, a2, b)
			}
			reads.Add(1)
		}
	}
	for i := 0; i < 4; i++ {
		wg.Add(1)
		go reader(be, "backend reader")
	}
	if mc != nil {
		wg.Add(1)
		go reader(mc, "reader through the cache layer")
	}
	if kind != "mem" {
		// one scan of a disk backend = one read transaction / one iterator snapshot: inside it the two
		// halves of every batch must carry the same generation
		wg.Add(1)
		go func() {
			defer wg.Done()
			for {
				select {
				case <-stop:
					return
				default:
				}
				var a, b int64 = -2, -2
				be.Seek(storage.SeekRange{}, func(k, v []byte) bool {
					if bytes.Equal(k, keyA) {
						a = dec(v)
					} else if bytes.Equal(k, keyB) {
						b = dec(v)
					}
					return true
				})
				if a != b {
					report("one scan (one snapshot) of %s saw the non-storage half at generation %d and the storage half at generation %d", kind, a, b)
				}
				reads.Add(1)
			}
		}()
	}
	for g := 1; g <= batches; g++ {
		if err := apply(uint32(g)); err != nil {
			report("PutChangeSet/Persist failed: %v", err)
			break
		}
		if g%16 == 0 {
			runtime.Gosched()
		}
	}
	close(stop)
	wg.Wait()
	for _, fl := range fails {
		o.Fail(fl.key, k, "%s", fl.msg)
	}
	o.Add("atom:batches", batches)
	o.Add("atom:reads", int(reads.Load()))
	o.Count(fmt.Sprintf("atom:cases:%s:viaCache=%v", kind, viaCache))
	o.Seen(fmt.Sprintf("atom%d", k))
}
