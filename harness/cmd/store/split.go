package main

import (
	"bytes"
	"context"
	"fmt"
	"os"
	"time"

	"github.com/nspcc-dev/neo-go/pkg/core/storage"

	"verif/harness/internal/hx"
)

// A Seek / SeekAsync in its two critical sections, deterministically: the reader goroutine takes its
// snapshots of the cache layers (down to the first shared store `hold`) and is stopped at the entry of
// `hold`'s lower store's Seek (pauseStore); the main goroutine then goes on with ordinary ops — writes
// to the shared store, whole and stepwise flushes, anything — and finally lets the reader scan the lower
// store. Model lines: `seekb` (snapshots taken) … `seeke` (the answer). The answer is also judged by
// the window oracle below, independently of the model.
// noSplit (VERIF_NO_SPLIT=1) switches the stopped scans and the torn-seek cases off: an evaluation aid for a
// candidate repair of seek-torn-by-write-and-flush that keeps the store's read lock until the lower scan has
// its snapshot — with such a change a scan cannot be stopped between its two sections at all (the writers
// of the window would wait for it), so these ops have nothing to stage.
var noSplit = os.Getenv("VERIF_NO_SPLIT") != ""

type splitSeek struct {
	reader, hold int
	sr           seekRange
	async        bool
	res          chan []kv
	// window oracle: every state ("-" = absent, else the value in hex) each key of the reader's view
	// was in at some op boundary of the window, the first entry being the state at its start
	seen  map[string]map[string]bool
	nops  int
	begin map[string][]byte // the reader's view at the start of the window
}

func stateOf(m map[string][]byte, k string) string {
	v, ok := m[k]
	if !ok {
		return "-"
	}
	return "v" + hx.Hex(v)
}

func (sp *splitSeek) record(w *world) {
	m := w.view(sp.reader, 0)
	for k := range sp.seen {
		sp.seen[k][stateOf(m, k)] = true
	}
	for k := range m {
		if sp.seen[k] == nil {
			// first seen now: it was absent at every earlier boundary of the window
			sp.seen[k] = map[string]bool{"-": true, stateOf(m, k): true}
		}
	}
}

// holdNode: the first shared store at or below the reader; -1 if the path has none.
func (r *runner) holdNode(id int) int {
	for n := r.w.nodes[id]; n != nil && n.cached(); {
		if n.pause != nil {
			return n.id
		}
		if n.ps < 0 {
			break
		}
		n = r.w.nodes[n.ps]
	}
	return -1
}

func (r *runner) splitBegin(reader int, sr seekRange, async bool) {
	hold := r.holdNode(reader)
	if hold < 0 || r.split != nil || noSplit {
		return
	}
	sr.depth = 0
	if !async {
		sr.cut = false
	}
	n := r.w.nodes[reader]
	p := r.w.nodes[hold].pause
	sp := &splitSeek{reader: reader, hold: hold, sr: sr, async: async, res: make(chan []kv, 1), seen: map[string]map[string]bool{}}
	m := r.w.view(reader, 0)
	sp.begin = m
	for k := range m {
		sp.seen[k] = map[string]bool{stateOf(m, k): true}
	}
	p.seekHold.Store(true)
	go func() {
		var got []kv
		if async {
			got, _ = realSeekAsync(func(ctx context.Context) chan storage.KeyValue {
				return r.w.mc(reader).SeekAsync(ctx, toRange(sr), sr.cut)
			}, sr.lim)
		} else {
			got, _ = realSeek(n.st, sr)
		}
		sp.res <- got
	}()
	select {
	case <-p.seekAt:
	case <-time.After(20 * time.Second):
		r.o.Fail("seek-hang", r.k, "Seek store=%d never reached the lower store's Seek", reader)
		fmt.Fprintln(os.Stderr, "seek hang")
		r.o.Close()
		os.Exit(3)
	}
	r.split = sp
	r.line(fmt.Sprintf("seekb %d %d %s %s %s %s %d", reader, hold, hx.Hex(sr.pfx), hx.Hex(sr.start), b01(sr.bw), b01(sr.cut), sr.lim), "ok")
	r.o.Count("op:split-seek")
	if reader != hold {
		r.o.Count("split:through-private-layer")
	}
	if r.w.nodes[r.w.nodes[hold].ps].temp {
		r.o.Count("split:begun-during-flush")
	}
}

// release lets a held reader go without judging it (abort path).
func (r *runner) splitRelease() {
	if r.split == nil {
		return
	}
	r.w.nodes[r.split.hold].pause.seekGo <- struct{}{}
	<-r.split.res
	r.split = nil
}

func (r *runner) splitEnd() {
	sp := r.split
	if sp == nil {
		return
	}
	r.split = nil
	r.w.nodes[sp.hold].pause.seekGo <- struct{}{}
	got := <-sp.res
	r.checkWindow(sp, got)
	r.line("seeke", showKVs(got))
	r.o.Count(fmt.Sprintf("split:ops-in-window=%s", bucket(sp.nops)))
}

// checkWindow is the property's oracle for a scan that overlaps writes and flushes: the answer is in
// scan order without duplicates, every key is in range, and for every key the scan's verdict (the
// value, or absence) is a state that key was in at some moment of the window; in particular keys
// nobody wrote are exactly as at the start.
func (r *runner) checkWindow(sp *splitSeek, got []kv) {
	sr := sp.sr
	bad := func(format string, a ...any) {
		r.fail("seek-window-violation", "scan of store %d (prefix=%s start=%s bw=%v cut=%v lim=%d, %d ops inside its window) returned %s: %s",
			sp.reader, hx.Hex(sr.pfx), hx.Hex(sr.start), sr.bw, sr.cut, sr.lim, sp.nops, showKVs(got), fmt.Sprintf(format, a...))
	}
	full := func(k []byte) []byte {
		if sr.cut {
			return append(bytes.Clone(sr.pfx), k...)
		}
		return k
	}
	returned := map[string]string{}
	var last []byte
	for i, e := range got {
		k := full(e.k)
		if !inRange(k, seekRange{pfx: sr.pfx, start: sr.start, bw: sr.bw}) {
			bad("key %s is outside the range", hx.Hex(k))
			return
		}
		if i > 0 {
			c := bytes.Compare(last, k)
			if (!sr.bw && c >= 0) || (sr.bw && c <= 0) {
				bad("keys %s, %s out of order / duplicated", hx.Hex(last), hx.Hex(k))
				return
			}
		}
		last = k
		returned[string(k)] = "v" + hx.Hex(e.v)
	}
	if sr.lim > 0 && len(got) > sr.lim {
		bad("more items than the callback accepted")
		return
	}
	stopped := sr.lim > 0 && len(got) == sr.lim
	for k, states := range sp.seen {
		if !inRange([]byte(k), seekRange{pfx: sr.pfx, start: sr.start, bw: sr.bw}) {
			continue
		}
		st, ok := returned[k]
		if !ok {
			if stopped {
				c := bytes.Compare([]byte(k), last)
				if (!sr.bw && c > 0) || (sr.bw && c < 0) {
					continue // beyond the point where the callback stopped
				}
			}
			st = "-"
		}
		if !states[st] {
			var all []string
			for s := range states {
				all = append(all, s)
			}
			bad("key %s: the scan says %q, but during the window it only ever was %v", hx.Hex([]byte(k)), st, all)
			return
		}
	}
	for k := range returned {
		if sp.seen[k] == nil {
			bad("key %s was never in the view during the window", hx.Hex([]byte(k)))
			return
		}
	}
	r.o.Count("oracle:window-checks")
	// how the answer relates to the one-step answers at the two ends of the window
	atBegin := sameKVs(got, specSeek(sp.begin, sr))
	atEnd := sameKVs(got, specSeek(r.w.view(sp.reader, 0), sr))
	switch {
	case atBegin && atEnd:
		r.o.Count("split:answer=both-ends")
	case atBegin:
		r.o.Count("split:answer=start-of-window")
	case atEnd:
		r.o.Count("split:answer=end-of-window")
	default:
		r.o.Count("split:answer=neither(mixed generations)")
	}
}
