package main

import (
	"bytes"
	"encoding/binary"
	"errors"
	"fmt"
	"hash/fnv"
	"os"
	"path/filepath"
	"sync"
	"sync/atomic"

	"github.com/nspcc-dev/neo-go/pkg/core/storage"

	"verif/harness/internal/hx"
	"verif/harness/internal/prng"
)

// "One PutChangeSet on BoltDB is one committed transaction", read off the database file itself.
//
// bbolt keeps two meta pages at file offsets 0 and pageSize: a 16-byte page header, then
// magic u32, version u32, pageSize u32, flags u32, root{pgid u64, sequence u64}, freelist u64,
// pgid u64, txid u64 (byte 64 of the page), checksum u64 (FNV-64a of the 56 bytes before it).
// Every committed read-write transaction writes the meta page txid%2 with its own txid = previous
// txid + 1; the valid meta with the larger txid is the current one. So the txid before and after a
// call tells how many transactions it committed.

const boltMagic = 0xED0CDAED

func readBoltMeta(b []byte) (txid uint64, pageSize uint32, ok bool) {
	if len(b) < 80 {
		return 0, 0, false
	}
	if binary.LittleEndian.Uint32(b[16:]) != boltMagic || binary.LittleEndian.Uint32(b[20:]) != 2 {
		return 0, 0, false
	}
	h := fnv.New64a()
	h.Write(b[16:72])
	if h.Sum64() != binary.LittleEndian.Uint64(b[72:]) {
		return 0, 0, false
	}
	return binary.LittleEndian.Uint64(b[64:]), binary.LittleEndian.Uint32(b[24:]), true
}

// boltTxid returns the txid of the current (valid, newest) meta page of a bbolt file.
func boltTxid(path string) (uint64, error) {
	f, err := os.Open(path)
	if err != nil {
		return 0, err
	}
	defer f.Close()
	m0 := make([]byte, 80)
	if _, err := f.ReadAt(m0, 0); err != nil {
		return 0, err
	}
	t0, ps, ok0 := readBoltMeta(m0)
	if !ok0 {
		// page size unknown from meta 0: try the usual ones for meta 1
		for _, cand := range []uint32{4096, 8192, 16384, 65536} {
			m1 := make([]byte, 80)
			if _, err := f.ReadAt(m1, int64(cand)); err == nil {
				if t1, _, ok1 := readBoltMeta(m1); ok1 {
					return t1, nil
				}
			}
		}
		return 0, errors.New("no valid meta page")
	}
	m1 := make([]byte, 80)
	if _, err := f.ReadAt(m1, int64(ps)); err == nil {
		if t1, _, ok1 := readBoltMeta(m1); ok1 && t1 > t0 {
			return t1, nil
		}
	}
	return t0, nil
}

// runBoltTxCase: sequences of change sets of every shape (puts only, stores only, both halves, deletions,
// empty halves) straight to the BoltDB store and through a cache layer's Persist; after each the meta
// txid must have advanced by exactly one, and a reader goroutine that reads the two halves of every
// batch in one View of the store (Seek over everything is one bbolt read transaction) must find them
// carrying the same generation.
func runBoltTxCase(o *hx.Out, f *hx.Flags, k int, nBatches int) {
	w, err := newWorld("bolt")
	if err != nil {
		panic(err)
	}
	defer w.close()
	o.Case(k)
	setContract(5, 6, 0x70)
	r := prng.ForCase(f.Seed, k)
	be := w.nodes[0].st
	path := filepath.Join(w.dir, "bolt.db")
	mc := storage.NewMemCachedStore(be)
	last, err := boltTxid(path)
	if err != nil {
		o.Fail("bolt-meta-unreadable", k, "cannot read the meta pages of %s: %v", path, err)
		return
	}
	// the reader: one Seek of the bare backend = one bbolt read transaction; the generation marker
	// keys of the two halves must agree inside it
	keyA, keyB := []byte{0x01, 0xaa}, []byte{0x70, 0xbb}
	var fails []string
	var fmu sync.Mutex
	report := func(s string) {
		fmu.Lock()
		if len(fails) < 3 {
			fails = append(fails, s)
		}
		fmu.Unlock()
	}
	stop := make(chan struct{})
	var wg sync.WaitGroup
	var views atomic.Int64
	wg.Add(1)
	go func() {
		defer wg.Done()
		for {
			select {
			case <-stop:
				return
			default:
			}
			var a, b []byte
			be.Seek(storage.SeekRange{}, func(k, v []byte) bool {
				if bytes.Equal(k, keyA) {
					a = bytes.Clone(v)
				} else if bytes.Equal(k, keyB) {
					b = bytes.Clone(v)
				}
				return true
			})
			if !bytes.Equal(a, b) {
				report(fmt.Sprintf("one read transaction saw the non-storage half at generation %x and the storage half at generation %x", a, b))
			}
			views.Add(1)
		}
	}()
	gen := uint32(0)
	for i := 0; i < nBatches; i++ {
		gen++
		g := []byte{byte(gen >> 24), byte(gen >> 16), byte(gen >> 8), byte(gen)}
		puts, stores := map[string][]byte{}, map[string][]byte{}
		shape := r.Intn(5)
		// both marker keys in every two-half batch; other shapes leave the markers alone
		if shape == 0 || shape == 1 {
			puts[string(keyA)], stores[string(keyB)] = g, g
		}
		for j, n := 0, r.Intn(4); j < n && shape != 3; j++ {
			key := []byte{0x02, byte(r.Intn(8))}
			if r.Chance(1, 4) {
				puts[string(key)] = nil
			} else {
				puts[string(key)] = g
			}
		}
		for j, n := 0, r.Intn(4); j < n && shape != 2; j++ {
			key := []byte{0x70, 0x05, byte(r.Intn(8))}
			if r.Chance(1, 4) {
				stores[string(key)] = nil
			} else {
				stores[string(key)] = g
			}
		}
		if shape == 4 && len(puts)+len(stores) == 0 {
			puts[string([]byte{0x02, 0xff})] = g
		}
		nonEmpty := len(puts)+len(stores) > 0
		via := r.Chance(1, 3)
		var err error
		if via {
			if err = mc.PutChangeSet(puts, stores); err == nil {
				_, err = mc.Persist()
			}
		} else {
			err = be.PutChangeSet(puts, stores)
		}
		if err != nil {
			o.Fail("persist-error", k, "batch %d: %v", i, err)
			break
		}
		now, err := boltTxid(path)
		if err != nil {
			o.Fail("bolt-meta-unreadable", k, "after batch %d: %v", i, err)
			break
		}
		shapeName := fmt.Sprintf("puts=%d,stores=%d,viaCache=%v", len(puts), len(stores), via)
		switch {
		case nonEmpty && now != last+1:
			o.Fail("bolt-changeset-not-one-tx", k, "batch %d (%s): the BoltDB meta txid went from %d to %d: one PutChangeSet must be exactly one committed transaction", i, shapeName, last, now)
			i = nBatches
		case !nonEmpty && now > last+1:
			o.Fail("bolt-changeset-not-one-tx", k, "empty batch %d (%s): txid went from %d to %d", i, shapeName, last, now)
			i = nBatches
		}
		last = now
		o.Count("bolttx:batches")
		if len(puts) > 0 && len(stores) > 0 {
			o.Count("bolttx:batches-with-both-halves")
		}
	}
	close(stop)
	wg.Wait()
	for _, s := range fails {
		o.Fail("backend-batch-torn", k, "BoltDB: %s", s)
	}
	o.Add("bolttx:read-transactions", int(views.Load()))
	o.Seen(fmt.Sprintf("bolttx%d", k))
}
