package main

import (
	"bytes"

	istorage "github.com/nspcc-dev/neo-go/pkg/core/interop/storage"
)

// Hand-written cases, run first (cases 0..n) on the listed backends.
type corpusCase struct {
	kinds []string
	run   func(r *runner)
}

func cat(bs ...[]byte) []byte { return bytes.Join(bs, nil) }

var allKinds = []string{"mem", "bolt", "level"}

var corpusCases = []corpusCase{
	// The performSeek cutPrefix defect fixed by /repo af64e2b: the lower store has P‖x, the cache
	// has P‖P‖x; with cutPrefix the cached key is cut to P‖x, and once consumed it used to be
	// compared with the lower key P‖x, which was dropped. Both directions, both entry points.
	{allKinds, func(r *runner) {
		P := daoPrefix
		r.line("new 0 "+r.w.nodes[0].kind, "ok")
		r.opChangeSet(0, []kv{{cat(P, []byte{0x71}), []byte{1}}, {cat(P, []byte{0x6f}), []byte{2}}})
		n := r.w.addLayer(0, false)
		r.line("layer 1 0 0", "ok")
		r.opPut(n.id, cat(P, P, []byte{0x71}), []byte{3}, false)
		r.opPut(n.id, cat(P, P, []byte{0x6f}), []byte{4}, false)
		for _, bw := range []bool{false, true} {
			r.opSeekAsync(1, seekRange{pfx: P, cut: true, bw: bw})
			r.opSeekAsync(1, seekRange{pfx: P, cut: false, bw: bw})
			r.opSeek(1, seekRange{pfx: P, bw: bw})
			r.opDaoSeek(1, seekRange{bw: bw}, true, reNone)
			r.opDaoSeek(1, seekRange{bw: bw}, false, reNone)
		}
		// one more layer: the cut happens only at the top
		p := r.w.addLayer(1, true)
		r.line("layer 2 1 1", "ok")
		r.opPut(p.id, cat(P, P, P, []byte{0x71}), []byte{5}, true)
		for _, bw := range []bool{false, true} {
			r.opSeekAsync(2, seekRange{pfx: P, cut: true, bw: bw})
			r.opSeekAsync(2, seekRange{pfx: cat(P, P), cut: true, bw: bw})
			r.opDaoSeek(2, seekRange{pfx: P, bw: bw}, true, reNone)
			for _, opts := range []int64{0, istorage.FindRemovePrefix, istorage.FindKeysOnly, istorage.FindValuesOnly} {
				if bw {
					opts |= istorage.FindBackwards
				}
				r.opFind(2, nil, opts, 0)
				r.opFind(2, P, opts, 0)
			}
		}
		r.o.Count("corpus:cutprefix")
	}},
	// Backward seek with a non-empty Start: the scan starts at the last key having prefix‖start
	// as a prefix, on every backend and in every cache layer. Before /repo 5043d25 the in-memory
	// stores filtered key <= prefix‖start: a cached key extending the start point was invisible
	// until flushed and a cached deletion of such a key did not hide the disk's copy.
	{allKinds, func(r *runner) {
		r.line("new 0 "+r.w.nodes[0].kind, "ok")
		r.opChangeSet(0, []kv{
			{[]byte{0x70, 0x00}, []byte{1}},
			{[]byte{0x70, 0x00, 0x70}, []byte{2}},
			{[]byte{0x70, 0x00, 0x70, 0x71}, []byte{3}},
			{[]byte{0x70, 0x00, 0x71}, []byte{4}},
		})
		sr := seekRange{pfx: []byte{0x70}, start: []byte{0x00, 0x70}, bw: true}
		r.opSeek(0, sr)
		r.w.addLayer(0, false)
		r.line("layer 1 0 0", "ok")
		r.opSeek(1, sr)
		r.opPut(1, []byte{0x70, 0x00, 0x70, 0xff}, []byte{5}, false)
		r.opDel(1, []byte{0x70, 0x00, 0x70, 0x71}, false)
		r.opSeek(1, sr)
		r.opSeekAsync(1, seekRange{pfx: []byte{0x70}, start: []byte{0x00, 0x70}, bw: true, cut: true})
		r.opPersist(1, false)
		r.opSeek(1, sr)
		// forward with a start, and backward without one, agree everywhere
		r.opSeek(1, seekRange{pfx: []byte{0x70}, start: []byte{0x00, 0x70}})
		r.opSeek(1, seekRange{pfx: []byte{0x70}, bw: true})
		// prefix‖start ending in 0xff, and an all-0xff prefix (BytesPrefix has no limit then)
		r.opChangeSet(0, []kv{{[]byte{0xff}, []byte{6}}, {[]byte{0xff, 0xff}, []byte{7}}, {[]byte{0xff, 0xff, 0x00}, []byte{8}}, {[]byte{0xff, 0x00}, []byte{9}}})
		for _, bw := range []bool{false, true} {
			r.opSeek(1, seekRange{pfx: []byte{0xff}, bw: bw})
			r.opSeek(1, seekRange{pfx: []byte{0xff, 0xff}, bw: bw})
			r.opSeek(0, seekRange{pfx: []byte{0xff}, start: []byte{0xff}, bw: bw})
			r.opSeek(1, seekRange{pfx: []byte{0xff}, start: []byte{0x00}, bw: bw})
			r.opSeek(1, seekRange{pfx: []byte{0x70, 0x00}, start: []byte{0xff}, bw: bw})
		}
		r.o.Count("corpus:backward-start")
	}},
	// A dao-level scan whose callback uses the same dao (what native contracts do): the prefix
	// handed to the store must not alias the private dao's reusable key buffer. BoltDB re-reads
	// rng.Prefix at every cursor step, so with an aliased prefix the scan stops after the first
	// flushed item. Shared and private daos, every backend, both directions, sync and async.
	{allKinds, func(r *runner) {
		P := daoPrefix
		r.line("new 0 "+r.w.nodes[0].kind, "ok")
		r.opChangeSet(0, []kv{{cat(P, []byte{1}), []byte{1}}, {cat(P, []byte{2}), []byte{2}}, {cat(P, []byte{2, 0}), []byte{3}},
			{cat(P, []byte{3}), []byte{4}}, {[]byte{0x70, 6, 0, 0, 0, 9}, []byte{5}}})
		r.w.addLayer(0, false)
		r.line("layer 1 0 0", "ok")
		r.w.addLayer(1, true)
		r.line("layer 2 1 1", "ok")
		r.w.addLayer(2, true)
		r.line("layer 3 2 1", "ok")
		r.opPut(3, cat(P, []byte{2, 1}), []byte{6}, true)
		for _, id := range []int{1, 2, 3} {
			for _, bw := range []bool{false, true} {
				for _, async := range []bool{false, true} {
					r.opDaoSeek(id, seekRange{bw: bw}, async, reAlways)
					r.opDaoSeek(id, seekRange{pfx: []byte{2}, bw: bw}, async, reAlways)
					r.opDaoSeek(id, seekRange{bw: bw}, async, reRandom)
				}
			}
		}
		r.o.Count("corpus:reentrant-dao-seek")
	}},
	// No bleed between contracts: contract 5 next to contracts whose little-endian id bytes contain 05
	// (1285 = 05 05 00 00, 1280 = 00 05 00 00, 0x05000000, 0x01000005), a native (negative) id, the same
	// id under the other storage prefix byte, and raw keys that are proper prefixes of the contract
	// prefix. Every scan of contract 5 (whole contract, sub-prefix, both directions, Seek / SeekAsync /
	// Find with every option word) must show contract 5's items only; then the same for contract -1
	// and for contract 5 under prefix byte 0x71 (the DAO of a node created during state sync).
	{allKinds, func(r *runner) {
		r.line("new 0 "+r.w.nodes[0].kind, "ok")
		item := func(sp byte, id int32, tail ...byte) []byte { return append(contractPrefix(sp, id), tail...) }
		r.opChangeSet(0, []kv{
			{item(0x70, 5), []byte{1}}, {item(0x70, 5, 0), []byte{2}}, {item(0x70, 5, 5, 0, 0, 0), []byte{3}},
			{item(0x70, 1285), []byte{4}}, {item(0x70, 1285, 0), []byte{5}}, {item(0x70, 1280, 5), []byte{6}},
			{item(0x70, 0x05000000), []byte{7}}, {item(0x70, 0x01000005, 0), []byte{8}},
			{item(0x70, -1, 5), []byte{9}}, {item(0x70, -1), []byte{10}}, {item(0x71, 5, 0), []byte{11}},
			{[]byte{0x70, 5, 0, 0}, []byte{12}}, {[]byte{0x70, 5}, []byte{13}}, {[]byte{0x70}, []byte{14}},
		})
		r.w.addLayer(0, false)
		r.line("layer 1 0 0", "ok")
		r.opPut(1, item(0x70, 5, 0xff), []byte{15}, true)
		r.opPut(1, item(0x70, 6), []byte{16}, false)
		r.opDel(1, item(0x70, 5, 0), true)
		r.opPut(1, item(0x70, 4, 0xff, 0xff), []byte{17}, false)
		scan := func(id int) {
			for _, bw := range []bool{false, true} {
				r.opDaoSeek(id, seekRange{bw: bw}, false, reNone)
				r.opDaoSeek(id, seekRange{bw: bw}, true, reNone)
				r.opDaoSeek(id, seekRange{pfx: []byte{5}, bw: bw}, true, reNone)
				r.opDaoSeek(id, seekRange{start: []byte{5}, bw: bw}, false, reNone)
				r.opDaoSeek(id, seekRange{bw: bw, lim: 2}, bw, reNone)
				for _, opts := range append(append([]int64{}, findGoodOpts[1:]...), findBadOpts...) {
					if bw {
						opts |= istorage.FindBackwards
					}
					r.opFind(id, nil, opts, 0)
				}
				r.opFind(id, []byte{5}, 0, 0)
				r.opFind(id, []byte{5, 0}, istorage.FindRemovePrefix, 1)
			}
		}
		scan(1)
		setContract(-1, 5, 0x70)
		scan(1)
		setContract(1285, 5, 0x70)
		scan(1)
		// a DAO working under the temporary storage prefix
		setContract(5, 1285, 0x71)
		r.w.addLayer(1, true)
		r.line("layer 2 1 1", "ok")
		r.opPut(2, item(0x71, 5, 1), []byte{18}, true)
		scan(2)
		r.opGet(2, item(0x70, 5, 0xff))
		setContract(5, 6, 0x70)
		r.o.Count("corpus:dao-no-bleed")
	}},
	// A scan stopped between its two sections with a batch and whole flushes inside its window: the
	// minimal mixed-generation scan (known finding seek-torn-by-write-and-flush: B of the first
	// generation next to C of the second) — every single key still carries a value it had during the
	// window, which is what the window oracle and the model's seekSplit demand; a deletion that is
	// flushed during the window; a reader behind its own private layer.
	{allKinds, func(r *runner) {
		r.line("new 0 "+r.w.nodes[0].kind, "ok")
		key := func(b ...byte) []byte { return append(bytes.Clone(daoPrefix), b...) }
		r.opChangeSet(0, []kv{{key('C'), []byte{0}}, {key('D'), []byte{0}}})
		r.w.addLayer(0, false)
		r.line("layer 1 0 0", "ok")
		r.opPut(1, key('A'), []byte{1}, false)
		r.opPut(1, key('B'), []byte{1}, false)
		for _, async := range []bool{false, true} {
			for _, bw := range []bool{false, true} {
				r.splitBegin(1, seekRange{pfx: daoPrefix, bw: bw, cut: async}, async)
				r.opChangeSet(1, []kv{{key('B'), []byte{2}}, {key('C'), []byte{2}}})
				r.opPersist(1, false)
				r.opDel(1, key('D'), false)
				r.opPersist(1, true)
				r.opPut(1, key('A'), []byte{3}, false)
				r.splitEnd()
				r.opSeek(1, seekRange{pfx: daoPrefix, bw: bw})
				r.opChangeSet(1, []kv{{key('B'), []byte{1}}, {key('D'), []byte{0}}})
			}
		}
		r.w.addLayer(1, true)
		r.line("layer 2 1 1", "ok")
		r.opPut(2, key('E'), []byte{5}, false)
		r.opDel(2, key('A'), false)
		r.splitBegin(2, seekRange{pfx: daoPrefix}, false)
		r.opChangeSet(1, []kv{{key('A'), []byte{6}}, {key('E'), []byte{6}}, {key('F'), []byte{6}}, {key('C'), nil}})
		r.opPersist(1, false)
		r.splitEnd()
		r.opSeek(2, seekRange{pfx: daoPrefix})
		r.o.Count("corpus:split-seek")
	}},
	// SeekGC deleting under the cursor: runs of adjacent keys all deleted, every second one deleted,
	// backwards, with an early stop on a deleted / on a kept item, on the bare backend and on a layer.
	{allKinds, func(r *runner) {
		r.line("new 0 "+r.w.nodes[0].kind, "ok")
		var es []kv
		for i := 0; i < 12; i++ {
			es = append(es, kv{[]byte{0x70, 1, byte(i)}, []byte{byte(i)}})
		}
		es = append(es, kv{[]byte{0x70, 1}, []byte{0xaa}}, kv{[]byte{0x70, 2}, []byte{0xbb}}, kv{[]byte{0x70, 0}, []byte{0xcc}})
		r.opChangeSet(0, es)
		all := seekRange{pfx: []byte{0x70}}
		r.opSeekGC(0, seekRange{pfx: []byte{0x70, 1}, start: []byte{3}}, 2)
		r.opSeek(0, all)
		r.opSeekGC(0, seekRange{pfx: []byte{0x70, 1}, bw: true, lim: 3}, 3)
		r.opSeek(0, all)
		r.opSeekGC(0, seekRange{pfx: []byte{0x70}, bw: true, start: []byte{1, 7}}, 2)
		r.opSeek(0, all)
		r.opChangeSet(0, es)
		r.opSeekGC(0, seekRange{pfx: []byte{0x70, 1}, lim: 5}, 1) // every visited item deleted, stop at the 5th
		r.opSeek(0, all)
		r.opSeekGC(0, seekRange{pfx: []byte{0x70}}, 1) // everything
		r.opSeek(0, all)
		r.w.addLayer(0, false)
		r.line("layer 1 0 0", "ok")
		r.opChangeSet(0, es[:6])
		r.opChangeSet(1, es[3:9])
		r.opDel(1, []byte{0x70, 1, 1}, false)
		r.opSeekGC(1, seekRange{pfx: []byte{0x70, 1}}, 2)
		r.opSeek(1, all)
		r.opSeekGC(1, seekRange{pfx: []byte{0x70, 1}, bw: true, lim: 2}, 3)
		r.opSeek(1, all)
		r.o.Count("corpus:seekgc-under-cursor")
	}},
	// PersistSync (and Persist) arriving while an asynchronous Persist is in flight — the statesync
	// module's dao.PersistSync() against the persist timer's dao.Persist() on the same DAO. The second
	// flush has to wait for the first (plock); if it does not, its batch goes into the tempstore of the
	// first one and is dropped with it: new keys missing, overwritten keys stale, deleted keys back, in
	// the cache's answers and in the backend (seed C09-m6). First batch {A:1, C:1, D:1}; while it is
	// being written: B:2 (new), C:2 (overwrite), D deleted, then the second flush; both windows, both kinds.
	{allKinds, func(r *runner) {
		r.line("new 0 "+r.w.nodes[0].kind, "ok")
		key := func(b ...byte) []byte { return append(bytes.Clone(daoPrefix), b...) }
		r.w.addLayer(0, false)
		r.line("layer 1 0 0", "ok")
		gen := byte(0)
		for _, kind := range []int{1, 2} {
			for _, win := range []int{1, 2} {
				gen += 2
				r.opChangeSet(1, []kv{{key('A'), []byte{gen - 1}}, {key('C'), []byte{gen - 1}}, {key('D'), []byte{gen - 1}}})
				r.forceOverlap = kind
				g := gen
				r.scriptWindow = func(w int) {
					if w != win {
						return
					}
					r.opPut(1, key('B', g), []byte{g}, false)
					r.opPut(1, key('C'), []byte{g}, false)
					r.opDel(1, key('D'), false)
				}
				r.opPausedPersist(1, false)
				r.scriptWindow = nil
				r.opGet(1, key('B', g))
				r.opGet(1, key('C'))
				r.opGet(1, key('D'))
				r.opSeek(1, seekRange{pfx: daoPrefix})
				// what a restarted node would find
				r.opSeek(0, seekRange{pfx: daoPrefix})
				r.opPersist(1, false)
			}
		}
		// the same around a flush that fails
		r.opChangeSet(1, []kv{{key('A'), []byte{0x31}}, {key('D'), []byte{0x31}}})
		r.forceOverlap = 1
		r.scriptWindow = func(w int) { r.opPut(1, key('E'), []byte{0x32}, false); r.opDel(1, key('A'), false) }
		r.opPausedPersist(1, true)
		r.scriptWindow = nil
		r.opSeek(1, seekRange{pfx: daoPrefix})
		r.opSeek(0, seekRange{pfx: daoPrefix})
		r.o.Count("corpus:flush-overlap")
	}},
	// SeekAsync / System.Storage.Find are pinned to the moment of the call (seed C09-m7 takes the top
	// layer's snapshot lazily, inside the seeking goroutine): Find, then Put / overwrite / Delete under
	// the prefix in the same layer, then iterate — the iteration is the map as of the call, whether the
	// seeking goroutine has run before the writes (yield) or provably not (GOMAXPROCS(1)). Shared layer and
	// private (transaction-level) layer on top, both directions, with and without prefix trimming.
	{allKinds, func(r *runner) {
		r.line("new 0 "+r.w.nodes[0].kind, "ok")
		key := func(b ...byte) []byte { return append(bytes.Clone(daoPrefix), b...) }
		r.opChangeSet(0, []kv{{key(1), []byte{1}}, {key(2), []byte{2}}, {key(9), []byte{9}}})
		r.w.addLayer(0, false)
		r.line("layer 1 0 0", "ok")
		r.opPut(1, key(3), []byte{3}, false)
		r.w.addLayer(1, true)
		r.line("layer 2 1 1", "ok")
		r.opPut(2, key(4), []byte{4}, true)
		g := byte(0x10)
		for _, id := range []int{1, 2} {
			for _, pinned := range []bool{true, false} {
				for _, bw := range []bool{false, true} {
					g++
					ws := []asyncWrite{{key(5, g), []byte{g}}, {key(2), []byte{g}}, {key(1), nil}, {key(0), []byte{g}}}
					r.opSeekAsyncWrites(id, seekRange{pfx: daoPrefix, bw: bw, cut: bw}, ws, pinned)
					r.opSeek(id, seekRange{pfx: daoPrefix})
					r.opFindWrites(id, nil, bw, []asyncWrite{{key(1), []byte{g}}, {key(5, g), nil}, {key(9), []byte{g}}}, pinned)
					r.opSeekAsyncWrites(id, seekRange{pfx: key(5), bw: bw, cut: true, lim: 1}, []asyncWrite{{key(5, 0), []byte{g}}}, pinned)
				}
			}
		}
		r.o.Count("corpus:seekasync-pinned")
	}},
}
