package main

import (
	"bytes"

	istorage "github.com/nspcc-dev/neo-go/pkg/core/interop/storage"
)

// Hand-written cases, run first (cases 0..n) on the listed backends.
type corpusCase struct {
	kinds []string
	run   func(r *runner)
}

func cat(bs ...[]byte) []byte { return bytes.Join(bs, nil) }

var allKinds = []string{"mem", "bolt", "level"}

var corpusCases = []corpusCase{
	// The performSeek cutPrefix defect fixed by /repo af64e2b: the lower store has P‖x, the cache
	// has P‖P‖x; with cutPrefix the cached key is cut to P‖x, and once consumed it used to be
	// compared with the lower key P‖x, which was dropped. Both directions, both entry points.
	{allKinds, func(r *runner) {
		P := daoPrefix
		r.line("new 0 "+r.w.nodes[0].kind, "ok")
		r.opChangeSet(0, []kv{{cat(P, []byte{0x71}), []byte{1}}, {cat(P, []byte{0x6f}), []byte{2}}})
		n := r.w.addLayer(0, false)
		r.line("layer 1 0 0", "ok")
		r.opPut(n.id, cat(P, P, []byte{0x71}), []byte{3}, false)
		r.opPut(n.id, cat(P, P, []byte{0x6f}), []byte{4}, false)
		for _, bw := range []bool{false, true} {
			r.opSeekAsync(1, seekRange{pfx: P, cut: true, bw: bw})
			r.opSeekAsync(1, seekRange{pfx: P, cut: false, bw: bw})
			r.opSeek(1, seekRange{pfx: P, bw: bw})
			r.opDaoSeek(1, seekRange{bw: bw}, true, reNone)
			r.opDaoSeek(1, seekRange{bw: bw}, false, reNone)
		}
		// one more layer: the cut happens only at the top
		p := r.w.addLayer(1, true)
		r.line("layer 2 1 1", "ok")
		r.opPut(p.id, cat(P, P, P, []byte{0x71}), []byte{5}, true)
		for _, bw := range []bool{false, true} {
			r.opSeekAsync(2, seekRange{pfx: P, cut: true, bw: bw})
			r.opSeekAsync(2, seekRange{pfx: cat(P, P), cut: true, bw: bw})
			r.opDaoSeek(2, seekRange{pfx: P, bw: bw}, true, reNone)
			for _, opts := range []int64{0, istorage.FindRemovePrefix, istorage.FindKeysOnly, istorage.FindValuesOnly} {
				if bw {
					opts |= istorage.FindBackwards
				}
				r.opFind(2, nil, opts, 0)
				r.opFind(2, P, opts, 0)
			}
		}
		r.o.Count("corpus:cutprefix")
	}},
	// Backward seek with a non-empty Start: the scan starts at the last key having prefix‖start
	// as a prefix, on every backend and in every cache layer. Before /repo 5043d25 the in-memory
	// stores filtered key <= prefix‖start: a cached key extending the start point was invisible
	// until flushed and a cached deletion of such a key did not hide the disk's copy.
	{allKinds, func(r *runner) {
		r.line("new 0 "+r.w.nodes[0].kind, "ok")
		r.opChangeSet(0, []kv{
			{[]byte{0x70, 0x00}, []byte{1}},
			{[]byte{0x70, 0x00, 0x70}, []byte{2}},
			{[]byte{0x70, 0x00, 0x70, 0x71}, []byte{3}},
			{[]byte{0x70, 0x00, 0x71}, []byte{4}},
		})
		sr := seekRange{pfx: []byte{0x70}, start: []byte{0x00, 0x70}, bw: true}
		r.opSeek(0, sr)
		r.w.addLayer(0, false)
		r.line("layer 1 0 0", "ok")
		r.opSeek(1, sr)
		r.opPut(1, []byte{0x70, 0x00, 0x70, 0xff}, []byte{5}, false)
		r.opDel(1, []byte{0x70, 0x00, 0x70, 0x71}, false)
		r.opSeek(1, sr)
		r.opSeekAsync(1, seekRange{pfx: []byte{0x70}, start: []byte{0x00, 0x70}, bw: true, cut: true})
		r.opPersist(1, false)
		r.opSeek(1, sr)
		// forward with a start, and backward without one, agree everywhere
		r.opSeek(1, seekRange{pfx: []byte{0x70}, start: []byte{0x00, 0x70}})
		r.opSeek(1, seekRange{pfx: []byte{0x70}, bw: true})
		// prefix‖start ending in 0xff, and an all-0xff prefix (BytesPrefix has no limit then)
		r.opChangeSet(0, []kv{{[]byte{0xff}, []byte{6}}, {[]byte{0xff, 0xff}, []byte{7}}, {[]byte{0xff, 0xff, 0x00}, []byte{8}}, {[]byte{0xff, 0x00}, []byte{9}}})
		for _, bw := range []bool{false, true} {
			r.opSeek(1, seekRange{pfx: []byte{0xff}, bw: bw})
			r.opSeek(1, seekRange{pfx: []byte{0xff, 0xff}, bw: bw})
			r.opSeek(0, seekRange{pfx: []byte{0xff}, start: []byte{0xff}, bw: bw})
			r.opSeek(1, seekRange{pfx: []byte{0xff}, start: []byte{0x00}, bw: bw})
			r.opSeek(1, seekRange{pfx: []byte{0x70, 0x00}, start: []byte{0xff}, bw: bw})
		}
		r.o.Count("corpus:backward-start")
	}},
	// A dao-level scan whose callback uses the same dao (what native contracts do): the prefix
	// handed to the store must not alias the private dao's reusable key buffer. BoltDB re-reads
	// rng.Prefix at every cursor step, so with an aliased prefix the scan stops after the first
	// flushed item. Shared and private daos, every backend, both directions, sync and async.
	{allKinds, func(r *runner) {
		P := daoPrefix
		r.line("new 0 "+r.w.nodes[0].kind, "ok")
		r.opChangeSet(0, []kv{{cat(P, []byte{1}), []byte{1}}, {cat(P, []byte{2}), []byte{2}}, {cat(P, []byte{2, 0}), []byte{3}},
			{cat(P, []byte{3}), []byte{4}}, {[]byte{0x70, 6, 0, 0, 0, 9}, []byte{5}}})
		r.w.addLayer(0, false)
		r.line("layer 1 0 0", "ok")
		r.w.addLayer(1, true)
		r.line("layer 2 1 1", "ok")
		r.w.addLayer(2, true)
		r.line("layer 3 2 1", "ok")
		r.opPut(3, cat(P, []byte{2, 1}), []byte{6}, true)
		for _, id := range []int{1, 2, 3} {
			for _, bw := range []bool{false, true} {
				for _, async := range []bool{false, true} {
					r.opDaoSeek(id, seekRange{bw: bw}, async, reAlways)
					r.opDaoSeek(id, seekRange{pfx: []byte{2}, bw: bw}, async, reAlways)
					r.opDaoSeek(id, seekRange{bw: bw}, async, reRandom)
				}
			}
		}
		r.o.Count("corpus:reentrant-dao-seek")
	}},
}
