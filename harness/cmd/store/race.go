package main

import (
	"bytes"
	"context"
	"fmt"
	"runtime"
	"sync"
	"sync/atomic"
	"time"

	"github.com/nspcc-dev/neo-go/pkg/core/dao"
	"github.com/nspcc-dev/neo-go/pkg/core/storage"

	"verif/harness/internal/hx"
	"verif/harness/internal/prng"
)

// Window race cases (oracle only): a writer and a flusher racing seekers on one shared MemCachedStore
// over a backend — the real two-section Seek under real scheduling.
//
// One global logical clock (an atomic counter). The writer brackets every write with two ticks
// (before, after): the write takes effect at some instant between them; every value is unique.
// A seeker brackets every scan the same way: [ts, te] contains the scan's window. Afterwards every
// scan is judged against the history (the counterpart of theorem seek_window_instant):
//   - strictly ordered in scan direction, no duplicates, every key in range;
//   - for EVERY key of the key space, returned or not: the scan's verdict (that value / absent) must
//     have been the key's state at some instant of [ts, te], i.e. it is the state set by a write j of
//     that key with before(j) <= te and (j is the last write, or after(j+1) >= ts);
//     in particular a key nobody wrote during [ts, te] is reported exactly as it was.
// No legal schedule violates this, whatever the interleaving with flushes (the flusher never changes a value).

type raceWrite struct {
	b, a int64
	val  []byte // nil: deleted / absent
}

type raceScan struct {
	ts, te int64
	sr     seekRange
	got    []kv
	what   string
}

func runWindowRaceCase(o *hx.Out, f *hx.Flags, k int, kind string) {
	w, err := newWorld(kind)
	if err != nil {
		panic(err)
	}
	defer w.close()
	o.Case(k)
	setContract(5, 6, 0x70)
	r := prng.ForCase(f.Seed, k)
	d := dao.NewSimple(w.nodes[0].st, false)
	s := d.Store
	viaPrivate := r.Chance(1, 3)
	P := daoPrefix
	nKeys := 16 + r.Intn(48)
	keys := make([][]byte, nKeys)
	idx := map[string]int{}
	for i := range keys {
		// keys that are prefixes / extensions of one another
		key := append(bytes.Clone(P), byte(i/4))
		for j := 0; j < i%4; j++ {
			key = append(key, byte(0x70+j%2))
		}
		keys[i] = key
		idx[string(key)] = i
	}
	var clock atomic.Int64
	hist := make([][]raceWrite, nKeys)
	for i := range hist {
		hist[i] = []raceWrite{{0, 0, nil}}
	}
	seq := uint32(0)
	newVal := func() []byte {
		seq++
		return []byte{byte(seq >> 16), byte(seq >> 8), byte(seq)}
	}
	// doWrite: a Put, a Delete or a batch; bracketed by two ticks
	doWrite := func(wr *prng.R) {
		n := 1
		batch := wr.Chance(1, 3)
		if batch {
			n = 2 + wr.Intn(4)
		}
		m := map[string][]byte{}
		var order []int
		for j := 0; j < n; j++ {
			i := wr.Intn(nKeys)
			if _, dup := m[string(keys[i])]; dup {
				continue
			}
			var v []byte
			if !wr.Chance(1, 4) {
				v = newVal()
			}
			m[string(keys[i])] = v
			order = append(order, i)
		}
		b := clock.Add(1)
		switch {
		case batch:
			_ = s.PutChangeSet(nil, m)
		case m[string(keys[order[0]])] == nil:
			s.Delete(keys[order[0]])
		default:
			s.Put(keys[order[0]], m[string(keys[order[0]])])
		}
		a := clock.Add(1)
		for _, i := range order {
			hist[i] = append(hist[i], raceWrite{b, a, m[string(keys[i])]})
		}
	}
	// initial content, part of it flushed to the backend
	wr0 := prng.New(r.U64())
	for i := 0; i < nKeys; i++ {
		doWrite(wr0)
	}
	if _, err := s.Persist(); err != nil {
		o.Fail("persist-error", k, "Persist: %v", err)
		return
	}
	for i := 0; i < nKeys/3; i++ {
		doWrite(wr0)
	}

	type flushIv struct{ b, a int64 }
	var flushes []flushIv
	var scans []raceScan
	var smu sync.Mutex
	var flushErr error
	rounds := 3
	for round := 0; round < rounds; round++ {
		stop := make(chan struct{})
		var wg sync.WaitGroup
		var nScans atomic.Int64
		// the writer
		wg.Add(1)
		wrr := prng.New(r.U64())
		go func() {
			defer wg.Done()
			for {
				select {
				case <-stop:
					return
				default:
				}
				doWrite(wrr)
				if wrr.Chance(1, 3) {
					runtime.Gosched()
				}
			}
		}()
		// the flusher
		wg.Add(1)
		flr := prng.New(r.U64())
		go func() {
			defer wg.Done()
			for {
				select {
				case <-stop:
					return
				default:
				}
				b := clock.Add(1)
				var err error
				if flr.Chance(1, 8) {
					_, err = s.PersistSync()
				} else {
					_, err = s.Persist()
				}
				a := clock.Add(1)
				if err != nil {
					smu.Lock()
					flushErr = err
					smu.Unlock()
					return
				}
				smu.Lock()
				flushes = append(flushes, flushIv{b, a})
				smu.Unlock()
				runtime.Gosched()
			}
		}()
		// the seekers
		for g := 0; g < 2; g++ {
			wg.Add(1)
			sr := prng.New(r.U64())
			// a private layer is owned by one goroutine: every seeker gets its own
			var reader storage.Store = s
			rd := d
			if viaPrivate {
				rd = d.GetPrivate()
				reader = rd.Store
			}
			go func() {
				defer wg.Done()
				var mine []raceScan
				for it := 0; it < 40; it++ {
					select {
					case <-stop:
						it = 1 << 30
						continue
					default:
					}
					rng := seekRange{pfx: P, bw: sr.Bool()}
					if sr.Chance(1, 3) {
						rng.pfx = append(bytes.Clone(P), byte(sr.Intn(nKeys/4+1)))
					}
					if sr.Chance(1, 3) {
						kk := keys[sr.Intn(nKeys)]
						if bytes.HasPrefix(kk, rng.pfx) {
							rng.start = bytes.Clone(kk[len(rng.pfx):])
						}
					}
					sc := raceScan{sr: rng}
					sc.ts = clock.Add(1)
					switch sr.Intn(3) {
					case 0:
						sc.what = "Seek"
						sc.got, _ = realSeek(reader, rng)
					case 1:
						sc.what = "SeekAsync(cutPrefix)"
						rng.cut = true
						sc.sr = rng
						sc.got, _ = realSeekAsync(func(ctx context.Context) chan storage.KeyValue {
							return rd.Store.SeekAsync(ctx, toRange(rng), true)
						}, 0)
					default:
						// dao.Seek of the contract: prefix and keys are contract-level
						sc.what = "dao.Seek"
						drng := storage.SeekRange{Prefix: bytes.Clone(rng.pfx[len(P):]), Start: bytes.Clone(rng.start), Backwards: rng.bw}
						rng.cut = true
						sc.sr = rng
						rd.Seek(daoID, drng, func(k, v []byte) bool {
							sc.got = append(sc.got, kv{bytes.Clone(k), bytes.Clone(v)})
							return true
						})
					}
					sc.te = clock.Add(1)
					mine = append(mine, sc)
					nScans.Add(1)
				}
				smu.Lock()
				scans = append(scans, mine...)
				smu.Unlock()
			}()
		}
		dl := time.Now().Add(60 * time.Millisecond)
		for nScans.Load() < 60 && time.Now().Before(dl) {
			time.Sleep(time.Millisecond)
		}
		close(stop)
		wg.Wait()
	}
	if flushErr != nil {
		o.Fail("persist-error", k, "Persist: %v", flushErr)
	}
	// judge
	nFail := 0
	for _, sc := range scans {
		if msg := judgeScan(sc, keys, idx, hist); msg != "" {
			if nFail < 3 {
				o.Fail("seek-window-violation", k, "%s on %s (private layer on top: %v) prefix=%s start=%s bw=%v racing a writer and a flusher, window [%d,%d]: %s; got %s",
					sc.what, kind, viaPrivate, hx.Hex(sc.sr.pfx), hx.Hex(sc.sr.start), sc.sr.bw, sc.ts, sc.te, msg, showKVs(sc.got))
			}
			nFail++
		}
		o.Count("race:scans")
		ovW, ovF := false, false
		for i := range hist {
			for _, h := range hist[i][1:] {
				if h.b <= sc.te && h.a >= sc.ts {
					ovW = true
				}
			}
		}
		for _, fl := range flushes {
			if fl.b <= sc.te && fl.a >= sc.ts {
				ovF = true
			}
		}
		if ovW {
			o.Count("race:scans-overlapping-a-write")
		}
		if ovF {
			o.Count("race:scans-overlapping-a-flush")
		}
		if ovW && ovF {
			o.Count("race:scans-overlapping-both")
		}
	}
	o.Add("race:flushes", len(flushes))
	o.Add("race:writes", int(seq))
	o.Count("race:cases")
	o.Count("race:backend=" + kind)
	o.Seen(fmt.Sprintf("race%d", k))
}

func judgeScan(sc raceScan, keys [][]byte, idx map[string]int, hist [][]raceWrite) string {
	sr := sc.sr
	plain := seekRange{pfx: sr.pfx, start: sr.start, bw: sr.bw}
	verdict := map[int][]byte{}
	var last []byte
	for j, e := range sc.got {
		key := e.k
		if sr.cut {
			key = append(bytes.Clone(sr.pfx), e.k...)
		}
		i, ok := idx[string(key)]
		if !ok {
			return fmt.Sprintf("key %s was never written", hx.Hex(key))
		}
		if !inRange(key, plain) {
			return fmt.Sprintf("key %s is outside the range", hx.Hex(key))
		}
		if j > 0 {
			c := bytes.Compare(last, key)
			if (!sr.bw && c >= 0) || (sr.bw && c <= 0) {
				return fmt.Sprintf("keys %s, %s out of order / duplicated", hx.Hex(last), hx.Hex(key))
			}
		}
		last = key
		if e.v == nil {
			e.v = []byte{}
		}
		verdict[i] = e.v
	}
	for i, key := range keys {
		if !inRange(key, plain) {
			continue
		}
		v, returned := verdict[i]
		ok := false
		h := hist[i]
		for j := range h {
			if h[j].b > sc.te {
				break
			}
			if j+1 < len(h) && h[j+1].a < sc.ts {
				continue // overwritten before the window began
			}
			if returned == (h[j].val != nil) && (!returned || bytes.Equal(v, h[j].val)) {
				ok = true
				break
			}
		}
		if !ok {
			if returned {
				return fmt.Sprintf("key %s returned with value %s, which it did not hold at any instant of the window", hx.Hex(key), hx.Hex(v))
			}
			return fmt.Sprintf("key %s missing, although it was present during the whole window", hx.Hex(key))
		}
	}
	return ""
}
