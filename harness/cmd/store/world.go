package main

import (
	"errors"
	"os"
	"path/filepath"
	"sync/atomic"

	"github.com/nspcc-dev/neo-go/pkg/core/dao"
	"github.com/nspcc-dev/neo-go/pkg/core/storage"
	"github.com/nspcc-dev/neo-go/pkg/core/storage/dbconfig"
)

// node is one store of a case: the backend (id 0) or a MemCachedStore.
type node struct {
	id    int
	kind  string // mem | level | bolt | cached
	st    storage.Store
	d     *dao.Simple // cached: the DAO whose Store this is
	ps    int         // lower node, -1 for the backend
	priv  bool
	dead  bool // private store after its persist: maps are nil
	temp  bool // the tempstore of a paused persist (reference only, no real handle)
	pause *pauseStore
	own   map[string][]byte // reference: entries of this store alone (nil = deletion)
}

func (n *node) cached() bool { return n.kind == "cached" }

type world struct {
	nodes  []*node
	dir    string
	closer func()
}

// pauseStore wraps the store below a shared MemCachedStore. In mode pause/fail its PutChangeSet
// stops before writing (the "maps swapped out but not yet written" window) and, in mode pause,
// again after writing (written, `ps` not yet restored), so that the main goroutine can read in
// both windows deterministically. Its Seek can be held at entry the same way (a reader that has
// taken its in-memory snapshot but has not yet opened the lower scan).
type pauseStore struct {
	storage.Store
	mode     atomic.Int32 // 0 pass, 1 pause, 2 fail
	reached  chan struct{}
	goWrite  chan struct{}
	written  chan struct{}
	goOn     chan struct{}
	seekHold atomic.Bool
	seekAt   chan struct{}
	seekGo   chan struct{}
}

var errInjected = errors.New("injected PutChangeSet failure")

func newPause(s storage.Store) *pauseStore {
	return &pauseStore{Store: s, reached: make(chan struct{}), goWrite: make(chan struct{}),
		written: make(chan struct{}), goOn: make(chan struct{}), seekAt: make(chan struct{}), seekGo: make(chan struct{})}
}

func (p *pauseStore) PutChangeSet(a, b map[string][]byte) error {
	switch p.mode.Swap(0) { // one shot: the flush being stepped through; later ones pass
	case 1:
		p.reached <- struct{}{}
		<-p.goWrite
		err := p.Store.PutChangeSet(a, b)
		p.written <- struct{}{}
		<-p.goOn
		return err
	case 2:
		p.reached <- struct{}{}
		<-p.goWrite
		return errInjected
	}
	return p.Store.PutChangeSet(a, b)
}

func (p *pauseStore) Seek(rng storage.SeekRange, f func(k, v []byte) bool) {
	if p.seekHold.CompareAndSwap(true, false) { // one shot: later scans pass
		p.seekAt <- struct{}{}
		<-p.seekGo
	}
	p.Store.Seek(rng, f)
}

func newWorld(kind string) (*world, error) {
	w := &world{}
	var st storage.Store
	switch kind {
	case "mem":
		st = storage.NewMemoryStore()
	case "level", "bolt":
		dir, err := os.MkdirTemp("", "verif-store-")
		if err != nil {
			return nil, err
		}
		w.dir = dir
		if kind == "level" {
			st, err = storage.NewLevelDBStore(dbconfig.LevelDBOptions{DataDirectoryPath: filepath.Join(dir, "ldb")})
		} else {
			st, err = storage.NewBoltDBStore(dbconfig.BoltDBOptions{FilePath: filepath.Join(dir, "bolt.db")})
		}
		if err != nil {
			os.RemoveAll(dir)
			return nil, err
		}
	}
	w.nodes = append(w.nodes, &node{id: 0, kind: kind, st: st, ps: -1, own: map[string][]byte{}})
	return w, nil
}

func (w *world) close() {
	w.nodes[0].st.Close()
	if w.dir != "" {
		os.RemoveAll(w.dir)
	}
}

// addLayer creates a MemCachedStore over node ps: private (dao.GetPrivate), or shared
// (dao.NewSimple over the lower store, through a pauseStore).
func (w *world) addLayer(ps int, priv bool) *node {
	low := w.nodes[ps]
	n := &node{id: len(w.nodes), kind: "cached", ps: ps, priv: priv, own: map[string][]byte{}}
	switch {
	case priv && low.cached():
		n.d = low.d.GetPrivate()
	case priv:
		// a private store directly over a backend: only through the storage package
		n.d = dao.NewSimple(low.st, false)
		n.d.Store = storage.NewPrivateMemCachedStore(low.st)
	default:
		n.pause = newPause(low.st)
		n.d = dao.NewSimple(n.pause, false)
	}
	// the storage prefix byte of the case (0x70, or 0x71 as during state sync); GetPrivate inherits it
	n.d.Version.StoragePrefix = storage.KeyPrefix(daoSP)
	n.st = n.d.Store
	w.nodes = append(w.nodes, n)
	return n
}

func (w *world) mc(id int) *storage.MemCachedStore { return w.nodes[id].d.Store }

// descendants of id (nodes whose path to the backend goes through id), id included.
func (w *world) above(id int) []int {
	var res []int
	for _, n := range w.nodes {
		if n.temp {
			continue
		}
		for m := n; m != nil; {
			if m.id == id {
				res = append(res, n.id)
				break
			}
			if m.ps < 0 {
				break
			}
			m = w.nodes[m.ps]
		}
	}
	return res
}

func (w *world) depthOf(id int) int {
	d := 0
	for n := w.nodes[id]; n.ps >= 0; n = w.nodes[n.ps] {
		d++
	}
	return d
}
