package main

import (
	"bytes"
	"sort"
)

// The reference: every store keeps the plain set of entries written to it that are not yet
// flushed (a nil value = deletion). A view is the map obtained by applying these sets from the
// backend upwards; a seek is filter + sort on that map. No merging, no snapshots.

type kv struct{ k, v []byte }

// view returns the net map seen from node id, looking through at most depth cache layers
// (depth 0: everything).
func (w *world) view(id, depth int) map[string][]byte {
	var path []*node
	for n := w.nodes[id]; n != nil; {
		path = append(path, n)
		if n.cached() && depth > 0 {
			depth--
			if depth == 0 {
				break
			}
		}
		if n.ps < 0 {
			break
		}
		n = w.nodes[n.ps]
	}
	m := map[string][]byte{}
	for i := len(path) - 1; i >= 0; i-- {
		for k, v := range path[i].own {
			if v == nil {
				delete(m, k)
			} else {
				m[k] = v
			}
		}
	}
	return m
}

func inRange(k []byte, sr seekRange) bool {
	if !bytes.HasPrefix(k, sr.pfx) {
		return false
	}
	if len(sr.start) == 0 {
		return true
	}
	c := bytes.Compare(k[len(sr.pfx):], sr.start)
	if sr.bw {
		// backwards the scan starts at the last key having prefix‖start as a prefix
		return c <= 0 || bytes.HasPrefix(k[len(sr.pfx):], sr.start)
	}
	return c >= 0
}

// specSeek is the ordered-map answer: keys in range, in direction order, prefix cut if asked,
// the first lim of them.
func specSeek(m map[string][]byte, sr seekRange) []kv {
	var res []kv
	for k, v := range m {
		if inRange([]byte(k), sr) {
			res = append(res, kv{[]byte(k), v})
		}
	}
	sort.Slice(res, func(i, j int) bool {
		c := bytes.Compare(res[i].k, res[j].k)
		if sr.bw {
			return c > 0
		}
		return c < 0
	})
	if sr.cut {
		for i := range res {
			res[i].k = res[i].k[len(sr.pfx):]
		}
	}
	if sr.lim > 0 && len(res) > sr.lim {
		res = res[:sr.lim]
	}
	return res
}

func sameKVs(a, b []kv) bool {
	if len(a) != len(b) {
		return false
	}
	for i := range a {
		if !bytes.Equal(a[i].k, b[i].k) || !bytes.Equal(a[i].v, b[i].v) {
			return false
		}
	}
	return true
}
