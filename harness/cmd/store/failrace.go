package main

import (
	"bytes"
	"errors"
	"fmt"
	"os"
	"os/exec"
	"reflect"
	"strings"
	"sync"
	"sync/atomic"
	"time"

	"github.com/nspcc-dev/neo-go/pkg/core/storage"

	"verif/harness/internal/hx"
)

// Readers racing a flush whose lower PutChangeSet FAILS (memcached_store.go:427-442).
//
// While the flush is in progress a Seek of the store snapshots the fresh maps, releases the store's lock
// and then iterates the tempstore's maps under the TEMPSTORE's own, never contended mutex ("nothing ever
// changes it, therefore accesses to it (reads) can go unprotected", l.408-411). So the error branch must
// not write to the tempstore's maps: since /repo 3a75687 it moves their entries into the store's new maps.
// Before that it copied the new writes INTO the tempstore's maps and made them the store's maps again, and
// the Go runtime killed the process ("fatal error: concurrent map iteration and map write", finding
// persist-failure-map-race, fixed). A runtime crash cannot be recovered from: the scenario runs in a child
// process (this binary re-executed with VERIF_STORE_CHILD=failrace) and the parent judges its exit; the
// child must survive.

type failingStore struct {
	storage.Store
	reached chan struct{}
	goOn    chan struct{}
}

func (f *failingStore) PutChangeSet(a, b map[string][]byte) error {
	f.reached <- struct{}{}
	<-f.goOn
	return errors.New("injected PutChangeSet failure")
}

// failRaceChild: a few rounds of {fill the cache, start Persist, readers + a writer, let the lower write fail}.
func failRaceChild() {
	for round := 0; round < 6; round++ {
		be := &failingStore{Store: storage.NewMemoryStore(), reached: make(chan struct{}), goOn: make(chan struct{})}
		s := storage.NewMemCachedStore(be)
		for i := 0; i < 60000; i++ {
			s.Put([]byte{0x70, byte(i >> 16), byte(i >> 8), byte(i)}, []byte{1})
		}
		done := make(chan error, 1)
		go func() { _, err := s.Persist(); done <- err }()
		<-be.reached
		var stop atomic.Bool
		var wg sync.WaitGroup
		for g := 0; g < 4; g++ {
			wg.Add(1)
			go func() {
				defer wg.Done()
				for !stop.Load() {
					n := 0
					s.Seek(storage.SeekRange{Prefix: []byte{0x70}}, func(k, v []byte) bool { n++; return n < 3 })
				}
			}()
		}
		wg.Add(1)
		go func() {
			defer wg.Done()
			for i := 0; !stop.Load(); i++ {
				s.Put([]byte{0x70, 0xff, byte(i >> 8), byte(i)}, []byte{2})
			}
		}()
		time.Sleep(3 * time.Millisecond)
		be.goOn <- struct{}{}
		if err := <-done; err == nil {
			fmt.Fprintln(os.Stderr, "child: Persist did not report the injected failure")
			os.Exit(4)
		}
		time.Sleep(10 * time.Millisecond)
		stop.Store(true)
		wg.Wait()
		// the state is still proper: every key readable
		if _, err := s.Get([]byte{0x70, 0, 0, 1}); err != nil {
			fmt.Fprintln(os.Stderr, "child: a cached key is gone after the failed flush")
			os.Exit(5)
		}
	}
}

func runFailRaceCase(o *hx.Out, f *hx.Flags, k int) {
	o.Case(k)
	cmd := exec.Command(os.Args[0])
	cmd.Env = append(os.Environ(), "VERIF_STORE_CHILD=failrace")
	var stderr bytes.Buffer
	cmd.Stderr = &stderr
	errc := make(chan error, 1)
	if err := cmd.Start(); err != nil {
		o.Count("failrace:child-not-started")
		return
	}
	go func() { errc <- cmd.Wait() }()
	var err error
	select {
	case err = <-errc:
	case <-time.After(60 * time.Second):
		cmd.Process.Kill()
		o.Fail("persist-failure-hang", k, "readers racing a failing flush: the child process did not finish in 60 s")
		return
	}
	out := stderr.String()
	switch {
	case strings.Contains(out, "concurrent map"):
		line := out
		if i := strings.Index(out, "\n"); i > 0 {
			line = out[:i]
		}
		o.Fail("persist-failure-map-race", k, "Seek racing a Persist whose lower PutChangeSet fails: the process died with %q — some critical section writes a map that readers iterate without the store's lock (the error branch of persist, memcached_store.go:427-442, must leave the tempstore's maps alone)", line)
		o.Count("failrace:crashed")
	case err != nil:
		o.Fail("persist-failure-child", k, "readers racing a failing flush: child failed: %v: %s", err, strings.TrimSpace(out))
	default:
		o.Count("failrace:survived")
	}
	o.Seen(fmt.Sprintf("failrace%d", k))
}

// mapIdentity: the addresses of the map objects a MemCachedStore works on (its own `mem`/`stor`) and of
// those of the tempstore reachable through `ps` while a flush is in progress (0, 0 otherwise).
func mapIdentity(s *storage.MemCachedStore) (mem, stor, tmem, tstor uintptr) {
	v := reflect.ValueOf(s).Elem()
	ms := v.FieldByName("MemoryStore")
	mem, stor = ms.FieldByName("mem").Pointer(), ms.FieldByName("stor").Pointer()
	ps := v.FieldByName("ps")
	if !ps.IsNil() {
		if e := ps.Elem(); e.Kind() == reflect.Ptr && e.Type() == reflect.TypeOf(s) {
			tms := e.Elem().FieldByName("MemoryStore")
			tmem, tstor = tms.FieldByName("mem").Pointer(), tms.FieldByName("stor").Pointer()
		}
	}
	return
}
