package main

import (
	"fmt"
	"math/rand"
	"os"
	"sort"
	"strings"

	"github.com/nspcc-dev/neo-go/pkg/core/storage"
	"github.com/nspcc-dev/neo-go/pkg/core/storage/dbconfig"
)

func scan(st storage.Store) string {
	var r []string
	st.Seek(storage.SeekRange{Prefix: []byte{0x70}}, func(k, v []byte) bool { r = append(r, fmt.Sprintf("%x=%x", k, v)); return true })
	return strings.Join(r, " ")
}

func refscan(m map[string][]byte) string {
	var ks []string
	for k := range m {
		ks = append(ks, k)
	}
	sort.Strings(ks)
	var r []string
	for _, k := range ks {
		r = append(r, fmt.Sprintf("%x=%x", k, m[k]))
	}
	return strings.Join(r, " ")
}

func main() {
	bad := 0
	keys := []string{"\x70", "\x70\x00", "\x70\x05", "\x70\x71", "\x70\xff", "\x70\x00\x01"}
	for it := 0; it < 3000 && bad < 3; it++ {
		rnd := rand.New(rand.NewSource(int64(it)))
		dir, _ := os.MkdirTemp("", "probe")
		st, err := storage.NewLevelDBStore(dbconfig.LevelDBOptions{DataDirectoryPath: dir + "/l"})
		if err != nil {
			panic(err)
		}
		ref := map[string][]byte{}
		var log []string
		for op := 0; op < 30; op++ {
			switch rnd.Intn(4) {
			case 0, 1:
				b := map[string][]byte{}
				for i, n := 0, 1+rnd.Intn(3); i < n; i++ {
					k := keys[rnd.Intn(len(keys))]
					if rnd.Intn(3) == 0 {
						b[k] = nil
					} else {
						b[k] = []byte{byte(op)}
					}
				}
				if err := st.PutChangeSet(nil, b); err != nil {
					fmt.Println("err", err)
				}
				for k, v := range b {
					if v == nil {
						delete(ref, k)
					} else {
						ref[k] = v
					}
				}
				log = append(log, fmt.Sprintf("cs %x", b))
			case 2:
				del := rnd.Intn(2) == 0
				bw := rnd.Intn(2) == 0
				err := st.SeekGC(storage.SeekRange{Prefix: []byte{0x70}, Backwards: bw}, func(k, v []byte) (bool, bool) {
					if del && len(k) == 2 {
						delete(ref, string(k))
						return false, true
					}
					return true, true
				})
				log = append(log, fmt.Sprintf("gc del=%v bw=%v err=%v", del, bw, err))
			case 3:
				st.Seek(storage.SeekRange{Prefix: []byte{0x70}, Backwards: true}, func(k, v []byte) bool { return rnd.Intn(3) != 0 })
				log = append(log, "seek")
			}
			if a, b := scan(st), refscan(ref); a != b {
				fmt.Printf("iteration %d op %d: db has [%s] want [%s]\n  log: %s\n", it, op, a, b, strings.Join(log, "; "))
				bad++
				lg, _ := os.ReadFile(dir + "/l/LOG")
				ls := strings.Split(string(lg), "\n")
				if len(ls) > 45 {
					ls = ls[len(ls)-45:]
				}
				fmt.Println(strings.Join(ls, "\n"))
				break
			}
		}
		st.Close()
		os.RemoveAll(dir)
	}
	fmt.Println("bad:", bad)
}
