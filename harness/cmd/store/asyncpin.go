package main

import (
	"bytes"
	"context"
	"fmt"
	"runtime"
	"strings"

	"github.com/nspcc-dev/neo-go/pkg/core/interop"
	istorage "github.com/nspcc-dev/neo-go/pkg/core/interop/storage"
	"github.com/nspcc-dev/neo-go/pkg/vm"
	"github.com/nspcc-dev/neo-go/pkg/vm/stackitem"

	"verif/harness/internal/hx"
)

// SeekAsync / dao.SeekAsync / System.Storage.Find are pinned to the moment of the CALL: the caller may
// put, overwrite and delete keys of the scanned range in the same (top) store before it reads the first
// item — the iteration still is the ordered map as of the call (MemCachedStore.SeekAsync takes the
// snapshot of its own maps before it starts the seeking goroutine, memcached_store.go:173-176).
// Two scheduling variants: `pinned` — GOMAXPROCS(1) from before the call until after the writes, so the
// seeking goroutine has provably not run yet; `yield` — the caller yields after the call so that the
// goroutine has started (and waits at its first send) before the writes.
// One model line (`seekaw`: the scan, then the writes) computed by Model/Store/Async.lean.

type asyncWrite struct {
	k, v []byte // v == nil: delete
}

// writesInRange: 1-4 puts / overwrites / deletions of keys in the range of sr, mostly of keys present.
func (r *runner) writesInRange(id int, sr seekRange) []asyncWrite {
	g := r.g
	full := seekRange{pfx: sr.pfx, start: sr.start, bw: sr.bw}
	var present [][]byte
	for k := range r.w.view(id, 0) {
		if inRange([]byte(k), full) {
			present = append(present, []byte(k))
		}
	}
	sortKeys(present)
	var ws []asyncWrite
	for i, n := 0, g.r.Range(1, 4); i < n; i++ {
		var k []byte
		if len(present) > 0 && g.r.Chance(2, 3) {
			k = present[g.r.Intn(len(present))]
		} else {
			k = append(bytes.Clone(sr.pfx), g.tail(2)...)
			g.remember(k)
		}
		w := asyncWrite{k: k}
		if !g.r.Chance(1, 3) {
			w.v = g.val()
		}
		ws = append(ws, w)
	}
	return ws
}

func sortKeys(ks [][]byte) {
	for i := 1; i < len(ks); i++ {
		for j := i; j > 0 && bytes.Compare(ks[j-1], ks[j]) > 0; j-- {
			ks[j-1], ks[j] = ks[j], ks[j-1]
		}
	}
}

func (r *runner) applyWritesRef(id int, ws []asyncWrite) {
	n := r.w.nodes[id]
	for _, w := range ws {
		if w.v == nil {
			n.own[string(w.k)] = nil
			if r.plain != nil && id == r.chainTop {
				delete(r.plain, string(w.k))
			}
		} else {
			n.own[string(w.k)] = append([]byte{}, w.v...)
			if r.plain != nil && id == r.chainTop {
				r.plain[string(w.k)] = append([]byte{}, w.v...)
			}
		}
	}
}

func showWrites(ws []asyncWrite) string {
	var sb strings.Builder
	for _, w := range ws {
		if w.v == nil {
			fmt.Fprintf(&sb, " %s nil", hx.Hex(w.k))
		} else {
			fmt.Fprintf(&sb, " %s %s", hx.Hex(w.k), hx.Hex(w.v))
		}
	}
	return sb.String()
}

// opSeekAsyncWrites: SeekAsync on store id, the caller's writes to the same store, then the drain.
func (r *runner) opSeekAsyncWrites(id int, sr seekRange, ws []asyncWrite, pinned bool) {
	n := r.w.nodes[id]
	mc := r.w.mc(id)
	ctx, cancel := context.WithCancel(context.Background())
	prev := 0
	if pinned {
		prev = runtime.GOMAXPROCS(1)
	}
	c := mc.SeekAsync(ctx, toRange(sr), sr.cut)
	if !pinned {
		for i := 0; i < 4; i++ {
			runtime.Gosched()
		}
	}
	for _, w := range ws {
		if w.v == nil {
			n.d.Store.Delete(w.k)
		} else {
			n.d.Store.Put(w.k, w.v)
		}
	}
	if pinned {
		runtime.GOMAXPROCS(prev)
	}
	var got []kv
	for e := range c {
		got = append(got, kv{bytes.Clone(e.Key), bytes.Clone(e.Value)})
		if sr.lim > 0 && len(got) >= sr.lim {
			break
		}
	}
	cancel()
	for range c { //nolint:revive
	}
	// the reference still is the map as of the call
	want := specSeek(r.w.view(id, sr.depth), sr)
	if !sameKVs(got, want) {
		r.fail("seek-async-not-pinned", "SeekAsync store=%d backend=%s prefix=%s start=%s bw=%v depth=%d cut=%v lim=%d (scheduling: pinned=%v), then the caller wrote%s to the same store before reading: got %s, the ordered map at the moment of the call gives %s",
			id, r.w.nodes[0].kind, hx.Hex(sr.pfx), hx.Hex(sr.start), sr.bw, sr.depth, sr.cut, sr.lim, pinned, showWrites(ws), showKVs(got), showKVs(want))
	}
	r.checkSeek("SeekAsync+writes", id, sr, got)
	r.applyWritesRef(id, ws)
	r.line(fmt.Sprintf("seekaw %d %s %s %s %d %s %d%s", id, hx.Hex(sr.pfx), hx.Hex(sr.start), b01(sr.bw), sr.depth, b01(sr.cut), sr.lim, showWrites(ws)), showKVs(got))
	r.o.Count("op:seekasync+writes")
	r.o.Count(fmt.Sprintf("asyncpin:pinned=%v", pinned))
	if n.priv {
		r.o.Count("asyncpin:private-top-layer")
	}
	if !sameKVs(want, specSeek(r.w.view(id, sr.depth), sr)) {
		r.o.Count("asyncpin:writes-change-the-answer")
	}
}

// opFindWrites: System.Storage.Find, then PutStorageItem / DeleteStorageItem of the same contract through
// the same DAO before the iterator is read (what a contract does: Find, Put, iterate).
func (r *runner) opFindWrites(id int, pfx []byte, bw bool, ws []asyncWrite, pinned bool) {
	n := r.w.nodes[id]
	opts := int64(0)
	if bw {
		opts = istorage.FindBackwards
	}
	sr := seekRange{pfx: append(bytes.Clone(daoPrefix), pfx...), bw: bw, cut: true}
	want := specSeek(r.w.view(id, 0), sr)
	var got []kv
	obs := hx.Safe(func() string {
		ic := &interop.Context{VM: vm.New(), DAO: n.d}
		ic.VM.Estack().PushVal(opts)
		ic.VM.Estack().PushVal(bytes.Clone(pfx))
		ic.VM.Estack().PushItem(stackitem.NewInterop(&istorage.Context{ID: daoID}))
		prev := 0
		if pinned {
			prev = runtime.GOMAXPROCS(1)
		}
		err := istorage.Find(ic)
		if !pinned {
			for i := 0; i < 4; i++ {
				runtime.Gosched()
			}
		}
		if err == nil {
			for _, w := range ws {
				if w.v == nil {
					n.d.DeleteStorageItem(daoID, w.k[len(daoPrefix):])
				} else {
					n.d.PutStorageItem(daoID, w.k[len(daoPrefix):], w.v)
				}
			}
		}
		if pinned {
			runtime.GOMAXPROCS(prev)
		}
		if err != nil {
			return "err"
		}
		it := ic.VM.Estack().Pop().Value().(*istorage.Iterator)
		for it.Next() {
			s := it.Value().Value().([]stackitem.Item)
			kb, _ := s[0].TryBytes()
			vb, _ := s[1].TryBytes()
			got = append(got, kv{bytes.Clone(kb[len(pfx):]), bytes.Clone(vb)})
		}
		ic.Finalize()
		return "ok"
	})
	if obs != "ok" || !sameKVs(got, want) {
		r.fail("seek-async-not-pinned", "System.Storage.Find store=%d contract=%d prefix=%s bw=%v (pinned=%v), then the contract wrote%s before iterating: %s got %s, the contract's map at the moment of the call gives %s",
			id, daoID, hx.Hex(pfx), bw, pinned, showWrites(ws), obs, showKVs(got), showKVs(want))
	}
	if obs != "ok" {
		return
	}
	r.applyWritesRef(id, ws)
	r.line(fmt.Sprintf("seekaw %d %s - %s 0 1 0%s", id, hx.Hex(sr.pfx), b01(bw), showWrites(ws)), showKVs(got))
	r.o.Count("op:find+writes")
}
