package main

import (
	"bytes"
	"fmt"
	"strings"

	"github.com/nspcc-dev/neo-go/pkg/core/interop"
	istorage "github.com/nspcc-dev/neo-go/pkg/core/interop/storage"
	"github.com/nspcc-dev/neo-go/pkg/vm"
	"github.com/nspcc-dev/neo-go/pkg/vm/stackitem"

	"verif/harness/internal/hx"
)

// the option words handed to System.Storage.Find: the accepted combinations that do not look inside the
// values, and rejected ones (conflicting bits, PickN without Deserialize, unknown bits).
var (
	findGoodOpts = []int64{0, 0, istorage.FindRemovePrefix, istorage.FindKeysOnly, istorage.FindKeysOnly | istorage.FindRemovePrefix, istorage.FindValuesOnly}
	findBadOpts  = []int64{
		istorage.FindKeysOnly | istorage.FindValuesOnly,
		istorage.FindValuesOnly | istorage.FindRemovePrefix,
		istorage.FindKeysOnly | istorage.FindDeserialize,
		istorage.FindKeysOnly | istorage.FindPick0,
		istorage.FindPick0 | istorage.FindPick1 | istorage.FindDeserialize,
		istorage.FindPick0,
		istorage.FindPick1 | istorage.FindRemovePrefix,
		1 << 6, 1 << 8, 1<<6 | istorage.FindKeysOnly, 1 << 20,
	}
)

type findItem struct {
	key, val []byte
	hasK     bool
	hasV     bool
}

func showFindItems(l []findItem) string {
	var sb strings.Builder
	fmt.Fprintf(&sb, "%d", len(l))
	part := func(b []byte, has bool) string {
		if !has {
			return "_"
		}
		return hx.Hex(b)
	}
	for _, e := range l {
		sb.WriteString(" " + part(e.key, e.hasK) + ":" + part(e.val, e.hasV))
	}
	return sb.String()
}

// opFind drives System.Storage.Find (interop/storage/find.go) on the DAO of a store: the iterator
// a contract gets, with the KeysOnly / RemovePrefix / ValuesOnly / Backwards options, read up to
// lim items and then cancelled the way the interop context does it at the end of an execution.
// Every call is a model line: what the iterator delivered item by item (`_` = part not delivered),
// or `err` for a rejected option word.
func (r *runner) opFind(id int, pfx []byte, opts int64, lim int) {
	n := r.w.nodes[id]
	var items []findItem
	obs := hx.Safe(func() string {
		ic := &interop.Context{VM: vm.New(), DAO: n.d}
		ic.VM.Estack().PushVal(opts)
		ic.VM.Estack().PushVal(bytes.Clone(pfx))
		ic.VM.Estack().PushItem(stackitem.NewInterop(&istorage.Context{ID: daoID}))
		if err := istorage.Find(ic); err != nil {
			return "err"
		}
		it := ic.VM.Estack().Pop().Value().(*istorage.Iterator)
		for it.Next() {
			v := it.Value()
			switch {
			case opts&istorage.FindKeysOnly != 0:
				b, _ := v.TryBytes()
				items = append(items, findItem{key: bytes.Clone(b), hasK: true})
			case opts&istorage.FindValuesOnly != 0:
				b, _ := v.TryBytes()
				items = append(items, findItem{val: bytes.Clone(b), hasV: true})
			default:
				s := v.Value().([]stackitem.Item)
				kb, _ := s[0].TryBytes()
				vb, _ := s[1].TryBytes()
				items = append(items, findItem{key: bytes.Clone(kb), val: bytes.Clone(vb), hasK: true, hasV: true})
			}
			if lim > 0 && len(items) >= lim {
				break
			}
		}
		ic.Finalize()
		return "ok"
	})
	r.o.Count("op:find")
	r.o.Count(fmt.Sprintf("find:opts=%#x", opts))
	line := fmt.Sprintf("find %d %02x %d %s %d %d", id, daoSP, daoID, hx.Hex(pfx), opts, lim)
	valid := false
	for _, g := range findGoodOpts {
		if opts&^istorage.FindBackwards == g {
			valid = true
		}
	}
	if !valid {
		// the oracle: an option word outside the documented combinations is refused
		if obs != "err" {
			r.fail("find-mismatch", "System.Storage.Find store=%d opts=%#x: accepted (%s), must be refused", id, opts, obs)
		}
		r.o.Count("find:rejected")
		r.line(line, obs)
		return
	}
	bw := opts&istorage.FindBackwards != 0
	sr := seekRange{pfx: append(bytes.Clone(daoPrefix), pfx...), bw: bw, cut: true, lim: lim}
	want := specSeek(r.w.view(id, 0), sr)
	// what the options make of the expected (cut) pairs
	bad := obs != "ok" || len(items) != len(want)
	for i := 0; !bad && i < len(want); i++ {
		if opts&istorage.FindValuesOnly == 0 {
			k := want[i].k
			if opts&istorage.FindRemovePrefix == 0 {
				k = append(bytes.Clone(pfx), k...)
			}
			bad = bad || !items[i].hasK || !bytes.Equal(items[i].key, k)
		} else {
			bad = bad || items[i].hasK
		}
		if opts&istorage.FindKeysOnly == 0 {
			bad = bad || !items[i].hasV || !bytes.Equal(items[i].val, want[i].v)
		} else {
			bad = bad || items[i].hasV
		}
	}
	if bad {
		r.fail("find-mismatch", "System.Storage.Find store=%d contract=%d sp=%02x prefix=%s opts=%#x lim=%d: %s %s, want %s", id, daoID, daoSP, hx.Hex(pfx), opts, lim, obs, showFindItems(items), showKVs(want))
	}
	if obs == "ok" {
		obs = showFindItems(items)
	}
	r.line(line, obs)
}
