package main

import (
	"bytes"
	"fmt"

	"github.com/nspcc-dev/neo-go/pkg/core/interop"
	istorage "github.com/nspcc-dev/neo-go/pkg/core/interop/storage"
	"github.com/nspcc-dev/neo-go/pkg/vm"
	"github.com/nspcc-dev/neo-go/pkg/vm/stackitem"

	"verif/harness/internal/hx"
)

// opFind drives System.Storage.Find (interop/storage/find.go) on the DAO of a store: the iterator
// a contract gets, with the KeysOnly / RemovePrefix / ValuesOnly / Backwards options, read up to
// lim items and then cancelled the way the interop context does it at the end of an execution.
func (r *runner) opFind(id int, pfx []byte, opts int64, lim int) {
	n := r.w.nodes[id]
	var keys, vals [][]byte
	obs := hx.Safe(func() string {
		ic := &interop.Context{VM: vm.New(), DAO: n.d}
		ic.VM.Estack().PushVal(opts)
		ic.VM.Estack().PushVal(bytes.Clone(pfx))
		ic.VM.Estack().PushItem(stackitem.NewInterop(&istorage.Context{ID: daoID}))
		if err := istorage.Find(ic); err != nil {
			return "err"
		}
		it := ic.VM.Estack().Pop().Value().(*istorage.Iterator)
		for it.Next() {
			v := it.Value()
			switch {
			case opts&istorage.FindKeysOnly != 0:
				b, _ := v.TryBytes()
				keys = append(keys, bytes.Clone(b))
			case opts&istorage.FindValuesOnly != 0:
				b, _ := v.TryBytes()
				vals = append(vals, bytes.Clone(b))
			default:
				s := v.Value().([]stackitem.Item)
				kb, _ := s[0].TryBytes()
				vb, _ := s[1].TryBytes()
				keys = append(keys, bytes.Clone(kb))
				vals = append(vals, bytes.Clone(vb))
			}
			if lim > 0 && max(len(keys), len(vals)) >= lim {
				break
			}
		}
		ic.Finalize()
		return "ok"
	})
	bw := opts&istorage.FindBackwards != 0
	sr := seekRange{pfx: append(bytes.Clone(daoPrefix), pfx...), bw: bw, cut: true, lim: lim}
	want := specSeek(r.w.view(id, 0), sr)
	// what the options make of the expected (cut) pairs
	bad := obs != "ok"
	if !bad {
		if opts&istorage.FindValuesOnly == 0 {
			bad = len(keys) != len(want)
			for i := 0; !bad && i < len(want); i++ {
				k := want[i].k
				if opts&istorage.FindRemovePrefix == 0 {
					k = append(bytes.Clone(pfx), k...)
				}
				bad = !bytes.Equal(keys[i], k)
			}
		}
		if opts&istorage.FindKeysOnly == 0 && !bad {
			bad = len(vals) != len(want)
			for i := 0; !bad && i < len(want); i++ {
				bad = !bytes.Equal(vals[i], want[i].v)
			}
		}
	}
	if bad {
		r.fail("find-mismatch", "System.Storage.Find store=%d prefix=%s opts=%#x lim=%d: %s keys %x values %x, want %s", id, hx.Hex(pfx), opts, lim, obs, keys, vals, showKVs(want))
	}
	r.o.Count("op:find")
	r.o.Count(fmt.Sprintf("find:opts=%#x", opts))
	if opts&(istorage.FindKeysOnly|istorage.FindValuesOnly) != 0 || obs != "ok" {
		return // judged by the oracle only
	}
	// model line: the (prefix-cut) pairs
	got := make([]kv, len(keys))
	for i := range keys {
		k := keys[i]
		if opts&istorage.FindRemovePrefix == 0 && bytes.HasPrefix(k, pfx) {
			k = k[len(pfx):]
		}
		got[i] = kv{k, vals[i]}
	}
	r.line(fmt.Sprintf("find %d 70 %d %s - %s 0 %d", id, daoID, hx.Hex(pfx), b01(bw), lim), showKVs(got))
}
