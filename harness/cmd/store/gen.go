package main

import (
	"bytes"
	"encoding/binary"

	"verif/harness/internal/prng"
)

// Key material. Keys live under the storage prefixes and are built from a tiny alphabet so that
// they are prefixes / extensions of one another and of the seek prefix, and may contain the seek
// prefix again after the prefix.
var (
	firstBytes = []byte{0x70, 0x70, 0x70, 0x70, 0x71, 0x72, 0x01, 0xff}
	letters    = []byte{0x00, 0x70, 0x71, 0xff}
	// the contract the DAO-level ops of a case work on and its store-level prefix (storage prefix byte ‖
	// little-endian id); set per case by setContract. Default: contract 5 under STStorage, 70 05 00 00 00.
	daoPrefix = []byte{0x70, 0x05, 0x00, 0x00, 0x00}
	daoID     = int32(5)
	daoSP     = byte(0x70)
	// a neighbour contract whose items must never show up in (or be touched by) the first one's scans
	otherID     = int32(6)
	otherPrefix = []byte{0x70, 0x06, 0x00, 0x00, 0x00}
)

// contract ids in use: small ones, native (negative) ones, ids whose little-endian bytes contain the
// bytes of another id or of the storage prefix, the int32 extremes.
var contractIDs = []int32{5, 6, 0, -1, -5, 1285 /* 05 05 00 00 */, 1280 /* 00 05 00 00 */, 28677, /* 05 70 00 00 */
	0x70707070, -2147483648, 2147483647, 0x05000000 /* 00 00 00 05 */, 0x71}

func contractPrefix(sp byte, id int32) []byte {
	b := []byte{sp, 0, 0, 0, 0}
	binary.LittleEndian.PutUint32(b[1:], uint32(id))
	return b
}

// setContract selects the contract, its neighbour and the storage prefix byte of a case.
func setContract(id, other int32, sp byte) {
	daoID, otherID, daoSP = id, other, sp
	daoPrefix = contractPrefix(sp, id)
	otherPrefix = contractPrefix(sp, other)
}

// pickContract draws them for a random case: half of the cases keep contract 5 next to a contract with
// confusable id bytes, a fifth run under the temporary storage prefix 0x71.
func pickContract(r *prng.R) {
	id, other := int32(5), []int32{6, 1285, 1280, 0x05000000}[r.Intn(4)]
	if r.Bool() {
		id = contractIDs[r.Intn(len(contractIDs))]
		for other = id; other == id; {
			other = contractIDs[r.Intn(len(contractIDs))]
		}
	}
	sp := byte(0x70)
	if r.Chance(1, 5) {
		sp = 0x71
	}
	setContract(id, other, sp)
}

type gen struct {
	r    *prng.R
	pool [][]byte // keys used so far in this case
	vc   int      // value counter: values are distinct, so a stale value is recognisable
}

func (g *gen) letter() byte { return letters[g.r.Intn(len(letters))] }

func (g *gen) tail(max int) []byte {
	n := g.r.Intn(max + 1)
	b := make([]byte, n)
	for i := range b {
		b[i] = g.letter()
	}
	return b
}

// daoTail is a key below the dao prefix; it may contain the dao prefix itself.
func (g *gen) daoTail() []byte {
	var b []byte
	for i, n := 0, g.r.Intn(4); i < n; i++ {
		if g.r.Chance(1, 4) {
			b = append(b, daoPrefix...)
		} else {
			b = append(b, g.letter())
		}
	}
	return b
}

func (g *gen) freshKey() []byte {
	switch g.r.Intn(12) {
	case 0, 1, 2, 3:
		return append(bytes.Clone(daoPrefix), g.daoTail()...)
	case 10:
		// an item of the neighbour contract, often with the tail of one of ours
		return append(bytes.Clone(otherPrefix), g.tailInUse()...)
	case 11:
		// the same contract under the other storage prefix byte
		k := append(bytes.Clone(daoPrefix), g.tailInUse()...)
		k[0] ^= 0x01
		return k
	default:
		k := []byte{firstBytes[g.r.Intn(len(firstBytes))]}
		return append(k, g.tail(4)...)
	}
}

// tailInUse: the contract-level part of some item key of the case's contract already in use, or a new one.
func (g *gen) tailInUse() []byte {
	if g.r.Chance(2, 3) {
		var cands [][]byte
		for _, k := range g.pool {
			if bytes.HasPrefix(k, daoPrefix) {
				cands = append(cands, k[len(daoPrefix):])
			}
		}
		if len(cands) > 0 {
			return bytes.Clone(cands[g.r.Intn(len(cands))])
		}
	}
	return g.daoTail()
}

// key returns a key for a write or a point read: mostly one used before (so that overwrites,
// deletes and shadowing happen), or a neighbour of one, or a fresh one.
func (g *gen) key() []byte {
	var k []byte
	switch {
	case len(g.pool) > 0 && g.r.Chance(6, 10):
		k = bytes.Clone(g.pool[g.r.Intn(len(g.pool))])
	case len(g.pool) > 0 && g.r.Chance(2, 5):
		// neighbour: extension or proper prefix of a used key
		k = bytes.Clone(g.pool[g.r.Intn(len(g.pool))])
		if g.r.Bool() || len(k) == 1 {
			k = append(k, g.letter())
		} else {
			k = k[:1+g.r.Intn(len(k)-1)]
		}
	default:
		k = g.freshKey()
	}
	g.remember(k)
	return k
}

func (g *gen) remember(k []byte) {
	if len(g.pool) < 64 {
		g.pool = append(g.pool, bytes.Clone(k))
	} else {
		g.pool[g.r.Intn(len(g.pool))] = bytes.Clone(k)
	}
}

func (g *gen) val() []byte {
	g.vc++
	switch g.r.Intn(8) {
	case 0:
		return []byte{}
	case 1:
		return []byte{byte(g.vc)}
	default:
		return []byte{byte(g.vc >> 8), byte(g.vc)}
	}
}

type seekRange struct {
	pfx, start []byte
	bw         bool
	depth      int
	cut        bool
	lim        int
}

// rng builds a seek range around the keys in use.
func (g *gen) rng(allowEmptyPrefix bool) seekRange {
	var sr seekRange
	base := g.freshKey()
	if len(g.pool) > 0 && g.r.Chance(4, 5) {
		base = g.pool[g.r.Intn(len(g.pool))]
	}
	// prefix: a non-empty prefix of a key, the key itself, or sometimes one letter more
	n := 1 + g.r.Intn(len(base))
	if g.r.Chance(1, 3) {
		n = 1
	}
	if bytes.HasPrefix(base, daoPrefix) && g.r.Chance(1, 2) {
		n = len(daoPrefix)
	}
	sr.pfx = bytes.Clone(base[:n])
	if g.r.Chance(1, 12) {
		sr.pfx = append(sr.pfx, g.letter())
	}
	if allowEmptyPrefix && g.r.Chance(1, 6) {
		sr.pfx = nil
	}
	// start: empty, or the remainder of some key with this prefix (cut short / extended), or letters
	switch g.r.Intn(7) {
	case 0, 1, 2:
	case 3, 4, 5:
		var cands [][]byte
		for _, k := range g.pool {
			if bytes.HasPrefix(k, sr.pfx) && len(k) > len(sr.pfx) {
				cands = append(cands, k)
			}
		}
		if len(cands) > 0 {
			k := cands[g.r.Intn(len(cands))]
			s := bytes.Clone(k[len(sr.pfx):])
			switch g.r.Intn(4) {
			case 0:
				s = s[:1+g.r.Intn(len(s))]
			case 1:
				s = append(s, g.letter())
			}
			sr.start = s
		} else {
			sr.start = g.tail(2)
		}
	default:
		sr.start = g.tail(3)
	}
	sr.bw = g.r.Chance(2, 5)
	if g.r.Chance(3, 10) {
		sr.depth = 1 + g.r.Intn(5)
	}
	sr.cut = g.r.Bool()
	if g.r.Chance(2, 5) {
		sr.lim = 1 + g.r.Intn(4)
	}
	return sr
}
