// Command store: correspondence + oracle stream for the layered key-value store (C09).
//
// A case builds a random tree of MemCachedStores (shared and private, depth 1-4) over one backend
// (memory, BoltDB or LevelDB in a temp dir), then runs put/del/changeset/persist/persistSync/
// paused persist/persistPrivate/get/seek/seekAsync/seekGC and dao.Simple.Seek/SeekAsync ops on it.
// Every op is printed for the Lean driver; every read is also compared with the plain map + sort
// reference of ref.go (the property's oracle on the real code).
package main

import (
	"bytes"
	"context"
	"fmt"
	"os"
	"sort"
	"strings"
	"time"

	istorage "github.com/nspcc-dev/neo-go/pkg/core/interop/storage"
	"github.com/nspcc-dev/neo-go/pkg/core/storage"

	"verif/harness/internal/hx"
	"verif/harness/internal/prng"
)

type runner struct {
	o *hx.Out
	k int
	w *world
	g *gen
	// oracle failures of the op in progress: released by line() once the backend is known to be
	// intact (a backend that lost a committed batch makes every later answer meaningless)
	pending []pendingFail
	nLines  int
	// chain mode (a quarter of the cases): one chain of layers, every write goes to its top store.
	// `plain` is then literally the single ordered map holding the net effect of all writes: it is
	// updated by writes only, never by a flush, and the top store must answer from it at all times.
	chainTop int
	plain    map[string][]byte
	// a Seek stopped between its two critical sections (split.go)
	split *splitSeek
	// corpus control of the next stepwise flush: a second flush started while it is in flight
	// (0: random, 1: PersistSync, 2: Persist, -1: none) and the ops of its windows
	forceOverlap int
	scriptWindow func(win int)
}

type pendingFail struct{ key, msg string }

// abortCase stops a case whose disk backend no longer holds what was committed to it.
type abortCase struct{ msg string }

func (r *runner) fail(key string, format string, a ...any) {
	r.pending = append(r.pending, pendingFail{key, fmt.Sprintf(format, a...)})
}

// backendIntact compares a full scan of a disk backend with everything committed to it.
func (r *runner) backendIntact() (bool, string) {
	n := r.w.nodes[0]
	if n.kind == "mem" {
		return true, ""
	}
	got, _ := realSeek(n.st, seekRange{})
	want := specSeek(n.own, seekRange{})
	if sameKVs(got, want) {
		return true, ""
	}
	return false, fmt.Sprintf("backend %s holds %s, committed: %s", n.kind, showKVs(got), showKVs(want))
}

// line emits one op line; before that the backend is verified and the op's oracle failures released.
func (r *runner) line(op, obs string) {
	if ok, msg := r.backendIntact(); !ok {
		r.pending = nil
		panic(abortCase{fmt.Sprintf("after %d lines, at op %q: %s", r.nLines, op, msg)})
	}
	for _, p := range r.pending {
		r.o.Fail(p.key, r.k, "%s", p.msg)
	}
	r.pending = nil
	r.o.Line(op, obs)
	r.nLines++
	if r.split != nil {
		r.split.record(r.w)
	}
}

func b01(b bool) string {
	if b {
		return "1"
	}
	return "0"
}

func showKVs(l []kv) string {
	var sb strings.Builder
	fmt.Fprintf(&sb, "%d", len(l))
	for _, e := range l {
		sb.WriteString(" " + hx.Hex(e.k) + ":" + hx.Hex(e.v))
	}
	return sb.String()
}

func toRange(sr seekRange) storage.SeekRange {
	return storage.SeekRange{Prefix: bytes.Clone(sr.pfx), Start: bytes.Clone(sr.start), Backwards: sr.bw, SearchDepth: sr.depth}
}

// realSeek runs Store.Seek with a callback that stops at its lim-th call; every call is recorded
// (also calls made after the callback returned false, which must not happen).
func realSeek(st storage.Store, sr seekRange) (res []kv, panicked bool) {
	defer func() {
		if r := recover(); r != nil {
			panicked = true
		}
	}()
	st.Seek(toRange(sr), func(k, v []byte) bool {
		res = append(res, kv{bytes.Clone(k), bytes.Clone(v)})
		return !(sr.lim > 0 && len(res) >= sr.lim)
	})
	return
}

// realSeekAsync reads lim items (all if 0) from SeekAsync, then cancels and drains. The drained
// tail is returned separately: how much of it arrives depends on scheduling.
func realSeekAsync(ch func(ctx context.Context) chan storage.KeyValue, lim int) (res, tail []kv) {
	ctx, cancel := context.WithCancel(context.Background())
	c := ch(ctx)
	for e := range c {
		res = append(res, kv{bytes.Clone(e.Key), bytes.Clone(e.Value)})
		if lim > 0 && len(res) >= lim {
			break
		}
	}
	cancel()
	for e := range c {
		tail = append(tail, kv{bytes.Clone(e.Key), bytes.Clone(e.Value)})
	}
	return
}

// checkSeek compares a real seek result with the reference and classifies a difference.
func (r *runner) checkSeek(what string, id int, sr seekRange, got []kv) {
	w := r.w
	if r.plain != nil && id == r.chainTop && sr.depth == 0 {
		if wp := specSeek(r.plain, sr); !sameKVs(got, wp) {
			r.fail("plain-map-mismatch", "%s store=%d backend=%s prefix=%s start=%s bw=%v cut=%v lim=%d got %s, the single map of all writes gives %s",
				what, id, w.nodes[0].kind, hx.Hex(sr.pfx), hx.Hex(sr.start), sr.bw, sr.cut, sr.lim, showKVs(got), showKVs(wp))
		}
		r.o.Count("oracle:plain-map-reads")
	}
	m := w.view(id, sr.depth)
	want := specSeek(m, sr)
	if sameKVs(got, want) {
		return
	}
	r.fail("seek-mismatch", "%s store=%d backend=%s prefix=%s start=%s bw=%v depth=%d cut=%v lim=%d got %s want %s",
		what, id, w.nodes[0].kind, hx.Hex(sr.pfx), hx.Hex(sr.start), sr.bw, sr.depth, sr.cut, sr.lim, showKVs(got), showKVs(want))
}

func (r *runner) seekLine(op string, id int, sr seekRange) string {
	return fmt.Sprintf("%s %d %s %s %s %d %s %d", op, id, hx.Hex(sr.pfx), hx.Hex(sr.start), b01(sr.bw), sr.depth, b01(sr.cut), sr.lim)
}

func (r *runner) opSeek(id int, sr seekRange) {
	sr.cut = false
	got, pan := realSeek(r.w.nodes[id].st, sr)
	obs := showKVs(got)
	if pan {
		obs = "panic"
		r.fail("seek-panic", "Seek panicked store=%d prefix=%s", id, hx.Hex(sr.pfx))
	} else {
		r.checkSeek("Seek", id, sr, got)
	}
	r.line(r.seekLine("seek", id, sr), obs)
	r.countSeek("seek", id, sr, got)
}

func (r *runner) opSeekAsync(id int, sr seekRange) {
	mc := r.w.mc(id)
	got, tail := realSeekAsync(func(ctx context.Context) chan storage.KeyValue {
		return mc.SeekAsync(ctx, toRange(sr), sr.cut)
	}, sr.lim)
	r.checkSeek("SeekAsync", id, sr, got)
	r.checkTail("SeekAsync", id, sr, got, tail)
	r.line(r.seekLine("seeka", id, sr), showKVs(got))
	r.countSeek("seeka", id, sr, got)
}

// checkTail: items that still arrive after the cancellation must continue the expected sequence.
func (r *runner) checkTail(what string, id int, sr seekRange, got, tail []kv) {
	if len(tail) == 0 {
		return
	}
	full := sr
	full.lim = 0
	want := specSeek(r.w.view(id, sr.depth), full)
	all := append(append([]kv{}, got...), tail...)
	if len(all) > len(want) || !sameKVs(all, want[:len(all)]) {
		r.fail("seek-async-tail", "%s store=%d: items after cancel do not continue the sequence: got %s + %s", what, id, showKVs(got), showKVs(tail))
	}
}

// reentrant ops: what the consumer of a dao-level scan does with the SAME dao while the scan is
// running (native contracts and System.Storage.Find consumers read and write storage items from
// inside the loop). Reads use any key, also the item just delivered; writes stay outside the
// prefix being scanned, so the running scan's answer is not allowed to change. The ops are
// executed inside the callback and written out (reference update, oracle, model line) after the
// scan's own line, in the order they ran.
const (
	reNone   = 0
	reRandom = 1
	reAlways = 2 // an unrelated GetStorageItem at every item (corpus)
)

type reentOp struct {
	line, obs string
	apply     func()
	isGet     bool
	key       []byte
	val       []byte
	found     bool
}

func (r *runner) reentrant(n *node, mode int, seekPfx, item []byte) *reentOp {
	g := r.g
	if mode == reNone || (mode == reRandom && !g.r.Chance(2, 3)) {
		return nil
	}
	otherPfx := otherPrefix
	get := func(full []byte, viaItem bool, cid int32) *reentOp {
		var v []byte
		var found bool
		if viaItem {
			si := n.d.GetStorageItem(cid, full[5:])
			v, found = si, si != nil
		} else {
			b, err := n.d.Store.Get(full)
			v, found = b, err == nil
		}
		obs := "nf"
		if found {
			obs = "v " + hx.Hex(v)
		}
		r.o.Count("reentrant:get")
		return &reentOp{line: fmt.Sprintf("get %d %s", n.id, hx.Hex(full)), obs: obs, isGet: true, key: full, val: bytes.Clone(v), found: found}
	}
	op := g.r.Intn(7)
	if mode == reAlways {
		op = 1
	}
	if (n.dead || (r.split != nil && n.id != r.split.hold)) && op >= 4 {
		op -= 4 // no writes: the store is disposed, or a scan's window only has writers on the shared store
	}
	switch op {
	case 0: // the item just delivered, through the dao
		return get(append(bytes.Clone(seekPfx), item...), true, daoID)
	case 1: // an item of another contract
		return get(append(bytes.Clone(otherPfx), g.daoTail()...), true, otherID)
	case 2: // any key in use, through the dao if it is an item of the scanned contract
		k := g.key()
		return get(k, bytes.HasPrefix(k, daoPrefix), daoID)
	case 3:
		return get(g.key(), false, 0)
	case 4, 5: // write an item of another contract
		full := append(bytes.Clone(otherPfx), g.daoTail()...)
		g.remember(full)
		if op == 4 {
			v := g.val()
			n.d.PutStorageItem(otherID, full[5:], v)
			r.o.Count("reentrant:put")
			return &reentOp{line: fmt.Sprintf("put %d %s %s", n.id, hx.Hex(full), hx.Hex(v)), obs: "ok", apply: func() {
				n.own[string(full)] = append([]byte{}, v...)
				if r.plain != nil && n.id == r.chainTop {
					r.plain[string(full)] = append([]byte{}, v...)
				}
			}}
		}
		n.d.DeleteStorageItem(otherID, full[5:])
		r.o.Count("reentrant:del")
		return &reentOp{line: fmt.Sprintf("del %d %s", n.id, hx.Hex(full)), obs: "ok", apply: func() {
			n.own[string(full)] = nil
			if r.plain != nil && n.id == r.chainTop {
				delete(r.plain, string(full))
			}
		}}
	default: // write a key in use that is outside the scanned prefix
		k := g.key()
		if bytes.HasPrefix(k, seekPfx) {
			return get(k, false, 0)
		}
		v := g.val()
		if bytes.HasPrefix(k, daoPrefix) {
			n.d.PutStorageItem(daoID, k[5:], v)
		} else {
			n.d.Store.Put(k, v)
		}
		r.o.Count("reentrant:put")
		return &reentOp{line: fmt.Sprintf("put %d %s %s", n.id, hx.Hex(k), hx.Hex(v)), obs: "ok", apply: func() {
			n.own[string(k)] = append([]byte{}, v...)
			if r.plain != nil && n.id == r.chainTop {
				r.plain[string(k)] = append([]byte{}, v...)
			}
		}}
	}
}

// settle writes out the re-entrant ops after the scan's line.
func (r *runner) settle(id int, ops []*reentOp) {
	for _, e := range ops {
		if e.isGet {
			want, ok := r.w.view(id, 0)[string(e.key)]
			if ok != e.found || (ok && !bytes.Equal(want, e.val)) {
				r.fail("get-mismatch", "Get inside a dao scan callback, store=%d key=%s got %s want found=%v %s", id, hx.Hex(e.key), e.obs, ok, hx.Hex(want))
			}
			if r.plain != nil && id == r.chainTop {
				wp, okp := r.plain[string(e.key)]
				if okp != e.found || (okp && !bytes.Equal(wp, e.val)) {
					r.fail("plain-map-mismatch", "Get inside a dao scan callback, store=%d key=%s got %s, the single map of all writes has found=%v %s", id, hx.Hex(e.key), e.obs, okp, hx.Hex(wp))
				}
			}
		} else {
			e.apply()
		}
		r.line(e.line, e.obs)
	}
}

func (r *runner) opDaoSeek(id int, sr seekRange, async bool, re int) {
	n := r.w.nodes[id]
	rng := storage.SeekRange{Prefix: bytes.Clone(sr.pfx), Start: bytes.Clone(sr.start), Backwards: sr.bw, SearchDepth: sr.depth}
	full := sr
	full.pfx = append(bytes.Clone(daoPrefix), sr.pfx...)
	full.cut = true
	var got []kv
	var reops []*reentOp
	op := "dseek"
	obs := hx.Safe(func() string {
		if async {
			op = "dseeka"
			ctx, cancel := context.WithCancel(context.Background())
			c := n.d.SeekAsync(ctx, daoID, rng)
			for e := range c {
				got = append(got, kv{bytes.Clone(e.Key), bytes.Clone(e.Value)})
				if x := r.reentrant(n, re, full.pfx, got[len(got)-1].k); x != nil {
					reops = append(reops, x)
				}
				if sr.lim > 0 && len(got) >= sr.lim {
					break
				}
			}
			cancel()
			for range c { //nolint:revive
			}
		} else {
			n.d.Seek(daoID, rng, func(k, v []byte) bool {
				got = append(got, kv{bytes.Clone(k), bytes.Clone(v)})
				if x := r.reentrant(n, re, full.pfx, got[len(got)-1].k); x != nil {
					reops = append(reops, x)
				}
				return !(sr.lim > 0 && len(got) >= sr.lim)
			})
		}
		return showKVs(got)
	})
	if obs == "panic" {
		r.fail("seek-panic", "dao.%s panicked store=%d prefix=%s", op, id, hx.Hex(sr.pfx))
	} else {
		r.checkSeek("dao."+op, id, full, got)
	}
	r.line(fmt.Sprintf("%s %d %02x %d %s %s %s %d %d", op, id, daoSP, daoID, hx.Hex(sr.pfx), hx.Hex(sr.start), b01(sr.bw), sr.depth, sr.lim), obs)
	r.o.Count(fmt.Sprintf("dao:sp=%02x", daoSP))
	if daoID < 0 {
		r.o.Count("dao:negative-id")
	}
	r.countSeek(op, id, full, got)
	if len(reops) > 0 {
		r.o.Count("seek:with-reentrant-callback")
		if n.priv {
			r.o.Count("seek:with-reentrant-callback:private-dao")
		}
		r.o.Count("seek:with-reentrant-callback:" + r.w.nodes[0].kind)
	}
	r.settle(id, reops)
}

func (r *runner) countSeek(op string, id int, sr seekRange, got []kv) {
	o := r.o
	o.Count("op:" + op)
	o.Count(fmt.Sprintf("seek:items=%s", bucket(len(got))))
	if sr.bw {
		o.Count("seek:backwards")
	}
	if len(sr.start) > 0 {
		o.Count("seek:start")
		if sr.bw {
			o.Count("seek:backwards+start")
		}
	}
	if sr.depth > 0 {
		o.Count("seek:depth>0")
	}
	if sr.cut {
		o.Count("seek:cut")
	}
	if sr.lim > 0 {
		o.Count("seek:lim")
		if len(got) == sr.lim {
			o.Count("seek:stopped-early")
		}
	}
	// how many layers contributed an item in range (merge depth)
	contributing := 0
	full := sr
	full.lim, full.cut = 0, false
	left := sr.depth
	for n := r.w.nodes[id]; n != nil; {
		hit := false
		for k, v := range n.own {
			if v != nil && inRange([]byte(k), full) {
				hit = true
				break
			}
		}
		if hit {
			contributing++
		}
		if n.cached() && left > 0 {
			left--
			if left == 0 {
				break
			}
		}
		if n.ps < 0 {
			break
		}
		n = r.w.nodes[n.ps]
	}
	o.Count(fmt.Sprintf("seek:layers-contributing=%d", contributing))
	// a key in the result that contains the prefix again after the prefix
	for _, e := range got {
		k := e.k
		if !sr.cut {
			k = k[min(len(sr.pfx), len(k)):]
		}
		if len(sr.pfx) > 0 && bytes.Contains(k, sr.pfx) {
			o.Count("seek:key-contains-prefix-again")
			break
		}
	}
}

func bucket(n int) string {
	switch {
	case n == 0:
		return "0"
	case n == 1:
		return "1"
	case n <= 3:
		return "2-3"
	case n <= 7:
		return "4-7"
	}
	return "8+"
}

func (r *runner) opGet(id int, k []byte) {
	n := r.w.nodes[id]
	v, err := n.st.Get(k)
	obs := "nf"
	if err == nil {
		obs = "v " + hx.Hex(v)
	} else if err != storage.ErrKeyNotFound {
		obs = "err"
	}
	if r.plain != nil && id == r.chainTop {
		wp, okp := r.plain[string(k)]
		if okp != (err == nil) || (okp && !bytes.Equal(wp, v)) {
			r.fail("plain-map-mismatch", "Get store=%d key=%s got %s, the single map of all writes has found=%v %s", id, hx.Hex(k), obs, okp, hx.Hex(wp))
		}
		r.o.Count("oracle:plain-map-reads")
	}
	want, ok := r.w.view(id, 0)[string(k)]
	if ok != (err == nil) || (ok && !bytes.Equal(want, v)) {
		r.fail("get-mismatch", "Get store=%d key=%s got %s want found=%v %s", id, hx.Hex(k), obs, ok, hx.Hex(want))
	}
	r.line(fmt.Sprintf("get %d %s", id, hx.Hex(k)), obs)
	r.o.Count("op:get")
	if ok {
		r.o.Count("get:found")
	} else {
		r.o.Count("get:notfound")
	}
}

func (r *runner) opPut(id int, k, v []byte, viaDao bool) {
	n := r.w.nodes[id]
	obs := hx.Safe(func() string {
		// the caller's buffers are the caller's: it overwrites them right after the call (a store that
		// kept the slices instead of copying them would now hold garbage)
		kk, vv := bytes.Clone(k), bytes.Clone(v)
		if viaDao && bytes.HasPrefix(k, daoPrefix) {
			n.d.PutStorageItem(daoID, kk[len(daoPrefix):], vv)
		} else {
			n.d.Store.Put(kk, vv)
		}
		for i := range kk {
			kk[i] ^= 0xa5
		}
		for i := range vv {
			vv[i] ^= 0xa5
		}
		return "ok"
	})
	r.o.Count("alias:put-buffers-overwritten-after-the-call")
	if obs == "ok" {
		n.own[string(k)] = append([]byte{}, v...)
		if r.plain != nil && id == r.chainTop {
			r.plain[string(k)] = append([]byte{}, v...)
		}
	}
	r.line(fmt.Sprintf("put %d %s %s", id, hx.Hex(k), hx.Hex(v)), obs)
	r.o.Count("op:put")
}

func (r *runner) opDel(id int, k []byte, viaDao bool) {
	n := r.w.nodes[id]
	obs := hx.Safe(func() string {
		if viaDao && bytes.HasPrefix(k, daoPrefix) {
			n.d.DeleteStorageItem(daoID, k[len(daoPrefix):])
		} else {
			n.d.Store.Delete(k)
		}
		return "ok"
	})
	if obs == "ok" {
		n.own[string(k)] = nil
		if r.plain != nil && id == r.chainTop {
			delete(r.plain, string(k))
		}
	}
	r.line(fmt.Sprintf("del %d %s", id, hx.Hex(k)), obs)
	r.o.Count("op:del")
}

func isStor(k []byte) bool { return k[0] == 0x70 || k[0] == 0x71 }

// opChangeSet hands a batch to PutChangeSet of any store (also directly to the backend).
func (r *runner) opChangeSet(id int, es []kv) {
	n := r.w.nodes[id]
	puts, stores := map[string][]byte{}, map[string][]byte{}
	var sb strings.Builder
	fmt.Fprintf(&sb, "cs %d", id)
	seen := map[string]bool{}
	var uniq []kv
	for _, e := range es {
		if seen[string(e.k)] {
			continue
		}
		seen[string(e.k)] = true
		uniq = append(uniq, e)
		if isStor(e.k) {
			stores[string(e.k)] = e.v
		} else {
			puts[string(e.k)] = e.v
		}
		if e.v == nil {
			fmt.Fprintf(&sb, " %s nil", hx.Hex(e.k))
		} else {
			fmt.Fprintf(&sb, " %s %s", hx.Hex(e.k), hx.Hex(e.v))
		}
	}
	obs := hx.Safe(func() string {
		if err := n.st.PutChangeSet(puts, stores); err != nil {
			return "err"
		}
		return "ok"
	})
	if obs == "ok" {
		for _, e := range uniq {
			if e.v == nil && !n.cached() && n.kind != "mem" {
				delete(n.own, string(e.k))
			} else {
				n.own[string(e.k)] = e.v
			}
			if r.plain != nil {
				if e.v == nil {
					delete(r.plain, string(e.k))
				} else {
					r.plain[string(e.k)] = e.v
				}
			}
		}
	}
	r.line(sb.String(), obs)
	r.o.Count("op:changeset")
	if !n.cached() {
		r.o.Count("changeset:to-backend")
	}
}

// flush moves the reference entries of `from` into node `to` (what a flush must amount to).
func (w *world) flush(from map[string][]byte, to *node) {
	for k, v := range from {
		if v == nil && !to.cached() && to.kind != "mem" {
			delete(to.own, k)
		} else {
			to.own[k] = v
		}
	}
}

// dump is the complete answer set of one view on the real code: a full forward and backward scan
// of every first byte in use plus a Get of every key ever used.
func (r *runner) dump(id int) string {
	n := r.w.nodes[id]
	var sb strings.Builder
	for _, fb := range []byte{0x01, 0x70, 0x71, 0x72, 0xff} {
		for _, bw := range []bool{false, true} {
			got, _ := realSeek(n.st, seekRange{pfx: []byte{fb}, bw: bw})
			sb.WriteString(showKVs(got))
			sb.WriteByte('|')
		}
	}
	keys := make([]string, 0, len(r.g.pool))
	for _, k := range r.g.pool {
		keys = append(keys, string(k))
	}
	sort.Strings(keys)
	for _, k := range keys {
		v, err := n.st.Get([]byte(k))
		fmt.Fprintf(&sb, "%x=%x,%v|", k, v, err == nil)
	}
	return sb.String()
}

func (r *runner) dumps(ids []int) []string {
	res := make([]string, len(ids))
	for i, id := range ids {
		res[i] = r.dump(id)
	}
	return res
}

func (r *runner) compareDumps(when string, ids []int, before, after []string) {
	for i := range ids {
		if before[i] != after[i] {
			r.fail("flush-changes-answer", "%s: the answers of store %d changed across the flush step", when, ids[i])
			if os.Getenv("VERIF_DEBUG") != "" {
				fmt.Fprintf(os.Stderr, "BEFORE %s\nAFTER  %s\n", before[i], after[i])
			}
			return
		}
	}
}

func (r *runner) opPersist(id int, sync bool) {
	w := r.w
	n := w.nodes[id]
	views := w.above(id)
	before := r.dumps(views)
	op := "persist"
	var cnt int
	var err error
	obs := hx.Safe(func() string {
		if sync {
			op = "persistsync"
			cnt, err = n.d.Store.PersistSync()
		} else if r.g.r.Bool() {
			cnt, err = n.d.Persist() // the dao entry point (also flushes its native cache, empty here)
		} else {
			cnt, err = n.d.Store.Persist()
		}
		if err != nil {
			return fmt.Sprintf("%d err", cnt)
		}
		return fmt.Sprintf("%d", cnt)
	})
	if cnt != len(n.own) && obs != "panic" {
		r.fail("persist-count", "Persist store=%d returned %d keys, %d pending", id, cnt, len(n.own))
	}
	if cnt > 0 {
		w.flush(n.own, w.nodes[n.ps])
		n.own = map[string][]byte{}
		if n.priv {
			n.dead = true
		}
	}
	r.compareDumps(op, views, before, r.dumps(views))
	r.line(fmt.Sprintf("%s %d", op, id), obs)
	r.o.Count("op:" + op)
	if cnt == 0 {
		r.o.Count("persist:empty")
	}
}

// opPausedPersist runs Persist of a shared store in a goroutine and stops it inside the lower
// store's PutChangeSet: before the write and after it. In both windows the main goroutine reads
// (and writes) like at any other time; every view through the store must answer as before.
func (r *runner) opPausedPersist(id int, fail bool) {
	w := r.w
	n := w.nodes[id]
	if n.pause == nil || n.priv || len(n.own) == 0 {
		r.opPersist(id, false)
		return
	}
	views := w.above(id)
	before := r.dumps(views)
	if fail {
		n.pause.mode.Store(2)
	} else {
		n.pause.mode.Store(1)
	}
	type res struct {
		n   int
		err error
	}
	done := make(chan res, 1)
	go func() {
		c, err := n.d.Store.Persist()
		done <- res{c, err}
	}()
	select {
	case <-n.pause.reached:
	case rs := <-done:
		// Persist came back without handing anything to the lower store although keys were pending
		n.pause.mode.Store(0)
		r.fail("persist-count", "Persist store=%d returned %d (err %v) without calling the lower store's PutChangeSet, %d keys pending", id, rs.n, rs.err, len(n.own))
		r.line(fmt.Sprintf("persist %d", id), fmt.Sprintf("%d", rs.n))
		return
	case <-time.After(20 * time.Second):
		r.o.Fail("persist-hang", r.k, "Persist store=%d never reached PutChangeSet", id)
		fmt.Fprintln(os.Stderr, "persist hang")
		r.o.Close()
		os.Exit(3)
	}
	// step 1 done: fresh maps, tempstore interposed
	_, _, tMem, tStor := mapIdentity(n.d.Store)
	aliased := func() string {
		// are the store's maps now the very map objects the tempstore held?
		mem, stor, _, _ := mapIdentity(n.d.Store)
		if mem == tMem && stor == tStor {
			return " alias=1"
		}
		return " alias=0"
	}
	t := &node{id: len(w.nodes), kind: "cached", ps: n.ps, temp: true, own: n.own}
	w.nodes = append(w.nodes, t)
	cnt := len(n.own)
	n.own = map[string][]byte{}
	n.ps = t.id
	r.line(fmt.Sprintf("pbegin %d %d", id, t.id), fmt.Sprintf("%d", cnt))
	r.compareDumps("persist window 1 (swapped out, not written)", views, before, r.dumps(views))
	// A SECOND flush of the same store (PersistSync or Persist), started from another goroutine while
	// the first one is in flight: it has to wait (plock) until the first one is over, whatever the
	// main goroutine does meanwhile. If it comes back early, what it reported as flushed must still be
	// in the ordered map afterwards (the reference keeps those writes: the later reads judge that).
	ovKind, ovWin, ovFirst := 0, 1, r.g.r.Bool()
	switch {
	case r.forceOverlap > 0:
		ovKind, ovFirst = r.forceOverlap, false
	case r.forceOverlap == 0 && r.g.r.Chance(1, 3):
		ovKind = 1 + r.g.r.Intn(2)
		if !fail && r.g.r.Bool() {
			ovWin = 2
		}
	}
	r.forceOverlap = 0
	if low := w.nodes[t.ps]; low.cached() && low.priv {
		// the second flush would write into a private store (no lock by design: it belongs to one
		// goroutine) while the main goroutine reads through it
		ovKind = 0
	}
	var ovDone chan res
	ovEarly := false
	startOverlap := func(win int) {
		if ovKind == 0 || ovWin != win || ovDone != nil {
			return
		}
		ovDone = make(chan res, 1)
		go func() {
			var c int
			var err error
			if ovKind == 1 {
				c, err = n.d.Store.PersistSync()
			} else {
				c, err = n.d.Store.Persist()
			}
			ovDone <- res{c, err}
		}()
		obs := "blocked"
		select {
		case rs := <-ovDone:
			ovEarly = true
			obs = fmt.Sprintf("done %d", rs.n)
			r.fail("flush-overlap", "store=%d: a second flush (sync=%v) started while Persist was in flight (window %d) did not wait for it: it returned %d keys as flushed (err %v) while the store's ps still was the tempstore of the first one", id, ovKind == 1, win, rs.n, rs.err)
		case <-time.After(2 * time.Millisecond):
		}
		r.line(fmt.Sprintf("overlap %d %s %d", id, b01(ovKind == 1), win), obs)
		r.o.Count(fmt.Sprintf("overlap:sync=%v:window=%d", ovKind == 1, win))
	}
	// waitOverlap: the second flush goes ahead as soon as the first one is over; its effect on the
	// reference (and on the backend) is settled before the next line is written.
	var ovRes *res
	waitOverlap := func() {
		if ovDone == nil || ovEarly {
			return
		}
		var rs res
		select {
		case rs = <-ovDone:
		case <-time.After(20 * time.Second):
			r.o.Fail("persist-hang", r.k, "store=%d: the flush waiting for the one in flight never finished", id)
			fmt.Fprintln(os.Stderr, "overlapped persist hang")
			r.o.Close()
			os.Exit(3)
		}
		ovRes = &rs
		c2 := len(n.own)
		if rs.n != c2 || rs.err != nil {
			r.fail("persist-count", "store=%d: the flush that waited for the one in flight returned %d (err %v), %d keys pending", id, rs.n, rs.err, c2)
		}
		if c2 > 0 {
			w.flush(n.own, w.nodes[n.ps])
			n.own = map[string][]byte{}
		}
	}
	finishOverlap := func() {
		if ovRes == nil {
			return
		}
		op := "persistsync"
		if ovKind != 1 {
			op = "persist"
		}
		r.line(fmt.Sprintf("%s %d", op, id), fmt.Sprintf("%d", ovRes.n))
		r.o.Count("overlap:completed-after-the-first")
	}
	window := func(win int) {
		if ovFirst {
			startOverlap(win)
		}
		if r.scriptWindow != nil {
			r.scriptWindow(win)
		} else {
			r.windowOps(id, views)
		}
		startOverlap(win)
	}
	window(1)
	before = r.dumps(views)
	n.pause.goWrite <- struct{}{}
	if fail {
		rs := <-done
		n.pause.mode.Store(0)
		obs := "ok" + aliased()
		if rs.err == nil {
			obs = "noerr"
		}
		// the old maps come back, with the writes of the window on top
		for k, v := range n.own {
			t.own[k] = v
		}
		n.own = t.own
		n.ps = t.ps
		t.own = map[string][]byte{}
		viewsAfter := r.dumps(views)
		waitOverlap()
		r.compareDumps("the flush that waited for the failed one", views, viewsAfter, r.dumps(views))
		r.line(fmt.Sprintf("pfail %d", id), obs)
		r.compareDumps("failed persist", views, before, r.dumps(views))
		r.o.Count("op:persist-paused-fail")
		finishOverlap()
		return
	}
	<-n.pause.written
	w.flush(t.own, w.nodes[t.ps])
	r.line(fmt.Sprintf("pwrite %d", id), "ok")
	r.compareDumps("persist window 2 (written, ps not restored)", views, before, r.dumps(views))
	window(2)
	before = r.dumps(views)
	n.pause.goOn <- struct{}{}
	rs := <-done
	n.pause.mode.Store(0)
	n.ps = t.ps
	obs := "ok" + aliased()
	waitOverlap()
	if rs.err != nil || rs.n != cnt {
		obs = fmt.Sprintf("bad %d %v", rs.n, rs.err)
	}
	r.line(fmt.Sprintf("pend %d", id), obs)
	r.compareDumps("persist end", views, before, r.dumps(views))
	r.o.Count("op:persist-paused")
	finishOverlap()
}

// windowOps: a few ordinary reads and writes on the views above the store being flushed.
func (r *runner) windowOps(id int, views []int) {
	for i, nops := 0, r.g.r.Range(1, 4); i < nops; i++ {
		v := views[r.g.r.Intn(len(views))]
		if r.w.nodes[v].dead {
			v = id
		}
		op := r.g.r.Intn(6)
		if r.plain != nil {
			v = r.chainTop
			if r.w.nodes[v].dead && op < 2 {
				op = 2
			}
		}
		if r.g.r.Chance(1, 5) {
			// a scan whose two sections straddle flush steps
			if r.split != nil {
				r.splitEnd()
			} else if r.plain == nil || r.holdNode(v) == v {
				r.splitBegin(v, r.g.rng(false), r.g.r.Bool())
			}
			continue
		}
		if r.split != nil && op < 2 {
			// inside a scan's window the writers work on the shared store the scan stopped at —
			// if that store is above the one being flushed (a write under a flush in progress is
			// not a write to the stack)
			op = 2
			for _, x := range views {
				if x == r.split.hold {
					v, op = x, r.g.r.Intn(2)
				}
			}
		}
		switch op {
		case 0:
			r.opPut(v, r.g.key(), r.g.val(), false)
		case 1:
			r.opDel(v, r.g.key(), false)
		case 2:
			r.opGet(v, r.g.key())
		case 3:
			r.opSeekAsync(v, r.g.rng(false))
		default:
			r.opSeek(v, r.g.rng(false))
		}
		r.o.Count("window-op")
	}
}

func (r *runner) opPersistPrivate(id int, privs []int) {
	w := r.w
	n := w.nodes[id]
	views := w.above(id)
	// the privates' own views are the ones being folded in: they end up dead but readable
	before := r.dumps(views)
	args := make([]string, len(privs))
	total := 0
	for i, p := range privs {
		args[i] = fmt.Sprint(p)
		total += len(w.nodes[p].own)
	}
	obs := hx.Safe(func() string {
		ms := make([]*storage.MemCachedStore, len(privs))
		for i, p := range privs {
			ms[i] = w.mc(p)
		}
		return fmt.Sprint(n.d.Store.PersistPrivate(ms...))
	})
	if obs != fmt.Sprint(total) {
		r.fail("persist-count", "PersistPrivate store=%d returned %s, %d pending", id, obs, total)
	}
	if total > 0 {
		for _, p := range privs {
			w.flush(w.nodes[p].own, n)
			w.nodes[p].own = map[string][]byte{}
			w.nodes[p].dead = true
		}
	}
	if len(privs) == 1 {
		// with one private nothing else is written: every view through it keeps its answers
		r.compareDumps("PersistPrivate", w.above(privs[0]), pick(views, before, w.above(privs[0])), r.dumps(w.above(privs[0])))
	}
	r.line(fmt.Sprintf("ppriv %d %s", id, strings.Join(args, " ")), obs)
	r.o.Count("op:persistprivate")
}

func pick(ids []int, dumps []string, want []int) []string {
	res := make([]string, len(want))
	for i, x := range want {
		for j, y := range ids {
			if x == y {
				res[i] = dumps[j]
			}
		}
	}
	return res
}

func keepKey(k []byte, mod int) bool {
	if mod == 0 {
		return true
	}
	s := len(k)
	for _, b := range k {
		s += int(b)
	}
	return s%mod != 0
}

func (r *runner) opSeekGC(id int, sr seekRange, mod int) {
	n := r.w.nodes[id]
	sr.depth, sr.cut = 0, false
	var got []kv
	obs := hx.Safe(func() string {
		err := n.st.SeekGC(toRange(sr), func(k, v []byte) (bool, bool) {
			got = append(got, kv{bytes.Clone(k), bytes.Clone(v)})
			return keepKey(k, mod), !(sr.lim > 0 && len(got) >= sr.lim)
		})
		if err != nil {
			return "err"
		}
		return showKVs(got)
	})
	// reference: SeekGC works on the store's own level only
	own := map[string][]byte{}
	for k, v := range n.own {
		if v != nil {
			own[k] = v
		}
	}
	want := specSeek(own, sr)
	if !sameKVs(got, want) {
		r.fail("seekgc-mismatch", "SeekGC store=%d kind=%s prefix=%s start=%s bw=%v lim=%d mod=%d got %s want %s", id, n.kind, hx.Hex(sr.pfx), hx.Hex(sr.start), sr.bw, sr.lim, mod, showKVs(got), showKVs(want))
	}
	for _, e := range got {
		if !keepKey(e.k, mod) {
			delete(n.own, string(e.k))
		}
	}
	r.line(fmt.Sprintf("gc %d %s %s %s %d %d", id, hx.Hex(sr.pfx), hx.Hex(sr.start), b01(sr.bw), sr.lim, mod), obs)
	r.o.Count("op:seekgc")
}

// live cached nodes that may be written (not temp, maps not nil).
// flushable: writable stores whose lower store can still take a change set.
func (r *runner) flushable() []int {
	var res []int
	for _, id := range r.writable() {
		if !r.w.nodes[r.w.nodes[id].ps].dead {
			res = append(res, id)
		}
	}
	return res
}

func (r *runner) writable() []int {
	var res []int
	for _, n := range r.w.nodes {
		if n.cached() && !n.temp && !n.dead {
			res = append(res, n.id)
		}
	}
	return res
}

func (r *runner) readable() []int {
	var res []int
	for _, n := range r.w.nodes {
		if n.cached() && !n.temp {
			res = append(res, n.id)
		}
	}
	return res
}

// buildTree creates the layers of a case: depth 1-4, shared and private, sometimes with siblings.
func (r *runner) buildTree() {
	w, g := r.w, r.g
	r.line(fmt.Sprintf("new 0 %s", w.nodes[0].kind), "ok")
	depth := g.r.Range(1, 4)
	top := 0
	for d := 0; d < depth; d++ {
		priv := d > 0 && g.r.Chance(1, 2)
		if d == 0 && g.r.Chance(1, 10) {
			priv = true
		}
		n := w.addLayer(top, priv)
		r.line(fmt.Sprintf("layer %d %d %s", n.id, n.ps, b01(priv)), "ok")
		top = n.id
	}
	r.chainTop = -1
	if g.r.Chance(1, 4) {
		r.chainTop = top
		r.plain = map[string][]byte{}
		r.o.Count("tree:chain-mode")
	}
	// siblings: more private layers over some shared store
	for i, ns := 0, g.r.Intn(3); i < ns && r.plain == nil; i++ {
		ps := 1 + g.r.Intn(len(w.nodes)-1)
		if w.depthOf(ps) >= 4 {
			continue
		}
		n := w.addLayer(ps, true)
		r.line(fmt.Sprintf("layer %d %d 1", n.id, n.ps), "ok")
	}
	r.o.Count(fmt.Sprintf("tree:depth=%d", depth))
	r.o.Count("tree:backend=" + w.nodes[0].kind)
}

func (r *runner) randomOp() {
	w, g := r.w, r.g
	wr := r.writable()
	rd := r.readable()
	fl := r.flushable()
	chain := r.plain != nil
	if chain {
		// writes and compared reads go to the top of the chain only
		wr = nil
		if !w.nodes[r.chainTop].dead {
			wr = []int{r.chainTop}
		}
		rd = []int{r.chainTop}
	}
	inWindow := r.split != nil
	if inWindow {
		// a scan is stopped between its two sections: the writers of its window work on the shared
		// store the scan stopped at, flushes are those of the scan's own chain (and of private
		// stores over the shared one, which are batch writes to it)
		r.split.nops++
		if r.split.nops > 6 || g.r.Chance(1, 4) {
			r.splitEnd()
			return
		}
		h := r.split.hold
		wr = []int{h}
		onChain := map[int]bool{}
		for n := w.nodes[r.split.reader]; ; n = w.nodes[n.ps] {
			onChain[n.id] = true
			if n.ps < 0 {
				break
			}
		}
		var fl2 []int
		for _, id := range fl {
			if onChain[id] || w.nodes[id].ps == h {
				fl2 = append(fl2, id)
			}
		}
		fl = fl2
	}
	// most traffic goes to the top-most stores
	pickTop := func(ids []int) int {
		if g.r.Chance(3, 5) {
			return ids[len(ids)-1-g.r.Intn(min(2, len(ids)))]
		}
		return ids[g.r.Intn(len(ids))]
	}
	switch g.r.Weighted([]int{24, 10, 6, 12, 16, 9, 4, 4, 2, 6, 2, 4, 3, 1, 2, 4, 4}) {
	case 16:
		// a Seek / SeekAsync in two sections: its window is the next few ops
		id := pickTop(rd)
		if !chain || r.holdNode(id) == id {
			r.splitBegin(id, g.rng(false), g.r.Bool())
		}
	case 0:
		if len(wr) > 0 {
			r.opPut(pickTop(wr), g.key(), g.val(), g.r.Chance(1, 4))
		}
	case 1:
		if len(wr) > 0 {
			r.opDel(pickTop(wr), g.key(), g.r.Chance(1, 4))
		}
	case 2:
		// changeset to a cache layer or straight to the backend
		id := 0
		if (chain || inWindow || g.r.Chance(1, 2)) && len(wr) > 0 {
			id = wr[g.r.Intn(len(wr))]
		} else if chain {
			return
		}
		var es []kv
		for i, n := 0, g.r.Range(1, 5); i < n; i++ {
			e := kv{k: g.key()}
			if !g.r.Chance(1, 4) {
				e.v = g.val()
			}
			es = append(es, e)
		}
		r.opChangeSet(id, es)
	case 3:
		id := pickTop(rd)
		if g.r.Chance(1, 8) && !chain {
			id = 0
		}
		r.opGet(id, g.key())
	case 4:
		id := pickTop(rd)
		if g.r.Chance(1, 8) && !chain {
			id = 0
		}
		r.opSeek(id, g.rng(id == 0 && w.nodes[0].kind != "mem"))
	case 5:
		id := pickTop(rd)
		if len(wr) > 0 && !inWindow && g.r.Chance(1, 2) {
			// the caller writes into the scanned range of the same store before it reads the channel
			id = pickTop(wr)
			sr := g.rng(false)
			if g.r.Chance(1, 4) && bytes.HasPrefix(sr.pfx, daoPrefix) {
				r.opFindWrites(id, sr.pfx[len(daoPrefix):], sr.bw, r.writesInRange(id, seekRange{pfx: sr.pfx, bw: sr.bw}), g.r.Bool())
			} else {
				r.opSeekAsyncWrites(id, sr, r.writesInRange(id, sr), g.r.Chance(2, 3))
			}
			return
		}
		r.opSeekAsync(id, g.rng(false))
	case 6, 7:
		sr := g.rng(false)
		// the dao prepends its own prefix: keep only what follows it
		if bytes.HasPrefix(sr.pfx, daoPrefix) {
			sr.pfx = sr.pfx[len(daoPrefix):]
		} else {
			sr.pfx = g.daoTail()
		}
		if g.r.Chance(2, 5) {
			// the whole contract, as natives and Storage.Find with an empty prefix do
			sr.pfx, sr.start = nil, nil
		}
		re := reNone
		if g.r.Chance(3, 5) {
			re = reRandom
		}
		r.opDaoSeek(pickTop(rd), sr, g.r.Bool(), re)
	case 8:
		if chain || inWindow {
			return // SeekGC drops cache entries, it is not a write to the map
		}
		id := g.r.Intn(len(w.nodes))
		if w.nodes[id].temp {
			id = 0
		}
		r.opSeekGC(id, g.rng(false), []int{0, 2, 3}[g.r.Intn(3)])
	case 9:
		if len(fl) > 0 {
			r.opPersist(fl[g.r.Intn(len(fl))], false)
		}
	case 10:
		if len(fl) > 0 {
			r.opPersist(fl[g.r.Intn(len(fl))], true)
		}
	case 11:
		if len(fl) > 0 {
			r.opPausedPersist(fl[g.r.Intn(len(fl))], false)
		}
	case 12:
		// PersistPrivate: all live private children of one store
		for _, id := range r.readable() {
			var ch []int
			for _, n := range w.nodes {
				if privateOver(n, w.nodes[id]) && !n.temp && !n.dead && n.ps == id {
					ch = append(ch, n.id)
				}
			}
			if len(ch) > 0 && !w.nodes[id].dead && (!inWindow || id == r.split.hold) {
				r.opPersistPrivate(id, ch)
				return
			}
		}
	case 13:
		if len(fl) > 0 {
			r.opPausedPersist(fl[g.r.Intn(len(fl))], true)
		}
	case 15:
		sr := g.rng(false)
		pfx := g.daoTail()
		if bytes.HasPrefix(sr.pfx, daoPrefix) {
			pfx = sr.pfx[len(daoPrefix):]
		}
		opts := findGoodOpts[g.r.Intn(len(findGoodOpts))]
		if g.r.Chance(1, 8) {
			opts = findBadOpts[g.r.Intn(len(findBadOpts))]
		}
		if sr.bw {
			opts |= istorage.FindBackwards
		}
		if g.r.Chance(1, 3) {
			pfx = nil // the whole contract
		}
		r.opFind(pickTop(rd), pfx, opts, sr.lim)
	case 14:
		// grow the tree: a new layer over a live store
		ps := rd[g.r.Intn(len(rd))]
		if w.depthOf(ps) < 4 && !w.nodes[ps].dead && len(w.nodes) < 12 && !chain {
			priv := g.r.Chance(2, 3)
			n := w.addLayer(ps, priv)
			r.line(fmt.Sprintf("layer %d %d %s", n.id, n.ps, b01(priv)), "ok")
			r.o.Count("op:newlayer")
		}
	}
}

// privateOver: p was made by GetPrivate of s's dao, so p.ps is s itself (PersistPrivate checks it).
func privateOver(p, s *node) bool { return p.cached() && p.priv && p.pause == nil && s.cached() }

func (r *runner) finalChecks() {
	// every view, fully, against the reference (also what the whole history amounts to)
	for _, id := range r.readable() {
		for _, fb := range []byte{0x01, 0x70, 0x71, 0x72, 0xff} {
			sr := seekRange{pfx: []byte{fb}}
			got, _ := realSeek(r.w.nodes[id].st, sr)
			r.checkSeek("final Seek", id, sr, got)
		}
	}
}

// runCase runs one case. A disk backend that stops holding what was committed to it aborts the
// case (no further lines); the case is then re-run on a scratch output: if the loss does not
// reproduce it is the timing-dependent LevelDB defect (key leveldb-lost-commit, see
// known-findings.txt), if it does it is reported under backend-content-mismatch.
func runCase(o *hx.Out, f *hx.Flags, k int, kind string, nops int, corpus func(r *runner)) {
	msg, aborted := runCaseOnce(o, f, k, kind, nops, corpus)
	if !aborted {
		return
	}
	scratch, _ := os.MkdirTemp("", "verif-store-rerun-")
	defer os.RemoveAll(scratch)
	reproduced := 0
	for i := 0; i < 2; i++ {
		so := hx.NewOut(scratch)
		m2, ab2 := runCaseOnce(so, f, k, kind, nops, corpus)
		so.Close()
		if ab2 && m2 == msg {
			reproduced++
		}
	}
	if reproduced == 2 || kind != "level" {
		o.Fail("backend-content-mismatch", k, "%s", msg)
	} else {
		o.Fail("leveldb-lost-commit", k, "%s (not reproduced by %d re-runs of the same case: timing-dependent)", msg, 2-reproduced)
		o.Count("oracle:leveldb-lost-commit")
	}
}

func runCaseOnce(o *hx.Out, f *hx.Flags, k int, kind string, nops int, corpus func(r *runner)) (msg string, aborted bool) {
	w, err := newWorld(kind)
	if err != nil {
		fmt.Fprintln(os.Stderr, "cannot create backend:", err)
		os.Exit(3)
	}
	defer w.close()
	r := &runner{o: o, k: k, w: w, g: &gen{r: prng.ForCase(f.Seed, k)}}
	defer func() {
		if e := recover(); e != nil {
			ac, ok := e.(abortCase)
			if !ok {
				panic(e)
			}
			// leave no goroutine stuck in a held seek or a paused persist
			r.splitRelease()
			for _, n := range w.nodes {
				if n.pause != nil {
					n.pause.mode.Store(0)
					select {
					case n.pause.goWrite <- struct{}{}:
					default:
					}
					select {
					case <-n.pause.written:
					case <-time.After(50 * time.Millisecond):
					}
					select {
					case n.pause.goOn <- struct{}{}:
					default:
					}
				}
			}
			msg, aborted = ac.msg, true
		}
	}()
	o.Case(k)
	if corpus != nil {
		setContract(5, 6, 0x70)
		corpus(r)
		for _, p := range r.pending {
			o.Fail(p.key, k, "%s", p.msg)
		}
		o.Sample(fmt.Sprintf("case %d: corpus case on backend %s", k, kind))
		return "", false
	}
	pickContract(r.g.r)
	r.buildTree()
	// some content first: a batch straight into the backend and a few puts in the layers
	var es []kv
	for i, n := 0, r.g.r.Range(2, 6); i < n; i++ {
		es = append(es, kv{k: r.g.key(), v: r.g.val()})
	}
	r.opChangeSet(0, es)
	for i, n := 0, r.g.r.Range(3, 8); i < n; i++ {
		wr := r.writable()
		id := wr[r.g.r.Intn(len(wr))]
		if r.plain != nil {
			id = r.chainTop
		}
		r.opPut(id, r.g.key(), r.g.val(), false)
	}
	for i := 0; i < nops; i++ {
		r.randomOp()
	}
	r.splitEnd()
	r.finalChecks()
	if ok, m := r.backendIntact(); !ok {
		panic(abortCase{"at the end of the case: " + m})
	}
	for _, p := range r.pending {
		o.Fail(p.key, k, "%s", p.msg)
	}
	r.pending = nil
	o.Seen(fmt.Sprintf("%d", k))
	if o.Cases <= 8 {
		o.Sample(fmt.Sprintf("case %d: backend %s, %d stores, %d ops, %d keys in use", k, kind, len(w.nodes), nops, len(r.g.pool)))
	}
	return "", false
}

func main() {
	if os.Getenv("VERIF_STORE_CHILD") == "failrace" {
		failRaceChild()
		return
	}
	f := hx.ParseFlags()
	o := hx.NewOut(f.Out)
	defer o.Close()
	k := 0
	runCorpus := func(cs []corpusCase) {
		for _, c := range cs {
			for _, kind := range c.kinds {
				if f.Want(k) {
					runCase(o, f, k, kind, 0, c.run)
				}
				k++
			}
		}
	}
	runCorpus(corpusCases[:2])
	// a Seek overlapped by a writer batch and a complete flush (oracle only)
	for _, priv := range []bool{false, true} {
		if f.Want(k) {
			runTornSeekCase(o, f, k, "mem", priv)
		}
		k++
	}
	runCorpus(corpusCases[2:])
	// is a change set one atomic batch on each backend? (oracle only)
	for _, kind := range allKinds {
		for _, via := range []bool{false, true} {
			if f.Want(k) {
				n := f.N(800, 20000) // disk: one fsync per batch
				if kind == "mem" {
					n = f.N(4000, 40000)
				}
				runBatchAtomCase(o, f, k, kind, via, n)
			}
			k++
		}
	}
	// concurrency cases: readers racing Persist (oracle only)
	for i, n := 0, f.N(40, 800); i < n; i++ {
		if f.Want(k) {
			kind := "mem"
			if i%10 == 9 {
				kind = "bolt"
			}
			runConcCase(o, f, k, kind)
		}
		k++
	}
	// a writer and a flusher racing seekers: the two-section scan under real scheduling (oracle only)
	for i, n := 0, f.N(10, 300); i < n; i++ {
		if f.Want(k) {
			kind := "mem"
			if i%5 == 3 {
				kind = "bolt"
			} else if i%5 == 4 {
				kind = "level"
			}
			runWindowRaceCase(o, f, k, kind)
		}
		k++
	}
	// one PutChangeSet on BoltDB = one committed bbolt transaction (meta page txid), oracle only
	for i, n := 0, f.N(2, 20); i < n; i++ {
		if f.Want(k) {
			runBoltTxCase(o, f, k, f.N(80, 800))
		}
		k++
	}
	// readers racing a flush whose lower write fails (in a child process: the failure mode is a runtime crash)
	for i, n := 0, f.N(1, 5); i < n; i++ {
		if f.Want(k) {
			runFailRaceCase(o, f, k)
		}
		k++
	}
	nMem := f.N(1500, 30000)
	nDisk := f.N(150, 3000)
	for i := 0; i < nMem; i++ {
		if f.Want(k) {
			runCase(o, f, k, "mem", 60, nil)
		}
		k++
	}
	for i := 0; i < nDisk; i++ {
		for _, kind := range []string{"bolt", "level"} {
			if f.Want(k) {
				runCase(o, f, k, kind, 60, nil)
			}
			k++
		}
	}
}
