// Command crash: search + tie stream for C02 (a crash at any flush boundary leaves a consistent,
// resumable chain prefix; interrupted reset resumes to the same database).
//
// A case = one generated block history, one flush/header schedule of a subject node whose backend
// is wrapped in a recording store, then EVERY prefix of the recorded batch list is reopened and
// compared with a reference replica; optionally a state reset recorded and crashed the same way.
package main

import (
	"flag"
	"fmt"
	"runtime"
	"sort"
	"strings"
	"sync"

	"verif/harness/internal/hx"
	"verif/harness/internal/prng"
)

var workers = flag.Int("workers", 4, "cases run concurrently")

type caseParams struct {
	kind    string // "crash", "reset", "gc"
	proto   Proto
	local   Local
	n       int
	pfMille int
	hdrs    bool
	target  uint32
	backend string // backend of the subject node: memory | bolt | level
	replica string // backend of the reopened replicas
	stopAt  int    // the subject only accepts the first stopAt blocks (headers may go further); 0 = all
	// hdrAt/hdrTo (gclong): headers hdrAt+1..hdrTo arrive inside the GC cycle that follows the flush at hdrAt
	hdrAt, hdrTo uint32
}

func drawParams(k int, r *prng.R, tier string) caseParams {
	p := caseParams{kind: "crash", n: r.Range(20, 45), pfMille: []int{1000, 600, 300, 120, 50}[r.Intn(5)], hdrs: r.Chance(2, 3)}
	p.proto.SRH = r.Bool()
	p.backend, p.replica = "memory", "memory"
	// a few subjects of the quick tier run on the persistent backends (commit probes, probe.go)
	switch {
	case k == 0 || (k > 8 && k%4 == 1):
		p.backend = "bolt"
	case k > 8 && k%8 == 3:
		p.backend = "level"
	}
	if tier == "thorough" {
		p.n = r.Range(20, 60)
		p.backend = []string{"memory", "bolt", "level"}[r.Intn(3)]
		p.replica = []string{"memory", "memory", "bolt", "level"}[r.Intn(4)]
	}
	switch {
	case k == 0: // every block its own batch, headers ahead
		p.pfMille, p.hdrs, p.kind = 1000, true, "reset"
	case k == 1: // one big batch
		p.pfMille, p.kind = 0, "reset"
	case k == 2:
		p.kind = "gc"
	case k == 3: // reset of a node whose headers are ahead of its blocks
		p.kind, p.hdrs, p.stopAt = "reset", true, p.n-r.Range(2, 6)
	case k == 5 || (tier == "thorough" && k%20 == 19): // a chain crossing a header-hash page boundary (2000), then reset across it
		p.kind, p.hdrs = "page", true
		p.n = 2000 + r.Range(12, 40)
		p.target = uint32(2000 - r.Range(1, 12))
		if r.Chance(1, 3) {
			p.target = uint32(2000 + r.Range(0, 5))
		}
	case k == 9 || (tier == "thorough" && k%25 == 9): // block and header-hash page garbage collection
		gclongParams(r, &p)
	case k == 11: // fixed corpus (seeded C02-m8): headers cross the end of a header-hash page inside a GC cycle
		gclongParams(r, &p)
		p.proto.MTB, p.local.GCP = 40, 250
		p.n = 6000 + r.Range(30, 80)
		p.hdrAt, p.hdrTo = uint32(5990-r.Intn(4)), 5999
	case k == 10: // fixed corpus: votes in the middle of an epoch, crash points before the epoch ends (seeded C02-m6)
		p.kind, p.proto.Gov, p.proto.GovFixed = "gov", true, true
		p.n, p.hdrs, p.pfMille = 5*govCommittee, false, 0
	case k == 4: // reset to the current height, only headers to drop
		p.kind, p.hdrs, p.stopAt = "reset", true, p.n-r.Range(2, 6)
		p.target = uint32(p.stopAt)
	default:
		switch r.Weighted([]int{45, 45, 10}) {
		case 1:
			p.kind = "reset"
		case 2:
			p.kind = "gc"
		}
	}
	if (p.kind == "crash" || p.kind == "reset") && k > 10 && r.Chance(2, 5) {
		// governance across several committee epochs (an epoch is govCommittee blocks)
		p.proto.Gov = true
	}
	if p.kind == "gc" {
		// MaxTraceableBlocks up to 8 GC periods and more: the timestamp of the GC target may have left the
		// gcBlockTimes LRU (8 entries), then the transfer logs are not collected
		p.proto.MTB = uint32(r.Range(4, 20))
		p.local = Local{RUB: true, GCP: uint32(r.Range(2, 3)), Timer: true}
		p.n = int(p.proto.MTB) + r.Range(14, 18)
		p.pfMille = 250
		p.hdrs = false
	}
	if p.kind == "page" {
		p.stopAt = 0
	}
	if p.kind == "reset" && (k == 1 || k == 4 || r.Chance(1, 3)) { // case 1: refused (below the height); case 4: headers only, runs
		// a light node (MPT in GC mode) may be reset as long as it is below MaxTraceableBlocks
		p.local = Local{RUB: true, GCP: 10000}
	}
	if p.kind == "reset" && p.target == 0 {
		top := p.n
		if p.stopAt == 0 && r.Chance(1, 4) {
			p.stopAt = p.n - r.Range(1, 5)
		}
		if p.stopAt != 0 {
			top = p.stopAt
		}
		p.target = uint32(r.Range(1, top-1))
		if r.Chance(1, 4) {
			p.target = uint32(top - 1)
		}
	}
	return p
}

func runCase(k int, seed uint64, tier string) *caseOut {
	c := &caseOut{k: k, cnt: counters{m: map[string]int{}}}
	r := prng.ForCase(seed, k)
	if k == 6 || k == 7 || (tier == "thorough" && k%10 == 8) {
		jumpCase(c, r, k == 7 || k%20 == 18)
		return c
	}
	if k == 8 || (tier == "thorough" && k%50 == 27) {
		pagesCase(c, r, tier == "thorough" && k != 8, k%100 == 27)
		return c
	}
	p := drawParams(k, r, tier)
	c.cnt.count("kind:" + p.kind)
	steps := genSchedule(r, uint32(p.n), p.pfMille, p.hdrs)
	if p.kind == "page" {
		steps = pageSchedule(r, uint32(p.n))
	}
	if p.proto.GovFixed {
		steps = nil
		v := uint32(2*govCommittee + 1)
		for i := uint32(1); i <= uint32(p.n); i++ {
			steps = append(steps, Step{"blk", i})
			if i == v-1 || i == v || i == v+1 {
				steps = append(steps, Step{"flush", 0})
			}
		}
	}
	if p.proto.Gov {
		c.cnt.count("history:governance")
	}
	var flushAt []uint32
	if p.kind == "gclong" {
		steps = nil
		flushAt = gclongFlushes(r, p.n, p.proto.MTB, p.local.GCP, 600)
		if p.hdrAt != 0 {
			// the cycle at hdrAt must enter a new GC period: no flush in the same period before it
			flushAt = nil
			for f := uint32(600); f+600 < p.hdrAt; f += 600 {
				flushAt = append(flushAt, f)
			}
			flushAt = append(flushAt, p.hdrAt, uint32(p.n))
		}
	}
	// full reference observations are only needed where a node can be recovered: flush heights, reset target, tip
	want := map[uint32]bool{0: true, uint32(p.n): true, p.target: true}
	var lastBlk uint32
	for _, s := range steps {
		if s.Kind == "blkwait" {
			want[lastBlk] = true // the flush during the wait stops below the waiting block
		}
		if s.Kind == "blk" || s.Kind == "blkwait" {
			lastBlk = s.H
		}
		if s.Kind == "flush" || s.Kind == "flushfail" {
			want[lastBlk] = true
		}
		if s.Kind == "flushfail" {
			want[lastBlk+1] = true // the next block may arrive during the refused flush
		}
	}
	if p.stopAt != 0 {
		want[uint32(p.stopAt)] = true
	}
	withTxs := func(i int) bool { return true }
	wantF := func(h uint32) bool { return p.local.Timer || want[h] }
	if p.kind == "page" {
		withTxs = func(i int) bool { return i <= 6 || i >= p.n-14 }
	}
	if p.kind == "gclong" {
		for _, f := range flushAt {
			want[f] = true
		}
		wantF = func(h uint32) bool { return want[h] }
		withTxs = func(i int) bool { return i <= 6 || i >= p.n-14 || i%500 < 2 || (i >= 1995 && i <= 2003) }
	}
	h, err := buildHistory(r, p.proto, p.n, &c.cnt, withTxs, wantF)
	if err != nil {
		c.fail("harness-history", "building the history failed: %v", err)
		return c
	}
	base := h.Cfg
	cfg := nodeConfig(h, base, p.local)
	if p.stopAt != 0 {
		// keep the steps up to block stopAt, then (maybe) all headers
		var cut []Step
		for _, s := range steps {
			if (s.Kind == "blk" || s.Kind == "blkwait") && int(s.H) > p.stopAt {
				break
			}
			cut = append(cut, s)
		}
		steps = append(cut, Step{"hdr", h.N()})
		c.cnt.count("subject:stops-with-headers-ahead")
	}
	var sr *subjectRun
	for attempt := 0; attempt < 3; attempt++ {
		if sr != nil {
			sr.cleanup()
		}
		if p.kind == "gclong" {
			sr, err = runSubjectGC(h, cfg, flushAt, p.backend, p.hdrAt, p.hdrTo)
		} else {
			sr, err = runSubject(h, cfg, p.local, steps, p.backend)
		}
		if err != nil {
			c.fail("subject-run", "%v", err)
			return c
		}
		if !sr.timerHit || p.local.Timer {
			break // (a timer-driven subject is not re-run: gclong takes seconds, its tie lines are dropped instead)
		}
		c.cnt.count("subject:timer-interference-retry")
	}
	defer sr.cleanup()
	for _, f := range sr.fails {
		c.fail(f.key, "%s", f.msg)
	}
	c.cnt.add("subject:block-arrived-during-refused-flush", sr.during)
	c.cnt.add("subject:flush-during-back-pressure-wait", sr.waited)
	switch sr.hdrDuringGC {
	case 1:
		c.cnt.count("subject:headers-delivered-inside-gc-cycle")
	case -1:
		c.cnt.count("subject:headers-inside-gc-cycle-missed")
	}
	c.cnt.add("subject:back-pressure-wait-not-reached", sr.notWaited)
	for _, l := range sr.lines {
		if l[0] == "flushfail" {
			c.cnt.count("subject:refused-flush-" + l[1])
		}
	}
	c.replica = p.replica
	if p.kind == "gclong" {
		c.contLimit, c.contFull = 120, 9
	}
	c.cnt.count("subject-backend:" + p.backend)
	c.line(fmt.Sprintf("cfg srh=%v mtb=%d rub=%v gcp=%d", p.proto.SRH, h.MTB, p.local.RUB, p.local.GCP), "ok")
	if !sr.timerHit {
		c.lines = append(c.lines, sr.lines...)
	} else {
		c.cnt.count("subject:tie-skipped-timer")
	}
	bs := sr.st.Batches()
	c.cnt.add("batches", len(bs))
	c.cnt.add("blocks", p.n)
	skip := map[string]bool{}
	if p.local.Timer {
		skip["transfers"] = true
	}
	// every prefix of the batch list is a crash point
	db := map[string][]byte{}
	for i := 0; i <= len(bs); i++ {
		if i > 0 {
			apply(db, bs[i-1])
			if bs[i-1].GC {
				c.cnt.count("crashpoint:after-gc-batch")
			} else {
				c.cnt.count("crashpoint:after-flush-batch")
			}
		}
		var accepted uint32
		if i > 0 {
			accepted = sr.batchInfo[i-1].accepted
		}
		tag := ""
		if i > 0 && sr.batchInfo[i-1].phase == "wait" {
			// a flush inside storeBlock (the batch must hold nothing of the waiting block)
			c.cnt.count("crashpoint:after-flush-inside-block")
			if cfg.RemoveUntraceableBlocks {
				c.cnt.count("crashpoint:after-flush-inside-block-rc-mpt")
			}
		}
		checkPrefix(c, h, cfg, len(bs), accepted, false, i, copyDB(db), skip, tag)
	}
	if p.kind == "reset" || p.kind == "page" {
		resetScenario(c, h, cfg, sr, p.target, skip)
	}
	checkSplits(c, h, cfg, sr, len(bs), p.target, skip)
	if sr.timerHit {
		// the subject's own lines were dropped, so the model knows nothing of this chain: no tie line of the
		// case (reset batches included) is comparable
		c.lines = nil
	}
	c.seen = append(c.seen, fmt.Sprintf("%s/%d/%d/%v", p.kind, p.n, len(bs), p.proto))
	c.samp = append(c.samp, fmt.Sprintf("%s n=%d batches=%d srh=%v pf=%d hdrs=%v target=%d fails=%d", p.kind, p.n, len(bs), p.proto.SRH, p.pfMille, p.hdrs, p.target, len(c.fails)))
	return c
}

func main() {
	f := hx.ParseFlags()
	o := hx.NewOut(f.Out)
	defer o.Close()
	n := f.N(24, 200)
	var ks []int
	for k := 0; k < n; k++ {
		if f.Want(k) {
			ks = append(ks, k)
		}
	}
	res := make([]*caseOut, len(ks))
	var wg sync.WaitGroup
	sem := make(chan struct{}, *workers)
	for i, k := range ks {
		wg.Add(1)
		sem <- struct{}{}
		go func(i, k int) {
			defer wg.Done()
			defer func() { <-sem }()
			defer func() {
				if r := recover(); r != nil {
					c := &caseOut{k: k, cnt: counters{m: map[string]int{}}}
					c.fail("harness-panic", "%v at %s", r, panicSite())
					res[i] = c
				}
			}()
			res[i] = runCase(k, f.Seed, f.Tier)
		}(i, k)
	}
	wg.Wait()
	for _, c := range res {
		o.Case(c.k)
		for _, l := range c.lines {
			o.Line(l[0], l[1])
		}
		for _, fl := range c.fails {
			o.Fail(fl.key, c.k, "%s", fl.msg)
		}
		names := make([]string, 0, len(c.cnt.m))
		for n := range c.cnt.m {
			names = append(names, n)
		}
		sort.Strings(names)
		for _, n := range names {
			o.Add(n, c.cnt.m[n])
		}
		for _, s := range c.seen {
			o.Seen(s)
		}
		for _, s := range c.samp {
			o.Sample(s)
		}
	}
}

// panicSite names the innermost frames of this package on the panicking stack.
func panicSite() string {
	var sb strings.Builder
	pcs := make([]uintptr, 32)
	fr := runtime.CallersFrames(pcs[:runtime.Callers(3, pcs)])
	for n := 0; n < 4; {
		f, more := fr.Next()
		if strings.HasPrefix(f.Function, "main.") {
			fmt.Fprintf(&sb, "%s:%d ", f.Function, f.Line)
			n++
		}
		if !more {
			break
		}
	}
	return sb.String()
}

// pageSchedule: sparse flushes far from the header-hash page boundary, dense ones around it.
func pageSchedule(r *prng.R, n uint32) []Step {
	var (
		steps  []Step
		p, hdr uint32
	)
	for p < n {
		near := p+12 >= 2000 && p <= 2006
		if near && max(hdr, p) < n && r.Chance(1, 6) {
			hdr = min(n, max(hdr, p)+uint32(r.Range(1, 4)))
			steps = append(steps, Step{"hdr", hdr})
			if r.Chance(1, 2) {
				steps = append(steps, Step{"flush", 0})
			}
			continue
		}
		p++
		steps = append(steps, Step{"blk", p})
		if p == 5 || p%700 == 0 || (near && r.Chance(7, 10)) || (p > 2006 && r.Chance(1, 6)) {
			steps = append(steps, Step{"flush", 0})
		}
	}
	return steps
}
