package main

import (
	"os"
	"path/filepath"

	"github.com/nspcc-dev/neo-go/pkg/core/storage"
	"github.com/nspcc-dev/neo-go/pkg/core/storage/dbconfig"
)

// newBackend opens a fresh backend of the given kind; cleanup closes it and removes its files.
func newBackend(kind string) (st storage.Store, cleanup func(), err error) {
	st, _, cleanup, err = newProbedBackend(kind)
	return st, cleanup, err
}

// newProbedBackend additionally returns the commit probe of a persistent backend (nil for memory).
func newProbedBackend(kind string) (st storage.Store, probe commitProbe, cleanup func(), err error) {
	switch kind {
	case "bolt", "level":
		dir, err := os.MkdirTemp("", "verif-crash-*")
		if err != nil {
			return nil, nil, nil, err
		}
		if kind == "bolt" {
			st, err = storage.NewBoltDBStore(dbconfig.BoltDBOptions{FilePath: filepath.Join(dir, "db.bolt")})
			probe = &boltProbe{filepath.Join(dir, "db.bolt")}
		} else {
			st, err = storage.NewLevelDBStore(dbconfig.LevelDBOptions{DataDirectoryPath: filepath.Join(dir, "level")})
			probe = &levelProbe{filepath.Join(dir, "level")}
		}
		if err != nil {
			os.RemoveAll(dir)
			return nil, nil, nil, err
		}
		inner := st
		return noCloseStore{st}, probe, func() { _ = inner.Close(); os.RemoveAll(dir) }, nil
	default:
		return noCloseStore{storage.NewMemoryStore()}, nil, func() {}, nil
	}
}
