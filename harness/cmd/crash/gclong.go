package main

// gclong: a chain longer than two header-hash pages on a node with RemoveUntraceableBlocks, a small
// MaxTraceableBlocks and a small GarbageCollectionPeriod, so that the garbage collection of blocks
// (removeUntraceableBlocks, blockchain.go:1661-1705: into the write cache, flushed with the NEXT batch) and of
// header-hash pages (removeOldHeaderHashes, blockchain.go:1629-1659: a SeekGC directly on the backend) runs.
// GC is only ever started by the node's own 1 s persist timer (Run, blockchain.go:1352-1391), so the subject is
// fed in bursts and left idle at the planned flush heights until the timer has flushed and the GC is over.

import (
	"encoding/binary"
	"fmt"
	"strings"
	"sync/atomic"
	"time"

	"github.com/nspcc-dev/neo-go/pkg/core/block"

	"github.com/nspcc-dev/neo-go/pkg/config"

	"verif/harness/internal/prng"
)

// gclongParams draws the configuration: the chain has to pass 2*2000 + MaxTraceableBlocks for a page to go.
func gclongParams(r *prng.R, p *caseParams) {
	p.kind = "gclong"
	p.proto.TraceOnly = true
	p.proto.MTB = uint32([]int{40, 100, 250, 600}[r.Intn(4)])
	gcp := uint32([]int{250, 500, 1000}[r.Intn(3)])
	p.local = Local{RUB: true, GCP: gcp, Timer: true}
	p.n = 4000 + int(p.proto.MTB) + int(gcp) + r.Range(20, 300)
	p.hdrs, p.stopAt, p.target = false, 0, 0
}

// gclongFlushes plans the heights at which the subject waits for the timer: at most `burst` blocks apart,
// and right after the heights at which the GC target crosses a page boundary.
func gclongFlushes(r *prng.R, n int, mtb, gcp uint32, burst int) []uint32 {
	var res []uint32
	last := 0
	for last < n {
		next := min(last+burst-r.Intn(burst/4), n)
		for _, special := range []int{2000 + int(mtb), 4000 + int(mtb), 3999 + int(mtb), 4000 + int(mtb) + int(gcp)} {
			s := special + r.Intn(3)
			if s > last+burst/3 && s < next {
				next = s
			}
		}
		res = append(res, uint32(next))
		last = next
	}
	return res
}

func hdrHeightOf(b *Batch) (uint32, bool) {
	v, ok := b.KV["\xc1"]
	if !ok || len(v) < 36 {
		return 0, false
	}
	return binary.LittleEndian.Uint32(v[32:36]), true
}

func putHeight(b *Batch) (uint32, bool) {
	v, ok := b.KV["\xc0"]
	if !ok || len(v) < 36 {
		return 0, false
	}
	return binary.LittleEndian.Uint32(v[32:36]), true
}

// gcPages renders the header-hash pages the GC batches removed.
func gcPages(bs []*Batch) string {
	var pgs []uint32
	for _, b := range bs {
		if !b.GC || b.GCPfx != 0x80 {
			continue
		}
		for k := range b.KV {
			if len(k) == 5 {
				pgs = append(pgs, binary.BigEndian.Uint32([]byte(k[1:])))
			}
		}
	}
	return ranges(pgs)
}

// runSubjectGC feeds the whole history; flushes (and the GC after them) are the node's own.
// hdrAt/hdrTo (0 = none): when the flush planned at height hdrAt has happened and the GC cycle that follows it is
// between its MPT pass and its header-hash pass, the headers hdrAt+1..hdrTo are delivered (AddHeaders from the GC
// goroutine itself, through RecStore.afterGC): they - and a header-hash page they complete - sit in the write cache
// while removeOldHeaderHashes deletes pages directly in the database (seeded C02-m8).
func runSubjectGC(h *History, cfg config.Blockchain, flushAt []uint32, backend string, hdrAt, hdrTo uint32) (*subjectRun, error) {
	inner, probe, cleanup, err := newProbedBackend(backend)
	if err != nil {
		return nil, err
	}
	sr := &subjectRun{st: NewProbedRecStore(inner, probe), cleanup: cleanup}
	var watch gcWatch
	bc, err := openNodeLog(sr.st, cfg, watch.logger())
	if err != nil {
		return nil, fmt.Errorf("subject open: %w", err)
	}
	go bc.Run()
	closed := false
	defer func() {
		if !closed {
			bc.Close()
		}
	}()
	srh := cfg.StateRootInHeader
	var accepted uint32
	seenBatches, seenGC := 0, 0
	var (
		hdrArmed  atomic.Bool
		hdrAdded  atomic.Bool
		hdrErr    error
		hdrBefore int // put batches recorded when the headers went in
	)
	if hdrAt != 0 {
		sr.st.afterGC = func(pfx byte) {
			if pfx != 0x03 || !hdrArmed.CompareAndSwap(true, false) {
				return
			}
			var hs []*block.Header
			for i := hdrAt + 1; i <= hdrTo; i++ {
				hs = append(hs, &h.Blocks[i-1].Header)
			}
			hdrBefore = sr.st.NumBatches()
			hdrErr = bc.AddHeaders(hs...)
			hdrAdded.Store(true)
		}
	}
	// emit turns the batches recorded since the last look into tie lines. Put batches are flushes; the GC
	// calls between two flushes belong to the earlier one.
	emit := func() {
		watch.wait()
		bs := sr.st.Batches()
		calls := sr.st.GCCalls()
		newb := bs[seenBatches:]
		var puts []*Batch
		for _, b := range newb {
			if !b.GC {
				puts = append(puts, b)
			}
		}
		for len(sr.batchInfo) < len(bs) {
			ph, _ := persistedHeight(sr.st)
			sr.batchInfo = append(sr.batchInfo, batchMeta{accepted: accepted, persisted: ph, phase: "run"})
		}
		seenBatches = len(bs)
		if len(puts) == 0 {
			return
		}
		if bp, ok := putHeight(puts[0]); len(puts) != 1 || !ok || bp != accepted {
			sr.timerHit = true // the timer fired inside a burst: the lines of this run are not comparable
		}
		sr.lines = append(sr.lines, [2]string{"flush", abstractBatch(puts[0], srh)})
		if hdrAdded.CompareAndSwap(true, false) {
			// the headers went in after this flush and before the page pass of its GC cycle
			if hp, ok := hdrHeightOf(puts[0]); !ok || hp != hdrAt || accepted != hdrAt {
				sr.timerHit = true
			}
			sr.lines = append(sr.lines, [2]string{fmt.Sprintf("hdr %d %d", hdrAt+1, hdrTo), "ok"})
		}
		var sb strings.Builder
		for _, c := range calls[seenGC:] {
			fmt.Fprintf(&sb, "%02x", c)
		}
		seenGC = len(calls)
		s := sb.String()
		if s == "" {
			s = "-"
		}
		sr.lines = append(sr.lines, [2]string{"gc", s})
		sr.lines = append(sr.lines, [2]string{"gcpages", gcPages(newb)})
	}
	next := 0
	for i := uint32(1); i <= h.N(); i++ {
		if err := safeAddBlock(bc, h.Blocks[i-1]); err != nil {
			return nil, fmt.Errorf("subject AddBlock %d: %w", i, err)
		}
		accepted = i
		inf := h.Info[i-1]
		sr.lines = append(sr.lines, [2]string{fmt.Sprintf("blk %d %d %s", i, inf.NTx, pairsStr(inf.Pairs)), "ok"})
		if sr.st.NumBatches() > seenBatches {
			sr.timerHit = true
			emit()
		}
		if hdrAt != 0 && i == hdrAt && watch.started.Load() == watch.finished.Load() {
			hdrArmed.Store(true)
		}
		if next < len(flushAt) && i == flushAt[next] {
			next++
			deadline := time.Now().Add(5 * time.Second)
			for time.Now().Before(deadline) {
				if ph, ok := persistedHeight(sr.st); ok && ph == accepted {
					break
				}
				time.Sleep(5 * time.Millisecond)
			}
			emit()
		}
	}
	watch.wait()
	emit()
	if hdrErr != nil {
		return nil, fmt.Errorf("subject AddHeaders %d..%d during the GC cycle: %w", hdrAt+1, hdrTo, hdrErr)
	}
	if hdrAt != 0 && hdrArmed.Load() {
		sr.hdrDuringGC = -1 // the GC cycle never came
	} else if hdrAt != 0 {
		sr.hdrDuringGC = 1
	}
	_ = hdrBefore
	closed = true
	before := sr.st.NumBatches()
	bc.Close()
	bs := sr.st.Batches()
	for len(sr.batchInfo) < len(bs) {
		ph, _ := persistedHeight(sr.st)
		sr.batchInfo = append(sr.batchInfo, batchMeta{accepted: accepted, persisted: ph, phase: "run"})
	}
	obs := "none"
	if len(bs) > before {
		var puts []string
		for _, b := range bs[before:] {
			puts = append(puts, abstractBatch(b, srh))
		}
		obs = strings.Join(puts, " || ")
	}
	sr.lines = append(sr.lines, [2]string{"flush", obs})
	return sr, nil
}
