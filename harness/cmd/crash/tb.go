package main

import (
	"fmt"
	"testing"
)

// tb is a minimal testing.TB so that pkg/neotest can be used from an ordinary binary.
// A failed require.* ends in FailNow, which panics with tbFail; run() turns that into an error.
type tb struct {
	testing.TB // nil; only here to satisfy the interface's unexported method
	msgs       []string
	cleanups   []func()
	failed     bool
}

type tbFail struct{ msg string }

func (t *tb) Helper()                 {}
func (t *tb) Name() string            { return "crash" }
func (t *tb) Log(a ...any)            {}
func (t *tb) Logf(f string, a ...any) {}
func (t *tb) Fail()                   { t.failed = true }
func (t *tb) Failed() bool            { return t.failed }
func (t *tb) Error(a ...any)          { t.failed = true; t.msgs = append(t.msgs, fmt.Sprint(a...)) }
func (t *tb) Errorf(f string, a ...any) {
	t.failed = true
	t.msgs = append(t.msgs, fmt.Sprintf(f, a...))
}
func (t *tb) Fatal(a ...any)            { t.Error(a...); t.FailNow() }
func (t *tb) Fatalf(f string, a ...any) { t.Errorf(f, a...); t.FailNow() }
func (t *tb) Skip(a ...any)             { panic(tbFail{"skip"}) }
func (t *tb) Skipf(f string, a ...any)  { panic(tbFail{"skip"}) }
func (t *tb) SkipNow()                  { panic(tbFail{"skip"}) }
func (t *tb) Skipped() bool             { return false }
func (t *tb) Setenv(k, v string)        {}
func (t *tb) Cleanup(f func())          { t.cleanups = append(t.cleanups, f) }
func (t *tb) TempDir() string           { panic(tbFail{"TempDir not supported"}) }
func (t *tb) FailNow() {
	t.failed = true
	m := "FailNow"
	if len(t.msgs) > 0 {
		m = t.msgs[len(t.msgs)-1]
	}
	panic(tbFail{m})
}

// done runs the registered cleanups (last first).
func (t *tb) done() {
	for i := len(t.cleanups) - 1; i >= 0; i-- {
		func() {
			defer func() { _ = recover() }()
			t.cleanups[i]()
		}()
	}
	t.cleanups = nil
}

// try runs f and converts a tbFail panic (or any other panic) into an error.
func try(f func()) (err error) {
	defer func() {
		if r := recover(); r != nil {
			if tf, ok := r.(tbFail); ok {
				err = fmt.Errorf("tb: %s", tf.msg)
				return
			}
			err = fmt.Errorf("panic: %v", r)
		}
	}()
	f()
	return nil
}
