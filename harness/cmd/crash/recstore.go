package main

import (
	"bytes"
	"errors"
	"fmt"
	"sort"
	"sync"

	"github.com/nspcc-dev/neo-go/pkg/core/state"
	"github.com/nspcc-dev/neo-go/pkg/io"

	"github.com/nspcc-dev/neo-go/pkg/core/storage"
)

// Batch is one atomic write of the node to its backend: a PutChangeSet or a committed SeekGC.
// A nil value is a deletion.
type Batch struct {
	GC    bool
	GCPfx byte
	KV    map[string][]byte
}

// RecStore wraps a backend and records every atomic batch in commit order.
type RecStore struct {
	mu      sync.Mutex
	inner   storage.Store
	batches []*Batch
	// gcCalls counts SeekGC calls per prefix byte (including the ones that deleted nothing).
	gcCalls []byte
	closed  bool
	// probe (persistent backends only) counts the backend's committed transactions; every recorded
	// batch must be exactly one of them.
	probe   commitProbe
	split   []splitRec
	checked int // calls whose commit count was checked
	// failPuts > 0: the next PutChangeSet is refused (a backend write failure), nothing is written
	failPuts, injected int
	failHook           func() // runs while the refused PutChangeSet is "in progress"
	// afterGC (optional) runs after every SeekGC call has returned, in the calling (GC) goroutine and without
	// the store's lock: the place to let something happen BETWEEN two passes of one GC cycle
	afterGC func(pfx byte)
}

var errInjected = errors.New("injected backend write failure")

// FailNext makes the next PutChangeSet fail; Injected tells how many failures were delivered so far.
func (s *RecStore) FailNext() {
	s.mu.Lock()
	s.failPuts++
	s.mu.Unlock()
}

// FailNextWith: the next PutChangeSet fails after calling hook (without the store's lock held), so that
// writes can arrive at the cache while the flush is in flight.
func (s *RecStore) FailNextWith(hook func()) {
	s.mu.Lock()
	s.failPuts++
	s.failHook = hook
	s.mu.Unlock()
}

func (s *RecStore) Injected() int {
	s.mu.Lock()
	defer s.mu.Unlock()
	return s.injected
}

// DisarmFailure withdraws a failure that was not delivered.
func (s *RecStore) DisarmFailure() {
	s.mu.Lock()
	s.failPuts = 0
	s.failHook = nil
	s.mu.Unlock()
}

// splitRec: a PutChangeSet / SeekGC call that was not exactly one committed backend transaction.
type splitRec struct {
	batch    int    // index the batch has (or would have) in batches
	what     string // "PutChangeSet" | "SeekGC"
	commits  uint64
	image    map[string][]byte // the database a crash right before the call's last commit leaves (nil: none)
	why      string            // why there is no image
	probeErr string
}

func NewRecStore(inner storage.Store) *RecStore { return &RecStore{inner: inner} }

// NewProbedRecStore records the batches and checks them against the backend's commit counter.
func NewProbedRecStore(inner storage.Store, p commitProbe) *RecStore {
	return &RecStore{inner: inner, probe: p}
}

// probed runs one writing call of the backend between two readings of its commit counter.
func (s *RecStore) probed(what string, nonEmpty func() bool, call func() error) error {
	if s.probe == nil {
		return call()
	}
	before, e1 := s.probe.counter()
	err := call()
	after, e2 := s.probe.counter()
	switch {
	case e1 != nil || e2 != nil:
		s.split = append(s.split, splitRec{batch: len(s.batches), what: what, probeErr: fmt.Sprint(e1, e2)})
	case err == nil && nonEmpty() && after-before == 1:
		s.checked++
	case err == nil && nonEmpty() && after-before != 1:
		r := splitRec{batch: len(s.batches), what: what, commits: after - before}
		if after-before >= 2 {
			var ok bool
			if r.image, ok, r.why = s.probe.imageBeforeLast(before); !ok {
				r.image = nil
			}
		}
		s.split = append(s.split, r)
	case err != nil && after != before:
		// a failed call must not have committed anything
		s.split = append(s.split, splitRec{batch: len(s.batches), what: what + "-failed", commits: after - before})
	}
	return err
}

func (s *RecStore) Splits() ([]splitRec, int) {
	s.mu.Lock()
	defer s.mu.Unlock()
	return append([]splitRec(nil), s.split...), s.checked
}

func (s *RecStore) Get(k []byte) ([]byte, error) { return s.inner.Get(k) }

func (s *RecStore) Seek(rng storage.SeekRange, f func(k, v []byte) bool) { s.inner.Seek(rng, f) }

func (s *RecStore) PutChangeSet(puts map[string][]byte, stor map[string][]byte) error {
	b := &Batch{KV: make(map[string][]byte, len(puts)+len(stor))}
	for k, v := range puts {
		b.KV[k] = cloneVal(v)
	}
	for k, v := range stor {
		b.KV[k] = cloneVal(v)
	}
	s.mu.Lock()
	if s.failPuts > 0 {
		s.failPuts--
		s.injected++
		hook := s.failHook
		s.failHook = nil
		s.mu.Unlock()
		if hook != nil {
			hook()
		}
		return errInjected
	}
	defer s.mu.Unlock()
	err := s.probed("PutChangeSet", func() bool { return len(b.KV) > 0 }, func() error { return s.inner.PutChangeSet(puts, stor) })
	if err == nil && len(b.KV) > 0 {
		s.batches = append(s.batches, b)
	}
	return err
}

func cloneVal(v []byte) []byte {
	if v == nil {
		return nil
	}
	return append(make([]byte, 0, len(v)), v...)
}

func (s *RecStore) SeekGC(rng storage.SeekRange, keepCont func(k, v []byte) (bool, bool)) error {
	b := &Batch{GC: true, KV: map[string][]byte{}}
	if len(rng.Prefix) > 0 {
		b.GCPfx = rng.Prefix[0]
	}
	s.mu.Lock()
	defer func() {
		hook := s.afterGC
		s.mu.Unlock()
		if hook != nil {
			hook(b.GCPfx)
		}
	}()
	err := s.probed("SeekGC", func() bool { return len(b.KV) > 0 }, func() error {
		return s.inner.SeekGC(rng, func(k, v []byte) (bool, bool) {
			keep, cont := keepCont(k, v)
			if !keep {
				b.KV[string(k)] = nil
			}
			return keep, cont
		})
	})
	if err == nil {
		s.gcCalls = append(s.gcCalls, b.GCPfx)
		if len(b.KV) > 0 {
			s.batches = append(s.batches, b)
		}
	}
	return err
}

// Close does not close the backend: the harness reopens nodes on the same store.
func (s *RecStore) Close() error {
	s.mu.Lock()
	s.closed = true
	s.mu.Unlock()
	return nil
}

func (s *RecStore) NumBatches() int {
	s.mu.Lock()
	defer s.mu.Unlock()
	return len(s.batches)
}

func (s *RecStore) Batches() []*Batch {
	s.mu.Lock()
	defer s.mu.Unlock()
	return append([]*Batch(nil), s.batches...)
}

func (s *RecStore) GCCalls() []byte {
	s.mu.Lock()
	defer s.mu.Unlock()
	return append([]byte(nil), s.gcCalls...)
}

// noCloseStore keeps a MemoryStore alive across Blockchain.Close (which closes its store).
type noCloseStore struct{ storage.Store }

func (noCloseStore) Close() error { return nil }

// apply folds a batch into a plain key/value map (the database as a value).
func apply(db map[string][]byte, b *Batch) {
	for k, v := range b.KV {
		if v == nil {
			delete(db, k)
		} else {
			db[k] = v
		}
	}
}

// fold returns the database after the first k batches.
func fold(bs []*Batch, k int) map[string][]byte {
	db := map[string][]byte{}
	for _, b := range bs[:k] {
		apply(db, b)
	}
	return db
}

// materialise builds a fresh MemoryStore holding exactly db.
func materialise(db map[string][]byte) storage.Store {
	ms := storage.NewMemoryStore()
	puts := map[string][]byte{}
	stor := map[string][]byte{}
	for k, v := range db {
		if k[0] == byte(storage.STStorage) || k[0] == byte(storage.STTempStorage) {
			stor[k] = cloneVal(v)
		} else {
			puts[k] = cloneVal(v)
		}
	}
	_ = ms.PutChangeSet(puts, stor)
	return ms
}

// replayOnto applies the first k batches one by one to a backend (used for disk backends,
// where the replayed database is the product of the same sequence of transactions).
func replayOnto(st storage.Store, bs []*Batch, k int) error {
	for _, b := range bs[:k] {
		puts := map[string][]byte{}
		stor := map[string][]byte{}
		for key, v := range b.KV {
			if key[0] == byte(storage.STStorage) || key[0] == byte(storage.STTempStorage) {
				stor[key] = cloneVal(v)
			} else {
				puts[key] = cloneVal(v)
			}
		}
		if err := st.PutChangeSet(puts, stor); err != nil {
			return err
		}
	}
	return nil
}

type kv struct {
	k string
	v []byte
}

func sortedKV(db map[string][]byte) []kv {
	res := make([]kv, 0, len(db))
	for k, v := range db {
		res = append(res, kv{k, v})
	}
	sort.Slice(res, func(i, j int) bool { return res[i].k < res[j].k })
	return res
}

// diffDB returns up to n differing keys between two databases.
func diffDB(a, b map[string][]byte, n int) []string {
	var res []string
	for k, v := range a {
		w, ok := b[k]
		if !ok {
			res = append(res, "only-left:"+hexs(k))
		} else if !bytes.Equal(canonVal(k, v), canonVal(k, w)) {
			res = append(res, "differs:"+hexs(k))
		}
	}
	for k := range b {
		if _, ok := a[k]; !ok {
			res = append(res, "only-right:"+hexs(k))
		}
	}
	sort.Strings(res)
	if len(res) > n {
		res = res[:n]
	}
	return res
}

// canonVal removes the one known encoding artefact of the database: state.TokenTransferInfo is
// serialised by ranging over a Go map (LastUpdated), so the same record has several byte forms.
func canonVal(k string, v []byte) []byte {
	if len(k) == 0 || k[0] != byte(storage.STTokenTransferInfo) || v == nil {
		return v
	}
	var ti state.TokenTransferInfo
	r := io.NewBinReaderFromBuf(v)
	ti.DecodeBinary(r)
	if r.Err != nil {
		return v
	}
	ids := make([]int32, 0, len(ti.LastUpdated))
	for id := range ti.LastUpdated {
		ids = append(ids, id)
	}
	sort.Slice(ids, func(i, j int) bool { return ids[i] < ids[j] })
	out := []byte(fmt.Sprintf("%d/%d/%d/%d/%v/%v", ti.NextNEP11Batch, ti.NextNEP17Batch, ti.NextNEP11NewestTimestamp, ti.NextNEP17NewestTimestamp, ti.NewNEP11Batch, ti.NewNEP17Batch))
	for _, id := range ids {
		out = append(out, []byte(fmt.Sprintf(",%d=%d", id, ti.LastUpdated[id]))...)
	}
	return out
}

func hexs(s string) string {
	const d = "0123456789abcdef"
	out := make([]byte, 0, 2*len(s))
	for i := 0; i < len(s) && i < 40; i++ {
		out = append(out, d[s[i]>>4], d[s[i]&15])
	}
	return string(out)
}
