package main

import (
	"errors"
	"fmt"
	"strings"

	"github.com/nspcc-dev/neo-go/pkg/config"
	"github.com/nspcc-dev/neo-go/pkg/core"
	"github.com/nspcc-dev/neo-go/pkg/core/block"
	"github.com/nspcc-dev/neo-go/pkg/core/mpt"
	"github.com/nspcc-dev/neo-go/pkg/core/storage"
	"github.com/nspcc-dev/neo-go/pkg/util"

	"verif/harness/internal/prng"
)

// syncSource serves what a syncing node asks its peers for.
type syncSource struct {
	h     *History
	nodes map[util.Uint256][]byte // MPT nodes of the state at the sync point
}

// driveSync runs the state-sync protocol of node bc to completion against src. between() is called
// between protocol steps (the subject uses it to place flushes). It returns the first error of the real code.
func driveSync(bc *core.Blockchain, src *syncSource, between func()) (err error) {
	defer func() {
		if r := recover(); r != nil {
			err = fmt.Errorf("panic: %v", r)
		}
	}()
	h := src.h
	m := bc.GetStateSyncModule()
	if err := m.Init(h.N()); err != nil {
		return fmt.Errorf("Init: %w", err)
	}
	if !m.IsActive() {
		return nil
	}
	for guard := 0; m.NeedHeaders() && guard < 1000; guard++ {
		from := bc.HeaderHeight() + 1
		to := min(h.N(), from+uint32(2+guard%5))
		var hs []*block.Header
		for i := from; i <= to; i++ {
			hs = append(hs, &h.Blocks[i-1].Header)
		}
		if len(hs) == 0 {
			return errors.New("headers are needed but the source has no more")
		}
		if err := m.AddHeaders(hs...); err != nil {
			return fmt.Errorf("AddHeaders: %w", err)
		}
		between()
	}
	for guard := 0; m.NeedStorageData() && guard < 100000; guard++ {
		need := m.GetUnknownMPTNodesBatch(1 + guard%7)
		if len(need) == 0 {
			return errors.New("storage data is needed but no MPT node is requested")
		}
		add := make([][]byte, 0, len(need))
		for _, hsh := range need {
			nb, ok := src.nodes[hsh]
			if !ok {
				return fmt.Errorf("unknown MPT node %s requested", hsh.StringLE())
			}
			add = append(add, nb)
		}
		if err := m.AddMPTNodes(add); err != nil {
			return fmt.Errorf("AddMPTNodes: %w", err)
		}
		between()
	}
	for guard := 0; m.NeedBlocks() && guard < 1000; guard++ {
		i := m.BlockHeight() + 1
		if i > h.N() {
			return errors.New("blocks are needed beyond the source's height")
		}
		if err := m.AddBlock(h.Blocks[i-1]); err != nil {
			return fmt.Errorf("AddBlock(%d): %w", i, err)
		}
		if m.IsActive() {
			between()
		}
	}
	return nil
}

// jumpCase: a light node (KeepOnlyLatestState + RemoveUntraceableBlocks + P2PStateExchangeExtensions)
// synchronises state at point P from an archival source; every batch is a crash point, including the
// batches of jumpToStateInternal.
func jumpCase(c *caseOut, r *prng.R, long bool) {
	proto := Proto{SRH: true, MTB: 6, P2PSE: true, SSI: 4}
	n := r.Range(26, 36)
	if long { // more headers than one header-hash page, as on any real network
		n = 2000 + r.Range(10, 40)
	}
	if n%4 == 0 {
		n++
	}
	P := uint32(n/4) * 4
	want := func(h uint32) bool { return h == 0 || h >= P }
	withTxs := func(i int) bool { return !long || i <= 6 || i >= n-16 }
	h, err := buildHistory(r, proto, n, &c.cnt, withTxs, want)
	if err != nil {
		c.fail("harness-history", "building the history failed: %v", err)
		return
	}
	c.cnt.add("blocks", n)
	// the archival source of MPT nodes
	spout, err := openNode(storage.NewMemoryStore(), h.Cfg)
	if err != nil {
		c.fail("harness-spout", "%v", err)
		return
	}
	go spout.Run()
	defer spout.Close()
	for _, b := range h.Blocks {
		if err := safeAddBlock(spout, b); err != nil {
			c.fail("harness-spout", "%v", err)
			return
		}
	}
	src := &syncSource{h: h, nodes: map[util.Uint256][]byte{}}
	sr, err := spout.GetStateRoot(P)
	if err != nil {
		c.fail("harness-spout", "%v", err)
		return
	}
	if err := spout.GetStateSyncModule().Traverse(sr.Root, func(nd mpt.Node, nb []byte) bool {
		src.nodes[nd.Hash()] = append([]byte(nil), nb...)
		return false
	}); err != nil {
		c.fail("harness-spout", "traverse: %v", err)
		return
	}
	c.cnt.add("jump:mpt-nodes", len(src.nodes))

	cfg := h.Cfg
	cfg.KeepOnlyLatestState = true
	cfg.RemoveUntraceableBlocks = true
	rec := NewRecStore(storage.NewMemoryStore())
	bc, err := openNode(rec, cfg)
	if err != nil {
		c.fail("jump-subject-open", "%v", err)
		return
	}
	go bc.Run()
	pf := []int{1, 2, 4}[r.Intn(3)]
	step := 0
	err = driveSync(bc, src, func() {
		step++
		if step%pf == 0 {
			_ = bc.VerifPersist()
		}
	})
	if err != nil || bc.BlockHeight() != P {
		bc.Close()
		c.fail("jump-subject-sync", "uninterrupted state sync to %d failed (height %d): %v", P, bc.BlockHeight(), err)
		return
	}
	_ = bc.VerifPersist()
	jumpEnd := rec.NumBatches()
	for i := P + 1; i <= h.N(); i++ {
		if err := safeAddBlock(bc, h.Blocks[i-1]); err != nil {
			bc.Close()
			c.fail("jump-subject-continue", "after the jump AddBlock(%d) failed: %v", i, err)
			return
		}
	}
	bc.Close()
	bs := rec.Batches()
	c.cnt.add("batches", len(bs))
	c.cnt.count("kind:jump")
	if long {
		c.cnt.count("jump:chain-longer-than-a-header-page")
	}
	jumpDB := fold(bs, jumpEnd)
	skip := map[string]bool{"blocks": true, "transfers": true, "lastupdated": true}
	// the first batch that carries the jump's stage marker
	firstMarker := -1
	for i, b := range bs {
		if _, ok := b.KV["\xc4"]; ok && firstMarker < 0 {
			firstMarker = i
		}
	}
	c.line(fmt.Sprintf("cfg srh=true mtb=%d rub=true gcp=0", h.MTB), "ok")
	if firstMarker >= 0 && jumpEnd-firstMarker == 4 {
		// tie: the four batches of jumpToStateInternal against the model's jump stages
		c.line(fmt.Sprintf("synced %d %d %d", P, h.N(), h.MTB), "ok")
		dbb := fold(bs, firstMarker)
		for _, b := range bs[firstMarker:jumpEnd] {
			c.line("jbatch "+semAbstract(dbb, b, true), "ok")
			apply(dbb, b)
		}
		c.line("jdone", "ok")
	} else {
		c.cnt.count("jump:tie-skipped")
	}
	for k := 0; k <= len(bs); k++ {
		db := fold(bs, k)
		rs := NewRecStore(materialise(db))
		bc2, err := openNode(rs, cfg)
		stage := stageOfDB(db)
		inJump := firstMarker >= 0 && k > firstMarker && k < jumpEnd
		if err != nil {
			where := "during-sync"
			if inJump {
				where = "inside-jump-" + stage
			} else if k >= jumpEnd {
				where = "after-jump"
			}
			c.fail("jump-reopen-"+where+"-"+slug(err), "crash after batch %d of %d (jump batches %d..%d): NewBlockchain failed: %v", k, len(bs), firstMarker+1, jumpEnd, err)
			continue
		}
		if inJump {
			c.cnt.count("jump:crash-inside-jump-" + stage)
		} else if k <= firstMarker {
			c.cnt.count("jump:crash-during-sync")
		} else {
			c.cnt.count("jump:crash-after-jump")
		}
		func() {
			go bc2.Run()
			defer func() {
				defer func() { _ = recover() }()
				bc2.Close()
			}()
			if inJump {
				// an interrupted jump is finished by init: same database as the uninterrupted one
				fin := copyDB(db)
				for _, b := range rs.Batches() {
					apply(fin, b)
				}
				if d := diffDB(jumpDB, fin, 6); len(d) > 0 {
					c.fail("jump-resume-db", "crash after batch %d (%s): the resumed jump ends in a different database: %s", k, stage, strings.Join(d, " "))
				}
			}
			if bc2.BlockHeight() < P {
				if err := driveSync(bc2, src, func() {}); err != nil {
					c.fail("jump-resume-sync-"+slug(err), "crash after batch %d of %d: resuming the state sync failed: %v", k, len(bs), err)
					return
				}
				if bc2.BlockHeight() != P {
					c.fail("jump-not-completed", "crash after batch %d of %d (first jump batch is %d): the restarted node finished the sync protocol but is at height %d, not at the sync point %d", k, len(bs), firstMarker+1, bc2.BlockHeight(), P)
					return
				}
			}
			hh := bc2.BlockHeight()
			if hh > h.N() || h.Ref[hh].partial {
				c.fail("jump-height", "crash after batch %d: unexpected height %d", k, hh)
				return
			}
			got := observe(bc2, h, hh)
			if d := h.Ref[hh].diff(&got, skip); len(d) > 0 {
				c.fail("jump-recover-"+d[0], "crash after batch %d: node at %d differs from the reference in %v: ref %q got %q", k, hh, d, h.Ref[hh].get(d[0]), got.get(d[0]))
				return
			}
			for i := hh + 1; i <= h.N(); i++ {
				if err := safeAddBlock(bc2, h.Blocks[i-1]); err != nil {
					c.fail("jump-continue-addblock", "crash after batch %d: node at %d, AddBlock(%d) failed: %v", k, hh, i, err)
					return
				}
				sr, err := bc2.GetStateRoot(i)
				if err != nil || sr.Root.StringLE() != h.Ref[i].get("root") {
					c.fail("jump-continue-root", "crash after batch %d: state root at %d differs from the reference", k, i)
					return
				}
			}
		}()
	}
	c.seen = append(c.seen, fmt.Sprintf("jump/%d/%d", n, len(bs)))
	c.samp = append(c.samp, fmt.Sprintf("jump n=%d P=%d batches=%d jumpBatches=%d..%d fails=%d", n, P, len(bs), firstMarker+1, jumpEnd, len(c.fails)))
}

var _ = config.Blockchain{}
