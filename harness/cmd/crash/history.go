package main

import (
	"encoding/json"
	"fmt"
	"math/big"

	"github.com/nspcc-dev/neo-go/pkg/config"
	"github.com/nspcc-dev/neo-go/pkg/core"
	"github.com/nspcc-dev/neo-go/pkg/core/block"
	"github.com/nspcc-dev/neo-go/pkg/core/native/nativenames"
	"github.com/nspcc-dev/neo-go/pkg/core/state"
	"github.com/nspcc-dev/neo-go/pkg/core/storage"
	"github.com/nspcc-dev/neo-go/pkg/core/transaction"
	"github.com/nspcc-dev/neo-go/pkg/crypto/keys"
	"github.com/nspcc-dev/neo-go/pkg/io"
	"github.com/nspcc-dev/neo-go/pkg/neotest"
	"github.com/nspcc-dev/neo-go/pkg/neotest/chain"
	"github.com/nspcc-dev/neo-go/pkg/smartcontract"
	"github.com/nspcc-dev/neo-go/pkg/smartcontract/callflag"
	"github.com/nspcc-dev/neo-go/pkg/smartcontract/manifest"
	"github.com/nspcc-dev/neo-go/pkg/smartcontract/nef"
	"github.com/nspcc-dev/neo-go/pkg/util"
	"github.com/nspcc-dev/neo-go/pkg/vm/emit"
	"github.com/nspcc-dev/neo-go/pkg/vm/opcode"
	"github.com/nspcc-dev/neo-go/pkg/wallet"
	"go.uber.org/zap"

	"verif/harness/internal/prng"
)

// Proto is the protocol-level part of the configuration (must be equal on every node of a case).
type Proto struct {
	SRH   bool   // StateRootInHeader
	MTB   uint32 // MaxTraceableBlocks (0 = neotest default 1000)
	P2PSE bool   // P2PStateExchangeExtensions
	SSI   int    // StateSyncInterval
	// Gov: a committee of govCommittee standby members (a dBFT epoch is that many blocks), one validator, and
	// governance transactions in the history (candidate registration, votes, NEO transfers of voters, account blocking)
	Gov bool
	// GovFixed (with Gov): the fixed corpus history - funding, then at the second block of an epoch ONE block that
	// registers three candidates and has every voter vote, nothing but empty blocks afterwards (seeded C02-m6)
	GovFixed bool
	// TraceOnly is not a protocol setting: the histories of this case are observed on traceable blocks only
	TraceOnly bool
}

// Local is the node-local part of the configuration.
type Local struct {
	RUB   bool   // RemoveUntraceableBlocks
	GCP   uint32 // GarbageCollectionPeriod
	Timer bool   // flushes (and GC) are left to the node's own 1 s timer instead of VerifPersist
}

const govCommittee = 4

// govKeys derives the standby committee keys of a Gov history (fixed: every node of a case needs the same ones).
func govKeys() []*keys.PrivateKey {
	ks := make([]*keys.PrivateKey, govCommittee)
	for i := range ks {
		b := make([]byte, 32)
		b[0], b[31] = 0x11, byte(i+1)
		k, err := keys.NewPrivateKeyFromBytes(b)
		if err != nil {
			panic(err)
		}
		ks[i] = k
	}
	return ks
}

func multisigSigner(m int, ks []*keys.PrivateKey) neotest.Signer {
	pubs := make(keys.PublicKeys, len(ks))
	for i := range ks {
		pubs[i] = ks[i].PublicKey()
	}
	accs := make([]*wallet.Account, len(ks))
	for i := range ks {
		accs[i] = wallet.NewAccountFromPrivateKey(ks[i])
		if err := accs[i].ConvertMultisig(m, pubs.Copy()); err != nil {
			panic(err)
		}
	}
	return neotest.NewMultiSigner(accs...)
}

func cfgHook(p Proto, l Local) func(*config.Blockchain) {
	return func(c *config.Blockchain) {
		if p.Gov {
			sb := make([]string, govCommittee)
			for i, k := range govKeys() {
				sb[i] = k.PublicKey().StringCompressed()
			}
			c.StandbyCommittee = sb
			c.ValidatorsCount = 1
		}
		c.StateRootInHeader = p.SRH
		if p.MTB != 0 {
			c.MaxTraceableBlocks = p.MTB
			c.MaxValidUntilBlockIncrement = max(p.MTB/2, 1)
		}
		c.RemoveUntraceableBlocks = l.RUB
		c.GarbageCollectionPeriod = l.GCP
		if p.P2PSE {
			c.P2PStateExchangeExtensions = true
			c.StateSyncInterval = p.SSI
		}
	}
}

// BlockInfo is what the model is told about a block (the abstract content relevant to key classes).
type BlockInfo struct {
	NTx   int
	Pairs [][2]int // (conflict id, signer id) of every Conflicts attribute x signer
}

// History is a generated chain plus the reference node's observation after every block.
type History struct {
	Proto    Proto
	Blocks   []*block.Block // Blocks[i] has index i+1
	Info     []BlockInfo    // same indexing
	Genesis  util.Uint256
	Ref      []Obs // Ref[h] = observation of the reference node at height h
	Accounts []util.Uint160
	MaxID    int32
	// Probe transactions: never on chain; their hashes are used in Conflicts attributes.
	Probes []*transaction.Transaction
	Cfg    config.Blockchain // the producer's configuration with defaults filled in
	MTB    uint32
	// TraceOnly: block observations only cover the last MaxTraceableBlocks blocks
	TraceOnly bool
}

func (h *History) N() uint32 { return uint32(len(h.Blocks)) }

// hashOf returns the block hash of height i (0 = genesis).
func (h *History) hashOf(i uint32) util.Uint256 {
	if i == 0 {
		return h.Genesis
	}
	return h.Blocks[i-1].Hash()
}

func detAccount(r *prng.R) *wallet.Account {
	for {
		pk, err := keys.NewPrivateKeyFromBytes(r.Bytes(32))
		if err == nil {
			return wallet.NewAccountFromPrivateKey(pk)
		}
	}
}

// storageContract builds a tiny contract by hand: put(key, value), del(key).
func storageContract(owner util.Uint160, name string) *neotest.Contract {
	w := io.NewBufBinWriter()
	// put(key, value)
	emit.Instruction(w.BinWriter, opcode.INITSLOT, []byte{0, 2})
	emit.Opcodes(w.BinWriter, opcode.LDARG1, opcode.LDARG0)
	emit.Syscall(w.BinWriter, "System.Storage.GetContext")
	emit.Syscall(w.BinWriter, "System.Storage.Put")
	emit.Opcodes(w.BinWriter, opcode.RET)
	delOff := w.Len()
	emit.Instruction(w.BinWriter, opcode.INITSLOT, []byte{0, 1})
	emit.Opcodes(w.BinWriter, opcode.LDARG0)
	emit.Syscall(w.BinWriter, "System.Storage.GetContext")
	emit.Syscall(w.BinWriter, "System.Storage.Delete")
	emit.Opcodes(w.BinWriter, opcode.RET)
	ne, err := nef.NewFile(w.Bytes())
	if err != nil {
		panic(err)
	}
	m := &manifest.Manifest{
		Name:               name,
		Features:           json.RawMessage("{}"),
		Groups:             []manifest.Group{},
		Trusts:             manifest.WildPermissionDescs{Wildcard: true},
		Permissions:        []manifest.Permission{*manifest.NewPermission(manifest.PermissionWildcard)},
		SupportedStandards: []string{},
		ABI: manifest.ABI{
			Methods: []manifest.Method{
				{Name: "put", Offset: 0, ReturnType: smartcontract.VoidType, Parameters: []manifest.Parameter{
					manifest.NewParameter("key", smartcontract.ByteArrayType), manifest.NewParameter("value", smartcontract.ByteArrayType)}},
				{Name: "del", Offset: delOff, ReturnType: smartcontract.VoidType, Parameters: []manifest.Parameter{
					manifest.NewParameter("key", smartcontract.ByteArrayType)}},
			},
			Events: []manifest.Event{},
		},
	}
	return &neotest.Contract{Hash: state.CreateContractHash(owner, ne.Checksum, m.Name), NEF: ne, Manifest: m}
}

type builder struct {
	t           *tb
	r           *prng.R
	bc          *core.Blockchain
	e           *neotest.Executor
	val         neotest.Signer
	accs        []neotest.Signer
	ctr         *neotest.Contract
	deployed    bool
	probes      []*transaction.Transaction
	probeSigner []int // index into accs
	gas, neo    util.Uint160
	// governance (Proto.Gov)
	policy     util.Uint160
	committee  neotest.Signer
	cands      []neotest.Signer  // single-signature accounts of standby members 1..3: at most 3 candidates are ever
	candKeys   []*keys.PublicKey // registered, so the committee stays the standby one and the validator does not change
	registered []bool
	blocked    []bool
	govNow     bool // the block being built may carry governance transactions
	// unblockedNow: accounts unblocked in the block being built
	unblockedNow map[int]bool
}

func (b *builder) mkTx(script []byte, signer neotest.Signer, sysFee int64, attrs ...transaction.Attribute) *transaction.Transaction {
	tx := transaction.New(script, 0)
	tx.Nonce = uint32(b.r.U64())
	tx.ValidUntilBlock = b.bc.BlockHeight() + 1
	tx.Attributes = attrs
	return b.e.SignTx(b.t, tx, sysFee, signer)
}

func (b *builder) call(signer neotest.Signer, h util.Uint160, method string, args ...any) *transaction.Transaction {
	script, err := smartcontract.CreateCallScript(h, method, args...)
	if err != nil {
		panic(err)
	}
	return b.mkTx(script, signer, -1)
}

// genTx draws one transaction; pair = (conflict id, signer id) if it carries a Conflicts attribute.
func (b *builder) genTx(o *counters) (*transaction.Transaction, [][2]int) {
	r := b.r
	pickAcc := func() int { return r.Intn(len(b.accs)) }
	// governance comes in bursts at the second block of an epoch, so that the rest of the epoch (where the crash
	// points are) usually has no further vote-changing transaction
	if b.cands != nil && b.govNow && r.Chance(2, 3) {
		if tx := b.genGovTx(o); tx != nil {
			return tx, nil
		}
	}
	for {
		switch r.Weighted([]int{30, 10, 25, 8, 8, 12}) {
		case 0: // GAS transfer between accounts
			i, j := pickAcc(), pickAcc()
			amount := int64(r.Range(0, 3)) * 1000_0000
			if r.Chance(1, 10) {
				amount = 1_000_000_0000_0000 // more than the balance: transfer returns false, still HALT
			}
			o.count("tx:gas-transfer")
			return b.call(b.accs[i], b.gas, "transfer", b.accs[i].ScriptHash(), b.accs[j].ScriptHash(), amount, nil), nil
		case 1: // NEO transfer from the validator
			if b.cands != nil && !b.govNow {
				continue // it would change the votes of a voting account
			}
			j := pickAcc()
			o.count("tx:neo-transfer")
			return b.call(b.val, b.neo, "transfer", b.val.ScriptHash(), b.accs[j].ScriptHash(), int64(r.Range(1, 50)), nil), nil
		case 2: // contract storage write
			if !b.deployed {
				continue
			}
			key := []byte{byte('k'), byte(r.Intn(12))}
			o.count("tx:storage-put")
			return b.call(b.accs[pickAcc()], b.ctr.Hash, "put", key, r.Bytes(r.Range(1, 40))), nil
		case 3: // contract storage delete
			if !b.deployed {
				continue
			}
			o.count("tx:storage-del")
			return b.call(b.accs[pickAcc()], b.ctr.Hash, "del", []byte{byte('k'), byte(r.Intn(12))}), nil
		case 4: // faulting transaction
			w := io.NewBufBinWriter()
			emit.Opcodes(w.BinWriter, opcode.PUSH1, opcode.ABORT)
			o.count("tx:fault")
			return b.mkTx(w.Bytes(), b.accs[pickAcc()], 100_0000), nil
		default: // transaction with a Conflicts attribute naming a never-on-chain transaction
			c := r.Intn(len(b.probes))
			s := b.probeSigner[c]
			if r.Chance(1, 4) {
				s = pickAcc()
			}
			w := io.NewBufBinWriter()
			emit.Opcodes(w.BinWriter, opcode.PUSH1, opcode.DROP)
			attr := transaction.Attribute{Type: transaction.ConflictsT, Value: &transaction.Conflicts{Hash: b.probes[c].Hash()}}
			o.count("tx:conflicts")
			return b.mkTx(w.Bytes(), b.accs[s], -1, attr), [][2]int{{c, s}}
		}
	}
}

// genGovTx draws one transaction that changes the committee's vote counts (NEO.votesChanged).
func (b *builder) genGovTx(o *counters) *transaction.Transaction {
	r := b.r
	switch r.Weighted([]int{20, 40, 25, 15}) {
	case 0: // registerCandidate / unregisterCandidate
		i := r.Intn(len(b.cands))
		if b.blocked[i] || b.unblockedNow[i] {
			return nil // a blocked account cannot send transactions (it is still blocked when this block is verified)
		}
		method := "registerCandidate"
		if b.registered[i] {
			method = "unregisterCandidate"
		}
		b.registered[i] = !b.registered[i]
		o.count("tx:gov-" + method)
		script, err := smartcontract.CreateCallScript(b.neo, method, b.candKeys[i].Bytes())
		if err != nil {
			panic(err)
		}
		return b.mkTx(script, b.cands[i], 1010_0000_0000)
	case 1: // vote for a (possibly unregistered) candidate, or withdraw the vote
		a := r.Intn(len(b.accs))
		var arg any
		if !r.Chance(1, 5) {
			arg = b.candKeys[r.Intn(len(b.candKeys))].Bytes()
		}
		o.count("tx:gov-vote")
		return b.call(b.accs[a], b.neo, "vote", b.accs[a].ScriptHash(), arg)
	case 2: // NEO transfer between (voting) accounts
		i, j := r.Intn(len(b.accs)), r.Intn(len(b.accs))
		o.count("tx:gov-neo-transfer-of-voter")
		return b.call(b.accs[i], b.neo, "transfer", b.accs[i].ScriptHash(), b.accs[j].ScriptHash(), int64(r.Range(1, 20)), nil)
	default: // Policy.blockAccount / unblockAccount of a candidate's account (committee)
		i := r.Intn(len(b.cands))
		method := "blockAccount"
		if b.blocked[i] {
			method = "unblockAccount"
		}
		if b.blocked[i] {
			b.unblockedNow[i] = true
		}
		b.blocked[i] = !b.blocked[i]
		o.count("tx:gov-" + method)
		return b.call(b.committee, b.policy, method, b.cands[i].ScriptHash())
	}
}

type counters struct{ m map[string]int }

func (c *counters) count(k string)      { c.m[k]++ }
func (c *counters) add(k string, n int) { c.m[k] += n }

// buildHistory generates a chain of n blocks on a producer node (archival, MemoryStore), which is also
// the reference node: its observation is recorded after every block.
func buildHistory(r *prng.R, p Proto, n int, o *counters, withTxs func(i int) bool, want func(h uint32) bool) (h *History, err error) {
	t := &tb{}
	defer t.done()
	h = &History{Proto: p, TraceOnly: p.TraceOnly}
	err = try(func() {
		bc, val := chain.NewSingleWithOptions(t, &chain.Options{
			BlockchainConfigHook: cfgHook(p, Local{}),
			Logger:               zap.NewNop(),
		})
		var committee neotest.Signer = val
		if p.Gov {
			ks := govKeys()
			val = multisigSigner(1, ks[:1])
			committee = multisigSigner(smartcontract.GetMajorityHonestNodeCount(govCommittee), ks)
		}
		e := neotest.NewExecutor(t, bc, val, committee)
		b := &builder{t: t, r: r, bc: bc, e: e, val: val}
		if p.Gov {
			b.committee = committee
			b.policy = e.NativeHash(t, nativenames.Policy)
			for _, k := range govKeys()[1:] {
				b.cands = append(b.cands, neotest.NewSingleSigner(wallet.NewAccountFromPrivateKey(k)))
				b.candKeys = append(b.candKeys, k.PublicKey())
			}
			b.registered = make([]bool, len(b.cands))
			b.blocked = make([]bool, len(b.cands))
		}
		b.gas = e.NativeHash(t, nativenames.Gas)
		b.neo = e.NativeHash(t, nativenames.Neo)
		for i := 0; i < 3; i++ {
			b.accs = append(b.accs, neotest.NewSingleSigner(detAccount(r)))
		}
		b.ctr = storageContract(b.accs[0].ScriptHash(), "store")
		h.Genesis = bc.GetHeaderHash(0)
		h.Cfg = bc.GetConfig()
		h.MTB = bc.GetMaxTraceableBlocks()
		h.Accounts = []util.Uint160{val.ScriptHash()}
		for _, a := range b.accs {
			h.Accounts = append(h.Accounts, a.ScriptHash())
		}
		h.Accounts = append(h.Accounts, b.ctr.Hash)
		h.MaxID = 3
		// probe transactions (valid, never added to a block), one per conflict id
		for c := 0; c < 2; c++ {
			w := io.NewBufBinWriter()
			emit.Opcodes(w.BinWriter, opcode.PUSH2, opcode.DROP)
			s := r.Intn(len(b.accs))
			tx := transaction.New(w.Bytes(), 1_0000_0000)
			tx.Nonce = uint32(r.U64())
			tx.ValidUntilBlock = 400
			if p.MTB != 0 {
				tx.ValidUntilBlock = max(p.MTB/2, 1)
			}
			tx.Signers = []transaction.Signer{{Account: b.accs[s].ScriptHash(), Scopes: transaction.CalledByEntry}}
			neotest.AddNetworkFee(t, bc, tx, b.accs[s])
			if err := b.accs[s].SignTx(bc.GetConfig().Magic, tx); err != nil {
				panic(err)
			}
			b.probes = append(b.probes, tx)
			b.probeSigner = append(b.probeSigner, s)
		}
		h.Probes = b.probes
		h.Ref = append(h.Ref, observe(bc, h, 0))
		add := func(txs ...*transaction.Transaction) {
			blk := e.NewUnsignedBlock(t, txs...)
			e.SignBlock(blk)
			if err := bc.AddBlock(blk); err != nil {
				panic(fmt.Errorf("producer rejected generated block %d: %w", blk.Index, err))
			}
		}
		for i := 1; i <= n; i++ {
			var (
				txs  []*transaction.Transaction
				info BlockInfo
			)
			switch {
			case p.GovFixed && i > 1:
				if i == 2*govCommittee+1 {
					for c := range b.cands {
						script, err := smartcontract.CreateCallScript(b.neo, "registerCandidate", b.candKeys[c].Bytes())
						if err != nil {
							panic(err)
						}
						txs = append(txs, b.mkTx(script, b.cands[c], 1010_0000_0000))
					}
					for a := range b.accs {
						txs = append(txs, b.call(b.accs[a], b.neo, "vote", b.accs[a].ScriptHash(), b.candKeys[a%len(b.candKeys)].Bytes()))
					}
					o.count("tx:gov-fixed-vote-block")
				}
			case !withTxs(i):
			case i == 1 && withTxs(1): // fund the accounts
				for _, a := range b.accs {
					txs = append(txs, b.call(val, b.gas, "transfer", val.ScriptHash(), a.ScriptHash(), int64(5000_0000_0000), nil))
				}
				if p.Gov {
					// candidates pay the registration price, the committee pays for Policy calls, voters hold NEO
					for _, cnd := range b.cands {
						txs = append(txs, b.call(val, b.gas, "transfer", val.ScriptHash(), cnd.ScriptHash(), int64(20000_0000_0000), nil))
					}
					txs = append(txs, b.call(val, b.gas, "transfer", val.ScriptHash(), committee.ScriptHash(), int64(5000_0000_0000), nil))
					for j, a := range b.accs {
						txs = append(txs, b.call(val, b.neo, "transfer", val.ScriptHash(), a.ScriptHash(), int64(1000000*(j+1)), nil))
					}
				}
			case !b.deployed && (i >= 2 && r.Chance(1, 2) || i == 4):
				rawManifest, _ := json.Marshal(b.ctr.Manifest)
				neb, _ := b.ctr.NEF.Bytes()
				txs = append(txs, b.call(b.accs[0], bc.ManagementContractHash(), "deploy", neb, rawManifest, nil))
				b.deployed = true
				o.count("tx:deploy")
			default:
				b.govNow = p.Gov && i%govCommittee == 1 && r.Chance(2, 3)
				b.unblockedNow = map[int]bool{}
				k := r.Weighted([]int{25, 35, 20, 12, 8})
				if b.govNow {
					k += 2
				}
				for j := 0; j < k; j++ {
					tx, pairs := b.genTx(o)
					txs = append(txs, tx)
					info.Pairs = append(info.Pairs, pairs...)
				}
			}
			info.NTx = len(txs)
			add(txs...)
			blk, err := bc.GetBlock(bc.GetHeaderHash(uint32(i)))
			if err != nil {
				panic(err)
			}
			h.Blocks = append(h.Blocks, blk)
			h.Info = append(h.Info, info)
			if want(uint32(i)) {
				h.Ref = append(h.Ref, observe(bc, h, uint32(i)))
			} else {
				h.Ref = append(h.Ref, observeRootOnly(bc, uint32(i)))
			}
		}
	})
	return h, err
}

var _ = big.NewInt
var _ = callflag.All
var _ = storage.STStorage
