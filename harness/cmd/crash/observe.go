package main

import (
	"crypto/sha256"
	"encoding/binary"
	"encoding/hex"
	"fmt"
	"math"
	"strings"

	"github.com/nspcc-dev/neo-go/pkg/core"
	"github.com/nspcc-dev/neo-go/pkg/core/state"
	"github.com/nspcc-dev/neo-go/pkg/smartcontract/trigger"
)

// Obs is what can be seen of a node through its exported API, as named canonical strings.
type Obs struct {
	names   []string
	vals    map[string]string
	partial bool // only the state root was recorded
}

func (o *Obs) set(n, v string) {
	if o.vals == nil {
		o.vals = map[string]string{}
	}
	if _, ok := o.vals[n]; !ok {
		o.names = append(o.names, n)
	}
	o.vals[n] = v
}

func (o *Obs) get(n string) string { return o.vals[n] }

// diff returns the names of the fields (restricted to `only` if non-empty) that differ.
func (o *Obs) diff(p *Obs, skip map[string]bool) []string {
	var res []string
	for _, n := range o.names {
		if skip[n] {
			continue
		}
		if o.vals[n] != p.vals[n] {
			res = append(res, n)
		}
	}
	return res
}

type hasher struct {
	h   [32]byte
	buf []byte
}

func (h *hasher) add(b []byte) {
	var l [4]byte
	binary.LittleEndian.PutUint32(l[:], uint32(len(b)))
	h.buf = append(h.buf, l[:]...)
	h.buf = append(h.buf, b...)
}
func (h *hasher) sum() string {
	s := sha256.Sum256(h.buf)
	return hex.EncodeToString(s[:8])
}

// observe collects the API-level view of node bc, which is expected to be at height `height`
// of history h. It never panics the harness: a panic of the real code becomes the field value.
func observe(bc *core.Blockchain, h *History, height uint32) (o Obs) {
	safe := func(name string, f func() string) {
		defer func() {
			if r := recover(); r != nil {
				o.set(name, fmt.Sprintf("panic:%v", r))
			}
		}()
		o.set(name, f())
	}
	safe("height", func() string { return fmt.Sprint(bc.BlockHeight()) })
	safe("curhash", func() string { return bc.CurrentBlockHash().StringLE() })
	safe("hdr>=blk", func() string { return fmt.Sprint(bc.HeaderHeight() >= bc.BlockHeight()) })
	safe("root", func() string {
		sr, err := bc.GetStateRoot(height)
		if err != nil {
			return "err"
		}
		return sr.Root.StringLE()
	})
	safe("localroot", func() string {
		m := bc.GetStateModule()
		return fmt.Sprintf("%d/%s", m.CurrentLocalHeight(), m.CurrentLocalStateRoot().StringLE())
	})
	safe("storage", func() string {
		var hs hasher
		n := 0
		for id := int32(-16); id <= h.MaxID; id++ {
			bc.SeekStorage(id, []byte{}, func(k, v []byte) bool {
				var b [4]byte
				binary.LittleEndian.PutUint32(b[:], uint32(id))
				hs.add(b[:])
				hs.add(k)
				hs.add(v)
				n++
				return true
			})
		}
		return fmt.Sprintf("%d:%s", n, hs.sum())
	})
	safe("transfers", func() string {
		var hs hasher
		n := 0
		for _, a := range h.Accounts {
			err := bc.ForEachNEP17Transfer(a, math.MaxUint64, func(t *state.NEP17Transfer) (bool, error) {
				hs.add([]byte(fmt.Sprintf("%s|%d|%s|%s|%s|%d|%d|%s", a.StringLE(), t.Asset, t.Amount.String(), t.Counterparty.StringLE(), "", t.Block, t.Timestamp, t.Tx.StringLE())))
				n++
				return true, nil
			})
			if err != nil {
				hs.add([]byte("err:" + a.StringLE()))
			}
		}
		return fmt.Sprintf("%d:%s", n, hs.sum())
	})
	safe("lastupdated", func() string {
		var sb strings.Builder
		for _, a := range h.Accounts {
			m, err := bc.GetTokenLastUpdated(a)
			if err != nil {
				sb.WriteString("err;")
				continue
			}
			for id := int32(-16); id <= h.MaxID; id++ {
				if v, ok := m[id]; ok {
					fmt.Fprintf(&sb, "%d=%d,", id, v)
				}
			}
			sb.WriteString(";")
		}
		return sb.String()
	})
	safe("validators", func() string {
		var sb strings.Builder
		vs, err := bc.GetNextBlockValidators()
		if err != nil {
			return "err"
		}
		for _, v := range vs {
			sb.WriteString(v.StringCompressed()[:8])
		}
		cs, err := bc.GetCommittee()
		if err != nil {
			return "err"
		}
		sb.WriteString("/")
		for _, v := range cs {
			sb.WriteString(v.StringCompressed()[:8])
		}
		fmt.Fprintf(&sb, "/fpb=%d/mtb=%d", bc.FeePerByte(), bc.GetMaxTraceableBlocks())
		return sb.String()
	})
	// blocks and transactions up to the height are retrievable, later ones are not
	safe("blocks", func() string {
		var hs hasher
		known := uint32(len(h.Blocks))
		var lo uint32
		if h.TraceOnly && height >= h.MTB {
			lo = height - h.MTB + 1 // older blocks are untraceable, a RemoveUntraceableBlocks node may have dropped them
		}
		for i := lo; i <= height && i <= known; i++ {
			hash := h.hashOf(i)
			b, err := bc.GetBlock(hash)
			if err != nil {
				hs.add([]byte(fmt.Sprintf("noblock %d", i)))
				continue
			}
			hs.add(b.Hash().BytesBE())
			if !bc.HasBlock(hash) {
				hs.add([]byte(fmt.Sprintf("hasblock-false %d", i)))
			}
			aers, err := bc.GetAppExecResults(hash, trigger.All)
			hs.add([]byte(fmt.Sprintf("aers %d %v", len(aers), err != nil)))
			for _, tx := range b.Transactions {
				_, th, err := bc.GetTransaction(tx.Hash())
				hs.add([]byte(fmt.Sprintf("tx %d %v", th, err != nil)))
				ar, err := bc.GetAppExecResults(tx.Hash(), trigger.Application)
				if err != nil || len(ar) != 1 {
					hs.add([]byte("noaer"))
				} else {
					hs.add([]byte(fmt.Sprintf("%s %d %d", ar[0].VMState, ar[0].GasConsumed, len(ar[0].Events))))
				}
			}
		}
		return hs.sum()
	})
	safe("future", func() string {
		var sb strings.Builder
		for i := height + 1; i <= uint32(len(h.Blocks)); i++ {
			blk := h.Blocks[i-1]
			if bc.HasBlock(blk.Hash()) {
				fmt.Fprintf(&sb, "hasblock %d;", i)
			}
			for _, tx := range blk.Transactions {
				if _, _, err := bc.GetTransaction(tx.Hash()); err == nil {
					fmt.Fprintf(&sb, "tx of %d;", i)
				}
			}
			if _, err := bc.GetStateRoot(i); err == nil {
				fmt.Fprintf(&sb, "stateroot %d;", i)
			}
		}
		return sb.String()
	})
	// what the conflict records mean for the probe transactions
	safe("probes", func() string {
		var sb strings.Builder
		for _, p := range h.Probes {
			if p.ValidUntilBlock <= bc.BlockHeight() {
				sb.WriteString("expired;")
				continue
			}
			err := bc.VerifyTx(p)
			sb.WriteString(errClass(err) + ";")
		}
		return sb.String()
	})
	return o
}

func errClass(err error) string {
	if err == nil {
		return "ok"
	}
	s := err.Error()
	for _, c := range []string{"has conflicts", "already exists", "insufficient funds", "expired", "invalid", "not found", "key not found"} {
		if strings.Contains(s, c) {
			return "err:" + strings.ReplaceAll(c, " ", "-")
		}
	}
	return "err:other"
}

// observeRootOnly is the cheap observation kept for heights no node is expected to recover at.
func observeRootOnly(bc *core.Blockchain, height uint32) (o Obs) {
	o.partial = true
	sr, err := bc.GetStateRoot(height)
	if err != nil {
		o.set("root", "err")
	} else {
		o.set("root", sr.Root.StringLE())
	}
	return o
}
