package main

import (
	"fmt"
	"strings"

	"github.com/nspcc-dev/neo-go/pkg/config"
	"github.com/nspcc-dev/neo-go/pkg/core"
)

func safeReset(bc *core.Blockchain, h uint32) (err error) {
	defer func() {
		if r := recover(); r != nil {
			err = fmt.Errorf("panic: %v", r)
		}
	}()
	return bc.Reset(h)
}

func copyDB(db map[string][]byte) map[string][]byte {
	r := make(map[string][]byte, len(db))
	for k, v := range db {
		r[k] = v
	}
	return r
}

// resetScenario: the subject node (stopped, at height n) is reset to `target`; every batch of the
// reset is a crash point. For every prefix the reopened node must finish the reset by itself and
// end in the same database as the uninterrupted reset; the completed reset must look (through the
// API) like a node that only ever synchronised to `target`, and accept the remaining blocks.
func resetScenario(c *caseOut, h *History, cfg config.Blockchain, sr *subjectRun, target uint32, skip map[string]bool) {
	bc, err := openNode(sr.st, cfg)
	if err != nil {
		c.fail("reset-open", "reopening the stopped subject failed: %v", err)
		return
	}
	cur, hdr := bc.BlockHeight(), bc.HeaderHeight()
	b0 := sr.st.NumBatches()
	err = safeReset(bc, target)
	bs := sr.st.Batches()
	// the tie line says whether the reset ran its stage machine (wrote batches); a failure after the last
	// batch (node construction) is the oracle's business
	started := err
	if len(bs) > b0 {
		started = nil
	}
	c.line(fmt.Sprintf("reset %d %d %d", target, cur, hdr), errObs(started))
	if err != nil {
		if len(bs) == b0 {
			// refused before anything was written: the node is unchanged, nothing to resume
			c.cnt.count("reset:refused-" + slug(err))
			refusedResetUnchanged(c, h, cfg, sr, cur, fold(bs, b0))
			return
		}
		c.cnt.count("reset:error")
		c.fail("reset-error-"+slug(err), "Reset(%d) at height %d (RemoveUntraceableBlocks=%v) wrote %d batches and then failed: %v", target, cur, cfg.RemoveUntraceableBlocks, len(bs)-b0, err)
		return
	}
	c.cnt.count("reset:runs")
	if cfg.RemoveUntraceableBlocks {
		c.cnt.count("reset:runs-on-remove-untraceable-blocks-node") // headers-only: target = current height
	}
	c.cnt.add("reset:batches", len(bs)-b0)
	c.cnt.count("reset:removed-blocks-" + bucket(int(cur-target)))
	dbb := fold(bs, b0)
	for _, b := range bs[b0:] {
		c.line("rbatch "+semAbstract(dbb, b, cfg.StateRootInHeader), "ok")
		apply(dbb, b)
	}
	c.line("rdone", "ok")
	final := fold(bs, len(bs))
	// the uninterrupted reset, seen through the API
	checkPrefix(c, h, cfg, len(bs), target, true, len(bs), final, skip, "reset-")
	// every crash point inside the reset
	for k := b0 + 1; k < len(bs); k++ {
		db := fold(bs, k)
		rec := NewRecStore(materialise(db))
		bc2, err := openNode(rec, cfg)
		if err != nil {
			c.fail("reset-resume-reopen-"+stageOfDB(db)+"-"+slug(err), "crash after reset batch %d of %d (%s): reopening failed: %v", k-b0, len(bs)-b0, stageOfDB(db), err)
			continue
		}
		c.cnt.count("reset:resumed-from-" + stageOfDB(db))
		fin := copyDB(db)
		for _, b := range rec.Batches() {
			apply(fin, b)
		}
		if d := diffDB(final, fin, 6); len(d) > 0 {
			c.fail("reset-resume-db", "crash after reset batch %d of %d (%s): the resumed reset ends in a different database than the uninterrupted one: %s", k-b0, len(bs)-b0, stageOfDB(db), strings.Join(d, " "))
		}
		// the node returned by the resuming NewBlockchain must be usable as it is
		resumedNodeUsable(c, h, bc2, target, k-b0, stageOfDB(db))
		checkPrefix(c, h, cfg, len(bs), target, true, k, fin, skip, "reset-resumed-")
	}
}

// resumedNodeUsable feeds the remaining blocks to the very node object that resumed the reset.
func resumedNodeUsable(c *caseOut, h *History, bc *core.Blockchain, target uint32, k int, stage string) {
	go bc.Run()
	defer func() {
		defer func() { _ = recover() }()
		bc.Close()
	}()
	if bc.BlockHeight() != target {
		c.fail("reset-resumed-node-height", "crash after reset batch %d (%s): resuming node is at %d, expected %d", k, stage, bc.BlockHeight(), target)
		return
	}
	for i := target + 1; i <= h.N() && i <= target+3; i++ {
		if err := safeAddBlock(bc, h.Blocks[i-1]); err != nil {
			c.fail("reset-resumed-node-addblock-"+stage, "crash after reset batch %d (%s): the node that resumed the reset rejects block %d: %v", k, stage, i, err)
			return
		}
		sr, err := bc.GetStateRoot(i)
		if err != nil || sr.Root.StringLE() != h.Ref[i].get("root") {
			c.fail("reset-resumed-node-root", "crash after reset batch %d (%s): the node that resumed the reset computes a different state root at %d", k, stage, i)
			return
		}
	}
}

// stageOfDB names the reset stage marker a database carries.
func stageOfDB(db map[string][]byte) string {
	v, ok := db["\xc4"]
	if !ok || len(v) != 1 {
		return "nomarker"
	}
	return fmt.Sprintf("stage%d", v[0]&0x7f)
}

func errObs(err error) string {
	if err == nil {
		return "ok"
	}
	return "err"
}

// slug turns an error into a short stable name (hashes and numbers dropped).
func slug(err error) string {
	msg := err.Error()
	var sb strings.Builder
	words := 0
	for _, w := range strings.Fields(msg) {
		w = strings.Trim(w, ":,()")
		if len(w) > 24 || strings.ContainsAny(w, "0123456789") || w == "" {
			continue
		}
		if words > 0 {
			sb.WriteByte('-')
		}
		sb.WriteString(strings.ToLower(w))
		words++
		if words == 5 {
			break
		}
	}
	return sb.String()
}

// refusedResetUnchanged: after a refused Reset the backend is byte-identical to what it was (the fold of the batches
// recorded before the call) and the stopped node reopens at the same height with the same observable state.
func refusedResetUnchanged(c *caseOut, h *History, cfg config.Blockchain, sr *subjectRun, cur uint32, before map[string][]byte) {
	if d := diffDB(before, dumpStore(sr.st), 6); len(d) > 0 {
		c.fail("reset-refused-changed-db", "a refused Reset changed the database: %s", strings.Join(d, " "))
		return
	}
	nb := sr.st.NumBatches()
	bc, err := openNode(sr.st, cfg)
	if err != nil {
		c.fail("reset-refused-reopen", "after a refused Reset the node does not reopen: %v", err)
		return
	}
	if bc.BlockHeight() != cur {
		c.fail("reset-refused-height", "after a refused Reset the node reopens at %d, it was at %d", bc.BlockHeight(), cur)
		return
	}
	if int(cur) < len(h.Ref) && !h.Ref[cur].partial {
		got := observe(bc, h, cur)
		if d := h.Ref[cur].diff(&got, nil); len(d) > 0 {
			c.fail("reset-refused-"+d[0], "after a refused Reset the reopened node differs from the reference at %d in %v", cur, d)
		}
	}
	if sr.st.NumBatches() != nb {
		c.fail("reset-refused-wrote-on-reopen", "reopening after a refused Reset wrote %d batches", sr.st.NumBatches()-nb)
	}
	c.cnt.count("reset:refused-node-unchanged")
}
