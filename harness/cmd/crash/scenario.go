package main

import (
	"encoding/binary"
	"fmt"
	"strings"
	"time"

	"github.com/nspcc-dev/neo-go/pkg/config"
	"github.com/nspcc-dev/neo-go/pkg/core"
	"github.com/nspcc-dev/neo-go/pkg/core/block"
	"github.com/nspcc-dev/neo-go/pkg/core/storage"
	"go.uber.org/zap"

	"verif/harness/internal/prng"
)

// caseOut buffers everything a case wants to say, so that cases can run concurrently and still
// be written in case order.
type caseOut struct {
	replica string // backend kind of the reopened replicas ("" = memory)
	k       int
	lines   [][2]string // op, impl observation
	fails   []failRec
	cnt     counters
	seen    []string
	samp    []string
}

type failRec struct{ key, msg string }

func (c *caseOut) line(op, obs string) { c.lines = append(c.lines, [2]string{op, obs}) }
func (c *caseOut) fail(key, f string, a ...any) {
	for _, x := range c.fails { // one report per shape and case is enough
		if x.key == key {
			return
		}
	}
	c.fails = append(c.fails, failRec{key, fmt.Sprintf(f, a...)})
}

// Step of the subject node's schedule.
type Step struct {
	Kind string // "hdr" (headers up to H), "blk" (block H), "flush"
	H    uint32
}

// genSchedule draws a flush/header schedule for n blocks. pf = flush probability (per mille) after a block.
func genSchedule(r *prng.R, n uint32, pfMille int, headersAhead bool) []Step {
	var (
		steps  []Step
		p, hdr uint32
	)
	for p < n {
		if headersAhead && max(hdr, p) < n && r.Chance(1, 8) {
			hdr = min(n, max(hdr, p)+uint32(r.Range(1, 5)))
			steps = append(steps, Step{"hdr", hdr})
			if r.Chance(1, 2) {
				steps = append(steps, Step{"flush", 0})
			}
			continue
		}
		p++
		steps = append(steps, Step{"blk", p})
		if r.Intn(1000) < pfMille {
			steps = append(steps, Step{"flush", 0})
		}
	}
	return steps
}

func nodeConfig(h *History, base config.Blockchain, l Local) config.Blockchain {
	c := base
	c.RemoveUntraceableBlocks = l.RUB
	c.GarbageCollectionPeriod = l.GCP
	return c
}

// openNode opens a node on a store; a panic of the real code is returned as an error.
func openNode(st storage.Store, cfg config.Blockchain) (bc *core.Blockchain, err error) {
	defer func() {
		if r := recover(); r != nil {
			bc, err = nil, fmt.Errorf("panic: %v", r)
		}
	}()
	return core.NewBlockchain(st, cfg, zap.NewNop())
}

func safeAddBlock(bc *core.Blockchain, b *block.Block) (err error) {
	defer func() {
		if r := recover(); r != nil {
			err = fmt.Errorf("panic: %v", r)
		}
	}()
	return bc.AddBlock(b)
}

// subjectRun is the recorded life of the subject node.
type subjectRun struct {
	cleanup   func()
	st        *RecStore
	batchInfo []batchMeta // parallel to st.Batches()
	lines     [][2]string
	timerHit  bool
}

// batchMeta: what the harness knows about the moment batch i was committed.
type batchMeta struct {
	accepted  uint32 // blocks accepted by AddBlock so far
	persisted uint32 // block height on disk after this batch
	phase     string // "run", "gc", "reset"
}

func persistedHeight(st storage.Store) (uint32, bool) {
	v, err := st.Get([]byte{byte(storage.SYSCurrentBlock)})
	if err != nil || len(v) < 36 {
		return 0, false
	}
	return binary.LittleEndian.Uint32(v[32:36]), true
}

func pairsStr(ps [][2]int) string {
	if len(ps) == 0 {
		return "-"
	}
	var sb strings.Builder
	for i, p := range ps {
		if i > 0 {
			sb.WriteByte(',')
		}
		fmt.Fprintf(&sb, "%d.%d", p[0], p[1])
	}
	return sb.String()
}

// runSubject drives a node over history h following the schedule, recording every batch.
// With l.Timer the flushes are left to the node's own timer (that is the only way GC runs).
func runSubject(h *History, cfg config.Blockchain, l Local, steps []Step, backend string) (*subjectRun, error) {
	inner, cleanup, err := newBackend(backend)
	if err != nil {
		return nil, err
	}
	sr := &subjectRun{st: NewRecStore(inner), cleanup: cleanup}
	bc, err := openNode(sr.st, cfg)
	if err != nil {
		return nil, fmt.Errorf("subject open: %w", err)
	}
	go bc.Run()
	closed := false
	defer func() {
		if !closed {
			bc.Close()
		}
	}()
	var accepted uint32
	note := func(phase string) int { // attribute newly recorded batches
		n := sr.st.NumBatches()
		added := n - len(sr.batchInfo)
		for len(sr.batchInfo) < n {
			ph, _ := persistedHeight(sr.st)
			sr.batchInfo = append(sr.batchInfo, batchMeta{accepted: accepted, persisted: ph, phase: phase})
		}
		return added
	}
	// stray notes batches that were not issued by a flush step of the schedule; a change set among them
	// means the node's own timer flushed in between (the tie lines of this run are then not comparable).
	stray := func(phase string) {
		from := len(sr.batchInfo)
		if note(phase) > 0 {
			for _, b := range sr.st.Batches()[from:] {
				if !b.GC {
					sr.timerHit = true
				}
			}
		}
	}
	srh := cfg.StateRootInHeader
	gcSeen := 0
	gcPending := false
	gcLine := func() { // the GC calls that followed the previous flush (they are over by now)
		if !l.Timer || !gcPending {
			return
		}
		gcPending = false
		calls := sr.st.GCCalls()
		var sb strings.Builder
		for _, c := range calls[gcSeen:] {
			fmt.Fprintf(&sb, "%02x", c)
		}
		gcSeen = len(calls)
		s := sb.String()
		if s == "" {
			s = "-"
		}
		sr.lines = append(sr.lines, [2]string{"gc", s})
	}
	flushLine := func() {
		gcLine()
		stray("gc")
		before := len(sr.batchInfo)
		if l.Timer {
			// wait for the timer-driven persist (and the GC that follows it in the same goroutine)
			deadline := time.Now().Add(4 * time.Second)
			for time.Now().Before(deadline) {
				if ph, ok := persistedHeight(sr.st); ok && ph == accepted && sr.st.NumBatches() > before {
					break
				}
				time.Sleep(5 * time.Millisecond)
			}
			time.Sleep(40 * time.Millisecond)
		} else if err := bc.VerifPersist(); err != nil {
			sr.lines = append(sr.lines, [2]string{"flush", "err"})
			return
		}
		bs := sr.st.Batches()
		added := note("run")
		var puts []string
		for _, b := range bs[before:] {
			if !b.GC {
				puts = append(puts, abstractBatch(b, srh))
			}
		}
		switch {
		case added == 0:
			sr.lines = append(sr.lines, [2]string{"flush", "none"})
		case len(puts) == 1:
			sr.lines = append(sr.lines, [2]string{"flush", puts[0]})
		default:
			sr.timerHit = true // a timer flush split the batch: the case's tie lines are not comparable
			sr.lines = append(sr.lines, [2]string{"flush", strings.Join(puts, " || ")})
		}
		gcPending = added > 0
	}
	for _, s := range steps {
		switch s.Kind {
		case "hdr":
			from := max(bc.HeaderHeight(), accepted) + 1
			var hs []*block.Header
			for i := from; i <= s.H; i++ {
				hs = append(hs, &h.Blocks[i-1].Header)
			}
			if len(hs) == 0 {
				continue
			}
			if err := bc.AddHeaders(hs...); err != nil {
				return nil, fmt.Errorf("subject AddHeaders %d..%d: %w", from, s.H, err)
			}
			sr.lines = append(sr.lines, [2]string{fmt.Sprintf("hdr %d %d", from, s.H), "ok"})
			stray("run")
		case "blk":
			if err := safeAddBlock(bc, h.Blocks[s.H-1]); err != nil {
				return nil, fmt.Errorf("subject AddBlock %d: %w", s.H, err)
			}
			accepted = s.H
			inf := h.Info[s.H-1]
			sr.lines = append(sr.lines, [2]string{fmt.Sprintf("blk %d %d %s", s.H, inf.NTx, pairsStr(inf.Pairs)), "ok"})
			stray("run")
		case "flush":
			flushLine()
		}
	}
	// a clean stop flushes what is left
	if l.Timer {
		time.Sleep(60 * time.Millisecond)
	}
	gcLine()
	stray("gc")
	closed = true
	before := sr.st.NumBatches()
	bc.Close()
	bs := sr.st.Batches()
	note("run")
	obs := "none"
	if len(bs) > before {
		var puts []string
		for _, b := range bs[before:] {
			puts = append(puts, abstractBatch(b, srh))
		}
		obs = strings.Join(puts, " || ")
	}
	sr.lines = append(sr.lines, [2]string{"flush", obs})
	return sr, nil
}

// checkPrefix reopens the database made of the first k batches and runs the property's oracle:
// consistent prefix, equal to the reference at the recovered height, continues with identical roots.
func checkPrefix(c *caseOut, h *History, cfg config.Blockchain, nb int, accepted uint32, exact bool, k int, db map[string][]byte, skip map[string]bool, tag string) {
	var st storage.Store = noCloseStore{materialise(db)}
	if c.replica != "" && c.replica != "memory" {
		// a disk backend holding the same content (written as one transaction)
		ds, cleanup, err := newBackend(c.replica)
		if err != nil {
			c.fail("harness-backend", "%v", err)
			return
		}
		defer cleanup()
		if err := replayOnto(ds, []*Batch{{KV: db}}, 1); err != nil {
			c.fail("harness-backend", "%v", err)
			return
		}
		st = ds
		c.cnt.count("replica-backend:" + c.replica)
	}
	bc, err := openNode(st, cfg)
	if err != nil {
		c.fail(tag+"reopen", "prefix %d/%d: NewBlockchain failed: %v", k, nb, err)
		return
	}
	go bc.Run()
	defer func() {
		defer func() { _ = recover() }()
		bc.Close()
	}()
	hh := bc.BlockHeight()
	c.cnt.count(fmt.Sprintf("%srecovered:blocks-behind-tip-%s", tag, bucket(int(h.N())-int(hh))))
	if hh > accepted {
		c.fail(tag+"height-above-accepted", "prefix %d: recovered height %d > last accepted block %d", k, hh, accepted)
		return
	}
	if exact && hh != accepted {
		c.fail(tag+"height", "prefix %d: node is at height %d, expected %d", k, hh, accepted)
		return
	}
	if bc.HeaderHeight() < hh {
		c.fail(tag+"header-below-block", "prefix %d: header height %d < block height %d", k, bc.HeaderHeight(), hh)
	}
	// the header chain on disk is the one the node knows after the restart
	if v, ok := db["\xc1"]; ok && len(v) >= 36 {
		want := binary.LittleEndian.Uint32(v[32:36])
		if bc.HeaderHeight() != want {
			c.fail(tag+"header-height", "prefix %d: the database holds headers up to %d, the reopened node reports header height %d", k, want, bc.HeaderHeight())
		} else if want <= h.N() && bc.CurrentHeaderHash() != h.hashOf(want) {
			c.fail(tag+"header-hash", "prefix %d: current header hash at %d is not the canonical one", k, want)
		}
		for _, i := range []uint32{0, want / 2, want} {
			if i <= h.N() && bc.GetHeaderHash(i) != h.hashOf(i) {
				c.fail(tag+"header-hash-list", "prefix %d: GetHeaderHash(%d) is not the canonical hash (header height %d)", k, i, want)
			}
		}
	}
	if hh > h.N() {
		return
	}
	got := observe(bc, h, hh)
	if h.Ref[hh].partial {
		c.cnt.count("harness:reference-observation-missing")
	}
	if d := h.Ref[hh].diff(&got, skip); len(d) > 0 {
		c.fail(tag+"recover-"+d[0], "prefix %d: recovered node at height %d differs from the reference in %v: ref %q got %q", k, hh, d, h.Ref[hh].get(d[0]), got.get(d[0]))
		return
	}
	// continue with the remaining blocks
	for i := hh + 1; i <= h.N(); i++ {
		if err := safeAddBlock(bc, h.Blocks[i-1]); err != nil {
			c.fail(tag+"continue-addblock", "prefix %d: recovered at %d, AddBlock(%d) failed: %v", k, hh, i, err)
			return
		}
		sr, err := bc.GetStateRoot(i)
		if err != nil || sr.Root.StringLE() != h.Ref[i].get("root") {
			c.fail(tag+"continue-root", "prefix %d: recovered at %d, state root at %d differs from the reference", k, hh, i)
			return
		}
	}
	if hh < h.N() {
		got = observe(bc, h, h.N())
		if d := h.Ref[h.N()].diff(&got, skip); len(d) > 0 {
			c.fail(tag+"continue-"+d[0], "prefix %d: recovered at %d and continued to %d, differs from the reference in %v: ref %q got %q", k, hh, h.N(), d, h.Ref[h.N()].get(d[0]), got.get(d[0]))
			return
		}
		// a clean stop and one more restart of the continued node
		bc.Close()
		bc2, err := openNode(st, cfg)
		if err != nil {
			c.fail(tag+"second-reopen", "prefix %d: recovered at %d, continued to %d, stopped cleanly: the next NewBlockchain failed: %v", k, hh, h.N(), err)
			return
		}
		got = observe(bc2, h, h.N())
		if d := h.Ref[h.N()].diff(&got, skip); len(d) > 0 {
			c.fail(tag+"second-"+d[0], "prefix %d: recovered at %d, continued to %d, restarted: differs from the reference in %v", k, hh, h.N(), d)
		}
		if bc2.HeaderHeight() != h.N() {
			c.fail(tag+"second-header-height", "prefix %d: after the second restart header height is %d, expected %d", k, bc2.HeaderHeight(), h.N())
		}
	}
}

func bucket(n int) string {
	switch {
	case n < 0:
		return "neg"
	case n == 0:
		return "0"
	case n <= 2:
		return "1-2"
	case n <= 8:
		return "3-8"
	default:
		return "9+"
	}
}
