package main

import (
	"encoding/binary"
	"fmt"
	"io"
	"runtime"
	"strings"
	"sync/atomic"
	"time"

	"github.com/nspcc-dev/neo-go/pkg/config"
	"github.com/nspcc-dev/neo-go/pkg/core"
	"github.com/nspcc-dev/neo-go/pkg/core/block"
	"github.com/nspcc-dev/neo-go/pkg/core/storage"
	"go.uber.org/zap"
	"go.uber.org/zap/zapcore"

	"verif/harness/internal/prng"
)

// caseOut buffers everything a case wants to say, so that cases can run concurrently and still
// be written in case order.
type caseOut struct {
	replica string // backend kind of the reopened replicas ("" = memory)
	// contLimit != 0: a recovered node is only continued by this many blocks (long chains), except for
	// every contFull-th prefix, which goes to the tip
	contLimit uint32
	contFull  int
	k         int
	lines     [][2]string // op, impl observation
	fails     []failRec
	cnt       counters
	seen      []string
	samp      []string
}

type failRec struct{ key, msg string }

func (c *caseOut) line(op, obs string) { c.lines = append(c.lines, [2]string{op, obs}) }
func (c *caseOut) fail(key, f string, a ...any) {
	for _, x := range c.fails { // one report per shape and case is enough
		if x.key == key {
			return
		}
	}
	c.fails = append(c.fails, failRec{key, fmt.Sprintf(f, a...)})
}

// Step of the subject node's schedule.
type Step struct {
	Kind string // "hdr" (headers up to H), "blk" (block H), "flush", "flushfail", "blkwait" (block H with a flush during its back-pressure wait)
	H    uint32
}

// genSchedule draws a flush/header schedule for n blocks. pf = flush probability (per mille) after a block.
func genSchedule(r *prng.R, n uint32, pfMille int, headersAhead bool) []Step {
	var (
		steps  []Step
		p, hdr uint32
	)
	for p < n {
		if headersAhead && max(hdr, p) < n && r.Chance(1, 8) {
			hdr = min(n, max(hdr, p)+uint32(r.Range(1, 5)))
			steps = append(steps, Step{"hdr", hdr})
			if r.Chance(1, 2) {
				steps = append(steps, Step{"flush", 0})
			}
			continue
		}
		p++
		if len(steps) > 0 && steps[len(steps)-1].Kind == "blk" && r.Chance(1, 7) {
			// the write cache holds at least the previous block: this AddBlock can be made to wait for a flush
			steps = append(steps, Step{"blkwait", p})
		} else {
			steps = append(steps, Step{"blk", p})
		}
		if r.Intn(1000) < pfMille {
			steps = append(steps, Step{"flush", 0})
		} else if r.Chance(1, 12) {
			steps = append(steps, Step{"flushfail", 0}) // a flush the backend refuses
		}
	}
	return steps
}

func nodeConfig(h *History, base config.Blockchain, l Local) config.Blockchain {
	c := base
	c.RemoveUntraceableBlocks = l.RUB
	c.GarbageCollectionPeriod = l.GCP
	return c
}

// openNode opens a node on a store; a panic of the real code is returned as an error.
func openNode(st storage.Store, cfg config.Blockchain) (bc *core.Blockchain, err error) {
	return openNodeLog(st, cfg, zap.NewNop())
}

func openNodeLog(st storage.Store, cfg config.Blockchain, log *zap.Logger) (bc *core.Blockchain, err error) {
	defer func() {
		if r := recover(); r != nil {
			bc, err = nil, fmt.Errorf("panic: %v", r)
		}
	}()
	return core.NewBlockchain(st, cfg, log)
}

// gcWatch follows the node's log to know when a garbage-collection run (tryRunGC, blockchain.go:1393-1428:
// removeOldTransfers, stateroot GC, removeUntraceableBlocks, removeOldHeaderHashes) is in progress: the block
// removal writes into the write cache only, so it cannot be seen on the recording store.
type gcWatch struct {
	started, finished atomic.Int32
}

func (w *gcWatch) logger() *zap.Logger {
	core := zapcore.NewCore(zapcore.NewJSONEncoder(zapcore.EncoderConfig{}), zapcore.AddSync(io.Discard), zapcore.InfoLevel)
	return zap.New(core, zap.Hooks(func(e zapcore.Entry) error {
		switch e.Message {
		case "starting transfer data garbage collection":
			w.started.Add(1)
		case "finished header hashes garbage collection", "failed to flush header hashes GC changeset":
			w.finished.Add(1)
		}
		return nil
	}))
}

// wait returns when no GC run is in progress (after giving a run that follows a flush time to start).
func (w *gcWatch) wait() {
	time.Sleep(40 * time.Millisecond)
	deadline := time.Now().Add(20 * time.Second)
	for w.started.Load() != w.finished.Load() && time.Now().Before(deadline) {
		time.Sleep(5 * time.Millisecond)
	}
}

func safeAddBlock(bc *core.Blockchain, b *block.Block) (err error) {
	defer func() {
		if r := recover(); r != nil {
			err = fmt.Errorf("panic: %v", r)
		}
	}()
	return bc.AddBlock(b)
}

// subjectRun is the recorded life of the subject node.
type subjectRun struct {
	cleanup   func()
	st        *RecStore
	batchInfo []batchMeta // parallel to st.Batches()
	lines     [][2]string
	timerHit  bool
	fails     []failRec // oracle failures seen while the subject was running
	during    int       // blocks that arrived while a refused flush was in flight
	waited    int       // AddBlocks that waited at the persist back-pressure and were released by a harness flush
	notWaited int       // … that went through without waiting
	// hdrDuringGC: 1 = headers were delivered between two passes of a GC cycle, -1 = planned but the cycle never came
	hdrDuringGC int
}

// batchMeta: what the harness knows about the moment batch i was committed.
type batchMeta struct {
	accepted  uint32 // blocks accepted by AddBlock so far
	persisted uint32 // block height on disk after this batch
	phase     string // "run", "gc", "reset"
}

func persistedHeight(st storage.Store) (uint32, bool) {
	v, err := st.Get([]byte{byte(storage.SYSCurrentBlock)})
	if err != nil || len(v) < 36 {
		return 0, false
	}
	return binary.LittleEndian.Uint32(v[32:36]), true
}

func pairsStr(ps [][2]int) string {
	if len(ps) == 0 {
		return "-"
	}
	var sb strings.Builder
	for i, p := range ps {
		if i > 0 {
			sb.WriteByte(',')
		}
		fmt.Fprintf(&sb, "%d.%d", p[0], p[1])
	}
	return sb.String()
}

// runSubject drives a node over history h following the schedule, recording every batch.
// With l.Timer the flushes are left to the node's own timer (that is the only way GC runs).
func runSubject(h *History, cfg config.Blockchain, l Local, steps []Step, backend string) (*subjectRun, error) {
	inner, probe, cleanup, err := newProbedBackend(backend)
	if err != nil {
		return nil, err
	}
	sr := &subjectRun{st: NewProbedRecStore(inner, probe), cleanup: cleanup}
	var watch gcWatch
	bc, err := openNodeLog(sr.st, cfg, watch.logger())
	if err != nil {
		return nil, fmt.Errorf("subject open: %w", err)
	}
	go bc.Run()
	closed := false
	defer func() {
		if !closed {
			bc.Close()
		}
	}()
	var accepted uint32
	note := func(phase string) int { // attribute newly recorded batches
		n := sr.st.NumBatches()
		added := n - len(sr.batchInfo)
		for len(sr.batchInfo) < n {
			ph, _ := persistedHeight(sr.st)
			sr.batchInfo = append(sr.batchInfo, batchMeta{accepted: accepted, persisted: ph, phase: phase})
		}
		return added
	}
	// stray notes batches that were not issued by a flush step of the schedule; a change set among them
	// means the node's own timer flushed in between (the tie lines of this run are then not comparable).
	stray := func(phase string) {
		from := len(sr.batchInfo)
		if note(phase) > 0 {
			for _, b := range sr.st.Batches()[from:] {
				if !b.GC {
					sr.timerHit = true
				}
			}
		}
	}
	srh := cfg.StateRootInHeader
	gcSeen := 0
	gcPending := false
	gcLine := func() { // the GC calls that followed the previous flush (they are over by now)
		if !l.Timer || !gcPending {
			return
		}
		gcPending = false
		calls := sr.st.GCCalls()
		var sb strings.Builder
		for _, c := range calls[gcSeen:] {
			fmt.Fprintf(&sb, "%02x", c)
		}
		gcSeen = len(calls)
		s := sb.String()
		if s == "" {
			s = "-"
		}
		sr.lines = append(sr.lines, [2]string{"gc", s})
	}
	flushLine := func() {
		gcLine()
		stray("gc")
		before := len(sr.batchInfo)
		if l.Timer {
			// wait for the timer-driven persist (and the GC that follows it in the same goroutine)
			deadline := time.Now().Add(4 * time.Second)
			for time.Now().Before(deadline) {
				if ph, ok := persistedHeight(sr.st); ok && ph == accepted && sr.st.NumBatches() > before {
					break
				}
				time.Sleep(5 * time.Millisecond)
			}
			watch.wait()
		} else if err := bc.VerifPersist(); err != nil {
			sr.lines = append(sr.lines, [2]string{"flush", "err"})
			return
		}
		bs := sr.st.Batches()
		added := note("run")
		var puts []string
		for _, b := range bs[before:] {
			if !b.GC {
				puts = append(puts, abstractBatch(b, srh))
			}
		}
		switch {
		case added == 0:
			sr.lines = append(sr.lines, [2]string{"flush", "none"})
		case len(puts) == 1:
			sr.lines = append(sr.lines, [2]string{"flush", puts[0]})
		default:
			sr.timerHit = true // a timer flush split the batch: the case's tie lines are not comparable
			sr.lines = append(sr.lines, [2]string{"flush", strings.Join(puts, " || ")})
		}
		gcPending = added > 0
		// the GC that follows a timer flush is over by now (watch.wait): its line goes right here, before the next
		// blocks - the gcBlockTimes LRU makes the order of GC runs and block additions matter
		gcLine()
	}
	skipBlk := uint32(0) // a block that was already added inside a refused flush
	for si, s := range steps {
		switch s.Kind {
		case "hdr":
			from := max(bc.HeaderHeight(), accepted) + 1
			var hs []*block.Header
			for i := from; i <= s.H; i++ {
				hs = append(hs, &h.Blocks[i-1].Header)
			}
			if len(hs) == 0 {
				continue
			}
			if err := bc.AddHeaders(hs...); err != nil {
				return nil, fmt.Errorf("subject AddHeaders %d..%d: %w", from, s.H, err)
			}
			sr.lines = append(sr.lines, [2]string{fmt.Sprintf("hdr %d %d", from, s.H), "ok"})
			stray("run")
		case "blk":
			if s.H == skipBlk {
				continue
			}
			if err := safeAddBlock(bc, h.Blocks[s.H-1]); err != nil {
				return nil, fmt.Errorf("subject AddBlock %d: %w", s.H, err)
			}
			accepted = s.H
			inf := h.Info[s.H-1]
			sr.lines = append(sr.lines, [2]string{fmt.Sprintf("blk %d %d %s", s.H, inf.NTx, pairsStr(inf.Pairs)), "ok"})
			stray("run")
		case "blkwait":
			// AddBlock in its own goroutine; storeBlock is made to wait at the persist back-pressure
			// (blockchain.go:2196-2203) and the flush it waits for is issued from here.
			inf := h.Info[s.H-1]
			blkLine := [2]string{fmt.Sprintf("blk %d %d %s", s.H, inf.NTx, pairsStr(inf.Pairs)), "ok"}
			if l.Timer {
				if err := safeAddBlock(bc, h.Blocks[s.H-1]); err != nil {
					return nil, fmt.Errorf("subject AddBlock %d: %w", s.H, err)
				}
				accepted = s.H
				sr.lines = append(sr.lines, blkLine)
				stray("run")
				continue
			}
			stray("run")
			before := sr.st.NumBatches()
			waiting, err := addBlockWaiting(bc, h.Blocks[s.H-1], func() error {
				bc.VerifSetPersistVelocity(0)
				return bc.VerifPersist()
			})
			bc.VerifSetPersistVelocity(0)
			if err != nil {
				return nil, fmt.Errorf("subject AddBlock %d (with a flush during its wait): %w", s.H, err)
			}
			var puts []*Batch
			for _, b := range sr.st.Batches()[before:] {
				if !b.GC {
					puts = append(puts, b)
				}
			}
			if waiting {
				note("wait") // committed while block s.H was waiting inside storeBlock, not accepted yet
			} else {
				note("run")
			}
			accepted = s.H
			switch {
			case waiting && len(puts) == 1:
				sr.waited++
				sr.lines = append(sr.lines, [2]string{fmt.Sprintf("blkwait %d %d %s", s.H, inf.NTx, pairsStr(inf.Pairs)), abstractBatch(puts[0], srh)})
			case !waiting && len(puts) == 0:
				sr.notWaited++
				sr.lines = append(sr.lines, blkLine)
			default:
				sr.timerHit = true // the node's own timer flushed around this block
				sr.lines = append(sr.lines, blkLine)
			}
		case "flush":
			flushLine()
		case "flushfail":
			// MemCachedStore.persist's error branch: the backend refuses the change set
			if l.Timer {
				continue
			}
			stray("run")
			before, inj := sr.st.NumBatches(), sr.st.Injected()
			// every other time the next block of the schedule arrives WHILE the change set is being written
			// (persist has swapped the maps out and released the lock, memcached_store.go:404-414)
			var during *block.Block
			var duringErr error
			if si+1 < len(steps) && steps[si+1].Kind == "blk" && (si+int(accepted))%2 == 0 {
				during = h.Blocks[steps[si+1].H-1]
			}
			sr.st.FailNextWith(func() {
				if during != nil {
					duringErr = safeAddBlock(bc, during)
				}
			})
			err := bc.VerifPersist()
			if during != nil && sr.st.Injected() > inj {
				if duringErr != nil {
					return nil, fmt.Errorf("subject AddBlock %d during a refused flush: %w", during.Index, duringErr)
				}
				accepted = during.Index
				skipBlk = during.Index
				sr.during++
				inf := h.Info[during.Index-1]
				sr.lines = append(sr.lines, [2]string{fmt.Sprintf("blk %d %d %s", during.Index, inf.NTx, pairsStr(inf.Pairs)), "ok"})
			}
			delivered := sr.st.Injected() > inj
			sr.st.DisarmFailure()
			switch {
			case sr.st.NumBatches() != before:
				sr.timerHit = true // the node's own timer took the failure, this flush went through
				note("run")
				sr.lines = append(sr.lines, [2]string{"flushfail", "raced"})
			case !delivered:
				sr.lines = append(sr.lines, [2]string{"flushfail", "none"})
			case err == nil:
				sr.lines = append(sr.lines, [2]string{"flushfail", "ok"})
				sr.fails = append(sr.fails, failRec{"failed-flush-reported-success", fmt.Sprintf("the backend refused the change set at height %d but persist returned nil", accepted)})
			default:
				sr.lines = append(sr.lines, [2]string{"flushfail", "err"})
				// nothing may be lost: the node answers every read as before
				got := observe(bc, h, accepted)
				if int(accepted) < len(h.Ref) && !h.Ref[accepted].partial {
					if d := h.Ref[accepted].diff(&got, nil); len(d) > 0 {
						sr.fails = append(sr.fails, failRec{"failed-flush-lost-" + d[0], fmt.Sprintf("after a refused flush at height %d the node differs from the reference in %v: ref %q got %q", accepted, d, h.Ref[accepted].get(d[0]), got.get(d[0]))})
					}
				}
			}
		}
	}
	// a clean stop flushes what is left
	if l.Timer {
		watch.wait()
	}
	gcLine()
	stray("gc")
	closed = true
	before := sr.st.NumBatches()
	bc.Close()
	bs := sr.st.Batches()
	note("run")
	obs := "none"
	if len(bs) > before {
		var puts []string
		for _, b := range bs[before:] {
			puts = append(puts, abstractBatch(b, srh))
		}
		obs = strings.Join(puts, " || ")
	}
	sr.lines = append(sr.lines, [2]string{"flush", obs})
	return sr, nil
}

// checkPrefix reopens the database made of the first k batches and runs the property's oracle:
// consistent prefix, equal to the reference at the recovered height, continues with identical roots.
func checkPrefix(c *caseOut, h *History, cfg config.Blockchain, nb int, accepted uint32, exact bool, k int, db map[string][]byte, skip map[string]bool, tag string) {
	var st storage.Store = noCloseStore{materialise(db)}
	if c.replica != "" && c.replica != "memory" {
		// a disk backend holding the same content (written as one transaction)
		ds, cleanup, err := newBackend(c.replica)
		if err != nil {
			c.fail("harness-backend", "%v", err)
			return
		}
		defer cleanup()
		if err := replayOnto(ds, []*Batch{{KV: db}}, 1); err != nil {
			c.fail("harness-backend", "%v", err)
			return
		}
		st = ds
		c.cnt.count("replica-backend:" + c.replica)
	}
	bc, err := openNode(st, cfg)
	if err != nil {
		c.fail(tag+"reopen"+gcPageShape(cfg, db, err), "prefix %d/%d: NewBlockchain failed: %v", k, nb, err)
		return
	}
	go bc.Run()
	defer func() {
		defer func() { _ = recover() }()
		bc.Close()
	}()
	hh := bc.BlockHeight()
	tip := h.N()
	if c.contLimit != 0 && (c.contFull == 0 || k%c.contFull != 0) {
		tip = min(tip, hh+c.contLimit)
	}
	c.cnt.count(fmt.Sprintf("%srecovered:blocks-behind-tip-%s", tag, bucket(int(h.N())-int(hh))))
	if hh > accepted {
		c.fail(tag+"height-above-accepted", "prefix %d: recovered height %d > last accepted block %d", k, hh, accepted)
		return
	}
	if exact && hh != accepted {
		c.fail(tag+"height", "prefix %d: node is at height %d, expected %d", k, hh, accepted)
		return
	}
	if bc.HeaderHeight() < hh {
		c.fail(tag+"header-below-block", "prefix %d: header height %d < block height %d", k, bc.HeaderHeight(), hh)
	}
	// the header chain on disk is the one the node knows after the restart
	if v, ok := db["\xc1"]; ok && len(v) >= 36 {
		want := binary.LittleEndian.Uint32(v[32:36])
		if bc.HeaderHeight() != want {
			c.fail(tag+"header-height", "prefix %d: the database holds headers up to %d, the reopened node reports header height %d", k, want, bc.HeaderHeight())
		} else if want <= h.N() && bc.CurrentHeaderHash() != h.hashOf(want) {
			c.fail(tag+"header-hash", "prefix %d: current header hash at %d is not the canonical one", k, want)
		}
		for _, i := range []uint32{0, want / 2, want} {
			if cfg.RemoveUntraceableBlocks && i+h.MTB <= want {
				continue // untraceable: its header-hash page may have been collected (GetHeaderHash gives zero then)
			}
			if i <= h.N() && bc.GetHeaderHash(i) != h.hashOf(i) {
				c.fail(tag+"header-hash-list", "prefix %d: GetHeaderHash(%d) is not the canonical hash (header height %d)", k, i, want)
			}
		}
	}
	if hh > h.N() {
		return
	}
	got := observe(bc, h, hh)
	if h.Ref[hh].partial {
		c.cnt.count("harness:reference-observation-missing")
	}
	if d := h.Ref[hh].diff(&got, skip); len(d) > 0 {
		c.fail(tag+"recover-"+d[0], "prefix %d: recovered node at height %d differs from the reference in %v: ref %q got %q", k, hh, d, h.Ref[hh].get(d[0]), got.get(d[0]))
		return
	}
	// continue with the remaining blocks
	for i := hh + 1; i <= tip; i++ {
		if err := safeAddBlock(bc, h.Blocks[i-1]); err != nil {
			c.fail(tag+"continue-addblock", "prefix %d: recovered at %d, AddBlock(%d) failed: %v", k, hh, i, err)
			return
		}
		sr, err := bc.GetStateRoot(i)
		if err != nil || sr.Root.StringLE() != h.Ref[i].get("root") {
			c.fail(tag+"continue-root", "prefix %d: recovered at %d, state root at %d differs from the reference", k, hh, i)
			return
		}
	}
	if hh < tip {
		got = observe(bc, h, tip)
		if d := h.Ref[tip].diff(&got, skip); len(d) > 0 {
			c.fail(tag+"continue-"+d[0], "prefix %d: recovered at %d and continued to %d, differs from the reference in %v: ref %q got %q", k, hh, tip, d, h.Ref[tip].get(d[0]), got.get(d[0]))
			return
		}
		// a clean stop and one more restart of the continued node
		bc.Close()
		bc2, err := openNode(st, cfg)
		if err != nil {
			c.fail(tag+"second-reopen"+gcPageShape(cfg, dumpStore(st), err), "prefix %d: recovered at %d, continued to %d, stopped cleanly: the next NewBlockchain failed: %v", k, hh, tip, err)
			return
		}
		got = observe(bc2, h, tip)
		if d := h.Ref[tip].diff(&got, skip); len(d) > 0 {
			c.fail(tag+"second-"+d[0], "prefix %d: recovered at %d, continued to %d, restarted: differs from the reference in %v", k, hh, tip, d)
		}
		if bc2.HeaderHeight() != tip {
			c.fail(tag+"second-header-height", "prefix %d: after the second restart header height is %d, expected %d", k, bc2.HeaderHeight(), tip)
		}
	}
}

func bucket(n int) string {
	switch {
	case n < 0:
		return "neg"
	case n == 0:
		return "0"
	case n <= 2:
		return "1-2"
	case n <= 8:
		return "3-8"
	default:
		return "9+"
	}
}

// checkSplits: on a persistent backend every recorded batch must have been exactly one committed backend
// transaction (the commit counter of the database files is read around every call). For a call that
// committed more than once, the database a power loss before its last commit leaves is rebuilt from the
// files and goes through the crash oracle like any other crash point.
func checkSplits(c *caseOut, h *History, cfg config.Blockchain, sr *subjectRun, runBatches int, target uint32, skip map[string]bool) {
	if sr.st.probe == nil {
		return
	}
	splits, checked := sr.st.Splits()
	kind := sr.st.probe.kind()
	c.cnt.add("probe:"+kind+"-batches-with-exactly-one-commit", checked)
	nb := sr.st.NumBatches()
	for _, s := range splits {
		if s.probeErr != "" {
			// the database files could not be read at that moment: this call stays unchecked (not a failure of the node)
			c.cnt.count("probe:" + kind + "-read-error")
			continue
		}
		c.cnt.count("probe:" + kind + "-split-batch")
		c.fail("backend-batch-not-one-transaction-"+kind, "%s call for batch %d of %d on %s was committed as %d backend transactions instead of one (a power loss between them leaves a part of the batch)",
			s.what, s.batch+1, nb, kind, s.commits)
		if s.image == nil {
			c.cnt.count("probe:" + kind + "-no-crash-image")
			continue
		}
		c.cnt.count("probe:" + kind + "-crash-image")
		if s.batch < runBatches && s.batch < len(sr.batchInfo) {
			checkPrefix(c, h, cfg, nb, sr.batchInfo[s.batch].accepted, false, s.batch+1, s.image, skip, "torn-"+kind+"-")
		} else {
			// inside the reset: reopening must finish it
			checkPrefix(c, h, cfg, nb, target, true, s.batch+1, s.image, skip, "torn-"+kind+"-reset-")
		}
	}
}

// gcPageShape recognises ONE shape of a failed restart and gives it its own key: the node runs with
// RemoveUntraceableBlocks, HeaderHashes.init misses exactly the page below the stored header count
// (headerhashes.go:86-91), and the database lacks that page AND every page below it - what
// removeOldHeaderHashes (blockchain.go:1629-1659) leaves, not a single lost page.
func gcPageShape(cfg config.Blockchain, db map[string][]byte, err error) string {
	if !cfg.RemoveUntraceableBlocks || err == nil || !strings.Contains(err.Error(), "failed to retrieve header hash page") {
		return ""
	}
	v, ok := db["\xc1"]
	if !ok || len(v) < 36 {
		return ""
	}
	hh := binary.LittleEndian.Uint32(v[32:36])
	stored := (hh + 1) / 2000 * 2000
	if stored < 2000 {
		return ""
	}
	need := stored - 2000
	for _, p := range headerPages(db) {
		if p <= need {
			return ""
		}
	}
	return "-gc-removed-needed-header-page"
}

// goid returns the id of the calling goroutine.
func goid() string {
	buf := make([]byte, 64)
	buf = buf[:runtime.Stack(buf, false)]
	f := strings.Fields(string(buf))
	if len(f) >= 2 {
		return f[1]
	}
	return ""
}

// addBlockWaiting runs AddBlock(b) in its own goroutine with the persist velocity set to 1, so that storeBlock
// waits at bc.persistCond when the write cache holds more than 4 keys. As soon as that goroutine is parked in
// sync.Cond.Wait inside storeBlock, flush() is called from the calling goroutine. It reports whether the wait
// was reached (AddBlock may also run through without waiting).
func addBlockWaiting(bc *core.Blockchain, b *block.Block, flush func() error) (waited bool, err error) {
	bc.VerifSetPersistVelocity(1)
	done := make(chan error, 1)
	idc := make(chan string, 1)
	go func() {
		idc <- goid()
		done <- safeAddBlock(bc, b)
	}()
	id := <-idc
	head := "goroutine " + id + " ["
	buf := make([]byte, 1<<20)
	deadline := time.Now().Add(5 * time.Second)
	for {
		select {
		case err := <-done:
			return false, err
		case <-time.After(2 * time.Millisecond):
		}
		if time.Now().After(deadline) {
			return false, <-done
		}
		n := runtime.Stack(buf, true)
		if n == len(buf) {
			buf = make([]byte, 2*len(buf))
			continue
		}
		dump := string(buf[:n])
		i := strings.Index(dump, head)
		if i < 0 {
			continue
		}
		blk := dump[i:]
		if j := strings.Index(blk, "\n\n"); j >= 0 {
			blk = blk[:j]
		}
		if strings.HasPrefix(blk[len(head):], "sync.Cond.Wait") && strings.Contains(blk, ").storeBlock(") {
			if ferr := flush(); ferr != nil {
				<-done
				return true, ferr
			}
			return true, <-done
		}
	}
}
