package main

import (
	"encoding/binary"
	"fmt"
	"sort"
	"strings"

	"github.com/nspcc-dev/neo-go/pkg/core/block"
	"github.com/nspcc-dev/neo-go/pkg/core/storage"
	"github.com/nspcc-dev/neo-go/pkg/io"
)

// ranges renders a set of heights as "3-7,9" ("-" if empty).
func ranges(hs []uint32) string {
	if len(hs) == 0 {
		return "-"
	}
	sort.Slice(hs, func(i, j int) bool { return hs[i] < hs[j] })
	var sb strings.Builder
	for i := 0; i < len(hs); {
		j := i
		for j+1 < len(hs) && hs[j+1] <= hs[j]+1 {
			j++
		}
		if sb.Len() > 0 {
			sb.WriteByte(',')
		}
		if hs[j] == hs[i] {
			fmt.Fprintf(&sb, "%d", hs[i])
		} else {
			fmt.Fprintf(&sb, "%d-%d", hs[i], hs[j])
		}
		i = j + 1
	}
	return sb.String()
}

func pm(b bool) string {
	if b {
		return "+"
	}
	return "-"
}

// abstractBatch maps a recorded batch to (key class, height) sets, the vocabulary of the Lean model.
func abstractBatch(b *Batch, srh bool) string {
	var (
		ver                              bool
		hp, bp, stage, sp                = "-", "-", "-", "-"
		blk, hdr, root, droot, page, dpg []uint32
		tx, stub, sig, dexec, dsig       int
		aux                              string
		stor, mpt, x17, x11, xi          bool
		other                            int
	)
	keys := make([]string, 0, len(b.KV))
	for k := range b.KV {
		keys = append(keys, k)
	}
	sort.Strings(keys)
	for _, k := range keys {
		v := b.KV[k]
		switch storage.KeyPrefix(k[0]) {
		case storage.SYSVersion:
			ver = v != nil
		case storage.SYSCurrentHeader:
			if v != nil && len(v) >= 36 {
				hp = fmt.Sprint(binary.LittleEndian.Uint32(v[32:36]))
			} else {
				hp = "del"
			}
		case storage.SYSCurrentBlock:
			if v != nil && len(v) >= 36 {
				bp = fmt.Sprint(binary.LittleEndian.Uint32(v[32:36]))
			} else {
				bp = "del"
			}
		case storage.SYSStateChangeStage:
			if v == nil {
				stage = "del"
			} else if len(v) == 1 {
				stage = fmt.Sprint(v[0])
			} else {
				stage = "bad"
			}
		case storage.SYSStateSyncPoint:
			if v == nil {
				sp = "del"
			} else if len(v) == 4 {
				sp = fmt.Sprint(binary.LittleEndian.Uint32(v))
			} else {
				sp = "bad"
			}
		case storage.DataExecutable:
			switch {
			case v == nil && len(k) == 33:
				dexec++
			case v == nil:
				dsig++
			case len(k) == 53:
				sig++
			case v[0] == storage.ExecTransaction && len(v) == 5:
				stub++
			case v[0] == storage.ExecTransaction:
				tx++
			case v[0] == storage.ExecBlock:
				r := io.NewBinReaderFromBuf(v[1:])
				tb, err := block.NewTrimmedFromReader(srh, r)
				if err != nil {
					other++
				} else if r.Len() > 0 {
					blk = append(blk, tb.Index)
				} else {
					hdr = append(hdr, tb.Index)
				}
			default:
				other++
			}
		case storage.DataMPT:
			mpt = true
		case storage.DataMPTAux:
			switch {
			case len(k) == 5 && v != nil:
				root = append(root, binary.BigEndian.Uint32([]byte(k[1:])))
			case len(k) == 5:
				droot = append(droot, binary.BigEndian.Uint32([]byte(k[1:])))
			case len(k) == 2 && k[1] == 2 && v != nil:
				aux += "l"
			case len(k) == 2 && k[1] == 3 && v != nil:
				aux += "v"
			case len(k) == 2 && k[1] == 3:
				aux += "V"
			default:
				other++
			}
		case storage.STStorage, storage.STTempStorage:
			stor = true
		case storage.STNEP17Transfers:
			x17 = true
		case storage.STNEP11Transfers:
			x11 = true
		case storage.STTokenTransferInfo:
			xi = true
		case storage.IXHeaderHashList:
			if v != nil {
				page = append(page, binary.BigEndian.Uint32([]byte(k[1:])))
			} else {
				dpg = append(dpg, binary.BigEndian.Uint32([]byte(k[1:])))
			}
		default:
			other++
		}
	}
	if aux == "" {
		aux = "-"
	}
	kind := "put"
	if b.GC {
		kind = fmt.Sprintf("gc%02x", b.GCPfx)
	}
	return fmt.Sprintf("%s ver=%s hp=%s bp=%s blk=%s hdr=%s tx=%d stub=%d sig=%d root=%s aux=%s stor=%s mpt=%s x17=%s x11=%s xi=%s page=%s stage=%s sp=%s dexec=%d dsig=%d droot=%s dpage=%s other=%d",
		kind, pm(ver), hp, bp, ranges(blk), ranges(hdr), tx, stub, sig, ranges(root), aux, pm(stor), pm(mpt), pm(x17), pm(x11), pm(xi),
		ranges(page), stage, sp, dexec, dsig, ranges(droot), ranges(dpg), other)
}

// semAbstract describes what a batch CHANGES when applied to database `before` (writes that leave a
// key as it was are not counted; deleted records are classified by the value they had).
func semAbstract(before map[string][]byte, b *Batch, srh bool) string {
	var (
		ver                                        bool
		hp, bp, stage, sp                          = "-", "-", "-", "-"
		blk, hdr, dblk, dhdr, root, droot, pg, dpg []uint32
		tx, stub, sig, dtx, dstub, dsig, other     int
		aux                                        string
		stor, mpt, x17, x11, xi                    bool
	)
	keys := make([]string, 0, len(b.KV))
	for k := range b.KV {
		keys = append(keys, k)
	}
	sort.Strings(keys)
	execClass := func(v []byte) (string, uint32) {
		switch {
		case len(v) == 0:
			return "other", 0
		case v[0] == storage.ExecTransaction && len(v) == 5:
			return "stub", 0
		case v[0] == storage.ExecTransaction:
			return "tx", 0
		case v[0] == storage.ExecBlock:
			r := io.NewBinReaderFromBuf(v[1:])
			tb, err := block.NewTrimmedFromReader(srh, r)
			if err != nil {
				return "other", 0
			}
			if r.Len() > 0 {
				return "blk", tb.Index
			}
			return "hdr", tb.Index
		}
		return "other", 0
	}
	u32 := func(v []byte, off int) string {
		if len(v) >= off+4 {
			return fmt.Sprint(binary.LittleEndian.Uint32(v[off : off+4]))
		}
		return "bad"
	}
	for _, k := range keys {
		v := b.KV[k]
		old, had := before[k]
		if v == nil && !had {
			continue
		}
		if v != nil && had && string(canonVal(k, v)) == string(canonVal(k, old)) {
			continue
		}
		switch storage.KeyPrefix(k[0]) {
		case storage.SYSVersion:
			ver = true
		case storage.SYSCurrentHeader:
			if v == nil {
				hp = "del"
			} else {
				hp = u32(v, 32)
			}
		case storage.SYSCurrentBlock:
			if v == nil {
				bp = "del"
			} else {
				bp = u32(v, 32)
			}
		case storage.SYSStateChangeStage:
			if v == nil {
				stage = "del"
			} else if len(v) == 1 {
				stage = fmt.Sprint(v[0])
			} else {
				stage = "bad"
			}
		case storage.SYSStateSyncPoint:
			if v == nil {
				sp = "del"
			} else {
				sp = u32(v, 0)
			}
		case storage.DataExecutable:
			if len(k) == 53 {
				if v == nil {
					dsig++
				} else {
					sig++
				}
				continue
			}
			if v == nil {
				switch c, h := execClass(old); c {
				case "blk":
					dblk = append(dblk, h)
				case "hdr":
					dhdr = append(dhdr, h)
				case "tx":
					dtx++
				case "stub":
					dstub++
				default:
					other++
				}
			} else {
				switch c, h := execClass(v); c {
				case "blk":
					blk = append(blk, h)
				case "hdr":
					hdr = append(hdr, h)
				case "tx":
					tx++
				case "stub":
					stub++
				default:
					other++
				}
			}
		case storage.DataMPT:
			mpt = true
		case storage.DataMPTAux:
			switch {
			case len(k) == 5 && v != nil:
				root = append(root, binary.BigEndian.Uint32([]byte(k[1:])))
			case len(k) == 5:
				droot = append(droot, binary.BigEndian.Uint32([]byte(k[1:])))
			case len(k) == 2 && k[1] == 2:
				aux += "l"
			case len(k) == 2 && k[1] == 3:
				aux += "v"
			default:
				other++
			}
		case storage.STStorage, storage.STTempStorage:
			stor = true
		case storage.STNEP17Transfers:
			x17 = true
		case storage.STNEP11Transfers:
			x11 = true
		case storage.STTokenTransferInfo:
			xi = true
		case storage.IXHeaderHashList:
			if v != nil {
				pg = append(pg, binary.BigEndian.Uint32([]byte(k[1:])))
			} else {
				dpg = append(dpg, binary.BigEndian.Uint32([]byte(k[1:])))
			}
		default:
			other++
		}
	}
	if aux == "" {
		aux = "-"
	}
	return fmt.Sprintf("sem ver=%s hp=%s bp=%s stage=%s sp=%s blk=%s hdr=%s tx=%d stub=%d sig=%d dblk=%s dhdr=%s dtx=%d dstub=%d dsig=%d root=%s droot=%s aux=%s stor=%s mpt=%s x17=%s x11=%s xi=%s page=%s dpage=%s other=%d",
		pm(ver), hp, bp, stage, sp, ranges(blk), ranges(hdr), tx, stub, sig, ranges(dblk), ranges(dhdr), dtx, dstub, dsig,
		ranges(root), ranges(droot), aux, pm(stor), pm(mpt), pm(x17), pm(x11), pm(xi), ranges(pg), ranges(dpg), other)
}
