package main

import (
	"encoding/binary"
	"fmt"
	"sort"
	"strings"

	"github.com/nspcc-dev/neo-go/pkg/config"
	"github.com/nspcc-dev/neo-go/pkg/core/storage"

	"verif/harness/internal/prng"
)

// headerPages lists the IXHeaderHashList page keys of a database.
func headerPages(db map[string][]byte) []uint32 {
	var res []uint32
	for k := range db {
		if k[0] == byte(storage.IXHeaderHashList) && len(k) == 5 {
			res = append(res, binary.BigEndian.Uint32([]byte(k[1:])))
		}
	}
	sort.Slice(res, func(i, j int) bool { return res[i] < res[j] })
	return res
}

// runWithStops feeds the whole history to a node on a recording store, stopping it cleanly and reopening it
// at the given heights; it returns the final database.
func runWithStops(h *History, cfg config.Blockchain, stops map[uint32]bool) (map[string][]byte, error) {
	rec := NewRecStore(storage.NewMemoryStore())
	bc, err := openNode(rec, cfg)
	if err != nil {
		return nil, fmt.Errorf("open: %w", err)
	}
	go bc.Run()
	for i := uint32(1); i <= h.N(); i++ {
		if err := safeAddBlock(bc, h.Blocks[i-1]); err != nil {
			bc.Close()
			return nil, fmt.Errorf("AddBlock(%d): %w", i, err)
		}
		if stops[i] {
			bc.Close()
			if bc, err = openNode(rec, cfg); err != nil {
				return nil, fmt.Errorf("reopen at %d: %w", i, err)
			}
			if bc.BlockHeight() != i || bc.HeaderHeight() != i {
				hh, bh := bc.HeaderHeight(), bc.BlockHeight()
				return nil, fmt.Errorf("reopen at %d: heights %d/%d", i, bh, hh)
			}
			go bc.Run()
		}
	}
	bc.Close()
	bs := rec.Batches()
	return fold(bs, len(bs)), nil
}

// pagesCase: a long chain of (mostly empty) blocks; the subject node is stopped and reopened at header heights
// around the header-hash page boundaries and then runs on WITHOUT restart for more than one further page.
// Its header-hash pages must be those of a replica that was never restarted, and it must reopen once more.
func pagesCase(c *caseOut, r *prng.R, thorough, fixedStop bool) {
	n := 4001 + r.Intn(6)
	stops := map[uint32]bool{1999: true}
	if thorough {
		n = 6001 + r.Intn(6)
		stops = map[uint32]bool{}
		if fixedStop { // the second page boundary, no later restart that could hide a lost page
			stops[3999] = true
		}
		for want := 1 + r.Intn(3); !fixedStop && len(stops) < want; {
			stops[uint32((1+r.Intn(2))*2000-2+r.Intn(4))] = true
		}
	}
	h, err := buildHistory(r, Proto{SRH: r.Bool()}, n, &c.cnt, func(i int) bool { return i <= 2 }, func(uint32) bool { return false })
	if err != nil {
		c.fail("harness-history", "building the history failed: %v", err)
		return
	}
	c.cnt.count("kind:pages")
	c.cnt.add("blocks", n)
	var sl []string
	for s := range stops {
		sl = append(sl, fmt.Sprint(s))
		c.cnt.count(fmt.Sprintf("pages:stop-at-header-height-mod-2000=%d", s%2000))
	}
	sort.Strings(sl)
	c.line("cfg srh=false mtb=1000 rub=false gcp=0", "ok")
	ref, err := runWithStops(h, h.Cfg, nil)
	if err != nil {
		c.fail("harness-replica", "uninterrupted replica: %v", err)
		return
	}
	db, err := runWithStops(h, h.Cfg, stops)
	if err != nil {
		c.fail("pages-run-"+slug(err), "node stopped/reopened at %s: %v", strings.Join(sl, ","), err)
		return
	}
	want, got := headerPages(ref), headerPages(db)
	if fmt.Sprint(want) != fmt.Sprint(got) {
		c.fail("header-pages-differ", "chain of %d blocks, node stopped and reopened at header height %s: its database holds header-hash pages %v, an uninterrupted replica holds %v", n, strings.Join(sl, ","), got, want)
	}
	for _, p := range want {
		k := string(append([]byte{byte(storage.IXHeaderHashList)}, byte(p>>24), byte(p>>16), byte(p>>8), byte(p)))
		if string(ref[k]) != string(db[k]) {
			c.fail("header-page-content", "header-hash page %d differs from the uninterrupted replica's", p)
		}
	}
	// one more restart
	bc, err := openNode(noCloseStore{materialise(db)}, h.Cfg)
	if err != nil {
		c.fail("pages-reopen-"+slug(err), "chain of %d blocks, node stopped and reopened at header height %s, run on to the tip and stopped: the next NewBlockchain fails: %v", n, strings.Join(sl, ","), err)
		return
	}
	if bc.HeaderHeight() != h.N() || bc.BlockHeight() != h.N() {
		c.fail("pages-reopen-height", "after the last restart heights are %d/%d, expected %d", bc.BlockHeight(), bc.HeaderHeight(), h.N())
	}
	for _, i := range []uint32{0, 1, 1999, 2000, 2001, 3999, 4000, h.N()} {
		if i <= h.N() && bc.GetHeaderHash(i) != h.hashOf(i) {
			c.fail("pages-reopen-header-hash", "after the last restart GetHeaderHash(%d) is not the canonical hash", i)
		}
	}
	c.seen = append(c.seen, fmt.Sprintf("pages/%d/%s", n, strings.Join(sl, ",")))
	c.samp = append(c.samp, fmt.Sprintf("pages n=%d stops=%s pages=%v fails=%d", n, strings.Join(sl, ","), got, len(c.fails)))
}
