package main

// Commit probes of the persistent backends: the property's quantifier ranges over the ATOMIC batches the
// node issues; that one PutChangeSet / one SeekGC is exactly one committed backend transaction is the
// mechanism "backend batches are transactions" (boltdb_store.go PutChangeSet/SeekGC, leveldb_store.go
// PutChangeSet/SeekGC). It is checked here from OUTSIDE the store, on the database files:
//
//   BoltDB   the txid of the valid meta page with the larger txid (pages 0 and 1 of the file); every
//            committed read-write transaction increases it by one. Both backends are log-structured, so the
//            state a power loss between two commits of one call would leave can be materialised afterwards:
//            a copy of the file whose NEWEST meta page is invalidated opens at the previous transaction
//            (pages freed by a transaction are not reused before the next one starts).
//   LevelDB  the MANIFEST journal: every committed leveldb.Transaction appends one session record that
//            advances the sequence number (table compactions append records that keep it). The crash image
//            is a copy of the directory whose MANIFEST is cut after the first such record of the call.

import (
	"bufio"
	"bytes"
	"encoding/binary"
	"errors"
	"fmt"
	"hash/fnv"
	"io"
	"os"
	"path/filepath"
	"strings"

	"github.com/nspcc-dev/neo-go/pkg/core/storage"
	"github.com/nspcc-dev/neo-go/pkg/core/storage/dbconfig"
	"github.com/syndtr/goleveldb/leveldb/journal"
)

// commitProbe observes the commit counter of a persistent backend.
type commitProbe interface {
	kind() string
	// counter grows by exactly one with every committed backend transaction.
	counter() (uint64, error)
	// imageBeforeLast materialises the database as a crash right before the LAST of the commits
	// counted since `since` would leave it (ok=false: not reconstructible, reason in why).
	imageBeforeLast(since uint64) (db map[string][]byte, ok bool, why string)
}

/* ---------- BoltDB ---------- */

type boltProbe struct{ path string }

func (p *boltProbe) kind() string { return "bolt" }

const (
	boltMagic      = 0xED0CDAED
	boltPageHeader = 16
	boltMetaLen    = 64 // magic, version, pageSize, flags, root{pgid,seq}, freelist, pgid, txid, checksum
)

type boltMeta struct {
	page     int
	pageSize uint32
	txid     uint64
	valid    bool
}

// parseBoltMeta decodes the meta structure that follows the 16-byte page header.
func parseBoltMeta(b []byte) (m boltMeta) {
	if len(b) < boltPageHeader+boltMetaLen {
		return m
	}
	mb := b[boltPageHeader : boltPageHeader+boltMetaLen]
	magic := binary.LittleEndian.Uint32(mb[0:4])
	version := binary.LittleEndian.Uint32(mb[4:8])
	m.pageSize = binary.LittleEndian.Uint32(mb[8:12])
	m.txid = binary.LittleEndian.Uint64(mb[48:56])
	sum := binary.LittleEndian.Uint64(mb[56:64])
	h := fnv.New64a()
	_, _ = h.Write(mb[:56])
	m.valid = magic == boltMagic && version == 2 && sum == h.Sum64()
	return m
}

// boltMetas reads both meta pages of a bolt file.
func boltMetas(path string) (ms [2]boltMeta, err error) {
	f, err := os.Open(path)
	if err != nil {
		return ms, err
	}
	defer f.Close()
	buf := make([]byte, boltPageHeader+boltMetaLen)
	if _, err := f.ReadAt(buf, 0); err != nil {
		return ms, err
	}
	ms[0] = parseBoltMeta(buf)
	ps := int64(os.Getpagesize())
	if ms[0].valid {
		ps = int64(ms[0].pageSize)
	}
	if _, err := f.ReadAt(buf, ps); err != nil {
		return ms, err
	}
	ms[1] = parseBoltMeta(buf)
	ms[1].page = 1
	if !ms[0].valid && ms[1].valid && int64(ms[1].pageSize) != ps {
		if _, err := f.ReadAt(buf, int64(ms[1].pageSize)); err != nil {
			return ms, err
		}
		ms[1] = parseBoltMeta(buf)
		ms[1].page = 1
	}
	if !ms[0].valid && !ms[1].valid {
		return ms, errors.New("no valid bolt meta page")
	}
	return ms, nil
}

func newestMeta(ms [2]boltMeta) boltMeta {
	switch {
	case !ms[1].valid:
		return ms[0]
	case !ms[0].valid:
		return ms[1]
	case ms[1].txid > ms[0].txid:
		return ms[1]
	}
	return ms[0]
}

func (p *boltProbe) counter() (uint64, error) {
	ms, err := boltMetas(p.path)
	if err != nil {
		return 0, err
	}
	return newestMeta(ms).txid, nil
}

func (p *boltProbe) imageBeforeLast(since uint64) (map[string][]byte, bool, string) {
	ms, err := boltMetas(p.path)
	if err != nil {
		return nil, false, err.Error()
	}
	if !ms[0].valid || !ms[1].valid {
		return nil, false, "one meta page only"
	}
	last := newestMeta(ms)
	prev := ms[1-last.page]
	if prev.txid+1 != last.txid || prev.txid <= since {
		return nil, false, "previous meta page is not the previous transaction of this call"
	}
	dir, err := os.MkdirTemp("", "verif-crash-img-*")
	if err != nil {
		return nil, false, err.Error()
	}
	defer os.RemoveAll(dir)
	img := filepath.Join(dir, "db.bolt")
	data, err := os.ReadFile(p.path)
	if err != nil {
		return nil, false, err.Error()
	}
	// the newest meta page did not reach the disk: zero its checksum
	off := int64(last.page)*int64(last.pageSize) + boltPageHeader + 56
	if off+8 > int64(len(data)) {
		return nil, false, "short file"
	}
	for i := int64(0); i < 8; i++ {
		data[off+i] = 0
	}
	if err := os.WriteFile(img, data, 0o600); err != nil {
		return nil, false, err.Error()
	}
	if c, err := (&boltProbe{img}).counter(); err != nil || c != prev.txid {
		return nil, false, "image does not open at the previous transaction"
	}
	st, err := storage.NewBoltDBStore(dbconfig.BoltDBOptions{FilePath: img})
	if err != nil {
		return nil, false, "image: " + err.Error()
	}
	defer st.Close()
	return dumpStore(st), true, ""
}

func dumpStore(st storage.Store) map[string][]byte {
	db := map[string][]byte{}
	for p := 0; p < 256; p++ { // MemoryStore needs a non-empty prefix
		st.Seek(storage.SeekRange{Prefix: []byte{byte(p)}}, func(k, v []byte) bool {
			db[string(k)] = bytes.Clone(v)
			return true
		})
	}
	return db
}

/* ---------- LevelDB ---------- */

type levelProbe struct{ dir string }

func (p *levelProbe) kind() string { return "level" }

// levelRec is what is needed of one MANIFEST session record.
type levelRec struct {
	raw     []byte
	seq     uint64
	hasSeq  bool
	deletes int
}

func decodeLevelRec(raw []byte) (r levelRec, err error) {
	r.raw = raw
	br := bufio.NewReader(bytes.NewReader(raw))
	uv := func() uint64 {
		x, e := binary.ReadUvarint(br)
		if e != nil && err == nil {
			err = e
		}
		return x
	}
	sv := func() {
		if _, e := binary.ReadVarint(br); e != nil && err == nil {
			err = e
		}
	}
	bs := func() {
		n := uv()
		if err == nil {
			if _, e := io.CopyN(io.Discard, br, int64(n)); e != nil {
				err = e
			}
		}
	}
	for err == nil {
		tag, e := binary.ReadUvarint(br)
		if e == io.EOF {
			return r, nil
		}
		if e != nil {
			return r, e
		}
		switch tag {
		case 1: // comparer
			bs()
		case 2, 3, 9: // journal number, next file number, previous journal number
			sv()
		case 4: // sequence number
			r.seq, r.hasSeq = uv(), true
		case 5: // compaction pointer
			uv()
			bs()
		case 6: // deleted table
			uv()
			sv()
			r.deletes++
		case 7: // added table
			uv()
			sv()
			sv()
			bs()
			bs()
		default:
			return r, fmt.Errorf("unknown session record field %d", tag)
		}
	}
	return r, err
}

func (p *levelProbe) manifest() (string, error) {
	cur, err := os.ReadFile(filepath.Join(p.dir, "CURRENT"))
	if err != nil {
		return "", err
	}
	return strings.TrimSpace(string(cur)), nil
}

func (p *levelProbe) records() ([]levelRec, error) {
	name, err := p.manifest()
	if err != nil {
		return nil, err
	}
	data, err := os.ReadFile(filepath.Join(p.dir, name))
	if err != nil {
		return nil, err
	}
	jr := journal.NewReader(bytes.NewReader(data), nil, false, true)
	var recs []levelRec
	for {
		r, err := jr.Next()
		if err == io.EOF {
			return recs, nil
		}
		if err != nil {
			return nil, err
		}
		raw, err := io.ReadAll(r)
		if err != nil {
			return recs, nil // a record still being appended by a background compaction
		}
		rec, err := decodeLevelRec(raw)
		if err != nil {
			return nil, err
		}
		recs = append(recs, rec)
	}
}

// commitIdx returns the indexes of the records that advance the sequence number (= committed transactions;
// the first record of a MANIFEST is the snapshot it was created with).
func commitIdx(recs []levelRec) []int {
	var (
		res []int
		cur uint64
	)
	for i, r := range recs {
		if i == 0 {
			cur = r.seq
			continue
		}
		if r.hasSeq && r.seq > cur {
			cur = r.seq
			res = append(res, i)
		}
	}
	return res
}

func (p *levelProbe) counter() (uint64, error) {
	recs, err := p.records()
	if err != nil {
		return 0, err
	}
	return uint64(len(commitIdx(recs))), nil
}

func (p *levelProbe) imageBeforeLast(since uint64) (map[string][]byte, bool, string) {
	recs, err := p.records()
	if err != nil {
		return nil, false, err.Error()
	}
	ci := commitIdx(recs)
	if uint64(len(ci)) < since+2 {
		return nil, false, "fewer than two commits in this call"
	}
	cut := ci[len(ci)-1] // records [0, cut) survive
	for _, r := range recs[cut:] {
		if r.deletes > 0 {
			return nil, false, "a table compaction removed tables after the cut"
		}
	}
	name, err := p.manifest()
	if err != nil {
		return nil, false, err.Error()
	}
	dir, err := os.MkdirTemp("", "verif-crash-img-*")
	if err != nil {
		return nil, false, err.Error()
	}
	defer os.RemoveAll(dir)
	ents, err := os.ReadDir(p.dir)
	if err != nil {
		return nil, false, err.Error()
	}
	for _, e := range ents {
		if e.IsDir() || e.Name() == "LOCK" || e.Name() == name {
			continue
		}
		data, err := os.ReadFile(filepath.Join(p.dir, e.Name()))
		if err != nil {
			return nil, false, err.Error()
		}
		if err := os.WriteFile(filepath.Join(dir, e.Name()), data, 0o600); err != nil {
			return nil, false, err.Error()
		}
	}
	var mf bytes.Buffer
	jw := journal.NewWriter(&mf)
	for _, r := range recs[:cut] {
		w, err := jw.Next()
		if err != nil {
			return nil, false, err.Error()
		}
		if _, err := w.Write(r.raw); err != nil {
			return nil, false, err.Error()
		}
	}
	if err := jw.Close(); err != nil {
		return nil, false, err.Error()
	}
	if err := os.WriteFile(filepath.Join(dir, name), mf.Bytes(), 0o600); err != nil {
		return nil, false, err.Error()
	}
	st, err := storage.NewLevelDBStore(dbconfig.LevelDBOptions{DataDirectoryPath: dir})
	if err != nil {
		return nil, false, "image: " + err.Error()
	}
	defer st.Close()
	return dumpStore(st), true, ""
}
